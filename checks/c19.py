"""C19 - mjData stack / arena allocation is memory-safe.

StackArena.tla (W-bit word arithmetic) is decided by TLC; its behaviours are replayed call by call on a real
mjData (spec -> code) and allocator events recorded from the real engine / from real concurrent threads are
explained by StackArenaTrace.tla (code -> spec)."""
import concurrent.futures as cf
import json
import os
import random

from vlib import build, tlc, drv
from vlib.check import Machinery, VERIF

TLA = os.path.join(VERIF, "tla")
SPEC = os.path.join(TLA, "StackArena.tla")
TSPEC = os.path.join(TLA, "StackArenaTrace.tla")
HARNESS = [os.path.join(VERIF, "harness", "arena_drv.cc")]
W_REPLAY = 16
M_REPLAY = 1 << W_REPLAY
BASE = 64

META = dict(
    engine="tlc-replay",
    technique="TLA+ spec StackArena.tla of mj_markStack/mj_freeStack/mj_stackAllocByte/mj_arenaAllocByte (+ thread-lock "
              "reservations) on a W-bit machine, model-checked by TLC for all byte sizes; spec behaviours (edge cover of the "
              "state graph + simulation) replayed on a real mjData comparing result, pstack, parena, pbase after every "
              "call; allocator events of real mj_step/mj_forward/... runs and of real concurrent threads validated by "
              "StackArenaTrace.tla",
    text="TLC decides InArena, Aligned, Disjoint, Apart, FreeRestores, ErrorIsClean for every well-nested call sequence "
         "up to the bound, every size 0..2^W-1 and power-of-two alignment <= 64, with 2 concurrent reservers; the "
         "contract's results are compared with the real allocator (plain and AddressSanitizer builds, sizes up to "
         "SIZE_MAX), and the engine's own allocation traces are explained by the same actions, including the rule "
         "that every public call returns with the stack pointer it started with.",
    note="Trusted: TLC, harness arena_drv.cc (symbol interposition for the traces), the size map 2^16-k -> 2^64-k. "
         "Alignments above 64 (the arena base is only 64-byte aligned), non power-of-two alignments and arena "
         "allocation from pool threads are outside the explored space; after a stack overflow raised under the thread "
         "lock only the error itself is compared (pstack is then meaningless by construction of the fetch-add).",
    ref="DESIGN.md section 4 C19, appendix B, section 7 item 3")

MODEL_MIN = ["model 0", "body name=b1 pos=0,0,1", "joint body=b1 type=2 axis=0,0,1", "geom body=b1 type=2 size=0.1,0,0", "end"]

OPCMD = {"mark": "a.mark", "free": "a.free", "aclear": "a.aclear", "reset": "a.reset", "lock": "a.lock",
         "unlock": "a.unlock", "tmark": "a.tmark", "tfree": "a.tfree", "alloc": "a.alloc", "aalloc": "a.aalloc",
         "treserve": "a.talloc"}


def real_size(s):
    return s if s < M_REPLAY // 2 else (1 << 64) - (M_REPLAY - s)


def size_class(ev):
    if "size" not in ev:
        return "-"
    return "huge" if ev["size"] >= M_REPLAY // 2 else ("zero" if ev["size"] == 0 else "small")


def beh_script(states):
    """states: list of spec states (first = initial). Returns (lines, expectations).
    expectation = (ev, want_st, want_ret or None, (pstack, parena, pbase_off) or None)"""
    lines = ["a.narena 0 %d" % states[0]["narena"], "data 0 0"]
    exp = [None, None]
    blind = False            # after an overflow raised under the lock nothing but the error is specified
    for st in states[1:]:
        ev = st["ev"]
        op = ev["op"]
        if op == "tfinish":
            continue         # the real call was issued at the reservation; its result is in that ev
        cmd = OPCMD.get(op)
        if cmd is None:
            raise Machinery("unknown spec op %r" % (ev,))
        if "size" in ev:
            lines.append("%s 0 %d %d" % (cmd, real_size(ev["size"]), ev["al"]))
        else:
            lines.append("%s 0" % cmd)
        if op == "reset":
            blind = False
        if blind:
            exp.append(("skip", ev))
            continue
        want_st = "ok" if ev["st"] == "noop" else ev["st"]
        state = (st["pstack"], st["parena"], -1 if st["pbase"] == 0 else st["pbase"] - BASE)
        if op == "treserve" and ev["st"] == "err":
            state = None
            blind = True
        exp.append(("cmp", ev, want_st, ev["ret"] if ev["st"] == "ok" else 0, state))
    # leave no frame behind: the asan build refuses to delete an mjData whose stack is still marked
    lines.append("a.reset 0")
    exp.append(("skip", {"op": "reset"}))
    return lines, exp


def compare(exp, got):
    """first mismatch as (index, ev, kind, want, got) or None"""
    for i, e in enumerate(exp):
        if e is None:
            if i >= len(got) or got[i] != "ok":
                return i, {"op": "setup"}, "setup", "ok", got[i] if i < len(got) else "<no output>"
            continue
        if i >= len(got):
            return i, e[1], "crash", "-", "<no output>"
        if e[0] == "skip":
            continue
        _, ev, want_st, want_ret, state = e
        f = got[i].split()
        if len(f) != 5:
            return i, ev, "protocol", "-", got[i]
        if f[0] != want_st:
            return i, ev, "status", want_st, f[0]
        if want_st == "ok" and ev["op"] in ("alloc", "aalloc", "treserve", "mark", "lock") and int(f[1]) != want_ret:
            return i, ev, "ret", str(want_ret), f[1]
        if state is not None:
            for k, nm in enumerate(("pstack", "parena", "pbase")):
                if int(f[2 + k]) != state[k]:
                    return i, ev, nm, str(state[k]), f[2 + k]
    return None


MAX_CRASHES = 4


class SetupDied(Exception):
    """the library died while compiling the two-line model / making its mjData"""


def run_behaviours(exe, scripts, risky, timeout=900):
    """run many behaviour scripts in one harness process; a crash loses only the behaviour that crashed.
    After MAX_CRASHES crashes the remaining `risky` behaviours (those with a near-SIZE_MAX request, the only class
    that can take the sanitizer runtime down) are dropped: they are neither evaluated nor counted.
    Returns list of (outputs, crash_text or None) or None (dropped) per behaviour."""
    res = [None] * len(scripts)
    todo = list(range(len(scripts)))
    ncrash = 0
    while todo:
        lines = list(MODEL_MIN)
        offs = []
        for b in todo:
            offs.append(len(lines) - len(MODEL_MIN) + 1)      # "model" block prints one line
            lines += scripts[b]
        r = drv.run_script(exe, lines, timeout=timeout)
        out = r.lines
        if (not out or out[0] != "ok") and r.crashed:
            raise SetupDied(r.crash_text())
        if not out or out[0] != "ok":
            raise Machinery("harness could not build the model: %r" % (out[:1],))
        nxt = []
        culprit = res_first_incomplete(out, offs, scripts, todo) if r.crashed else None
        for k, b in enumerate(todo):
            o = out[offs[k]:offs[k] + len(scripts[b])]
            if len(o) == len(scripts[b]):
                res[b] = (o, None)
            elif k == culprit:
                res[b] = (o, r.crash_text())
            else:
                nxt.append(b)
        if not r.crashed and nxt:
            raise Machinery("harness produced too few lines without crashing")
        if r.crashed:
            ncrash += 1
            if ncrash == MAX_CRASHES:
                nxt = [b for b in nxt if not risky[b]]
            if ncrash > MAX_CRASHES + 3:
                break            # the library is badly broken: the crashes recorded so far are the verdict
        todo = nxt
    return res


def res_first_incomplete(out, offs, scripts, todo):
    for k, b in enumerate(todo):
        if offs[k] + len(scripts[b]) > len(out):
            return k
    return None


def sig_of(mm, variant):
    i, ev, kind, want, got = mm
    pre = "" if variant == "plain" else variant + ":"
    op = {"treserve": "talloc"}.get(ev["op"], ev["op"])
    if kind == "status":
        return "%s%s:%s:want=%s:got=%s" % (pre, op, size_class(ev), want, got)
    return "%s%s:%s:%s" % (pre, op, size_class(ev), kind)


def describe(states, mm):
    i, ev, kind, want, got = mm
    hist = []
    for st in states[1:]:
        e = st["ev"]
        if e["op"] == "tfinish":
            continue
        hist.append("%s(%s)" % (e["op"], ",".join(str(real_size(e[k]) if k == "size" else e[k]) for k in ("size", "al") if k in e)))
    return "narena=%d: after %s the specification wants %s=%s, the library gave %s" % (
        states[0]["narena"], " ".join(hist[:i - 1]), kind, want, got)


def replay_variant(ctx, variant, exe, behs, tag):
    scripts, exps = [], []
    for b in behs:
        l, e = beh_script(b)
        scripts.append(l)
        exps.append(e)
    risky = [any(size_class(st["ev"]) == "huge" for st in b[1:]) for b in behs]
    try:
        results = run_behaviours(exe, scripts, risky)
    except SetupDied as e:
        ctx.case({"variant": variant, "setup": "died"})
        ctx.violation("%s:setup:died" % variant, "%s build: the library died while compiling a one-body model (mj_compile runs "
                      "the engine): %s" % (variant, str(e)[:300]), {"variant": variant, "script": [], "first_bad_line": 0,
                                                                  "kind": "crash", "want": "-", "got": "-", "expect": []})
        return scripts, exps, [None] * len(scripts)
    nviol = 0
    for b, rr in enumerate(results):
        if rr is None:
            continue
        out, crash = rr
        ops = [tlc.to_py(s["ev"]) for s in behs[b][1:] if s["ev"]["op"] != "tfinish"]
        key = {"variant": variant, "narena": behs[b][0]["narena"], "ops": ops}
        ctx.case(key, nontrivial=len(ops) > 0, sample={"variant": variant, "narena": behs[b][0]["narena"], "ops": ops[:5]})
        mm = compare(exps[b], out)
        if mm is None:
            ctx.trace_ok()
            continue
        nviol += 1
        sig = sig_of(mm, variant)
        what = describe(behs[b], mm)
        if crash and mm[2] == "crash":
            what += " (harness died: %s)" % crash[:200]
        ctx.violation(sig, what, {"variant": variant, "script": scripts[b], "first_bad_line": mm[0], "kind": mm[2],
                                  "want": mm[3], "got": mm[4],
                                  "expect": [None if e is None else (list(e[:1]) + [tlc.to_py(x) for x in e[1:]]) for e in exps[b]]})
    return scripts, exps, results


def graph_behaviours(ctx, job, name):
    res, nodes, edges, inits = job
    ctx.tlc_ok(res, name)
    # TLC's node ids (fingerprints) and dump order change from run to run: order everything by state content
    key = {i: json.dumps(tlc.to_py(st), sort_keys=True) for i, st in nodes.items()}
    edges = sorted(edges, key=lambda e: (key[e[0]], key[e[1]], e[2]))
    paths = tlc.edge_cover_paths(nodes, edges, sorted(inits, key=lambda i: key[i]))
    return [[nodes[i] for i in p] for p in paths], len(edges)


def sim_behaviours(ctx, job, name):
    res, sims = job
    ctx.tlc_ok(res, name)
    return [[s for (_a, s) in b] for b in sims]


# ---------------------------------------------------------------------------------------------------------
# code -> spec: recorded traces
TRACE_MODELS = {
    "spheres": ["option timestep=0.01", "geom type=0 size=5,5,0.1",
                "body name=b1 pos=0,0,0.09", "joint body=b1 type=0", "geom body=b1 type=2 size=0.1,0,0",
                "body name=b2 pos=0.15,0,0.09", "joint body=b2 type=0", "geom body=b2 type=2 size=0.1,0,0"],
    "arm": ["option timestep=0.01", "geom type=0 size=5,5,0.1",
            "body name=a1 pos=0,0,0.5", "joint body=a1 name=j1 type=3 axis=0,1,0 limited=1 range=-0.2,0.2 frictionloss=0.1",
            "geom body=a1 type=3 size=0.05,0.2,0 fromto=0,0,0,0.4,0,0",
            "body name=a2 parent=a1 pos=0.4,0,0", "joint body=a2 name=j2 type=3 axis=0,1,0 ref=0.5",
            "geom body=a2 type=3 size=0.05,0.2,0 fromto=0,0,0,0.4,0,0", "site body=a2 name=s2 pos=0.4,0,0",
            "body name=a3 pos=0.8,0,0.02", "joint body=a3 type=0", "geom body=a3 type=6 size=0.05,0.05,0.05",
            "site body=a1 name=s1 pos=0,0,0.1",
            "tendon name=t1 limited=1 range=0,0.3", "wrapsite tendon=t1 site=s1", "wrapsite tendon=t1 site=s2",
            "equality name=e1 type=2 objtype=3 name1=j1 name2=j2 data=0,1,0,0,0",
            "actuator name=m1 trntype=0 target=j1 gainprm=1"],
    "multi": ["option timestep=0.01", "geom type=0 size=5,5,0.1",
              "body name=c1 pos=0,0,0.2", "joint body=c1 type=0",
              "geom body=c1 type=2 size=0.1,0,0 pos=0,0,0", "geom body=c1 type=2 size=0.1,0,0 pos=0.15,0,0",
              "geom body=c1 type=6 size=0.1,0.1,0.1 pos=0,0.2,0", "geom body=c1 type=3 size=0.05,0.1,0 pos=0,-0.2,0",
              "body name=c2 pos=0.05,0.05,0.38", "joint body=c2 type=0",
              "geom body=c2 type=2 size=0.1,0,0 pos=0,0,0", "geom body=c2 type=2 size=0.1,0,0 pos=0.15,0,0",
              "geom body=c2 type=6 size=0.1,0.1,0.1 pos=0,0.2,0", "geom body=c2 type=4 size=0.1,0.05,0.08 pos=0,-0.2,0"],
}
TRACE_OPTIONS = [
    "", "option integrator=1", "option integrator=2 solver=1", "option integrator=3 cone=1", "option solver=0 noslip_iterations=2",
    "option jacobian=1", "option jacobian=0 cone=1 solver=1", "option disableflags=262144", "option disableflags=16384", "option enableflags=26",
]
PUBLIC_CALLS = ("forward,step,step,inverse,step1,step2,kinematics,comPos,crb,factorM,collision,makeConstraint,island,"
                "projectConstraint,referenceConstraint,fwdPosition,fwdVelocity,fwdActuation,fwdAcceleration,fwdConstraint,"
                "sensorPos,sensorVel,sensorAcc,energyPos,energyVel,comVel,rne,rnePostConstraint,fullM,jacBody,contactForce,"
                "constraintUpdate,getState,ray,geomDistance,Euler,forward,implicit,forward,RungeKutta,resetData,step")


def record_seq_traces(ctx, exe_tr, quick, rng):
    combos = []
    for mn in sorted(TRACE_MODELS):
        for oi, opt in enumerate(TRACE_OPTIONS):
            combos.append((mn, oi))
    if quick:
        combos = [c for k, c in enumerate(combos) if k % 4 == 0]
    traces = []
    for (mn, oi) in combos:
        narena = rng.choice([1 << 16, 100000, 250001, 1 << 19])
        desc = TRACE_MODELS[mn] + ([TRACE_OPTIONS[oi]] if TRACE_OPTIONS[oi] else [])
        lines = ["model 0"] + desc + ["end", "a.narena 0 %d" % narena, "data 0 0", "a.trace 0 " + PUBLIC_CALLS]
        r = drv.run_script(exe_tr, lines, timeout=600)       # one process per model: a crash is an observation
        if r.crashed or len(r.lines) != 4:
            ctx.case({"trace": "seq", "model": mn, "opt": TRACE_OPTIONS[oi], "narena": narena, "died": True})
            ctx.violation("trace:died", "model %s [%s] narena=%d: the library died (%s) while the public calls %s were traced"
                          % (mn, TRACE_OPTIONS[oi], narena, r.crash_text()[:200] if r.crashed else "short output", PUBLIC_CALLS[:60]),
                          {"trace_script": lines})
            continue
        if r.lines[:3] != ["ok", "ok", "ok"]:
            raise Machinery("trace harness setup failed for %s/%d: %r" % (mn, oi, r.lines[:3]))
        traces.append({"kind": "seq", "narena": narena, "ev": json.loads(r.lines[3]), "th": [[], [], []],
                       "model": mn, "opt": TRACE_OPTIONS[oi]})
    return traces


def record_burst_traces(exe, n, rng):
    lines, meta = list(MODEL_MIN), []
    for _ in range(n):
        narena = rng.choice([4096, 5000, 8191])
        nthr = rng.choice([2, 3, 3])
        plan = []
        for _t in range(nthr):
            plan.append([(rng.choice([1, 2, 3, 5, 8, 13, 24, 40, 64, 100]), rng.choice([1, 2, 4, 8, 16, 32, 64]))
                         for _k in range(rng.choice([2, 3, 4]))])
        pre = rng.choice([0, 8, 100])
        cmds = ["a.narena 0 %d" % narena, "data 0 0"]
        if pre:
            cmds.append("a.aalloc 0 %d 8" % pre)
        cmds += ["a.lock 0", "a.tburst 0 " + ";".join(",".join("%d:%d" % sa for sa in th) for th in plan), "a.unlock 0"]
        meta.append((narena, plan, pre, len(lines) - len(MODEL_MIN) + 1, len(cmds)))
        lines += cmds
    r = drv.run_script(exe, lines, timeout=600)
    if r.crashed:
        return None, lines, r.crash_text()
    traces = []
    for (narena, plan, pre, off, ncmd) in meta:
        o = r.lines[off:off + ncmd]
        if len(o) != ncmd:
            raise Machinery("burst harness: missing output")

        def st_ev(op, line, pa0, **kw):
            f = line.split()
            e = {"op": op, "st": f[0], "ret": int(f[1]), "pstack": int(f[2]), "parena": int(f[3]), "pbase": int(f[4]),
                 "pa0": pa0, "size": 0, "al": 1}
            e.update(kw)
            return e
        evs = []
        k = 2
        pa = 0
        if pre:
            evs.append(st_ev("aalloc", o[k], 0, size=pre, al=8))
            pa = pre
            k += 1
        evs.append(st_ev("lock", o[k], pa))
        burst = o[k + 1]
        parts = [p.strip() for p in burst.split(";")]
        head = parts[0].split()
        p1 = int(head[3])
        th = [[], [], []]
        for t, p in enumerate(parts[1:1 + len(plan)]):
            offs = [int(x) for x in p.split()[1].split(",")]
            th[t] = [{"size": s, "al": a, "ret": off_} for (s, a), off_ in zip(plan[t], offs)]
        clobber = int(parts[-1].split()[1])
        evs.append(st_ev("unlock", o[k + 2], pa, p1=p1))
        traces.append({"kind": "burst", "narena": narena, "ev": evs, "th": th, "clobber": clobber})
    return traces, lines, None


# a burst as the unmodified library produces it (used for the negative control when no burst could be recorded)
BURST_CONTROL = {"kind": "burst", "narena": 4096, "th": [[{"size": 8, "al": 8, "ret": 4064}], [{"size": 5, "al": 1, "ret": 4052}], []],
                 "ev": [{"op": "lock", "st": "ok", "ret": 4072, "pstack": 24, "parena": 0, "pbase": 4072, "pa0": 0, "size": 0, "al": 1},
                        {"op": "unlock", "st": "ok", "ret": 0, "pstack": 0, "parena": 0, "pbase": -1, "pa0": 0, "size": 0, "al": 1, "p1": 44}]}


def _e(op, pstack, pbase, **kw):
    e = {"op": op, "pstack": pstack, "parena": 0, "pa0": 0, "pbase": pbase, "size": 0, "al": 1, "st": "ok", "ret": 0}
    e.update(kw)
    return e


# a minimal engine trace as the unmodified library produces it (negative controls when none could be recorded)
SEQ_CONTROL = {"kind": "seq", "narena": 1000, "th": [[], [], []], "model": "-", "opt": "-",
               "ev": [_e("call", 0, -1, name="x"), _e("mark", 24, 976, ret=976), _e("alloc", 40, 976, size=16, al=8, ret=960),
                      _e("alloc", 48, 976, size=8, al=8, ret=952), _e("free", 0, -1), _e("ret", 0, -1, name="x")]}


def slim(traces):
    return [{k: t[k] for k in ("kind", "narena", "ev", "th")} for t in traces]


def validate(ctx, job, ntraces, name):
    """returns {index: (reached, total)}; trace indices are 0-based here"""
    res, verd = job
    if len(verd) != ntraces:
        raise Machinery("trace validation %s did not report every trace: %s\n%s" % (name, res.error, res.out[-2000:]))
    if res.error and "Postcondition" in res.error:
        res.error = None          # some trace was rejected: that is the verdict, not a failure of the run
        res.finished = True
    ctx.tlc_ok(res, name)
    return {t - 1: v for t, v in verd.items()}


def first_calls(ev, upto):
    name = "?"
    for e in ev[:max(upto, 1)]:
        if e["op"] == "call":
            name = e["name"]
    return name


def run(ctx):
    exe = build.build_harness("arena_drv", HARNESS)
    exe_tr = build.build_harness("arena_drv_tr", HARNESS, extra=["-DARENA_TRACE"])
    exe_asan = build.build_harness("arena_drv", HARNESS, variant="asan")
    rng = random.Random(ctx.seed + 19)
    ctx.assume("word size W = 7 / 8 for the exhaustive design runs (every byte count 0..2^W-1), W = 16 for the replayed "
               "configurations whose sizes 2^16-k stand for 2^64-k on the real machine",
               "alignments are powers of two <= 64 (mju_malloc aligns the arena to 64 bytes)",
               "mjData is created for a model whose narena is set to N, the compiled form of <size memory=N/>",
               "pool-thread allocations are linearised at their atomic fetch-add; the sequential replay issues them in "
               "that order, real concurrent threads are checked through StackArenaTrace (search for an order)",
               "arena allocation and mark/free from pool threads while the lock is held are not modelled (mark/free: no-ops)")

    # ---- recorded traces first (cheap), then every TLC job at once
    seq = record_seq_traces(ctx, exe_tr, ctx.quick, rng)
    bursts, blines, bcrash = record_burst_traces(exe, 25 if ctx.quick else 300, rng)
    if bursts is None:
        ctx.case({"trace": "burst", "died": True})
        ctx.violation("burst:died", "the library died (%s) while real threads allocated under the thread lock" % bcrash[:200],
                      {"burst_script": blines})
        bursts = []
    traces = seq + bursts
    # controls appended to the batch: (a) a block returned 8 bytes off, (b) a call returning with a deeper stack,
    # (c) a burst in which two threads got the same block
    seq0 = seq[0] if seq else SEQ_CONTROL
    c1 = json.loads(json.dumps(seq0))
    ia = [i for i, e in enumerate(c1["ev"]) if e["op"] == "alloc" and e["st"] == "ok"]
    c1["ev"][ia[len(ia) // 2]]["ret"] += 8
    c2 = json.loads(json.dumps(seq0))
    ir = next(i for i, e in enumerate(c2["ev"]) if e["op"] == "ret")
    c2["ev"][ir]["pstack"] += 24
    c3 = json.loads(json.dumps(bursts[0])) if bursts else BURST_CONTROL
    c3["th"][1][0]["ret"] = c3["th"][0][0]["ret"]
    c3["th"][1][0]["size"] = c3["th"][0][0]["size"]
    c3["th"][1][0]["al"] = c3["th"][0][0]["al"]
    cfgp = lambda n: os.path.join(TLA, n)
    mc = "StackArena_MCq.cfg" if ctx.quick else "StackArena_W8.cfg"
    nsim = 200 if ctx.quick else 4000
    controls = ("All",) if ctx.quick else ("Stack", "Arena", "Thread")
    J = {}
    with cf.ThreadPoolExecutor(10) as ex:
        J["mc"] = ex.submit(tlc.run, SPEC, cfgp(mc), coverage=True, timeout=2400, workers=8)
        for site in controls:
            J[site] = ex.submit(tlc.run, SPEC, cfgp("StackArena_Code%s.cfg" % site), timeout=900, workers=1)
        J["graph"] = ex.submit(tlc.dump_graph, SPEC, cfgp("StackArena_GraphQ.cfg" if ctx.quick else "StackArena_Graph.cfg"), 4, 1800)
        if not ctx.quick:
            J["graph3"] = ex.submit(tlc.dump_graph, SPEC, cfgp("StackArena_Graph3.cfg"), 4, 1800)
        J["pad"] = ex.submit(tlc.dump_graph, SPEC, cfgp("StackArena_Pad.cfg"), 4, 1800)
        J["sim"] = ex.submit(tlc.simulate, SPEC, cfgp("StackArena_Sim.cfg"), nsim, 18, ctx.seed + 1, 1800)
        J["trace"] = ex.submit(tlc.validate_traces, TSPEC, cfgp("StackArenaTrace.cfg"), slim(traces + [c1, c2, c3]), 2400)
        J = {k: v.result() for k, v in J.items()}

    # ---- 1. design: exhaustive run of the contract; the code's literal arithmetic as negative control
    ctx.tlc_ok(J["mc"], mc[:-4], need_actions=["Alloc", "Mark", "Free", "ArenaAlloc", "LockOn", "TReserve", "TFinish"])
    for site in controls:
        r = J[site]
        ctx.tlc_ok(r, "StackArena_Code" + site, allow_violation=True)
        ctx.control("TLC finds the wrap-around of the code's literal arithmetic (sites: %s) at W=8: an invariant is violated" % site.lower(),
                    r.violation is not None and "Invariant" in r.violation)

    # ---- 2. spec -> code: replay on the real allocator (rz = 0: plain build, rz = 32: AddressSanitizer build)
    behs, nedges = graph_behaviours(ctx, J["graph"], "StackArena_Graph")
    if not ctx.quick:
        b3, n3 = graph_behaviours(ctx, J["graph3"], "StackArena_Graph3")
        behs += b3
        nedges += n3
    # the padding lattice: every byte count 0..20 x alignment {1, 8} twice on a 20-byte arena (not a multiple of 8)
    bpad, npad = graph_behaviours(ctx, J["pad"], "StackArena_Pad")
    behs += bpad
    nedges += npad
    sims = sim_behaviours(ctx, J["sim"], "StackArena_Sim")
    allb = [b for b in behs + sims if b[0]["rz"] == 0]
    # vacuity guard: each relation between alignment padding, request and free space must be replayed, in particular
    # "sum" = padding > 0, padding <= free and bytes <= free but padding + bytes > free
    rels = {}
    for b in allb:
        for st in b[1:]:
            if st["ev"]["op"] == "aalloc":
                rels[st["ev"]["rel"]] = rels.get(st["ev"]["rel"], 0) + 1
    for rel in ("fit", "bytes", "pad", "sum"):
        if not rels.get(rel):
            raise Machinery("vacuity: no replayed arena allocation of class %r (padding/bytes/free relation)" % rel)
    ctx.notes.append("arena allocation classes replayed: %r" % rels)
    scripts, exps, results = replay_variant(ctx, "plain", exe, allb, "plain")
    # negative controls on the comparer: a perturbed library answer must be flagged
    k = next((i for i, b in enumerate(allb) if results[i] is not None and any(e is not None and e[0] == "cmp" and e[4] is not None and e[1]["op"] == "alloc" and e[2] == "ok"
                                                  for e in exps[i]) and compare(exps[i], results[i][0]) is None), None)
    if k is None:          # nothing replayed cleanly (violations are already recorded): use a synthetic clean answer
        k = 0
        scripts, exps = [["a.narena 0 100", "data 0 0", "a.alloc 0 8 8", "a.reset 0"]], [[None, None, ("cmp", {"op": "alloc", "size": 8, "al": 8}, "ok", 88, (12, 0, -1)), ("skip", {"op": "reset"})]]
        results = [(["ok", "ok", "ok 88 12 0 -1", "ok 0 0 0 -1"], None)]
    j = next(i for i, e in enumerate(exps[k]) if e is not None and e[0] == "cmp" and e[1]["op"] == "alloc" and e[2] == "ok")
    bad = list(results[k][0])
    f = bad[j].split()
    f[1] = str(int(f[1]) + 8)
    bad[j] = " ".join(f)
    ctx.control("a returned block shifted by 8 bytes is flagged", compare(exps[k], bad) is not None)
    bad = list(results[k][0])
    f = bad[j].split()
    f[2] = str(int(f[2]) + 1)
    bad[j] = " ".join(f)
    ctx.control("a stack pointer off by one is flagged", compare(exps[k], bad) is not None)
    # asan build: red zones of 32 bytes around every stack block.  A near-SIZE_MAX request that slips through the
    # capacity test makes the sanitizer runtime itself abort (unpoisoning 2^64 bytes), so those behaviours are cut
    # just before their first such request; the requests themselves are judged on the plain build above.
    abehs = []
    for b in behs + sims:
        if b[0]["rz"] != 32:
            continue
        cut = next((i for i, st in enumerate(b) if i > 0 and size_class(st["ev"]) == "huge"), len(b))
        if cut > 1:
            abehs.append(b[:cut])
    replay_variant(ctx, "asan", exe_asan, abehs, "asan")

    # ---- 3. code -> spec: the engine's own allocator traffic and real concurrent threads
    verd = validate(ctx, J["trace"], len(traces) + 3, "StackArenaTrace")
    n = len(traces)
    ctx.control("trace with a block 8 bytes off is rejected", verd[n][0] < verd[n][1])
    ctx.control("trace of a call returning with a deeper stack is rejected", verd[n + 1][0] < verd[n + 1][1])
    ctx.control("burst in which two threads received the same block is rejected", verd[n + 2][0] < verd[n + 2][1])
    for i, t in enumerate(traces):
        reached, total = verd[i]
        if t["kind"] == "seq":
            calls = [e["name"] for e in t["ev"] if e["op"] == "call"]
            for c in calls:
                ctx.case({"trace": "seq", "model": t["model"], "opt": t["opt"], "narena": t["narena"], "call": c, "i": i},
                         sample={"model": t["model"], "opt": t["opt"], "call": c})
            if reached == total:
                ctx.trace_ok()
                continue
            e = t["ev"][reached] if reached < len(t["ev"]) else {"op": "end"}
            call = first_calls(t["ev"], reached + 1)
            kind = "unbalanced-return" if e["op"] == "ret" else "unexplained-" + e["op"]
            ctx.violation("trace:%s:%s" % (call, kind),
                          "model %s [%s] narena=%d: event %d of the recorded allocator trace (%s) inside mj_%s is not a "
                          "behaviour of StackArena" % (t["model"], t["opt"], t["narena"], reached + 1, json.dumps(e), call),
                          {"trace": {k: t[k] for k in ("kind", "narena", "ev", "th")}, "reached": reached})
        else:
            ctx.case({"trace": "burst", "narena": t["narena"], "i": i, "th": [[(x["size"], x["al"]) for x in th] for th in t["th"]]},
                     sample={"burst": [[(x["size"], x["al"]) for x in th] for th in t["th"]]})
            if t["clobber"]:
                ctx.violation("burst:clobber", "a block handed to one thread was overwritten by another thread: %s" % json.dumps(t["th"]),
                              {"trace": {k: t[k] for k in ("kind", "narena", "ev", "th")}})
            elif reached == total:
                ctx.trace_ok()
            else:
                ctx.violation("burst:no-linearisation",
                              "narena=%d: no order of the atomic reservations explains the blocks returned to the threads %s"
                              % (t["narena"], json.dumps(t["th"])),
                              {"trace": {k: t[k] for k in ("kind", "narena", "ev", "th")}, "reached": reached})
    ctx.cov["exhaustive"] = True
    ctx.cov["rule"] = ("design: every call sequence up to the bound over %s x alignments {1,8,16}; "
                       "replay: edge cover of the W=16 state graph (%d transitions; sizes {0..100} and 2^64-k) plus "
                       "%d simulated behaviours of depth 18 (sizes <=160 and 2^64-k, alignments 1..64, arenas 40/96/100/157 "
                       "bytes plain and 200/333 bytes asan with 32-byte red zones, 2 reserving threads); result, pstack, parena, pbase compared after every call; "
                       "traces: %d recorded engine traces (%d public calls) and %d real 2-3 thread bursts explained by "
                       "StackArenaTrace; non-trivial = at least one call; distinct = distinct call sequences / calls"
                       % ("byte sizes 0..50 on a 40-byte arena" if ctx.quick else "ALL byte sizes 0..255 (W=8) on a 96-byte arena", nedges, len(sims), len(seq),
                          sum(1 for t in seq for e in t["ev"] if e["op"] == "call"), len(bursts)))


def replay(ctx, rp):
    r = rp["replay"]
    if "script" in r:
        variant = r.get("variant", "plain")
        exe = build.build_harness("arena_drv", HARNESS, variant=variant)
        out = drv.run_script(exe, MODEL_MIN + r["script"]).lines[1:]
        i = r["first_bad_line"]
        got = out[i] if i < len(out) else "<no output>"
        print("line %d (%s): %s: specification wants %s=%s, library answered: %s" % (i, r["script"][i], variant, r["kind"], r["want"], got))
        exp = [None if e is None else tuple(e) for e in r["expect"]]
        if compare(exp, out) is not None:
            ctx.violation(rp["signature"], rp["what"], r)
    elif "burst_script" in r:
        rr = drv.run_script(build.build_harness("arena_drv", HARNESS), r["burst_script"], timeout=600)
        print("burst run: rc=%s" % rr.rc)
        if rr.crashed:
            ctx.violation(rp["signature"], rp["what"], r)
    elif "trace_script" in r:
        exe = build.build_harness("arena_drv_tr", HARNESS, extra=["-DARENA_TRACE"])
        rr = drv.run_script(exe, r["trace_script"], timeout=600)
        print("trace run: rc=%s, %d lines" % (rr.rc, len(rr.lines)))
        if rr.crashed or len(rr.lines) != 4:
            ctx.violation(rp["signature"], rp["what"], r)
    else:
        verd = validate(ctx, tlc.validate_traces(TSPEC, os.path.join(TLA, "StackArenaTrace.cfg"), [dict(r["trace"])]), 1,
                        "StackArenaTrace(replay)")
        print("trace explained up to event %d of %d" % verd[0])
        if verd[0][0] < verd[0][1]:
            ctx.violation(rp["signature"], rp["what"], r)
    ctx.case({"replay": rp["signature"]})
    ctx.case({"replay": rp["signature"], "x": 1})
