"""C12 - the constraint cost has consistent derivatives: ConstraintCost.tla (exact rationals) decided by TLC,
its lattice points and block compositions replayed into the real mj_constraintUpdate_impl."""
import concurrent.futures as cf
import os
from fractions import Fraction

from vlib import build, tlc, drv
from vlib.check import Machinery, VERIF

TLA = os.path.join(VERIF, "tla")
SPEC = os.path.join(TLA, "ConstraintCost.tla")
HARNESS = [os.path.join(VERIF, "harness", "constraint_drv.cc")]

META = dict(
    engine="tlc-replay",
    technique="TLA+ spec ConstraintCost.tla over exact rationals <<num,den>> (zones, cost, force and cone Hessian of "
              "equality, friction-loss, limit/frictionless/pyramidal and elliptic-cone blocks; block-by-block "
              "construction of a whole constraint update) model-checked by TLC; every lattice point and every "
              "block composition TLC produced is replayed into the exported pure function mj_constraintUpdate_impl",
    text="TLC decides on ConstraintCost.tla, in exact rational arithmetic on the lattices: force = -d cost/d jar "
         "(central difference quotients, exact on the quadratic pieces), C1 continuity (all adjacent zone formulas "
         "agree in cost and force at every boundary point), midpoint convexity and non-negative second differences, "
         "cost = -(documented dual objective at the force) and no admissible probe force does better, force in the "
         "admissible set, cone Hessian = -d force/d jar on the slice, symmetric, v'Hv >= 0. The states of the "
         "exhaustive one-block and two-block runs and simulated compositions of up to four blocks are replayed into "
         "mj_constraintUpdate_impl: efc_state must be a zone the specification allows at that point (two zones at "
         "a boundary), force, cost and the cone Hessian must equal the specification's rationals to 1e-12.",
    note="Trusted: TLC, harness constraint_drv.cc, the conversion of dyadic rationals to doubles (checked exact for "
         "every input). Elliptic blocks live on rational slices of the cone (tangential part = t * integer direction "
         "of integer length) with dyadic mu and friction and the coupled regularizers R_j mu_j^2 = R_1 mu^2 that "
         "mj_makeConstraint enforces; the Hessian is decided only along the slice directions in TLC (all entries "
         "are compared in the replay). The closed forms are the analytical solution of the documented dual "
         "problem; they are tied to the documentation by the dual-value / dual-optimality invariants, not derived "
         "symbolically.",
    ref="DESIGN.md section 4 C12")

ZONE = {0: "satisfied", 1: "quadratic", 2: "linearneg", 3: "linearpos", 4: "cone"}
TYNAME = {0: "equality", 1: "friction_dof", 2: "friction_tendon", 3: "limit_joint", 4: "limit_tendon",
          5: "frictionless", 6: "pyramidal", 7: "elliptic"}


def fr(r):
    return Fraction(r[0], r[1])


def exact_float(q, what):
    x = q.numerator / q.denominator
    if Fraction(x) != q:
        raise Machinery("lattice value %s of %s is not exactly representable as a double" % (q, what))
    return x


def problem_of(st):
    """(ne, nf, efc rows, contacts, cost) of a dumped / simulated state"""
    return (st["ne"], st["nf"], st["efc"], st["con"], st["cost"])


def pkey(pr):
    ne, nf, efc, con, cost = pr
    return repr((ne, nf, tlc.to_py(efc), tlc.to_py(con)))


def command(pr, flgH, wantcost):
    ne, nf, efc, con, cost = pr
    n = len(efc)

    def col(name):
        return ",".join(repr(exact_float(fr(r[name]), name)) for r in efc) if n else "-"
    ty = ",".join(str(r["ty"]) for r in efc) if n else "-"
    ids = ",".join(str(r["id"]) for r in efc) if n else "-"
    cs = ";".join(":".join([str(c["dim"]), repr(exact_float(fr(c["mu"]), "mu"))] +
                           [repr(exact_float(fr(x), "friction")) for x in c["fr"]]) for c in con) if con else "-"
    return "cu %d %d %d %d %d %d %s %s %s %s %s %s %s" % (ne, nf, n, len(con), flgH, wantcost, col("D"), col("R"),
                                                          col("fl"), col("jar"), ty, ids, cs)


def close(got, want, scale=1.0):
    """|got - want| <= 1e-12 * max(1, scale, |want|), want an exact Fraction"""
    w = float(want)
    return abs(got - w) <= 1e-12 * max(1.0, scale, abs(w))


def parse_out(line, pr):
    t = line.split()
    if len(t) < 4 or t[0].startswith("error") or t[0].startswith("?"):
        return None
    n = len(pr[2])
    st = [int(x) for x in t[0].split(",")] if n else []
    fo = [float(x) for x in t[1].split(",")] if n else []
    cost = None if t[2] == "-" else float(t[2])
    H = []
    if t[3] != "-":
        H = [[float(x) for x in h.split(",")] for h in t[3].split(";")]
    return st, fo, cost, H, (len(t) > 4 and t[4] == "OVERRUN")


def judge(pr, line, flgH, wantcost):
    """first disagreement between the function's output and the specification: (signature, text) or None"""
    ne, nf, efc, con, cost = pr
    out = parse_out(line, pr)
    if out is None:
        return "call-failed", "mj_constraintUpdate_impl call failed: %s" % line[:200]
    st, fo, gcost, H, overrun = out
    if overrun:
        return "overrun", "the function wrote past nefc rows"
    if len(st) != len(efc) or len(fo) != len(efc):
        return "call-failed", "wrong output length: %s" % line[:200]
    multi = "" if len({(r["ty"], r["id"]) for r in efc}) <= 1 else ":composed"
    scale = max([1.0] + [abs(float(fr(r["f"]))) for r in efc])
    for i, r in enumerate(efc):
        allowed = sorted(r["st"])
        if st[i] not in r["st"]:
            return ("state:%s:want=%s:got=%s" % (TYNAME[r["ty"]], "|".join(ZONE.get(a, str(a)) for a in allowed), ZONE.get(st[i], st[i])),
                    "row %d (%s, jar=%s, D=%s, floss=%s): efc_state %s, specification allows %s" % (
                        i, TYNAME[r["ty"]], fr(r["jar"]), fr(r["D"]), fr(r["fl"]), ZONE.get(st[i], st[i]),
                        [ZONE.get(a, a) for a in allowed]))
        if not close(fo[i], fr(r["f"]), scale):
            return ("force:%s:zone=%s%s" % (TYNAME[r["ty"]], ZONE.get(st[i], st[i]), multi),
                    "row %d (%s, jar=%s, D=%s, floss=%s, state %s): force %r, specification says %s (= -d cost/d jar)" % (
                        i, TYNAME[r["ty"]], fr(r["jar"]), fr(r["D"]), fr(r["fl"]), ZONE.get(st[i], st[i]), fo[i], fr(r["f"])))
    # rows of one elliptic contact share the state
    for i, r in enumerate(efc):
        if r["ty"] == 7 and i > 0 and efc[i - 1]["ty"] == 7 and efc[i - 1]["id"] == r["id"] and st[i] != st[i - 1]:
            return "state:elliptic:not-replicated", "rows %d and %d of one elliptic contact have states %d and %d" % (i - 1, i, st[i - 1], st[i])
    if wantcost:
        cscale = sum(abs(float(fr(r["D"]) * fr(r["jar"]) ** 2)) + abs(float(fr(r["fl"]) * fr(r["jar"]))) for r in efc)
        if gcost is None or not close(gcost, fr(cost), cscale):
            kinds = sorted({"%s/%s" % (TYNAME[r["ty"]], ZONE.get(st[i], st[i])) for i, r in enumerate(efc)})
            return ("cost:%s" % (kinds[0] if len(kinds) == 1 else "composed"),
                    "cost %r, specification says %s (rows: %s)" % (gcost, fr(cost), ", ".join(kinds)))
    if flgH:
        first = {}
        for i, r in enumerate(efc):
            if r["ty"] == 7 and r["id"] not in first:
                first[r["id"]] = i
        for cid, i in first.items():
            c = con[cid]
            if st[i] != 4:
                continue
            if not c["H"]:
                return "hessian:unexpected-cone-state", "contact %d in state CONE where the specification has no middle zone" % cid
            want = [fr(x) for x in c["H"]]
            hs = max([1.0] + [abs(float(x)) for x in want])
            d = c["dim"]
            for k in range(d * d):
                if k >= len(H[cid]) or not close(H[cid][k], want[k], hs):
                    return ("hessian:dim=%d:%s" % (d, "normal-row" if k < d or k % d == 0 else ("diagonal" if k // d == k % d else "off-diagonal")),
                            "contact %d (dim %d, mu=%s): H[%d][%d] = %r, specification says %s (= -d force/d jar)" % (
                                cid, d, fr(c["mu"]), k // d, k % d, H[cid][k] if k < len(H[cid]) else None, want[k]))
    return None


def run(ctx):
    exe = build.build_harness("constraint_drv", HARNESS)
    ctx.assume("all lattice values are dyadic rationals, exactly representable as doubles (checked for every input)",
               "elliptic blocks: rational slices of the cone, coupled regularizers R_j mu_j^2 = R_1 mu^2 (as mj_makeConstraint sets them)",
               "at a zone boundary either adjacent state is accepted (the documentation does not assign boundary points); "
               "force and cost must still match (C1 continuity)",
               "force / cost / Hessian compared to 1e-12 relative (1 + mu^2 is not a power of two: the middle-zone scale is not dyadic)")
    main_cfg = "ConstraintCost_MC.cfg" if ctx.quick else "ConstraintCost_Deep.cfg"
    nsim = 24 if ctx.quick else 500
    with cf.ThreadPoolExecutor(5) as ex:
        f_main = ex.submit(tlc.dump_states, SPEC, os.path.join(TLA, main_cfg), workers=10, timeout=280 if ctx.quick else 2400)
        f_two = ex.submit(tlc.dump_states, SPEC, os.path.join(TLA, "ConstraintCost_Two.cfg"), workers=2, timeout=280)
        f_n1 = ex.submit(tlc.run, SPEC, os.path.join(TLA, "ConstraintCost_NegHalf.cfg"), workers=1, timeout=280)
        f_n2 = ex.submit(tlc.run, SPEC, os.path.join(TLA, "ConstraintCost_NegMid.cfg"), workers=1, timeout=280)
        f_sim = ex.submit(tlc.simulate, SPEC, os.path.join(TLA, "ConstraintCost_Sim.cfg"), num=nsim, depth=13,
                          seed=ctx.seed + 1, timeout=280 if ctx.quick else 2400)
        res_main, st_main = f_main.result()
        res_two, st_two = f_two.result()
        n1, n2 = f_n1.result(), f_n2.result()
        res_sim, sims = f_sim.result()
    ctx.tlc_ok(res_main, main_cfg[:-4])
    ctx.tlc_ok(res_two, "ConstraintCost_Two")
    ctx.tlc_ok(res_sim, "ConstraintCost_Sim")
    ctx.tlc_ok(n1, "ConstraintCost_NegHalf", allow_violation=True)
    ctx.tlc_ok(n2, "ConstraintCost_NegMid", allow_violation=True)
    ctx.control("TLC rejects the model with the factor 1/2 of the quadratic cost dropped", n1.violation is not None)
    ctx.control("TLC rejects the model with the wrong middle-zone scale D/mu^2", n2.violation is not None)
    # ---- problems to replay: every freshly evaluated state of the exhaustive runs + every prefix of simulated behaviours
    probs, seen, origin = [], set(), []
    nbeh = 0

    def add(st, src):
        if st["phase"] != "param":
            return
        pr = problem_of(st)
        k = pkey(pr)
        if k in seen:
            return
        seen.add(k)
        probs.append(pr)
        origin.append(src)
    for st in st_main:
        add(st, "exhaustive-1")
    for st in st_two:
        add(st, "exhaustive-2")
    for b in sims:
        nbeh += 1
        for (_a, st) in b:
            add(st, "simulated")
    if len(probs) < 50 or not sims:
        raise Machinery("too few problems produced by TLC (%d, %d behaviours)" % (len(probs), len(sims)))
    # vacuity of the model checking: every kind, every zone, boundary points, middle zone with Hessian
    codes, kinds, nbound, nH, ncomp = set(), set(), 0, 0, 0
    for pr in probs:
        for r in pr[2]:
            codes |= set(r["st"])
            kinds.add(r["ty"])
            nbound += len(r["st"]) > 1
        nH += sum(1 for c in pr[3] if c["H"])
        ncomp += len({(r["ty"], r["id"]) for r in pr[2]}) > 1 or len(pr[2]) > 6
    if codes != {0, 1, 2, 3, 4} or not {0, 1, 3, 5, 6, 7} <= kinds or nbound < 10 or nH < 10 or ncomp < 10:
        raise Machinery("vacuous lattice: zones %s kinds %s boundary rows %d hessians %d compositions %d" % (
            sorted(codes), sorted(kinds), nbound, nH, ncomp))
    # ---- replay
    lines, index = [], []
    for pi, pr in enumerate(probs):
        for (flgH, wc) in ((1, 1), (0, 1), (1, 0)):
            index.append((pi, flgH, wc))
            lines.append(command(pr, flgH, wc))
    r = drv.run_script(exe, lines, timeout=900)
    if r.crashed and len(r.lines) < len(lines):
        pi, flgH, wc = index[len(r.lines)]
        ctx.violation("crash", "harness died in mj_constraintUpdate_impl: " + r.crash_text(),
                      {"cmd": lines[len(r.lines)], "flgH": flgH, "wantcost": wc, "problem": tlc.to_py(list(probs[pi]))})
    # negative controls of the comparer: perturbed expectations must be flagged
    def perturbed(pr, what):
        ne, nf, efc, con, cost = pr
        efc = [dict(x) for x in efc]
        if what == "force":
            i = next(i for i, x in enumerate(efc) if x["f"][0] != 0)
            efc[i]["f"] = (efc[i]["f"][0] * 2 + 1, efc[i]["f"][1] * 2)
        elif what == "state":
            efc[0]["st"] = frozenset({9})
        elif what == "cost":
            cost = (cost[0] * 4 + 1, cost[1] * 4)
        elif what == "hess":
            con = [dict(x) for x in con]
            k = next(k for k, c in enumerate(con) if c["H"])
            h = list(con[k]["H"])
            h[1] = (h[1][0] * 8 + 1, h[1][1] * 8)
            con[k]["H"] = tuple(h)
        return (ne, nf, tuple(efc), tuple(con), cost)
    got = {index[i]: r.lines[i] for i in range(min(len(index), len(r.lines)))}
    p_f = next(pi for pi, pr in enumerate(probs) if any(x["f"][0] != 0 for x in pr[2]))
    p_h = next(pi for pi, pr in enumerate(probs) if any(c["H"] for c in pr[3]) and
               (pi, 1, 1) in got and 4 in [int(x) for x in got[(pi, 1, 1)].split()[0].split(",")])
    ctx.control("perturbed expected force is flagged", judge(perturbed(probs[p_f], "force"), got[(p_f, 1, 1)], 1, 1) is not None)
    ctx.control("perturbed allowed state is flagged", judge(perturbed(probs[p_f], "state"), got[(p_f, 1, 1)], 1, 1) is not None)
    ctx.control("perturbed expected cost is flagged", judge(perturbed(probs[p_f], "cost"), got[(p_f, 1, 1)], 1, 1) is not None)
    ctx.control("perturbed expected Hessian entry is flagged", judge(perturbed(probs[p_h], "hess"), got[(p_h, 1, 1)], 1, 1) is not None)
    bad_probs = set()
    for i, (pi, flgH, wc) in enumerate(index):
        if i >= len(r.lines):
            break
        pr = probs[pi]
        rows = [(x["ty"], sorted(x["st"]), x["jar"], x["D"], x["fl"]) for x in pr[2]]
        ctx.case({"rows": repr(rows), "con": repr([(c["dim"], c["mu"], c["fr"]) for c in pr[3]]), "H": flgH, "cost": wc},
                 nontrivial=len(pr[2]) > 0,
                 sample={"ne": pr[0], "nf": pr[1], "types": [x["ty"] for x in pr[2]], "jar": [str(fr(x["jar"])) for x in pr[2]],
                         "expected_cost": str(fr(pr[4]))})
        v = judge(pr, r.lines[i], flgH, wc)
        if v is not None:
            bad_probs.add(pi)
            variant = "" if (flgH, wc) == (1, 1) else (":nohessian" if wc else ":nocost")
            ctx.violation(v[0] + variant, v[1] + " [%s]" % origin[pi],
                          {"cmd": lines[i], "flgH": flgH, "wantcost": wc, "problem": tlc.to_py(list(pr))})
    # behaviours validated: every exhaustive state is a one/two-step behaviour, every simulated behaviour counts once
    ctx.trace_ok(len(probs) - len(bad_probs))
    ctx.cov["exhaustive"] = bool(res_main.finished and res_two.finished)
    ctx.cov["rule"] = ("problems = every evaluated state of the exhaustive one-block run (%s) and of the exhaustive two-block "
                       "run on tiny lattices + every prefix of %d simulated compositions of up to 4 blocks; each problem is "
                       "evaluated by mj_constraintUpdate_impl three ways (cost+Hessian, cost only, no cost); compared: "
                       "efc_state against the allowed zone set, force, cost, cone Hessian (1e-12); non-trivial = at least "
                       "one row; distinct = distinct (rows, contacts, flags). Boundary rows %d, middle-zone Hessians %d, "
                       "composed problems %d." % (main_cfg[:-4], nbeh, nbound, nH, ncomp))


def replay(ctx, rp):
    exe = build.build_harness("constraint_drv", HARNESS)
    d = rp["replay"]
    r = drv.run_script(exe, [d["cmd"]])

    def back(x):
        # JSON -> the shapes judge() expects
        ne, nf, efc, con, cost = x
        efc = [dict(e, st=frozenset(e["st"])) for e in efc]
        return (ne, nf, efc, con, cost)
    pr = back(d["problem"])
    line = r.lines[0] if r.lines else "error harness died: " + r.crash_text()
    v = judge(pr, line, d["flgH"], d["wantcost"])
    print("output:", line[:300])
    print("verdict:", v)
    if v is not None:
        ctx.violation(rp["signature"], v[1], d)
    ctx.case({"replay": rp["signature"]})
    ctx.case({"replay": rp["signature"], "x": 1})
