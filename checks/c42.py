"""C42 - the schema generators faithfully translate any valid schema.

tla/SchemaGen.tla (EXTENDS SchemaLang) defines, for every valid schema rooted at `mujoco`, what each generator's
output must denote (variable gen = Gen(sch)); TLC enumerates schemas (seeds + Grow steps) and checks the design
properties; every state is rendered to a schema file, the generators of the working tree are run on it
(SCHEMA_PATH pointed at the file), their outputs are parsed back and compared with gen from TLC's state dump.
Second family: TLC-chosen edits of the checked-in src/xml/mjcf.schema (SchemaGenReal.tla) with the expected
delta of every generator, including the struct-bound read / default tables."""
import hashlib
import json
import os
import re
import shutil
import subprocess
import sys
import tempfile
import xml.etree.ElementTree as ET

from vlib import build, tlc
from vlib.check import Machinery, VERIF
from checks import _schema_render as R

TLA = os.path.join(VERIF, "tla")
SPEC = os.path.join(TLA, "SchemaGen.tla")
XS = "{http://www.w3.org/2001/XMLSchema}"
GENS = ("generate_xsd", "generate_mjcf_table", "generate_mjcf_map", "generate_dmcontrol")

META = dict(
    engine="tlc-replay",
    technique="TLA+ spec SchemaGen.tla (expected XSD / MJCF[] table / keyword maps / dm_control tree as functions of "
              "the abstract schema) model-checked by TLC; every state is rendered, the generators of the working "
              "tree are run on it and their outputs parsed back and compared with the state's gen variable",
    text="For every schema TLC reaches (2 seeds rooted at mujoco, grown by valid-preserving edits: attributes of 10 "
         "type/arity/default shapes, uses, constraints, enum items, child links, new elements) generate_xsd, "
         "generate_mjcf_table, generate_mjcf_map and generate_dmcontrol are run on the rendered file; keyword "
         "types, complexTypes (children, attribute type/use/default), table rows with markers and surviving "
         "constraints, keyword maps and the dm_control tree must equal Gen(sch) exactly (nothing missing, nothing "
         "extra) and two runs (also under different hash seeds) must be byte-identical. TLC-chosen edits of the "
         "checked-in mjcf.schema are checked by expected delta for all six generators incl. read/default tables.",
    note="Trusted: TLC, the renderer, the parsers that read the generated XSD/inc/XML back. Outside the projection: "
         "documentation annotations, dm_control overlay flags (repeated/on_demand/namespace/conflict), "
         "generate_schema.py (reads the checked-in table and XMLreference.rst, not a schema).",
    ref="DESIGN.md section 4 C42")


# ----------------------------------------------------------------------------------------------
# parse the generated artefacts back
# ----------------------------------------------------------------------------------------------
def _default_obs(text):
    if text is None:
        return ("none", 0, "")
    toks = text.split()
    try:
        vals = [float(t) for t in toks]
    except ValueError:
        return ("txt", 0, text)
    if not vals:
        return ("txt", 0, text)
    if len(vals) == 1 and vals[0] == int(vals[0]):
        return ("num", int(vals[0]), "")
    if vals == [float(i) for i in range(1, len(vals) + 1)]:
        return ("vec", len(vals), "")
    return ("other", 0, text)


def _ctype_name(name, elem_names):
    """complexType name -> (element, projected)"""
    if name in elem_names:
        return (name, False)
    if name.startswith("default_") and name[8:] in elem_names:
        return (name[8:], True)
    return (name, None)


def _xsd_list_type(st):
    """named vector simpleType -> (item, lo, hik, hi)"""
    lst = st.find(XS + "list")
    if lst is not None:
        return (lst.get("itemType"), 0, "inf", 0)
    r = st.find(XS + "restriction")
    item = r.find(XS + "simpleType").find(XS + "list").get("itemType")
    ln = r.find(XS + "length")
    if ln is not None:
        return (item, int(ln.get("value")), "int", int(ln.get("value")))
    mn, mx = r.find(XS + "minLength"), r.find(XS + "maxLength")
    lo = int(mn.get("value")) if mn is not None else 0
    if mx is None:
        return (item, lo, "inf", 0)
    return (item, lo, "int", int(mx.get("value")))


def _num_or_text(v):
    try:
        f = float(v)
        return int(f) if f == int(f) else v
    except ValueError:
        return v


def parse_xsd(text, elem_names):
    root = ET.fromstring(text.encode())
    simple = {st.get("name"): st for st in root.findall(XS + "simpleType")}
    kw = []
    for name, st in simple.items():
        if name.startswith("kw_") and name != "kw_bool":
            keys = tuple(e.get("value") for e in st.find(XS + "restriction").findall(XS + "enumeration"))
            kw.append((name[3:], keys, ("kwlist_" + name[3:]) in simple))
    for name in simple:
        if name.startswith("kwlist_") and ("kw_" + name[7:]) not in simple:
            kw.append(("?" + name, (), True))
    if [e.get("value") for e in simple["kw_bool"].find(XS + "restriction").findall(XS + "enumeration")] != ["false", "true"]:
        kw.append(("?kw_bool", (), False))
    used_named = set()

    def attr_type(at):
        t = at.get("type")
        if t is not None:
            if t == "kw_bool":
                return ("kw", "bool")
            if t.startswith("kw_"):
                return ("kw", t[3:]) if t in simple else ("undefined-type", t)
            if t.startswith("kwlist_"):
                return ("kwlist", t[7:]) if t in simple else ("undefined-type", t)
            if t.startswith("xs:"):
                return ("base", t)
            if t not in simple:
                return ("undefined-type", t)
            used_named.add(t)
            return ("list",) + _xsd_list_type(simple[t])
        st = at.find(XS + "simpleType")
        r = st.find(XS + "restriction")
        base = r.get("base")
        if base == "xs:string":
            p = r.find(XS + "pattern")
            if p is not None:
                return ("chars", "pattern", p.get("value"), 0, 0)
            ln = r.find(XS + "length")
            if ln is not None:
                return ("chars", "len", "", int(ln.get("value")), int(ln.get("value")))
            return ("chars", "len", "", int(r.find(XS + "minLength").get("value")), int(r.find(XS + "maxLength").get("value")))
        mn, mx, ex = r.find(XS + "minInclusive"), r.find(XS + "maxInclusive"), r.find(XS + "minExclusive")
        return ("restr", base, ("some", _num_or_text(mn.get("value"))) if mn is not None else ("none", 0),
                ("some", _num_or_text(mx.get("value"))) if mx is not None else ("none", 0),
                ex is not None and ex.get("value") == "0")

    types = set()
    names = []
    for ct in root.findall(XS + "complexType"):
        name = ct.get("name")
        if name == "include":
            continue
        names.append(name)
        en, proj = _ctype_name(name, elem_names)
        kids = []
        ch = ct.find(XS + "choice")
        if ch is not None:
            for e in ch.findall(XS + "element"):
                if e.get("name") == "include":
                    continue
                kn, kp = _ctype_name(e.get("type"), elem_names)
                kids.append((e.get("name"), kn, kp))
        attrs = tuple((a.get("name"), attr_type(a), a.get("use") == "required", _default_obs(a.get("default")))
                      for a in ct.findall(XS + "attribute"))
        types.add((en, proj, tuple(kids), attrs))
    if len(names) != len(set(names)):
        types.add(("?duplicate complexType name", None, (), ()))
    # closure: every type= / base= / itemType= in the document resolves to an xs: built-in or a declared type
    declared = set(simple) | set(names) | {"include"}
    dangling = []
    for el in root.iter():
        for key in ("type", "base", "itemType"):
            v = el.get(key)
            if v is not None and not v.startswith("xs:") and v not in declared:
                dangling.append("%s=%s" % (key, v))
    unused = sorted(n for n in simple if not n.startswith("kw") and n not in used_named)
    top = [(e.get("name"), e.get("type")) for e in root.findall(XS + "element")]
    return {"kw": tuple(kw), "types": frozenset(types), "unused_vector_types": unused, "top": top,
            "dangling": sorted(set(dangling))}


def parse_table(text):
    m = re.search(r'std::vector<const char\*> MJCF\[\] = \{\n(.*?)\n\};', text, re.S)
    if not m:
        raise ValueError("MJCF[] not found")
    entries = []
    for e in re.finditer(r'\{([^{}]*)\}', m.group(1)):
        items = re.findall(r'"([^"]*)"', e.group(1))
        if items in (["<"], [">"]):
            entries.append([items[0]])
        else:
            entries.append(["row", items[0], items[1], tuple(items[2:]), set()])
    mc = re.search(r'MJCF_constraints\[\] = \{\n(.*?)\n?\};', text, re.S)
    for c in re.finditer(r"\{(\d+), '(\w)', \"([^\"]*)\"\}", mc.group(1) if mc else ""):
        idx = int(c.group(1))
        bundles = tuple(tuple(b.split(" ")) for b in c.group(3).split("|"))
        if idx >= len(entries) or entries[idx][0] != "row":
            entries.append(["?constraint on non-row %d" % idx])
        else:
            entries[idx][4].add((c.group(2), bundles))
    return tuple(tuple(frozenset(x) if isinstance(x, set) else x for x in e) for e in entries)


def parse_map(text):
    out = []
    for m in re.finditer(r'inline constexpr mjMap (\w+)_map\[\] = \{\n(.*?)\n\};\n(?:inline constexpr int (\w+)_sz = (\d+);)?', text, re.S):
        if m.group(1) == "bool":
            continue
        items = tuple((k, v.strip()) for k, v in re.findall(r'\{"([^"]*)",\s*([^}]*)\}', m.group(2)))
        out.append((m.group(1), items))
        if m.group(3) != m.group(1) or int(m.group(4) or -1) != len(items):
            out.append(("?size of " + m.group(1), ()))
    return tuple(out)


def parse_dm(text):
    root = ET.fromstring(text.encode())

    def dtype(a):
        t = a.get("type")
        if t == "keyword":
            return ("keyword", tuple(a.get("valid_values").split(" ")))
        if t == "reference":
            return ("reference", a.get("reference_namespace"))
        if t == "array":
            sz = a.get("array_size")
            return ("array", a.get("array_type"), "int" if sz is not None else "inf", int(sz) if sz is not None else 0)
        return (t,)

    def node(e):
        attrs = e.find("attributes")
        kids = e.find("children")
        return ("node", e.get("name"), e.get("recursive") == "true",
                tuple((a.get("name"), dtype(a), a.get("required") == "true", _default_obs(a.get("default")))
                      for a in (attrs if attrs is not None else ())),
                tuple(node(k) for k in (kids if kids is not None else ())))

    return node(root)


def dm_dangling(text):
    """closure of the dm_control output: every reference_namespace (other than attrib:*) is the namespace of an emitted
    identified element (its namespace= attribute, or its tag)"""
    root = ET.fromstring(text.encode())
    have, refs = set(), set()
    for e in root.iter("element"):
        attrs = e.find("attributes")
        if attrs is not None and any(a.get("type") == "identifier" for a in attrs):
            have.add(e.get("namespace") or e.get("name"))
        for a in (attrs if attrs is not None else ()):
            ns = a.get("reference_namespace")
            if a.get("type") == "reference" and ns and not ns.startswith("attrib:"):
                refs.add(ns)
    return sorted(refs - have)


def flags_only_via_group(sch):
    """vacuity guard: some element receives a flags<E> attribute through `use` while no element declares flags<E> directly"""
    groups = {d["name"]: d for d in sch if d["k"] == "group"}

    def via(members, depth=0):
        out = set()
        for m in members:
            if m["m"] == "use" and m["name"] in groups and depth < 20:
                g = groups[m["name"]]
                out |= {a["target"] for a in g["mem"] if a["m"] == "attr" and a["type"] == "flags"} | via(g["mem"], depth + 1)
        return out

    direct = {a["target"] for d in sch if d["k"] == "element" for a in d["mem"] if a["m"] == "attr" and a["type"] == "flags"}
    return any(via(d["mem"]) - direct for d in sch if d["k"] == "element")


# ----------------------------------------------------------------------------------------------
# expected values (TLC output) -> the same shapes
# ----------------------------------------------------------------------------------------------
def tup(x):
    if isinstance(x, (tuple, list)):
        return tuple(tup(y) for y in x)
    if isinstance(x, frozenset):
        return frozenset(tup(y) for y in x)
    return x


def expected(gen):
    xs = gen["xsd"]
    table = tuple(tuple(e[:4]) + (frozenset(tup(c) for c in e[4]),) if e[0] == "row" else tup(e) for e in tup(gen["table"]))
    return {"xsd_kw": tup(xs["kw"]), "xsd_types": frozenset(tup(t) for t in xs["types"]), "table": table,
            "map": tup(gen["map"]), "dm": tup(gen["dm"])}


def diff_types(exp, got):
    e = {(t[0], t[1]): t for t in exp}
    g = {(t[0], t[1]): t for t in got}
    if set(e) != set(g):
        return "type-set", sorted(map(str, set(e) - set(g))), sorted(map(str, set(g) - set(e)))
    for k in sorted(e, key=str):
        if e[k] != g[k]:
            if e[k][2] != g[k][2]:
                return "children", e[k][2], g[k][2]
            for a, b in zip(e[k][3], g[k][3]):
                if a != b:
                    for f, x, y in zip(("attr-name", "attr-type", "attr-use", "attr-default"), a, b):
                        if x != y:
                            return f, (k, a), (k, b)
            return "attr-count", (k, [a[0] for a in e[k][3]]), (k, [a[0] for a in g[k][3]])
    return None


def diff_table(exp, got):
    if [x[:3] if x[0] == "row" else x for x in exp] != [x[:3] if x[0] == "row" else x for x in got]:
        return "rows", [x[1:3] if x[0] == "row" else x[0] for x in exp], [x[1:3] if x[0] == "row" else x[0] for x in got]
    for a, b in zip(exp, got):
        if a != b:
            if a[3] != b[3]:
                return "row-attributes", a[1:4], b[1:4]
            return "constraints", (a[1], sorted(map(str, a[4]))), (b[1], sorted(map(str, b[4])))
    return None


def diff_dm(e, g, path=""):
    here = path + "/" + str(e[1])
    if e[1] != g[1]:
        return "tag", here, g[1]
    if e[2] != g[2]:
        return "recursive", (here, e[2]), g[2]
    if [a[0] for a in e[3]] != [a[0] for a in g[3]]:
        return "attr-names", (here, [a[0] for a in e[3]]), [a[0] for a in g[3]]
    for a, b in zip(e[3], g[3]):
        if a != b:
            for f, x, y in zip(("attr-name", "attr-type", "attr-required", "attr-default"), a, b):
                if x != y:
                    return f, (here, a), b
    if [k[1] for k in e[4]] != [k[1] for k in g[4]]:
        return "children", (here, [k[1] for k in e[4]]), [k[1] for k in g[4]]
    for a, b in zip(e[4], g[4]):
        d = diff_dm(a, b, here)
        if d:
            return d
    return None


# ----------------------------------------------------------------------------------------------
class Runner:
    def __init__(self, ctx, tmp):
        self.ctx = ctx
        self.tmp = tmp
        self.mods = {g: R.load(g) for g in GENS}
        self.ms = R.load("mjcf_schema")
        dims = self.mods["generate_xsd"].parse_dims()
        if dims.get("mjNREF") != 2:
            raise Machinery("SchemaGen.tla assumes mjNREF = 2, header says %r" % dims.get("mjNREF"))
        self.n = 0

    def generate(self, text):
        """{generator: output text} or {generator: ('exception', type, msg)}; also checks run-to-run identity"""
        self.n += 1
        path = os.path.join(self.tmp, "s%d.schema" % (self.n % 8))
        with open(path, "w", encoding="utf-8") as f:
            f.write(text)
        out = {}
        for g, mod in self.mods.items():
            old = mod.SCHEMA_PATH
            mod.SCHEMA_PATH = path
            try:
                a = mod.generate()
                b = mod.generate()
                out[g] = a if a == b else ("nondeterministic", "", "")
            except Exception as e:          # noqa: BLE001
                out[g] = ("exception", type(e).__name__, str(e)[:200])
            finally:
                mod.SCHEMA_PATH = old
        return out

    def compare(self, st, outs):
        """first discrepancy as (signature, what) or None"""
        exp = expected(st["gen"])
        elem_names = {d["name"] for d in st["sch"] if d["k"] == "element"}
        for g in GENS:
            if isinstance(outs[g], tuple):
                if outs[g][0] == "nondeterministic":
                    return ("nondeterministic:%s" % g, "two runs of %s.generate() differ" % g)
                return ("exception:%s:%s" % (g, outs[g][1]), "%s.generate() raised %s: %s" % (g, outs[g][1], outs[g][2]))
        try:
            x = parse_xsd(outs["generate_xsd"], elem_names)
        except Exception as e:              # noqa: BLE001
            return ("xsd:unparsable", "generated XSD cannot be read back: %s %s" % (type(e).__name__, e))
        if x["dangling"]:
            return ("xsd:undeclared-type", "the XSD refers to types it does not declare: %r" % x["dangling"][:6])
        if x["kw"] != exp["xsd_kw"]:
            return ("xsd:keyword-types", "keyword simpleTypes: expected %r, got %r" % (exp["xsd_kw"], x["kw"]))
        d = diff_types(exp["xsd_types"], x["types"])
        if d:
            return ("xsd:%s" % d[0], "XSD complexTypes differ in %s: expected %r, got %r" % d)
        if x["unused_vector_types"]:
            return ("xsd:unused-simple-type", "simpleTypes nothing refers to: %r" % x["unused_vector_types"])
        if x["top"] != [("mujoco", "mujoco")]:
            return ("xsd:top-element", "top-level elements %r" % x["top"])
        try:
            t = parse_table(outs["generate_mjcf_table"])
        except Exception as e:              # noqa: BLE001
            return ("table:unparsable", "%s %s" % (type(e).__name__, e))
        for e in t:
            if e[0].startswith("?"):
                return ("table:dangling-constraint", "MJCF_constraints refers to a non-row entry: %s" % e[0])
            if e[0] == "row":
                for (_k, bundles) in e[4]:
                    miss = {n for b in bundles for n in b} - set(e[3])
                    if miss:
                        return ("table:dangling-constraint", "constraint of row %s names attributes %s the row does not have" % (e[1], sorted(miss)))
        d = diff_table(exp["table"], t)
        if d:
            return ("table:%s" % d[0], "MJCF[] table differs in %s: expected %r, got %r" % d)
        m = parse_map(outs["generate_mjcf_map"])
        if m != exp["map"]:
            return ("map:items", "keyword maps: expected %r, got %r" % (exp["map"], m))
        try:
            dm = parse_dm(outs["generate_dmcontrol"])
        except Exception as e:              # noqa: BLE001
            return ("dm:unparsable", "%s %s" % (type(e).__name__, e))
        dang = dm_dangling(outs["generate_dmcontrol"])
        if dang:
            return ("dm:dangling-reference", "dm_control schema refers to namespaces no emitted element populates: %r" % dang[:6])
        d = diff_dm(exp["dm"], dm)
        if d:
            return ("dm:%s" % d[0], "dm_control schema differs in %s: expected %r, got %r" % d)
        return None


def state_key(st):
    return json.dumps(tlc.to_py(st["sch"]), sort_keys=True)


def run_states(ctx, rn, states, origin):
    outs_by_key = {}
    for idx, st in enumerate(sorted(states, key=state_key)):
        text = R.render(st["sch"], st["aux"], style=idx % 3)
        outs = rn.generate(text)
        res = rn.compare(st, outs)
        h = hashlib.sha1(text.encode()).hexdigest()[:12]
        ctx.case({"o": origin, "h": h}, nontrivial=len(st["sch"]) > 1,
                 sample={"origin": origin, "schema": text[:400]})
        if res is None:
            ctx.trace_ok()
            outs_by_key[h] = (text, outs)
        else:
            ctx.violation(res[0], res[1][:1500] + " | schema: " + repr(text[:600]),
                          {"text": text, "gen": tlc.to_py(st["gen"]), "sch": tlc.to_py(st["sch"]), "signature": res[0]})
    return outs_by_key


_HASHSEED_SCRIPT = r'''
import sys, json, hashlib, os, importlib.util
gen_dir, files = sys.argv[1], sys.argv[2:]
sys.path.insert(0, gen_dir)
out = {}
for g in ("generate_xsd", "generate_mjcf_table", "generate_mjcf_map", "generate_dmcontrol"):
    mod = __import__(g)
    for f in files:
        mod.SCHEMA_PATH = f
        out[g + "|" + os.path.basename(f)] = hashlib.sha1(mod.generate().encode()).hexdigest()
print(json.dumps(out))
'''


def cross_process_determinism(ctx, rn, outs_by_key, n=12):
    """the same schemas generated in fresh interpreters with other hash seeds must give the same bytes"""
    keys = sorted(outs_by_key)[:: max(1, len(outs_by_key) // n)][:n]
    d = tempfile.mkdtemp(prefix="hs", dir=rn.tmp)
    files = []
    want = {}
    for k in keys:
        text, outs = outs_by_key[k]
        p = os.path.join(d, k + ".schema")
        open(p, "w", encoding="utf-8").write(text)
        files.append(p)
        for g in GENS:
            want[g + "|" + k + ".schema"] = hashlib.sha1(outs[g].encode()).hexdigest()
    sp = os.path.join(d, "run.py")
    open(sp, "w").write(_HASHSEED_SCRIPT)
    for hs in ("1", "4242"):
        r = subprocess.run([sys.executable, sp, R.GEN_DIR] + files, capture_output=True, text=True,
                           env=dict(os.environ, PYTHONHASHSEED=hs), timeout=600)
        if r.returncode != 0:
            raise Machinery("hash-seed subprocess failed: " + r.stderr[-500:])
        got = json.loads(r.stdout)
        for k, v in want.items():
            ctx.case({"hashseed": hs, "k": k})
            if got.get(k) != v:
                ctx.violation("nondeterministic:%s:hashseed" % k.split("|")[0],
                              "%s output depends on PYTHONHASHSEED (%s)" % (k.split("|")[0], hs),
                              {"file": k, "hashseed": hs, "signature": "nondeterministic:%s:hashseed" % k.split("|")[0]})
                break
    shutil.rmtree(d, ignore_errors=True)


def controls(ctx, rn, states):
    st = max(states, key=lambda s: len(s["sch"]))
    text = R.render(st["sch"], st["aux"])
    outs = rn.generate(text)
    ok = rn.compare(st, outs) is None
    # 1. expectation perturbed: one attribute type of one complexType
    gen = tlc.to_py(st["gen"])
    done = False
    for t in gen["xsd"]["types"]:
        if t[3]:
            t[3][0][1] = ["base", "xs:bogus"]
            done = True
            break
    p = dict(st)
    p["gen"] = gen
    ctx.control("a perturbed expected XSD attribute type is flagged", (not ok) or (done and rn.compare(p, outs) is not None))
    # 2. artefact perturbed: a row dropped from the table, a keyword dropped from a map, a default changed in dm
    o2 = dict(outs)
    o2["generate_mjcf_table"] = re.sub(r'\n +\{"<"\},\n', "\n", outs["generate_mjcf_table"], count=1) \
        if not isinstance(outs["generate_mjcf_table"], tuple) else outs["generate_mjcf_table"]
    ctx.control("a nesting marker removed from the generated table is flagged", (not ok) or rn.compare(st, o2) is not None)
    o3 = dict(outs)
    if not isinstance(outs["generate_dmcontrol"], tuple):
        o3["generate_dmcontrol"] = outs["generate_dmcontrol"].replace('type="int"', 'type="float"', 1)
    ctx.control("a changed attribute type in the dm_control output is flagged",
                (not ok) or o3["generate_dmcontrol"] == outs["generate_dmcontrol"] or rn.compare(st, o3) is not None)
    o4 = dict(outs)
    if not isinstance(outs["generate_xsd"], tuple):
        o4["generate_xsd"] = re.sub(r' default="[^"]*"', "", outs["generate_xsd"], count=1)
    ctx.control("a default removed from the generated XSD is flagged",
                (not ok) or o4["generate_xsd"] == outs["generate_xsd"] or rn.compare(st, o4) is not None)


def run(ctx):
    from checks import _schema_real as c42_real
    tmp = tempfile.mkdtemp(prefix="c42", dir=os.path.join(VERIF, ".cache"))
    try:
        rn = Runner(ctx, tmp)
        ctx.assume("synthetic schemas are rooted at element mujoco and satisfy GenOK of SchemaGen.tla (all elements "
                   "reachable, only self recursion, no numeric facets on vectors): the generators raise otherwise",
                   "dm_control overlay flags and documentation annotations are not compared",
                   "edits of the checked-in mjcf.schema are checked by delta against the generators' own output for "
                   "the unedited file")
        import concurrent.futures as cf
        cfg2 = "SchemaGen_Sim.cfg"
        nproc, nsim = (2, 5) if ctx.quick else (6, 150)
        jenv = {"JAVA_TOOL_OPTIONS": "-XX:ParallelGCThreads=2"}
        with cf.ThreadPoolExecutor(10) as ex:
            mcfg = "SchemaGen_Q.cfg" if ctx.quick else "SchemaGen_MC.cfg"
            f_mc = ex.submit(tlc.dump_states, SPEC, os.path.join(TLA, mcfg), timeout=1800)
            f_real = ex.submit(c42_real.tlc_job, ctx)
            # thorough: the design invariants on every schema two Grow steps away (checked by TLC, not replayed)
            f_g2 = None if ctx.quick else ex.submit(tlc.run, SPEC, os.path.join(TLA, "SchemaGen_G2.cfg"), timeout=3000)
            f_sim = [ex.submit(tlc.simulate, SPEC, os.path.join(TLA, cfg2), num=nsim, depth=14,
                               seed=ctx.seed * 100 + 42 + k, timeout=2400, env=jenv) for k in range(nproc)]
            res, states = f_mc.result()
            ctx.tlc_ok(res, mcfg[:-4])
            if len(states) < 100:
                raise Machinery("only %d states" % len(states))
            if not any(flags_only_via_group(s["sch"]) for s in states):
                raise Machinery("vacuity: no schema with a flags attribute reached only through a group")
            controls(ctx, rn, states)
            outs = run_states(ctx, rn, states, "MC")
            n = len(states)
            cross_process_determinism(ctx, rn, outs)
            c42_real.run_real(ctx, rn, f_real.result())
            if f_g2 is not None:
                ctx.tlc_ok(f_g2.result(), "SchemaGen_G2")
            sims = []
            for k, f in enumerate(f_sim):
                res, bs = f.result()
                ctx.tlc_ok(res, "SchemaGen_Sim#%d" % k)
                sims += bs
        ss = {}
        for bh in sims:
            for (_a, s) in bh:
                if s["focus"]["c"] == "any":
                    ss.setdefault(state_key(s), s)
        run_states(ctx, rn, list(ss.values()), "Sim")
        ctx.cov["states"] += len(ss)
        ctx.cov["transitions"] += sum(len(bh) - 1 for bh in sims)
        ctx.cov["exhaustive"] = True
        ctx.cov["rule"] = ("one case = one schema (TLC state) on which the four schema-driven generators run twice and "
                           "are compared with Gen(sch): %d states of the exhaustive run (seeds + %d Grow step), %d "
                           "simulated behaviours of <= 5 Grow steps; plus hash-seed reruns and the TLC-chosen edits of "
                           "the checked-in mjcf.schema for six generators; non-trivial = more than one declaration"
                           % (n, 1, len(sims)))
    finally:
        shutil.rmtree(tmp, ignore_errors=True)


def replay(ctx, rp):
    r = rp["replay"]
    tmp = tempfile.mkdtemp(prefix="c42r", dir=os.path.join(VERIF, ".cache"))
    try:
        rn = Runner(ctx, tmp)
        ctx.case({"replay": rp["signature"]})
        ctx.case({"replay": rp["signature"], "x": 1})
        if "edit" in r:
            from checks import _schema_real as c42_real
            res = c42_real.replay_edit(ctx, rn, r)
        else:
            st = {"sch": r["sch"], "gen": r["gen"], "aux": {"k": "none"}}
            res = rn.compare(st, rn.generate(r["text"]))
        print("replay:", res[0] if res else "no discrepancy")
        if res is not None:
            ctx.violation(res[0], res[1][:1500], r)
    finally:
        shutil.rmtree(tmp, ignore_errors=True)
