"""C20 - exhausted arena memory is handled gracefully.

ArenaStep.tla (the allocation sites of one mj_step and their documented failure actions) is decided by TLC; real
mj_step runs over every memory size of a sweep, each in its own forked child on the plain and the asan build,
are projected to observable events and must be behaviours of the intended specification (ArenaStepTrace.tla)."""
import concurrent.futures as cf
import json
import os
import re

from vlib import build, tlc, drv
from vlib.check import Machinery, VERIF

TLA = os.path.join(VERIF, "tla")
SPEC = os.path.join(TLA, "ArenaStep.tla")
TSPEC = os.path.join(TLA, "ArenaStepTrace.tla")
HARNESS = [os.path.join(VERIF, "harness", "arena_drv.cc")]
NSTEPS = 3

META = dict(
    engine="tlc-trace",
    technique="TLA+ spec ArenaStep.tla (ordered allocation sites of mj_step with capacity N and their failure actions) "
              "model-checked by TLC for every capacity and demand profile; fault enumeration over the model's memory "
              "size in forked children (plain + AddressSanitizer builds); the outcome of every run is validated by "
              "ArenaStepTrace.tla",
    text="TLC decides NoDerefNull, Apart, Consistent, WarnIffTruncated, Balanced, Enough and that a step always returns "
         "(done or catchable error) for every capacity 0..32 and 192 demand profiles; every memory size of the sweep of "
         "each pool model runs 3 x mj_step in its own child process and its observable outcome (error class, warnings, "
         "ncon/nefc/nisland, contacts' efc addresses, stack balance, arena bound, recovery by mj_resetData) must be "
         "accepted by the intended specification; a signal or a sanitizer report has no explaining action.",
    note="Trusted: TLC, harness arena_drv.cc, the projection of counters to event classes in checks/c20.py. Sizes are "
         "abstract in the specification: the byte thresholds at which each site starts to fit are not predicted, only "
         "which outcomes exist and that each is internally consistent. Pool models use geoms with uniform condim and no "
         "gap so that rows-per-contact is a constant; flex, SDF and mesh collisions are not in the pool.",
    ref="DESIGN.md section 4 C20, section 7 item 1")


def spheres(body, n, dx=0.03, dy=0.02, r=0.1):
    return ["geom body=%s type=2 size=%g,0,0 pos=%g,%g,0" % (body, r, dx * k, dy * k) for k in range(n)]


def two_bodies(n, opt, z2=0.33):
    return (["option timestep=0.005 " + opt, "geom type=0 size=5,5,0.1",
             "body name=b0 pos=0,0,0.2", "joint body=b0 type=0"] + spheres("b0", n) +
            ["body name=b1 pos=0.05,0,%g" % z2, "joint body=b1 type=0"] + spheres("b1", n))


def LIMITS(n):
    out = ["option timestep=0.005"]
    par = "world"
    for k in range(n):
        out += ["body name=h%d parent=%s pos=0,0,%g" % (k, par, 1.0 if k == 0 else -0.3),
                "joint body=h%d name=hj%d type=3 axis=0,1,0 limited=1 range=0.5,1" % (k, k),
                "geom body=h%d type=3 size=0.02,0.1,0 fromto=0,0,0,0,0,-0.3 contype=0 conaffinity=0" % k]
        par = "h%d" % k
    return out


POOL = {
    # 2 bodies x 4 geoms, midphase off: all-to-all candidate pairs go through pushPairArena
    "multi4": dict(desc=two_bodies(4, "disableflags=16384"), percon=4),
    # the same through the midphase (mj_collideTree allocates contacts pair by pair)
    "mid3": dict(desc=two_bodies(3, ""), percon=4),
    # single-geom bodies (the two-single-geom fast path), elliptic cones, sparse Jacobian
    "single": dict(desc=["option timestep=0.005 cone=1 jacobian=1", "geom type=0 size=5,5,0.1"] +
                   sum([["body name=s%d pos=%g,0,0.09" % (k, 0.15 * k), "joint body=s%d type=0" % k,
                         "geom body=s%d type=2 size=0.1,0,0" % k] for k in range(4)], []), percon=3),
    # joint limit + equality + friction loss next to contacts; PGS with noslip (dual: efc_AR on the arena)
    "fixed": dict(desc=["option timestep=0.005 solver=0 noslip_iterations=2", "geom type=0 size=5,5,0.1",
                        "body name=a1 pos=0,0,0.5", "joint body=a1 name=j1 type=3 axis=0,1,0 limited=1 range=-0.01,0.01 frictionloss=0.1",
                        "geom body=a1 type=3 size=0.05,0.2,0 fromto=0,0,0,0.4,0,0",
                        "body name=a2 parent=a1 pos=0.4,0,0", "joint body=a2 name=j2 type=3 axis=0,1,0",
                        "geom body=a2 type=3 size=0.05,0.2,0 fromto=0,0,0,0.4,0,0",
                        "equality name=e1 type=2 objtype=3 name1=j1 name2=j2 data=0,1,0,0,0",
                        "body name=a3 pos=0.2,0,0.045", "joint body=a3 type=0", "geom body=a3 type=6 size=0.05,0.05,0.05"], percon=4),
    # islands disabled, frictionless contacts, CG
    "noisland": dict(desc=["option timestep=0.005 disableflags=262144 solver=1", "geom type=0 size=5,5,0.1 condim=1"] +
                     sum([["body name=s%d pos=%g,0,0.09" % (k, 0.15 * k), "joint body=s%d type=0" % k,
                           "geom body=s%d type=2 size=0.1,0,0 condim=1" % k] for k in range(3)], []), percon=1),
    # one body with 24 spheres resting on the plane: many contacts, few degrees of freedom, so the arena (contacts,
    # efc arrays, islands) is exhausted before the stack is; all-to-all pairs and midphase variants
    "many": dict(desc=["option timestep=0.005 disableflags=16384", "geom type=0 size=5,5,0.1", "body name=b0 pos=0,0,0.095", "joint body=b0 type=0"] +
                 ["geom body=b0 type=2 size=0.1,0,0 pos=%g,%g,0" % (0.25 * (k % 6), 0.25 * (k // 6)) for k in range(24)], percon=4),
    "manymid": dict(desc=["option timestep=0.005 cone=1", "geom type=0 size=5,5,0.1", "body name=b0 pos=0,0,0.095", "joint body=b0 type=0"] +
                    ["geom body=b0 type=2 size=0.1,0,0 pos=%g,%g,0" % (0.25 * (k % 6), 0.25 * (k // 6)) for k in range(24)], percon=3),
    # ten boxes resting on the plane (4 contacts each): the contact list is what does not fit first
    "boxes": dict(desc=["option timestep=0.005", "geom type=0 size=5,5,0.1"] +
                  sum([["body name=x%d pos=%g,0,0.049" % (k, 0.3 * k), "joint body=x%d type=0" % k,
                        "geom body=x%d type=6 size=0.05,0.05,0.05" % k] for k in range(10)], []), percon=4),
    # two bodies of three boxes each on the plane, through the midphase: contacts arrive leaf pair by leaf pair
    "boxmid": dict(desc=["option timestep=0.005", "geom type=0 size=5,5,0.1"] +
                   sum([["body name=y%d pos=%g,0,0.049" % (k, 1.0 * k), "joint body=y%d type=0" % k] +
                        ["geom body=y%d type=6 size=0.05,0.05,0.05 pos=%g,0,0" % (k, 0.2 * j) for j in range(3)] for k in range(2)], []), percon=4),
    # dual solvers with a sparse constraint Jacobian: mj_makeY / mj_makeAR put efc_Y*, efc_AR* on the arena
    # (two stacks of two boxes: nefc = 80, nA = 3200; PGS, and Newton + noslip)
    "stacks": dict(desc=["option timestep=0.005 solver=0 jacobian=1", "geom type=0 size=5,5,0.1"] +
                   sum([["body name=k%d%d pos=%g,0,%g" % (i, k, 0.5 * i, 0.099 + 0.198 * k), "joint body=k%d%d type=0" % (i, k),
                         "geom body=k%d%d type=6 size=0.1,0.1,0.1" % (i, k)] for i in range(2) for k in range(2)], []), percon=4),
    "stacksns": dict(desc=["option timestep=0.005 solver=2 noslip_iterations=3 jacobian=1 cone=1", "geom type=0 size=5,5,0.1"] +
                     sum([["body name=k%d%d pos=%g,0,%g" % (i, k, 0.5 * i, 0.099 + 0.198 * k), "joint body=k%d%d type=0" % (i, k),
                           "geom body=k%d%d type=6 size=0.1,0.1,0.1" % (i, k)] for i in range(2) for k in range(2)], []), percon=3),
    # the smallest dual + sparse case: one sphere on the plane (nefc = 4, nA = 16: a 64-byte window for efc_AR_colind)
    "pgs1": dict(desc=["option timestep=0.005 solver=0 jacobian=1", "geom type=0 size=5,5,0.1",
                       "body name=p0 pos=0,0,0.095", "joint body=p0 type=0", "geom body=p0 type=2 size=0.1,0,0"], percon=4),
    # odd numbers of constraint rows (1 and 3 violated hinge limits, no contact): after efc_state (nefc ints) the next
    # mjtNum array needs 4 bytes of alignment padding, so the last efc array ends at 4 mod 8
    "lim1": dict(desc=LIMITS(1), percon=4),
    "lim3": dict(desc=LIMITS(3), percon=4),
    # explicit contact pairs only
    "pairs": dict(desc=["option timestep=0.005", "geom type=0 size=5,5,0.1",
                        "body name=b0 pos=0,0,0.2", "joint body=b0 type=0",
                        "geom body=b0 name=g00 type=2 size=0.1,0,0 contype=0 conaffinity=0",
                        "geom body=b0 name=g01 type=2 size=0.1,0,0 pos=0.03,0.02,0 contype=0 conaffinity=0",
                        "body name=b1 pos=0.05,0,0.33", "joint body=b1 type=0",
                        "geom body=b1 name=g10 type=2 size=0.1,0,0 contype=0 conaffinity=0",
                        "geom body=b1 name=g11 type=2 size=0.1,0,0 pos=0.03,0.02,0 contype=0 conaffinity=0",
                        "pair geomname1=g00 geomname2=g10", "pair geomname1=g00 geomname2=g11",
                        "pair geomname1=g01 geomname2=g10", "pair geomname1=g01 geomname2=g11"], percon=4),
}
FIELDS = ("err", "ncon", "nefc", "nisland", "ne", "nf", "nl", "wcon", "wcns", "incl", "badadr", "finite", "pstack", "parena", "pbase")


def parse_line(line):
    """one s.try output line -> dict(N, make, steps=[dict], reset, died...)"""
    m = re.match(r"N=(\d+) died (sig|exit)=(\d+) kind=(\S+) where=(\S+)", line)
    if m:
        return {"N": int(m.group(1)), "died": "%s%s" % (m.group(2), m.group(3)), "kind": m.group(4), "where": m.group(5)}
    parts = [p.strip() for p in line.split("|")]
    head = parts[0].split()
    if not head or not head[0].startswith("N="):
        raise Machinery("unparsable harness line: %r" % line[:200])
    r = {"N": int(head[0][2:]), "make": head[1].split("=")[1], "steps": [], "reset": None}
    for p in parts[1:]:
        kv = dict(x.split("=") for x in p.split())
        if "maxuse" in kv:
            r["maxuse"] = int(kv["maxuse"])
            r["consz"] = int(kv["consz"])
            continue
        st = {k: (kv[k] if k == "err" else int(kv[k])) for k in FIELDS}
        r["steps"].append(st)
        if "reset" in kv:
            r["reset"] = (kv["reset"], int(kv["rpstack"]), int(kv["rparena"]))
    return r


def project(r, ref, percon, consz):
    """observable events of one run; `ref` = the run with ample memory (same initial state, so step 1 compares)"""
    if "died" in r:
        return [{"kind": "crash"}]
    if r["make"] != "ok":
        return [{"kind": "error", "err": r["make"], "apart": True}]
    evs = []
    for k, st in enumerate(r["steps"]):
        if st["err"] != "none":
            # also at the moment an error is raised the two regions must not have met
            evs.append({"kind": "error", "err": st["err"], "apart": st["parena"] + st["pstack"] <= r["N"]})
            if r["reset"] is not None:
                ok = r["reset"] == ("ok", 0, 0)
                evs.append({"kind": "reset" if ok else "reset-failed"})
            break
        first = k == 0
        refst = ref["steps"][k]
        if first:
            con = "full" if st["ncon"] == refst["ncon"] else ("zero" if st["ncon"] == 0 else ("part" if st["ncon"] < refst["ncon"] else "more"))
        else:
            con = "any"
        fixed = st["ne"] + st["nf"] + st["nl"]
        if st["nefc"] > 0:
            efc = "match" if st["nefc"] - fixed == percon * st["ncon"] else "mismatch"
        else:
            efc = "zero" if (st["wcns"] > 0 or st["ncon"] > 0 or (first and refst["ne"] + refst["nf"] + refst["nl"] > 0)) else "none"
        if st["incl"] == 0:
            incl = "zero"
        elif st["nefc"] == 0:
            incl = "stale"
        else:
            incl = "all" if (st["incl"] == st["ncon"] and st["badadr"] == 0) else "partial"
        evs.append({"kind": "done", "con": con, "wcon": st["wcon"] > 0, "wcns": st["wcns"] > 0, "efc": efc, "incl": incl,
                    "isl": "any" if st["nefc"] > 0 and st["nisland"] == 0 else ("pos" if st["nisland"] > 0 else "zero"),
                    "bal": st["pstack"] == 0 and st["pbase"] == -1 and st["finite"] == 1,
                    "apart": st["parena"] + st["pstack"] <= r["N"] and st["parena"] >= st["ncon"] * consz})
    return evs


def sizes_for(maxuse, quick, variant):
    """the coarse grid; every change of outcome between neighbours is then located to 4 bytes by refine()"""
    top = maxuse + 1500
    if quick:
        stride = 168 if variant == "plain" else 840
    else:
        stride = 40 if variant == "plain" else 232
    ns = list(range(0, top, stride))
    # dense (all requests are multiples of 4) just above zero and around the full size
    if variant == "plain":
        ns += list(range(0, 1600, 16 if quick else 4)) + list(range(max(0, maxuse - 200), maxuse + 100, 8 if quick else 4))
    elif not quick:
        ns += list(range(0, 1600, 16)) + list(range(max(0, maxuse - 200), maxuse + 100, 16))
    return sorted(set(ns))


def raw_key(r):
    """what a run looked like, without anything that moves with N itself: two sizes with different keys have an
    allocation-site boundary between them"""
    if "died" in r:
        return ("died", r["died"], r["kind"], r["where"])
    return (r["make"], tuple(tuple(st[k] for k in FIELDS if k != "pbase") for st in r["steps"]), r["reset"])


def cls_key(r):
    """coarse class of a run: which sites failed"""
    if "died" in r:
        return ("died",)
    return (r["make"], tuple((st["err"], st["wcon"] > 0, st["wcns"] > 0, st["ncon"] > 0, st["nefc"] > 0) for st in r["steps"]))


def sweep_refined(exe, name, desc, sizes, budget, halfwin=8):
    """coarse sweep, then bisection between every pair of neighbouring sizes whose runs differ, until the two
    differ by 4 bytes (all arena requests are multiples of 4), so that no window of sizes with its own outcome can
    hide between two grid points that straddle a boundary.  `budget` bounds the number of extra runs."""
    runs = {r["N"]: r for r in sweep(exe, name, desc, sizes)}
    extra = 0
    while True:
        ns = sorted(runs)
        mids = []
        for a, b in zip(ns, ns[1:]):
            if b - a > 4 and raw_key(runs[a]) != raw_key(runs[b]):
                m = (a + (b - a) // 2) // 4 * 4
                if m <= a:
                    m = a + 4
                if m < b:
                    mids.append(m)
        # never starve a boundary: when the budget runs out the widest gaps are halved first
        mids.sort(key=lambda m: (-min(m - max(x for x in ns if x < m), min(x for x in ns if x > m) - m), m))
        mids = mids[:max(0, budget - extra)]
        if not mids:
            break
        for r in sweep(exe, name, desc, mids):
            runs[r["N"]] = r
        extra += len(mids)
    # every memory size (byte granular: alignment padding depends on N mod 8) around each size where the class of the
    # outcome changes, i.e. where an allocation site starts to fit
    ns = sorted(runs)
    fine = set()
    for a, b in zip(ns, ns[1:]):
        if cls_key(runs[a]) != cls_key(runs[b]):
            fine.update(x for x in range(max(0, b - halfwin), b + halfwin + 1) if x not in runs)
    fine = sorted(fine)[:4 * budget]
    if fine:
        for r in sweep(exe, name, desc, fine):
            runs[r["N"]] = r
        extra += len(fine)
    ns = sorted(runs)
    gaps = [b - a for a, b in zip(ns, ns[1:]) if raw_key(runs[a]) != raw_key(runs[b])]
    return [runs[n] for n in ns], (extra, len(gaps), max(gaps) if gaps else 0)


def sweep(exe, name, desc, sizes):
    lines = ["model 0"] + [l for l in desc if not l.startswith("#")] + ["end"] + ["s.try 0 %d %d" % (n, NSTEPS) for n in sizes]
    r = drv.run_script(exe, lines, timeout=3000)
    if r.crashed or len(r.lines) != len(sizes) + 1 or r.lines[0] != "ok":
        raise Machinery("sweep harness failed for %s: %s; %d/%d lines; first: %r" % (
            name, r.crash_text() if r.crashed else "", len(r.lines), len(sizes) + 1, r.lines[:1]))
    return [parse_line(l) for l in r.lines[1:]]


def ev_sig(e):
    if e["kind"] == "done":
        return "done:con=%s,wcon=%d,wcns=%d,efc=%s,incl=%s,isl=%s,bal=%d,apart=%d" % (
            e["con"], e["wcon"], e["wcns"], e["efc"], e["incl"], e["isl"], e["bal"], e["apart"])
    if e["kind"] == "error":
        return "error:" + e["err"] + ("" if e.get("apart", True) else ",apart=0")
    return e["kind"]


def run(ctx):
    exes = {"plain": build.build_harness("arena_drv", HARNESS), "asan": build.build_harness("arena_drv", HARNESS, variant="asan")}
    ctx.assume("sizes in ArenaStep are abstract units; capacity 0..20 and the demand profile of every step are chosen by TLC",
               "the observable outcome of a run is projected to event classes (checks/c20.py: project); step 1 is compared "
               "with the ample-memory run of the same model (full / truncated contact list), later steps only for consistency",
               "pool models: uniform condim, no gap, so that constraint rows per contact is a constant of the model",
               "mjModel.narena is set to N before mj_makeData (the compiled form of <size memory=N/>)",
               "after a catchable error the run calls mj_resetData and must find an empty stack and arena")
    cfgp = lambda n: os.path.join(TLA, n)
    models = sorted(POOL) if not ctx.quick else ["boxes", "boxmid", "fixed", "lim1", "lim3", "many", "multi4", "single", "stacks", "stacksns"]
    J = {}
    with cf.ThreadPoolExecutor(16) as ex:
        J["mc"] = ex.submit(tlc.run, SPEC, cfgp("ArenaStep_MCq.cfg" if ctx.quick else "ArenaStep_MC.cfg"), coverage=True, timeout=1800, workers=4)
        J["steps"] = ex.submit(tlc.run, SPEC, cfgp("ArenaStep_Steps.cfg"), coverage=True, timeout=1800, workers=2)
        J["pair"] = ex.submit(tlc.run, SPEC, cfgp("ArenaStep_AsIsPair.cfg"), timeout=900, workers=1)
        J["island"] = ex.submit(tlc.run, SPEC, cfgp("ArenaStep_AsIsIsland.cfg"), timeout=900, workers=1)
        J["dual"] = ex.submit(tlc.run, SPEC, cfgp("ArenaStep_AsIsDual.cfg"), timeout=900, workers=1)
        # the sweeps run meanwhile
        runs = {}
        refs = {}
        for mn in models:
            ref = sweep(exes["plain"], mn, POOL[mn]["desc"], [8 << 20])[0]
            if "died" in ref or ref["make"] != "ok" or len(ref["steps"]) != NSTEPS or any(s["err"] != "none" or s["wcon"] or s["wcns"] for s in ref["steps"]):
                raise Machinery("reference run of %s is not clean: %r" % (mn, ref))
            if ref["steps"][0]["nefc"] == 0:
                raise Machinery("pool model %s produces no constraint" % mn)
            refs[mn] = ref
        futs = {}
        for mn in models:
            for variant in ("plain", "asan"):
                sz = sizes_for(refs[mn]["maxuse"], ctx.quick, variant)
                futs[(mn, variant)] = ex.submit(sweep_refined, exes[variant], mn, POOL[mn]["desc"], sz,
                                                (160 if variant == "plain" else 48) if ctx.quick else (1500 if variant == "plain" else 400),
                                                (8 if variant == "plain" else 0) if ctx.quick else 16)
        nrefine = nbound = maxgap = 0
        for k, f in futs.items():
            runs[k], (nx, nb, mg) = f.result()
            nrefine += nx
            nbound += nb
            maxgap = max(maxgap, mg)
        J = {k: v.result() for k, v in J.items()}

    need = ["Begin", "Broad", "PushPair", "Narrow", "Contacts", "MakeCon", "Island", "ProjY", "ProjA", "Solve", "Reset", "NoArena"]
    ctx.tlc_ok(J["mc"], "ArenaStep_MC", need_actions=need)
    ctx.tlc_ok(J["steps"], "ArenaStep_Steps", need_actions=need)
    ctx.tlc_ok(J["pair"], "ArenaStep_AsIsPair", allow_violation=True)
    ctx.control("TLC: pushPairArena testing its argument instead of the returned pointer violates NoDerefNull",
                J["pair"].violation is not None and "NoDerefNull" in J["pair"].violation)
    ctx.tlc_ok(J["island"], "ArenaStep_AsIsIsland", allow_violation=True)
    ctx.control("TLC: a failed island allocation that leaves the contacts' efc addresses violates Consistent",
                J["island"].violation is not None and "Consistent" in J["island"].violation)

    ctx.tlc_ok(J["dual"], "ArenaStep_AsIsDual", allow_violation=True)
    ctx.control("TLC: mj_makeAR not testing the second pointer of its (efc_AR, efc_AR_colind) pair violates NoDerefNull",
                J["dual"].violation is not None and "NoDerefNull" in J["dual"].violation)

    # ---- project every run, group identical event sequences, validate each distinct one once
    groups = {}
    for (mn, variant), rs in sorted(runs.items()):
        consz = refs[mn]["consz"]
        # a death is classified by how the child died and by what the largest smaller memory size that survived
        # did: that names the allocation site whose failure is not handled (the plain build has no stack trace)
        below = "nothing-smaller"
        for r in rs:                       # rs is sorted by N
            if "died" in r:
                r["below"] = below
            else:
                pe = [x for x in project(r, refs[mn], POOL[mn]["percon"], consz) if x["kind"] not in ("reset", "reset-failed")]
                below = ev_sig(pe[-1]) if pe else "none"
                if pe and pe[-1]["kind"] == "error" and r.get("steps"):
                    st = r["steps"][-1]       # how far the step had come when the error was raised
                    below += "(ncon%s,nefc%s)" % (">0" if st["ncon"] else "=0", ">0" if st["nefc"] else "=0")
        for r in rs:
            evs = project(r, refs[mn], POOL[mn]["percon"], consz)
            key = json.dumps(evs, sort_keys=True)
            g = groups.setdefault(key, {"ev": evs, "runs": []})
            g["runs"].append((mn, variant, r))
            nontriv = "died" in r or r.get("make") != "ok" or any(s["err"] != "none" or s["wcon"] or s["wcns"] for s in r["steps"])
            ctx.case({"model": mn, "variant": variant, "N": r["N"]}, nontrivial=nontriv,
                     sample={"model": mn, "variant": variant, "N": r["N"], "events": [ev_sig(e) for e in evs]})
    keys = sorted(groups)
    traces = [groups[k]["ev"] for k in keys]
    done_ok = {"kind": "done", "con": "full", "wcon": False, "wcns": False, "efc": "match", "incl": "all", "isl": "pos", "bal": True, "apart": True}
    controls = [
        ("a crash has no explaining action", [{"kind": "crash"}]),
        ("an error raised with parena + pstack > narena is rejected", [{"kind": "error", "err": "stackoverflow", "apart": False}, {"kind": "reset"}]),
        ("a truncated contact list without CONTACTFULL is rejected", [dict(done_ok, con="part")]),
        ("a step returning with a non-empty stack is rejected", [dict(done_ok, bal=False)]),
        ("contacts keeping efc addresses while nefc = 0 are rejected", [dict(done_ok, wcns=True, efc="zero", incl="stale", isl="zero")]),
        ("constraint rows not matching the contact list are rejected", [dict(done_ok, efc="mismatch")]),
    ]
    res, verd = tlc.validate_traces(TSPEC, cfgp("ArenaStepTrace.cfg"), traces + [c[1] for c in controls], timeout=2400)
    if len(verd) != len(traces) + len(controls):
        raise Machinery("trace validation did not report every trace: %s\n%s" % (res.error, res.out[-2000:]))
    if res.error and "Postcondition" in res.error:
        res.error = None
        res.finished = True
    ctx.tlc_ok(res, "ArenaStepTrace")
    for i, (nm, _t) in enumerate(controls):
        reached, total = verd[len(traces) + i + 1]
        ctx.control(nm, reached < total)
    nviol = 0
    for i, k in enumerate(keys):
        reached, total = verd[i + 1]
        g = groups[k]
        if reached == total:
            ctx.trace_ok(len(g["runs"]))
            continue
        nviol += 1
        e = g["ev"][reached]
        byv = {}
        for (mn, variant, r) in g["runs"]:
            byv.setdefault((mn, variant), []).append(r)
        # one violation per failing input class: the unexplained event (and, for a death, how the child died)
        deaths = sorted({(r["died"], r["kind"], r["where"], r["below"]) for (_m, _v, r) in g["runs"] if "died" in r})
        if e["kind"] == "crash":
            for (died, kind, where, below) in deaths:
                rs = [(m, v, r) for (m, v, r) in g["runs"] if r.get("died") == died and r["kind"] == kind and r["where"] == where
                      and r["below"] == below]
                m0, v0, r0 = rs[0]
                sig = "step:died:%s:%s%s:above:%s" % (v0 if kind != "-" else "plain", died if kind == "-" else kind,
                                                      "" if where == "-" else "@" + where, below)
                ns = sorted({r["N"] for (_m, _v, r) in rs})
                ctx.violation(sig, "mj_step dies (%s%s%s) instead of raising a warning or a catchable error: %d runs, e.g. model %s "
                              "(%s build) with memory = %d bytes; models %s, sizes %d..%d; the largest smaller size that survives "
                              "ends in: %s" % (
                                  died, "" if kind == "-" else " " + kind, "" if where == "-" else " in " + where, len(rs), m0, v0,
                                  r0["N"], sorted({m for (m, _v, _r) in rs}), ns[0], ns[-1], below),
                              {"model": m0, "desc": POOL[m0]["desc"], "variant": v0, "N": r0["N"], "nsteps": NSTEPS,
                               "events": g["ev"], "percon": POOL[m0]["percon"]})
        else:
            m0, v0, r0 = g["runs"][0]
            sig = "step:unexplained:" + ev_sig(e)
            ns = sorted({r["N"] for (_m, _v, r) in g["runs"]})
            ctx.violation(sig, "outcome of step %d is not a behaviour of the specification: %s; %d runs, e.g. model %s (%s build) "
                          "with memory = %d bytes: %s; models %s, sizes %d..%d" % (
                              reached + 1, ev_sig(e), len(g["runs"]), m0, v0, r0["N"],
                              json.dumps(r0["steps"][min(reached, len(r0["steps"]) - 1)] if r0.get("steps") else r0),
                              sorted({m for (m, _v, _r) in g["runs"]}), ns[0], ns[-1]),
                          {"model": m0, "desc": POOL[m0]["desc"], "variant": v0, "N": r0["N"], "nsteps": NSTEPS,
                           "events": g["ev"], "percon": POOL[m0]["percon"]})
    nruns = sum(len(v) for v in runs.values())
    ctx.cov["exhaustive"] = False
    ctx.cov["rule"] = ("design: every capacity x demand profile (quick: 0..24 x 48, thorough: 0..32 x 192; 1 step) and 0..24 x 3 profiles (3 steps, with the "
                       "liveness property that a step returns); binding: %d runs = %d pool models x memory sizes 0..maxuse+1500 "
                       "(stride %s bytes, every 4-16 bytes near zero and near the full size, plus %d bisection / byte-granular runs that narrow "
                       "every change of outcome between neighbouring sizes: %d boundaries, widest remaining gap %d bytes) x {plain, asan}, 3 steps each in a "
                       "forked child; %d distinct observable event sequences validated by ArenaStepTrace; non-trivial = the run "
                       "hit a warning, an error or died; distinct = (model, build, N)" % (
                           nruns, len(models), "168 / 840(asan)" if ctx.quick else "40 / 232(asan)", nrefine, nbound, maxgap, len(traces)))


def replay(ctx, rp):
    r = rp["replay"]
    exe = build.build_harness("arena_drv", HARNESS, variant=r["variant"])
    ref = sweep(build.build_harness("arena_drv", HARNESS), r["model"], r["desc"], [8 << 20])[0]
    got = sweep(exe, r["model"], r["desc"], [r["N"]])[0]
    evs = project(got, ref, r["percon"], ref["consz"])
    print("model %s, %s build, memory=%d: %s" % (r["model"], r["variant"], r["N"], [ev_sig(e) for e in evs]))
    res, verd = tlc.validate_traces(TSPEC, os.path.join(TLA, "ArenaStepTrace.cfg"), [evs], timeout=600)
    if res.error and "Postcondition" in res.error:
        res.error = None
        res.finished = True
    ctx.tlc_ok(res, "ArenaStepTrace(replay)")
    print("explained up to event %d of %d" % verd[1])
    if verd[1][0] < verd[1][1]:
        ctx.violation(rp["signature"], rp["what"], r)
    ctx.case({"replay": rp["signature"]})
    ctx.case({"replay": rp["signature"], "x": 1})
