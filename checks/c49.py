"""C49 - introspection metadata: the grammar clause (parse_type / decl round trip) is decided on CType.tla by TLC
and bound in both directions; the header clause (structs/enums/functions agree with include/mujoco as the C
compiler sees them) is an auxiliary translation-validation step by generated _Static_asserts."""
import copy
import importlib
import importlib.util
import os
import re
import shutil
import subprocess
import sys
import tempfile

from vlib import build, tlc
from vlib.check import Machinery, VERIF
from checks import simparse

TLA = os.path.join(VERIF, "tla")
SPEC = os.path.join(TLA, "CType.tla")

META = dict(
    engine="tlc-replay",
    technique="TLA+ spec CType.tla (C type ASTs, declarator printer Decl and an independent reader ParseType; TLC checks "
              "ParseType(Decl(t)) = t) enumerated / simulated by TLC; spec->code: every Decl(t, style) string is parsed by "
              "type_parsing.parse_type and compared with t; code->spec: every declaration printed by ast_nodes (for the "
              "enumerated types and for every type of structs.py / functions.py) is read back by the specification "
              "(CTypeTrace.tla, trace validation). Auxiliary (not TLA+): generated _Static_assert / pointer-compatibility "
              "obligations compiled against include/mujoco",
    text="TLC decides the round trip of the C declarator grammar on CType.tla up to nesting depth 3 (simulation to depth "
         "6); parse_type must return the specification's AST for each rendering (4 qualifier styles x 2 spacings) and "
         "every printed declaration must be read by the specification as the same AST. Header clause: struct size, "
         "field offsets/types/order, enum values and function prototypes of the metadata are checked by gcc against "
         "include/mujoco (translation validation, separate evidence key header_clause).",
    note="Header clause is outside the TLA+ family. Trusted: TLC, the tokenizer/renderer, gcc. Not covered: 'nullable' "
         "(not C), the function-pointer special case 'void *(*)(void *)', variadic functions mju_error/mju_warning/mju_info (metadata "
         "cannot express '...'), doc strings, array_extent annotations of pointer fields.",
    ref="DESIGN.md section 4 C49")

_mods = None


def load_introspect():
    global _mods
    if _mods is None:
        d = os.path.join(build.REPO, "python", "mujoco", "introspect")
        if not os.path.exists(os.path.join(d, "type_parsing.py")):
            raise Machinery("missing " + d)
        name = "verif_repo_introspect"
        spec = importlib.util.spec_from_file_location(name, os.path.join(d, "__init__.py"),
                                                      submodule_search_locations=[d])
        m = importlib.util.module_from_spec(spec)
        sys.modules[name] = m
        spec.loader.exec_module(m)
        _mods = {k: importlib.import_module(name + "." + k)
                 for k in ("ast_nodes", "type_parsing", "structs", "enums", "functions")}
    return _mods


# ---- AST projection / rendering -----------------------------------------------------------------------------
def to_spec(a, an):
    """implementation AST -> the specification's record form (what C knows about; nullable dropped)"""
    if isinstance(a, an.ValueType):
        return {"k": "val", "name": tuple(a.name.split()), "c": bool(a.is_const), "v": bool(a.is_volatile)}
    if isinstance(a, an.PointerType):
        return {"k": "ptr", "inner": to_spec(a.inner_type, an), "c": bool(a.is_const), "v": bool(a.is_volatile),
                "r": bool(a.is_restrict)}
    if isinstance(a, an.ArrayType):
        return {"k": "arr", "inner": to_spec(a.inner_type, an), "ext": tuple(str(int(e)) for e in a.extents)}
    raise Machinery("unexpected AST node %r" % (a,))


def norm(x):
    """specification value (FrozenDict / tuples, or JSON lists) -> plain comparable form"""
    if isinstance(x, dict):
        return {k: norm(v) for k, v in x.items()}
    if isinstance(x, (tuple, list)):
        return tuple(norm(v) for v in x)
    return x


def jsonable(x):
    if isinstance(x, dict):
        return {k: jsonable(v) for k, v in x.items()}
    if isinstance(x, tuple):
        return [jsonable(v) for v in x]
    return x


_WORD = re.compile(r'[A-Za-z0-9_]')
_TOK = re.compile(r'\s*([A-Za-z_][A-Za-z0-9_]*|\d+|[*()\[\]])')


def join(toks, compact):
    if not compact:
        return " ".join(toks)
    out = ""
    for tk in toks:
        if out and _WORD.match(out[-1]) and _WORD.match(tk[0]):
            out += " "
        out += tk
    return out


def tokenize(s):
    pos, out = 0, []
    s = s.rstrip()
    while pos < len(s):
        m = _TOK.match(s, pos)
        if not m:
            return None
        out.append(m.group(1))
        pos = m.end()
    return out


def feature(t):
    f = set()
    x = t
    while x["k"] != "val":
        if x["k"] == "ptr" and x["inner"]["k"] == "arr":
            f.add("ptr-to-array")
        if x["k"] == "arr" and x["inner"]["k"] == "ptr":
            f.add("array-of-ptr")
        if x["k"] == "ptr" and (x["c"] or x["v"] or x["r"]):
            f.add("qualified-ptr")
        x = x["inner"]
    if len(x["name"]) > 1:
        f.add("multiword")
    return "+".join(sorted(f)) or "plain"


def strip_nullable(a):
    a = copy.deepcopy(a)
    x = a
    while x is not None:
        if hasattr(x, "nullable"):
            x.nullable = False
        x = getattr(x, "inner_type", None)
    return a


def validate(ctx, batch, name):
    res, verdicts = tlc.validate_traces(os.path.join(TLA, "CTypeTrace.tla"), os.path.join(TLA, "CTypeTrace.cfg"),
                                        batch, timeout=1800)
    if res.error and "ostcondition" in res.error:
        res.error = None
        res.finished = True
    if res.violation and "ostcondition" in res.violation:
        res.violation = None
    ctx.tlc_ok(res, name)
    if len(verdicts) != len(batch):
        raise Machinery("trace validation returned %d verdicts for %d traces" % (len(verdicts), len(batch)))
    bad = {}
    for m in re.finditer(r'<<"BAD", (\d+), (\d+), (\d+)>>', res.out):
        bad.setdefault(int(m.group(1)) - 1, []).append(int(m.group(2)) - 1)
    for t, (reached, ln) in verdicts.items():
        if reached != ln and not bad.get(t - 1):
            raise Machinery("trace %d stuck at %d without a verdict" % (t, reached))
    return {i: sorted(bad.get(i, [])) for i in range(len(batch))}


# ---- grammar clause -----------------------------------------------------------------------------------------------
def grammar_clause(ctx, parse_type=None):
    mods = load_introspect()
    an, tp = mods["ast_nodes"], mods["type_parsing"]
    parse = parse_type or tp.parse_type
    deep = "CType_MC.cfg" if ctx.quick else "CType_Deep.cfg"
    res, states = tlc.dump_states(SPEC, os.path.join(TLA, deep), timeout=1500)
    ctx.tlc_ok(res, deep[:-4])
    exhaustive = res.finished
    res = tlc.run(SPEC, os.path.join(TLA, "CType_Deep.cfg" if ctx.quick else "CType_Deep4.cfg"), timeout=1500)
    ctx.tlc_ok(res, "CType(round trip, deeper)")
    types = [st["ev"] for st in states if st["ev"]["op"] == "type"]
    nex = len(types)
    res, sims = simparse.simulate(SPEC, os.path.join(TLA, "CType_Sim.cfg"), num=150 if ctx.quick else 3000, depth=8,
                                  seed=ctx.seed + 1, timeout=1500)
    ctx.tlc_ok(res, "CType_Sim")
    acts = set()
    seen = set(repr(norm(e["ast"])) for e in types)
    for b in sims:
        for (a, st) in b:
            acts.add(a)
            e = st["ev"]
            if e["op"] == "type" and repr(norm(e["ast"])) not in seen:
                seen.add(repr(norm(e["ast"])))
                types.append(e)
    for a in ("Value", "WrapPtr", "WrapArr"):
        if a not in acts:
            raise Machinery("vacuity: action %s never taken in simulation" % a)
    if nex < 500:
        raise Machinery("too few types: %d" % nex)
    types.sort(key=lambda e: repr(norm(e["ast"])))
    # spec -> code
    traces, owners = [], []
    for e in types:
        want = norm(e["ast"])
        ok = True
        printed = None
        for style in sorted(e["toks"]):
            toks = list(e["toks"][style])
            for compact in (False, True):
                s = join(toks, compact)
                ctx.case({"s": s}, nontrivial=want["k"] != "val",
                         sample={"decl": s, "style": style})
                try:
                    got = parse(s)
                except Exception as ex:     # noqa: BLE001
                    ok = False
                    ctx.violation("parse-raised:%s:%s:%s" % (type(ex).__name__, style, feature(want)),
                                  "parse_type(%r) raised %r; specification: %s" % (s, ex, jsonable(want)),
                                  {"kind": "parse", "decl": s, "ast": jsonable(want)})
                    continue
                if norm(to_spec(got, an)) != want:
                    ok = False
                    ctx.violation("parse-mismatch:%s:%s:%s" % (style, "compact" if compact else "spaced", feature(want)),
                                  "parse_type(%r) = %s, specification Decl^-1 = %s" % (s, jsonable(to_spec(got, an)),
                                                                                      jsonable(want)),
                                  {"kind": "parse", "decl": s, "ast": jsonable(want)})
                elif printed is None:
                    printed = str(got)
        # code -> spec: what the implementation prints for this AST, and the re-parse of its own print
        if printed is not None:
            ptoks = tokenize(printed)
            if ptoks is None:
                ok = False
                ctx.violation("print-untokenizable:%s" % feature(want), "str(parse_type(..)) = %r" % printed,
                              {"kind": "print", "decl": printed, "ast": jsonable(want)})
            else:
                traces.append([{"op": "read", "toks": ptoks, "ast": jsonable(want)}])
                owners.append((want, printed))
                try:
                    again = norm(to_spec(parse(printed), an))
                except Exception as ex:     # noqa: BLE001
                    again = "raised %r" % (ex,)
                if again != want:
                    ok = False
                    ctx.violation("reparse-mismatch:%s" % feature(want),
                                  "parse_type(str(parse_type(s))) = %s for printed %r, want %s" % (
                                      jsonable(again) if isinstance(again, dict) else again, printed, jsonable(want)),
                                  {"kind": "parse", "decl": printed, "ast": jsonable(want)})
        if ok:
            ctx.trace_ok()
    return types, nex, exhaustive, traces, owners


def corpus(mods):
    """every C type of the metadata: function return / parameter types and struct field types"""
    an = mods["ast_nodes"]
    out = {}
    skipped = {"anonymous": 0, "fnptr": 0}

    def add(a, where):
        x = a
        while not isinstance(x, an.ValueType):
            x = x.inner_type
        if "(" in x.name:
            skipped["fnptr"] += 1
            return
        a = strip_nullable(a)
        out.setdefault(a.decl(), (a, where))

    for f in mods["functions"].FUNCTIONS.values():
        add(f.return_type, f.name)
        for p in f.parameters:
            add(p.type, f.name + "(" + p.name + ")")

    def fields(s, fs):
        for f in fs:
            if isinstance(f, (an.AnonymousStructDecl, an.AnonymousUnionDecl)):
                skipped["anonymous"] += 1
                fields(s, f.fields)
            elif isinstance(f.type, (an.AnonymousStructDecl, an.AnonymousUnionDecl)):
                skipped["anonymous"] += 1
                fields(s, f.type.fields)
            else:
                add(f.type, s + "." + f.name)
    for s in mods["structs"].STRUCTS.values():
        fields(s.name, s.fields)
    return out, skipped


def corpus_clause(ctx, traces, owners):
    mods = load_introspect()
    an, tp = mods["ast_nodes"], mods["type_parsing"]
    items, skipped = corpus(mods)
    if len(items) < 50:
        raise Machinery("metadata corpus too small: %d" % len(items))
    for s, (a, where) in sorted(items.items()):
        want = norm(to_spec(a, an))
        ctx.case({"corpus": s}, nontrivial=True)
        try:
            got = tp.parse_type(s)
            if got != a:
                ctx.violation("corpus-reparse-mismatch:%s" % feature(want),
                              "%s: parse_type(%r) = %r, metadata holds %r" % (where, s, got, a),
                              {"kind": "parse", "decl": s, "ast": jsonable(want)})
        except Exception as ex:         # noqa: BLE001
            ctx.violation("corpus-parse-raised:%s" % type(ex).__name__, "%s: parse_type(%r) raised %r" % (where, s, ex),
                          {"kind": "parse", "decl": s, "ast": jsonable(want)})
        toks = tokenize(s)
        if toks is None:
            ctx.violation("print-untokenizable:corpus", "%s prints %r" % (where, s),
                          {"kind": "print", "decl": s, "ast": jsonable(want)})
            continue
        traces.append([{"op": "read", "toks": toks, "ast": jsonable(want)}])
        owners.append((want, s))
    return len(items), skipped


# ---- header clause (auxiliary translation validation) --------------------------------------------------------------
def header_text():
    inc = os.path.join(build.REPO, "include", "mujoco")
    out = []
    for fn in sorted(os.listdir(inc)):
        if fn.endswith(".h"):
            out.append(re.sub(r'//[^\n]*', '', open(os.path.join(inc, fn)).read()))
    return "\n".join(out)


def variadic_functions():
    """MJAPI functions declared with '...': the metadata has no way to express the variadic tail"""
    return sorted(set(m.group(1) for m in re.finditer(r'(?m)^MJAPI\b[^;{#]*?\b(mj[A-Za-z0-9_]*)\s*\([^;{]*\.\.\.\s*\)',
                                                      header_text())))


def generator_exclusions():
    """names the metadata generator leaves out on purpose (introspect/codegen/generate.py: _EXCLUDED)"""
    import ast
    p = os.path.join(build.REPO, "python", "mujoco", "introspect", "codegen", "generate.py")
    try:
        tree = ast.parse(open(p).read())
    except OSError:
        return []
    for node in ast.walk(tree):
        if isinstance(node, ast.Assign) and any(getattr(t, "id", None) == "_EXCLUDED" for t in node.targets):
            return [e.value for e in node.value.elts if isinstance(e, ast.Constant)]
    return []


CFLAGS = ["-std=c11", "-fsyntax-only", "-Werror=incompatible-pointer-types", "-Werror=pointer-sign",
          "-Werror=discarded-qualifiers", "-Werror=int-conversion", "-Wno-unused"]


def gen_header_obligations(mods, sabotage=False):
    """returns (list of C lines, {line number (1-based): (signature, text)})"""
    an = mods["ast_nodes"]
    variadic = variadic_functions()
    lines = ["#include <stddef.h>", "#include <mujoco/mujoco.h>"]
    obl = {}
    sab = {"enum": sabotage, "field": sabotage, "func": sabotage}       # falsify the first obligation of each kind

    def emit(code, sig, text):
        lines.append(code)
        obl[len(lines)] = (sig, text)

    for e in mods["enums"].ENUMS.values():
        emit("_Static_assert(sizeof(%s) == sizeof(%s), \"\");" % (e.name, e.declname), "enum-type:%s" % e.name,
             "enum %s / %s" % (e.name, e.declname))
        for k, v in e.values.items():
            if sab["enum"]:
                v, sab["enum"] = v + 1, False
            emit("_Static_assert(%s == %d, \"\");" % (k, v), "enum-value:%s" % e.name, "%s.%s == %d" % (e.name, k, v))
    n = 0
    for s in mods["structs"].STRUCTS.values():
        n += 1
        rep = "verif_R%d" % n
        body = []
        for f in s.fields:
            body.append(str(f) + ";")
        # the replica is a single line so that a malformed metadata declaration maps to one obligation
        emit("struct %s { %s };" % (rep, " ".join(body)), "struct-replica:%s" % s.name,
             "metadata declaration of %s is not valid C against the headers" % s.name)
        emit("_Static_assert(sizeof(%s) == sizeof(%s), \"\");" % (s.name, s.declname), "struct-type:%s" % s.name,
             "%s vs %s" % (s.name, s.declname))
        emit("_Static_assert(sizeof(struct %s) == sizeof(%s), \"\");" % (rep, s.name), "struct-size:%s" % s.name,
             "sizeof(%s) differs from the metadata's field list (missing / extra / resized field)" % s.name)

        def walk(fs, prefix):
            for f in fs:
                if isinstance(f, (an.AnonymousStructDecl, an.AnonymousUnionDecl)):
                    walk(f.fields, prefix)
                    continue
                path = prefix + f.name
                emit("_Static_assert(offsetof(struct %s, %s) == offsetof(%s, %s), \"\");" % (rep, path, s.name, path),
                     "field-offset:%s" % s.name, "%s.%s offset/order" % (s.name, path))
                if isinstance(f.type, (an.AnonymousStructDecl, an.AnonymousUnionDecl)):
                    walk(f.type.fields, path + ".")
                else:
                    ty = strip_nullable(f.type)
                    if sab["field"]:
                        ty, sab["field"] = an.PointerType(an.PointerType(an.ValueType("short"))), False
                    emit("static void verif_f%d(%s *s) { %s = &s->%s; (void)p; }" % (
                        len(lines), s.name, ty.decl("(*p)"), path), "field-type:%s" % s.name,
                        "%s.%s is not of type %s" % (s.name, path, ty.decl()))
        walk(s.fields, "")
    for f in mods["functions"].FUNCTIONS.values():
        if f.name in variadic:
            continue
        params = ", ".join(strip_nullable(p.type).decl() for p in f.parameters) or "void"
        if sab["func"]:
            params, sab["func"] = params + ", short **", False
        rt = strip_nullable(f.return_type)
        emit("static void verif_g%d(void) { %s = &%s; (void)fp; }" % (len(lines), rt.decl("(*fp)(%s)" % params), f.name),
             "function-prototype", "%s is not %s" % (f.name, rt.decl("(%s)" % params)))
    return lines, obl


def compile_obligations(lines, tmp):
    src = os.path.join(tmp, "c49_obligations.c")
    with open(src, "w") as fh:
        fh.write("\n".join(lines) + "\n")
    p = subprocess.run(["gcc"] + CFLAGS + ["-I", os.path.join(build.REPO, "include"), src], capture_output=True,
                       text=True, timeout=600)
    bad = {}
    for m in re.finditer(r'c49_obligations\.c:(\d+):\d+: error: ([^\n]*)', p.stderr):
        bad.setdefault(int(m.group(1)), m.group(2))
    if p.returncode != 0 and not bad:
        raise Machinery("gcc failed without a located error:\n" + p.stderr[-1500:])
    return bad


def header_names():
    """names of MJAPI functions declared in the public headers (textual, for the completeness direction)"""
    return set(m.group(1) for m in re.finditer(r'(?m)^MJAPI\b[^;{#]*?\b(mj[A-Za-z0-9_]*)\s*\(', header_text()))


def header_clause(ctx):
    mods = load_introspect()
    tmp = tempfile.mkdtemp(prefix="c49", dir=os.path.join(VERIF, ".cache"))
    try:
        lines, obl = gen_header_obligations(mods)
        bad = compile_obligations(lines, tmp)
        # negative control: three falsified obligations must be located
        l2, o2 = gen_header_obligations(mods, sabotage=True)
        b2 = compile_obligations(l2, tmp)
        newbad = [l2[k - 1] for k in b2 if l2[k - 1] not in lines]
        ctx.control("gcc locates a falsified enum value, field type and function prototype",
                    len(newbad) == 3 and any(x.startswith("_Static_assert(mj") for x in newbad)
                    and any(x.startswith("static void verif_f") for x in newbad)
                    and any(x.startswith("static void verif_g") for x in newbad))
    finally:
        shutil.rmtree(tmp, ignore_errors=True)
    for ln, msg in sorted(bad.items()):
        if ln not in obl:
            raise Machinery("gcc error outside the obligations (line %d): %s" % (ln, msg))
        sig, text = obl[ln]
        ctx.violation("header:" + sig, "%s [gcc: %s]" % (text, msg), {"kind": "header", "line": lines[ln - 1]})
    for ln, (sig, text) in obl.items():
        ctx.case({"obligation": lines[ln - 1]}, nontrivial=True)
    # completeness direction (textual): every MJAPI function of the headers is described, and nothing else
    hn = header_names() - set(generator_exclusions())
    fnames = set(mods["functions"].FUNCTIONS)
    if len(hn) < 100:
        raise Machinery("header scan found only %d MJAPI functions" % len(hn))
    for nme in sorted(hn - fnames):
        ctx.violation("header:function-missing-from-metadata", "MJAPI function %s is declared in include/mujoco but "
                      "absent from introspect.functions" % nme, {"kind": "header", "line": nme})
    for nme in sorted(fnames - hn):
        ctx.violation("header:function-not-in-headers", "introspect.functions describes %s, not declared MJAPI in "
                      "include/mujoco" % nme, {"kind": "header", "line": nme})
    ctx.cov["header_clause"] = {"obligations": len(obl), "failed": len(bad), "functions_in_headers": len(hn),
                                "excluded_variadic": variadic_functions(),
                                "excluded_by_generator": generator_exclusions(), "technique": "translation validation (gcc), "
                                "not TLA+"}


def run(ctx):
    mods = load_introspect()
    ctx.assume("C type ASTs: value type (1-3 name tokens, const/volatile), pointers (const/volatile/restrict), arrays "
               "with 1-2 extents; nesting depth <= 3 exhaustively, <= 6 by simulation",
               "renderings: qualifiers before / after / swapped / inside the type name, tokens spaced or compact",
               "'nullable' is not part of C and is dropped before printing metadata types",
               "header clause: gcc -std=c11 against the working tree's include/ (translation validation, not TLA+)")
    types, nex, exhaustive, traces, owners = grammar_clause(ctx)
    ncorp, skipped = corpus_clause(ctx, traces, owners)
    # negative controls for both directions
    ctl = [([{"op": "read", "toks": "int * [ 3 ]".split(),
              "ast": {"k": "ptr", "inner": {"k": "arr", "inner": {"k": "val", "name": ["int"], "c": False, "v": False},
                                            "ext": ["3"]}, "c": False, "v": False, "r": False}}], [0]),
           ([{"op": "read", "toks": "int ( * ) [ 3 ]".split(),
              "ast": {"k": "ptr", "inner": {"k": "arr", "inner": {"k": "val", "name": ["int"], "c": False, "v": False},
                                            "ext": ["3"]}, "c": False, "v": False, "r": False}}], []),
           ([{"op": "read", "toks": "int ( * [ 3 ]".split(),
              "ast": {"k": "val", "name": ["int"], "c": False, "v": False}}], [0])]
    verd = validate(ctx, traces + [c[0] for c in ctl], "CTypeTrace")
    for j, (nm, c) in enumerate(zip(("'int *[3]' is not read as pointer to array", "'int (*)[3]' is read as pointer to "
                                     "array", "unbalanced parentheses are rejected"), ctl)):
        ctx.control("specification reader: " + nm, verd[len(traces) + j] == c[1])
    for i, (want, printed) in enumerate(owners):
        if verd[i]:
            ctx.violation("print-not-equivalent:%s" % feature(want),
                          "printed declaration %r is not read by the specification as %s" % (printed, jsonable(want)),
                          {"kind": "print", "decl": printed, "ast": jsonable(want)})
    # the spec->code comparer must flag a result that confuses restrict with const (synthetic, implementation-free)
    an = mods["ast_nodes"]
    wrong = an.PointerType(inner_type=an.ValueType("int"), is_const=True)
    right = {"k": "ptr", "inner": {"k": "val", "name": ("int",), "c": False, "v": False}, "c": False, "v": False, "r": True}
    ctx.control("a parse result that turns restrict into const is flagged",
                norm(to_spec(wrong, an)) != norm(right)
                and norm(to_spec(an.PointerType(inner_type=an.ValueType("int"), is_restrict=True), an)) == norm(right))
    header_clause(ctx)
    ctx.cov["exhaustive"] = bool(exhaustive)
    ctx.cov["grammar"] = {"types_exhaustive": nex, "types_simulated": len(types) - nex, "metadata_types": ncorp,
                          "metadata_skipped": skipped}
    ctx.cov["rule"] = ("every AST of the exhaustive CType configuration (%d) + %d simulated deeper ones, each in 4 styles "
                       "x 2 spacings through parse_type; each printed declaration and each of the %d distinct metadata "
                       "types read back by the specification (trace validation); non-trivial = not a bare value type; "
                       "plus the compiled header obligations" % (nex, len(types) - nex, ncorp))


def replay(ctx, rp):
    mods = load_introspect()
    an, tp = mods["ast_nodes"], mods["type_parsing"]
    r = rp["replay"]
    ctx.case({"replay": rp["signature"]}, sample={"kind": r["kind"], "what": r.get("decl", r.get("line"))})
    ctx.case({"replay": rp["signature"], "x": 1})
    res = tlc.run(SPEC, os.path.join(TLA, "CType_MC.cfg"), timeout=600)          # the oracle still satisfies its laws
    ctx.tlc_ok(res, "CType_MC")
    if r["kind"] == "parse":
        try:
            got = jsonable(norm(to_spec(tp.parse_type(r["decl"]), an)))
        except Exception as ex:      # noqa: BLE001
            got = "raised %r" % (ex,)
        print("parse_type(%r) = %s; want %s" % (r["decl"], got, r["ast"]))
        if got != jsonable(norm(r["ast"])):
            ctx.violation(rp["signature"], rp["what"], r)
    elif r["kind"] == "print":
        toks = tokenize(r["decl"])
        verd = validate(ctx, [[{"op": "read", "toks": toks or ["?"], "ast": r["ast"]}]], "CTypeTrace(replay)")
        print("specification reads %r: %s" % (r["decl"], "rejected" if verd[0] else "accepted"))
        if verd[0]:
            ctx.violation(rp["signature"], rp["what"], r)
    else:
        tmp = tempfile.mkdtemp(prefix="c49r", dir=os.path.join(VERIF, ".cache"))
        try:
            if r["line"].startswith(("_Static", "static", "struct")):
                lines, obl = gen_header_obligations(mods)
                bad = compile_obligations(lines, tmp)
                hit = [ln for ln in bad if "header:" + obl[ln][0] == rp["signature"]]
                print("obligations failing with this signature: %d" % len(hit))
                if hit:
                    ctx.violation(rp["signature"], rp["what"], r)
            else:
                hn, fnames = header_names() - set(generator_exclusions()), set(mods["functions"].FUNCTIONS)
                if (r["line"] in hn) != (r["line"] in fnames):
                    ctx.violation(rp["signature"], rp["what"], r)
        finally:
            shutil.rmtree(tmp, ignore_errors=True)
