"""C24 - rotation and pose utilities (group part): Rotations.tla decided by TLC, every returned call replayed into
mju_mulQuat / mju_negQuat / mju_quat2Mat / mju_mat2Quat / mju_axisAngle2Quat / mju_euler2Quat / mju_rotVecQuat /
mju_quatIntegrate / mju_subQuat / mju_quatZ2Vec / mju_mulPose / mju_negPose / mju_trnVecPose."""
import concurrent.futures as cf
import math
import os

from vlib import build, tlc, drv
from vlib.check import Machinery, VERIF
from checks import tladump

TLA = os.path.join(VERIF, "tla")
SPEC = os.path.join(TLA, "Rotations.tla")
GC = []

META = dict(
    engine="tlc-replay",
    technique="TLA+ spec Rotations.tla (the binary octahedral group as exact quaternions over Z[sqrt2]/2 evolving by "
              "quaternion algebra, the 24 cube rotations as integer matrices evolving by matrix algebra, integer "
              "positions; one action per API call) model-checked by TLC; every (state, call) pair of the exhaustive "
              "one-call run, all 6^3 x 4^3 Euler calls and simulated 40-call behaviours are replayed into "
              "engine_util_spatial.c and compared with the specification's successor state",
    text="TLC decides on Rotations.tla that quaternion products compose like matrix products (the quaternion and the "
         "matrix algebra agree in every reachable state), closure, the exact two-to-one cover (round trips up to sign), "
         "inverse laws for quaternions and poses, norm preservation, subQuat-inverts-integrate at quarter turns and the "
         "intrinsic/extrinsic duality of Euler sequences. The implementation is run on every group element x every "
         "call (products with 8 group elements on both sides in the quick tier, all 48 x 48 in the thorough tier, axis-angle with -3..4 quarter turns about the six signed axes, "
         "conjugate, matrix round trip, vector rotation, quatIntegrate with non-unit input and subQuat, z-to-vector, "
         "pose product / inverse / transform) and on all 13 824 Euler calls; quaternion (up to sign), matrix, "
         "position and returned vectors must equal the specification's to 1e-12.",
    note="Trusted: TLC, harness rot_drv.cc, the rendering of exact numbers (a + b sqrt2)/2 as doubles. Only unit "
         "quaternions of the octahedral group and angles that are multiples of pi/2 are decided (quatIntegrate also "
         "with a scaled, non-unit input); mju_subQuat only for differences of at most a quarter turn; derivatives "
         "mjd_subQuat / mjd_quatIntegrate, near-pi behaviour, mju_mat2Rot and arbitrary angles are numeric and not "
         "decided.",
    ref="DESIGN.md section 4 C24")

TOL = 1e-12
SQ2 = math.sqrt(2.0)


def num(p):
    """exact number (a + b sqrt2)/2 of the specification -> double"""
    return (p[0] + p[1] * SQ2) / 2.0


def quat(q):
    return [num(c) for c in q]


def fmt(xs):
    return " ".join(repr(float(x)) for x in xs)


def command(ev):
    """harness command for one returned call of the specification"""
    op = ev["op"]
    if op in ("mulquat", "premulquat"):
        return "%s %s" % (op, fmt(quat(ev["p"])))
    if op in ("mulaxis", "setaxis"):
        return "%s %s %d" % (op, fmt(ev["ax"]), ev["k"])
    if op in ("neg", "roundtrip", "negpose", "mulinv"):
        return op
    if op == "dsub":
        return "dsub %s %d %d %d" % (fmt(ev["ax"]), ev["k"], ev["sa"], ev["sb"])
    if op == "dint":
        return "dint %s %d" % (fmt(ev["v"]), ev["sc"])
    if op == "intzero":
        return "intzero %s %d" % (fmt(ev["v"]), ev["qs"])
    if op in ("rotvec", "trnvec", "z2vec"):
        return "%s %s" % (op, fmt(ev["v"]))
    if op == "integrate":
        return "integrate %s %d %d %d" % (fmt(ev["ax"]), ev["k"], ev["qs"], ev["h"])
    if op == "euler":
        return "euler %s %d %d %d" % ("".join(ev["sq"]), ev["ks"][0], ev["ks"][1], ev["ks"][2])
    if op == "eulerbad":
        return "euler %s 1 1 1" % ("".join(ev["sq"]) or "-")
    if op == "mulpose":
        return "mulpose %s %s" % (fmt(quat(ev["p"])), fmt(ev["t2"]))
    raise Machinery("unknown op in ev: %r" % (ev,))


def feature(ev):
    """class of the call for the signature"""
    op = ev["op"]
    if op in ("mulaxis", "setaxis", "integrate"):
        return "k=%d" % ev["k"]
    if op == "dsub":
        return "%s:%s" % ("zero-relative-rotation" if ev["k"] == 0 else "quarter-turn",
                          "same" if (ev["sa"], ev["sb"]) == (1, 1) else "negated" if ev["sa"] * ev["sb"] < 0 and abs(ev["sa"] * ev["sb"]) == 1
                          else "scaled")
    if op == "dint":
        return "zero-velocity" if not any(ev["v"]) else "zero-step"
    if op == "euler":
        return "".join("i" if c.islower() else "e" for c in ev["sq"])
    if op == "eulerbad":
        return "len=%d" % len(ev["sq"])
    if op in ("rotvec", "trnvec"):
        return "zero" if not any(ev["v"]) else "vec"
    if op == "z2vec":
        return "axis=%d%s" % (max(range(3), key=lambda i: abs(ev["v"][i])), "-" if min(ev["v"]) < 0 else "+")
    return "-"


def verdict(st, got):
    """compare one answer of the implementation with the specification's successor state; None or (class, text)"""
    ev = st["ev"]
    if got is None:
        return "crash", "no answer (harness died)"
    tk = got.split()
    if ev["op"] == "eulerbad":
        return None if tk[:1] == ["error"] else ("accepted", "malformed sequence accepted: " + got[:80])
    if tk[:1] == ["error"]:
        return "error", "mju_error: " + got[:120]
    if ev["op"] == "dsub":
        if tk[0] != "D" or len(tk) != 23:
            return "protocol", got[:80]
        x = [float(v) for v in tk[1:22]]
        if not all(math.isfinite(v) for v in x):
            return "nonfinite", "mjd_subQuat / mju_subQuat returned non-finite values: %s" % tk[1:22]
        ret = ev["ret"]
        if max(abs(a - b) for a, b in zip(x[0:3], ret["sub"])) > 1e-9:
            return "sub", "subQuat = %s quarter turns, specification %s" % (x[0:3], list(ret["sub"]))
        if len(ret["exact"]):
            da, db, tol = list(ret["exact"]["da"]), list(ret["exact"]["db"]), 1e-12
        else:
            h = math.pi / 4
            da = [e + h * k + (1 - h) * kk for e, k, kk in zip((1, 0, 0, 0, 1, 0, 0, 0, 1), ret["K"], ret["KK"])]
            db = [-da[3 * (i % 3) + i // 3] for i in range(9)]
            tol = 1e-9
        if max(abs(a - b) for a, b in zip(x[3:12], da)) > tol:
            return "Da", "Da = %s, specification %s" % ([round(v, 9) for v in x[3:12]], [round(v, 9) for v in da])
        if max(abs(a - b) for a, b in zip(x[12:21], db)) > tol:
            return "Db", "Db = %s, specification %s" % ([round(v, 9) for v in x[12:21]], [round(v, 9) for v in db])
        if tk[22] != "1":
            return "nullable", "mjd_subQuat with one output differs from the call with both outputs"
        return None
    if ev["op"] == "dint":
        if tk[0] != "J" or len(tk) != 22:
            return "protocol", got[:80]
        x = [float(v) for v in tk[1:22]]
        if not all(math.isfinite(v) for v in x):
            return "nonfinite", "mjd_quatIntegrate returned non-finite values: %s" % tk[1:22]
        ret = ev["ret"]
        want = list(ret["dquat"]) + list(ret["dvel"]) + list(ret["dscale"])
        if max(abs(a - b) for a, b in zip(x, want)) > 1e-12:
            return "jac", "Dquat, Dvel, Dscale = %s, specification %s" % (x, want)
        return None
    if ev["op"] in ("rotvec", "trnvec"):
        if tk[0] != "v" or len(tk) != 4:
            return "protocol", got[:80]
        v = [float(x) for x in tk[1:]]
        if max(abs(a - b) for a, b in zip(v, ev["ret"])) > TOL:
            return "ret", "returned %s, specification %s" % (v, list(ev["ret"]))
        return None
    if tk[0] != "s" or len(tk) < 17:
        return "protocol", got[:80]
    x = [float(v) for v in tk[1:17]]
    q, m, p = x[0:4], x[4:13], x[13:16]
    e = quat(st["q"])
    dq = min(max(abs(a - b) for a, b in zip(q, e)), max(abs(a + b) for a, b in zip(q, e)))
    if max(abs(a - b) for a, b in zip(m, st["R"])) > TOL:
        return "mat", "rotation matrix %s, specification %s" % ([round(v, 6) for v in m], list(st["R"]))
    if dq > TOL:
        return "quat", "quaternion %s, specification +-%s" % (q, e)
    if max(abs(a - b) for a, b in zip(p, st["t"])) > TOL:
        return "pos", "position %s, specification %s" % (p, list(st["t"]))
    if ev["op"] == "integrate" and len(ev["ret"]) == 3:
        if len(tk) != 25 or tk[17] != "sub" or tk[21] != "vel":
            return "protocol", got[:80]
        s = [float(v) for v in tk[18:21]]
        if max(abs(a - b) for a, b in zip(s, ev["ret"])) > 1e-9:
            return "sub", "subQuat(new, old) = %s quarter turns, specification %s" % (s, list(ev["ret"]))
        s = [float(v) for v in tk[22:25]]
        if max(abs(a - b) for a, b in zip(s, ev["ret"])) > 1e-9:
            return "vel", "quat2Vel(negQuat(old) * new) = %s quarter turns, specification %s" % (s, list(ev["ret"]))
    return None


def setcmd(inp):
    return "set %s %s" % (fmt(quat(inp["q"])), fmt(inp["t"]))


def run(ctx):
    exe = build.build_harness("rot_drv", [os.path.join(VERIF, "harness", "rot_drv.cc")])
    ctx.assume("orientations are the 24 rotations of the cube (48 unit quaternions), angles multiples of pi/2, "
               "positions small integer vectors",
               "quaternions are compared up to sign, everything to 1e-12 absolute (values are 0, +-1/2, +-sqrt(1/2), "
               "+-1 and small integers)",
               "mju_subQuat is compared only for differences of at most a quarter turn")
    nsim = 40 if ctx.quick else 400
    jobs = {
        "MC": lambda: tladump.run_dump(SPEC, os.path.join(TLA, "Rotations_MCQ.cfg" if ctx.quick else "Rotations_MC.cfg"), timeout=1500, coverage=True,
                                       workers=6, only=("q", "R", "t", "ev"), java_opts=GC),
        "Euler": lambda: tladump.run_dump(SPEC, os.path.join(TLA, "Rotations_EulerQ.cfg" if ctx.quick else "Rotations_Euler.cfg"), timeout=1500, coverage=True,
                                          workers=4, only=("q", "R", "t", "ev"), java_opts=GC),
        "Closure": lambda: tlc.run(SPEC, os.path.join(TLA, "Rotations_Closure.cfg"), timeout=1500, coverage=True,
                                   workers=4, java_opts=GC),
        "Neg": lambda: tlc.run(SPEC, os.path.join(TLA, "Rotations_Neg.cfg"), timeout=900, workers=2, java_opts=GC),
        "Sim": lambda: tladump.simulate(SPEC, os.path.join(TLA, "Rotations_Sim.cfg"), num=nsim, depth=41,
                                        seed=ctx.seed + 1, timeout=1500, only=("q", "R", "t", "ev"), java_opts=GC),
    }
    with cf.ThreadPoolExecutor(len(jobs)) as ex:
        futs = {k: ex.submit(f) for k, f in jobs.items()}
        out = {k: f.result() for k, f in futs.items()}
    need = {"MC": ["DoDSub", "DoDInt", "DoIntZero", "MulInverse", "DoMulQuat", "DoPreMulQuat", "DoMulAxis", "DoSetAxis", "Neg", "RoundTrip", "DoRotVec", "DoIntegrate", "DoZ2Vec",
                   "DoMulPose", "NegPose", "DoTrnVec", "DoEulerBad"],
            "Euler": ["DoEuler"]}
    single = []                      # independent cases: (origin, state)
    try:
        for k in ("MC", "Euler"):
            res, states, cleanup = out[k]
            ctx.tlc_ok(res, "Rotations_" + k, need_actions=need[k])
            for st in states():
                if st["ev"]["op"] != "init":
                    single.append((k, st))
    finally:
        out["MC"][2]()
        out["Euler"][2]()
    ctx.tlc_ok(out["Closure"], "Rotations_Closure", need_actions=["DoMulQuat", "DoMulAxis", "DoMulPose", "NegPose", "Neg"])
    if out["Closure"].distinct != 48 * 27:
        raise Machinery("closure run reached %d poses instead of 48 x 27" % out["Closure"].distinct)
    r = out["Neg"]
    ctx.cov["tlc_runs"].append({"name": "Rotations_Neg", "generated": r.generated, "distinct": r.distinct,
                                "depth": r.depth, "wall_s": round(r.wall, 2), "violation": r.violation})
    if r.error:
        raise Machinery("TLC negative-control run failed: %s" % r.error)
    ctx.control("TLC rejects a ghost matrix multiplied on the wrong side (Homomorphism)",
                bool(r.violation) and "Homomorphism" in r.violation)
    res, behs = out["Sim"]
    ctx.tlc_ok(res, "Rotations_Sim")
    if len(behs) < nsim // 2:
        raise Machinery("too few simulated behaviours (%d)" % len(behs))
    if not single:
        raise Machinery("no returned calls in the dumped states")
    single.sort(key=lambda c: (c[0], command(c[1]["ev"]), setcmd(c[1]["ev"]["in"])))
    # vacuity guard: the derivative routines must have been exercised at zero relative rotation / zero scaled velocity with
    # identical, negated and scaled arguments
    zero = {"dsub:same": 0, "dsub:negated": 0, "dsub:scaled": 0, "dint:zero-velocity": 0, "dint:zero-step": 0}
    for (_k, st) in single:
        e = st["ev"]
        if e["op"] == "dsub" and e["k"] == 0:
            zero["dsub:" + feature(e).split(":")[1]] += 1
        elif e["op"] == "dint":
            zero["dint:" + feature(e)] += 1
    if not all(zero.values()):
        raise Machinery("vacuity: degenerate argument pairs not exercised: %r" % zero)

    # ---- scripts: independent cases (set + call), then chains (calls only, state carried by the implementation)
    lines, where = [], []            # where[i] = index of the answer line of case i
    for (_k, st) in single:
        lines.append(setcmd(st["ev"]["in"]))
        lines.append(command(st["ev"]))
        where.append(len(lines) - 1)
    chains = []
    for beh in behs:
        sts = [s for (_a, s) in beh]
        lines.append(setcmd(sts[0]["ev"]["in"]))
        idx = []
        for st in sts[1:]:
            lines.append(command(st["ev"]))
            idx.append(len(lines) - 1)
        chains.append((sts[1:], idx))
    r = drv.run_script(exe, lines, timeout=900)
    got = r.lines + [None] * (len(lines) - len(r.lines))

    # negative controls on the comparer: a perturbed successor state / returned vector must be flagged
    ctl = {"quat": False, "mat": False, "ret": False}
    for (_k, st), w in zip(single, where):
        if all(ctl.values()):
            break
        if verdict(st, got[w]) is not None:
            continue
        op = st["ev"]["op"]
        if op == "mulquat" and not ctl["mat"]:
            bad = dict(st, R=tuple(st["R"][3:6] + st["R"][0:3] + st["R"][6:9]))
            ctl["mat"] = verdict(bad, got[w]) is not None and verdict(bad, got[w])[0] == "mat"
            bad = dict(st, q=(st["q"][1], st["q"][0], st["q"][2], st["q"][3]))
            ctl["quat"] = st["q"][0] == st["q"][1] or (verdict(bad, got[w]) or ("",))[0] == "quat"
        if op == "rotvec" and any(st["ev"]["v"]) and not ctl["ret"]:
            bad = dict(st, ev=dict(st["ev"], ret=tuple(-x for x in st["ev"]["ret"])))
            ctl["ret"] = verdict(bad, got[w]) is not None
    for k, name in (("mat", "rotation matrix"), ("quat", "quaternion"), ("ret", "rotated vector")):
        if ctl[k] or not r.crashed:      # after a harness crash a control may have found no answered case to perturb
            ctx.control("perturbed expected %s is flagged" % name, ctl[k])

    def report(st, g, script):
        v = verdict(st, g)
        ev = st["ev"]
        key = {"cmd": command(ev), "in": setcmd(ev["in"])}
        ctx.case(key, nontrivial=ev["op"] not in ("roundtrip",) or True, sample={"call": command(ev), "on": setcmd(ev["in"])})
        if v is None:
            return True
        sig = "%s:%s:%s" % (ev["op"], feature(ev), v[0])
        if r.crashed and g is None:
            sig = "crash"
        ctx.violation(sig, "%s on [%s]: %s" % (command(ev), setcmd(ev["in"]), v[1]),
                      {"script": script, "state": tlc.to_py({"q": st["q"], "R": st["R"], "t": st["t"], "ev": ev})})
        return False

    for (_k, st), w in zip(single, where):
        if report(st, got[w], lines[w - 1:w + 1]):
            ctx.trace_ok()
    for sts, idx in chains:
        ok = True
        for j, (st, w) in enumerate(zip(sts, idx)):
            first = idx[0] - 1
            if not report(st, got[w], lines[first:w + 1]):
                ok = False
                break
        if ok:
            ctx.trace_ok()
    ctx.cov["exhaustive"] = True
    ctx.cov["rule"] = ("cases = every (group element, call) pair of the exhaustive one-call run (%d), every Euler call "
                       "over 6^3 sequences x quarter-turn triples (3^3 in the quick tier, 4^3 in the thorough tier), and every call of %d simulated 40-call "
                       "behaviours executed as chains without resetting the implementation's state; closure run "
                       "reaches all 48 x 27 poses; distinct = distinct (input state, call) pairs"
                       % (len([1 for c in single if c[0] == "MC"]), len(behs)))


def replay(ctx, rp):
    exe = build.build_harness("rot_drv", [os.path.join(VERIF, "harness", "rot_drv.cc")])
    script = rp["replay"]["script"]
    r = drv.run_script(exe, script)
    st = rp["replay"]["state"]
    st = {"q": tuple(tuple(c) for c in st["q"]), "R": tuple(st["R"]), "t": tuple(st["t"]), "ev": st["ev"]}
    g = r.lines[len(script) - 1] if len(r.lines) >= len(script) else None
    v = verdict(st, g)
    print("answer: %s -> %s" % (g, v))
    ctx.case({"replay": rp["signature"]})
    ctx.case({"replay": rp["signature"], "x": 1})
    if v is not None:
        ctx.violation(rp["signature"], rp["what"], rp["replay"])
