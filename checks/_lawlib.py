"""Helpers shared by the exact-rational law checks c05.py (Integrators.tla), c27.py (Actuation.tla), c51.py (Pid.tla).

* run TLC with '-dump' / '-simulate' and pull the `ev` records out of the output with a fast parser (TLC's textual
  values rewritten into Python literals; only records, sequences, integers, strings and booleans occur in `ev`);
* rationals <<num, den>> -> fractions.Fraction; comparison of an implementation double with a rational either exactly
  (Fraction(double) == value) or to 1e-10 relative, as the specification's `exact` flag says;
* one batched run of harness/law_drv.cc.
Nothing in here computes an expected value: expectations are read from TLC's output only.
"""
import glob
import os
import re
import shutil
from fractions import Fraction

from vlib import build, drv, tlc
from vlib.check import Machinery, VERIF

TLA = os.path.join(VERIF, "tla")
WORKERS = 4          # the box is shared; TLC with many workers on these small graphs is slower, not faster
REL_TOL = Fraction(1, 10 ** 10)

_key = re.compile(r'([A-Za-z_][A-Za-z0-9_]*) \|->')


def to_python(text):
    """TLA+ value text (records / sequences / ints / strings / booleans) -> Python value
    records -> dict, sequences -> tuple"""
    s = text.replace("<<>>", "()").replace("<< >>", "()")
    s = s.replace("<<", "(").replace(">>", ",)")
    s = _key.sub(r'"\1":', s)
    s = s.replace("[", "{").replace("]", "}")
    s = s.replace("TRUE", "True").replace("FALSE", "False")
    return eval(s, {"__builtins__": {}, "True": True, "False": False})


_ev_block = re.compile(r'^/\\ ev = (.*?)(?=^/\\ |\Z)', re.S | re.M)


def _evs_of_text(txt, want):
    out = []
    for m in _ev_block.finditer(txt):
        body = m.group(1)
        hit = False
        for w in want:
            if ('op |-> "%s"' % w) in body:
                hit = True
                break
        if hit:
            out.append(to_python(body))
    return out


def dump_evs(module, cfg, want=("step",), timeout=600, coverage=False, workers=WORKERS):
    """exhaustive TLC run of tla/<module>.tla with tla/<cfg>.cfg and '-dump'; returns (TlcResult, [ev dict of every
    reachable state whose ev.op is in `want`]).  '-coverage' is off by default: TLC's cost-model construction takes
    minutes on these arithmetic-heavy modules; vacuity is checked on the dumped events instead (every action that
    completes an operation leaves its name in ev.op)."""
    meta = tlc._mk_tmp()
    dump = os.path.join(meta, "dump")
    try:
        res = tlc.run(os.path.join(TLA, module + ".tla"), os.path.join(TLA, cfg + ".cfg"), workers=workers,
                      args=["-dump", dump], timeout=timeout, coverage=coverage, keep_meta=meta,
                      java_opts=["-XX:ParallelGCThreads=4"])
        evs = []
        f = dump + ".dump" if os.path.exists(dump + ".dump") else dump
        if os.path.exists(f):
            with open(f) as fh:
                txt = fh.read()
            # states are separated by blank lines; parse state by state to keep the regex windows small
            for blk in txt.split("\n\n"):
                if "/\\ ev = " in blk:
                    evs += _evs_of_text(blk + "\n", want)
    finally:
        shutil.rmtree(meta, ignore_errors=True)
    return res, evs


_hdr = re.compile(r'^STATE_\d+ ==\s*\n', re.M)


def simulate_evs(module, cfg, num, depth, seed, want=("step",), timeout=600):
    """tlc -simulate: returns (TlcResult, [behaviour]); behaviour = list of the ev dicts (op in `want`) in order"""
    meta = tlc._mk_tmp()
    pref = os.path.join(meta, "tr")
    try:
        res = tlc.run(os.path.join(TLA, module + ".tla"), os.path.join(TLA, cfg + ".cfg"), workers=1,
                      simulate="file=%s,num=%d" % (pref, num), depth=depth, seed=seed, timeout=timeout,
                      keep_meta=meta, java_opts=["-XX:ParallelGCThreads=2"])
        m = re.search(r'The number of states generated: (\d+)', res.out)
        if m and not res.generated:
            res.generated = res.distinct = int(m.group(1))      # simulation mode prints a different summary line
        behs = []
        for f in sorted(glob.glob(pref + "_*")):
            with open(f) as fh:
                txt = fh.read()
            beh = []
            parts = _hdr.split(txt)
            for body in parts[1:]:
                body = re.sub(r'\n=+\s*$', '\n', body.rstrip() + "\n")
                body = body.split("\n\n")[0] + "\n"
                beh += _evs_of_text(body, want)
            if beh:
                behs.append(beh)
    finally:
        shutil.rmtree(meta, ignore_errors=True)
    return res, behs


def negative_run(module, cfg, timeout=300):
    """TLC on a deliberately wrong variant of the specification (no dump); to be judged by negative_record"""
    return tlc.run(os.path.join(TLA, module + ".tla"), os.path.join(TLA, cfg + ".cfg"), workers=2, timeout=timeout,
                   java_opts=["-XX:ParallelGCThreads=2"])


def negative_record(ctx, res, name):
    """the wrong variant must violate one of the specification's invariants (TLC-level negative control)"""
    ctx.cov["tlc_runs"].append({"name": name, "generated": res.generated, "distinct": res.distinct, "depth": res.depth,
                                "wall_s": round(res.wall, 2), "queue_left": res.queue, "violation": res.violation})
    if res.error:
        raise Machinery("TLC run %s failed: %s\n%s" % (name, res.error, res.out[-2000:]))
    ctx.control(name, res.violation is not None)
    return res


def negative_tlc(ctx, module, cfg, name, timeout=300):
    return negative_record(ctx, negative_run(module, cfg, timeout), name)


# ---- rationals ---------------------------------------------------------------------------------------------------
def fr(t):
    return Fraction(t[0], t[1])


def num(t):
    """decimal text of a rational for the harness: exact for dyadics (float conversion is exact, repr round-trips)"""
    return repr(float(Fraction(t[0], t[1])))


def close(got, want, exact):
    """got: float from the implementation, want: Fraction from the specification"""
    if got != got or got in (float("inf"), float("-inf")):
        return False
    g = Fraction(got)
    if exact:
        return g == want
    return abs(g - want) <= REL_TOL * max(1, abs(want))


def parse_obs(line):
    """'f1:v,v|f2:v' -> {f1: [floats], ...}; None if the harness reported an error"""
    if line is None or line.startswith("error") or line.startswith("MKMODEL") or line.startswith("FATAL") \
            or line.startswith("?"):
        return None
    out = {}
    for part in line.split("|"):
        k, _, v = part.partition(":")
        out[k] = [float(z) for z in v.split(",")] if v else []
    return out


def harness():
    return build.build_harness("law_drv", [os.path.join(VERIF, "harness", "law_drv.cc"),
                                           os.path.join(build.REPO, "plugin", "elasticity", "cable.cc")],
                               extra=["-I" + os.path.join(build.REPO, "plugin", "actuator"),
                                      "-I" + os.path.join(build.REPO, "plugin", "elasticity"),
                                      "-I" + os.path.join(VERIF, "harness")])


def run_lines(exe, lines, timeout=900):
    r = drv.run_script(exe, lines, timeout=timeout)
    return r


class Script:
    """accumulates harness lines; every op yields exactly one output line, `mark` remembers which line answers what"""

    def __init__(self):
        self.lines = []
        self.nout = 0

    def op(self, line):
        """single-line op; returns the index of its output line"""
        self.lines.append(line)
        self.nout += 1
        return self.nout - 1

    def block(self, first, body):
        """multi-line op (lmodel ... end): one output line"""
        self.lines.append(first)
        self.lines += body
        self.lines.append("end")
        self.nout += 1
        return self.nout - 1
