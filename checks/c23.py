"""C23 - linear algebra (structural part): Sparse.tla decided by TLC, every returned call replayed into the sparse /
band / factorization routines of engine_util_sparse.{c,h} and engine_util_solve.c."""
import concurrent.futures as cf
import os

from vlib import build, tlc, drv
from vlib.check import Machinery, VERIF
from checks import tladump

TLA = os.path.join(VERIF, "tla")
SPEC = os.path.join(TLA, "Sparse.tla")

META = dict(
    engine="tlc-replay",
    technique="TLA+ spec Sparse.tla (a CSR matrix kept twice: entry-level representation evolving through sparse "
              "definitions of the operations, dense ghost evolving through the dense definitions; compressed and "
              "uncompressed layouts, explicit zeros, empty rows; factor-solve problems built from integer lower-"
              "triangular factors) model-checked by TLC for every sparsity pattern of the configured sizes; every "
              "returned call is replayed into the real routines with guard zones around all buffers",
    text="TLC decides on Sparse.tla, for every sparsity pattern of every size up to 3x3 (thorough: up to 4x4 plus "
         "wide and supernodal families), that the sparse definition of each routine denotes the dense definition "
         "(mulMatVec, mulMatTVec, transpose with supernodes, compress, gather/scatter, M'diag M, addToMat, combine, "
         "combineInc, addToSclInc, dotSparse2, merge/count, symmetric-lower routines) and the algebra behind the "
         "factor-solve problems. The implementation is run on the same operands: dense denotation, returned counts, "
         "supernodes, well-formedness of every produced CSR structure, untouched guard zones; dense/band/sparse "
         "Cholesky must return the integer factor the problem was built from and solve back the integer solution, "
         "rank-one update/downdate must factor M +- xx', LU must solve its system (1e-9).",
    note="Trusted: TLC, harness sparse_drv.cc (own densification and well-formedness test, guard zones), rendering of "
         "operands as commands. Values are a fixed function of the position, so the quantifier is over patterns, "
         "layouts and sizes, not over values; conditioning, rank-deficient inputs, mju_eig3, mju_boxQP, QCQP, sparse "
         "LU, mju_cholUpdateSparse, mju_addToSparseMat and the block extraction routines are not decided.",
    ref="DESIGN.md section 4 C23")

TOL = 1e-9
ONE = ["S2D", "DoD2S", "MulVec", "MulTVec", "Transpose", "Compress", "Gather", "Scatter", "Sqr"]
PAIR = ["AddTo", "Combine", "CombineInc", "AddSclInc", "Dot2", "Merge"]
LOWER = ["Sym2Dense", "MulSymVec", "AddToSym", "CholDense", "CholUpdate", "CholSparse", "DoBand"]


def csv(xs):
    return ",".join(str(x) for x in xs) if len(xs) else "-"


def dense_arg(m):
    return ";".join(csv(r) for r in m) if len(m) else "-"


def load_cmd(name, M):
    rows = [",".join("%d:%d" % (c, v) for (c, v) in row) if len(row) else "-" for row in M["rows"]]
    return "load %s %d %d %s %s" % (name, M["nr"], M["nc"], M["lay"], " ".join(rows))


def command(ev):
    op, a = ev["op"], ev["a"]
    if op in ("s2d", "scatter", "transpose", "addto", "dot2", "merge", "sym2dense"):
        return op
    if op == "d2s":
        return "d2s %d" % a["cap"]
    if op == "mulvec":
        return "mulvec %d %s" % (a["super"], csv(a["x"]))
    if op == "multvec":
        return "multvec %s" % csv(a["y"])
    if op == "compress":
        return "compress %d" % a["minval"]
    if op in ("gather", "mulsymvec"):
        return "%s %s" % (op, csv(a["x"]))
    if op == "sqr":
        return "sqr %s %d %s" % (a["variant"], a["upper"], csv(a["diag"]))
    if op in ("combine", "combineinc"):
        return "%s %d %d" % (op, a["a"], a["b"])
    if op == "addsclinc":
        return "addsclinc %d" % a["s"]
    if op == "addtosym":
        return "addtosym %d" % a["upper"]
    if op == "choldense":
        return "choldense %s %s" % (dense_arg(a["mat"]), csv(a["rhs"]))
    if op == "cholupdate":
        return "cholupdate %s %s %d" % (dense_arg(a["mat"]), csv(a["x"]), a["plus"])
    if op == "cholsparse":
        return "cholsparse %s %s" % (a["variant"], csv(a["rhs"]))
    if op == "band":
        return "band %d %d %s %s %s" % (a["nb"], a["nd"], dense_arg(a["mat"]), csv(a["x"]), csv(ev["ret"]["mulsym"]))
    if op == "lu":
        return "lu %s %s" % (dense_arg(a["mat"]), csv(a["rhs"]))
    raise Machinery("unknown op in ev: %r" % (op,))


def parse(line):
    kv = {}
    for tok in line.split():
        k, _, v = tok.partition("=")
        kv[k] = v
    return kv


def pvec(s):
    return [] if s in ("-", "") else [float(x) for x in s.split(",")]


def pmat(s):
    return [] if s in ("-", "") else [pvec(r) for r in s.split(";")]


def prow(s):
    return [pvec(r) for r in s.split("|")]


def close(a, b):
    return abs(a - b) <= TOL * max(1.0, abs(b))


def veq(got, want):
    return len(got) == len(want) and all(close(g, w) for g, w in zip(got, want))


def meq(got, want):
    if len(got) != len(want):
        return False
    return all(veq(g, w) or (g == [] and len(w) == 0) for g, w in zip(got, want))


def verdict(ev, got):
    """None or (class, text): the implementation's answer against the specification's ret"""
    if ev["op"] == "boxqp":
        return boxqp_verdict(ev, got)
    if got is None:
        return "crash", "no answer (harness died)"
    if got.startswith("error") or got.startswith("?") or got.startswith("MKMODEL"):
        return "error", got[:160]
    kv = parse(got)
    ret, op = ev["ret"], ev["op"]
    if kv.get("guard") != "1":
        return "overrun", "a guard zone next to a buffer was overwritten (out-of-bounds write)"
    if "wf" in kv and kv["wf"] != "1":
        return "overrun", "resulting CSR structure is not well-formed: rows overlap or leave the buffer, or columns are unsorted / duplicate / out of range (a row was written outside its precomputed space)"
    if op == "d2s":
        if int(kv["code"]) != ret["code"]:
            return "code", "returned %s, specification %d (capacity %d)" % (kv["code"], ret["code"], ev["a"]["cap"])
        if ret["code"] == 1:
            return None
    for key, cmp, conv in (("dense", meq, pmat), ("vec", veq, pvec), ("factor", meq, pmat), ("x", veq, pvec),
                           ("prod", meq, pmat), ("mulsym", veq, pvec), ("mullow", veq, pvec), ("rows", meq, prow)):
        if key in ret:
            if key not in kv:
                return "protocol", "no %s in answer %r" % (key, got[:120])
            g = conv(kv[key])
            w = [list(r) for r in ret[key]] if cmp is meq else list(ret[key])
            if not cmp(g, w):
                return key, "%s = %s, specification %s" % (key, kv[key][:200], w)
    if "nnz" in ret and [int(x) for x in pvec(kv.get("nnz", "-"))] != list(ret["nnz"]):
        return "nnz", "row counts %s, specification %s" % (kv.get("nnz"), list(ret["nnz"]))
    if op == "mulvec" and ev["a"]["super"] and [int(x) for x in pvec(kv["super"])] != list(ret["super"]):
        return "super", "mju_superSparse gives %s, specification %s" % (kv["super"], list(ret["super"]))
    if op == "transpose":
        if [int(x) for x in pvec(kv["super"])] != list(ret["super"]):
            return "super", "supernodes of the transpose %s, specification %s" % (kv["super"], list(ret["super"]))
        if kv.get("patternonly") != "1":
            return "patternonly", "pattern-only transpose differs from the transpose with values"
    if op == "compress":
        if int(kv["ret"]) != ret["total"]:
            return "total", "returned %s non-zeros, specification %d" % (kv["ret"], ret["total"])
        adr, acc = [int(x) for x in pvec(kv["adr"])], 0
        for r, n in enumerate(ret["nnz"]):
            if adr[r] != acc:
                return "adr", "row addresses %s are not compressed" % kv["adr"]
            acc += n
    if op == "merge":
        if [int(x) for x in pvec(kv["count"])] != [len(r) for r in ret["rows"]]:
            return "count", "mju_combineSparseCount gives %s, specification %s" % (kv["count"], [len(r) for r in ret["rows"]])
        if kv.get("agree") != "1":
            return "agree", "mju_addChains and mj_mergeSorted disagree"
    if "rank" in ret and int(kv["rank"]) != ret["rank"]:
        return "rank", "rank %s, specification %d" % (kv["rank"], ret["rank"])
    if op == "sqr" and ev["a"]["upper"] and kv.get("diagind") != "1":
        return "diagind", "diagonal indices do not point at the diagonal entries"
    if op == "band":
        if not meq(pmat(kv["round"]), [list(r) for r in ev["a"]["mat"]]):
            return "round", "dense -> band -> dense gives %s" % kv["round"][:200]
        if kv.get("banddiag") != "1":
            return "banddiag", "mju_bandDiag does not address the diagonal"
        if not close(float(kv["mindiag"]), ret["mindiag"]):
            return "mindiag", "mju_cholFactorBand returned %s, specification %d" % (kv["mindiag"], ret["mindiag"])
    if op == "lu" and int(kv["code"]) != ret["code"]:
        return "code", "mju_factorLU returned %s" % kv["code"]
    return None


def feature(ev):
    """class of the operands for the signature (no sizes: one defect, one signature)"""
    if ev["op"] == "boxqp":
        return "%s+%s" % (ev["warm"], "swap" if ev["swap"] else "monotone")
    A = ev["in"]["A"]
    a = ev["a"]
    f = []
    if ev["op"] in ("sqr", "cholsparse"):
        f.append(a["variant"])
    elif ev["op"] == "mulvec":
        f.append("super" if a["super"] else "plain")
    elif ev["op"] == "compress":
        f.append("minval%s0" % ("<" if a["minval"] < 0 else "=" if a["minval"] == 0 else ">"))
    elif ev["op"] == "band":
        f.append("dense" if a["nd"] == A["nr"] else "band" if a["nd"] == 0 else "mixed")
    else:
        f.append("layout-" + A["lay"])
    if ev["op"] in ("sqr", "transpose") and any(all(c not in [e[0] for e in r] for r in A["rows"]) for c in range(A["nc"])):
        f.append("emptycol")
    elif any(len(r) == 0 for r in A["rows"]):
        f.append("emptyrow")
    return "+".join(f)


def boxqp_cmd(ev):
    i = ev["in"]
    return "boxqp %s %s %s %s %s" % (dense_arg(i["H"]), csv(i["g"]), csv(i["lo"]), csv(i["up"]), csv(ev["x0"]))


def boxqp_verdict(ev, got):
    if got is None:
        return "crash", "no answer (harness died)"
    if got.startswith("error"):
        return "error", got[:160]
    kv = parse(got)
    ret = ev["ret"]
    if kv.get("guard") != "1":
        return "overrun", "a guard zone next to a buffer was overwritten (out-of-bounds write)"
    want = [x / float(ret["den"]) for x in ret["num"]]
    x = pvec(kv["x"])
    if int(kv["ret"]) < 0:
        return "failed", "mju_boxQP returned %s (KKT violation of the returned point %s), specification: minimiser %s, %d free" % (
            kv["ret"], kv["kkt"], want, ret["nfree"])
    if not veq(x, want):
        return "point", "returned point %s (KKT violation %s), specification %s" % (x, kv["kkt"], want)
    if int(kv["ret"]) != ret["nfree"]:
        return "nfree", "returned %s free dimensions, specification %d" % (kv["ret"], ret["nfree"])
    if [int(v) for v in pvec(kv["index"])] != list(ret["index"]):
        return "index", "free set %s, specification %s" % (kv["index"], list(ret["index"]))
    return None


def case_lines(ev):
    if ev["op"] == "boxqp":
        return [boxqp_cmd(ev)]
    L = [load_cmd("A", ev["in"]["A"])]
    if "B" in ev["in"]:
        L.append(load_cmd("B", ev["in"]["B"]))
    L.append(command(ev))
    return L


HEAD = ["model 0", "option timestep=0.25 gravity=0,0,0", "size memory=4194304",
        "body name=b1 pos=0,0,1", "joint body=b1 name=j1 type=2 axis=0,0,1",
        "geom body=b1 name=g1 type=2 size=0.1,0,0 mass=1 contype=0 conaffinity=0", "end", "data 0 0"]


NHEAD_OUT = 2          # "model 0 .. end" and "data 0 0" give one answer line each


def run_cases(exe, cases, max_restarts=40):
    """run independent cases; after a crash the harness is restarted behind the crashing case.
    returns (answers per case, crash texts per case)"""
    ans = [None] * len(cases)
    crash = {}
    start = 0
    restarts = 0
    while start < len(cases):
        lines = list(HEAD)
        nout = NHEAD_OUT
        where = []
        for ev in cases[start:]:
            cl = case_lines(ev)
            lines += cl
            nout += len(cl)
            where.append(nout - 1)
        r = drv.run_script(exe, lines, timeout=3000)
        n = len(r.lines)
        if n < NHEAD_OUT or any(x != "ok" for x in r.lines[:NHEAD_OUT]):
            raise Machinery("harness set-up failed: %r %s" % (r.lines[:NHEAD_OUT], r.crash_text()))
        k = 0
        for k, w in enumerate(where):
            if w < n:
                ans[start + k] = r.lines[w]
            else:
                break
        else:
            return ans, crash
        # case start+k got no answer
        crash[start + k] = r.crash_text()
        start = start + k + 1
        restarts += 1
        if restarts > max_restarts:
            break
    return ans, crash


def run(ctx):
    exe = build.build_harness("sparse_drv", [os.path.join(VERIF, "harness", "sparse_drv.cc")],
                              extra=tladump.harness_digest_flag())
    ctx.assume("matrix values are a fixed integer function of the position (some stored entries are 0), vectors and "
               "diagonals are fixed: the quantifier is over sizes, sparsity patterns and layouts",
               "CSR operands have columns sorted within rows and rowadr[0] = 0; destinations of merging routines are in "
               "the uncompressed layout (room for nc entries per row)",
               "factor-solve problems are built from integer lower-triangular factors with diagonal 1..3; answers are "
               "compared to 1e-9 (divisions by 3 are not exact)",
               "dense2sparse is not called with capacity 0")
    sel_vars = ("ev",)

    def sel(blk):
        return None if 'op |-> "init"' in blk else sel_vars
    quick = ctx.quick
    nsim = 30 if quick else 1500
    jobs = {
        "MC": lambda: tladump.run_dump(SPEC, os.path.join(TLA, "Sparse_MC.cfg" if quick else "Sparse_Deep.cfg"), timeout=3400,
                                       coverage=True, workers=12, select=sel),
        "Box": lambda: tladump.run_dump(os.path.join(TLA, "BoxQP.tla"), os.path.join(TLA, "BoxQP_MC.cfg" if quick else "BoxQP_Deep.cfg"),
                                        timeout=3400, coverage=False, workers=6, select=sel),
        "Neg": lambda: tlc.run(SPEC, os.path.join(TLA, "Sparse_Neg.cfg"), timeout=900, workers=2),
        "Sim": lambda: tladump.simulate(SPEC, os.path.join(TLA, "Sparse_Sim.cfg"), num=nsim, depth=6, seed=ctx.seed + 1,
                                        timeout=3000, only=("ev",)),
    }
    with cf.ThreadPoolExecutor(len(jobs)) as ex:
        futs = {k: ex.submit(f) for k, f in jobs.items()}
        out = {k: f.result() for k, f in futs.items()}
    cases = []
    res, states, cleanup = out["MC"]
    try:
        ctx.tlc_ok(res, "Sparse_MC" if quick else "Sparse_Deep", need_actions=ONE + PAIR + LOWER + ["LU"])
        for st in states():
            cases.append(st["ev"])
    finally:
        cleanup()
    res, states, cleanup = out["Box"]
    nbox = nswap = 0
    try:
        ctx.tlc_ok(res, "BoxQP_MC" if quick else "BoxQP_Deep")
        for st in states():
            cases.append(st["ev"])
            nbox += 1
            nswap += 1 if st["ev"]["swap"] else 0
    finally:
        cleanup()
    # vacuity guard: box QPs whose active set must exchange coordinates at constant size on the way to the solution
    if nbox < 100 or nswap < 5:
        raise Machinery("vacuity: %d box QP calls, %d of them with an exchange of active coordinates at constant size" % (nbox, nswap))
    r = out["Neg"]
    ctx.cov["tlc_runs"].append({"name": "Sparse_Neg", "generated": r.generated, "distinct": r.distinct,
                                "depth": r.depth, "wall_s": round(r.wall, 2), "violation": r.violation})
    if r.error:
        raise Machinery("TLC negative-control run failed: %s" % r.error)
    ctx.control("TLC rejects a sparse transpose that forgets a row (Denotes)", bool(r.violation) and "Denotes" in r.violation)
    res, behs = out["Sim"]
    ctx.tlc_ok(res, "Sparse_Sim")
    if len(behs) < nsim // 2:
        raise Machinery("too few simulated behaviours (%d)" % len(behs))
    if not cases:
        raise Machinery("no returned calls in the dumped states")
    # simulated chains: every call of a behaviour is also an independent case (its operands are in ev.in)
    nchain = 0
    for beh in behs:
        for (_a, st) in beh:
            if st["ev"]["op"] != "init":
                cases.append(st["ev"])
                nchain += 1
    keyed = {}
    for ev in cases:
        keyed[" ; ".join(case_lines(ev))] = ev
    keys = sorted(keyed)
    cases = [keyed[k] for k in keys]
    ans, crash = run_cases(exe, cases)

    # ---- negative controls on the comparer
    ctl = {"dense": False, "vec": False, "nnz": False, "factor": False}
    for ev, g in zip(cases, ans):
        if all(ctl.values()):
            break
        if g is None or verdict(ev, g) is not None:
            continue
        ret = ev["ret"]
        if "dense" in ret and not ctl["dense"] and ret["dense"] and ret["dense"][0]:
            bad = [list(r) for r in ret["dense"]]
            bad[0][0] += 1
            ctl["dense"] = (verdict(dict(ev, ret=dict(ret, dense=bad)), g) or ("",))[0] == "dense"
        if "vec" in ret and not ctl["vec"] and len(ret["vec"]):
            bad = list(ret["vec"])
            bad[-1] -= 2
            ctl["vec"] = (verdict(dict(ev, ret=dict(ret, vec=bad)), g) or ("",))[0] == "vec"
        if "nnz" in ret and "dense" in ret and not ctl["nnz"] and len(ret["nnz"]):
            bad = list(ret["nnz"])
            bad[0] += 1
            ctl["nnz"] = (verdict(dict(ev, ret=dict(ret, nnz=bad)), g) or ("",))[0] == "nnz"
        if "factor" in ret and not ctl["factor"] and len(ret["factor"]) > 1:
            bad = [list(r) for r in ret["factor"]]
            bad[1][0] += 1
            ctl["factor"] = (verdict(dict(ev, ret=dict(ret, factor=bad)), g) or ("",))[0] == "factor"
    for k in ("dense", "vec", "nnz", "factor"):
        if ctl[k] or not crash:          # after harness crashes a control may have found no answered case to perturb
            ctx.control("perturbed expected %s is flagged" % k, ctl[k])

    for i, (ev, g) in enumerate(zip(cases, ans)):
        ctx.case(keys[i], nontrivial=True, sample={"case": keys[i][:300]})
        if g is None and i not in crash:
            continue                        # never run: the harness kept crashing (the crashes are reported)
        v = verdict(ev, g)
        if v is None:
            ctx.trace_ok()
            continue
        sig = "%s:%s:%s" % (ev["op"], feature(ev), v[0])
        what = "%s: %s" % (keys[i][:400], v[1] if g is not None else "harness died: " + crash.get(i, "?"))
        ctx.violation(sig, what, {"script": HEAD + case_lines(ev), "ev": tlc.to_py(ev)})
    ctx.cov["exhaustive"] = True
    ctx.notes.append("box QPs: %d calls, %d with an active-set exchange at constant size" % (nbox, nswap))
    ctx.cov["rule"] = ("box QP lattice: every non-degenerate instance of BoxQP.tla (n = 2, 3) x 4 starting points; "
                       "cases = every call returned in the exhaustive run over the suites of Sparse.tla: all patterns of all "
                       "sizes up to 3x3%s in both layouts x every single-matrix routine (%s); all pairs of patterns of 1x3, "
                       "2x2, 1x4%s x every two-matrix routine; all lower-triangular patterns up to 4x4 x symmetric / "
                       "Cholesky / band routines with every (nband, ndense); long rows (%s) and supernodal families (%s); "
                       "plus %d calls of %d simulated chains on matrices up to 3x3; distinct = distinct (operands, call) pairs"
                       % ("" if quick else ", 3x4, 4x3, 4x1, 4x2, 1x4, 2x4", "40 sampled 4x4 patterns" if quick else
                          "600 sampled 4x4 patterns, every 4x4 pattern for the cheap routines", "" if quick else ", 2x3, 3x2",
                          "1x6" if quick else "1x8, 1x5", "3x5" if quick else "3x5, 4x6, 5x4", nchain, len(behs)))


def replay(ctx, rp):
    exe = build.build_harness("sparse_drv", [os.path.join(VERIF, "harness", "sparse_drv.cc")],
                              extra=tladump.harness_digest_flag())
    rr = rp["replay"]
    r = drv.run_script(exe, rr["script"])
    na = NHEAD_OUT + len(rr["script"]) - len(HEAD)
    g = r.lines[na - 1] if len(r.lines) >= na else None
    v = verdict(rr["ev"], g)
    print("answer: %s -> %s %s" % ((g or "")[:300], v, r.crash_text() if r.crashed else ""))
    ctx.case({"replay": rp["signature"]})
    ctx.case({"replay": rp["signature"], "x": 1})
    if v is not None:
        ctx.violation(rp["signature"], rp["what"], rp["replay"])
