"""C51 - first-party plugins honour their documented laws.  PID: Pid.tla decided by TLC over exact rationals, every
closed-loop behaviour replayed through the real mj_step with mujoco.pid registered from the working tree's pid.cc.
Cable: Cable.tla (rotation group of quarter turns) decides which poses are stress-free; every pose is replayed through
mj_forward with mujoco.elasticity.cable compiled from the working tree's cable.cc."""
import concurrent.futures as cf
import math

from checks import _lawlib as L
from vlib.check import Machinery

META = dict(
    engine="tlc-replay",
    technique="TLA+ spec Pid.tla (phases SetCtrl / ActDot / Compute / Integrate: closed loop of the PID plugin on a slide "
              "joint under semi-implicit Euler, with two native stateful actuators as neighbours in the act / force "
              "arrays) model-checked by TLC: I-term bound, slew bound and minimality, state tracking, force law term by "
              "term, rectangle-rule integral, clip on the bound, neighbour laws; every behaviour (all branches of the "
              "exhaustive run + simulated 8-step control sequences) is replayed through mj_step with the plugin "
              "instantiated from the working tree and act, act_dot, actuator_force, qpos, qvel, time compared exactly "
              "with the specification's values after every step. Cable.tla (Build / AddLink / Pose / Evaluate over the 24 "
              "quarter-turn rotations as signed permutations) classifies every pose of a 2-3 link cable as equilibrium or "
              "stressed (flat / non-flat reference); each pose is replayed through mj_forward: zero passive force in "
              "equilibrium, some force when stressed, never any on a bystander joint.",
    text="For every gain / imax / slewmax / ctrlrange configuration and setpoint sequence on the lattice the plugin "
         "produces kp*e + ki*I + kd*de/dt with the I term clipped to imax and the setpoint slew-limited to slewmax*dt, "
         "keeps its integral and previous setpoint in its own activation slots, and leaves the activations, act_dot "
         "and forces of the neighbouring actuators exactly as their own laws prescribe. The cable plugin produces no "
         "passive force in its stress-equilibrium configuration (the XML configuration, or the straight cable when "
         "flat=true), produces force in every other pose of the lattice and never writes the bystander's force slot.",
    note="Trusted: TLC, harness law_drv.cc (xpid line -> mjs_setPluginAttributes), the reading of plugin/actuator/README.md "
         "in Pid.tla and of plugin/elasticity/README.md in Cable.tla, the translation of rotation words into quaternions. "
         "PID on stateful actuators (dyntype filter/integrator, actearly), several actuators sharing one plugin instance, "
         "the magnitude of the cable forces and cables with free first joints are not covered.",
    ref="DESIGN.md section 4 C51")

OBS = "time,qpos,qvel,act,act_dot,actuator_force,qfrc_actuator"


def has_i(p):
    return p["ki"][0] != 0


def has_c(p):
    return p["slew"]["on"]


def model_lines(p):
    ls = ["option timestep=%s gravity=0,0,0" % L.num(p["h"]),
          "body name=b1 mass=%s inertia=1,1,1 explicitinertial=1" % L.num(p["m"]),
          "joint body=b1 name=j1 type=2 axis=1,0,0",
          "body name=b2 mass=1 inertia=1,1,1 explicitinertial=1 pos=0,1,0",
          "joint body=b2 name=j2 type=2 axis=1,0,0",
          "actuator name=a0 trntype=0 target=j2 dyntype=1 gainprm=1"]
    s = "actuator name=pid trntype=0 target=j1 actdim=%d" % (int(has_i(p)) + int(has_c(p)))
    if p["clim"]["on"]:
        s += " ctrllimited=1 ctrlrange=%s,%s" % (L.num(p["clim"]["lo"]), L.num(p["clim"]["hi"]))
    ls.append(s)
    ls.append("actuator name=a2 trntype=0 target=j2 dyntype=2 dynprm=0.5 gainprm=2")
    x = "xpid actuator=pid kp=%s ki=%s kd=%s" % (L.num(p["kp"]), L.num(p["ki"]), L.num(p["kd"]))
    if p["imax"]["on"]:
        x += " imax=" + L.num(p["imax"]["v"])
    if p["slew"]["on"]:
        x += " slewmax=" + L.num(p["slew"]["v"])
    ls.append(x)
    return ls


def act_vec(p, s):
    v = [s["w0"]]
    if has_i(p):
        v.append(s["i"])
    if has_c(p):
        v.append(s["c"])
    v.append(s["w2"])
    return v


def expectations(ev):
    p, post, ad = ev["p"], ev["post"], ev["adot"]
    ex = [("time", 0, post["t"], "time")]
    acts = act_vec(p, post)
    names = ["neighbour-act"] + (["integral"] if has_i(p) else []) + (["previous-setpoint"] if has_c(p) else []) + ["neighbour-act"]
    dots = [ad["d0"]] + ([ad["di"]] if has_i(p) else []) + ([ad["dc"]] if has_c(p) else []) + [ad["d2"]]
    ex.append(("actuator_force", 1, ev["force"], "pid-force"))
    ex.append(("actuator_force", 0, ev["f0"], "neighbour-force"))
    ex.append(("actuator_force", 2, ev["f2"], "neighbour-force"))
    for k, (v, nm) in enumerate(zip(acts, names)):
        ex.append(("act", k, v, nm))
    for k, (v, nm) in enumerate(zip(dots, names)):
        ex.append(("act_dot", k, v, nm + "-dot"))
    ex += [("qvel", 0, post["v"], "qvel"), ("qpos", 0, post["q"], "qpos"), ("qvel", 1, post["v2"], "neighbour-joint"),
           ("qpos", 1, post["q2"], "neighbour-joint")]
    return [(f, k, L.fr(v), nm) for f, k, v, nm in ex]


def first_mismatch(ev, obs, perturb=None):
    for f, k, want, nm in expectations(ev):
        if perturb and perturb[0] == nm:
            want = want + perturb[1]
        got = obs.get(f)
        if got is None or k >= len(got) or not L.close(got[k], want, True):
            return f, k, want, (got[k] if got and k < len(got) else None), nm
    return None


def feature(ev):
    p = ev["p"]
    f = []
    for g in ("kp", "ki", "kd"):
        if p[g][0]:
            f.append(g)
    if p["imax"]["on"]:
        f.append("imax")
    if p["slew"]["on"]:
        f.append("slewmax" + ("" if ev["pre"]["t"][0] > 0 else "-at-time0"))
    if p["clim"]["on"]:
        f.append("ctrlrange")
    return "+".join(f) or "nogain"


def behaviours_of(evs):
    """chain the step events of an exhaustive dump into behaviours: a step with n = k+1 follows the step whose post
    state is its pre state (same parameters); returns maximal chains (every branch of the behaviour tree)"""
    by_pre = {}
    for e in evs:
        by_pre.setdefault((repr(e["p"]), repr(e["pre"]), e["n"]), []).append(e)
    chains = []

    def extend(chain):
        last = chain[-1]
        nxt = by_pre.get((repr(last["p"]), repr(last["post"]), last["n"] + 1), [])
        if not nxt:
            chains.append(chain)
            return
        for e in nxt:
            extend(chain + [e])

    for e in evs:
        if e["n"] == 1:
            extend([e])
    return chains


# ---- cable clause (Cable.tla) ----------------------------------------------------------------------------------

CABLE_R, CABLE_L = 0.125, 0.5
_S = math.sqrt(0.5)
_GEN = {"x": (_S, _S, 0.0, 0.0), "y": (_S, 0.0, _S, 0.0), "z": (_S, 0.0, 0.0, _S)}


def _qmul(a, b):
    return (a[0] * b[0] - a[1] * b[1] - a[2] * b[2] - a[3] * b[3],
            a[0] * b[1] + a[1] * b[0] + a[2] * b[3] - a[3] * b[2],
            a[0] * b[2] - a[1] * b[3] + a[2] * b[0] + a[3] * b[1],
            a[0] * b[3] + a[1] * b[2] - a[2] * b[1] + a[3] * b[0])


def word_quat(w):
    """quaternion of a word over quarter turns about x / y / z (product in the order of the word)"""
    q = (1.0, 0.0, 0.0, 0.0)
    for g in w:
        q = _qmul(q, _GEN[g])
    return q


def cable_model(ev):
    ls = ["option timestep=0.25 gravity=0,0,0"]
    for k in range(ev["n"]):
        q = word_quat(ev["ref"][k])
        ls.append("body name=c%d parent=%s pos=%s quat=%s" % (
            k + 1, "world" if k == 0 else "c%d" % k, "0,0,1" if k == 0 else "%r,0,0" % CABLE_L, ",".join(repr(z) for z in q)))
        ls.append("joint body=c%d name=jc%d type=1" % (k + 1, k + 1))
        ls.append("geom body=c%d name=gc%d type=3 size=%r,0,0 fromto=0,0,0,%r,0,0 mass=1" % (k + 1, k + 1, CABLE_R, CABLE_L))
    ls += ["body name=by pos=0,2,0", "joint body=by name=jby type=3 axis=0,1,0", "geom body=by name=gby type=2 size=0.25,0,0 mass=1"]
    ls.append("xcable bodies=%s twist=%d bend=%d flat=%s vmax=0" % (
        ",".join("c%d" % (k + 1) for k in range(ev["n"])), ev["twist"], ev["bend"], "true" if ev["flat"] else "false"))
    return ls


def cable_pose(ev):
    qp = []
    for k in range(ev["n"]):
        qp += [repr(z) for z in word_quat(ev["jnt"][k])]
    return "qpos=" + ",".join(qp) + ",0.5"


def cable_verdict(ev, obs, expect=None):
    """None if the observation agrees with the specification's class, else (clause, text)"""
    f = obs.get("qfrc_passive") if obs else None
    if not f or len(f) != 3 * ev["n"] + 1:
        return "harness", "no qfrc_passive"
    expect = expect or ev["expect"]
    if f[-1] != 0.0:
        return "bystander-force", "qfrc_passive of the bystander hinge = %r" % f[-1]
    mx = max(abs(z) for z in f[:-1])
    if expect == "zero" and mx > 1e-10:
        return "force-in-equilibrium", "max |qfrc_passive| = %r in a stress-free configuration" % mx
    if expect == "stressed" and mx < 1e-4:
        return "no-force-when-stressed", "max |qfrc_passive| = %r in a stressed configuration" % mx
    return None


def run_cable(ctx, exe, evs):
    """every evaluated pose of Cable.tla through mj_forward: zero / non-zero passive force as the specification says"""
    sc = L.Script()
    cases, last = [], None
    evs = sorted(evs, key=lambda e: (e["n"], repr(e["ref"]), e["flat"], e["twist"], e["bend"], repr(e["jnt"])))
    for ev in evs:
        key = (ev["n"], repr(ev["ref"]), ev["flat"], ev["twist"], ev["bend"])
        if key != last:
            i = sc.block("lmodel 40", cable_model(ev))
            j = sc.op("ldata 40 40")
            cases.append(("setup", i, j, ev))
            last = key
        sc.op("st 40 " + cable_pose(ev))
        o = sc.op("fobs 40 qfrc_passive")
        cases.append(("case", o, ev))
    r = L.run_lines(exe, sc.lines)
    if len(r.lines) < sc.nout and not r.crashed:
        raise Machinery("harness produced %d of %d lines (cable)" % (len(r.lines), sc.nout))
    nz = nst = 0
    probe = None
    for c in cases:
        if c[0] == "setup":
            for k2 in (c[1], c[2]):
                if k2 >= len(r.lines) or not r.lines[k2].startswith("ok"):
                    raise Machinery("cable model failed: %s\n%s" % (r.lines[k2] if k2 < len(r.lines) else r.crash_text(),
                                                                    "\n".join(cable_model(c[3]))))
            continue
        _, o, ev = c
        obs = L.parse_obs(r.lines[o]) if o < len(r.lines) else None
        nz += ev["expect"] == "zero"
        nst += ev["expect"] == "stressed"
        if probe is None and ev["expect"] == "stressed" and obs:
            probe = (ev, obs)
        ctx.case({"cable": ev}, nontrivial=any(ev["jnt"][k] for k in range(ev["n"])) or any(ev["ref"][k] for k in range(ev["n"])),
                 sample=None)
        v = cable_verdict(ev, obs)
        if v is None:
            ctx.trace_ok()
            continue
        ctx.violation("cable:%s:flat=%s" % (v[0], ev["flat"]),
                      "cable of %d links, reference turns %s, joint turns %s, flat=%s, twist=%d bend=%d: %s (Cable.tla: %s)" % (
                          ev["n"], ["".join(w) or "-" for w in ev["ref"]], ["".join(w) or "-" for w in ev["jnt"]], ev["flat"],
                          ev["twist"], ev["bend"], v[1], ev["expect"]),
                      {"script": ["lmodel 0"] + cable_model(ev) + ["end", "ldata 0 0", "st 0 " + cable_pose(ev), "fobs 0 qfrc_passive"],
                       "cable": {k: ev[k] for k in ("n", "expect")}})
    if not nz or not nst or probe is None:
        raise Machinery("vacuity: cable poses in equilibrium %d, stressed %d" % (nz, nst))
    ctx.control("a stressed cable pose judged against the expectation 'zero' is flagged",
                cable_verdict(probe[0], probe[1], expect="zero") is not None)
    return len(cases), nz, nst


def run(ctx):
    exe = L.harness()
    ctx.assume("one PID plugin instance driving one stateless actuator on a slide joint; semi-implicit Euler; gains, limits, "
               "states and setpoints on the dyadic lattices of the Pid_*.cfg files (all comparisons exact)",
               "the plugin is registered by the harness from the working tree's plugin/actuator/pid.cc; its configuration "
               "is passed as strings through mjs_setPluginAttributes",
               "cable: capsule links on ball joints, rotations from the group of quarter turns, force classes decided with "
               "the thresholds |f| < 1e-10 (equilibrium) and |f| > 1e-4 (stressed); magnitudes are not compared")
    q = ctx.quick
    to = 240 if q else 1500
    jobs = {"mc": ("dump", "Pid_MC" if q else "Pid_Deep"), "sim": ("sim", "Pid_Sim", 120 if q else 1500, 40),
            "cable": ("dumpc", "Cable_MC" if q else "Cable_Deep"),
            "neg1": ("neg", "Pid_Neg1"), "neg2": ("neg", None if q else "Pid_Neg2")}

    def go(n):
        j = jobs[n]
        if j[0] == "neg":
            return L.negative_run("Pid", j[1])
        if j[0] == "dump":
            return L.dump_evs("Pid", j[1], want=("step",), timeout=to)
        if j[0] == "dumpc":
            return L.dump_evs("Cable", j[1], want=("cable",), timeout=to)
        return L.simulate_evs("Pid", j[1], num=j[2], depth=j[3], seed=ctx.seed + 51, want=("step",), timeout=to)

    with cf.ThreadPoolExecutor(5) as ex:
        futs = {n: ex.submit(go, n) for n in jobs if jobs[n][1]}
        out = {n: (futs[n].result() if n in futs else None) for n in jobs}
    for n in ("mc", "sim", "cable"):
        ctx.tlc_ok(out[n][0], jobs[n][1])
    L.negative_record(ctx, out["neg1"], "spec variant 'integral not clipped' violates ITermBounded")
    if out["neg2"] is not None:
        L.negative_record(ctx, out["neg2"], "spec variant 'no slew limit' violates SlewBounded")
    chains = behaviours_of(out["mc"][1])
    sims = [b for b in out["sim"][1] if b]
    if not chains or not sims:
        raise Machinery("nothing to replay (exhaustive chains %d, simulated %d)" % (len(chains), len(sims)))
    behs = chains + sims
    # vacuity: the clip, the slew limit and the ctrlrange clamp were really exercised by the behaviours
    nclip = sum(1 for b in behs for e in b if e["p"]["imax"]["on"] and has_i(e["p"]) and
                abs(L.fr(e["p"]["ki"]) * L.fr(e["post"]["i"])) == L.fr(e["p"]["imax"]["v"]))
    nslew = sum(1 for b in behs for e in b if has_c(e["p"]) and e["pre"]["t"][0] > 0 and
                L.fr(e["post"]["c"]) != L.fr(e["u"]))
    if not nclip or not nslew:
        raise Machinery("vacuity: integral on its bound %d times, setpoint slew-limited %d times" % (nclip, nslew))
    sc = L.Script()
    slots, cases = {}, []
    order = sorted(range(len(behs)), key=lambda i: repr(behs[i][0]["p"]))
    nslot = 0
    for bi in order:
        b = behs[bi]
        p = b[0]["p"]
        key = repr(p)
        if key not in slots:
            slot = nslot % 32
            nslot += 1
            for k2 in [k2 for k2, v in slots.items() if v == slot]:
                del slots[k2]
            slots[key] = slot
            i = sc.block("lmodel %d" % slot, model_lines(p))
            j = sc.op("ldata %d %d" % (slot, slot))
            cases.append(("setup", i, j, p))
        slot = slots[key]
        mine = []
        for si, ev in enumerate(b):
            ctrl = "ctrl=0.5,%s,-1" % L.num(ev["u"])
            if si == 0:
                s0 = ev["pre"]
                ln = "st %d time=%s qpos=%s,%s qvel=%s,%s act=%s %s" % (
                    slot, L.num(s0["t"]), L.num(s0["q"]), L.num(s0["q2"]), L.num(s0["v"]), L.num(s0["v2"]),
                    ",".join(L.num(z) for z in act_vec(p, s0)), ctrl)
            else:
                ln = "stk %d %s" % (slot, ctrl)
            sc.op(ln)
            o = sc.op("sobs %d 1 %s" % (slot, OBS))
            mine += [ln.replace("st %d " % slot, "st 0 ", 1).replace("stk %d " % slot, "stk 0 ", 1), "sobs 0 1 " + OBS]
            cases.append(("step", o, bi, si, ev, list(mine)))
    r = L.run_lines(exe, sc.lines)
    if len(r.lines) < sc.nout and not r.crashed:
        raise Machinery("harness produced %d of %d lines" % (len(r.lines), sc.nout))
    probe = next(c for c in cases if c[0] == "step")
    obs = L.parse_obs(r.lines[probe[1]]) if probe[1] < len(r.lines) else None
    mmp = first_mismatch(probe[4], obs, perturb=("pid-force", L.Fraction(1, 2 ** 40))) if obs else None
    ctx.control("expected plugin force perturbed by 2^-40 is flagged", mmp is not None and mmp[4] == "pid-force")
    mmp = first_mismatch(probe[4], obs, perturb=("neighbour-act", L.Fraction(1, 2 ** 40))) if obs else None
    ctx.control("expected neighbour activation perturbed by 2^-40 is flagged", mmp is not None and mmp[4] == "neighbour-act")
    bad = set()
    for c in cases:
        if c[0] == "setup":
            _, i, j, p = c
            for k2 in (i, j):
                if k2 >= len(r.lines) or not r.lines[k2].startswith("ok"):
                    raise Machinery("model setup failed: %s\n%s" % (r.lines[k2] if k2 < len(r.lines) else r.crash_text(),
                                                                    "\n".join(model_lines(p))))
            continue
        _, o, bi, si, ev, mine = c
        ctx.case({"p": ev["p"], "pre": ev["pre"], "u": ev["u"], "n": si}, nontrivial=True,
                 sample={"kp": list(ev["p"]["kp"]), "ki": list(ev["p"]["ki"]), "kd": list(ev["p"]["kd"]), "setpoint": list(ev["u"]),
                         "force": list(ev["force"]), "integral": list(ev["post"]["i"])})
        if bi in bad:
            continue
        line = r.lines[o] if o < len(r.lines) else None
        obs = L.parse_obs(line)
        mm = ("harness", 0, None, line if line is not None else r.crash_text(), "harness") if obs is None else first_mismatch(ev, obs)
        if mm is None:
            continue
        bad.add(bi)
        f, k2, want, got, nm = mm
        p = ev["p"]
        ctx.violation("%s:%s" % (nm, feature(ev)),
                      "PID kp=%s ki=%s kd=%s imax=%s slewmax=%s ctrlrange=%s h=%s, step %d (time %s) with setpoint %s from q=%s "
                      "v=%s integral=%s previous=%s: %s[%d] (%s) = %r, Pid.tla says %s" % (
                          L.fr(p["kp"]), L.fr(p["ki"]), L.fr(p["kd"]), L.fr(p["imax"]["v"]) if p["imax"]["on"] else None,
                          L.fr(p["slew"]["v"]) if p["slew"]["on"] else None,
                          (str(L.fr(p["clim"]["lo"])), str(L.fr(p["clim"]["hi"]))) if p["clim"]["on"] else None, L.fr(p["h"]),
                          si + 1, L.fr(ev["pre"]["t"]), L.fr(ev["u"]), L.fr(ev["pre"]["q"]), L.fr(ev["pre"]["v"]),
                          L.fr(ev["pre"]["i"]), L.fr(ev["pre"]["c"]), f, k2, nm, got, want),
                      {"script": ["lmodel 0"] + model_lines(p) + ["end", "ldata 0 0"] + mine, "field": f, "index": k2,
                       "want": [want.numerator, want.denominator] if want is not None else None})
    ctx.trace_ok(len(behs) - len(bad))
    ncab, nz, nst = run_cable(ctx, exe, out["cable"][1])
    ctx.cov["exhaustive"] = bool(out["mc"][0].finished and out["cable"][0].finished)
    ctx.cov["rule"] = ("all %d maximal behaviours of the exhaustive run %s (every branch of up to 3 setpoints) + %d simulated "
                       "behaviours of up to 8 steps of %s, replayed step by step through mj_step (state carried by the "
                       "implementation); compared after every step: act, act_dot, actuator_force of the plugin and of both "
                       "neighbours, qpos, qvel, time (all exact); integral on its bound in %d steps, setpoint slew-limited in "
                       "%d steps; cable: every pose of %s (%d in equilibrium must give zero passive force, %d stressed must "
                       "give some, the bystander joint never any) through mj_forward; distinct = distinct (configuration, "
                       "pre-state, setpoint, step index) / distinct cable poses" % (
                           len(chains), jobs["mc"][1], len(sims), jobs["sim"][1], nclip, nslew, jobs["cable"][1], nz, nst))


def replay(ctx, rp):
    exe = L.harness()
    d = rp["replay"]
    r = L.run_lines(exe, d["script"], timeout=120)
    obs = L.parse_obs(r.lines[-1]) if r.lines else None
    print("last output:", (r.lines[-1] if r.lines else r.crash_text())[:300])
    ctx.case({"replay": rp["signature"]})
    ctx.case({"replay": rp["signature"], "x": 1})
    if d.get("cable"):
        if cable_verdict(d["cable"], obs) is not None:
            ctx.violation(rp["signature"], rp["what"], d)
        return
    if d.get("want") is None:
        if obs is None:
            ctx.violation(rp["signature"], rp["what"], d)
        return
    want = L.Fraction(d["want"][0], d["want"][1])
    got = obs.get(d["field"]) if obs else None
    print("field %s[%d]: want %s got %r" % (d["field"], d["index"], want, got))
    if not got or d["index"] >= len(got) or not L.close(got[d["index"]], want, True):
        ctx.violation(rp["signature"], rp["what"], d)
