"""C21 - allocation failure never causes undefined behaviour.

AllocLifecycle.tla (model-checked by TLC) is the discipline; the implementation is bound to it code->spec:
harness/alloc_drv.cc runs scenario programs over the public API with mju_user_malloc failing chosen allocation
attempts and records Call/Alloc/AllocFail/Free/Error/Warn/Ret/End events; TLC validates every recorded trace
against AllocLifecycleTrace.tla and names the class of the first event it cannot explain."""
import json
import os
import random
import re
import shutil
import tempfile

from vlib import build, drv, tlc
from vlib.check import Machinery, VERIF

TLA = os.path.join(VERIF, "tla")

META = dict(
    engine="tlc-trace",
    technique="TLA+ spec AllocLifecycle.tla (heap-block ownership discipline of create/in-place/run/delete calls, "
              "violation classes as explicit actions) model-checked by TLC; allocator/log events recorded from the "
              "implementation under k-th-allocation fault injection are validated by TLC against "
              "AllocLifecycleTrace.tla (batch trace validation), strict and tolerant reading",
    text="TLC decides, for every recorded fault-injection run of mj_makeData/mj_copyData/mj_copyModel/"
         "mj_loadModelBuffer/mj_saveModel/mj_compile/mj_recompile/mj_step/mj_resetData programs (every single k, "
         "seeded multi-fault sets; plain and sanitizer builds), whether the event stream is a behaviour of the "
         "specification: no double/foreign free, failure surfaced, failed calls leave the heap as found, deletes "
         "free everything; crashes are reported with the call in progress.",
    note="Trusted: TLC, harness alloc_drv.cc (allocator hooks, quarantine of freed blocks), the scenario programs. "
         "Only allocations made through mju_malloc are failed (C++ operator new in the compiler is outside the hook). "
         "Known structural leak (blocks allocated before a failing allocation are lost because mju_malloc raises the "
         "error itself) is reported with signatures leak-after-failed-allocation:<api>.",
    ref="DESIGN.md section 4 C21, section 7 item 13")

MODELS = {
    # two hinged/sliding bodies, actuator driven by the first-party PID plugin (plugin data + temporary blocks in
    # mj_resetData and mj_copyData)
    "arm_pid": """option timestep=0.25
size memory=262144
compiler usethread=0
body name=b1 pos=0,0,1
joint body=b1 name=j1 type=3 axis=0,1,0
geom body=b1 name=g1 type=2 size=0.1,0,0
body name=b2 parent=b1 pos=0,0,0.5
joint body=b2 name=j2 type=2 axis=0,0,1
geom body=b2 name=g2 type=2 size=0.1,0,0
actuator name=a1 trntype=0 target=j1 gainprm=1 actdim=1
xpid actuator=a1 kp=1 ki=0.5 kd=0.1""",
    # free body with a user mesh (mesh blocks come from the allocator), plane, tendon, sensors, equality, keyframe
    "mesh_free": """option timestep=0.125
size nuserdata=2 nkey=1 memory=262144
compiler usethread=0
mesh name=tet uservert=0,0,0,1,0,0,0,1,0,0,0,1 userface=0,2,1,0,1,3,0,3,2,1,2,3
geom name=floor type=0 size=5,5,0.1
body name=f pos=0,0,1
joint body=f name=fj type=0
geom body=f name=fg type=7 meshname=tet contype=0 conaffinity=0 density=100
geom body=f name=fs type=2 size=0.2,0,0
site body=f name=fsite
body name=p pos=1,0,1
joint body=p name=pj type=3 axis=0,1,0 damping=0.5
geom body=p name=pg type=3 size=0.05,0.3,0
site body=p name=psite pos=0,0,0.3
tendon name=t1
wrapsite tendon=t1 site=fsite
wrapsite tendon=t1 site=psite
actuator name=am trntype=0 target=pj gainprm=2 dyntype=1 dynprm=1
sensor name=acc type=1 objtype=6 objname=fsite
sensor name=tp type=11 objtype=18 objname=t1
equality name=e1 type=0 objtype=1 name1=f name2=p data=0,0,0
numeric name=n1 size=3 data=1,2,3
text name=tx data=hello
key name=k0 qpos=0,0,1,1,0,0,0,0.1""",
    # smallest model: one body, no plugin
    "single": """size memory=65536
body name=b pos=0,0,1
joint body=b name=j type=2 axis=0,0,1
geom body=b name=g type=6 size=0.1,0.1,0.1""",
}
SCENARIOS = ["makedata", "copydata", "copymodel", "loadmodel", "savefile", "compile", "recompile", "specfull", "step"]
HARNESS_SRC = os.path.join(VERIF, "harness", "alloc_drv.cc")


def _exe(variant):
    return build.build_harness("alloc_drv", [HARNESS_SRC], variant=variant,
                               extra=["-I" + os.path.join(build.REPO, "plugin", "actuator")])


def _model_lines():
    lines, slots = [], {}
    for i, (name, desc) in enumerate(MODELS.items()):
        slots[name] = i
        lines += ["amodel %d" % i] + desc.split("\n") + ["end"]
    return lines, slots


def run_batch(exe, cases, cwd):
    """cases: list of (model, scenario, faults tuple). Returns list of ("trace", nalloc, events) | ("crash", text).
    A crash ends the process: the case is recorded with the harness' CRASH line and the batch resumes after it."""
    mlines, slots = _model_lines()
    out = [None] * len(cases)
    start = 0
    guard = 0
    while start < len(cases):
        guard += 1
        if guard > 400:
            raise Machinery("too many harness crashes in one batch")
        cmds = ["arun %s %d %s" % (sc, slots[m], ",".join(str(f) for f in fl) if fl else "-")
                for (m, sc, fl) in cases[start:]]
        r = drv.run_script(exe, mlines + cmds, cwd=cwd, timeout=1200)
        lines = r.lines
        nm = len(MODELS)
        for k in range(nm):
            if k >= len(lines) or not lines[k].startswith("ok"):
                raise Machinery("pool model %d does not compile: %s" % (k, lines[k] if k < len(lines) else r.err[-300:]))
        done = 0
        for ln in lines[nm:]:
            if not ln.startswith("{"):
                break
            try:
                d = json.loads(ln)
            except ValueError:
                break
            out[start + done] = ("trace", d["nalloc"], d["trace"])
            done += 1
        if start + done >= len(cases):
            break
        if not r.crashed:
            raise Machinery("harness stopped answering without dying: %r" % lines[nm + done:nm + done + 2])
        crash = [ln for ln in lines[nm + done:] if ln.startswith("CRASH")]
        text = crash[-1] if crash else "CRASH in=? after-failed-allocation-in=? (%s)" % r.crash_text()[:80]
        out[start + done] = ("crash", text + " | " + r.crash_text()[-300:].replace("\n", " "))
        start += done + 1
    return out


def api_at(events, pos):
    """api of the call in progress at event index pos (naming only)"""
    api = "-"
    for e in events[:pos + 1]:
        if e["op"] == "call":
            api = e["api"]
    if pos < len(events) and events[pos]["op"] == "end":
        api = "end-of-program"
    return api


def validate(traces, cfg):
    res, ver = tlc.validate_traces(os.path.join(TLA, "AllocLifecycleTrace.tla"), os.path.join(TLA, cfg), traces,
                                   timeout=1500)
    why = {int(a): (b, c) for a, b, c in re.findall(r'<<"WHY", (\d+), "([^"]*)", "([^"]*)">>', res.out)}
    return res, ver, why


def _e(op, api="", p=0, o=0, res="", tg=(), owns=(), dead=()):
    return {"op": op, "api": api, "p": p, "o": o, "res": res, "tg": list(tg),
            "owns": [{"o": x, "b": list(b)} for x, b in owns], "dead": list(dead)}


# a disciplined behaviour written by hand (independent of the implementation): create, use, copy in place, delete
GOOD_TRACE = [
    _e("call", "make"), _e("alloc", p=1), _e("alloc", p=2), _e("alloc", p=3), _e("free", p=3),
    _e("ret", res="obj", o=1, owns=[(1, (1, 2))]),
    _e("call", "step"), _e("alloc", p=4), _e("warn"), _e("free", p=4), _e("ret", res="void"),
    _e("call", "rebuild", tg=(1,)), _e("free", p=2), _e("alloc", p=5), _e("ret", res="void", owns=[(1, (1, 5))]),
    _e("call", "make"), _e("alloc", p=6), _e("allocfail"), _e("free", p=6), _e("error"), _e("ret", res="err"),
    _e("call", "delete", tg=(1,)), _e("free", p=5), _e("free", p=1), _e("ret", res="void", dead=(1,)),
    _e("end"),
]


def mutate_controls():
    """planted discrepancies in the hand-written disciplined trace with the class the trace spec must report"""
    g = GOOD_TRACE
    drop = lambda i: g[:i] + g[i + 1:]
    return [
        ("the hand-written disciplined trace is accepted", g, "accepted"),
        ("a free event recorded twice is a double free", g[:5] + [g[4]] + g[5:], "double-free"),
        ("a dropped free of a temporary is a leak without failed allocation", drop(9), "leak-without-failed-allocation"),
        ("a dropped free before an error is a leak after failed allocation", drop(18), "leak-after-failed-allocation"),
        ("a dropped free in delete leaves blocks behind", drop(23), "destroy-leaves-blocks"),
        ("a free of a block never handed out is flagged", g[:1] + [_e("free", p=99999)] + g[1:], "free-of-unknown-block"),
        ("a call freeing another object's block is flagged", g[:7] + [_e("free", p=1)] + g[7:], "free-of-foreign-block"),
        ("a failed allocation that is not surfaced is flagged", drop(19)[:19] + [_e("ret", res="void")] + drop(19)[20:],
         "failure-not-surfaced"),
    ]


def run(ctx):
    ctx.assume("only allocations that go through mju_malloc can be failed; C++ allocations of the model compiler are not",
               "a request for zero bytes is never failed (NULL is a legal answer to it)",
               "scenario programs delete every object they obtained; after an error escaped from mj_recompile the "
               "objects are only deleted",
               "freed blocks are quarantined, overwritten with 0xDD and (sanitizer build) poisoned, so use after free "
               "shows as a crash / report",
               "the asan build adds observations; verdicts on traces are TLC's")
    spec = os.path.join(TLA, "AllocLifecycle.tla")
    # 1. the specification satisfies its own properties (exhaustive over small constants)
    res = tlc.run(spec, os.path.join(TLA, "AllocLifecycle_MC.cfg"), coverage=True, timeout=900)
    ctx.tlc_ok(res, "AllocLifecycle_MC", need_actions=["AnyCall", "Alloc", "AllocFail", "Free", "Error", "Warn", "AnyRet", "End"])
    mc_finished = bool(res.finished)
    if not ctx.quick:
        res = tlc.run(spec, os.path.join(TLA, "AllocLifecycle_Deep.cfg"), timeout=1500)
        ctx.tlc_ok(res, "AllocLifecycle_Deep")
        res = tlc.run(spec, os.path.join(TLA, "AllocLifecycle_Tol.cfg"), timeout=900)
        ctx.tlc_ok(res, "AllocLifecycle_Tol")
    res = tlc.run(spec, os.path.join(TLA, "AllocLifecycle_Ideal.cfg"), timeout=600)
    ctx.tlc_ok(res, "AllocLifecycle_Ideal")
    # design-level re-finding and negative control of the specification: the implementation pattern
    # "allocator raises the error itself" must violate NoViolation (leak after failed allocation)
    res = tlc.run(spec, os.path.join(TLA, "AllocLifecycle_AsIs.cfg"), timeout=600)
    ctx.tlc_ok(res, "AllocLifecycle_AsIs(expected violation)", allow_violation=True)
    ctx.control("TLC finds the leak in the raise-inside-allocator callee model (NoViolation violated)",
                bool(res.violation) and "NoViolation" in res.violation and '"leak-after-failed-allocation"' in res.out)

    tmp = tempfile.mkdtemp(prefix="c21", dir=os.path.join(VERIF, ".cache"))
    try:
        rng = random.Random(ctx.seed)
        variants = ["plain", "asan"]
        exes = {v: _exe(v) for v in variants}
        # 2. fault-free runs give the number of allocation attempts of each program
        base_cases = [(m, sc, ()) for m in MODELS for sc in SCENARIOS]
        base = run_batch(exes["plain"], base_cases, tmp)
        cases = []           # (variant, model, scenario, faults)
        nalloc = {}
        for (m, sc, _f), r in zip(base_cases, base):
            if r[0] != "trace":
                ctx.violation("crash:fault-free:" + sc, "fault-free run of %s/%s died: %s" % (m, sc, r[1]),
                              {"model": m, "scenario": sc, "faults": [], "variant": "plain"})
                continue
            nalloc[(m, sc)] = r[1]
            cases.append(("plain", m, sc, ()))
        total_points = sum(nalloc.values())
        if total_points < 50:
            raise Machinery("vacuity: the scenario programs make only %d allocations" % total_points)
        # 3. every single fault (plain and sanitizer build), seeded multi-fault sets
        for (m, sc), n in sorted(nalloc.items()):
            for k in range(1, n + 1):
                cases.append(("plain", m, sc, (k,)))
                if not ctx.quick or m != "single":
                    cases.append(("asan", m, sc, (k,)))
        nmulti = 60 if ctx.quick else 2500
        keys = sorted(nalloc)
        for _ in range(nmulti):
            m, sc = keys[rng.randrange(len(keys))]
            n = nalloc[(m, sc)]
            cnt = 2 if rng.random() < 0.6 else 3
            fl = tuple(sorted(set(rng.randrange(1, n + 1) for _ in range(cnt))))
            cases.append(("plain" if ctx.quick or rng.random() < 0.7 else "asan", m, sc, fl))
        results = [None] * len(cases)
        for v in variants:
            idx = [i for i, c in enumerate(cases) if c[0] == v]
            rs = run_batch(exes[v], [cases[i][1:] for i in idx], tmp)
            for i, r in zip(idx, rs):
                results[i] = r
        # 4. TLC validates the recorded traces
        tix = [i for i, r in enumerate(results) if r[0] == "trace"]
        traces = [results[i][2] for i in tix]
        controls = mutate_controls()
        batch = traces + [c[1] for c in controls]
        res, ver, why = validate(batch, "AllocLifecycleTrace_Strict.cfg")
        ctx.tlc_ok(res, "AllocLifecycleTrace_Strict")
        if len(ver) != len(batch):
            raise Machinery("trace validation returned %d verdicts for %d traces\n%s" % (len(ver), len(batch), res.out[-2000:]))
        for ci, (name, _t, cls) in enumerate(controls):
            t = len(traces) + ci + 1
            reached, ln = ver[t]
            ctx.control(name, (reached == ln) if cls == "accepted" else (reached < ln and why.get(t, ("", ""))[0] == cls))
        second = []          # traces with the known structural leak: validated again in the tolerant reading
        nfaulted = 0
        for j, i in enumerate(tix):
            v, m, sc, fl = cases[i]
            ev = results[i][2]
            hit = sum(1 for e in ev if e["op"] == "allocfail")
            nfaulted += 1 if hit else 0
            key = {"variant": v, "model": m, "scenario": sc, "faults": list(fl)}
            ctx.case(key, nontrivial=hit > 0, sample={"model": m, "scenario": sc, "faults": list(fl), "events": len(ev)})
            reached, ln = ver[j + 1]
            if reached == ln:
                ctx.trace_ok()
                continue
            cls, api = why.get(j + 1, ("unexplained-event", api_at(ev, reached)))
            sig = "%s:%s" % (cls, api)
            bad_ev = ev[reached] if reached < len(ev) else None
            what = ("%s (attributed to %s): scenario %s on model %s (%s build) with allocation attempt(s) %s failing: "
                    "trace rejected at event %d/%d, a %s of %s"
                    % (cls, api, sc, m, v, list(fl), reached + 1, ln,
                       (bad_ev or {}).get("op", "?") + ("(" + bad_ev["res"] + ")" if bad_ev and bad_ev["res"] else ""),
                       api_at(ev, reached)))
            ctx.violation(sig, what, dict(key, expect=cls, api=api))
            if cls == "leak-after-failed-allocation":
                second.append((i, j))
        if second:
            res2, ver2, why2 = validate([results[i][2] for (i, _j) in second], "AllocLifecycleTrace_Tolerant.cfg")
            ctx.tlc_ok(res2, "AllocLifecycleTrace_Tolerant")
            for t, (i, _j) in enumerate(second):
                v, m, sc, fl = cases[i]
                ev = results[i][2]
                reached, ln = ver2[t + 1]
                if reached == ln:
                    ctx.trace_ok()
                    continue
                cls, api = why2.get(t + 1, ("unexplained-event", api_at(ev, reached)))
                ctx.violation("%s:%s" % (cls, api),
                              "%s (tolerant reading, after the known leak): scenario %s on model %s (%s build), faults %s: "
                              "rejected at event %d/%d %s, attributed to %s" % (cls, sc, m, v, list(fl), reached + 1, ln,
                                                                              json.dumps(ev[reached] if reached < len(ev) else None), api),
                              {"variant": v, "model": m, "scenario": sc, "faults": list(fl), "expect": cls, "api": api,
                               "tolerant": True})
        # 5. crashes
        for i, r in enumerate(results):
            if r[0] != "crash":
                continue
            v, m, sc, fl = cases[i]
            key = {"variant": v, "model": m, "scenario": sc, "faults": list(fl)}
            ctx.case(key, nontrivial=True)
            mm = re.match(r'CRASH in=(\S+) after-failed-allocation-in=(\S+)', r[1])
            sig = "crash:in=%s:after-failed-allocation-in=%s" % (mm.group(1), mm.group(2)) if mm else "crash:unlocated"
            ctx.violation(sig, "harness died (%s build) in scenario %s on model %s with allocation attempt(s) %s failing: %s"
                          % (v, sc, m, list(fl), r[1][:400]), dict(key, expect="crash"))
        if nfaulted < 50:
            raise Machinery("vacuity: only %d runs hit an injected fault" % nfaulted)
        ctx.cov["exhaustive"] = mc_finished
        ctx.cov["rule"] = ("one case = one scenario program run (%d programs x %d models) with a set of failing allocation "
                           "attempts: every single k of every program (%d allocation points) on the plain and sanitizer "
                           "builds + %d seeded 2-3-fault sets; each recorded event trace is validated by TLC against "
                           "AllocLifecycleTrace (strict reading; traces with the known leak again in the tolerant reading); "
                           "non-trivial = at least one injected failure was hit"
                           % (len(SCENARIOS), len(MODELS), total_points, nmulti))
    finally:
        shutil.rmtree(tmp, ignore_errors=True)


def replay(ctx, rp):
    c = rp["replay"]
    tmp = tempfile.mkdtemp(prefix="c21r", dir=os.path.join(VERIF, ".cache"))
    try:
        exe = _exe(c.get("variant", "plain"))
        r = run_batch(exe, [(c["model"], c["scenario"], tuple(c["faults"]))], tmp)[0]
        ctx.case({"replay": rp["signature"]})
        ctx.case({"replay": rp["signature"], "x": 1})
        if r[0] == "crash":
            print("crash:", r[1][:300])
            ctx.violation(rp["signature"], rp["what"], c)
            return
        cfg = "AllocLifecycleTrace_Tolerant.cfg" if c.get("tolerant") else "AllocLifecycleTrace_Strict.cfg"
        res, ver, why = validate([r[2]], cfg)
        ctx.tlc_ok(res, "replay")
        reached, ln = ver[1]
        print("trace: %d/%d events explained, class %s" % (reached, ln, why.get(1, ("-", "-"))))
        if reached != ln:
            ctx.violation(rp["signature"], rp["what"], c)
        else:
            ctx.trace_ok()
    finally:
        shutil.rmtree(tmp, ignore_errors=True)
