"""C41 - the MJCF schema-language parser is total and its checks sound.

tla/SchemaLang.tla (abstract syntax, the documented rules as Broken(s), verdict and Obs) is model-checked by TLC;
every reachable state (valid schema, single-rule mutant, pumped or noisy text) is rendered to text and given to
doc/generate/mjcf_schema.py::parse_string of the working tree.  Expected verdict and expected parsed structure
are read from TLC's state dump (variables ev, obs); nothing is recomputed in Python."""
import json
import os
import re

from vlib import tlc
from vlib.check import Machinery, VERIF
from checks import _schema_render as R

TLA = os.path.join(VERIF, "tla")
SPEC = os.path.join(TLA, "SchemaLang.tla")

META = dict(
    engine="tlc-replay",
    technique="TLA+ spec SchemaLang.tla (abstract syntax + rule predicates + verdict/Obs oracle) model-checked by "
              "TLC; every state of the exhaustive runs and of simulated behaviours is rendered to schema text and "
              "parsed by mjcf_schema.parse_string from the working tree",
    text="TLC decides on SchemaLang.tla that the Grow actions stay inside the valid schemas and that each of the 53 "
         "mutation actions breaks exactly its rule; every valid schema, single-rule mutant (each rule in every "
         "container kind), pumped text (use chains / members / items up to 1500) and token-noise variant reached "
         "by TLC is parsed: accept => the returned Schema equals Obs, reject => SchemaError with 1 <= line <= "
         "#lines, noise => either of the two, never another exception.",
    note="Trusted: TLC, the renderer checks/_schema_render.py (abstract schema -> text) and the projection of the "
         "returned dataclasses. Bounded: seeds + <= 2 exhaustive / <= 6 simulated growth steps, one mutation. "
         "Open cases kept out of the inputs: defaults on flags<>, bool[1]/file[1], pattern/positive payload kinds, "
         "duplicate attributes of groups no element uses, group constraints naming attributes of nested groups.",
    ref="DESIGN.md section 4 C41")

# message of the validator that corresponds to each rule (used for statistics and signatures only)
RULE_MSG = {
    "G_BadChar": r"unexpected character", "G_Stray": r"expected '?\w+'?.*, got|expected default value",
    "G_TopKeyword": r"expected 'enum', 'group' or 'element'", "G_DupDecl": r"duplicate (enum|group|element) '",
    "G_EnumKeyKind": r"expected enum keyword", "G_EnumValKind": r"expected C constant or number",
    "G_DupEnumKey": r"duplicate enum keyword", "G_EmptyEnum": r"enum '.*' is empty",
    "G_EmptyGroup": r"group '.*' is empty", "G_SetInGroup": r"'set' is not allowed in a group",
    "G_ChildInGroup": r"'child' is not allowed in a group", "G_ConArity": r"needs at least two attributes",
    "G_BadCard": r"expected cardinality", "G_UnknownType": r"unknown type", "G_ArityNotInt": r"expected integer",
    "G_ArityNeg": r"may not be negative", "G_ArityOrder": r"is not increasing", "G_ArityBound": r"expected arity bound",
    "G_DefaultTok": r"expected default value|expected 'number'", "G_FacetUnknown": r"unknown facet",
    "G_FacetDup": r"duplicate facet", "G_FacetValTok": r"expected facet value", "S_UseCycle": r"group use cycle",
    "S_DanglingUse": r"use of undeclared group", "S_GroupConUnknown": r"constraint references unknown attribute",
    "S_ElemConUnknown": r"constraint references unknown attribute", "S_VariantUse": r"may not contain 'use'",
    "S_VariantRequired": r"may not be required", "S_ElemFacetName": r"requires a name",
    "S_AliasDangling": r"alias references undeclared element", "S_ChildDangling": r"child references undeclared element",
    "S_DupChild": r"duplicate child", "S_DupAttr": r"duplicate attribute", "S_DupAttrViaUse": r"duplicate attribute", "S_RequiresArity": r"exactly two attributes",
    "S_EnumTarget": r"references undeclared enum", "S_RefNamespace": r"references namespace",
    "S_VectorFileBool": r"may not be a vector", "S_CharsUnbounded": r"must declare a bounded length",
    "S_PatternNonText": r"'pattern' requires a text attribute",
    "S_MinMaxNonNumeric": r"requires a numeric attribute and value", "S_MinMaxValue": r"requires a numeric attribute and value",
    "S_MinGtMax": r"cannot be greater than", "S_PositiveNonNumeric": r"'positive' requires a numeric",
    "S_RequiredDefault": r"is required and has a default", "S_EnumDefaultNotKw": r"is not a keyword of enum|must be a keyword",
    "S_DefaultForbidden": r"may not have a default", "S_BoolDefault": r"must be true or false",
    "S_StringDefault": r"must be a string", "S_NumericDefaultStr": r"must be numeric",
    "S_VecOnScalar": r"vector default for scalar", "S_DefaultShort": r"arity requires at least",
    "S_DefaultLong": r"arity allows at most",
}


def spec_rules():
    txt = open(SPEC).read()
    m = re.search(r'^Rules == \{(.*?)\}', txt, re.S | re.M)
    if not m:
        raise Machinery("cannot find Rules in SchemaLang.tla")
    return sorted(set(re.findall(r'"(\w+)"', m.group(1))))


def msg_class(msg):
    for r, rx in RULE_MSG.items():
        if re.search(rx, msg):
            return r
    return "other"


def outcome(ms, text):
    """('accept', Schema) | ('reject', message) | ('badline', line, nlines) | ('exception', type name)"""
    try:
        sch = ms.parse_string(text)
    except ms.SchemaError as e:
        nl = text.count("\n") + 1
        if isinstance(e.line, int) and not isinstance(e.line, bool) and 1 <= e.line <= nl:
            return ("reject", e.message)
        return ("badline", e.line, nl)
    except Exception as e:           # noqa: BLE001 - totality is the property
        return ("exception", type(e).__name__)
    if not isinstance(sch, ms.Schema):
        return ("exception", "returned " + type(sch).__name__)
    return ("accept", sch)


def cont_class(kind):
    if kind in ("group", "nested", "variant", "newgroup", "newvariant"):
        return "group"
    if kind in ("element", "newelement", "elementfacet"):
        return "element"
    return kind or "top"


def bad_attr_desc(st):
    """short description of the attribute the mutation added (for signatures)"""
    for d in st["sch"]:
        for m in d.get("mem", ()):
            if m["m"] == "attr" and m["name"] == "zz":
                t = R.member_tokens(m)
                return R.join_tokens(t[2:], 0).replace(" ", "")
    return ""


def first_diff(exp, got):
    """name the first differing component of two projections"""
    for kind in ("enum", "group", "element"):
        e, g = exp[kind], got[kind]
        if [x[1] for x in e] != [x[1] for x in g]:
            return kind, "names", [x[1] for x in e], [x[1] for x in g]
        for a, b in zip(e, g):
            if a != b:
                fields = {"enum": ["kind", "name", "ctype", "items"], "group": ["kind", "name", "variant", "nmembers"],
                          "element": ["kind", "name", "spec", "facets", "attributes", "children", "consts",
                                      "constraints"]}[kind]
                for f, x, y in zip(fields, a, b):
                    if x != y:
                        if f == "attributes":
                            for ax, ay in zip(x, y):
                                if ax != ay:
                                    return kind, "attribute", ax, ay
                            return kind, "attribute-count", len(x), len(y)
                        return kind, f, x, y
    return None


class Judge:
    """compares one rendered state with the verdict of the specification"""

    def __init__(self, ctx, ms):
        self.ctx = ctx
        self.ms = ms
        self.stats = {"accept": 0, "reject": 0, "total": 0}
        self.rule_seen = {}
        self.rule_msg_ok = {}
        self.msg_disagree = []

    def judge(self, st, text, doc, record=True):
        """returns None or (signature, what)"""
        ev = st["ev"]
        want = ev["verdict"]
        out = outcome(self.ms, text)
        op = ev["op"]
        tag = op if op != "pump" else "pump-" + ("usechain" if ev["kind"].startswith("use") and ev["kind"] != "usewide"
                                                 else ev["kind"])
        if op == "noise":
            tag = "noise-" + ev["kind"]
        if out[0] == "exception":
            return ("exception:%s:%s" % (out[1], tag),
                    "parse_string let %s escape (expected %s)" % (out[1], want))
        if out[0] == "badline":
            return ("badline:%s" % tag, "SchemaError.line = %r outside 1..%d" % (out[1], out[2]))
        if want == "total":
            if record:
                self.stats["total"] += 1
            return None
        if want == "accept":
            if out[0] != "accept":
                return ("rejected-valid:%s:%s" % (tag, msg_class(out[1])),
                        "valid schema rejected: %s" % out[1])
            if record:
                self.stats["accept"] += 1
            if st["aux"]["k"] == "none" and st["obs"] != () and not any(d["k"] == "extern" for d in st["sch"]):
                exp = R.obs_expected(st["obs"])
                got = R.project(self.ms, out[1])
                if exp != got:
                    d = first_diff(exp, got)
                    return ("parsed-differs:%s:%s" % (d[0], d[1]),
                            "returned Schema differs from the specification in %s %s: expected %r, got %r" % d)
                if doc:
                    for line, dc in R.member_docs(self.ms, out[1]).items():
                        if dc != "m%d" % (line - 2):
                            return ("parsed-differs:doc", "member on line %d has doc %r" % (line, dc))
            return None
        # want == "reject"
        rule = ev["rule"]
        if out[0] == "accept":
            if op == "mutate":
                sig = "accepted-invalid:%s:%s" % (rule, cont_class(ev["kind"]))
                desc = bad_attr_desc(st)
                if desc:
                    sig += ":" + desc
            else:
                sig = "accepted-invalid:%s:%s" % (rule, tag)
            return (sig, "schema breaking rule %s (%s) is accepted" % (rule, sorted(st["broken"])))
        if record:
            self.stats["reject"] += 1
            if op == "mutate":
                self.rule_seen[rule] = self.rule_seen.get(rule, 0) + 1
                if re.search(RULE_MSG.get(rule, "$^"), out[1]):
                    self.rule_msg_ok[rule] = self.rule_msg_ok.get(rule, 0) + 1
                elif len(self.msg_disagree) < 8 and {"rule": rule, "message": out[1][:100]} not in self.msg_disagree:
                    self.msg_disagree.append({"rule": rule, "message": out[1][:100]})
        return None


def state_key(st):
    return json.dumps(tlc.to_py({"s": st["sch"], "a": st["aux"], "e": st["ev"]}), sort_keys=True)


def run_states(ctx, J, states, origin, reps_noise=4):
    """render + judge every state; two renderings per state (house style, and an alternate style with doc comments)"""
    states = sorted(states, key=state_key)
    nviol = 0
    for idx, st in enumerate(states):
        variants = [(0, False, 0)]
        alt = 1 + idx % 2
        variants.append((alt, alt == 1, 0))
        if st["aux"]["k"] == "noise":
            variants = [(0, False, r) for r in range(reps_noise)] + [(2, False, r) for r in range(2)]
        if any(d["k"] == "extern" for d in st["sch"]):
            variants = [v for v in variants if v[0] == 0]
        bad = None
        for (style, doc, rep) in variants:
            text = R.render(st["sch"], st["aux"], style=style, doc=doc, seed=ctx.seed, rep=rep)
            res = J.judge(st, text, doc)
            small = {"op": st["ev"]["op"], "rule": st["ev"]["rule"], "kind": st["ev"]["kind"],
                     "aux": tlc.to_py(st["aux"]), "style": style, "rep": rep, "h": hash_text(text)}
            ctx.case(small, nontrivial=len(text) > 0,
                     sample={"origin": origin, "ev": tlc.to_py(st["ev"]), "text": text[:300]})
            if res is not None and bad is None:
                bad = (res, text)
        if bad is None:
            ctx.trace_ok()
        else:
            (sig, what), text = bad
            nviol += 1
            ctx.violation(sig, what + " | input (first 400 chars): " + repr(text[:400]),
                          {"text": text if len(text) < 20000 else None, "ev": tlc.to_py(st["ev"]),
                           "sch": tlc.to_py(st["sch"]), "aux": tlc.to_py(st["aux"]),
                           "obs": tlc.to_py(st["obs"]), "broken": tlc.to_py(st["broken"]),
                           "style": bad_style(variants, st, J, ctx), "signature": sig})
    return nviol


def bad_style(variants, st, J, ctx):
    for (style, doc, rep) in variants:
        text = R.render(st["sch"], st["aux"], style=style, doc=doc, seed=ctx.seed, rep=rep)
        if J.judge(st, text, doc, record=False) is not None:
            return [style, doc, rep]
    return [0, False, 0]


def hash_text(t):
    import hashlib
    return hashlib.sha1(t.encode()).hexdigest()[:12]


def controls(ctx, J, states):
    """negative controls: the comparer must notice a flipped verdict, a perturbed Obs, an escaping exception and an
    out-of-range line"""
    valid = next(s for s in states if s["ev"]["verdict"] == "accept" and s["aux"]["k"] == "none" and s["obs"] != ()
                 and any(d["k"] == "element" and d["mem"] for d in s["sch"]))
    text = R.render(valid["sch"], valid["aux"])

    def opposite(st, txt):
        """the state with the verdict the implementation did NOT give (the controls must not depend on the
        implementation being right)"""
        got = outcome(J.ms, txt)[0]
        f = dict(st)
        f["ev"] = dict(st["ev"], verdict="reject" if got == "accept" else "accept", rule="S_DupAttr", op="mutate")
        f["obs"] = ()
        return f

    ctx.control("an expectation opposite to the parser's answer on a valid schema is flagged",
                J.judge(opposite(valid, text), text, False, record=False) is not None)
    mutant = next(s for s in states if s["ev"]["op"] == "mutate" and s["ev"]["rule"] == "S_DupChild")
    mtext = R.render(mutant["sch"], mutant["aux"])
    ctx.control("an expectation opposite to the parser's answer on a mutant is flagged",
                J.judge(opposite(mutant, mtext), mtext, False, record=False) is not None)
    # perturbed observation: rename the first expanded attribute of the first element that has one
    obs = tlc.to_py(valid["obs"])
    done = False
    for d in obs:
        if d[0] == "element" and d[4]:
            d[4][0][0] = d[4][0][0] + "_x"
            done = True
            break
    p = dict(valid)
    p["obs"] = to_tuples(obs)
    ctx.control("a perturbed expected attribute name is flagged",
                done and (outcome(J.ms, text)[0] != "accept" or J.judge(p, text, False, record=False) is not None))

    class FakeErr(Exception):
        def __init__(self, line):
            super().__init__("x")
            self.line, self.message = line, "x"

    class Fake:
        SchemaError = FakeErr
        Schema = J.ms.Schema

        def __init__(self, exc):
            self.exc = exc

        def parse_string(self, text):
            raise self.exc

    ctx.control("an escaping KeyError is classified as a totality violation",
                outcome(Fake(KeyError("g")), "a\nb")[0] == "exception")
    ctx.control("a SchemaError with line 0 / line > #lines is classified as out of range",
                outcome(Fake(FakeErr(0)), "a\nb")[0] == "badline" and outcome(Fake(FakeErr(4)), "a\nb")[0] == "badline"
                and outcome(Fake(FakeErr(3)), "a\nb\n")[0] == "reject")


def to_tuples(x):
    if isinstance(x, list):
        return tuple(to_tuples(y) for y in x)
    return x


def run(ctx):
    ms = R.load("mjcf_schema")
    rules = spec_rules()
    J = Judge(ctx, ms)
    ctx.assume("schemas are the seeds of SchemaLang.tla (empty, 'good', 'cons', the checked-in mjcf.schema) grown by "
               "valid-preserving edits, then at most one rule-breaking mutation, then one pump or noise decoration",
               "the renderer (abstract schema -> text, three white-space styles, doc comments) is trusted",
               "cases the documentation leaves open are not generated (see META note)",
               "'line within the text' is read as 1 <= line <= number of newline characters + 1")
    # all TLC jobs run concurrently (each is limited by a few wide states, not by cores)
    import concurrent.futures as cf
    gcfg = "SchemaLang_Grow1.cfg" if ctx.quick else "SchemaLang_Grow.cfg"
    nproc, nsim = (2, 14) if ctx.quick else (8, 250)
    jenv = {"JAVA_TOOL_OPTIONS": "-XX:ParallelGCThreads=2"}
    with cf.ThreadPoolExecutor(12) as ex:
        f_mc = ex.submit(tlc.dump_states, SPEC, os.path.join(TLA, "SchemaLang_MC.cfg"), timeout=900)
        f_gr = ex.submit(tlc.dump_states, SPEC, os.path.join(TLA, gcfg), timeout=1800)
        f_t1 = None if ctx.quick else ex.submit(tlc.run, SPEC, os.path.join(TLA, "SchemaLang_T1.cfg"), timeout=2400)
        f_sim = [ex.submit(tlc.simulate, SPEC, os.path.join(TLA, "SchemaLang_Sim.cfg"), num=nsim, depth=20,
                           seed=ctx.seed * 100 + 41 + k, timeout=2400, env=jenv) for k in range(nproc)]
        # 1. exhaustive: every single-rule mutant, pump and noise decoration of the seeds
        res, states = f_mc.result()
        ctx.tlc_ok(res, "SchemaLang_MC")
        if not states:
            raise Machinery("no states dumped")
        seen = {s["ev"]["rule"] for s in states if s["ev"]["op"] == "mutate"}
        missing = [r for r in rules if r not in seen]
        if missing:
            raise Machinery("vacuity: no mutant for rules %s" % missing)
        kinds = {}
        for s in states:
            if s["ev"]["op"] == "mutate":
                kinds.setdefault(s["ev"]["rule"], set()).add(cont_class(s["ev"]["kind"]))
        for r in ("S_RequiresArity", "G_ConArity", "S_DupAttrViaUse", "S_RequiredDefault", "S_DanglingUse", "G_DefaultTok"):
            if not {"group", "element"} <= kinds.get(r, set()):
                raise Machinery("vacuity: rule %s not exercised in both container kinds" % r)
        # duplicates through a group shared along two use-paths below ONE top-level use (all three shapes)
        shapes = {s["ev"]["kind"] for s in states if s["ev"]["op"] == "mutate" and s["ev"]["rule"] == "S_DupAttrViaUse"}
        if not {"shared-twice", "shared-up", "shared-diamond"} <= shapes:
            raise Machinery("vacuity: shared-group duplicate shapes missing: %s" % sorted(shapes))
        for w in ("pump", "noise"):
            if not any(s["ev"]["op"] == w for s in states):
                raise Machinery("vacuity: no %s state" % w)
        controls(ctx, J, states)
        run_states(ctx, J, states, "MC")
        nstates = len(states)
        # 2. exhaustive: valid schemas one (quick) or two (thorough) growth steps away from the seeds
        res, gstates = f_gr.result()
        ctx.tlc_ok(res, gcfg[:-4])
        run_states(ctx, J, gstates, "Grow")
        nstates += len(gstates)
        # 3. thorough: the design properties on every mutant of every schema one growth step away (no replay)
        if f_t1 is not None:
            ctx.tlc_ok(f_t1.result(), "SchemaLang_T1")
        # 4. simulation: up to 6 growth steps with the full palette, then mutation / pump / noise
        sims = []
        for k, f in enumerate(f_sim):
            res, bs = f.result()
            ctx.tlc_ok(res, "SchemaLang_Sim#%d" % k)
            sims += bs
    sstates = {}
    for bh in sims:
        for (_a, s) in bh:
            if s["focus"]["c"] == "any":
                sstates.setdefault(state_key(s), s)
    if len(sstates) < len(sims):
        raise Machinery("simulation produced only %d states" % len(sstates))
    run_states(ctx, J, list(sstates.values()), "Sim")
    nstates += len(sstates)
    ctx.cov["states"] += len(sstates)                         # TLC prints no state count in simulation mode
    ctx.cov["transitions"] += sum(len(bh) - 1 for bh in sims)
    agree = sum(J.rule_msg_ok.values())
    total = sum(J.rule_seen.values())
    ctx.cov["exhaustive"] = True
    ctx.cov["rule_message_agreement"] = {"rejected_mutants": total, "rejected_with_the_rules_own_message": agree,
                                         "examples_of_other_messages": J.msg_disagree}
    ctx.cov["verdicts_confirmed"] = J.stats
    ctx.cov["rule"] = ("one case = one rendering of one TLC state (%d states: all single-rule mutants / pumps / noise of "
                       "4 seeds, all valid schemas <= %d growth steps from 3 seeds, %d simulated behaviours of <= 6 "
                       "growth steps + mutation/pump/noise); each state is rendered in the house style and in an "
                       "alternate white-space style (spaced with doc comments, or minimal); noise states at 6 "
                       "token offsets; non-trivial = non-empty text; distinct = distinct (decoration, text)"
                       % (nstates, 1 if ctx.quick else 2, len(sims)))
    never = [r for r in rules if J.rule_seen.get(r, 0) and not J.rule_msg_ok.get(r, 0)]
    if never:
        print("note: rules whose mutants were rejected, but never with the rule's own message: %s" % never)


def replay(ctx, rp):
    ms = R.load("mjcf_schema")
    J = Judge(ctx, ms)
    r = rp["replay"]
    st = {"sch": r["sch"], "aux": r["aux"], "ev": r["ev"], "obs": to_tuples(r["obs"]), "broken": r["broken"]}
    style, doc, rep = r.get("style", [0, False, 0])
    text = r.get("text") or R.render(st["sch"], st["aux"], style=style, doc=doc, seed=ctx.seed, rep=rep)
    res = J.judge(st, text, doc)
    out = outcome(ms, text)
    print("expected %s, parse_string gave %s" % (st["ev"]["verdict"], out[0] if out[0] != "reject" else out))
    ctx.case({"replay": rp["signature"]})
    ctx.case({"replay": rp["signature"], "x": 1})
    if res is not None:
        ctx.violation(res[0], res[1], r)
