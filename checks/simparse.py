"""TLC -simulate driver whose parser accepts parameterised action labels such as
'\\* <Create(2) line 93, col 3 to ... of module M>' (vlib.tlc.simulate only matches bare names)."""
import glob
import os
import re
import shutil

from vlib import tlc

_hdr = re.compile(r'^\\\* <(\w+)[^\n]*>\s*\nSTATE_\d+ ==\s*\n', re.M)


def simulate(spec, cfg, num, depth, seed=0, timeout=600, env=None):
    """returns (TlcResult, behaviours); behaviour = list of (action name, state dict)"""
    meta = tlc._mk_tmp()
    pref = os.path.join(meta, "tr")
    try:
        res = tlc.run(spec, cfg, workers=1, simulate="file=%s,num=%d" % (pref, num), depth=depth, seed=seed,
                      timeout=timeout, env=env, keep_meta=meta)
        behs = []
        for f in sorted(glob.glob(pref + "_*")):
            txt = open(f).read()
            ms = list(_hdr.finditer(txt))
            beh = []
            for i, m in enumerate(ms):
                end = ms[i + 1].start() if i + 1 < len(ms) else len(txt)
                body = txt[m.end():end]
                body = re.sub(r'\n=+\s*$', '\n', body.rstrip() + "\n")
                beh.append((m.group(1), tlc.parse_state(body)))
            if beh:
                behs.append(beh)
    finally:
        shutil.rmtree(meta, ignore_errors=True)
    return res, behs
