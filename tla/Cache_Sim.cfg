SPECIFICATION Spec
CONSTANTS
  Models = {"m1", "m2"}
  Ids = {"x", "y", "z"}
  Stamps = {"t1", "t2"}
  Bytes = {1, 2, 3}
  Caps = {2, 4}
  MaxOps = 14
INVARIANT SizeIsSum
INVARIANT Bounded
INVARIANT RefsAgree
INVARIANT NoOrphans
INVARIANT InsUnique
CHECK_DEADLOCK FALSE
