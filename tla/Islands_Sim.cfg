SPECIFICATION Spec
CONSTANTS
  N = 8
  MaxOps = 24
INVARIANT TypeOK
INVARIANT ActiveIff
INVARIANT Forest
INVARIANT RootIsMin
INVARIANT SameRootIffConnected
INVARIANT AssignMatches
INVARIANT AssignAscending
CHECK_DEADLOCK FALSE
