SPECIFICATION Spec
CONSTANTS
  MinBodies = 3
  MaxBodies = 3
  JTypes <- MovJ
  Axes <- D_Ax1
  Offsets <- D_OffAx1
  Rots <- R0
  Anchors <- K_Anc1
  SitePos <- V000
  SiteRots <- K_SRot1
  Masses <- One1
  Inertias <- K_Inr1
  IPoss <- K_IPos1
  Arms <- One1
  Stiffs <- One0
  Refs <- One0
  Damps <- One0
  GCs <- One0
  TCoefs <- One0
  Qs <- One0
  Vs <- D_V02
  As <- One1
  QScales <- QS1
  Gravs <- K_G1
  DisSets <- NoDis
  TenK <- One0
  TenRanges <- Rng0
  TenDamps <- One0
  TenArms <- One0
  TenZero <- NoTz
  SpPairs <- NoSpS
  SpArms <- One0
  Sleeps <- BothTz
  StiffPolys <- P00
  DampPolys <- P00
  TenKPolys <- P00
  TenDPolys <- P00
  SpStiffs <- T000
  SpRanges <- Rng0
  SpDamps <- T000
  Level = 2
  Tie = FALSE
  Rand = FALSE
INVARIANT TypeOK
INVARIANT FramesProper
INVARIANT MSymmetric
INVARIANT MSparsity
INVARIANT MPositiveDefinite
INVARIANT KaneIsRecursive
INVARIANT RneIsMaPlusBias
INVARIANT KineticIsQuadratic
INVARIANT BiasAtRestIsGravity
INVARIANT SlideBiasVelFree
INVARIANT VelIsRecursive
INVARIANT SpatialJacIsDerivative
INVARIANT SpatialMassOK
CHECK_DEADLOCK FALSE
