---------------------------- MODULE SortTrace ----------------------------
\* Trace validation for C22 (code -> spec): every trace is ONE recorded call of the implementation
\*   [op, run, k, in (keys), out (tags), outkeys]
\* TLC starts Sort.tla's coded algorithm on the recorded input, lets it run to its return, and then accepts the
\* recorded result only if it satisfies the DEFINITION (StableSorted / PartialSorted / SortedKeys) and agrees with
\* what the specification returned in the part that the definition determines.
EXTENDS Sort, Json, IOUtils, TLCExt
Traces == JsonDeserialize(IOEnv.TRACE_FILE)
VARIABLES tid, l
tvars == <<vars, tid, l>>
Rec == Traces[tid][1]
TInit == /\ tid \in 1..Len(Traces) /\ TLCSet(tid, 0) /\ l = 1
         /\ n = Len(Rec.in) /\ inp = [i \in 0..(Len(Rec.in) - 1) |-> Rec.in[i + 1]]
         /\ op = Rec.op /\ run = Rec.run /\ k = Rec.k
         /\ arr = Ident(n) /\ buf = Junk(IF op = "psort" THEN (IF k \in 1..n THEN k ELSE 0) ELSE n)
         /\ Common
\* the recorded return is explained
Matches ==
  CASE op = "sort"  -> /\ StableSortedAdj(Rec.out) /\ Rec.out = ev.out /\ Rec.outkeys = ev.outkeys
    [] op = "psort" -> IF k \in 1..n THEN PartialSorted(Rec.out, k) /\ Rec.outkeys = ev.outkeys
                                          /\ \A i \in 1..k : Rec.outkeys[i] = KeyOf(Rec.out[i])
                       ELSE TRUE
    [] op = "isort" -> SortedKeys(Rec.outkeys) /\ Rec.outkeys = ev.outkeys
Return == /\ pc = "done" /\ l = 1 /\ Matches /\ l' = 2 /\ UNCHANGED <<vars, tid>>
TNext == (Next /\ UNCHANGED <<tid, l>>) \/ Return
TSpec == TInit /\ [][TNext]_tvars
Track == IF l - 1 > TLCGet(tid) THEN TLCSet(tid, l - 1) ELSE TRUE
Accepted == \A t \in 1..Len(Traces) : TLCGet(t) = Len(Traces[t])
Report == /\ \A t \in 1..Len(Traces) : PrintT(<<"TRACE", t, TLCGet(t), Len(Traces[t])>>)
          /\ Accepted
TRuns == {2, 3, 4, 32}
=============================================================================
