SPECIFICATION Spec
CONSTANTS
  ShapesA <- Deep_ShapesA
  ShapesB <- Deep_ShapesB
  Centers <- Deep_Centers
  Margins <- Deep_Margins
  MaxOps = 1
INVARIANT Symmetric
INVARIANT ReportIff
INVARIANT SurfaceGap
INVARIANT RegionNonEmpty
INVARIANT GeomDistAgrees
CHECK_DEADLOCK FALSE
