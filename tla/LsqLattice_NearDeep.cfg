SPECIFICATION Spec
CONSTANTS
  MinN = 1
  MaxN = 1
  Apis <- BothApis
  Families <- L_Families
  Modes <- A_Modes
  Jacs <- N_Jacs
  MaxIters <- A_MaxIters
  Boxes <- N_Boxes
  Starts <- N_Starts
  Targets <- N_Targets
  Slopes <- S_Slopes
  Scales <- S_Scales
  Shears <- NoShear
INVARIANT TypeOK
INVARIANT OptFeasible
INVARIANT OptIsBoundedMin
INVARIANT ShearOptIsTarget
INVARIANT WiderThanStep
INVARIANT FdPointFeasible
CHECK_DEADLOCK FALSE
