SPECIFICATION Spec
CONSTANTS
  MinBodies = 2
  MaxBodies = 2
  JTypes <- J_SH
  Axes <- Ax_Two
  Offsets <- V_One
  Rots <- R_XZ
  Anchors <- V_One
  Refs <- I_One
  Masses <- I_12
  IPoss <- V_One
  IRots <- R_Y
  SitePos <- V_One
  SiteRots <- R_XZ
  Zones <- Z_One
  MaxActs = 0
  Gears <- I_One
  Gains <- I_One
  Biases <- Bias_Zero
  TenCoefs <- I_Zero
  MinSensors = 1
  MaxSensors = 1
  Kinds <- K_Frames
  ObjTypes <- OT_BS
  RefTypes <- OT_BX
  Cutoffs <- I_01
  UserDims <- I_12
  Qs <- I_One
  Vs <- I_m21
  Ctrls <- I_One
  Times <- T_One
  DisFlags <- D_Off
  MaxCon = 0
  ConPos <- V_Zero
  ConFrc <- I_One
  MaxRounds = 1
  Rand = FALSE
INVARIANT TypeOK
INVARIANT LayoutPartition
INVARIANT WrittenExactly
INVARIANT CutoffRespected
INVARIANT CutoffDecidable
INVARIANT FramesProper
INVARIANT FrameRoundTrip
INVARIANT AxesAreUnit
INVARIANT SelfRelativeIsZero
INVARIANT ComIsWeightedMean
INVARIANT LocalVelNorm
INVARIANT TouchNonNegative
INVARIANT ClockIsTime
PROPERTY OnlyOwnSlices
CHECK_DEADLOCK FALSE
