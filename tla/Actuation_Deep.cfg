SPECIFICATION Spec
CONSTANTS
  NJs <- L_One
  NAs <- L_One
  Presets <- AllPresets
  JPresets <- L_JAll
  Us <- L_U7
  Ws <- L_W3
  Q0s <- L_Q
  V0s <- L_V
  Hs <- L_H
  Clamps <- L_Bool
  Actuations <- L_Bool
  DisSets <- L_DisQ
  Gravs <- L_G1
  Variant = "doc"
VIEW ViewNoEv
INVARIANT TypeOK
INVARIANT CtrlClamped
INVARIANT ForceInRange
INVARIANT JointInRange
INVARIANT DisabledNoForce
INVARIANT ActuationOffNoJointForce
INVARIANT DisabledFrozen
INVARIANT PowerBalance
INVARIANT Undriven
INVARIANT GravCompRouted
INVARIANT ActInRange
INVARIANT JointClampMinimal
INVARIANT MuscleEnvelope
INVARIANT MuscleCurveOK
CHECK_DEADLOCK FALSE
