---------------------------- MODULE ParallelStep ----------------------------
\* Multithreaded stepping = the thread-pool protocol of ThreadPool.tla + what engine tasks do while mjData is
\* thread-locked: every task runs once on some pool thread and reserves scratch memory from the shared stack
\* with an atomic fetch-add (engine_memory.c, threadlock branch of stackalloc).  Reservations are logged by the
\* guarded hook mjv_verif_stackhook as (previous pstack relative to the dispatch base, size).
\* Task outputs go to per-task slices (out[task]) and depend only on the task id, never on the thread or order.
EXTENDS ThreadPool
CONSTANTS Sizes,      \* reservation sizes a task may ask for
          MaxAlloc    \* reservations per dispatch (bound for model checking)
VARIABLES pstk,       \* bytes reserved since the dispatch started (the atomic pstack, relative)
          resv,       \* set of [lo, hi, t] reservations of the current dispatch
          out         \* out[task] = token written by the task: "r" once it ran (same whoever ran it)
pvars == <<vars, pstk, resv, out>>

PInit == Init /\ pstk = 0 /\ resv = {} /\ out = [t \in Tasks |-> "-"]
InTask(t) == IF t = 0 THEN mpc = "runend" ELSE wpc[t] = "runend"
TaskOf(t) == IF t = 0 THEN mtask ELSE wtask[t]
\* a pool action; the bookkeeping variables follow from the event it produced
PoolStep ==
  /\ (MainStep \/ \E w \in Workers : WorkStep(w))
  \* mj_freeStack at the end of mju_dispatch releases everything reserved while locked
  /\ pstk' = IF ev'.op = "api" \/ (locked /\ ~locked') THEN 0 ELSE pstk
  /\ resv' = IF ev'.op = "api" \/ (locked /\ ~locked') THEN {} ELSE resv
  /\ out'  = IF ev'.op = "api" THEN [t \in Tasks |-> "-"]
             ELSE IF ev'.op = "tend" THEN [out EXCEPT ![ev'.val \div 16] = "r"] ELSE out
\* atomic reservation by a thread that is inside a task while the data is thread-locked
SAllocSz(t, sz) ==
  /\ locked /\ InTask(t)
  /\ resv' = resv \cup {[lo |-> pstk, hi |-> pstk + sz, t |-> t]} /\ pstk' = pstk + sz
  /\ ev' = Ev(t, "salloc", "stack", pstk)
  /\ UNCHANGED <<shared, mainv, workv, bookv, out>>
SAlloc(t) == Cardinality(resv) < MaxAlloc /\ \E sz \in Sizes : SAllocSz(t, sz)
PNext == PoolStep \/ (\E t \in 0..NW : SAlloc(t)) \/ (Finished /\ UNCHANGED pvars)
PSpec == PInit /\ [][PNext]_pvars

RECURSIVE SumSz(_)
SumSz(S) == IF S = {} THEN 0 ELSE LET x == CHOOSE y \in S : TRUE IN (x.hi - x.lo) + SumSz(S \ {x})
\* reservations of concurrently running tasks never overlap, exist only while locked, and account for pstack
Disjoint       == \A a, b \in resv : a # b => (a.hi <= b.lo \/ b.hi <= a.lo)
\* every reservation lies below the current top; with reservations made at the top (SAllocSz) this is the inductive
\* form of Disjoint, linear in |resv| (the trace specification checks it instead of the quadratic Disjoint)
BelowTop       == \A r \in resv : r.lo >= 0 /\ r.hi <= pstk
ResvOnlyLocked == resv # {} => locked
TopIsSum       == pstk = SumSz(resv)
\* when a dispatch has returned, every task's slice has been written exactly by running the task
OutComplete    == (AtReturn /\ want >= 1) => \A t \in Tasks : out[t] = (IF t < want THEN "r" ELSE "-")
=============================================================================
