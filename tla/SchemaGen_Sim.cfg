SPECIFICATION GSpec
CONSTANTS
  MaxGrow = 5
  SeedIds <- GSeedsAll
  GrowT <- GFewT
  GrowNames <- GNames
  DeclNames <- GDecl
  Mutate = FALSE
  MutFrom = 0
  Focused = TRUE
  PumpSizes <- NoPump
  NoisePos <- NoPos
INVARIANT GenTypeOK
INVARIANT XsdComplete
INVARIANT NothingAlien
INVARIANT ProjectionSound
INVARIANT TableBalanced
INVARIANT GenClosed
CHECK_DEADLOCK FALSE
