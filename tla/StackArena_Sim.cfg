SPECIFICATION Spec
CONSTANTS
  W = 16
  Base = 64
  Configs <- C_mix
  Sizes <- S_sim
  Aligns <- A_all
  MaxOps = 14
  MaxFrames = 3
  Threads <- T2
  CodeSites <- Contract
INVARIANT TypeOK
CHECK_DEADLOCK FALSE
