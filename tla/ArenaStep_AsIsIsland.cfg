SPECIFICATION FairSpec
CONSTANTS
  CapMax = 12
  Profiles <- ProfSmall
  MaxSteps = 1
  PairChecked = TRUE
  IslandClears = FALSE
INVARIANT TypeOK
INVARIANT Apart
INVARIANT NoDerefNull
INVARIANT Consistent
INVARIANT WarnIffTruncated
INVARIANT Balanced
INVARIANT Enough
PROPERTY Returns
CHECK_DEADLOCK FALSE
