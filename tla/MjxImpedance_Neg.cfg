SPECIFICATION Spec
CONSTANTS
  Kinds <- L_Kinds
  SolImps <- L_SI
  SolRefs <- L_SR
  Ms <- L_M1
  Hs <- L_H
  Margins <- L_Mg
  Xs <- L_X
  Vs <- L_V
  Variant = "sharedscale"
INVARIANT TypeOK
INVARIANT ImpInRange
INVARIANT StartIsDmin
INVARIANT SatIsDmax
INVARIANT BranchesMeet
INVARIANT MidSplit
INVARIANT KBStandard
INVARIANT KBDirect
INVARIANT ArefLaw
INVARIANT DLaw
INVARIANT UnilateralSign
CHECK_DEADLOCK FALSE
