SPECIFICATION TSpec
CONSTANTS
  MaxN = 3
  MaxKey = 1000000
  MaxEv = 1000000
INVARIANT TypeOK
INVARIANT EvalsInsideBounds
INVARIANT TraceNonIncreasing
CONSTRAINT Track
POSTCONDITION Report
CHECK_DEADLOCK FALSE
