SPECIFICATION Spec
CONSTANTS
  Blocks <- MC_Blocks2
  Objs <- MC_Objs
  MaxCalls = 2
  TolerateFailLeak = FALSE
  NAllocs = 2
INVARIANT TypeOK
INVARIANT NoViolation
INVARIANT NoDoubleFree
INVARIANT OwnersExist
INVARIANT NoLeak
INVARIANT StrictNoLeak
INVARIANT OnlyTaintedWrittenOff
INVARIANT QuiescentClean
PROPERTY FreedOnce
PROPERTY PlainCallIsNeutral
PROPERTY FailureSurfaces
PROPERTY FreesAreLocal
PROPERTY DestroyedAreFreed
CHECK_DEADLOCK FALSE
