------------------------------- MODULE CType -------------------------------
\* Grammar of C type names as used by python/mujoco/introspect (type_parsing.parse_type, ast_nodes *.decl).
\*
\* AST (the projection of ast_nodes.ValueType / PointerType / ArrayType that C knows about):
\*    [k |-> "val", name |-> <<tokens>>, c |-> const?, v |-> volatile?]
\*    [k |-> "ptr", inner |-> ast, c, v, r |-> restrict?]
\*    [k |-> "arr", inner |-> ast (never an array itself), ext |-> <<"3", "4">>]   extents are digit strings
\* Decl(t, style)  : the token sequence of the C abstract declarator that denotes t (postfix [] binds tighter than
\*                   prefix *, so a pointer to an array needs parentheses); style varies what C leaves free
\*                   (qualifier position and order).
\* ParseType(toks) : the inverse reading (inside-out rule of C declarators), written independently of Decl.
\* TLC checks ParseType(Decl(t, s)) = t for every AST built by the actions below: the oracle is validated
\* before it is used.  Binding:
\*    spec -> code : parse_type(join(Decl(t, s))) must be t                       (ev.toks, ev.ast)
\*    code -> spec : tokens of str(parse_type(..)) and of the declarations of structs.py / functions.py must be
\*                   read back by ParseType as the same AST                        (CTypeTrace.tla)
EXTENDS Integers, Sequences, FiniteSets, TLC
CONSTANTS MaxDepth,      \* number of pointer / array constructors around the value type
          Names, PtrQuals, Extents

QualToks == {"const", "volatile", "restrict"}
Punct    == {"*", "(", ")", "[", "]"}
Styles   == {"pre", "post", "swap", "mid"}

VARIABLES t, depth, ev
vars == <<t, depth, ev>>

\* ---- printing ---------------------------------------------------------------------------------------
Q(b, s) == IF b THEN <<s>> ELSE << >>
ValToks(x, s) ==
  CASE s = "pre"  -> Q(x.c, "const") \o Q(x.v, "volatile") \o x.name
    [] s = "post" -> x.name \o Q(x.c, "const") \o Q(x.v, "volatile")
    [] s = "swap" -> Q(x.v, "volatile") \o Q(x.c, "const") \o x.name
    [] s = "mid"  -> <<x.name[1]>> \o Q(x.v, "volatile") \o SubSeq(x.name, 2, Len(x.name)) \o Q(x.c, "const")
PtrToks(x, s) ==
  IF s \in {"pre", "post"} THEN <<"*">> \o Q(x.c, "const") \o Q(x.v, "volatile") \o Q(x.r, "restrict")
  ELSE <<"*">> \o Q(x.r, "restrict") \o Q(x.v, "volatile") \o Q(x.c, "const")
RECURSIVE ExtToks(_)
ExtToks(e) == IF e = << >> THEN << >> ELSE <<"[", Head(e), "]">> \o ExtToks(Tail(e))
RECURSIVE DeclIn(_, _, _)
\* d = what has been written so far around the (absent) identifier
DeclIn(x, d, s) ==
  CASE x.k = "val" -> ValToks(x, s) \o d
    [] x.k = "arr" -> DeclIn(x.inner, d \o ExtToks(x.ext), s)
    [] x.k = "ptr" -> LET p == PtrToks(x, s) \o d
                      IN DeclIn(x.inner, IF x.inner.k = "arr" THEN <<"(">> \o p \o <<")">> ELSE p, s)
Decl(x, s) == DeclIn(x, << >>, s)

\* ---- reading ----------------------------------------------------------------------------------------
\* length of the longest prefix of s made of qualifiers / of base-type tokens
RECURSIVE QualRun(_)
QualRun(s) == IF s = << >> THEN 0 ELSE IF Head(s) \notin QualToks THEN 0 ELSE 1 + QualRun(Tail(s))
RECURSIVE BaseRun(_)
BaseRun(s) == IF s = << >> THEN 0 ELSE IF Head(s) \in {"*", "(", "["} THEN 0 ELSE 1 + BaseRun(Tail(s))
Has(s, tok) == \E i \in 1..Len(s) : s[i] = tok
Count(s, tok) == Cardinality({i \in 1..Len(s) : s[i] = tok})
LastIdx(s, tok) == CHOOSE i \in 1..Len(s) : s[i] = tok /\ \A j \in i + 1..Len(s) : s[j] # tok
\* "[" n "]" "[" m "]" ...  ->  <<n, m>>
ExtSeqOK(s) == /\ Len(s) % 3 = 0
               /\ \A i \in 1..Len(s) : IF i % 3 = 1 THEN s[i] = "[" ELSE IF i % 3 = 0 THEN s[i] = "]"
                                       ELSE s[i] \notin Punct /\ s[i] \notin QualToks
ExtOf(s) == [i \in 1..(Len(s) \div 3) |-> s[3 * i - 1]]
MkArr(b, e) == IF e = << >> THEN b ELSE [k |-> "arr", inner |-> b, ext |-> e]

RECURSIVE DeclOK(_)
DeclOK(d) ==
  IF d = << >> THEN TRUE
  ELSE IF d[1] = "*" THEN DeclOK(SubSeq(d, 2 + QualRun(Tail(d)), Len(d)))
  ELSE IF d[1] = "(" THEN /\ Has(d, ")")
                          /\ LastIdx(d, ")") > 2          \* "()" declares nothing
                          /\ ExtSeqOK(SubSeq(d, LastIdx(d, ")") + 1, Len(d)))
                          /\ DeclOK(SubSeq(d, 2, LastIdx(d, ")") - 1))
  ELSE ExtSeqOK(d)
RECURSIVE ParseD(_, _)
ParseD(d, b) ==
  IF d = << >> THEN b
  ELSE IF d[1] = "*"
       THEN LET nq == QualRun(Tail(d))
                q  == SubSeq(d, 2, 1 + nq)
            IN ParseD(SubSeq(d, 2 + nq, Len(d)),
                      [k |-> "ptr", inner |-> b, c |-> Has(q, "const"), v |-> Has(q, "volatile"), r |-> Has(q, "restrict")])
  ELSE IF d[1] = "("
       THEN LET close == LastIdx(d, ")")
            IN ParseD(SubSeq(d, 2, close - 1), MkArr(b, ExtOf(SubSeq(d, close + 1, Len(d)))))
  ELSE MkArr(b, ExtOf(d))
BaseLen(toks) == BaseRun(toks)
BaseName(toks) == SelectSeq(SubSeq(toks, 1, BaseLen(toks)), LAMBDA x : x \notin QualToks)
WellFormed(toks) ==
  /\ BaseName(toks) # << >>
  /\ ~Has(SubSeq(toks, 1, BaseLen(toks)), "restrict") /\ ~Has(SubSeq(toks, 1, BaseLen(toks)), ")")
  /\ ~Has(SubSeq(toks, 1, BaseLen(toks)), "]")
  /\ \A q \in {"const", "volatile"} : Count(SubSeq(toks, 1, BaseLen(toks)), q) <= 1
  /\ DeclOK(SubSeq(toks, BaseLen(toks) + 1, Len(toks)))
ParseType(toks) ==
  LET base == SubSeq(toks, 1, BaseLen(toks))
  IN ParseD(SubSeq(toks, BaseLen(toks) + 1, Len(toks)),
            [k |-> "val", name |-> BaseName(toks), c |-> Has(base, "const"), v |-> Has(base, "volatile")])

\* ---- building ASTs ----------------------------------------------------------------------------------
Publish(x) == [op |-> "type", ast |-> x, toks |-> [s \in Styles |-> Decl(x, s)]]
Init == t = [k |-> "none"] /\ depth = 0 /\ ev = [op |-> "init"]
Value(n, c, v) ==
  /\ t.k = "none"
  /\ t' = [k |-> "val", name |-> n, c |-> c, v |-> v]
  /\ ev' = Publish(t') /\ UNCHANGED depth
WrapPtr(q) ==
  /\ t.k # "none" /\ depth < MaxDepth
  /\ t' = [k |-> "ptr", inner |-> t, c |-> q[1], v |-> q[2], r |-> q[3]]
  /\ depth' = depth + 1 /\ ev' = Publish(t')
WrapArr(e) ==
  /\ t.k \in {"val", "ptr"} /\ depth < MaxDepth         \* arrays of arrays are ONE array with several extents
  /\ t' = [k |-> "arr", inner |-> t, ext |-> e]
  /\ depth' = depth + 1 /\ ev' = Publish(t')
Next == \/ \E n \in Names, c \in BOOLEAN, v \in BOOLEAN : Value(n, c, v)
        \/ \E q \in PtrQuals : WrapPtr(q)
        \/ \E e \in Extents : WrapArr(e)
Spec == Init /\ [][Next]_vars

\* ---- properties ---------------------------------------------------------------------------------------
TypeOK == depth \in 0..MaxDepth /\ t.k \in {"none", "val", "ptr", "arr"}
\* printing then reading is the identity, whatever the style
RoundTrip == t.k # "none" => \A s \in Styles : WellFormed(Decl(t, s)) /\ ParseType(Decl(t, s)) = t
\* parentheses are balanced and appear exactly around pointers to arrays
RECURSIVE PtrToArr(_)
PtrToArr(x) == IF x.k = "val" THEN 0
               ELSE PtrToArr(x.inner) + (IF x.k = "ptr" /\ x.inner.k = "arr" THEN 1 ELSE 0)
ParensExact == t.k # "none" => \A s \in Styles : /\ Count(Decl(t, s), "(") = PtrToArr(t)
                                                   /\ Count(Decl(t, s), ")") = PtrToArr(t)
\* styles differ only in what C leaves free: same multiset of tokens
SameTokens == t.k # "none" => \A s \in Styles, tok \in QualToks \cup Punct : Count(Decl(t, s), tok) = Count(Decl(t, "pre"), tok)

\* ---- constants for the configurations -----------------------------------------------------------------
A_Names    == {<<"int">>, <<"mjtNum">>, <<"unsigned", "long", "long">>, <<"struct", "mjModel_">>}
S_Names    == {<<"mjtNum">>, <<"unsigned", "long", "long">>}
A_PtrQuals == {<<FALSE, FALSE, FALSE>>, <<TRUE, FALSE, FALSE>>, <<FALSE, TRUE, FALSE>>, <<FALSE, FALSE, TRUE>>,
               <<TRUE, FALSE, TRUE>>, <<TRUE, TRUE, TRUE>>}
S_PtrQuals == {<<FALSE, FALSE, FALSE>>, <<TRUE, FALSE, TRUE>>}
A_Extents  == {<<"3">>, <<"3", "4">>, <<"27">>}
S_Extents  == {<<"3">>, <<"3", "4">>}
=============================================================================
