SPECIFICATION Spec
CONSTANTS
  Schema <- R_Schema
  CaseIds <- R_CaseIds
  CaseOf <- R_CaseOf
  LoaderChecksMap = TRUE
  Big = 1000000
  Report = TRUE
INVARIANT TypeOK
INVARIANT ReadInBounds
INVARIANT WriteInBounds
INVARIANT RejectWarns
INVARIANT AcceptExact
INVARIANT AcceptSound
INVARIANT ProductRuleAgrees
INVARIANT TruncatedRejected
INVARIANT PristineAccepted
CHECK_DEADLOCK FALSE
