SPECIFICATION Spec
CONSTANTS
  Ops <- AllOps
  InitMode = "id"
  TInit <- MC_TInit
  MaxOps = 40
  QArgs <- QuickQ
  ETurns <- AllE
  IArgs <- FewI
  KArgs <- FewK
  CheckGroup = FALSE
  Bug = "none"
  MaxT = 6
INVARIANT Closure
INVARIANT Homomorphism
INVARIANT ZeroRelExact
INVARIANT InverseGivesId
CHECK_DEADLOCK FALSE
