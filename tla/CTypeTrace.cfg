SPECIFICATION TSpec
CONSTANTS
  MaxDepth = 100
  Names <- A_Names
  PtrQuals <- A_PtrQuals
  Extents <- A_Extents
INVARIANT TypeOK
CONSTRAINT Track
POSTCONDITION Report
CHECK_DEADLOCK FALSE
