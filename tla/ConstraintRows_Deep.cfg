SPECIFICATION Spec
CONSTANTS
  MaxEq = 2
  MaxFr = 2
  MaxLim = 2
  MaxCon = 3
  Dims <- MC_Dims6
INVARIANT TypeOK
INVARIANT BlocksOK
INVARIANT DoneOK
PROPERTY RegionOK
