SPECIFICATION Spec
CONSTANTS
  MaxBodies = 1
  MaxGeoms = 1
  MaxOps = 1
  BodyKinds <- MC_Kinds
  Shapes <- MC_Shapes
  Centers <- MC_Centers
  Looks <- MC_Looks
  GGroups <- MC_GGroups
  VisFlags <- MC_Vis
  Origins <- MC_Origins
  Lens <- MC_Lens
  Filters <- MC_Filters
  Moves <- MC_Moves
INVARIANT NegAlwaysHit
CHECK_DEADLOCK FALSE
