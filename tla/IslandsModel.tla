---------------------------- MODULE IslandsModel ----------------------------
\* Island discovery on a model (mj_island, reached through mj_forward): NT kinematic trees with TreeDofs[t]
\* degrees of freedom each, and a list of constraints, each incident to some trees (or the world, -1).
\* The environment adds constraints (a new model is compiled) and switches them on and off at run time
\* (eq_active, contact margin, joint position inside its range, friction loss set to zero); obs is what
\* mj_forward must publish in mjData for the current configuration.
\*
\* kinds (how the harness realises them, and which branch of treeIterInit/treeNext they take):
\*   connect, connectsite, weld   equality between two bodies (sites)      special case: eq_obj*id -> body_treeid
\*   con1, con3                   contact of two sphere geoms, condim 1 / 3   special case: contact geoms
\*   limit, fric                  joint limit / dof friction loss             special case: one tree
\*   jointeq                      joint equality (1 or 2 joints)              generic scan of the Jacobian row
\*   tfric, tlimit                fixed tendon over 1..3 trees with friction loss / limit        generic scan
EXTENDS IslandsCore
CONSTANTS NT, MaxCons, MaxToggles, Kinds
Trees == Range0(NT)
AllTreeDofs == <<1, 2, 1, 3, 2, 1, 2, 1>>
TreeDofs == [t \in Trees |-> AllTreeDofs[t + 1]]
NV == SumTo(TreeDofs, NT)
DofAdr == [t \in Trees |-> SumTo(TreeDofs, t)]
DofTree == [d \in Range0(NV) |-> CHOOSE t \in Trees : DofAdr[t] <= d /\ d < DofAdr[t] + TreeDofs[t]]

TwoBody == {"connect", "connectsite", "weld", "con1", "con3"}
OneTree == {"limit", "fric"}
Tendons == {"tfric", "tlimit"}
Pairs == {<<a, b>> : a \in Trees, b \in Trees \cup {-1}} \cup {<<-1, b>> : b \in Trees}
TreeSeqs == {<<a>> : a \in Trees} \cup {<<a, b>> : a \in Trees, b \in Trees}
            \cup {<<a, b, c>> : a \in Trees, b \in Trees, c \in Trees}
Distinct(s) == \A x, y \in 1..Len(s) : x # y => s[x] # s[y]
Shapes(kind) ==
  IF kind \in TwoBody THEN {s \in Pairs : s[1] # s[2]}
  ELSE IF kind \in OneTree THEN {<<a>> : a \in Trees}
  ELSE IF kind = "jointeq" THEN {s \in TreeSeqs : Len(s) <= 2 /\ Distinct(s)}
  ELSE {s \in TreeSeqs : Distinct(s)}

VARIABLES cons,    \* sequence of [kind, trees]
          on,      \* sequence of BOOLEAN, same length
          ntog, ev, obs
vars == <<cons, on, ntog, ev, obs>>

TreeSet(c) == {c.trees[x] : x \in 1..Len(c.trees)} \ {-1}
OnSet(cs, o) == {x \in 1..Len(cs) : o[x]}
Hyper(cs, o) == {TreeSet(cs[x]) : x \in OnSet(cs, o)}

\* ---- coded: unionConstraintTrees + mj_dsuAssign ------------------------------------------------
\* the trees of a constraint in the order treeNext returns them: special cases as given (world included),
\* generic scan in ascending dof order
RECURSIVE SortedSeq(_)
SortedSeq(S) == IF S = {} THEN << >> ELSE <<Min(S)>> \o SortedSeq(S \ {Min(S)})
IterTrees(c) == IF c.kind \in TwoBody \cup OneTree THEN c.trees ELSE SortedSeq(TreeSet(c))
\* activate a singleton or union all trees in a multi-tree constraint
RECURSIVE Chain(_, _, _)
Chain(p, s, x) == IF x >= Len(s) THEN p ELSE Chain(DsuMerge(p, s[x], s[x + 1]), s, x + 1)
UnionOne(p, c) == LET s == IterTrees(c) IN IF Len(s) = 1 THEN DsuMerge(p, s[1], -1) ELSE Chain(p, s, 1)
RECURSIVE UnionAll(_, _, _, _)
UnionAll(p, cs, o, x) == IF x > Len(cs) THEN p
                         ELSE UnionAll(IF o[x] THEN UnionOne(p, cs[x]) ELSE p, cs, o, x + 1)
Coded(cs, o) == DsuAssign(UnionAll([t \in Trees |-> -1], cs, o, 1), NT, TreeDofs)
\* efc_tree of a constraint: tree1 >= 0 ? tree1 : tree2
EfcTree(c) == LET s == IterTrees(c) IN IF s[1] >= 0 THEN s[1] ELSE s[2]

\* ---- what mjData must hold ----------------------------------------------------------------------
ObsOf(cs, o) ==
  LET ti == AbsIslands(NT, Hyper(cs, o))
      ni == AbsNIsland(Hyper(cs, o))
      di == [d \in Range0(NV) |-> ti[DofTree[d]]]
      nv == Counts(di, NV, ni)
      nt == Counts(ti, NT, ni)
  IN [nisland |-> ni, tree_island |-> Seq0(ti, NT), dof_island |-> Seq0(di, NV),
      nidof |-> Cardinality({d \in Range0(NV) : di[d] >= 0}),
      island_nv |-> Seq0(nv, ni), island_idofadr |-> Seq0(Adrs(nv, ni), ni),
      island_ntree |-> Seq0(nt, ni), island_itreeadr |-> Seq0(Adrs(nt, ni), ni),
      cons_island |-> [x \in 1..Len(cs) |-> IF o[x] THEN ti[EfcTree(cs[x])] ELSE -1]]

Init == cons = << >> /\ on = << >> /\ ntog = 0 /\ ev = [op |-> "init"] /\ obs = ObsOf(<< >>, << >>)
\* the realisation puts a limit / friction loss on one fixed joint of the tree: at most one of each per tree
Realizable(cs) == \A x, y \in 1..Len(cs) : (x # y /\ cs[x].kind \in OneTree /\ cs[x].kind = cs[y].kind) => cs[x].trees # cs[y].trees
Add(c) == /\ Len(cons) < MaxCons
          /\ cons' = Append(cons, c) /\ on' = Append(on, TRUE) /\ Realizable(cons')
          /\ UNCHANGED ntog
          /\ ev' = [op |-> "add", c |-> c] /\ obs' = ObsOf(cons', on')
Toggle(x) == /\ ntog < MaxToggles /\ x \in 1..Len(cons)
             /\ on' = [on EXCEPT ![x] = ~@] /\ ntog' = ntog + 1 /\ UNCHANGED cons
             /\ ev' = [op |-> "toggle", x |-> x] /\ obs' = ObsOf(cons, on')
Next == \/ \E kd \in Kinds : \E s \in Shapes(kd) : Add([kind |-> kd, trees |-> s])
        \/ \E x \in 1..MaxCons : Toggle(x)
Spec == Init /\ [][Next]_vars

\* ---- properties --------------------------------------------------------------------------------
H == Hyper(cons, on)
TI == Fn0(obs.tree_island)
DI == Fn0(obs.dof_island)
TypeOK == Len(on) = Len(cons) /\ obs = ObsOf(cons, on)
\* the coded union-find + assignment computes the abstract islands, for the order of merges the code performs
CodedMatches == LET r == Coded(cons, on)
                IN r.island = TI /\ r.nisland = obs.nisland /\ r.nidof = obs.nidof
\* each island is a maximal set of trees connected through shared constraints
IslandsAreComponents ==
  /\ \A s, t \in Trees : (TI[s] >= 0 /\ TI[s] = TI[t]) <=> (s \in ActiveIn(H) /\ t \in Comp(s, H))
  /\ \A t \in Trees : TI[t] = -1 <=> t \notin ActiveIn(H)
  /\ {TI[t] : t \in ActiveIn(H)} = Range0(obs.nisland)
\* every constraint and every constrained dof belongs to the island of its trees, unconstrained dofs to none
RowsAndDofs ==
  /\ \A x \in OnSet(cons, on) : obs.cons_island[x] >= 0 /\ \A t \in TreeSet(cons[x]) : TI[t] = obs.cons_island[x]
  /\ \A d \in Range0(NV) : DI[d] = TI[DofTree[d]]
  /\ obs.nidof = SumTo([t \in Trees |-> IF TI[t] >= 0 THEN TreeDofs[t] ELSE 0], NT)
\* ids ascend with the smallest tree of the island
Ascending == \A s, t \in ActiveIn(H) : Min(Comp(s, H)) < Min(Comp(t, H)) => TI[s] < TI[t]
\* the coded maps of mj_island are mutually inverse permutations grouped by island
MapsOK ==
  LET ni == obs.nisland
      nv == Fn0(obs.island_nv)  dadr == Fn0(obs.island_idofadr)
      d2i == Item2Idx(DI, NV, dadr, obs.nidof)
      nt == Fn0(obs.island_ntree)  tadr == Fn0(obs.island_itreeadr)
      t2i == Item2Idx(TI, NT, tadr, SumTo(nt, ni))
  IN /\ MutuallyInverse(d2i, Inverse(d2i, NV), NV) /\ Grouped(d2i, DI, NV, ni, nv, dadr)
     /\ MutuallyInverse(t2i, Inverse(t2i, NT), NT) /\ Grouped(t2i, TI, NT, ni, nt, tadr)
     /\ SumTo(nv, ni) = obs.nidof
\* adding a constraint never separates trees; a toggle changes nothing but through the on-set
AddOnlyJoins == [][ev'.op = "add" => \A s, t \in Trees : (TI[s] >= 0 /\ TI[s] = TI[t]) => (TI'[s] >= 0 /\ TI'[s] = TI'[t])]_vars
ViewNoEv == <<cons, on, ntog>>

AllKinds == TwoBody \cup OneTree \cup Tendons \cup {"jointeq"}
=============================================================================
