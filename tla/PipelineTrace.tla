--------------------------- MODULE PipelineTrace ---------------------------
\* Trace validation (code -> spec) for Pipeline.tla.  A trace is one run of the real library with observer
\* callbacks installed: [feat, integ, actdis, ops] where ops lists the operations in order with, for every pipeline
\* call, the events the observers recorded (end of timed stage functions, passive / sensor / control callbacks)
\* and the four lazy-evaluation flags read from mjData after the call (flags = <<>>: not recorded).
\* The specification's actions are reused: an operation is begun, its stages are taken one by one, and it may only
\* complete (Done) if the specification's event log and flags are exactly the recorded ones.
EXTENDS Pipeline, Json, IOUtils, TLCExt
Traces == JsonDeserialize(IOEnv.TRACE_FILE)
VARIABLES tid, l
tvars == <<vars, tid, l>>
TInit == /\ tid \in 1..Len(Traces) /\ TLCSet(tid, 0) /\ l = 1 /\ Init
         /\ feat = Traces[tid].feat /\ opt.integ = Traces[tid].integ /\ actdis = Traces[tid].actdis
Cur == Traces[tid].ops[l]
More == l <= Len(Traces[tid].ops)
Adv == l' = l + 1 /\ UNCHANGED tid
Stay == UNCHANGED <<tid, l>>
FlagsOk == IF Len(Cur.flags) = 0 THEN TRUE ELSE <<flg.epos, flg.evel, flg.stv, flg.rne>> = Cur.flags
TNext ==
  \/ /\ More /\ Cur.op = "setpos" /\ SetPos /\ Adv
  \/ /\ More /\ Cur.op = "setvel" /\ SetVel /\ Adv
  \/ /\ More /\ Cur.op = "setctrl" /\ SetCtrl /\ Adv
  \/ /\ More /\ Cur.op = "setapp" /\ SetApp /\ Adv
  \/ /\ More /\ Cur.op = "setqacc" /\ SetQacc /\ Adv
  \/ /\ More /\ Cur.op = "reset" /\ Reset /\ Adv
  \/ /\ More /\ Cur.op = "forward" /\ Forward /\ Stay
  \/ /\ More /\ Cur.op = "fwdskip" /\ FwdSkip(Cur.s, Cur.ss) /\ Stay
  \/ /\ More /\ Cur.op = "inverse" /\ Inverse /\ Stay
  \/ /\ More /\ Cur.op = "invskip" /\ InvSkip(Cur.s, Cur.ss) /\ Stay
  \/ /\ More /\ Cur.op = "step" /\ Step /\ Stay
  \/ /\ More /\ Cur.op = "step1" /\ Step1 /\ Stay
  \/ /\ More /\ Cur.op = "step2" /\ Step2 /\ Stay
  \/ /\ More /\ Cur.op = "stage" /\ StageCall(Cur.st) /\ Stay
  \/ /\ Stage /\ Stay
  \/ /\ More /\ Done /\ log = Cur.events /\ FlagsOk /\ Adv
TSpec == TInit /\ [][TNext]_tvars
Track == IF l - 1 > TLCGet(tid) THEN TLCSet(tid, l - 1) ELSE TRUE
Report == /\ \A t \in 1..Len(Traces) : PrintT(<<"TRACE", t, TLCGet(t), Len(Traces[t].ops)>>)
          /\ \A t \in 1..Len(Traces) : TLCGet(t) = Len(Traces[t].ops)
=============================================================================
