SPECIFICATION Spec
CONSTANTS
  MinBodies = 1
  MaxBodies = 3
  JTypes <- MovJ
  Axes <- Ax2
  Offsets <- K_Off1
  Rots <- R0
  Anchors <- K_Anc1
  SitePos <- K_Site1
  SiteRots <- K_SRot1
  Masses <- One1
  Inertias <- K_Inr1
  IPoss <- K_IPos1
  Arms <- One1
  Stiffs <- One0
  Refs <- One0
  Damps <- One0
  GCs <- One0
  TCoefs <- D_TC2
  Qs <- One1
  Vs <- D_V1
  As <- One1
  Gravs <- K_G1
  DisSets <- NoDis
  TenK <- One0
  TenRanges <- Rng0
  TenDamps <- One0
  TenArms <- D_TArm1
  Level = 2
  Rand = FALSE
INVARIANT TypeOK
INVARIANT FramesProper
INVARIANT MSymmetric
INVARIANT MSparsity
INVARIANT MPositiveDefinite
INVARIANT KaneIsRecursive
INVARIANT RneIsMaPlusBias
INVARIANT KineticIsQuadratic
INVARIANT BiasAtRestIsGravity
INVARIANT SlideBiasVelFree
INVARIANT VelIsRecursive
CHECK_DEADLOCK FALSE
