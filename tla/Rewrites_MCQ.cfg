SPECIFICATION Spec
CONSTANTS
  MaxNodes = 3
  MaxRewrites = 1
  Rewrs <- MC_NoSpell
  BaseRots <- MC_Rots1
  BasePos <- MC_Pos1
  FramePoses <- MC_FP1
  GeomOpts <- MC_G2
  BodyCCs <- MC_CC2
  JointOpts <- MC_J1
  ClassVals <- MC_V1
  ReplOpts <- MC_NoRepl
  Bug = "none"
INVARIANT TypeOK
INVARIANT SameMeaning
INVARIANT NothingLost
INVARIANT DropsOnlyThose
INVARIANT EditApplied
CHECK_DEADLOCK FALSE
