------------------------------ MODULE SleepApi ------------------------------
\* The exported array-level functions of src/engine/engine_sleep.c on EVERY array that encodes closed cycles:
\*   mj_wakeIsland(tree_asleep, ntree, i, wakeval, ...)   -> number of woken trees, array updated in place
\*   mj_sleepCycle(tree_asleep, ntree, i)                 -> smallest tree of the cycle through i, or -1
\*   mj_updateSleep(m, d)                                  -> tree_awake flags and the awake counters
\* Initial states = all valid arrays over NT trees; every operation records in `ev` its arguments, the array it
\* was applied to and the result the implementation must return (checks/c18.py replays each state's ev).
EXTENDS SleepCore, TLC
CONSTANTS MaxOps,
          AwakeVals,    \* countdown values an awake tree may carry in the initial arrays
          WakeVals      \* wakeval arguments tried
VARIABLES ta, nops, ev
vars == <<ta, nops, ev>>

Init == /\ ta \in ValidArrays(AwakeVals) /\ nops = 0 /\ ev = [op |-> "init"]
Step == nops < MaxOps /\ nops' = nops + 1

ApiWake(i, wv) ==
  /\ Step
  /\ ta' = WakeIsland(ta, i, wv)
  /\ ev' = [op |-> "wake", i |-> i, wv |-> wv, before |-> Sq(ta), after |-> Sq(ta'), ret |-> NWoke(ta, i)]
ApiCycle(i) ==
  /\ Step /\ UNCHANGED ta
  /\ ev' = [op |-> "cycle", i |-> i, before |-> Sq(ta), ret |-> CycleMin(ta, i)]
ApiUpdate ==
  /\ Step /\ UNCHANGED ta
  /\ ev' = [op |-> "update", before |-> Sq(ta), awake |-> Sq([t \in Trees |-> IF ta[t] < 0 THEN 1 ELSE 0]),
            n |-> Cardinality(AwakeSet(ta)),
            \* mjData.body_awake of the synthetic model: world (static), one body per tree, then the mocap body,
            \* its jointless child and grandchild (all three count as awake: mjS_AWAKE = 1, mjS_STATIC = -1)
            body |-> <<-1>> \o Sq([t \in Trees |-> IF ta[t] < 0 THEN 1 ELSE 0])
                     \o [i \in 1..3 |-> IF BodyClass(<<Mocap, Carried, Carried2>>[i]) = "mocap-carried" THEN 1 ELSE -1]]

Next == \/ \E i \in Trees, wv \in WakeVals : ApiWake(i, wv)
        \/ \E i \in -1..NT : ApiCycle(i)
        \/ ApiUpdate
Spec == Init /\ [][Next]_vars

\* ---- properties ---------------------------------------------------------------------------------
TypeOK == ta \in [Trees -> Int] /\ \A t \in Trees : ta[t] < NT
CyclesClosed == Closed(ta)
\* the representative is the same for every member of a cycle, is a member, and is the smallest one
CycleRepresentative ==
  \A t \in AsleepSet(ta) : /\ CycleMin(ta, t) \in Cycle(ta, t)
                           /\ \A u \in Cycle(ta, t) : CycleMin(ta, u) = CycleMin(ta, t) /\ CycleMin(ta, t) <= u
                           /\ \A u \in AsleepSet(ta) \ Cycle(ta, t) : CycleMin(ta, u) # CycleMin(ta, t)
\* a sleeping island wakes as a whole, nothing else changes, and the return value counts the woken trees
WakeWhole == [][ev'.op = "wake" =>
                  LET i == ev'.i  c == Cycle(ta, i) IN
                  /\ ta[i] >= 0 => /\ \A u \in c : ta'[u] = ev'.wv
                                   /\ \A u \in Trees \ c : ta'[u] = ta[u]
                                   /\ ev'.ret = Cardinality(c)
                  /\ ta[i] < 0  => /\ ta'[i] <= ta[i] /\ ta'[i] <= ev'.wv /\ ta'[i] \in {ta[i], ev'.wv}
                                   /\ \A u \in Trees \ {i} : ta'[u] = ta[u]
                                   /\ ev'.ret = 0
                  /\ ev'.ret = NewlyAwake(ta, ta')]_vars
QueriesPure == [][ev'.op \in {"cycle", "update"} => ta' = ta]_vars
\* ---- constants for the configurations
MC_AwakeVals == {-2, -1}
MC_WakeVals  == {-2, -1}
Real_AwakeVals == {-11, -1}
Real_WakeVals  == {-11, -5, -1}
ViewNoEv == <<ta, nops>>
=============================================================================
