SPECIFICATION Spec
CONSTANTS
  ClassSeq <- MC_Class1
  LeafKinds <- MC_LeafG
  TopKinds <- MC_NoTops
  Attrs <- MC_AttrAI
  SetVals <- MC_ValAll
  MaxClasses = 1
  MaxNodes = 1
  MaxBodies = 0
  MaxFrames = 0
  MaxTops = 0
  MaxDefSets = 1
  MaxAttrSets = 2
  MaxKeys = 0
  Precs <- MC_PBoth
  FeatSeq <- MC_NoFeats
  MaxFeats = 0
  MinSize = 0
  Exclusive = FALSE
  MinClasses = 0
  MinNodes = 0
  CodeDevs <- CurrentDevs
INVARIANT TypeOK
INVARIANT RoundTripExact
INVARIANT RoundTripPrinted
INVARIANT RoundTripUpToOrder
INVARIANT ClassesPreserved
INVARIANT LostExplains
CHECK_DEADLOCK FALSE
