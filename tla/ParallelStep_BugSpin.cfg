SPECIFICATION PSpec
CONSTANTS
  NW = 2
  MaxTask = 2
  MaxOps = 2
  Bug = "spin"
  Sizes = {1}
  MaxAlloc = 1
INVARIANT ExactlyOnceAtReturn
INVARIANT NoneRunningAtReturn
INVARIANT ResvOnlyLocked
INVARIANT OutComplete
