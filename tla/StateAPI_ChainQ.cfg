SPECIFICATION Spec
CONSTANTS
  NC = 14
  Dims <- MC_Dims
  MaxOps = 5
  Mode = "chain"
  Sigs <- AllSigs
  ChainSigs <- MC_ChainFifth
  Masks <- MC_Masks2
  Bug = "none"
  NKey = 2
  NPat = 3
INVARIANT SizeIsLength
INVARIANT GetIsDecl
INVARIANT ExtractLen
PROPERTY SetRestores
PROPERTY SetFrame
PROPERTY ExtractIsGet
PROPERTY CopyIsGetSet
PROPERTY QueriesPure
CHECK_DEADLOCK FALSE
