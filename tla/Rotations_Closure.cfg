SPECIFICATION Spec
CONSTANTS
  Ops <- ClosureOps
  InitMode = "id"
  TInit <- MC_TInit
  MaxOps = 1000000
  QArgs <- GenQ
  ETurns <- AllE
  IArgs <- FewI
  KArgs <- GenK
  CheckGroup = TRUE
  Bug = "none"
  MaxT = 1
VIEW ViewState
INVARIANT Closure
INVARIANT Homomorphism
INVARIANT DoubleCover
INVARIANT Orthonormal
INVARIANT PoseInverse
PROPERTY NegIsInverse
PROPERTY PoseNegTwice
CHECK_DEADLOCK FALSE
