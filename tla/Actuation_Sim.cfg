SPECIFICATION Spec
CONSTANTS
  NJs <- L_OneTwo
  NAs <- L_TwoThree
  Presets <- AllPresets
  JPresets <- L_JAll
  Us <- L_UX
  Ws <- L_WX
  Q0s <- L_QX
  V0s <- L_VX
  Hs <- L_HX
  Clamps <- L_Bool
  Actuations <- L_Bool
  DisSets <- L_DisAll
  Gravs <- L_GX
  Variant = "doc"

INVARIANT TypeOK
INVARIANT CtrlClamped
INVARIANT ForceInRange
INVARIANT JointInRange
INVARIANT DisabledNoForce
INVARIANT ActuationOffNoJointForce
INVARIANT DisabledFrozen
INVARIANT PowerBalance
INVARIANT Undriven
INVARIANT GravCompRouted
INVARIANT ActInRange
INVARIANT JointClampMinimal
INVARIANT MuscleEnvelope
INVARIANT MuscleCurveOK
CHECK_DEADLOCK FALSE
