SPECIFICATION SpecGen
CONSTANTS
  MaxLen = 0
  Keys <- K3
  Runs <- SmallRuns
  Ops <- AllOps
  GenLens <- MC_GenLens
  Seeds <- NoSeeds
  SeedLens <- NoLens
INVARIANT TypeOK
INVARIANT SortCorrect
INVARIANT SortInPlace
INVARIANT PartialCorrect
INVARIANT PartialRestKept
INVARIANT InsertionCorrect
INVARIANT KeysConsistent
INVARIANT RunsInv
INVARIANT PassInv
INVARIANT HeapInv
INVARIANT NoJunk
INVARIANT NoStuck
INVARIANT EmitDone
CHECK_DEADLOCK FALSE
