SPECIFICATION TSpec
CONSTANTS
  Blocks <- TraceBlocks
  Objs <- TraceObjs
  MaxCalls = 0
  TolerateFailLeak = TRUE
  NAllocs = 0
INVARIANT NoDoubleFree
INVARIANT OwnersExist
INVARIANT NoLeak
INVARIANT OnlyTaintedWrittenOff
PROPERTY FreedOnce
PROPERTY PlainCallIsNeutral
PROPERTY FailureSurfaces
PROPERTY FreesAreLocal
PROPERTY DestroyedAreFreed
CONSTRAINT Track
POSTCONDITION Report
CHECK_DEADLOCK FALSE
