SPECIFICATION Spec
CONSTANTS
  NJs <- L_OneTwo
  NAs <- L_Two
  Presets <- L_P4
  JPresets <- L_JP
  Us <- L_U
  Ws <- L_W
  Q0s <- L_Q1
  V0s <- L_V1
  Hs <- L_H
  Clamps <- L_True
  Actuations <- L_True
  DisSets <- L_DisQ
  Gravs <- L_G1
  Variant = "doc"
VIEW ViewNoEv
INVARIANT TypeOK
INVARIANT CtrlClamped
INVARIANT ForceInRange
INVARIANT JointInRange
INVARIANT DisabledNoForce
INVARIANT ActuationOffNoJointForce
INVARIANT DisabledFrozen
INVARIANT PowerBalance
INVARIANT Undriven
INVARIANT GravCompRouted
INVARIANT ActInRange
INVARIANT JointClampMinimal
INVARIANT MuscleEnvelope
INVARIANT MuscleCurveOK
CHECK_DEADLOCK FALSE
