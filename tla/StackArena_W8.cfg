SPECIFICATION Spec
CONSTANTS
  W = 8
  Base = 64
  Configs <- C_96
  Sizes <- AllBytes
  Aligns <- A_1_8_16
  MaxOps = 2
  MaxFrames = 2
  Threads <- T2
  CodeSites <- Contract
INVARIANT TypeOK
INVARIANT InArena
INVARIANT Aligned
INVARIANT Disjoint
INVARIANT RedZoneGap
INVARIANT Apart
INVARIANT Sides
INVARIANT FramesOK
INVARIANT ReservationsDisjoint
PROPERTY FreeRestores
PROPERTY MarkFreeId
PROPERTY ErrorIsClean
PROPERTY NoSpuriousNull
PROPERTY NoSpuriousErr
PROPERTY FinishAgrees
CHECK_DEADLOCK FALSE
