SPECIFICATION Spec
CONSTANTS
  MinN = 2
  MaxN = 3
  Apis <- BothApis
  Families <- A_Families
  Modes <- A_Modes
  Jacs <- A_Jacs
  MaxIters <- A_MaxIters
  Boxes <- AN_Boxes
  Starts <- AN_Starts
  Targets <- AN_Targets
  Slopes <- A_Slopes
  Scales <- A_Scales
  Shears <- A_Shears
INVARIANT TypeOK
INVARIANT OptFeasible
INVARIANT OptIsBoundedMin
INVARIANT ShearOptIsTarget
INVARIANT WiderThanStep
INVARIANT FdPointFeasible
CHECK_DEADLOCK FALSE
