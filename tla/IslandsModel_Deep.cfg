SPECIFICATION Spec
CONSTANTS
  NT = 3
  MaxCons = 2
  MaxToggles = 1
  Kinds <- AllKinds
INVARIANT TypeOK
INVARIANT CodedMatches
INVARIANT IslandsAreComponents
INVARIANT RowsAndDofs
INVARIANT Ascending
INVARIANT MapsOK
PROPERTY AddOnlyJoins
VIEW ViewNoEv
CHECK_DEADLOCK FALSE
