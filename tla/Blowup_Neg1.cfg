SPECIFICATION Spec
CONSTANTS
  MaxSteps = 1
  MaxInj = 1
  Classes <- AllClasses
  AutoChoices <- BothFlags
  Layouts <- NoSleep
  Bug = "noreset"
VIEW NoHist
INVARIANT TypeOK
INVARIANT AutoresetFinite
INVARIANT DetectedCounted
INVARIANT CtrlCounted
INVARIANT NoSpuriousWarning
INVARIANT Contained
INVARIANT NothingLeft
PROPERTY BadStateDetected
PROPERTY BadVelDetected
PROPERTY AwakeAccDetected
PROPERTY SleeperAccDetected
PROPERTY TouchWakes
CHECK_DEADLOCK FALSE
