SPECIFICATION Spec
CONSTANTS
  NT = 3
  MaxCons = 1
  MaxToggles = 1
  Kinds <- AllKinds
INVARIANT TypeOK
INVARIANT CodedMatches
INVARIANT IslandsAreComponents
INVARIANT RowsAndDofs
INVARIANT Ascending
INVARIANT MapsOK
PROPERTY AddOnlyJoins
CHECK_DEADLOCK FALSE
