SPECIFICATION FSpec
CONSTANTS
  MinBodies = 1
  MaxBodies = 1
  JTypes <- MovJ
  Axes <- F_Ax3
  Offsets <- F_Off5
  Rots <- R0
  Anchors <- V000
  SitePos <- K_Site1
  SiteRots <- R0
  Masses <- D_Mass
  Inertias <- K_Inr1
  IPoss <- K_IPos1
  Arms <- One0
  Stiffs <- One0
  Refs <- One0
  Damps <- F_Damp1
  GCs <- One0
  TCoefs <- One0
  Qs <- One1
  Vs <- F_V1
  As <- F_A1
  QScales <- QS1
  Gravs <- K_G1
  DisSets <- F_Dis3
  TenK <- One0
  TenRanges <- Rng0
  TenDamps <- One0
  TenArms <- One0
  TenZero <- NoTz
  SpPairs <- NoSpS
  SpArms <- One0
  Sleeps <- NoTz
  StiffPolys <- P00
  DampPolys <- P00
  TenKPolys <- P00
  TenDPolys <- P00
  SpStiffs <- T000
  SpRanges <- Rng0
  SpDamps <- T000
  Level = 3
  Tie = FALSE
  Rand = FALSE
  Modes <- F_ModesAll
  XDis <- F_XDis
  HDens <- F_H4
  Motors <- F_Motor0
  XFrcs <- F_XF0
  RowKinds <- F_Rows
  Taus <- F_Taus1
  SolRefs <- F_SolRef1
  Imps <- F_Imp1
  Gaps <- F_Gaps2
  Flosses <- F_Floss1
  Solvers <- F_Newton
  Cones <- F_Cone0
  Jacobians <- F_Jac0
  DiagExact <- F_DxT
INVARIANT TypeOK
INVARIANT FTypeOK
INVARIANT InverseRecoversApplied
INVARIANT InverseRecoversForce
INVARIANT SplitAddsUp
INVARIANT RowAdmissible
INVARIANT DiscreteIsContinuousWithoutImplicitTerms
INVARIANT FlagsRemoveImplicitDamping
INVARIANT ImplicitFastDropsBiasDerivativeOnly
INVARIANT KaneIsRecursive
INVARIANT MPositiveDefinite
CHECK_DEADLOCK FALSE
