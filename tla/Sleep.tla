-------------------------------- MODULE Sleep --------------------------------
\* Sleep / wake logic of MuJoCo (src/engine/engine_sleep.c) as driven by ONE mj_step with mjENBL_SLEEP:
\*
\*   env      the user acts (changes qpos / qvel / applied force of one tree, or moves the mocap body - or a jointless
\*            body it carries - onto a tree),
\*            one contact between trees appears or disappears, one equality is (de)activated
\*   wake     mj_kinematics: mj_wake            - perturbed sleeping trees wake with their island, fully awake
\*   collide  mj_fwdPosition: mj_wakeCollision  - sweep over the first-pass contacts (pairs with an awake body) using
\*                                                the tree_awake flags of the START of the sweep; a sleeping tree
\*                                                touching an awake one wakes with its island and INHERITS the
\*                                                countdown of the awake tree; contact with the mocap body wakes fully
\*   weq      mj_wakeEquality                   - sweep over the active equalities, again with start-of-sweep flags
\*   sleep    mj_advance: mj_sleep              - countdown of every awake tree (velocity under tolerance, no applied
\*                                                force, policy), islands whose trees are all "ready" are put to
\*                                                sleep as one cycle (ascending tree order), then unconstrained trees
\*
\* The core of every phase is an operator over the array and the inputs of the phase (WakeCore, CollideCore, WeqCore,
\* SleepCore): Sleep.tla feeds them from its environment variables, SleepTrace.tla from the log of a real mj_step.
\* `ev` records, for the phase just executed, the array before, the inputs and the value the function must return:
\* checks/c18.py replays every dumped / simulated state into the real functions (harness/sleep_drv.cc).
EXTENDS SleepCore, TLC
CONSTANTS Eqs,        \* sequence of equalities <<x, y, kind>>, x, y \in Trees \cup {World, Mocap, Carried..}, kind \in EqKinds
                      \* (weld / connect, defined on bodies / on sites); each may be active from the start or switched
                      \* on and off at run time (eqact)
          Ground,     \* trees that touch the static world whenever they are awake (single-tree constraint)
          Never,      \* trees whose sleep policy is "never"
          NoIslands,  \* TRUE: mjDSBL_ISLAND (constraints without island structure: nothing may sleep)
          InitVals,   \* countdown values of the initial states
          Kinds       \* user actions explored, subset of {"qpos", "qvel", "force", "mocap", "carried"}
                      \* ("carried": the user moves the mocap body so that a geom of its jointless CHILD touches a tree)

VARIABLES ta,      \* mjData.tree_asleep
          geo,     \* set of tree pairs {x, y} whose geoms touch
          eqact,   \* eqact[k] : equality k is active (mjData.eq_active)
          user,    \* what the user did before this step
          frc,     \* tree with a non-zero applied force during this step (NoTree if none)
          mtouch,  \* [t, via]: tree touched during this step by the mocap body / a body it carries (t = NoTree if none)
          phase, ev
vars == <<ta, geo, eqact, user, frc, mtouch, phase, ev>>

Pairs   == {p \in SUBSET Trees : Cardinality(p) = 2}
NoUser  == [k |-> "none", t |-> NoTree]
NoTouch == [t |-> NoTree, via |-> Mocap]
Users   == {NoUser} \cup [k : Kinds, t : Trees]
Toggles == {<<"none", 0, 0>>} \cup {<<"geo", x, y>> : x, y \in Trees} \cup {<<"eq", k, 0>> : k \in 1..Len(Eqs)}
IsTree(z) == z \in Trees

\* ---------------------------------------------------------------------------------------------------------------
\* phase cores: pure functions of the array and the inputs of the phase
\* ---------------------------------------------------------------------------------------------------------------
\* mj_wakeCollision, one contact <<x, y>> (st = tree_awake at the start of the sweep)
ConStep(a, st, c) ==
  LET x == c[1]  y == c[2] IN
  IF ~IsTree(x) \/ ~IsTree(y)
  THEN LET t == IF IsTree(x) THEN x ELSE y
           b == IF IsTree(x) THEN y ELSE x
       IN IF IsTree(t) /\ ~st[t] /\ BodyClass(b) = "mocap-carried" THEN WakeIsland(a, t, KAwake) ELSE a
  ELSE IF st[x] = st[y] THEN a        \* both awake: nothing to do (both asleep: removed by the collision filter)
  ELSE LET sl == IF st[x] THEN y ELSE x
           aw == IF st[x] THEN x ELSE y
       IN WakeIsland(a, sl, a[aw])
RECURSIVE ConFold(_, _, _, _)
ConFold(a, st, s, k) == IF k > Len(s) THEN a ELSE ConFold(ConStep(a, st, s[k]), st, s, k + 1)
\* the collision filter: a pair is examined only if one of its bodies is awake (mocap: always, world: never)
BodyAwake(st, z) == IF IsTree(z) THEN st[z] ELSE BodyClass(z) = "mocap-carried"
FirstPass(s, st) == SelectSeq(s, LAMBDA c : BodyAwake(st, c[1]) \/ BodyAwake(st, c[2]))

\* mj_wakeEquality, one active equality <<x, y>>
SleepStateOf(st, z) == IF IsTree(z) THEN (IF st[z] THEN "awake" ELSE "asleep")
                       ELSE IF BodyClass(z) = "mocap-carried" THEN "awake" ELSE "static"
EqStep(a, st, e) ==
  LET x == e[1]  y == e[2]  s1 == SleepStateOf(st, x)  s2 == SleepStateOf(st, y) IN
  IF s1 # "asleep" /\ s2 # "asleep" THEN a
  ELSE IF s1 = "static" \/ s2 = "static" THEN a
  ELSE IF x = y THEN a
  ELSE IF s1 = "asleep" /\ s2 = "asleep"
       THEN IF CycleMin(a, x) # CycleMin(a, y)
            THEN WakeIsland(WakeIsland(a, x, KAwake), y, KAwake) ELSE a
       ELSE WakeIsland(a, IF s1 = "asleep" THEN x ELSE y, KAwake)
RECURSIVE EqFold(_, _, _, _, _)
EqFold(a, st, es, act, k) == IF k > Len(es) THEN a
                             ELSE EqFold(IF act[k] THEN EqStep(a, st, es[k]) ELSE a, st, es, act, k + 1)

\* mj_island restricted to what mj_sleep reads: components of the coupling among AWAKE trees
RECURSIVE Reach(_, _)
Reach(S, E) == LET S2 == S \cup UNION {e \in E : e \cap S # {}} IN IF S2 = S THEN S ELSE Reach(S2, E)
Edges(a, cpl)          == {p \in cpl : p \subseteq AwakeSet(a)}
Constrained(a, cpl, sg) == {t \in AwakeSet(a) : t \in sg \/ \E p \in Edges(a, cpl) : t \in p}
Group(a, cpl, sg, t)   == IF t \in Constrained(a, cpl, sg) THEN Reach({t}, Edges(a, cpl)) ELSE {t}
\* mjData.tree_island: islands numbered by their smallest tree, -1 for trees without constraints
TreeIsland(a, cpl, sg) ==
  LET con == Constrained(a, cpl, sg)
      rep == [t \in Trees |-> SetMin(Group(a, cpl, sg, t))]
  IN [t \in Trees |-> IF t \in con THEN Cardinality({rep[u] : u \in {w \in con : rep[w] < rep[t]}}) ELSE -1]
Countdown(a, q) == [t \in Trees |-> IF a[t] >= 0 THEN a[t]
                                    ELSE IF t \in q THEN (IF a[t] < -1 THEN a[t] + 1 ELSE a[t]) ELSE KAwake]
\* mj_sleep: q = trees that can sleep now, cpl = coupled tree pairs, sg = trees with a single-tree constraint
SleepResult(a, q, cpl, sg, noisl) ==
  IF noisl /\ Constrained(a, cpl, sg) # {} THEN a       \* constraints but no island structure: nothing happens
  ELSE LET a4  == Countdown(a, q)
           grp == [t \in Trees |-> IF noisl THEN {t} ELSE Group(a, cpl, sg, t)]
           sl  == {t \in AwakeSet(a) : \A u \in grp[t] : a4[u] = -1}
       IN [t \in Trees |-> IF t \in sl THEN NextIn(grp[t], t) ELSE a4[t]]

\* ---------------------------------------------------------------------------------------------------------------
\* what the property demands of the observable state (used as invariants here and on recorded steps in SleepTrace)
\* ---------------------------------------------------------------------------------------------------------------
\* moved = trees whose qpos bits changed during the step, pq = trees whose qpos the user changed before it
FrozenOK(before, after, pq, moved) == \A t \in Trees : (before[t] >= 0 /\ after[t] >= 0 /\ t \notin pq) => t \notin moved
\* nzv = trees with a non-zero qvel entry after the step
ZeroVelOK(after, nzv) == \A t \in Trees : after[t] >= 0 => t \notin nzv

\* ---------------------------------------------------------------------------------------------------------------
\* the step
\* ---------------------------------------------------------------------------------------------------------------
Init == /\ ta \in [Trees -> InitVals] /\ geo = {}
        /\ eqact \in [1..Len(Eqs) -> BOOLEAN]
        /\ user = NoUser /\ frc = NoTree /\ mtouch = NoTouch /\ phase = "env" /\ ev = [ph |-> "init"]

Env(u, tg) ==
  /\ phase = "env"
  /\ user' = IF u.k \in {"qpos", "qvel", "force"} THEN u ELSE NoUser
  /\ frc' = IF u.k = "force" THEN u.t ELSE NoTree
  /\ mtouch' = IF u.k = "mocap" THEN [t |-> u.t, via |-> Mocap]
               ELSE IF u.k = "carried" THEN [t |-> u.t, via |-> Carried] ELSE NoTouch
  /\ IF tg[1] = "geo"
     THEN /\ tg[2] < tg[3]
          \* a contact appears / disappears only if one of the trees can move (awake, or repositioned by the user)
          /\ \E t \in {tg[2], tg[3]} : ta[t] < 0 \/ (u.k = "qpos" /\ u.t = t)
          /\ geo' = IF {tg[2], tg[3]} \in geo THEN geo \ {{tg[2], tg[3]}} ELSE geo \cup {{tg[2], tg[3]}}
          /\ UNCHANGED eqact
     ELSE IF tg[1] = "eq" THEN eqact' = [eqact EXCEPT ![tg[2]] = ~@] /\ UNCHANGED geo
     ELSE UNCHANGED <<geo, eqact>>
  /\ phase' = "wake" /\ ev' = [ph |-> "env"] /\ UNCHANGED ta

\* mj_wake: P = sleeping-or-not trees the user touched (how: which of qpos / qvel / force was changed)
WakeCore(P, how) ==
  /\ phase = "wake"
  /\ ta' = WakeSet(ta, P)
  /\ ev' = [ph |-> "wake", before |-> Sq(ta), after |-> Sq(ta'), P |-> P, how |-> how, ret |-> NewlyAwake(ta, ta')]
  /\ phase' = "collide"
Wake == /\ WakeCore(IF user.k = "none" THEN {} ELSE {user.t}, user.k)
        /\ user' = NoUser /\ UNCHANGED <<geo, eqact, frc, mtouch>>

\* contacts of this step in the order the collision driver lists them (world body first, mocap body last)
RECURSIVE SetToSeq(_)
SetToSeq(S) == IF S = {} THEN << >> ELSE LET m == SetMin(S) IN <<m>> \o SetToSeq(S \ {m})
PairSeq(S) == LET code == {SetMin(p) * NT + SetMax(p) : p \in S}
                  cs == SetToSeq(code)
              IN [i \in 1..Len(cs) |-> <<cs[i] \div NT, cs[i] % NT>>]
Reverse(s) == [i \in 1..Len(s) |-> s[Len(s) + 1 - i]]
AllContacts == [i \in 1..Len(SetToSeq(Ground)) |-> <<World, SetToSeq(Ground)[i]>>]
               \o PairSeq(geo)
               \o (IF mtouch.t = NoTree THEN << >> ELSE << <<mtouch.t, mtouch.via>> >>)
\* mj_wakeCollision over the given contact sequence (already filtered to the first pass)
CollideCore(con) ==
  /\ phase = "collide"
  /\ ta' = ConFold(ta, Flags(ta), con, 1)
  /\ ev' = [ph |-> "collide", before |-> Sq(ta), after |-> Sq(ta'), con |-> con, ret |-> NewlyAwake(ta, ta')]
  /\ phase' = "weq"
Collide(rev) == /\ LET fp == FirstPass(AllContacts, Flags(ta)) IN
                   /\ rev => Len(fp) >= 2
                   /\ CollideCore(IF rev THEN Reverse(fp) ELSE fp)
                /\ mtouch' = NoTouch /\ UNCHANGED <<geo, eqact, user, frc>>

WeqCore(es, act) ==
  /\ phase = "weq"
  /\ ta' = EqFold(ta, Flags(ta), es, act, 1)
  /\ ev' = [ph |-> "weq", before |-> Sq(ta), after |-> Sq(ta'), eqs |-> es, act |-> act, ret |-> NewlyAwake(ta, ta')]
  /\ phase' = "sleep"
WakeEq == WeqCore(Eqs, eqact) /\ UNCHANGED <<geo, eqact, user, frc, mtouch>>

\* coupling seen by mj_island in this step
EqPairs   == {{Eqs[k][1], Eqs[k][2]} : k \in {j \in 1..Len(Eqs) : eqact[j] /\ IsTree(Eqs[j][1]) /\ IsTree(Eqs[j][2])
                                                                  /\ Eqs[j][1] # Eqs[j][2]}}
EqSingles == {t \in Trees : \E k \in 1..Len(Eqs) : eqact[k] /\ t \in {Eqs[k][1], Eqs[k][2]}
                                                   /\ (~IsTree(Eqs[k][1]) \/ ~IsTree(Eqs[k][2]))}
SleepCore(q, cpl, sg, noisl) ==
  /\ phase = "sleep"
  /\ ta' = SleepResult(ta, q, cpl, sg, noisl)
  /\ ev' = [ph |-> "sleep", before |-> Sq(ta), after |-> Sq(ta'), quiet |-> q, frc |-> frc, isl |-> Sq(TreeIsland(ta, cpl, sg)),
            nisl |-> IF noisl THEN 0 ELSE Cardinality({TreeIsland(ta, cpl, sg)[t] : t \in Constrained(ta, cpl, sg)}),
            nefc |-> IF Constrained(ta, cpl, sg) = {} THEN 0 ELSE 1,
            ret |-> Cardinality({t \in Trees : ta[t] < 0 /\ ta'[t] >= 0}),
            moved |-> AwakeSet(ta'), nzv |-> AwakeSet(ta')]
  /\ phase' = "env"
CanBeQuiet == AwakeSet(ta) \ (Never \cup {frc})
SleepPhase(q) == /\ phase = "sleep"
                 /\ SleepCore(q, geo \cup EqPairs, Ground \cup EqSingles, NoIslands)
                 /\ frc' = NoTree /\ UNCHANGED <<geo, eqact, user, mtouch>>

SleepAny == \E q \in SUBSET CanBeQuiet : SleepPhase(q)
Next == \/ \E u \in Users, tg \in Toggles : Env(u, tg)
        \/ Wake
        \/ \E rev \in BOOLEAN : Collide(rev)
        \/ WakeEq
        \/ SleepAny
Spec == Init /\ [][Next]_vars

\* ---------------------------------------------------------------------------------------------------------------
\* properties
\* ---------------------------------------------------------------------------------------------------------------
TypeOK == /\ \A t \in Trees : ta[t] \in KAwake..(NT - 1)
          /\ \A k \in 1..Len(Eqs) : Eqs[k][3] \in EqKinds
          /\ geo \subseteq Pairs /\ phase \in {"env", "wake", "collide", "weq", "sleep"}
\* the array always encodes closed cycles of sleeping trees (at every phase boundary)
CyclesClosed == Closed(ta)
\* a sleeping island wakes as a whole
WakeWhole == [][\A t \in Trees : (ta[t] >= 0 /\ ta'[t] < 0) => \A u \in Cycle(ta, t) : ta'[u] < 0]_vars
\* a sleeping tree's entry changes only by waking
CyclesStable == [][\A t \in Trees : (ta[t] >= 0 /\ ta'[t] >= 0) => ta'[t] = ta[t]]_vars
\* trees fall asleep only in mj_sleep, only when ready, quiet and allowed, and a new cycle is exactly one island
\* (or one unconstrained tree)
SleepsAsIsland ==
  [][\A t \in Trees : (ta[t] < 0 /\ ta'[t] >= 0) =>
        /\ ev'.ph = "sleep"
        /\ LET i == ev'.isl[t + 1]
               island == IF i >= 0 /\ ~NoIslands THEN {u \in Trees : ev'.isl[u + 1] = i} ELSE {t}
           IN /\ Cycle(ta', t) = island
              /\ \A u \in island : ta[u] \in {-2, -1} /\ u \in ev'.quiet /\ u \notin Never /\ u # frc]_vars
\* countdown: one step towards -1 per quiet step, back to fully awake otherwise; wake sweeps never raise it
CountdownRule ==
  [][\A t \in Trees : (ta[t] < 0 /\ ta'[t] < 0) =>
        IF ev'.ph = "sleep"
        THEN \/ ta'[t] = ta[t]                                   \* no island structure, or already ready
             \/ (t \in ev'.quiet /\ ta'[t] = ta[t] + 1)
             \/ (t \notin ev'.quiet /\ ta'[t] = KAwake)
        ELSE ta'[t] <= ta[t]]_vars
\* a sleeping island wakes when the user changes its qpos, qvel or applied forces ...
WakeOnPerturbation ==
  [][ev'.ph = "wake" => \A t \in ev'.P : ta'[t] < 0 /\ (ta[t] >= 0 => \A u \in Cycle(ta, t) : ta'[u] = KAwake)]_vars
\* ... when it touches an awake tree (or the mocap body) ...
WakeOnTouch ==
  [][ev'.ph = "collide" => \A k \in 1..Len(ev'.con) :
        LET x == ev'.con[k][1]  y == ev'.con[k][2] IN
        /\ (IsTree(x) /\ IsTree(y)) => (ta'[x] < 0 /\ ta'[y] < 0)
        /\ (IsTree(x) /\ BodyClass(y) = "mocap-carried") => ta'[x] < 0
        /\ (IsTree(y) /\ BodyClass(x) = "mocap-carried") => ta'[y] < 0]_vars
\* ... or is constrained to an awake tree (or to the mocap body, or to another sleeping island) by an active equality,
\* whatever its kind (weld / connect, between bodies / between sites) and whenever it was activated
WakeOnEquality ==
  [][ev'.ph = "weq" => \A k \in 1..Len(Eqs) : eqact[k] =>
        LET x == Eqs[k][1]  y == Eqs[k][2] IN
        /\ (IsTree(x) /\ IsTree(y) /\ x # y) =>
              /\ (ta'[x] < 0) = (ta'[y] < 0)
              /\ ta'[x] >= 0 => Cycle(ta', x) = Cycle(ta', y)
        /\ (IsTree(x) /\ BodyClass(y) = "mocap-carried") => ta'[x] < 0
        /\ (IsTree(y) /\ BodyClass(x) = "mocap-carried") => ta'[y] < 0]_vars
\* when mj_island runs no constraint couples an awake tree with a sleeping one (mj_sleep relies on it)
NoMixedCoupling == phase = "sleep" => \A p \in geo \cup EqPairs : \A x, y \in p : (ta[x] < 0) = (ta[y] < 0)
\* touching sleeping trees belong to the same island
TouchingSleepersShareCycle ==
  phase = "env" => \A p \in geo : \A x, y \in p : (ta[x] >= 0 /\ ta[y] >= 0) => Cycle(ta, x) = Cycle(ta, y)
\* sleeping trees are frozen: qpos untouched and qvel zero (mj_advance integrates awake trees only)
Frozen  == [][ev'.ph = "sleep" => FrozenOK(ta, ta', {}, ev'.moved) /\ ZeroVelOK(ta', ev'.nzv)]_vars
ViewNoEv == <<ta, geo, eqact, user, frc, mtouch, phase>>
\* same, but a state reached by a phase that woke / slept trees is kept apart from the same state reached by a no-op:
\* the dumped representatives then include the transitions that change the array
ViewRet  == <<ta, geo, eqact, user, frc, mtouch, phase, IF ev.ph \in {"wake", "collide", "weq", "sleep"} THEN ev.ret ELSE 0>>
\* ---- constants for the configurations
NoEqs    == << >>
MC_Eqs1  == << <<0, 1, ConnectSite>> >>
MC_Eqs2  == << <<0, 1, WeldSite>>, <<1, 2, ConnectBody>> >>
MC_Eqs3  == << <<1, 2, WeldBody>>, <<0, 1, ConnectSite>>, <<2, Mocap, WeldSite>> >>
MC_EqsW  == << <<0, 1, ConnectSite>>, <<1, World, WeldBody>> >>
Sim_Eqs  == << <<1, 2, WeldSite>>, <<0, 1, ConnectBody>>, <<3, Mocap, ConnectSite>>, <<2, World, WeldSite>>, <<4, Carried2, WeldBody>> >>
AllKinds == {"qpos", "qvel", "force", "mocap", "carried"}
KindsC   == {"qpos", "qvel", "force", "carried"}
KindsM   == {"qpos", "qvel", "force", "mocap"}
FewKinds == {"qpos", "mocap"}
Init_M1  == {-2}
Init_M2  == {-3}
Init_Real == {-11, -2, -1}
Init_Real1 == {-11}
Ground0  == {0}
Ground02 == {0, 2}
NoTrees  == {}
Never3   == {3}
=============================================================================
