----------------------------- MODULE ArenaStep -----------------------------
\* One mj_step seen from the arena: the ordered allocation sites of the step and what each does when the model's
\* declared memory is too small (engine_collision_driver.c, engine_core_constraint.c, engine_island.c, engine_memory.c).
\*
\*   arena (grows up, `parena`)  : candidate geom pairs (pushPairArena), contacts, efc_* arrays, island arrays
\*   stack (grows down, `pstack`): broadphase buffer, narrowphase buffers, island scratch, solver vectors
\*
\* Sizes are abstract units; the capacity and the demand profile are chosen in the initial state, so one TLC run
\* covers every capacity from zero to "everything fits" for every profile.  Documented failure actions:
\*   stack site does not fit        -> mju_error "stack overflow"  (catchable; mj_resetData recovers)
\*   pair buffer does not fit       -> mjERROR "arena too small to allocate geom pair"
\*   contact batch does not fit     -> warning CONTACTFULL, the batch is dropped (truncated contact list)
\*   efc arrays do not fit          -> warning CNSTRFULL, nefc = 0, no contact keeps an efc address
\*   island arrays do not fit       -> warning CNSTRFULL, nefc = 0, nisland = 0, no contact keeps an efc address
\*   dual-solver matrices (mj_projectConstraint -> mj_makeY: efc_Y_rownnz/rowadr, then efc_Y + efc_Y_colind;
\*   mj_makeAR: efc_AR_rownnz/rowadr, then efc_AR + efc_AR_colind; only for PGS / noslip) do not fit
\*                                  -> warning CNSTRFULL, mj_clearEfc: nefc = 0, nisland = 0, arena rewound to the contacts
\* The constants PairChecked / IslandClears select the INTENDED behaviour (TRUE) or the code as it stands (FALSE:
\* pushPairArena tests its argument instead of the returned pointer; clearIsland zeroes nefc but leaves the
\* contacts' efc addresses).  The intended specification is the oracle of the trace validation (ArenaStepTrace).
EXTENDS Integers, Sequences, FiniteSets, TLC
CONSTANTS CapMax,        \* capacities 0..CapMax
          Profiles,      \* set of demand profiles (records, see P_* below)
          MaxSteps,      \* number of consecutive steps
          PairChecked,   \* pushPairArena checks the pointer it got
          IslandClears,  \* a failed island allocation also clears the contacts' efc addresses
          DualChecked    \* mj_makeAR checks BOTH pointers of its (efc_AR, efc_AR_colind) pair of allocations

\* unit costs
BroadStk == 1    PairSz == 1    NarrowStk == 1    ConSz == 2    RowSz == 1    IslStk == 1    IslSz == 1    SolveStk == 2
FrameSz == 1     \* the outermost mark of the step
YIdx == 1    YVal == 1    YCol == 1    ARStk == 1    AIdx == 1    AVal == 2    ACol == 1     \* dual-solver matrices

VARIABLES cap, prof,          \* chosen initially
          pc,                 \* allocation site reached
          parena, pstack,
          npair, batch,       \* pairs pushed, next contact batch
          ncon, nefc, nisl,   \* counts as in mjData
          incl,               \* contacts whose efc_address >= 0
          wcon, wcns,         \* warnings raised during this step
          err,                \* "none" or the error raised
          deref,              \* ghost: a failed allocation was dereferenced
          steps, obs
vars == <<cap, prof, pc, parena, pstack, npair, batch, ncon, nefc, nisl, incl, wcon, wcns, err, deref, steps, obs>>

Total(p) == LET S[i \in 0..Len(p.batches)] == IF i = 0 THEN 0 ELSE S[i - 1] + p.batches[i] IN S[Len(p.batches)]
Rows(p, n) == p.percon * n + p.fixed            \* constraint rows for n contacts
StackFits(n) == pstack + n <= cap - parena
ArenaFits(n) == parena + n <= cap - pstack
NoObs == [kind |-> "none"]

Init == /\ cap \in 0..CapMax /\ prof = CHOOSE p \in Profiles : TRUE     \* re-chosen by every Begin
        /\ pc = "idle" /\ parena = 0 /\ pstack = 0 /\ npair = 0 /\ batch = 1
        /\ ncon = 0 /\ nefc = 0 /\ nisl = 0 /\ incl = 0 /\ wcon = 0 /\ wcns = 0
        /\ err = "none" /\ deref = FALSE /\ steps = 0 /\ obs = NoObs

Raise(e) == /\ err' = e /\ pc' = "error"
            /\ obs' = [kind |-> "error", err |-> e, apart |-> parena + pstack <= cap]   \* (Apart: always TRUE)
Keep(vs) == UNCHANGED vs

\* mj_makeData on an empty arena raises an error
NoArena == /\ pc = "idle" /\ steps = 0 /\ cap = 0 /\ Raise("noarena")
           /\ Keep(<<cap, prof, parena, pstack, npair, batch, ncon, nefc, nisl, incl, wcon, wcns, deref, steps>>)

\* mj_step begins: mj_collision resets the contact list, the arena and the efc arrays
Begin == /\ pc = "idle" /\ cap > 0 /\ steps < MaxSteps
         /\ steps' = steps + 1 /\ wcon' = 0 /\ wcns' = 0
         /\ ncon' = 0 /\ nefc' = 0 /\ nisl' = 0 /\ incl' = 0 /\ parena' = 0 /\ npair' = 0 /\ batch' = 1
         /\ IF FrameSz <= cap THEN pstack' = FrameSz /\ pc' = "broad" /\ obs' = NoObs /\ Keep(<<err>>)
            ELSE Raise("stackoverflow") /\ Keep(<<pstack>>)
         /\ prof' \in Profiles                 \* what a step needs depends on the state it starts from
         /\ Keep(<<cap, deref>>)

\* broadphase buffer on the stack
Broad == /\ pc = "broad"
         /\ IF StackFits(BroadStk)
            THEN pstack' = pstack + BroadStk /\ pc' = "pairs" /\ Keep(<<err, obs>>)
            ELSE Raise("stackoverflow") /\ Keep(<<pstack>>)
         /\ Keep(<<cap, prof, parena, npair, batch, ncon, nefc, nisl, incl, wcon, wcns, deref, steps>>)

\* pushPairArena, once per candidate pair
PushPair == /\ pc = "pairs" /\ npair < prof.npairs
            /\ IF ArenaFits(PairSz)
               THEN parena' = parena + PairSz /\ npair' = npair + 1 /\ Keep(<<pc, err, deref, obs>>)
               ELSE IF PairChecked
                    THEN Raise("pairarena") /\ Keep(<<parena, npair, deref>>)
                    ELSE /\ deref' = TRUE /\ pc' = "crash" /\ obs' = [kind |-> "crash"]     \* *new_pair = *pair with new_pair = NULL
                         /\ Keep(<<parena, npair, err>>)
            /\ Keep(<<cap, prof, pstack, batch, ncon, nefc, nisl, incl, wcon, wcns, steps>>)

\* all pairs pushed: the broadphase frame is freed, the pair buffer moves to the stack, the arena is rewound
Narrow == /\ pc = "pairs" /\ npair = prof.npairs
          /\ LET ps == FrameSz IN
             IF ps + NarrowStk <= cap - ncon * ConSz
             THEN pstack' = ps + NarrowStk /\ parena' = ncon * ConSz /\ pc' = "contacts" /\ Keep(<<err, obs>>)
             ELSE Raise("stackoverflow") /\ Keep(<<pstack, parena>>)
          /\ Keep(<<cap, prof, npair, batch, ncon, nefc, nisl, incl, wcon, wcns, deref, steps>>)

\* one batch of contacts: allocated as a whole or dropped with a warning
Contacts == /\ pc = "contacts" /\ batch <= Len(prof.batches)
            /\ LET n == prof.batches[batch] IN
               IF ArenaFits(n * ConSz)
               THEN ncon' = ncon + n /\ parena' = parena + n * ConSz /\ Keep(<<wcon>>)
               ELSE wcon' = wcon + 1 /\ Keep(<<ncon, parena>>)
            /\ batch' = batch + 1
            /\ Keep(<<cap, prof, pc, pstack, npair, nefc, nisl, incl, wcns, err, deref, steps, obs>>)

\* mj_makeConstraint: efc arrays for all rows, or none
MakeCon == /\ pc = "contacts" /\ batch > Len(prof.batches)
           /\ pstack' = FrameSz /\ pc' = "island"
           /\ LET rows == Rows(prof, ncon) IN
              IF rows = 0 THEN Keep(<<nefc, incl, parena, wcns>>)
              ELSE IF parena + rows * RowSz <= cap - FrameSz
                   THEN nefc' = rows /\ incl' = ncon /\ parena' = parena + rows * RowSz /\ Keep(<<wcns>>)
                   ELSE wcns' = wcns + 1 /\ nefc' = 0 /\ incl' = 0 /\ parena' = ncon * ConSz
           /\ Keep(<<cap, prof, npair, batch, ncon, nisl, wcon, err, deref, steps, obs>>)

\* mj_island: scratch on the stack, island arrays on the arena
Island == /\ pc = "island"
          /\ IF nefc = 0 \/ ~prof.islands
             THEN pc' = "projY" /\ Keep(<<nisl, nefc, incl, parena, wcns, err, obs>>)
             ELSE IF ~StackFits(IslStk)
                  THEN Raise("stackoverflow") /\ Keep(<<nisl, nefc, incl, parena, wcns>>)
                  ELSE IF parena + IslSz <= cap - (pstack + IslStk)
                       THEN nisl' = 1 /\ parena' = parena + IslSz /\ pc' = "projY" /\ Keep(<<nefc, incl, wcns, err, obs>>)
                       ELSE /\ wcns' = wcns + 1 /\ nefc' = 0 /\ nisl' = 0 /\ pc' = "projY"
                            /\ incl' = IF IslandClears THEN 0 ELSE incl
                            /\ Keep(<<parena, err, obs>>)
          /\ Keep(<<cap, prof, pstack, npair, batch, ncon, wcon, deref, steps>>)

\* mj_clearEfc after a failed allocation of a dual-solver matrix
ClearEfc == /\ wcns' = wcns + 1 /\ nefc' = 0 /\ nisl' = 0 /\ incl' = 0 /\ parena' = ncon * ConSz /\ pc' = "solve"

\* mj_makeY (dual solvers only): row index arrays, then values + column indices, each pair with one test
ProjY == /\ pc = "projY"
         /\ IF nefc = 0 \/ ~prof.dual
            THEN pc' = "solve" /\ Keep(<<nisl, nefc, incl, parena, wcns>>)
            ELSE IF ArenaFits(YIdx + YVal + YCol)
                 THEN parena' = parena + YIdx + YVal + YCol /\ pc' = "projA" /\ Keep(<<nisl, nefc, incl, wcns>>)
                 ELSE ClearEfc
         /\ Keep(<<cap, prof, pstack, npair, batch, ncon, wcon, err, deref, steps, obs>>)

\* mj_makeAR: transposed Y on the stack, row index arrays, then efc_AR followed by efc_AR_colind
ProjA == /\ pc = "projA"
         /\ IF ~StackFits(ARStk)
            THEN Raise("stackoverflow") /\ Keep(<<nisl, nefc, incl, parena, wcns, deref>>)
            ELSE LET room == cap - (pstack + ARStk) - parena IN
                 IF AIdx + AVal + ACol <= room
                 THEN parena' = parena + AIdx + AVal + ACol /\ pc' = "solve" /\ Keep(<<nisl, nefc, incl, wcns, err, deref, obs>>)
                 ELSE IF AIdx + AVal <= room /\ ~DualChecked
                      THEN /\ deref' = TRUE /\ pc' = "crash" /\ obs' = [kind |-> "crash"]   \* efc_AR_colind = NULL is written through
                           /\ Keep(<<nisl, nefc, incl, parena, wcns, err>>)
                      ELSE ClearEfc /\ Keep(<<err, deref, obs>>)
         /\ Keep(<<cap, prof, pstack, npair, batch, ncon, wcon, steps>>)

\* the rest of the step (solver vectors, integrator) on the stack; then every frame is freed
Solve == /\ pc = "solve"
         /\ IF StackFits(IF nefc > 0 THEN SolveStk ELSE 0)
            THEN /\ pstack' = 0 /\ pc' = "idle" /\ Keep(<<err>>)
                 /\ obs' = [kind |-> "done",
                            con  |-> IF ncon = Total(prof) THEN "full" ELSE IF ncon = 0 THEN "zero" ELSE "part",
                            wcon |-> wcon > 0, wcns |-> wcns > 0,
                            efc  |-> IF nefc = 0 THEN (IF Rows(prof, ncon) = 0 THEN "none" ELSE "zero") ELSE "match",
                            incl |-> IF incl = 0 THEN "zero" ELSE IF nefc = 0 THEN "stale" ELSE "all",
                            isl  |-> IF nisl = 0 THEN "zero" ELSE "pos",
                            bal  |-> TRUE, apart |-> parena <= cap]
            ELSE Raise("stackoverflow") /\ Keep(<<pstack>>)
         /\ Keep(<<cap, prof, parena, npair, batch, ncon, nefc, nisl, incl, wcon, wcns, deref, steps>>)

\* after a catchable error the documented recovery is mj_resetData
Reset == /\ pc = "error" /\ err # "noarena"
         /\ pc' = "idle" /\ err' = "none" /\ parena' = 0 /\ pstack' = 0 /\ ncon' = 0 /\ nefc' = 0 /\ nisl' = 0 /\ incl' = 0
         /\ obs' = [kind |-> "reset"]
         /\ Keep(<<cap, prof, npair, batch, wcon, wcns, deref, steps>>)

Next == NoArena \/ Begin \/ Broad \/ PushPair \/ Narrow \/ Contacts \/ MakeCon \/ Island \/ ProjY \/ ProjA \/ Solve \/ Reset
Spec == Init /\ [][Next]_vars

\* ---- the property -----------------------------------------------------------------------------------
TypeOK == /\ cap \in 0..CapMax /\ prof \in Profiles /\ deref \in BOOLEAN
          /\ pc \in {"idle", "broad", "pairs", "contacts", "island", "projY", "projA", "solve", "error", "crash"}
\* nothing is written outside the arena: the two regions never meet
Apart == parena >= 0 /\ pstack >= 0 /\ parena + pstack <= cap
\* a failed allocation is never dereferenced (no crash state)
NoDerefNull == ~deref /\ pc # "crash"
\* the constraint set is consistent after every allocation site
Consistent == /\ incl <= ncon /\ ncon <= Total(prof)
              /\ (incl > 0 => nefc > 0)                          \* a contact with an efc address has rows
              /\ (nefc > 0 => (nefc = Rows(prof, ncon) /\ incl = ncon))
              /\ (nisl > 0 => nefc > 0)
              /\ parena >= ncon * ConSz
\* truncation and warnings go together
WarnIffTruncated == (obs.kind = "done") =>
                       /\ (ncon < Total(prof)) <=> (wcon > 0)
                       /\ (nefc = 0 /\ Rows(prof, ncon) > 0) <=> (wcns > 0)
\* the step returns with the stack pointer it started with
Balanced == pc = "idle" => pstack = 0
\* the step always comes back to the caller: finished, or with a catchable error
Returns == (pc = "broad") ~> (pc \in {"idle", "error"})
FairSpec == Spec /\ WF_vars(Next)
\* with enough memory nothing is truncated
Enough == (obs.kind = "done" /\ cap >= prof.need) => (wcon = 0 /\ wcns = 0 /\ ncon = Total(prof))

\* ---- demand profiles (cfg files cannot hold records) ------------------------------------------------------
P(np, b, pc_, fx, isl, du, need) == [npairs |-> np, batches |-> b, percon |-> pc_, fixed |-> fx, islands |-> isl, dual |-> du, need |-> need]
\* need = a capacity at which everything fits: frame + max over the sites
Need(np, b, pc_, fx) ==
  LET t == Total([batches |-> b]) IN
  FrameSz + t * ConSz + (pc_ * t + fx) * RowSz + IslSz + IslStk + SolveStk + BroadStk + np * PairSz + NarrowStk
  + YIdx + YVal + YCol + ARStk + AIdx + AVal + ACol
Mk(np, b, pc_, fx, isl, du) == P(np, b, pc_, fx, isl, du, Need(np, b, pc_, fx))
ProfTrace == {Mk(np, b, 1, fx, isl, du) : np \in {0, 2}, b \in {<< >>, <<2>>, <<1, 1>>}, fx \in {0, 1}, isl \in BOOLEAN, du \in BOOLEAN}
ProfSmall == {Mk(2, <<2>>, 1, 0, TRUE, TRUE), Mk(2, <<1, 1>>, 2, 0, TRUE, FALSE), Mk(0, << >>, 1, 1, FALSE, TRUE)}
ProfAll   == {Mk(np, b, pc_, fx, isl, du) : np \in {0, 2, 3}, b \in {<< >>, <<2>>, <<1, 1>>, <<1, 2>>}, pc_ \in {1, 2},
                                            fx \in {0, 1}, isl \in BOOLEAN, du \in BOOLEAN}
=============================================================================
