------------------------------- MODULE BoxQP -------------------------------
\* Box-constrained quadratic programs  min 1/2 x'Hx + g'x,  lo <= x <= up  (mju_boxQP, engine_util_solve.c) on an
\* integer lattice: H = L L' with a small integer lower-triangular L (strong off-diagonal coupling), integer g, integer
\* bounds.  The specification SOLVES every instance exactly: it enumerates all 3^n labelings of the coordinates
\* (at the Lower bound, at the Upper bound, Free), solves the free block H_FF x_F = -(g_F + H_FC x_C) by Cramer's rule
\* (integer numerators over the common positive denominator det H_FF) and keeps the labelings that satisfy the
\* Karush-Kuhn-Tucker conditions STRICTLY (free coordinates strictly inside, multipliers of clamped coordinates of the
\* right strict sign).  Instances with exactly one such labeling are non-degenerate: the minimiser, the free set and its
\* size are then determined, and that is what mju_boxQP must return (point, return value = number of free dimensions,
\* index = free dimensions in increasing order), from a cold start and from warm starts.
\* TLC checks: the strict KKT labeling is unique, the KKT point beats every vertex of the box and the starting point
\* (exact rational comparison), and it is a fixed point of the projected Newton step.
\* ev.swap tells whether the path from the start to the solution has to EXCHANGE active coordinates at constant size (the
\* set clamped at the first iteration / hit by the projected unconstrained minimiser has the size of the optimal one
\* but is a different set): the replay requires such instances (vacuity guard).
EXTENDS Integers, Sequences, FiniteSets, TLC
CONSTANTS NSeeds,     \* instances per size
          Sizes,      \* problem sizes n
          Warms       \* starting points: "cold" (0), "corner" (the vertex opposite to g), "anti" (the vertex along g), "low" (all lower)

RECURSIVE Sum(_, _)
Sum(f, n) == IF n = 0 THEN 0 ELSE f[n] + Sum(f, n - 1)
RECURSIVE Det(_, _)
Minor(X, n, j) == [r \in 1..n - 1 |-> [c \in 1..n - 1 |-> X[r + 1][IF c < j THEN c ELSE c + 1]]]
Det(X, n) == IF n = 0 THEN 1 ELSE IF n = 1 THEN X[1][1]
             ELSE Sum([j \in 1..n |-> (IF j % 2 = 1 THEN 1 ELSE -1) * X[1][j] * Det(Minor(X, n, j), n - 1)], n)
SortedSeq(S, n) == SelectSeq([i \in 1..n |-> i], LAMBDA c : c \in S)

\* ---- the lattice: pseudo-random small integers from a seed ------------------------------------------------------------
Mix(s, k) == (s * 7919 + k * 104729 + s * s * 31 + k * k * 17 + s * k * 13) % 9973
Ent(s, k, lo, hi) == lo + (Mix(s, k) % (hi - lo + 1))
LMat(s) == << <<Ent(s, 1, 1, 2), 0, 0>>, <<Ent(s, 2, -2, 2), Ent(s, 3, 1, 2), 0>>, <<Ent(s, 4, -2, 2), Ent(s, 5, -2, 2), Ent(s, 6, 1, 2)>> >>
HMat(s, n) == [i \in 1..n |-> [j \in 1..n |-> Sum([k \in 1..n |-> LMat(s)[i][k] * LMat(s)[j][k]], n)]]
GVec(s, n) == [i \in 1..n |-> Ent(s, 10 + i, -6, 6)]
LoVec(s, n) == [i \in 1..n |-> -1 - (Mix(s, 20 + i) % 2)]         \* -1 or -2
UpVec(s, n) == [i \in 1..n |-> 1]

\* ---- exact solution for a labeling lab : 1..n -> {"L", "U", "F"} ---------------------------------------------------------
Free(lab, n) == {i \in 1..n : lab[i] = "F"}
ClampVal(lab, lo, up, i) == IF lab[i] = "L" THEN lo[i] ELSE up[i]
Solve(H, g, lo, up, n, lab) ==
  LET F   == Free(lab, n)
      idx == SortedSeq(F, n)
      k   == Len(idx)
      rhs == [a \in 1..k |-> -(g[idx[a]] + Sum([j \in 1..n |-> IF j \in F THEN 0 ELSE H[idx[a]][j] * ClampVal(lab, lo, up, j)], n))]
      M   == [a \in 1..k |-> [b \in 1..k |-> H[idx[a]][idx[b]]]]
      den == Det(M, k)
      num(a) == Det([r \in 1..k |-> [c \in 1..k |-> IF c = a THEN rhs[r] ELSE M[r][c]]], k)
      pos(i) == CHOOSE a \in 1..k : idx[a] = i
      X   == [i \in 1..n |-> IF i \in F THEN num(pos(i)) ELSE ClampVal(lab, lo, up, i) * den]
  IN [den |-> den, X |-> X, idx |-> idx]
\* gradient numerators over den
GradNum(H, g, n, sol) == [i \in 1..n |-> sol.den * g[i] + Sum([j \in 1..n |-> H[i][j] * sol.X[j]], n)]
StrictKKT(H, g, lo, up, n, lab) ==
  LET sol == Solve(H, g, lo, up, n, lab)
      G   == GradNum(H, g, n, sol)
  IN /\ sol.den > 0
     /\ \A i \in 1..n : CASE lab[i] = "F" -> lo[i] * sol.den < sol.X[i] /\ sol.X[i] < up[i] * sol.den
                          [] lab[i] = "L" -> G[i] > 0
                          [] OTHER        -> G[i] < 0
Labelings(n) == [1..n -> {"L", "U", "F"}]
Optimal(H, g, lo, up, n) == {lab \in Labelings(n) : StrictKKT(H, g, lo, up, n, lab)}
\* 2 den^2 (objective) of the point X / den, and den^2 * 2 (objective) of an integer point v
Obj2(H, g, n, X, den) == Sum([i \in 1..n |-> Sum([j \in 1..n |-> X[i] * H[i][j] * X[j]], n)], n) + 2 * den * Sum([i \in 1..n |-> g[i] * X[i]], n)

\* ---- starting points and first active sets -------------------------------------------------------------------------------------
Start(w, g, lo, up, n) == CASE w = "cold"   -> [i \in 1..n |-> 0]
                            [] w = "corner" -> [i \in 1..n |-> IF g[i] > 0 THEN lo[i] ELSE up[i]]
                            [] w = "anti"   -> [i \in 1..n |-> IF g[i] > 0 THEN up[i] ELSE lo[i]]
                            [] OTHER        -> lo
\* coordinates clamped at the first iteration: on a bound with the gradient pushing outwards
FirstClamped(H, g, lo, up, n, x0) ==
  {i \in 1..n : LET gr == g[i] + Sum([j \in 1..n |-> H[i][j] * x0[j]], n) IN (x0[i] = lo[i] /\ gr > 0) \/ (x0[i] = up[i] /\ gr < 0)}
\* coordinates where the unconstrained minimiser leaves the box
NewtonHits(H, g, lo, up, n) ==
  LET sol == Solve(H, g, lo, up, n, [i \in 1..n |-> "F"]) IN
  {i \in 1..n : sol.X[i] >= up[i] * sol.den \/ sol.X[i] <= lo[i] * sol.den}

VARIABLES inst, ev, nops
vars == <<inst, ev, nops>>
Valid(s, n) == Cardinality(Optimal(HMat(s, n), GVec(s, n), LoVec(s, n), UpVec(s, n), n)) = 1
Init == /\ \E s \in 1..NSeeds, n \in Sizes :
             /\ Valid(s, n)
             /\ inst = [seed |-> s, n |-> n, H |-> HMat(s, n), g |-> GVec(s, n), lo |-> LoVec(s, n), up |-> UpVec(s, n)]
        /\ ev = [op |-> "init"] /\ nops = 0

\* res := x0; ret := mju_boxQP(res, R, index, H, g, n, lo, up)
BoxQP(w) ==
  /\ nops = 0 /\ nops' = 1 /\ UNCHANGED inst
  /\ LET n   == inst.n
         lab == CHOOSE l \in Optimal(inst.H, inst.g, inst.lo, inst.up, n) : TRUE
         sol == Solve(inst.H, inst.g, inst.lo, inst.up, n, lab)
         x0  == Start(w, inst.g, inst.lo, inst.up, n)
         act == (1..n) \ Free(lab, n)
         c0  == FirstClamped(inst.H, inst.g, inst.lo, inst.up, n, x0)
         nh  == NewtonHits(inst.H, inst.g, inst.lo, inst.up, n)
     IN ev' = [op |-> "boxqp", warm |-> w, x0 |-> x0, in |-> inst,
               ret |-> [nfree |-> Len(sol.idx), index |-> [a \in 1..Len(sol.idx) |-> sol.idx[a] - 1], num |-> sol.X, den |-> sol.den],
               swap |-> \/ (Cardinality(c0) = Cardinality(act) /\ c0 # act /\ act # {})
                        \/ (c0 = {} /\ Cardinality(nh) = Cardinality(act) /\ nh # act /\ act # {})]
Next == \E w \in Warms : BoxQP(w)
Spec == Init /\ [][Next]_vars

\* ---- properties ------------------------------------------------------------------------------------------------------------------
Opt == Optimal(inst.H, inst.g, inst.lo, inst.up, inst.n)
TheSol == Solve(inst.H, inst.g, inst.lo, inst.up, inst.n, CHOOSE l \in Opt : TRUE)
UniqueKKT == Cardinality(Opt) = 1
\* H is symmetric positive definite (leading minors)
SPD == /\ \A i \in 1..inst.n : \A j \in 1..inst.n : inst.H[i][j] = inst.H[j][i]
       /\ \A k \in 1..inst.n : Det([a \in 1..k |-> [b \in 1..k |-> inst.H[a][b]]], k) > 0
\* the KKT point is at least as good as every vertex of the box and as the origin
BeatsVertices == LET n == inst.n  d == TheSol.den IN
  \A v \in [1..n -> {0, 1, 2}] :
     LET p == [i \in 1..n |-> IF v[i] = 0 THEN inst.lo[i] ELSE IF v[i] = 1 THEN inst.up[i] ELSE 0] IN
     Obj2(inst.H, inst.g, n, TheSol.X, d) <= Obj2(inst.H, inst.g, n, [i \in 1..n |-> p[i] * d], d)
\* inside the box
InBox == \A i \in 1..inst.n : inst.lo[i] * TheSol.den <= TheSol.X[i] /\ TheSol.X[i] <= inst.up[i] * TheSol.den
AllWarms == {"cold", "corner", "anti", "low"}
Sizes23 == {2, 3}
=============================================================================
