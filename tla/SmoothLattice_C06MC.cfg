SPECIFICATION Spec
CONSTANTS
  MinBodies = 1
  MaxBodies = 2
  JTypes <- AllJ
  Axes <- Ax13
  Offsets <- D_OffAx1
  Rots <- R0
  Anchors <- K_Anc1
  SitePos <- V000
  SiteRots <- K_SRot1
  Masses <- One1
  Inertias <- K_Inr1
  IPoss <- K_IPos1
  Arms <- One1
  Stiffs <- One0
  Refs <- One0
  Damps <- One0
  GCs <- One0
  TCoefs <- D_TC2
  Qs <- One0
  Vs <- D_V1
  As <- One1
  QScales <- QS1
  Gravs <- K_G1
  DisSets <- NoDis
  TenK <- One0
  TenRanges <- Rng0
  TenDamps <- One0
  TenArms <- D_TArm1
  TenZero <- BothTz
  SpPairs <- D_Sp1
  SpArms <- D_SpArm
  Sleeps <- NoTz
  StiffPolys <- P00
  DampPolys <- P00
  TenKPolys <- P00
  TenDPolys <- P00
  SpStiffs <- T000
  SpRanges <- Rng0
  SpDamps <- T000
  Level = 2
  Tie = FALSE
  Rand = FALSE
INVARIANT TypeOK
INVARIANT FramesProper
INVARIANT MSymmetric
INVARIANT MSparsity
INVARIANT MPositiveDefinite
INVARIANT KaneIsRecursive
INVARIANT RneIsMaPlusBias
INVARIANT KineticIsQuadratic
INVARIANT BiasAtRestIsGravity
INVARIANT SlideBiasVelFree
INVARIANT VelIsRecursive
INVARIANT SpatialJacIsDerivative
INVARIANT SpatialMassOK
CHECK_DEADLOCK FALSE
