SPECIFICATION Spec
CONSTANTS
  NT = 6
  MaxCons = 7
  MaxToggles = 4
  Kinds <- AllKinds
INVARIANT TypeOK
INVARIANT CodedMatches
INVARIANT IslandsAreComponents
INVARIANT RowsAndDofs
INVARIANT Ascending
INVARIANT MapsOK
CHECK_DEADLOCK FALSE
