SPECIFICATION Spec
CONSTANTS
  MaxNodes = 3
  MaxRewrites = 1
  Rewrs <- MC_ReplRw
  BaseRots <- MC_Rots1
  BasePos <- MC_Pos1
  FramePoses <- MC_FP1
  GeomOpts <- MC_G1
  BodyCCs <- MC_CC1
  JointOpts <- MC_J1
  ClassVals <- MC_V1
  ReplOpts <- MC_Repl1
  Bug = "none"
INVARIANT TypeOK
INVARIANT SameMeaning
INVARIANT NothingLost
INVARIANT DropsOnlyThose
INVARIANT EditApplied
CHECK_DEADLOCK FALSE
