SPECIFICATION TSpec
CONSTANTS
  MaxLen = 0
  Keys <- K7
  Runs <- TRuns
  Ops <- AllOps
  GenLens <- NoLens
  Seeds <- NoSeeds
  SeedLens <- NoLens
INVARIANT TypeOK
INVARIANT SortCorrect
INVARIANT PartialCorrect
INVARIANT InsertionCorrect
INVARIANT NoJunk
CONSTRAINT Track
POSTCONDITION Report
CHECK_DEADLOCK FALSE
