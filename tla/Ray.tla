------------------------------- MODULE Ray -------------------------------
\* Ray casting against primitive geoms on an integer lattice (src/engine/engine_ray.c: mj_ray, mj_multiRay,
\* mju_rayGeom).
\*
\* A scene is a forest of bodies (world = 0; "dyn" = slide joint along z, "static" = welded to its parent,
\* "mocap" = mocap child of the world) carrying geoms: planes (normal +z, infinite or finite rectangle),
\* spheres, axis-aligned boxes and upright capsules, all with integer centres and sizes.  Rays start at integer
\* points and run along a coordinate axis; the ray vector has length Len, and the API reports the parameter x
\* of the hit point pnt + x*vec, i.e. (geometric distance)/Len: a rational number.
\*
\* The specification states
\*   * the analytic hit of one ray with one geom (HitT: entry point if the origin is outside, exit point if it
\*     is inside, nothing if the line misses or the geom is behind),
\*   * the elimination rules (bodyexclude, invisible geoms, flg_static = geoms of bodies welded to the world,
\*     geomgroup), which do NOT mention collision attributes (contype/conaffinity) or the layout of bodies,
\*   * the result of a cast declaratively (Nearest: minimum over the surviving hits, -1 and no geom iff none)
\*     and operationally (a scan over the geoms with a strict "closer than best so far" update, one geom per
\*     step, as the implementation does), with the invariant that both agree,
\*   * mj_multiRay = the axis rays from one origin that are decidable on the lattice, each answered like a single
\*     cast.
\*
\* Named deviation that follows the code and the API comment rather than pure geometry:
\*   PlaneOneSided : a plane is hit only from its front side (ray going down onto it); it is invisible from below.
\* Kept off the lattice (guard Regular): origins on a surface, grazing rays, irrational hit distances.
EXTENDS Integers, Sequences, FiniteSets, TLC
CONSTANTS MaxBodies, MaxGeoms, MaxOps,
          BodyKinds,     \* subset of {"dyn", "static", "mocap"}
          Shapes,        \* set of <<type, a, b, c>>: "plane" half sizes a,b (0 = infinite); "sphere" radius a;
                         \*   "box" half sizes a,b,c; "capsule" radius a, half length b
          Centers,       \* set of <<x, y, z>> geom centres
          Looks,         \* subset of {"solid", "rgba0", "mat0", "matsolid"}
          GGroups,       \* geom groups (subset of 0..5)
          VisFlags,      \* subset of BOOLEAN: TRUE = contype = conaffinity = 0 ("visual" geom); never read by the rules
          Origins,       \* set of <<x, y, z>> ray origins
          Lens,          \* lengths of the ray vector (powers of two)
          Filters,       \* set of [groups, stat, bx]: groups = 6-tuple of 0/1 or << >> for a NULL geomgroup pointer,
                         \*   stat = flg_static, bx = bodyexclude (-1: none, 0: world, b: body b)
          Moves          \* set of z offsets for dyn/mocap bodies

VARIABLES bodies,   \* sequence of [parent, kind, off]
          geoms,    \* sequence of [body, shape, c, look, group, vis]
          phase,    \* "build" | "ready" | "scan"
          cur,      \* the cast being scanned: [o, d, len, f]
          k,        \* next geom of the scan
          best,     \* <<t, geom>> best so far (t = -1: none)
          nops, ev
vars == <<bodies, geoms, phase, cur, k, best, nops, ev>>

Dirs == << <<1, 1>>, <<1, -1>>, <<2, 1>>, <<2, -1>>, <<3, 1>>, <<3, -1>> >>
Other(ax) == IF ax = 1 THEN <<2, 3>> ELSE IF ax = 2 THEN <<1, 3>> ELSE <<1, 2>>
IAbs(i) == IF i < 0 THEN 0 - i ELSE i
RECURSIVE GCD(_, _)
GCD(a, b) == IF b = 0 THEN a ELSE GCD(b, a % b)
Rat(n, d) == LET g == GCD(IAbs(n), d) IN <<n \div g, d \div g>>
None == <<-1, 1>>
Skip == [dist |-> <<-2, 1>>, geoms |-> {}, hits |-> << >>]      \* direction not cast (not decidable on the lattice)
MaxRoot == 16
IsSquare(n) == \E r \in 0..MaxRoot : r * r = n
ISqrt(n) == CHOOSE r \in 0..MaxRoot : r * r = n

\* ---- kinematics ---------------------------------------------------------------------------------
RECURSIVE ZOff(_, _), Weld0(_, _)
ZOff(bs, b)  == IF b = 0 THEN 0 ELSE bs[b].off + ZOff(bs, bs[b].parent)
\* welded to the world: the body and all its ancestors have no joint and are not mocap
Weld0(bs, b) == IF b = 0 THEN TRUE ELSE bs[b].kind = "static" /\ Weld0(bs, bs[b].parent)
Pos(g) == <<g.c[1], g.c[2], g.c[3] + ZOff(bodies, g.body)>>

\* ---- one ray against one geom -------------------------------------------------------------------
\* half extent of the geom along the line of the ray, -1 if the line misses it (solids only)
HalfExt(g, o, d) ==
  LET c == Pos(g)  ax == d[1]  o2 == Other(ax)
      u == c[o2[1]] - o[o2[1]]
      v == c[o2[2]] - o[o2[2]]
      ty == g.shape[1]  a == g.shape[2]  b == g.shape[3]
  IN CASE ty = "sphere" -> LET disc == a * a - u * u - v * v IN IF disc > 0 THEN ISqrt(disc) ELSE -1
       [] ty = "box"    -> LET h == <<g.shape[2], g.shape[3], g.shape[4]>> IN
                           IF IAbs(u) < h[o2[1]] /\ IAbs(v) < h[o2[2]] THEN h[ax] ELSE -1
       [] ty = "capsule" -> IF ax = 3
                            THEN LET disc == a * a - u * u - v * v IN IF disc > 0 THEN b + ISqrt(disc) ELSE -1
                            ELSE \* horizontal ray: v is the height offset, u the lateral one
                                 LET e == IF IAbs(v) <= b THEN 0 ELSE IAbs(v) - b
                                     disc == a * a - u * u - e * e
                                 IN IF disc > 0 THEN ISqrt(disc) ELSE -1
       [] OTHER -> -1
\* parameter of the hit in units of the direction (before division by Len); -1 = no hit
HitT(g, o, d) ==
  LET c == Pos(g)  ax == d[1]  sg == d[2] IN
  IF g.shape[1] = "plane"
  THEN \* PlaneOneSided: only a ray travelling along -z that starts above the plane
       IF ax = 3 /\ sg = -1 /\ o[3] > c[3]
          /\ (g.shape[2] = 0 \/ IAbs(o[1] - c[1]) < g.shape[2])
          /\ (g.shape[3] = 0 \/ IAbs(o[2] - c[2]) < g.shape[3])
       THEN o[3] - c[3] ELSE -1
  ELSE LET s == HalfExt(g, o, d)  t0 == sg * (c[ax] - o[ax]) IN
       IF s < 0 THEN -1 ELSE IF t0 - s > 0 THEN t0 - s ELSE IF t0 + s > 0 THEN t0 + s ELSE -1
\* the pair (geom, ray) is decidable on the lattice: no grazing, origin not on the surface, rational distance
Regular(g, o, d) ==
  LET c == Pos(g)  ax == d[1]  sg == d[2]  o2 == Other(ax)
      u == c[o2[1]] - o[o2[1]]
      v == c[o2[2]] - o[o2[2]]
      t0 == sg * (c[ax] - o[ax])
      ty == g.shape[1]  a == g.shape[2]  b == g.shape[3]
      OffSurf(s) == s < 0 \/ (t0 - s # 0 /\ t0 + s # 0)
      Disc(x) == x # 0 /\ (x > 0 => IsSquare(x))
  IN CASE ty = "plane" -> o[3] # c[3] /\ (a > 0 => IAbs(o[1] - c[1]) # a) /\ (b > 0 => IAbs(o[2] - c[2]) # b)
       [] ty = "sphere" -> Disc(a * a - u * u - v * v) /\ OffSurf(HalfExt(g, o, d))
       [] ty = "box" -> LET h == <<g.shape[2], g.shape[3], g.shape[4]>> IN
                        IAbs(u) # h[o2[1]] /\ IAbs(v) # h[o2[2]] /\ OffSurf(HalfExt(g, o, d))
       [] ty = "capsule" -> (IF ax = 3 THEN Disc(a * a - u * u - v * v)
                             ELSE LET e == IF IAbs(v) <= b THEN 0 ELSE IAbs(v) - b IN Disc(a * a - u * u - e * e))
                            /\ OffSurf(HalfExt(g, o, d))
       [] OTHER -> FALSE

\* ---- elimination --------------------------------------------------------------------------------
Invisible(g) == g.look \in {"rgba0", "mat0"}
Elim(g, f) == \/ g.body = f.bx
              \/ Invisible(g)
              \/ (~f.stat /\ Weld0(bodies, g.body))
              \/ (f.groups # << >> /\ f.groups[g.group + 1] = 0)

\* ---- the result of a cast, declaratively ----------------------------------------------------------
Cands(o, d, f) == {i \in 1..Len(geoms) : ~Elim(geoms[i], f) /\ HitT(geoms[i], o, d) >= 0}
MinT(o, d, f)  == LET C == Cands(o, d, f) IN
                  IF C = {} THEN -1
                  ELSE HitT(geoms[CHOOSE i \in C : \A j \in C : HitT(geoms[i], o, d) <= HitT(geoms[j], o, d)], o, d)
Nearest(o, d, len, f) ==
  LET t == MinT(o, d, f) IN
  [dist  |-> IF t < 0 THEN None ELSE Rat(t, len),
   geoms |-> {i \in Cands(o, d, f) : HitT(geoms[i], o, d) = t},
   hits  |-> [i \in 1..Len(geoms) |-> LET h == HitT(geoms[i], o, d) IN IF h < 0 THEN None ELSE Rat(h, len)]]
AllRegular(o, d) == \A i \in 1..Len(geoms) : Regular(geoms[i], o, d)

\* ---- actions ------------------------------------------------------------------------------------
\* Scene construction and casts are split into short phases with few choices each (a geom: shape, then centre,
\* then attributes; a cast: origin, then direction and length, then filter, then one step per geom).
Init == /\ bodies = << >> /\ geoms = << >> /\ phase = "build" /\ cur = [o |-> <<0, 0, 0>>] /\ k = 0
        /\ best = <<-1, 0>> /\ nops = 0 /\ ev = [op |-> "init"]

LastBodyHasGeom == IF Len(bodies) = 0 THEN TRUE ELSE \E i \in 1..Len(geoms) : geoms[i].body = Len(bodies)

AddBody(p, kd) ==
  /\ phase = "build" /\ Len(bodies) < MaxBodies /\ Len(geoms) < MaxGeoms /\ p \in 0..Len(bodies)
  /\ (IF kd = "mocap" THEN p = 0 ELSE TRUE)
  /\ LastBodyHasGeom = TRUE          \* geoms are added body by body
  /\ bodies' = Append(bodies, [parent |-> p, kind |-> kd, off |-> 0])
  /\ ev' = [op |-> "body"]
  /\ UNCHANGED <<geoms, phase, cur, k, best, nops>>

NewGeom(sh) ==
  /\ phase = "build" /\ Len(geoms) < MaxGeoms
  \* planes only on bodies without degrees of freedom (compiler rule)
  /\ (IF sh[1] # "plane" THEN TRUE ELSE IF Weld0(bodies, Len(bodies)) THEN TRUE ELSE bodies[Len(bodies)].kind = "mocap")
  /\ phase' = "place" /\ cur' = [shape |-> sh] /\ ev' = [op |-> "shape"]
  /\ UNCHANGED <<bodies, geoms, k, best, nops>>
PlaceGeom(c) ==
  /\ phase = "place" /\ phase' = "dress" /\ cur' = [shape |-> cur.shape, c |-> c] /\ ev' = [op |-> "place"]
  /\ UNCHANGED <<bodies, geoms, k, best, nops>>
DressGeom(lk, gr, vs) ==
  /\ phase = "dress" /\ phase' = "build"
  /\ geoms' = Append(geoms, [body |-> Len(bodies), shape |-> cur.shape, c |-> cur.c, look |-> lk, group |-> gr, vis |-> vs])
  /\ ev' = [op |-> "geom"]
  /\ UNCHANGED <<bodies, cur, k, best, nops>>

Compile == /\ phase = "build" /\ Len(geoms) > 0 /\ LastBodyHasGeom = TRUE
           /\ phase' = "ready" /\ ev' = [op |-> "compile"]
           /\ UNCHANGED <<bodies, geoms, cur, k, best, nops>>

Step == nops < MaxOps /\ nops' = nops + 1

\* qpos of the slide joint / mocap_pos, followed by mj_forward
Move(b, z) ==
  /\ phase = "ready" /\ Step /\ b \in 1..Len(bodies) /\ bodies[b].kind \in {"dyn", "mocap"} /\ bodies[b].off # z
  /\ bodies' = [bodies EXCEPT ![b].off = z]
  /\ ev' = [op |-> "move", body |-> b, z |-> z]
  /\ UNCHANGED <<geoms, phase, cur, k, best>>

Aim(o) ==
  /\ phase = "ready" /\ Step /\ phase' = "dir" /\ cur' = [o |-> o] /\ ev' = [op |-> "aim"]
  /\ UNCHANGED <<bodies, geoms, k, best>>
\* one ray (mj_ray) ...
Direct(i, len) ==
  /\ phase = "dir" /\ AllRegular(cur.o, Dirs[i]) = TRUE     \* "= TRUE": evaluated as an expression, not as an action
  /\ phase' = "filter" /\ cur' = [o |-> cur.o, d |-> Dirs[i], len |-> len, multi |-> FALSE] /\ ev' = [op |-> "dir"]
  /\ UNCHANGED <<bodies, geoms, k, best, nops>>
\* ... or several axis rays at once (mj_multiRay): all directions that are decidable from this origin
DirectAll(len) ==
  /\ phase = "dir" /\ (\E i \in 1..6 : AllRegular(cur.o, Dirs[i])) = TRUE
  /\ phase' = "filter" /\ cur' = [o |-> cur.o, d |-> Dirs[1], len |-> len, multi |-> TRUE] /\ ev' = [op |-> "dir"]
  /\ UNCHANGED <<bodies, geoms, k, best, nops>>
Filter(f) ==
  /\ phase = "filter" /\ f.bx <= Len(bodies)
  /\ cur' = [o |-> cur.o, d |-> cur.d, len |-> cur.len, f |-> f]
  /\ IF cur.multi THEN phase' = "multi" /\ UNCHANGED <<k, best>>
                  ELSE phase' = "scan" /\ k' = 1 /\ best' = <<-1, 0>>
  /\ ev' = [op |-> "begin"]
  /\ UNCHANGED <<bodies, geoms, nops>>
MultiEnd ==
  /\ phase = "multi" /\ phase' = "ready"
  /\ ev' = [op |-> "multi", o |-> cur.o, len |-> cur.len, f |-> cur.f,
            dirs |-> {i \in 1..6 : AllRegular(cur.o, Dirs[i])},
            res |-> [i \in 1..6 |-> IF AllRegular(cur.o, Dirs[i]) THEN Nearest(cur.o, Dirs[i], cur.len, cur.f) ELSE Skip]]
  /\ UNCHANGED <<bodies, geoms, cur, k, best, nops>>
\* the loop of mj_ray: one geom per step, strict improvement
ScanGeom ==
  /\ phase = "scan" /\ k <= Len(geoms)
  /\ LET t == HitT(geoms[k], cur.o, cur.d) IN
     best' = IF ~Elim(geoms[k], cur.f) /\ t >= 0 /\ (best[1] < 0 \/ t < best[1]) THEN <<t, k>> ELSE best
  /\ k' = k + 1 /\ ev' = [op |-> "scan"]
  /\ UNCHANGED <<bodies, geoms, phase, cur, nops>>
CastEnd ==
  /\ phase = "scan" /\ k > Len(geoms)
  /\ phase' = "ready"
  /\ ev' = [op |-> "ray", o |-> cur.o, d |-> cur.d, len |-> cur.len, f |-> cur.f,
            dist |-> IF best[1] < 0 THEN None ELSE Rat(best[1], cur.len), geom |-> best[2],
            geoms |-> Nearest(cur.o, cur.d, cur.len, cur.f).geoms,
            hits |-> Nearest(cur.o, cur.d, cur.len, cur.f).hits]
  /\ UNCHANGED <<bodies, geoms, cur, k, best, nops>>

MkFilters(masks, stats, bxs) == {[groups |-> gm, stat |-> st, bx |-> b] : gm \in masks, st \in stats, b \in bxs}

Build == \/ \E p \in 0..MaxBodies, kd \in BodyKinds : AddBody(p, kd)
         \/ \E sh \in Shapes : NewGeom(sh)
         \/ \E c \in Centers : PlaceGeom(c)
         \/ \E lk \in Looks, gr \in GGroups, vs \in VisFlags : DressGeom(lk, gr, vs)
         \/ Compile
Next == \/ Build
        \/ \E b \in 1..MaxBodies, z \in Moves : Move(b, z)
        \/ \E o \in Origins : Aim(o)
        \/ \E i \in 1..6, len \in Lens : Direct(i, len)
        \/ \E len \in Lens : DirectAll(len)
        \/ \E f \in Filters : Filter(f)
        \/ ScanGeom \/ CastEnd \/ MultiEnd
Spec == Init /\ [][Next]_vars
\* the same without single casts (simulation of mj_multiRay histories)
NextMulti == \/ Build
             \/ \E b \in 1..MaxBodies, z \in Moves : Move(b, z)
             \/ \E o \in Origins : Aim(o)
             \/ \E len \in Lens : DirectAll(len)
             \/ \E f \in Filters : Filter(f)
             \/ MultiEnd
SpecMulti == Init /\ [][NextMulti]_vars

\* ---- properties ---------------------------------------------------------------------------------
TypeOK == /\ phase \in {"build", "place", "dress", "ready", "dir", "filter", "scan", "multi"}
          /\ \A i \in 1..Len(geoms) : geoms[i].body \in 0..Len(bodies)
          /\ \A b \in 1..Len(bodies) : bodies[b].parent < b
\* the scan computes the declarative result (distance and one of the nearest geoms)
ScanIsNearest == ev.op = "ray" =>
                   /\ ev.dist = Nearest(ev.o, ev.d, ev.len, ev.f).dist
                   /\ (ev.geom = 0) = (ev.geoms = {})
                   /\ (ev.geom # 0 => ev.geom \in ev.geoms)
\* -1 with no geom exactly when no surviving geom is hit
MissIffNone == ev.op = "ray" => ((ev.dist = None) <=> (Cands(ev.o, ev.d, ev.f) = {})) /\ ((ev.dist = None) <=> (ev.geom = 0))
\* the reported hit is a hit of a surviving geom and no surviving geom is hit earlier
NearestSound == ev.op = "ray" /\ ev.geom # 0 =>
                  /\ ~Elim(geoms[ev.geom], ev.f)
                  /\ ev.hits[ev.geom] = ev.dist
                  /\ \A i \in Cands(ev.o, ev.d, ev.f) : HitT(geoms[ev.geom], ev.o, ev.d) <= HitT(geoms[i], ev.o, ev.d)
\* widening a filter can only bring the hit closer (or create one)
Widest == [groups |-> << >>, stat |-> TRUE, bx |-> -1]
FilterMonotone == ev.op = "ray" /\ ev.dist # None =>
                    LET w == MinT(ev.o, ev.d, Widest) IN w >= 0 /\ w <= MinT(ev.o, ev.d, ev.f)
\* mj_multiRay answers every ray like a single cast
MultiIsSingle == ev.op = "multi" => /\ ev.dirs # {}
                                     /\ \A i \in ev.dirs : ev.res[i] = Nearest(ev.o, Dirs[i], ev.len, ev.f)

\* negative control (Ray_Neg.cfg): a false claim that TLC must refute
NegAlwaysHit == ev.op = "ray" => ev.dist # None

\* ---- constants for the configurations -------------------------------------------------------------
\* Lattice: geom centres and ray origins have even coordinates, sizes are odd (capsule half lengths even), so
\* that almost no ray grazes a geom or starts on a surface; plane heights are odd for the same reason.
MC_Kinds == {"dyn", "static"}
MC_Shapes == {<<"sphere", 1, 0, 0>>, <<"box", 1, 3, 1>>, <<"capsule", 1, 2, 0>>, <<"plane", 0, 0, 0>>}
MC_Centers == {<<0, 0, 0>>, <<4, 0, -5>>}
MC_Looks == {"solid"}
MC_GGroups == {0, 1}
MC_Vis == {FALSE}
MC_Origins == {<<-6, 0, 0>>, <<0, 0, 0>>, <<4, 0, 6>>}
MC_Lens == {2}
MC_Filters == MkFilters({<< >>}, BOOLEAN, {-1}) \cup MkFilters({<<1, 0, 0, 0, 0, 0>>}, {TRUE}, {-1, 1})
MC_Moves == {2}

\* two geoms on one moving body: bounding volumes of multi-geom bodies, geoms without collision attributes
Pair_Kinds == {"dyn"}
Pair_Shapes == {<<"sphere", 1, 0, 0>>, <<"box", 1, 3, 1>>, <<"capsule", 1, 2, 0>>}
Pair_Centers == {<<0, 0, 0>>, <<4, 0, -4>>}
Pair_Looks == {"solid"}
Pair_GGroups == {0}
Pair_Vis == BOOLEAN
Pair_Origins == {<<-6, 0, 0>>, <<4, 0, 6>>}
Pair_Lens == {2}
Pair_Filters == MkFilters({<< >>}, {TRUE}, {-1})
Pair_Moves == {2}

Deep_Kinds == MC_Kinds
Deep_Shapes == MC_Shapes
Deep_Centers == {<<0, 0, 0>>, <<4, 0, -5>>}
Deep_Looks == MC_Looks
Deep_GGroups == {0, 1}
Deep_Vis == {FALSE}
Deep_Origins == {<<-6, 0, 0>>, <<4, 0, 6>>}
Deep_Lens == {2}
Deep_Filters == MkFilters({<< >>}, BOOLEAN, {-1}) \cup MkFilters({<<1, 0, 0, 0, 0, 0>>}, {TRUE}, {2})
Deep_Moves == MC_Moves

Sim_Kinds == {"dyn", "static", "mocap"}
Sim_Shapes == {<<"sphere", 1, 0, 0>>, <<"sphere", 3, 0, 0>>, <<"sphere", 5, 0, 0>>,
               <<"box", 1, 1, 1>>, <<"box", 1, 3, 5>>, <<"box", 3, 1, 1>>,
               <<"capsule", 1, 2, 0>>, <<"capsule", 3, 2, 0>>, <<"capsule", 1, 4, 0>>,
               <<"plane", 0, 0, 0>>, <<"plane", 3, 5, 0>>}
Sim_Centers == {<<x, y, z>> : x \in {-6, -2, 0, 2, 8}, y \in {-4, 0, 2}, z \in {-5, -4, 0, 4}}
Sim_Looks == {"solid", "rgba0", "mat0", "matsolid"}
Sim_GGroups == {0, 1, 2, 5}
Sim_Vis == BOOLEAN
Sim_Origins == {<<x, y, z>> : x \in {-10, -6, -2, 0, 2, 4, 8}, y \in {-4, -2, 0, 2}, z \in {-8, -4, 0, 2, 4, 10}}
Sim_Lens == {1, 2, 4}
Sim_Filters == MkFilters({<< >>, <<1, 1, 1, 1, 1, 1>>, <<1, 0, 0, 0, 0, 0>>, <<0, 1, 1, 0, 0, 0>>, <<1, 0, 1, 0, 0, 1>>},
                         BOOLEAN, -1..3)
Sim_Moves == {-4, 0, 2, 6}
=============================================================================
