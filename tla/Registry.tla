------------------------------ MODULE Registry ------------------------------
\* Sequential meaning of an extension registry (mjp_registerPlugin / mjp_getPlugin / mjp_getPluginAtSlot /
\* mjp_pluginCount): one slot per case-insensitive key, identical re-registration returns the slot,
\* conflicting re-registration fails, slots are dense and stable, name and slot lookups agree.
\* Slots are relative to the registry size at the start of the history (the registry is process-global).
EXTENDS Integers, Sequences, FiniteSets, TLC
CONSTANTS MaxOps, Keys, Bodies
Lower(k) == CASE k = "A" -> "a" [] k = "B" -> "b" [] OTHER -> k
VARIABLES table, nops, ev, obs
vars == <<table, nops, ev, obs>>
Find(t, k) == {i \in 1..Len(t) : Lower(t[i].key) = Lower(k)}
SlotOf(t, k) == IF Find(t, k) = {} THEN -1 ELSE (CHOOSE i \in Find(t, k) : TRUE) - 1
ObsOf(t) == [byname |-> [k \in Keys |-> SlotOf(t, k)],
             \* the registered spelling at each slot, "" beyond the end
             atslot |-> [s \in 0..MaxOps |-> IF s < Len(t) THEN t[s + 1].key ELSE ""],
             count  |-> Len(t)]
Init == table = <<>> /\ nops = 0 /\ ev = [op |-> "init"] /\ obs = ObsOf(<<>>)
\* plugin semantics: identical = same spelling and same body
Register(k, b) ==
  /\ nops < MaxOps /\ nops' = nops + 1
  /\ LET hit == Find(table, k) IN
     IF hit = {} THEN /\ table' = Append(table, [key |-> k, body |-> b])
                      /\ ev' = [op |-> "register", key |-> k, body |-> b, ret |-> Len(table)]
     ELSE LET i == CHOOSE x \in hit : TRUE IN
          /\ UNCHANGED table
          /\ ev' = [op |-> "register", key |-> k, body |-> b,
                    ret |-> IF table[i].key = k /\ table[i].body = b THEN i - 1 ELSE -1]
  /\ obs' = ObsOf(table')
Next == \E k \in Keys, b \in Bodies : Register(k, b)
Spec == Init /\ [][Next]_vars
OneSlotPerKey == \A i, j \in 1..Len(table) : Lower(table[i].key) = Lower(table[j].key) => i = j
NameSlotAgree == \A k \in Keys : obs.byname[k] # -1 => Lower(obs.atslot[obs.byname[k]]) = Lower(k)
Stable == [][\A i \in 1..Len(table) : table'[i] = table[i]]_vars
IdenticalReturnsSlot == [][(ev'.ret # -1 /\ table' = table) =>
                            (table[ev'.ret + 1].key = ev'.key /\ table[ev'.ret + 1].body = ev'.body)]_vars
ConflictFails == [][(ev'.ret = -1) => (table' = table /\ \E i \in 1..Len(table) : Lower(table[i].key) = Lower(ev'.key))]_vars
MC_Keys == {"a", "A", "b", "B", "c"}
=============================================================================
