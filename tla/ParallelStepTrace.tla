------------------------- MODULE ParallelStepTrace -------------------------
\* Trace validation of real multithreaded mj_step/mj_forward runs (controlled scheduler, full engine): the pool
\* protocol events of ThreadPool.tla plus the reservation events of the stack hook (val = previous pstack
\* relative to the dispatch base, sz = size).  A reservation event is explained only if val equals the
\* specification's current top (atomicity of the fetch-add) and the thread is inside a task.
EXTENDS ParallelStep, Json, IOUtils, TLCExt
Traces == JsonDeserialize(IOEnv.TRACE_FILE)
VARIABLES tid, l
tvars == <<pvars, tid, l>>
TInit == /\ tid \in 1..Len(Traces) /\ TLCSet(tid, 0) /\ l = 1 /\ PInit
Cur == Traces[tid][l]
Match == ev'.t = Cur.t /\ ev'.op = Cur.op /\ ev'.obj = Cur.obj /\ ev'.val = Cur.val
TNext == /\ l <= Len(Traces[tid]) /\ l' = l + 1 /\ UNCHANGED tid
         /\ \/ (Cur.op # "salloc" /\ PoolStep /\ Match)
            \/ (Cur.op = "salloc" /\ SAllocSz(Cur.t, Cur.sz) /\ Match)
TSpec == TInit /\ [][TNext]_tvars
Track == IF l - 1 > TLCGet(tid) THEN TLCSet(tid, l - 1) ELSE TRUE
Report == /\ \A t \in 1..Len(Traces) : PrintT(<<"TRACE", t, TLCGet(t), Len(Traces[t])>>)
          /\ \A t \in 1..Len(Traces) : TLCGet(t) = Len(Traces[t])
=============================================================================
