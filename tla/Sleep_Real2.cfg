SPECIFICATION Spec
CONSTANTS
  NT = 2
  MINAWAKE = 10
  Eqs <- MC_Eqs1
  Ground <- Ground0
  Never <- NoTrees
  NoIslands = FALSE
  InitVals <- Init_Real1
  Kinds <- KindsM
VIEW ViewRet
INVARIANT TypeOK
INVARIANT CyclesClosed
INVARIANT NoMixedCoupling
INVARIANT TouchingSleepersShareCycle
PROPERTY WakeWhole
PROPERTY CyclesStable
PROPERTY SleepsAsIsland
PROPERTY CountdownRule
PROPERTY WakeOnPerturbation
PROPERTY WakeOnTouch
PROPERTY WakeOnEquality
PROPERTY Frozen
CHECK_DEADLOCK FALSE
