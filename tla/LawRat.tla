------------------------------- MODULE LawRat -------------------------------
\* Exact rational arithmetic for the "law" specifications (Integrators.tla, Actuation.tla, Pid.tla).
\* A rational is <<num, den>> with den > 0 in lowest terms, so equality of values is equality of tuples.
\* TLC integers are 32 bit and TLC aborts on overflow (never wraps): the lattices keep |num|, den < 2^30 and the
\* step guards (`Small`) keep multi-step behaviours inside that range.
EXTENDS Integers, Sequences

RECURSIVE GCD(_, _)
GCD(a, b) == IF b = 0 THEN a ELSE GCD(b, a % b)
IAbs(i)   == IF i < 0 THEN 0 - i ELSE i
Rt(n, d)  == LET g == GCD(IAbs(n), IAbs(d)) IN
             IF d < 0 THEN <<(0 - n) \div g, (0 - d) \div g>> ELSE <<n \div g, d \div g>>
RI(i)     == <<i, 1>>
Zero      == <<0, 1>>
One       == <<1, 1>>
\* sums over the least common denominator and cross-reduced products: no needless overflow
AddL(x, y, g) == Rt(x[1] * (y[2] \div g) + y[1] * (x[2] \div g), (x[2] \div g) * y[2])
MulL(x, y, g1, g2) == <<(x[1] \div g1) * (y[1] \div g2), (x[2] \div g2) * (y[2] \div g1)>>
\* (shortcuts for 0 and 1 first: most parameters of a preset are 0 or 1)
Add(x, y) == IF x[1] = 0 THEN y ELSE IF y[1] = 0 THEN x ELSE IF x[2] = y[2] THEN Rt(x[1] + y[1], x[2])
             ELSE AddL(x, y, GCD(x[2], y[2]))
Neg(x)    == <<0 - x[1], x[2]>>
Sub(x, y) == Add(x, Neg(y))
Mul(x, y) == IF x[1] = 0 \/ y[1] = 0 THEN Zero ELSE IF x = One THEN y ELSE IF y = One THEN x
             ELSE MulL(x, y, GCD(IAbs(x[1]), y[2]), GCD(IAbs(y[1]), x[2]))
Inv(y)    == IF y[1] < 0 THEN <<0 - y[2], 0 - y[1]>> ELSE <<y[2], y[1]>>         \* y # 0
Div(x, y) == Mul(x, Inv(y))                                                      \* y # 0
Lt(x, y)  == x[1] * y[2] < y[1] * x[2]
Le(x, y)  == x[1] * y[2] <= y[1] * x[2]
IsZero(x) == x[1] = 0
Pos(x)    == x[1] > 0
RAbs(x)   == <<IAbs(x[1]), x[2]>>
RMin(x, y) == IF Le(x, y) THEN x ELSE y
RMax(x, y) == IF Le(x, y) THEN y ELSE x
Clip(x, lo, hi) == RMax(lo, RMin(x, hi))                       \* mju_clip: max(lo, min(hi, x))
Add3(x, y, z) == Add(Add(x, y), z)
Add4(x, y, z, w) == Add(Add(Add(x, y), z), w)
Mul3(x, y, z) == Mul(Mul(x, y), z)
Sq(x)     == <<x[1] * x[1], x[2] * x[2]>>

\* a double represents every short dyadic exactly; a quotient is exact when the divisor is +-2^k
RECURSIVE IsPow2(_)
IsPow2(n)   == n = 1 \/ (n > 1 /\ n % 2 = 0 /\ IsPow2(n \div 2))
Dyadic(x)   == IsPow2(x[2])
Pow2Rat(x)  == (IAbs(x[1]) = 1 /\ IsPow2(x[2])) \/ (x[2] = 1 /\ x[1] # 0 /\ IsPow2(IAbs(x[1])))
SmallR(x, B) == IAbs(x[1]) <= B /\ x[2] <= B

IsRat(x) == x[2] > 0 /\ GCD(IAbs(x[1]), x[2]) = 1
Qs(S, d) == {Rt(n, d) : n \in S}                                \* the lattice S / d
=============================================================================
