SPECIFICATION TSpec
CONSTANTS
  MaxOps = 1000
  Opts <- MC_Opt4
  Feats <- MC_FeatsUser
  Stages <- MC_AllStages
  Cb = "observer"
  CbGate = "asis"
  ActDis <- MC_ActBoth
  EKin = "ideal"
  Phased = FALSE
  KeepHist = FALSE
INVARIANT TypeOK
INVARIANT FreshAfterForward
INVARIANT ReadOnlyCalls
CONSTRAINT Track
POSTCONDITION Report
CHECK_DEADLOCK FALSE
