SPECIFICATION Spec
CONSTANTS
  MaxBodies = 3
  MaxGeoms = 5
  MaxOps = 6
  BodyKinds <- Sim_Kinds
  Shapes <- Sim_Shapes
  Centers <- Sim_Centers
  Looks <- Sim_Looks
  GGroups <- Sim_GGroups
  VisFlags <- Sim_Vis
  Origins <- Sim_Origins
  Lens <- Sim_Lens
  Filters <- Sim_Filters
  Moves <- Sim_Moves
INVARIANT TypeOK
INVARIANT ScanIsNearest
INVARIANT MissIffNone
INVARIANT NearestSound
INVARIANT FilterMonotone
INVARIANT MultiIsSingle
CHECK_DEADLOCK FALSE
