SPECIFICATION Spec
CONSTANTS
  MaxOps = 8
  Opts <- MC_Opt4
  Feats <- MC_FeatsUser
  Stages <- MC_AllStages
  Cb = "observer"
  CbGate = "asis"
  ActDis <- MC_ActBoth
  EKin = "ideal"
  Phased = TRUE
  KeepHist = FALSE
INVARIANT TypeOK
INVARIANT FreshAfterForward
INVARIANT FreshAfterSkip
INVARIANT FreshAfterInvSkip
INVARIANT SplitEq
INVARIANT ReadOnlyCalls
INVARIANT LazySound
CHECK_DEADLOCK FALSE
