----------------------------- MODULE Integrators -----------------------------
\* C05 - time integration of MuJoCo (doc/computation/index.rst "Numerical integration"; src/engine/engine_forward.c:
\* mj_step, mj_Euler, mj_implicit, mj_RungeKutta, mj_advance; engine_support.c: mj_nextActivation) on the family of
\* 1-dof systems where every documented formula is a rational function:
\*
\*     a slide joint with mass m, linear spring k (reference 0), linear damper b, a constant applied force f, and at
\*     most one actuator (gain/bias affine in length and velocity, dynamics none | integrator | filter, actrange,
\*     ctrlrange, actearly, gear, reflected damping and armature), no constraints, no gravity.
\*
\* One mj_step is modelled by the phases the implementation runs:
\*     SetCtrl   (environment writes ctrl)
\*     Forward   (mj_forward at the trial state x: act_dot, actuator force, passive forces, qacc, and D = d force / d v)
\*     Euler | Implicit | RKStage (x3, each followed by Forward again) + RKFinish      (the integrators; all end in
\*     the common state advance of mj_advance: act, then qvel, then qpos with the documented velocity, then time).
\* Written from the documentation:
\*     all single-step integrators:  v' = v + h (M - h D)^-1 F,   q' = q + h v'          (eq_implicit_update)
\*         Euler               D = - B (joint damping only), and D = 0 when eulerdamp or the dampers are disabled
\*         implicit[fast]      D = d(actuator + passive force) / d v    (identical on 1-dof slide systems)
\*     RK4:  classical tableau, stage states X_i = X_1 + h sum_j A_ij K_j, result X_1 + h sum_j B_j K_j
\*     activation: w' = w + h w_dot, clamped to actrange when actlimited; time' = time + h
\* `ev` of a completed step carries the parameters, the state before, the control, and the state the implementation
\* must reach (and whether every intermediate is a short dyadic so that the comparison is exact) - the replay oracle.
EXTENDS LawRat, TLC, FiniteSets

CONSTANTS Hs, Ms, Ks, Bs, Fs,          \* timestep, mass, stiffness, damping, applied force      (sets of rationals)
          Polys,                       \* set of <<quadratic, cubic>> joint damping coefficients (rationals >= 0)
          Q0s, V0s, W0s, T0s,          \* initial qpos, qvel, act, time
          Us,                          \* controls the environment may write before a step
          Integs,                      \* subset of {"Euler", "RK4", "implicit", "implicitfast"}
          EDamps, Dampers, Springs,    \* subsets of BOOLEAN: eulerdamp / damper / spring ENABLED
          Actuations, GroupOns,        \* subsets of BOOLEAN: actuation enabled, the actuator's group enabled
          Acts,                        \* subset of the preset names below
          MaxSteps,
          MaxOff,                      \* at most this many of the five flags disabled at once
          Variant,                     \* "doc" = the documented schemes; anything else is a deliberately wrong scheme
                                       \* used as negative control ("explicitpos", "rk38": the invariants must fail)
          Bound, BoundRK               \* a step starts only from a state whose numerators/denominators are <= Bound

R(n, d) == Rt(n, d)
NoAct == [name |-> "none", dyn |-> "off", g0 |-> Zero, g1 |-> Zero, g2 |-> Zero, b0 |-> Zero, b1 |-> Zero, b2 |-> Zero,
          tau |-> One, alim |-> FALSE, alo |-> Zero, ahi |-> Zero, clim |-> FALSE, clo |-> Zero, chi |-> Zero,
          early |-> FALSE, gear |-> One, adamp |-> Zero, aarm |-> Zero]
\* actuator presets (dyn "none" = stateless actuator, "off" = no actuator in the model)
Preset(nm) ==
  CASE nm = "none"    -> NoAct
    [] nm = "motor"   -> [NoAct EXCEPT !.name = nm, !.dyn = "none", !.g0 = One]
    [] nm = "motorcl" -> [NoAct EXCEPT !.name = nm, !.dyn = "none", !.g0 = RI(2), !.clim = TRUE, !.clo = R(-1, 2), !.chi = One]
    [] nm = "servo"   -> [NoAct EXCEPT !.name = nm, !.dyn = "none", !.g0 = RI(2), !.b1 = RI(-2), !.b2 = R(-1, 2)]
    [] nm = "affgain" -> [NoAct EXCEPT !.name = nm, !.dyn = "none", !.g0 = One, !.g1 = R(1, 2), !.g2 = R(-1, 2), !.b0 = R(1, 2)]
    [] nm = "affgaincl" -> [NoAct EXCEPT !.name = nm, !.dyn = "none", !.g0 = One, !.g2 = R(-1, 2),
                                         !.clim = TRUE, !.clo = RI(-1), !.chi = One]
    [] nm = "integ"   -> [NoAct EXCEPT !.name = nm, !.dyn = "integrator", !.g0 = RI(2), !.alim = TRUE, !.alo = RI(-1), !.ahi = R(3, 4)]
    [] nm = "intfree" -> [NoAct EXCEPT !.name = nm, !.dyn = "integrator", !.g0 = One, !.b2 = RI(-1)]
    [] nm = "intearly" -> [NoAct EXCEPT !.name = nm, !.dyn = "integrator", !.g0 = One, !.b1 = RI(-1), !.early = TRUE,
                                        !.alim = TRUE, !.alo = R(-1, 2), !.ahi = R(3, 4)]
    [] nm = "filter"  -> [NoAct EXCEPT !.name = nm, !.dyn = "filter", !.g0 = One, !.tau = R(1, 2)]
    [] nm = "filterlim" -> [NoAct EXCEPT !.name = nm, !.dyn = "filter", !.g0 = RI(2), !.g2 = R(1, 2), !.tau = R(1, 4),
                                         !.alim = TRUE, !.alo = R(-1, 2), !.ahi = R(1, 2), !.early = TRUE]
    [] nm = "fexact"  -> [NoAct EXCEPT !.name = nm, !.dyn = "filterexact", !.g0 = One, !.tau = R(1, 4)]
    [] nm = "fexactlim" -> [NoAct EXCEPT !.name = nm, !.dyn = "filterexact", !.g0 = RI(2), !.tau = R(1, 4),
                                         !.alim = TRUE, !.alo = R(-1, 2), !.ahi = R(1, 2)]
    [] nm = "filter3" -> [NoAct EXCEPT !.name = nm, !.dyn = "filter", !.g0 = One, !.tau = R(3, 4)]
    [] nm = "geared"  -> [NoAct EXCEPT !.name = nm, !.dyn = "none", !.g0 = One, !.b1 = RI(-1), !.b2 = R(-1, 4), !.gear = RI(2)]
    [] nm = "reflect" -> [NoAct EXCEPT !.name = nm, !.dyn = "none", !.g0 = One, !.gear = RI(2), !.adamp = R(1, 4), !.aarm = R(1, 4)]
AllPresets == {"none", "motor", "motorcl", "servo", "affgain", "affgaincl", "integ", "intfree", "intearly", "filter",
               "filterlim", "filter3", "geared", "reflect", "fexact", "fexactlim"}
PresetOf == [nm \in AllPresets |-> Preset(nm)]
AP(pp) == PresetOf[pp.act]                      \* the actuator of a parameter record (pp.act is the preset name)
HasAct(a)   == a.dyn # "off"
HasState(a) == a.dyn \in {"integrator", "filter", "filterexact"}
IsFilter(a) == a.dyn \in {"filter", "filterexact"}

\* filterexact integrates the filter exactly over a step:  act' = act + act_dot * tau * E,  E = 1 - exp(-h / tau).
\* E is irrational; the specification carries a rational ENCLOSURE [elo, ehi] of it, obtained from the alternating
\* series  exp(-r) = sum_k (-r)^k / k!  whose partial sums bracket the limit once the terms decrease (k >= r):
\*     S_(n-1) <= exp(-r) <= S_n   for even n.      Ratios r = h / tau and orders n are chosen so that n! r-denominators
\* stay inside TLC's 32-bit integers (width of the enclosure: 5e-9, 3e-7, 9e-6).
ExpRatios == {Rt(1, 2), One, RI(2)}
ExpOrder(r) == CASE r = Rt(1, 2) -> 8 [] r = One -> 10 [] r = RI(2) -> 12
RECURSIVE ExpTerm(_, _)
ExpTerm(r, k) == IF k = 0 THEN One ELSE Mul(ExpTerm(r, k - 1), Div(Neg(r), RI(k)))
RECURSIVE ExpSum(_, _)
ExpSum(r, n) == IF n = 0 THEN One ELSE Add(ExpSum(r, n - 1), ExpTerm(r, n))
\* comparisons over the common denominator (the cross products of LawRat!Le leave the 32-bit range for these values)
LeL(x, y) == Sub(y, x)[1] >= 0
LtL(x, y) == Sub(y, x)[1] > 0
ClipL(x, lo, hi) == IF LeL(x, lo) THEN lo ELSE IF LeL(hi, x) THEN hi ELSE x
ELo(r) == Sub(One, ExpSum(r, ExpOrder(r)))            \* 1 - (upper bound of exp(-r))
EHi(r) == Sub(One, ExpSum(r, ExpOrder(r) - 1))        \* 1 - (lower bound of exp(-r))

\* Butcher tableau of the classical 4th-order Runge-Kutta method
RKA == << << >>, <<R(1, 2)>>, <<Zero, R(1, 2)>>, <<Zero, Zero, One>> >>
RKB == IF Variant = "rk38" THEN <<R(1, 8), R(3, 8), R(3, 8), R(1, 8)>> ELSE <<R(1, 6), R(1, 3), R(1, 3), R(1, 6)>>

VARIABLES p,      \* parameters of the model (constant along a behaviour)
          s,      \* committed state [q, v, w, t]
          x,      \* trial state at which Forward is evaluated (= s except inside RK4)
          u,      \* ctrl
          fw,     \* result of the last Forward
          pc, stage, ks,   \* phase, RK stage, stage derivatives
          n,      \* completed steps
          ev
vars == <<p, s, x, u, fw, pc, stage, ks, n, ev>>

\* ---- derived model quantities ------------------------------------------------------------------------------
Gear2(a)  == Sq(a.gear)
MEff0(pp) == Add(pp.m, Mul(AP(pp).aarm, Gear2(AP(pp))))          \* mass + reflected armature
BEff0(pp) == Add(pp.b, Mul(AP(pp).adamp, Gear2(AP(pp))))         \* damping + reflected damping
\* (constant along a behaviour: computed once in Init and carried in p as meff, beff)
MEff(pp)  == pp.meff
BEff(pp)  == pp.beff
\* polynomial joint damping (XMLreference joint/damping, "Polynomial forces"):  f(v) = -(a v + b v|v| + c v^3)
\*   = - v * DampCoef(v),   d(-f)/dv = DampDeriv(v) = a + 2 b |v| + 3 c v^2      (a = linear damping incl. the reflected one)
Poly(pp) == ~IsZero(pp.bq) \/ ~IsZero(pp.bc)
NoDamping(pp) == IsZero(pp.beff) /\ ~Poly(pp)
DampCoef(pp, v)  == Add3(pp.beff, Mul(pp.bq, RAbs(v)), Mul(pp.bc, Sq(v)))
DampDeriv(pp, v) == Add3(pp.beff, Mul3(RI(2), pp.bq, RAbs(v)), Mul3(RI(3), pp.bc, Sq(v)))
Active(pp) == HasAct(AP(pp)) /\ pp.actuation /\ pp.groupon        \* the actuator produces force
Ctrl(a, uu) == IF a.clim THEN Clip(uu, a.clo, a.chi) ELSE uu
\* mj_nextActivation: explicit Euler on the activation, then the actrange clamp
NextAct(pp, w, wdot) == LET a == AP(pp)
                            y == Add(w, Mul(pp.h, wdot)) IN
                        IF a.alim THEN Clip(y, a.alo, a.ahi) ELSE y

\* mj_forward at state xx with control uu (no constraints: qacc = M^-1 * sum of forces)
Fwd(pp, xx, uu) ==
  LET a    == AP(pp)
      uc   == Ctrl(a, uu)
      wdot == IF ~(HasState(a) /\ pp.actuation) THEN Zero            \* actuation disabled: act_dot is not computed
              ELSE IF a.dyn = "integrator" THEN uc ELSE Div(Sub(uc, xx.w), a.tau)
      inp  == IF a.dyn = "none" THEN uc ELSE IF a.early THEN NextAct(pp, xx.w, wdot) ELSE xx.w
      len  == Mul(a.gear, xx.q)
      vel  == Mul(a.gear, xx.v)
      gain == Add3(a.g0, Mul(a.g1, len), Mul(a.g2, vel))
      bias == Add3(a.b0, Mul(a.b1, len), Mul(a.b2, vel))
      af   == IF Active(pp) THEN Add(Mul(gain, inp), bias) ELSE Zero
      qa   == Mul(a.gear, af)
      spr  == IF pp.spring THEN Neg(Mul(pp.k, xx.q)) ELSE Zero
      dmp  == IF pp.damper THEN Neg(Mul(DampCoef(pp, xx.v), xx.v)) ELSE Zero
      F    == Add4(spr, dmp, pp.f, qa)
      dact == IF Active(pp) THEN Mul(Gear2(a), Add(a.b2, Mul(a.g2, inp))) ELSE Zero
      dpas == IF pp.damper THEN Neg(DampDeriv(pp, xx.v)) ELSE Zero
  IN [wdot |-> wdot, af |-> af, qa |-> qa, pas |-> Add(spr, dmp), F |-> F, qacc |-> Div(F, MEff(pp)),
      D |-> Add(dact, dpas)]

\* mj_nextActivation for filterexact: the two ends of the enclosure of act + act_dot tau E, each clamped to actrange
\* (documented: activations are clamped to actrange whatever the dynamics type)
NextActExact(pp, w, wdot) ==
  LET a  == AP(pp)
      d  == Mul(wdot, a.tau)
      y1 == Add(w, Mul(d, pp.elo))
      y2 == Add(w, Mul(d, pp.ehi))
      lo == IF LeL(y1, y2) THEN y1 ELSE y2
      hi == IF LeL(y1, y2) THEN y2 ELSE y1
  IN IF a.alim /\ Variant # "noexactclamp" THEN <<ClipL(lo, a.alo, a.ahi), ClipL(hi, a.alo, a.ahi)>> ELSE <<lo, hi>>

\* mj_advance: activations, velocity, position (with the given velocity), time
\* (w .. wh is the enclosure of the new activation; wh = w except for filterexact away from the clamp)
Advance(pp, st, wdot, acc, usenew, posvel) ==
  LET wd == IF pp.groupon THEN wdot ELSE Zero
      ww == IF ~(HasState(AP(pp)) /\ pp.actuation) THEN <<st.w, st.w>>
            ELSE IF AP(pp).dyn = "filterexact" THEN NextActExact(pp, st.w, wd)
            ELSE <<NextAct(pp, st.w, wd), NextAct(pp, st.w, wd)>>
      v2 == Add(st.v, Mul(pp.h, acc))
      pv == IF usenew THEN (IF Variant = "explicitpos" THEN st.v ELSE v2) ELSE posvel
  IN [q |-> Add(st.q, Mul(pp.h, pv)), v |-> v2, w |-> ww[1], wh |-> ww[2], t |-> Add(st.t, pp.h)]

EulerImplicitDamping(pp) == pp.edamp /\ pp.damper
\* Euler: D = - dB/dv of the joint damping only, evaluated at the current velocity
EulerDiv(pp, v) == IF EulerImplicitDamping(pp) THEN Add(MEff(pp), Mul(pp.h, DampDeriv(pp, v))) ELSE MEff(pp)
ImplicitDiv(pp, f) == Sub(MEff(pp), Mul(pp.h, f.D))

InputsDyadic(pp, st, uu) ==
  LET a == AP(pp) IN
  \A z \in {pp.h, pp.m, pp.k, pp.b, pp.bq, pp.bc, pp.f, st.q, st.v, st.w, st.t, uu, a.g0, a.g1, a.g2, a.b0, a.b1, a.b2, a.alo, a.ahi,
            a.clo, a.chi, a.gear, a.adamp, a.aarm} : Dyadic(z)
\* every floating-point operation of the step is exact when the inputs are short dyadics and all divisors powers of two
Exact(pp, st, uu, div) ==
  /\ InputsDyadic(pp, st, uu) /\ Pow2Rat(div) /\ Pow2Rat(MEff(pp))
  /\ (IsFilter(AP(pp)) => Pow2Rat(AP(pp).tau))

SmallState(st, B) == SmallR(st.q, B) /\ SmallR(st.v, B) /\ SmallR(st.w, B) /\ SmallR(st.t, B)

\* ---- behaviours ----------------------------------------------------------------------------------------------
NoFw == [wdot |-> Zero, af |-> Zero, qa |-> Zero, pas |-> Zero, F |-> Zero, qacc |-> Zero, D |-> Zero]
S0 == [q |-> Zero, v |-> Zero, w |-> Zero, wh |-> Zero, t |-> Zero]
P0 == [h |-> One, m |-> One, k |-> Zero, b |-> Zero, bq |-> Zero, bc |-> Zero, f |-> Zero, integ |-> "Euler", edamp |-> TRUE, damper |-> TRUE,
       spring |-> TRUE, actuation |-> TRUE, groupon |-> TRUE, act |-> "none", meff |-> One, beff |-> Zero, elo |-> Zero, ehi |-> Zero]

\* The case is set up the way a user sets it up: compile a model, write the options, write the state.
\* (Also keeps the branching of every step small: TLC's simulator enumerates all successors of a state.)
Init == /\ p = P0 /\ s = S0 /\ x = S0 /\ u = Zero /\ fw = NoFw /\ pc = "model" /\ stage = 0 /\ ks = << >> /\ n = 0
        /\ ev = [op |-> "init"]

PickModel ==          \* mj_compile, body and joint: mass, spring, damper; applied force
  /\ pc = "model"
  /\ \E mm \in Ms, kk \in Ks, bb \in Bs, pl \in Polys, ff \in Fs :
       p' = [p EXCEPT !.m = mm, !.k = kk, !.b = bb, !.bq = pl[1], !.bc = pl[2], !.f = ff]
  /\ pc' = "actuator" /\ ev' = [op |-> "model"]
  /\ UNCHANGED <<s, x, u, fw, stage, ks, n>>

PickActuator ==       \* mj_compile, actuator (with its reflected armature and damping)
  /\ pc = "actuator"
  /\ \E aa \in Acts : LET pp == [p EXCEPT !.act = aa] IN p' = [pp EXCEPT !.meff = MEff0(pp), !.beff = BEff0(pp)]
  /\ pc' = "integrator" /\ ev' = [op |-> "actuator"]
  /\ UNCHANGED <<s, x, u, fw, stage, ks, n>>

PickIntegrator ==     \* mjOption: timestep, integrator
  /\ pc = "integrator"
  /\ \E hh \in Hs, ii \in Integs :
       \* RK4 only on all-dyadic systems: four nested stages over mixed denominators leave TLC's 32-bit integers
       /\ (ii = "RK4" => Dyadic(hh) /\ Pow2Rat(p.meff) /\ (IsFilter(AP(p)) => Pow2Rat(AP(p).tau)))
       \* filterexact only for the ratios h / tau whose enclosure of exp is available, and not under RK4 (the weighted
       \* stage derivatives times the enclosure leave the 32-bit range; RK4 ends in the same mj_nextActivation)
       /\ (AP(p).dyn = "filterexact" => Div(hh, AP(p).tau) \in ExpRatios /\ ii # "RK4")
       \* polynomial damping (cubes of the stage velocities) not under RK4 either; the force itself is the same Forward
       /\ (Poly(p) => ii # "RK4" /\ Dyadic(hh))
       /\ p' = [p EXCEPT !.h = hh, !.integ = ii,
                         !.elo = IF AP(p).dyn = "filterexact" THEN ELo(Div(hh, AP(p).tau)) ELSE Zero,
                         !.ehi = IF AP(p).dyn = "filterexact" THEN EHi(Div(hh, AP(p).tau)) ELSE Zero]
  /\ pc' = "flags" /\ ev' = [op |-> "integrator"]
  /\ UNCHANGED <<s, x, u, fw, stage, ks, n>>

PickFlags ==          \* mjOption: disable flags, disabled actuator groups
  /\ pc = "flags"
  /\ \E ed \in EDamps, da \in Dampers, sp \in Springs, ac \in Actuations, go \in GroupOns :
       \* flags that cannot matter are kept at their default, so that no case is enumerated twice
       /\ (p.integ # "Euler" => ed)
       /\ (~HasAct(AP(p)) => ac /\ go)
       /\ (NoDamping(p) => da /\ ed)
       /\ (IsZero(p.k) => sp)
       /\ Cardinality({i \in 1..5 : ~<<ed, da, sp, ac, go>>[i]}) <= MaxOff
       /\ p' = [p EXCEPT !.edamp = ed, !.damper = da, !.spring = sp, !.actuation = ac, !.groupon = go]
  /\ pc' = "state" /\ ev' = [op |-> "flags"]
  /\ UNCHANGED <<s, x, u, fw, stage, ks, n>>

PickState ==          \* qpos, qvel, act, time
  /\ pc = "state"
  /\ \E s0 \in [q : Q0s, v : V0s, w : W0s, t : T0s] :
       /\ (~HasState(AP(p)) => s0.w = Zero)
       /\ (AP(p).alim => Le(AP(p).alo, s0.w) /\ Le(s0.w, AP(p).ahi))
       /\ s' = [q |-> s0.q, v |-> s0.v, w |-> s0.w, wh |-> s0.w, t |-> s0.t] /\ x' = s'
  /\ pc' = "ctl" /\ ev' = [op |-> "state"]
  /\ UNCHANGED <<p, u, fw, stage, ks, n>>

SetCtrl(uu) ==
  /\ pc = "ctl" /\ n < MaxSteps
  /\ SmallState(s, IF p.integ = "RK4" THEN BoundRK ELSE IF Poly(p) THEN 32 ELSE Bound)
  /\ s.wh = s.w                      \* a behaviour continues only from an exactly known activation
  /\ u' = uu /\ x' = s /\ pc' = "fwd" /\ stage' = 1 /\ ks' = << >>
  /\ ev' = [op |-> "ctl"]
  /\ UNCHANGED <<p, s, fw, n>>

Forward ==
  /\ pc = "fwd"
  /\ fw' = Fwd(p, x, u) /\ pc' = "int"
  /\ ev' = [op |-> "fwd"]
  /\ UNCHANGED <<p, s, x, u, stage, ks, n>>

Done(s2, acc, div) ==
  /\ s' = s2 /\ x' = s2 /\ pc' = "ctl" /\ n' = n + 1 /\ stage' = 0 /\ ks' = << >>
  /\ ev' = [op |-> "step", p |-> p, act |-> AP(p), pre |-> s, u |-> u, post |-> s2, fw |-> fw, acc |-> acc,
            exact |-> (p.integ # "RK4" /\ Exact(p, s, u, div)), n |-> n + 1]
  /\ UNCHANGED <<p, u, fw>>

Euler ==
  /\ pc = "int" /\ p.integ = "Euler"
  /\ LET acc == Div(fw.F, EulerDiv(p, s.v)) IN Done(Advance(p, s, fw.wdot, acc, TRUE, Zero), acc, EulerDiv(p, s.v))

Implicit ==
  /\ pc = "int" /\ p.integ \in {"implicit", "implicitfast"}
  /\ ~IsZero(ImplicitDiv(p, fw))
  /\ LET acc == Div(fw.F, ImplicitDiv(p, fw)) IN Done(Advance(p, s, fw.wdot, acc, TRUE, Zero), acc, ImplicitDiv(p, fw))

\* weighted sum of one component of the first k stage derivatives
RECURSIVE WSum(_, _, _, _)
WSum(kk, c, k, fld) == IF k = 0 THEN Zero ELSE Add(WSum(kk, c, k - 1, fld), Mul(c[k], kk[k][fld]))

RKStage ==
  /\ pc = "int" /\ p.integ = "RK4" /\ stage < 4
  /\ SmallState(x, 4096) /\ SmallR(fw.qacc, 4096) /\ SmallR(fw.wdot, 4096)      \* else the behaviour ends here (32-bit range)
  /\ LET k2 == Append(ks, [dq |-> x.v, dv |-> fw.qacc, dw |-> fw.wdot])
         c  == RKA[stage + 1] IN
     /\ ks' = k2
     /\ x' = [q |-> Add(s.q, Mul(p.h, WSum(k2, c, stage, "dq"))),
              v |-> Add(s.v, Mul(p.h, WSum(k2, c, stage, "dv"))),
              w |-> Add(s.w, Mul(p.h, WSum(k2, c, stage, "dw"))),         \* no actrange clamp inside the stages
              wh |-> s.wh,
              t |-> s.t]
  /\ stage' = stage + 1 /\ pc' = "fwd"
  /\ ev' = [op |-> "rkstage"]
  /\ UNCHANGED <<p, s, u, fw, n>>

RKFinish ==
  /\ pc = "int" /\ p.integ = "RK4" /\ stage = 4
  /\ LET k2 == Append(ks, [dq |-> x.v, dv |-> fw.qacc, dw |-> fw.wdot])
         acc == WSum(k2, RKB, 4, "dv") IN
     Done(Advance(p, s, WSum(k2, RKB, 4, "dw"), acc, FALSE, WSum(k2, RKB, 4, "dq")), acc, One)

Env == \E uu \in (IF HasAct(AP(p)) THEN Us ELSE {Zero}) : SetCtrl(uu)
Next == PickModel \/ PickActuator \/ PickIntegrator \/ PickFlags \/ PickState \/ Env \/ Forward \/ Euler \/ Implicit \/ RKStage \/ RKFinish
Spec == Init /\ [][Next]_vars

\* ---- properties ------------------------------------------------------------------------------------------------
IsStep == ev.op = "step"
TypeOK == /\ pc \in {"model", "actuator", "integrator", "flags", "state", "ctl", "fwd", "int"} /\ n \in 0..MaxSteps /\ stage \in 0..4 /\ Len(ks) \in 0..3
          /\ \A z \in {s.q, s.v, s.w, s.t, x.q, x.v, x.w} : z[2] > 0 /\ GCD(IAbs(z[1]), z[2]) = 1
DerivedOK == pc \notin {"model", "actuator"} => p.meff = MEff0(p) /\ p.beff = BEff0(p)
\* time advances by exactly one timestep per completed step
TimeAdvances == IsStep => ev.post.t = Add(ev.pre.t, ev.p.h)
TimeIsSteps  == pc = "ctl" /\ n > 0 => \E t0 \in T0s : s.t = Add(t0, Mul(RI(n), p.h))
\* activations stay within actrange
ActInRange == AP(p).alim => LeL(AP(p).alo, s.w) /\ LeL(s.w, s.wh) /\ LeL(s.wh, AP(p).ahi)
\* activation law: explicit Euler on w_dot (single-step integrators), frozen when actuation or the group is disabled
\* the enclosure of exp used by filterexact is a proper, narrow interval inside (0, 1)
EnclosureOK == pc \notin {"model", "actuator", "integrator"} /\ AP(p).dyn = "filterexact" =>
                 /\ LtL(Zero, p.elo) /\ LtL(p.elo, p.ehi) /\ LtL(p.ehi, One) /\ LtL(Mul(Sub(p.ehi, p.elo), RI(65536)), One)
                 /\ LET r == Div(p.h, AP(p).tau) ord == ExpOrder(r) IN        \* the bracketing terms do decrease
                    Lt(RAbs(ExpTerm(r, ord)), RAbs(ExpTerm(r, ord - 1))) /\ Le(r, RI(ord - 1))
\* filterexact: the new activation is a convex combination of act and ctrl (clamped), and the clamp is exact:
\* when the whole enclosure lies beyond a bound the activation IS that bound
FilterExactLaw == IsStep /\ AP(ev.p).dyn = "filterexact" /\ ev.p.actuation /\ ev.p.groupon /\ ev.p.integ # "RK4" =>
  LET a  == AP(ev.p)
      uc == Ctrl(a, ev.u)
      y  == Add(ev.pre.w, Mul(Sub(uc, ev.pre.w), ev.p.elo))            \* the end of the enclosure nearer to act
      lo == RMin(ev.pre.w, uc)
      hi == RMax(ev.pre.w, uc) IN
  /\ LeL(ev.post.w, ev.post.wh)
  /\ (~a.alim => LeL(lo, ev.post.w) /\ LeL(ev.post.wh, hi))
  /\ (a.alim /\ LeL(a.ahi, y) /\ Le(ev.pre.w, uc) => ev.post.w = a.ahi /\ ev.post.wh = a.ahi)
  /\ (a.alim /\ LeL(y, a.alo) /\ Le(uc, ev.pre.w) => ev.post.w = a.alo /\ ev.post.wh = a.alo)
ActLaw == IsStep /\ ev.p.integ # "RK4" /\ AP(ev.p).dyn # "filterexact" =>
            ev.post.w = (IF ~(HasState(AP(ev.p)) /\ ev.p.actuation) THEN ev.pre.w
                         ELSE IF ~ev.p.groupon THEN NextAct(ev.p, ev.pre.w, Zero)
                         ELSE NextAct(ev.p, ev.pre.w, ev.fw.wdot))
ActFrozen == IsStep /\ HasState(AP(ev.p)) /\ ~ev.p.actuation => ev.post.w = ev.pre.w
\* semi-implicit: the position is integrated with the NEW velocity
SemiImplicit == IsStep /\ ev.p.integ # "RK4" => ev.post.q = Add(ev.pre.q, Mul(ev.p.h, ev.post.v))
\* defining equation of the single-step update (eq_implicit_update):  (M - h D)(v' - v) = h F
UpdateEq == IsStep /\ ev.p.integ # "RK4" =>
              LET pp == ev.p
                  DD == IF pp.integ = "Euler" THEN (IF EulerImplicitDamping(pp) THEN Neg(DampDeriv(pp, ev.pre.v)) ELSE Zero) ELSE ev.fw.D
              IN Mul(Sub(MEff(pp), Mul(pp.h, DD)), Sub(ev.post.v, ev.pre.v)) = Mul(pp.h, ev.fw.F)
\* Euler with implicit damping solves  M (v' - v) / h = F_without_damper - B v'
EulerDampEq == IsStep /\ ev.p.integ = "Euler" /\ EulerImplicitDamping(ev.p) /\ ~Poly(ev.p) =>
                 LET pp == ev.p
                     Fnd == Add(ev.fw.F, Mul(BEff(pp), ev.pre.v)) IN
                 Mul(MEff(pp), Sub(ev.post.v, ev.pre.v)) = Mul(pp.h, Sub(Fnd, Mul(BEff(pp), ev.post.v)))
\* implicit = Euler with implicit damping whenever joint damping is the only velocity-dependent force
NoActVel(pp) == ~Active(pp) \/ (IsZero(AP(pp).b2) /\ IsZero(AP(pp).g2))
ImplicitIsEulerDamp == pc = "int" /\ p.integ # "RK4" /\ NoActVel(p) /\ p.edamp /\ p.damper =>
                         ImplicitDiv(p, fw) = EulerDiv([p EXCEPT !.integ = "Euler"], x.v)
\* RK4 on a linear system x' = A x + c equals the 4th-order Taylor polynomial of the exact flow
Linear(pp) == ~Poly(pp) /\ (~HasAct(AP(pp)) \/ ~Active(pp) \/ (AP(pp).dyn = "none" /\ IsZero(AP(pp).g1) /\ IsZero(AP(pp).g2)))
RK4Taylor == IsStep /\ ev.p.integ = "RK4" /\ Linear(ev.p) =>
  LET pp == ev.p
      a  == AP(pp)
      g2 == Gear2(a)
      kq == Add(IF pp.spring THEN Neg(pp.k) ELSE Zero, IF Active(pp) THEN Mul(g2, a.b1) ELSE Zero)       \* dF/dq
      kv == Add(IF pp.damper THEN Neg(BEff(pp)) ELSE Zero, IF Active(pp) THEN Mul(g2, a.b2) ELSE Zero)   \* dF/dv
      c0 == Add(pp.f, IF Active(pp) THEN Mul(a.gear, Add(Mul(a.g0, Ctrl(a, ev.u)), a.b0)) ELSE Zero)
      M  == MEff(pp)
      \* derivatives of (q, v):  d1 = A x + c,  d_{j+1} = A d_j
      A2(dq, dv) == Div(Add(Mul(kq, dq), Mul(kv, dv)), M)
      d1q == ev.pre.v
      d1v == Div(Add3(Mul(kq, ev.pre.q), Mul(kv, ev.pre.v), c0), M)
      d2q == d1v      d2v == A2(d1q, d1v)
      d3q == d2v      d3v == A2(d2q, d2v)
      d4q == d3v      d4v == A2(d3q, d3v)
      h  == pp.h
      T(x0, e1, e2, e3, e4) == Add(x0, Add4(Mul(h, e1), Mul(Mul(Sq(h), R(1, 2)), e2), Mul(Mul3(h, h, h), Mul(R(1, 6), e3)),
                                            Mul(Mul(Sq(h), Sq(h)), Mul(R(1, 24), e4))))
  IN ev.post.q = T(ev.pre.q, d1q, d2q, d3q, d4q) /\ ev.post.v = T(ev.pre.v, d1v, d2v, d3v, d4v)
\* RK4 integrates a constant acceleration exactly
RK4ConstAcc == IsStep /\ ev.p.integ = "RK4" /\ ~HasAct(AP(ev.p)) /\ IsZero(ev.p.k) /\ NoDamping(ev.p) =>
                 LET a0 == Div(ev.p.f, ev.p.m) h == ev.p.h IN
                 /\ ev.post.v = Add(ev.pre.v, Mul(h, a0))
                 /\ ev.post.q = Add3(ev.pre.q, Mul(h, ev.pre.v), Mul(Mul(Sq(h), R(1, 2)), a0))
\* polynomial damping: the force opposes the velocity, is odd in it, and its slope dominates its secant
\* (so the implicit treatment never flips the sign of the divisor)
PolyDampLaw == pc = "int" /\ p.damper =>
                 /\ ~Pos(Mul(Neg(Mul(DampCoef(p, x.v), x.v)), x.v))
                 /\ DampCoef(p, Neg(x.v)) = DampCoef(p, x.v) /\ DampDeriv(p, Neg(x.v)) = DampDeriv(p, x.v)
                 /\ LeL(DampCoef(p, x.v), DampDeriv(p, x.v)) /\ DampCoef(p, x.v)[1] >= 0
                 /\ (~Poly(p) => DampCoef(p, x.v) = p.beff /\ DampDeriv(p, x.v) = p.beff)
\* a pure damper never reverses or amplifies the velocity under the single-step integrators
DamperContracts == IsStep /\ ev.p.integ # "RK4" /\ ~HasAct(AP(ev.p)) /\ IsZero(ev.p.k) /\ IsZero(ev.p.f) /\ ev.p.damper
                     /\ ev.p.edamp =>
                     Le(RAbs(ev.post.v), RAbs(ev.pre.v)) /\ ~Lt(Mul(ev.post.v, ev.pre.v), Zero)

ViewNoEv == <<p, s, x, u, fw, pc, stage, ks, n>>
\* ---- constants of the configurations (cfg files cannot hold tuples) -----------------------------------------
L_H4 == {R(1, 4)}                 L_H == {R(1, 4), R(1, 8)}          L_HX == {R(1, 4), R(1, 8), R(1, 2), R(1, 5)}
L_M1 == {One}                     L_M2 == {One, RI(2)}              L_M == {R(1, 2), One, RI(2), RI(3)}
L_K1 == {RI(2)}                   L_K2 == {Zero, RI(2)}             L_K == {Zero, R(1, 2), One, RI(2)}
L_B2 == {Zero, One}               L_B3 == {Zero, One, RI(4)}        L_B == {Zero, R(1, 2), One, RI(2), RI(4)}
L_F1 == {One}                     L_F2 == {Zero, One}
L_P0 == {<<Zero, Zero>>}          L_P2 == {<<Zero, Zero>>, <<R(1, 2), R(1, 4)>>}
L_PX == {<<Zero, Zero>>, <<R(1, 2), R(1, 4)>>, <<One, Zero>>, <<Zero, R(1, 2)>>}               L_F == {RI(-1), Zero, R(1, 2)}
L_Q2 == {R(1, 2)}                 L_Q3 == Qs({-2, 1}, 2)            L_Q == Qs(-2..2, 2)
L_V2 == {R(-1, 2), One}           L_V3 == Qs({-1, 2}, 2)            L_V == Qs(-2..2, 2)
L_W == {R(-1, 2), Zero, R(1, 2)}  L_W2 == {Zero, R(1, 2)}
L_T0 == {Zero}                    L_T2 == {Zero, R(5, 8)}
L_T == {Zero, R(5, 8), RI(3)}
L_U == {RI(-2), R(1, 2), RI(2)}   L_U2 == {R(1, 2), RI(2)}           L_UX == {RI(-2), RI(-1), Zero, R(1, 2), One, RI(2)}
L_AllInt == {"Euler", "RK4", "implicit", "implicitfast"}
L_Single == {"Euler", "implicit", "implicitfast"}
L_RK == {"RK4"}
L_True == {TRUE}
L_Bool == BOOLEAN
L_Passive == {"none"}
L_FE == {"fexactlim"}
L_ActsQ == {"none", "servo", "integ", "filterlim", "reflect", "affgaincl", "fexactlim"}
L_ActsA == AllPresets \ {"none"}
=============================================================================
