----------------------------- MODULE SleepCore -----------------------------
\* Data-level semantics of mjData.tree_asleep (src/engine/engine_sleep.c), shared by
\*   SleepApi.tla   (mj_wakeIsland / mj_sleepCycle on every valid array, spec -> code),
\*   Sleep.tla      (the sleep/wake phases of one mj_step) and SleepTrace.tla (code -> spec).
\*
\* tree_asleep[t] <  0 : tree t is awake; -(1+MINAWAKE) = fully awake, -1 = ready to sleep (countdown)
\* tree_asleep[t] >= 0 : tree t is asleep; the value is the next tree of its sleeping island (a closed cycle)
EXTENDS Integers, Sequences, FiniteSets
CONSTANTS NT,        \* number of kinematic trees
          MINAWAKE   \* mjMINAWAKE (10 in the library; abstracted to 1-2 for exhaustive runs)

Trees  == 0..(NT - 1)
KAwake == -(1 + MINAWAKE)
World  == -1          \* endpoint of a contact / equality: static body
Mocap  == -2          \* endpoint of a contact / equality: mocap body (counts as awake)
Carried  == -3        \* jointless child body of a mocap body: moves with it, counts as awake
Carried2 == -4        \* jointless grandchild of a mocap body
\* how an equality is defined: weld / connect x between bodies / between SITES (mj_wakeEquality resolves sites to bodies)
WeldBody == 0   ConnectBody == 1   WeldSite == 2   ConnectSite == 3
EqKinds == {WeldBody, ConnectBody, WeldSite, ConnectSite}
\* classification of a body by mj_updateSleep: a dof-less body is "static" unless its ROOT is a mocap body
BodyClass(z) == IF z \in 0..(NT - 1) THEN "dynamic" ELSE IF z \in {Mocap, Carried, Carried2} THEN "mocap-carried" ELSE "static"
NoTree == -1

SetMin(S) == CHOOSE x \in S : \A y \in S : x <= y
SetMax(S) == CHOOSE x \in S : \A y \in S : x >= y
SeqSet(s) == {s[i] : i \in 1..Len(s)}
Sq(f) == [i \in 1..NT |-> f[i - 1]]      \* an array over Trees as a 1-based sequence (how `ev` records arrays)

\* trees met when following the array from cur (stops at an awake tree, a repetition, or after n moves)
RECURSIVE Walk(_, _, _, _)
Walk(a, cur, acc, n) == IF n = 0 \/ a[cur] < 0 \/ cur \in acc THEN acc
                        ELSE Walk(a, a[cur], acc \cup {cur}, n - 1)
Cycle(a, t)  == Walk(a, t, {}, NT)                  \* the sleeping island of t ({} if t is awake)
Flags(a)     == [t \in Trees |-> a[t] < 0]          \* mjData.tree_awake as computed by mj_updateSleep
AwakeSet(a)  == {t \in Trees : a[t] < 0}
AsleepSet(a) == {t \in Trees : a[t] >= 0}

\* "the per-tree sleep array encodes closed cycles of sleeping trees"
Closed(a) == \A t \in Trees : a[t] >= 0 => (a[t] < NT /\ t \in Cycle(a, a[t]))
CycleSets(a) == {Cycle(a, t) : t \in AsleepSet(a)}
\* same sleep state up to the order in which a cycle visits its island
SameSleepState(a, b) == /\ \A t \in Trees : (a[t] < 0 \/ b[t] < 0) => a[t] = b[t]
                        /\ CycleSets(a) = CycleSets(b)

\* mj_sleepCycle(tree_asleep, ntree, i): smallest tree of the cycle through i, -1 if i is not a sleeping tree
CycleMin(a, i) == IF i \notin Trees THEN -1 ELSE IF a[i] < 0 THEN -1 ELSE SetMin(Cycle(a, i))

\* mj_wakeIsland(tree_asleep, ntree, i, wakeval): array afterwards, and the returned number of woken trees
WakeIsland(a, i, wv) == IF a[i] < 0 THEN [a EXCEPT ![i] = IF wv < @ THEN wv ELSE @]
                        ELSE LET c == Cycle(a, i) IN [t \in Trees |-> IF t \in c THEN wv ELSE a[t]]
NWoke(a, i) == IF a[i] < 0 THEN 0 ELSE Cardinality(Cycle(a, i))
NewlyAwake(a, b) == Cardinality({t \in Trees : a[t] >= 0 /\ b[t] < 0})

\* wake every tree of P (each with its island) to fully awake: the sweep of mj_wake
RECURSIVE WakeSet(_, _)
WakeSet(a, P) == IF P = {} THEN a
                 ELSE LET t == SetMin(P) IN
                      WakeSet(IF a[t] >= 0 THEN WakeIsland(a, t, KAwake) ELSE a, P \ {t})

\* successor of t in the ascending cyclic order of S: the cycle mj_sleepTrees builds from map_itree2tree
NextIn(S, t) == IF \E u \in S : u > t THEN SetMin({u \in S : u > t}) ELSE SetMin(S)

\* arrays over a given set of awake values that encode closed cycles
ValidArrays(AwakeVals) == {a \in [Trees -> AwakeVals \cup Trees] : Closed(a)}
=============================================================================
