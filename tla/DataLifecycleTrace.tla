------------------------ MODULE DataLifecycleTrace ------------------------
\* Trace validation (code -> spec) for DataLifecycle.tla with sleeping enabled.  A trace is the list of operations
\* executed on the real library: [op, a, b, sig, g, k, fa, eq] where fa = "every tree fully awake after the call"
\* (read from mjData.tree_asleep) and eq = the list of <<other instance, class>> pairs the harness measured to be
\* bytewise equal to instance a after the call.  The specification's action is taken with the recorded fa; every
\* claim of its obs' must be among the measured equalities, otherwise a line <<"MISS", trace, event, instance, class>>
\* is printed (the trace is still consumed, so that every miss of a trace is reported).
EXTENDS DataLifecycle, Json, IOUtils, TLCExt
Traces == JsonDeserialize(IOEnv.TRACE_FILE)
VARIABLES tid, l
tvars == <<vars, tid, l>>
TInit == /\ tid \in 1..Len(Traces) /\ TLCSet(tid, 0) /\ l = 1 /\ Init
Cur == Traces[tid][l]
Measured(c) == \E i \in DOMAIN Cur.eq : Cur.eq[i] = c
ClaimsHold == \A c \in obs' : Measured(c) \/ PrintT(<<"MISS", tid, l, c[1], c[2]>>)
TStep ==
  \/ /\ Cur.op = "make" /\ Cur.fa /\ MakeData(Cur.a)
  \/ /\ Cur.op = "reset" /\ Cur.fa /\ ResetData(Cur.a)
  \/ /\ Cur.op = "copydata" /\ CopyData(Cur.a, Cur.b)
  \/ /\ Cur.op = "copystate" /\ CopyState(Cur.a, Cur.b, Cur.sig)
  \/ /\ Cur.op = "getstate" /\ GetState(Cur.a, Cur.sig)
  \/ /\ Cur.op = "setstate" /\ SetState(Cur.a)
  \/ /\ Cur.op = "setinput" /\ SetInput(Cur.a, Cur.g, Cur.k)
  \/ /\ Cur.op = "setall" /\ SetAll(Cur.a, Cur.k)
  \/ /\ Cur.op = "setqacc" /\ SetQacc(Cur.a, Cur.k)
  \/ /\ Cur.op = "forward" /\ Forward(Cur.a, Cur.fa)
  \/ /\ Cur.op = "inverse" /\ Inverse(Cur.a, Cur.fa)
  \/ /\ Cur.op = "step" /\ Step(Cur.a, Cur.fa)
  \/ /\ Cur.op = "step1" /\ Step1(Cur.a, Cur.fa)
  \/ /\ Cur.op = "step2" /\ Step2(Cur.a, Cur.fa)
TNext == l <= Len(Traces[tid]) /\ l' = l + 1 /\ UNCHANGED tid /\ TStep /\ ClaimsHold
TSpec == TInit /\ [][TNext]_tvars
Track == IF l - 1 > TLCGet(tid) THEN TLCSet(tid, l - 1) ELSE TRUE
Report == /\ \A t \in 1..Len(Traces) : PrintT(<<"TRACE", t, TLCGet(t), Len(Traces[t])>>)
          /\ \A t \in 1..Len(Traces) : TLCGet(t) = Len(Traces[t])
=============================================================================
