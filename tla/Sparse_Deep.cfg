SPECIFICATION Spec
CONSTANTS
  Suites <- ThoroughSuites
  Bug = "none"
INVARIANT Denotes
INVARIANT Structure
INVARIANT SparseIsDense
INVARIANT RoundTrip
INVARIANT TransposeTwice
INVARIANT CompressKeeps
INVARIANT SqrSymmetric
INVARIANT FactorSolves
CHECK_DEADLOCK FALSE
