----------------------------- MODULE SleepTrace -----------------------------
\* code -> spec for C18: every recorded mj_step of a real simulation with mjENBL_SLEEP must be explained by the phase
\* actions of Sleep.tla (WakeCore, CollideCore, WeqCore, SleepCore) fed with the inputs the harness logged for
\* that step (harness/sleep_drv.cc: sstep):
\*   pq      trees whose qpos the user changed since the previous step      forced  trees with non-zero applied force
\*   nzv0    trees with a non-zero qvel entry before the step               slow    trees under the velocity tolerance
\*   con     contact list after the step <<x, y, exclude>> (tree ids, -1 static, -2 mocap body, -3 jointless body carried by a mocap body), in mjData order
\*   eqs     equalities <<x, y, active>>
\* and the observations after the step
\*   ta      mjData.tree_asleep       isl  mjData.tree_island (-1 everywhere if there is no island)
\*   moved   trees whose qpos bits changed during the step                  nzv  trees with a non-zero qvel entry
\*   twin    1 / 0: an identical mjData stepped with sleeping DISABLED produced / did not produce the same bits, -1: not run
\*   contw   the contact list of that twin
\* A trace = [hdr |-> [ta0, never, noisl], steps |-> <<...>>].  One recorded step = Env, Wake, Collide, WakeEq, Sleep.
\* The step is accepted iff the array after SleepCore is the recorded one (same countdowns, same cycles as sets), the
\* recorded array encodes closed cycles, sleeping trees did not move and have zero velocity, the island ids agree,
\* and - when no tree was asleep at any time of the step - the sleep-disabled twin agrees bit for bit.
\* On a mismatch the set of failed clauses is left in a TLC register and printed by the post-condition.
EXTENDS Sleep, Json, IOUtils, TLCExt
Traces == JsonDeserialize(IOEnv.TRACE_FILE)
NTr == Len(Traces)
VARIABLES tid, l,
          aw0      \* TRUE iff every tree was awake when the current step began
tvars == <<vars, tid, l, aw0>>
Hdr == Traces[tid].hdr
Cur == Traces[tid].steps[l]
Fn0(s) == [t \in Trees |-> s[t + 1]]

LogP       == SeqSet(Cur.pq) \cup SeqSet(Cur.forced) \cup SeqSet(Cur.nzv0)
LogCon     == [i \in 1..Len(Cur.con) |-> <<Cur.con[i][1], Cur.con[i][2]>>]
LogEqs     == [i \in 1..Len(Cur.eqs) |-> <<Cur.eqs[i][1], Cur.eqs[i][2]>>]
LogAct     == [i \in 1..Len(Cur.eqs) |-> Cur.eqs[i][3] = 1]
LogQuiet   == SeqSet(Cur.slow) \ (SeqSet(Cur.forced) \cup SeqSet(Hdr.never))
\* constraints that couple two trees / involve one tree only (contacts that produce constraint rows, active equalities)
ConOK(c)  == c[3] = 0
IsPair(c) == IsTree(c[1]) /\ IsTree(c[2]) /\ c[1] # c[2]
ConIdx == {j \in 1..Len(Cur.con) : ConOK(Cur.con[j])}
EqIdx  == {j \in 1..Len(Cur.eqs) : Cur.eqs[j][3] = 1}
LogCoupled == {{Cur.con[a][1], Cur.con[a][2]} : a \in {j \in ConIdx : IsPair(Cur.con[j])}}
              \cup {{Cur.eqs[b][1], Cur.eqs[b][2]} : b \in {j \in EqIdx : IsPair(Cur.eqs[j])}}
ConSingle(t) == \E a \in ConIdx : (t \in {Cur.con[a][1], Cur.con[a][2]} /\ ~IsPair(Cur.con[a]))
EqSingle(t)  == \E b \in EqIdx : (t \in {Cur.eqs[b][1], Cur.eqs[b][2]} /\ ~IsPair(Cur.eqs[b]))
LogSingles == {t \in Trees : ConSingle(t) \/ EqSingle(t)}

TInit == /\ tid \in 1..NTr /\ TLCSet(tid, 0) /\ TLCSet(NTr + tid, {}) /\ l = 1
         /\ ta = Fn0(Traces[tid].hdr.ta0) /\ geo = {} /\ eqact = << >> /\ user = NoUser /\ frc = NoTree /\ mtouch = NoTouch
         /\ phase = "env" /\ ev = [ph |-> "init"] /\ aw0 = TRUE
EnvVars == <<geo, eqact, user, frc, mtouch>>

TEnv == /\ phase = "env" /\ l <= Len(Traces[tid].steps)
        /\ phase' = "wake" /\ ev' = [ph |-> "env"] /\ aw0' = (AsleepSet(ta) = {})
        /\ UNCHANGED <<ta, EnvVars, tid, l>>
TWake    == WakeCore(LogP, "log") /\ UNCHANGED <<EnvVars, tid, l, aw0>>
TCollide == CollideCore(FirstPass(LogCon, Flags(ta))) /\ UNCHANGED <<EnvVars, tid, l, aw0>>
TWeq     == WeqCore(LogEqs, LogAct) /\ UNCHANGED <<EnvVars, tid, l, aw0>>

\* the collision pass that produced the recorded contacts saw the array left by mj_wakeCollision (= before mj_wakeEquality);
\* it must have found exactly the contacts a sleep-disabled twin finds between pairs with an awake body
PairCount(s, x, y) == Cardinality({i \in 1..Len(s) : {s[i][1], s[i][2]} = {x, y}})
ContactsComplete ==
  LET st == [t \in Trees |-> ev.before[t + 1] < 0]
      tw == FirstPass([i \in 1..Len(Cur.contw) |-> <<Cur.contw[i][1], Cur.contw[i][2]>>], st)
      ends == Trees \cup {World, Mocap, Carried}
  IN \A x, y \in ends : PairCount(LogCon, x, y) = PairCount(tw, x, y)
\* clauses of the property that the recorded step violates, given the array a2 the specification computes
Failed(a2) ==
  LET rec == Fn0(Cur.ta) IN
     (IF Closed(rec) THEN {} ELSE {"cycles-not-closed"})
  \cup (IF Closed(rec) /\ ~SameSleepState(a2, rec) THEN {"sleep-state"} ELSE {})
  \cup (IF FrozenOK(ta, rec, SeqSet(Cur.pq), SeqSet(Cur.moved)) THEN {} ELSE {"qpos-changed-while-asleep"})
  \cup (IF ZeroVelOK(rec, SeqSet(Cur.nzv)) THEN {} ELSE {"qvel-nonzero-while-asleep"})
  \cup (IF Hdr.noisl = 1 \/ Fn0(Cur.isl) = TreeIsland(ta, LogCoupled, LogSingles) THEN {} ELSE {"island-ids"})
  \cup (IF Cur.twin = 0 /\ aw0 /\ AsleepSet(ta) = {} /\ AsleepSet(rec) = {} THEN {"differs-from-sleep-disabled"} ELSE {})
  \cup (IF Cur.twin = -1 \/ ContactsComplete THEN {} ELSE {"contacts-differ-from-sleep-disabled"})
TSleep ==
  /\ phase = "sleep"
  /\ LET a2  == SleepResult(ta, LogQuiet, LogCoupled, LogSingles, Hdr.noisl = 1)
         bad == Failed(a2)
     IN IF bad = {}
        THEN /\ SleepCore(LogQuiet, LogCoupled, LogSingles, Hdr.noisl = 1)
             /\ l' = l + 1 /\ UNCHANGED <<EnvVars, tid, aw0>>
        ELSE /\ TLCSet(NTr + tid, bad)
             /\ phase' = "dead" /\ UNCHANGED <<ta, ev, EnvVars, tid, l, aw0>>
TNext == TEnv \/ TWake \/ TCollide \/ TWeq \/ TSleep
TSpec == TInit /\ [][TNext]_tvars

TTypeOK == \A t \in Trees : ta[t] \in KAwake..(NT - 1)
Track == IF l - 1 > TLCGet(tid) THEN TLCSet(tid, l - 1) ELSE TRUE
Report == /\ \A t \in 1..NTr : PrintT(<<"TRACE", t, TLCGet(t), Len(Traces[t].steps)>>)
          /\ \A t \in 1..NTr : TLCGet(NTr + t) = {} \/ PrintT(<<"WHY", t, TLCGet(NTr + t)>>)
          /\ \A t \in 1..NTr : TLCGet(t) = Len(Traces[t].steps)
=============================================================================
