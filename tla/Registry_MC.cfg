SPECIFICATION Spec
CONSTANTS
  MaxOps = 4
  Keys <- MC_Keys
  Bodies = {1, 2}
INVARIANT OneSlotPerKey
INVARIANT NameSlotAgree
PROPERTY Stable
PROPERTY IdenticalReturnsSlot
PROPERTY ConflictFails
CHECK_DEADLOCK FALSE
