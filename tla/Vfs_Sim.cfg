SPECIFICATION Spec
CONSTANTS
  MaxOps = 12
  Dots <- AllDots
  DotDots <- AllDD
  Seps <- BothSeps
INVARIANT TypeOK
CHECK_DEADLOCK FALSE
