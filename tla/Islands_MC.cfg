SPECIFICATION Spec
CONSTANTS
  N = 4
  MaxOps = 3
INVARIANT TypeOK
INVARIANT ActiveIff
INVARIANT Forest
INVARIANT RootIsMin
INVARIANT SameRootIffConnected
INVARIANT AssignMatches
INVARIANT AssignAscending
PROPERTY RootReturnsCoded
PROPERTY QueriesKeepPartition
PROPERTY MergeJoins
CHECK_DEADLOCK FALSE
