------------------------- MODULE StackArenaTrace -------------------------
\* code -> spec: allocator events recorded from the real library (harness/arena_drv.cc) are explained by the
\* actions of StackArena.  Two kinds of recorded traces (one JSON file, one TLC run for all of them):
\*
\*  kind "seq"   : the calls the ENGINE made during public API calls (mj_step, mj_forward, ...), recorded by
\*                 interposing the exported entry points; events  call / mark / free / alloc / aalloc / ret / raise.
\*                 Every event carries pstack, parena, pbase after the call (and pa0 = parena before it: the engine
\*                 also moves parena by plain assignment, which is the environment action ArenaSet here).
\*                 `ret` must find the stack pointer, the frame and the nesting depth of the matching `call`.
\*  kind "burst" : real pool-style threads allocated concurrently under the lock; per thread the sequence of
\*                 (size, align, returned offset).  TLC searches for an order of the atomic reservations
\*                 (TReserve) that explains every returned pointer and the final pstack.
EXTENDS StackArena, Json, IOUtils, TLCExt
Traces == JsonDeserialize(IOEnv.TRACE_FILE)
VARIABLES tid,      \* trace being explained
          l,        \* next sequential event
          pos,      \* burst: thread -> next event of that thread
          callst    \* allocator state at the pending `call`
tvars == <<vars, tid, l, pos, callst>>
Tr  == Traces[tid]
Cur == Tr.ev[l]
NoCall == [pstack |-> -1, pbase |-> -1, depth |-> -1]

TInit == /\ tid \in 1..Len(Traces) /\ TLCSet(tid, 0)
         /\ l = 1 /\ pos = [t \in Threads |-> 1] /\ callst = NoCall
         /\ narena = Traces[tid].narena /\ rz = 0 /\ InitRest

Consume == l <= Len(Tr.ev) /\ l' = l + 1 /\ UNCHANGED <<tid, pos>>
PbOf(p) == IF p = 0 THEN -1 ELSE p - Base
Match == pstack' = Cur.pstack /\ parena' = Cur.parena /\ PbOf(pbase') = Cur.pbase
Same  == pstack = Cur.pstack /\ PbOf(pbase) = Cur.pbase
Res   == ev'.st = Cur.st /\ (Cur.st = "ok" => ev'.ret = Cur.ret)

\* the engine rewinds / realigns the arena pointer by assignment (resetArena, alignArena, d->parena = ...)
ArenaSet ==
  /\ l <= Len(Tr.ev) /\ Cur.pa0 # parena /\ ~lock
  /\ Cur.pa0 >= 0 /\ Cur.pa0 + pstack <= narena
  /\ parena' = Cur.pa0
  /\ live' = {b \in live : b.kind # "arena" \/ b.hi <= Base + Cur.pa0}
  /\ UNCHANGED <<narena, rz, pstack, pbase, frames, lock, pend, dead, nops, ev, tid, l, pos, callst>>

TCall  == /\ Consume /\ Cur.op = "call" /\ Cur.pa0 = parena /\ Same /\ callst = NoCall
          /\ callst' = [pstack |-> pstack, pbase |-> pbase, depth |-> Len(frames)] /\ UNCHANGED vars
\* every public call returns with the stack pointer (and frame) it started with
TRet   == /\ Consume /\ Cur.op = "ret" /\ Cur.pa0 = parena /\ Same
          /\ pstack = callst.pstack /\ pbase = callst.pbase /\ Len(frames) = callst.depth
          /\ callst' = NoCall /\ UNCHANGED vars
\* an error was raised inside the call: nothing is promised about the stack until mj_resetData
TRaise == /\ Consume /\ Cur.op = "raise" /\ callst' = NoCall /\ UNCHANGED vars
TMark  == Consume /\ Cur.op = "mark"   /\ Cur.pa0 = parena /\ Mark /\ Res /\ Match /\ UNCHANGED callst
TFree  == Consume /\ Cur.op = "free"   /\ Cur.pa0 = parena /\ Free /\ Match /\ UNCHANGED callst
TAlloc == Consume /\ Cur.op = "alloc"  /\ Cur.pa0 = parena /\ Alloc(Cur.size, Cur.al) /\ Res /\ Match /\ UNCHANGED callst
TArena == Consume /\ Cur.op = "aalloc" /\ Cur.pa0 = parena /\ ArenaAlloc(Cur.size, Cur.al) /\ Res /\ Match /\ UNCHANGED callst
TLock  == Consume /\ Cur.op = "lock"   /\ Cur.pa0 = parena /\ LockOn /\ Res /\ Match /\ UNCHANGED callst
TUnlock == Consume /\ Cur.op = "unlock" /\ Cur.pa0 = parena /\ LockOff /\ Match /\ UNCHANGED callst
           /\ (Tr.kind = "burst" => (pstack = Cur.p1 /\ \A t \in Threads : pos[t] > Len(Tr.th[t])))

\* ---- burst: find a linearisation of the concurrent reservations
InBurst == Tr.kind = "burst" /\ lock /\ l <= Len(Tr.ev) /\ Cur.op = "unlock"
BReserve(t) ==
  /\ InBurst /\ pos[t] <= Len(Tr.th[t]) /\ \A u \in Threads : pend[u] = NoPend
  /\ TReserve(t, Tr.th[t][pos[t]].size, Tr.th[t][pos[t]].al)
  /\ pos' = [pos EXCEPT ![t] = pos[t] + 1] /\ UNCHANGED <<tid, l, callst>>
BFinish(t) ==
  /\ InBurst /\ pend[t] # NoPend /\ TFinish(t)
  /\ ev'.st = "ok" /\ ev'.ret = Tr.th[t][pos[t] - 1].ret
  /\ UNCHANGED <<tid, l, pos, callst>>

TNext == \/ ArenaSet \/ TCall \/ TRet \/ TRaise \/ TMark \/ TFree \/ TAlloc \/ TArena \/ TLock \/ TUnlock
         \/ \E t \in Threads : BReserve(t) \/ BFinish(t)
TSpec == TInit /\ [][TNext]_tvars

\* progress measure: sequential events explained + burst events explained
Progress == (l - 1) + (IF Tr.kind = "burst" THEN LET S[k \in 0..Cardinality(Threads)] ==
                                                      IF k = 0 THEN 0 ELSE S[k - 1] + (pos[k] - 1) IN S[Cardinality(Threads)]
                       ELSE 0)
Total(t) == Len(Traces[t].ev) + (IF Traces[t].kind = "burst"
                                 THEN LET S[k \in 0..Cardinality(Threads)] ==
                                          IF k = 0 THEN 0 ELSE S[k - 1] + Len(Traces[t].th[k]) IN S[Cardinality(Threads)]
                                 ELSE 0)
Track == IF Progress > TLCGet(tid) THEN TLCSet(tid, Progress) ELSE TRUE
Report == /\ \A t \in 1..Len(Traces) : PrintT(<<"TRACE", t, TLCGet(t), Total(t)>>)
          /\ \A t \in 1..Len(Traces) : TLCGet(t) = Total(t)
=============================================================================
