--------------------------- MODULE SmoothLattice ---------------------------
\* Smooth (unconstrained) rigid-body dynamics of MuJoCo on an EXACT INTEGER LATTICE.
\*   src/engine/engine_core_smooth.c : mj_kinematics, mj_comPos, mj_crb/mj_makeM, mj_factorM, mj_comVel, mj_rne
\*   src/engine/engine_core_util.c   : mj_jac*, mj_jacDot, mj_objectVelocity
\*   src/engine/engine_support.c     : mj_mulM, mj_fullM, mj_integratePos, mj_differentiatePos
\*   src/engine/engine_passive.c     : mj_passive (springs, dampers, gravity compensation, fixed tendons)
\*   src/engine/engine_sensor.c      : mj_energyPos, mj_energyVel
\*
\* A model is a kinematic tree of at most MaxBodies bodies in depth-first order.  Every body carries at most one
\* joint (slide or hinge) whose axis is a signed coordinate axis of the body frame; body offsets, joint anchors,
\* inertial offsets, masses, principal inertias, armatures, stiffnesses, dampings are integers; the static body
\* orientation and the hinge angles are multiples of a quarter turn, so every frame is a signed permutation matrix
\* and every quantity below is an integer (or an integer multiple of u = pi/2, u^2 for hinge springs).
\*
\* Everything is derived BY DEFINITION (no algorithm of the implementation is copied):
\*   Kin      frames by composing the parent frame, the fixed offset and the joint displacement
\*   Jac      Jacobian column of dof j at point x = axis (slide) or axis x (x - anchor) (hinge), for ancestors only
\*   Mass     M = sum_b  m_b JP_b' JP_b + JR_b' I_b JR_b  + diag(armature) + tendon armature * c c'
\*   Vel/Dyn  projected Newton-Euler (Kane): tau_i = sum_b JP_b[i].m_b(acc_b - g) + JR_b[i].(I alpha + w x I w) with
\*            acc = Jdot v + J a;  AND a second, independent derivation: the textbook recursive Newton-Euler pass
\*            over the tree in world coordinates (RecNE).  TLC decides that both agree on the whole lattice.
\*   Passive  spring = -k (q - qref), damper = -d v, gravcomp = -gc J' m g, fixed tendon spring with dead band
\*   Energy   potential and kinetic energy, the latter body by body (not through M)
\* Finite differences along lattice moves are EXACT here and decide the derivative clauses:
\*   a quarter turn forth and back gives  x(q+e) - x(q-e) = 2 dx/dq  (x is const + cos, sin terms), slides are linear,
\*   potentials are quadratic per coordinate, the bias force is quadratic in the velocity.
\*
\* Behaviour = build phase (PickA, PickB, PickC per body, PickG) followed by one action per pipeline stage
\* (Kin, Fd, Vel, Mass, Dyn, Passive, Energy, Finish).  Finish publishes `ev`, the oracle of the replay.
\* Rand = FALSE enumerates every choice (exhaustive model checking of the small lattices); Rand = TRUE draws every
\* choice with RandomElement (TLC -simulate over the large lattices: one successor per step, reproducible per seed).
\* Configurations: SmoothLattice_C07*.cfg (kinematics), _C06*.cfg (inertia / Newton-Euler), _C29*.cfg (passive forces),
\* _Cov.cfg (coverage of every action), _C0xNeg.cfg (deliberately false claims that TLC must refute).
\* SmoothFwdInv.tla extends this module with forward / inverse dynamics scenarios (C09).
EXTENDS Integers, Sequences, FiniteSets, TLC

CONSTANTS MinBodies, MaxBodies,
          JTypes,      \* subset of {"none", "slide", "hinge"}
          Axes,        \* subset of {-3,-2,-1,1,2,3}: signed coordinate axis of the joint in the body frame
          Offsets,     \* body_pos
          Rots,        \* static body orientation <<signed axis, quarter turns>>
          Anchors,     \* jnt_pos
          SitePos, SiteRots,
          Masses, Inertias, IPoss, Arms, Stiffs, Refs, Damps, GCs, TCoefs,
          Qs, Vs, As,
          QScales,     \* ball joints: factor <<num, den>> by which the quaternion stored in qpos is scaled (non-unit quaternions
                       \* are accepted input; kinematics do not depend on the factor)
          Gravs,       \* gravity vectors
          DisSets,     \* sets of disabled features, subsets of {"spring", "damper", "gravity"}
          TenK, TenRanges, TenDamps, TenArms,
          TenZero,     \* subset of BOOLEAN: TRUE = every other joint is wrapped by the fixed tendon with coefficient 0
          SpPairs,     \* spatial tendon <<b1, b2>>: straight segment between the sites of two bodies (0 = world site,
                       \* at the origin); <<0, 0>> = none.  It exists only where its length is a positive integer.
          SpArms,      \* its armature
          Sleeps,      \* subset of BOOLEAN: TRUE = sleeping enabled (mjENBL_SLEEP); the last kinematic tree with dofs is then at
                       \* rest in its reference pose and initialised asleep (policy "init"), the other trees never sleep
          StiffPolys, DampPolys,        \* joints: higher-order coefficients <<b, c>> of the stiffness / damping polynomials
          TenKPolys, TenDPolys,         \* fixed tendon: the same
          SpStiffs, SpRanges, SpDamps,  \* spatial tendon: stiffness <<a, b, c>>, spring dead band <<lo, hi>>, damping <<a, b, c>>
          Level,       \* 1: kinematics only, 2: + mass matrix and dynamics, 3: + passive forces and energy
          Tie,         \* TRUE (enumeration only): a body has its joint anchor and its inertial frame both at the body
                       \* origin or neither (keeps the exhaustive lattices small while covering MuJoCo's "simple" bodies)
          Rand         \* FALSE: every choice is enumerated (model checking); TRUE: every choice is drawn at random
                       \* (simulation of the large lattices: one successor per step instead of thousands)

\* ------------------------------------------------------------------------------------------------
\* integer vectors and 3x3 matrices (tuples of rows)
\* ------------------------------------------------------------------------------------------------
IAbs(i) == IF i < 0 THEN 0 - i ELSE i
Z3 == <<0, 0, 0>>
I3 == <<<<1, 0, 0>>, <<0, 1, 0>>, <<0, 0, 1>>>>
VAdd(a, b) == <<a[1] + b[1], a[2] + b[2], a[3] + b[3]>>
VSub(a, b) == <<a[1] - b[1], a[2] - b[2], a[3] - b[3]>>
VScl(k, a) == <<k * a[1], k * a[2], k * a[3]>>
Dot(a, b)  == a[1] * b[1] + a[2] * b[2] + a[3] * b[3]
Cross(a, b) == <<a[2] * b[3] - a[3] * b[2], a[3] * b[1] - a[1] * b[3], a[1] * b[2] - a[2] * b[1]>>
MV(R, x)   == <<Dot(R[1], x), Dot(R[2], x), Dot(R[3], x)>>
Col(R, j)  == <<R[1][j], R[2][j], R[3][j]>>
Tr(R)      == <<Col(R, 1), Col(R, 2), Col(R, 3)>>
MM(A, B)   == LET c1 == Col(B, 1)  c2 == Col(B, 2)  c3 == Col(B, 3) IN
              <<<<Dot(A[1], c1), Dot(A[1], c2), Dot(A[1], c3)>>,
                <<Dot(A[2], c1), Dot(A[2], c2), Dot(A[2], c3)>>,
                <<Dot(A[3], c1), Dot(A[3], c2), Dot(A[3], c3)>>>>
Diag(d)    == <<<<d[1], 0, 0>>, <<0, d[2], 0>>, <<0, 0, d[3]>>>>
Det3(R)    == Dot(R[1], Cross(R[2], R[3]))
AxisVecRaw(ax) == [j \in 1..3 |-> IF j = IAbs(ax) THEN (IF ax < 0 THEN -1 ELSE 1) ELSE 0]
Cosq(k) == LET r == k % 4 IN IF r = 0 THEN 1 ELSE IF r = 2 THEN -1 ELSE 0
Sinq(k) == LET r == k % 4 IN IF r = 1 THEN 1 ELSE IF r = 3 THEN -1 ELSE 0
\* rotation of x by k quarter turns about the unit vector z (Rodrigues; exact for quarter turns)
RotV(z, k, x) == VAdd(x, VAdd(VScl(Sinq(k), Cross(z, x)), VScl(1 - Cosq(k), Cross(z, Cross(z, x)))))
RotMat(z, k)  == Tr(<<RotV(z, k, <<1, 0, 0>>), RotV(z, k, <<0, 1, 0>>), RotV(z, k, <<0, 0, 1>>)>>)
\* constant tables (TLC evaluates constant definitions once): signed axes and their quarter-turn rotations
SAxes   == {-3, -2, -1, 1, 2, 3}
AxisTab == [ax \in SAxes |-> AxisVecRaw(ax)]
RotTab  == [ax \in SAxes |-> [k \in 0..3 |-> RotMat(AxisVecRaw(ax), k)]]
AxisVec(ax) == AxisTab[ax]
MulRot(R, ax, k) == IF k % 4 = 0 THEN R ELSE MM(R, RotTab[ax][k % 4])       \* R * (k quarter turns about axis ax)
RECURSIVE SumN(_, _)
SumN(f, k)  == IF k = 0 THEN 0 ELSE f[k] + SumN(f, k - 1)
RECURSIVE VSumN(_, _)
VSumN(f, k) == IF k = 0 THEN Z3 ELSE VAdd(f[k], VSumN(f, k - 1))

\* ------------------------------------------------------------------------------------------------
VARIABLES stage,  \* "A" | "B" | "C" | "kin" | "fd" | "vel" | "mass" | "dyn" | "pas" | "en" | "fin" | "done"
          B,      \* sequence of bodies (records), depth-first order: B[b].par < b
          part,   \* the body being built
          glob,   \* [g, dis, tk, trange, tdamp, tarm]
          tree,   \* [anc: per body the set of the body and its ancestors, dofs: bodies that carry a dof, in order]
          kin,    \* per body: frames
          fd,     \* per body with a joint: frames of the whole tree at q + e_b and q - e_b
          vel,    \* per body: angular velocity, velocity of origin / com / site (J v), axis rate and anchor velocity
          mass,   \* [M, Mb] over bodies (rows/columns of jointless bodies are zero)
          dyn,    \* [bias, biasR, tauK, tauR, fs, kin2, biasP, biasM]
          pas,    \* passive forces
          en,     \* energies
          ev      \* published result
vars == <<stage, B, part, glob, tree, kin, fd, vel, mass, dyn, pas, en, ev>>

n == Len(B)
HasJ(j) == B[j].jt \in {"slide", "hinge"}            \* carries ONE dof.  A "ball" joint (orientation = q quarter turns about its
                                                      \* axis, any stored quaternion scale) takes part in the kinematics only
IsS(j)  == B[j].jt = "slide"
IsH(j)  == B[j].jt = "hinge"
RECURSIVE AncOf(_, _)
AncOf(bs, b) == IF b = 0 THEN {} ELSE {b} \cup AncOf(bs, bs[b].par)
Anc(b) == tree.anc[b]                                  \* b and its ancestors (world excluded)
Dofs   == tree.dofs                                    \* bodies that carry a dof, in dof order
nv     == Len(tree.dofs)
QOf    == [b \in 1..n |-> B[b].q]
VOf    == [b \in 1..n |-> B[b].v]
AOf    == [b \in 1..n |-> B[b].a]
ZeroN  == [b \in 1..n |-> 0]
Bump(f, b, d) == [f EXCEPT ![b] = @ + d]
Dis(x) == x \in glob.dis
Grav   == IF Dis("gravity") THEN Z3 ELSE glob.g

\* ------------------------------------------------------------------------------------------------
\* build phase
\* ------------------------------------------------------------------------------------------------
\* parents keeping depth-first order: the previous body or one of its ancestors, or the world
Parents == IF n = 0 THEN {0} ELSE {0} \cup AncOf(B, n)

Init == /\ stage = "A" /\ B = << >> /\ part = << >> /\ glob = << >> /\ tree = << >> /\ kin = << >> /\ fd = << >>
        /\ vel = << >> /\ mass = << >> /\ dyn = << >> /\ pas = << >> /\ en = << >> /\ ev = [op |-> "init"]

\* choices that do not apply are normalised (a jointless body has no joint parameters); when enumerating, the
\* duplicates are pruned by the guard
Pick(S) == IF Rand THEN {RandomElement(S)} ELSE S
Canon(S) == CHOOSE x \in S : TRUE          \* the one choice that is enumerated where the choice does not matter
PickA(par, jt, ax, pos, rot, janc, spos, srot) ==
  /\ n < MaxBodies
  /\ (~Rand /\ jt = "none") => (ax = Canon(Axes) /\ janc = Canon(Anchors))
  /\ part' = [par |-> par, jt |-> jt, ax |-> IF jt = "none" THEN 1 ELSE ax, pos |-> pos, rot |-> rot,
              janc |-> IF jt = "none" THEN Z3 ELSE janc, spos |-> spos, srot |-> srot]
  /\ stage' = "B"
  /\ UNCHANGED <<B, glob, tree, kin, fd, vel, mass, dyn, pas, en, ev>>

\* a fixed tendon spans joints of one type only (its length then has one unit)
TenTypeOK(jt, tc) == tc # 0 => \A j \in 1..n : B[j].tc # 0 => B[j].jt = jt
PickB(m, inr, ipos, arm, k, kp, qref, damp, dp, gc, tc) ==
  LET nj == part.jt \notin {"slide", "hinge"}
      tcOK == ~nj /\ TenTypeOK(part.jt, tc) IN
  /\ (~Rand /\ nj) => (arm = Canon(Arms) /\ k = Canon(Stiffs) /\ qref = Canon(Refs) /\ damp = Canon(Damps) /\ tc = Canon(TCoefs)
                        /\ kp = Canon(StiffPolys) /\ dp = Canon(DampPolys))
  /\ (~Rand /\ Tie) => ((part.janc = Z3) <=> (ipos = Z3))
  /\ ~Rand => TenTypeOK(part.jt, tc)
  /\ part' = part @@ [mass |-> m, inr |-> inr, ipos |-> ipos, arm |-> IF nj THEN 0 ELSE arm, k |-> IF nj THEN 0 ELSE k,
                      qref |-> IF nj THEN 0 ELSE qref, damp |-> IF nj THEN 0 ELSE damp,
                      kp |-> IF nj THEN <<0, 0>> ELSE kp, dp |-> IF nj THEN <<0, 0>> ELSE dp,
                      gc |-> gc, tc |-> IF tcOK THEN tc ELSE 0]
  /\ stage' = "C"
  /\ UNCHANGED <<B, glob, tree, kin, fd, vel, mass, dyn, pas, en, ev>>

PickC(q, v, a, qs) ==
  LET nj == part.jt = "none"
      bl == part.jt = "ball" IN
  /\ (~Rand /\ nj) => q = Canon(Qs)
  /\ (~Rand /\ (nj \/ bl)) => (v = Canon(Vs) /\ a = Canon(As))
  /\ (~Rand /\ ~bl) => qs = Canon(QScales)
  /\ B' = Append(B, part @@ [q |-> IF nj THEN 0 ELSE q, v |-> IF nj \/ bl THEN 0 ELSE v, a |-> IF nj \/ bl THEN 0 ELSE a,
                             qs |-> IF bl THEN qs ELSE <<1, 1>>])
  /\ part' = << >>
  /\ stage' = "A"
  /\ UNCHANGED <<glob, tree, kin, fd, vel, mass, dyn, pas, en, ev>>

HasTendon == \E j \in 1..n : B[j].tc # 0
NoSp == <<0, 0>>
SpValid(sp) == sp = NoSp \/ (sp[1] # sp[2] /\ sp[1] <= n /\ sp[2] <= n)
\* roots of the kinematic trees, in order; the bodies of the last tree
\* (a tree starts at the first movable body: a body with a joint none of whose proper ancestors has one)
RootsOf(bs) == SelectSeq([i \in 1..Len(bs) |-> i],
                         LAMBDA r : bs[r].jt # "none" /\ \A k \in AncOf(bs, r) \ {r} : bs[k].jt = "none")
LastTree(bs) == LET rs == RootsOf(bs) IN {b \in 1..Len(bs) : rs[Len(rs)] \in AncOf(bs, b)}
\* sleeping applies to models with at least two trees and no tendon
SleepOK(bs, sp) == Len(RootsOf(bs)) >= 2 /\ sp = NoSp        \* (MuJoCo restricts tendons across trees when sleeping is enabled)
PickG(g, dis, tk, tkp, tr, td, tdp, ta, tz, sp0, sa, ssk, ssr, ssd, sl0) ==
  LET sp == IF Rand /\ (~SpValid(sp0) \/ sa = 0) THEN NoSp ELSE sp0
      sl == sl0 /\ SleepOK(B, sp)
      \* the sleeping tree rests in its reference pose; no fixed tendon
      Bs == IF sl THEN [b \in 1..n |-> IF b \in LastTree(B) THEN [B[b] EXCEPT !.q = 0, !.v = 0, !.a = 0, !.tc = 0]
                                       ELSE [B[b] EXCEPT !.tc = 0]] ELSE B
      ht == \E j \in 1..n : Bs[j].tc # 0 IN
  /\ n >= MinBodies
  /\ (~Rand /\ ~ht) => (tk = Canon(TenK) /\ td = Canon(TenDamps) /\ ta = Canon(TenArms) /\ tr = Canon(TenRanges) /\ tz = Canon(TenZero)
                         /\ tkp = Canon(TenKPolys) /\ tdp = Canon(TenDPolys))
  /\ (~Rand /\ sp = NoSp) => (ssk = Canon(SpStiffs) /\ ssr = Canon(SpRanges) /\ ssd = Canon(SpDamps))
  /\ ssr[1] <= ssr[2]
  /\ tr[1] <= tr[2]
  /\ SpValid(sp)
  /\ ~Rand => ((sp = NoSp) <=> (sa = 0))
  /\ (~Rand /\ sl0) => sl
  /\ B' = Bs
  /\ glob' = [g |-> g, dis |-> dis, sleep |-> sl, tk |-> IF ht THEN tk ELSE 0, trange |-> IF ht THEN tr ELSE <<0, 0>>,
              tdamp |-> IF ht THEN td ELSE 0, tarm |-> IF ht THEN ta ELSE 0, tz |-> ht /\ tz,
              tkp |-> IF ht THEN tkp ELSE <<0, 0>>, tdp |-> IF ht THEN tdp ELSE <<0, 0>>,
              sp |-> sp, sarm |-> IF sp = NoSp THEN 0 ELSE sa,
              ssk |-> IF sp = NoSp THEN <<0, 0, 0>> ELSE ssk, ssr |-> IF sp = NoSp THEN <<0, 0>> ELSE ssr,
              ssd |-> IF sp = NoSp THEN <<0, 0, 0>> ELSE ssd]
  /\ tree' = [anc |-> [b \in 1..n |-> AncOf(B, b)], dofs |-> SelectSeq([i \in 1..n |-> i], HasJ)]
  /\ stage' = "kin"
  /\ UNCHANGED <<part, kin, fd, vel, mass, dyn, pas, en, ev>>

\* ------------------------------------------------------------------------------------------------
\* Kin : frames.  hinge angle q = number of quarter turns, slide displacement q = integer
\* ------------------------------------------------------------------------------------------------
BodyKin(b, qk, prev) ==
  LET pp   == IF b.par = 0 THEN Z3 ELSE prev[b.par].p
      pR   == IF b.par = 0 THEN I3 ELSE prev[b.par].R
      p0   == VAdd(pp, MV(pR, b.pos))                                  \* frame before the joint acts
      R0   == MulRot(pR, b.rot[1], b.rot[2])
      zw   == MV(R0, AxisVec(b.ax))                                    \* joint axis, world
      anc  == VAdd(p0, MV(R0, b.janc))                                 \* joint anchor, world
      R    == IF b.jt \in {"hinge", "ball"} THEN MulRot(R0, b.ax, qk) ELSE R0
      p    == IF b.jt = "slide" THEN VAdd(p0, VScl(qk, zw))
              ELSE IF b.jt \in {"hinge", "ball"} THEN VSub(anc, MV(R, b.janc)) ELSE p0
  IN [p |-> p, R |-> R, zw |-> zw, anc |-> anc,
      c  |-> VAdd(p, MV(R, b.ipos)),                                   \* centre of mass (xipos)
      sp |-> VAdd(p, MV(R, b.spos)),                                   \* site position
      sR |-> MulRot(R, b.srot[1], b.srot[2])]
\* frames of bodies k.. given the frames `acc` of the bodies before k
RECURSIVE KinAcc(_, _, _, _)
KinAcc(bs, q, k, acc) == IF k > Len(bs) THEN acc ELSE KinAcc(bs, q, k + 1, Append(acc, BodyKin(bs[k], q[k], acc)))
KinSeq(bs, q) == KinAcc(bs, q, 1, << >>)
Kin ==
  /\ kin' = KinSeq(B, QOf)
  /\ stage' = "fd"
  /\ UNCHANGED <<B, part, glob, tree, fd, vel, mass, dyn, pas, en, ev>>

\* Fd : the same frames after moving one coordinate one lattice step forth / back (mj_integratePos);
\*      bodies before b in depth-first order are not descendants of b and keep their frames
Fd ==
  /\ fd' = [b \in 1..n |-> IF HasJ(b) THEN [p |-> KinAcc(B, Bump(QOf, b, 1), b, SubSeq(kin, 1, b - 1)),
                                             m |-> KinAcc(B, Bump(QOf, b, -1), b, SubSeq(kin, 1, b - 1))]
                           ELSE << >>]
  /\ stage' = IF Level >= 2 THEN "vel" ELSE "fin"
  /\ UNCHANGED <<B, part, glob, tree, kin, vel, mass, dyn, pas, en, ev>>

\* ------------------------------------------------------------------------------------------------
\* Jacobians by definition: column of dof j for a point x fixed in body b
\* ------------------------------------------------------------------------------------------------
JPcol(j, x) == IF IsS(j) THEN kin[j].zw ELSE IF IsH(j) THEN Cross(kin[j].zw, VSub(x, kin[j].anc)) ELSE Z3
JRcol(j)    == IF IsH(j) THEN kin[j].zw ELSE Z3
JP(b, x, j) == IF j \in Anc(b) THEN JPcol(j, x) ELSE Z3
JR(b, j)    == IF j \in Anc(b) THEN JRcol(j) ELSE Z3
\* velocities = J v
Omega(v, b)   == IF b = 0 THEN Z3 ELSE VSumN([j \in 1..n |-> IF v[j] = 0 THEN Z3 ELSE VScl(v[j], JR(b, j))], n)
PVel(v, b, x) == IF b = 0 THEN Z3 ELSE VSumN([j \in 1..n |-> IF v[j] = 0 THEN Z3 ELSE VScl(v[j], JP(b, x, j))], n)

Vel ==
  /\ vel' = [b \in 1..n |-> [w  |-> Omega(VOf, b),
                             vo |-> PVel(VOf, b, kin[b].p),
                             vc |-> PVel(VOf, b, kin[b].c),
                             vs |-> PVel(VOf, b, kin[b].sp),
                             \* the axis of joint b turns with the parent body, its anchor moves with the parent body
                             zd |-> Cross(Omega(VOf, B[b].par), kin[b].zw),
                             va |-> PVel(VOf, B[b].par, kin[b].anc)]]
  /\ stage' = "mass"
  /\ UNCHANGED <<B, part, glob, tree, kin, fd, mass, dyn, pas, en, ev>>

\* time derivative of the Jacobian columns at the current velocity; vx = velocity of the point x of body b
JdPcol(x, vx, j) == IF IsS(j) THEN vel[j].zd
                    ELSE IF IsH(j) THEN VAdd(Cross(vel[j].zd, VSub(x, kin[j].anc)), Cross(kin[j].zw, VSub(vx, vel[j].va)))
                    ELSE Z3
JdRcol(j)        == IF IsH(j) THEN vel[j].zd ELSE Z3
JdP(b, x, vx, j) == IF j \in Anc(b) THEN JdPcol(x, vx, j) ELSE Z3
JdR(b, j)        == IF j \in Anc(b) THEN JdRcol(j) ELSE Z3
Iw(b) == MM(MM(kin[b].R, Diag(B[b].inr)), Tr(kin[b].R))          \* inertia about the centre of mass, world axes

\* ------------------------------------------------------------------------------------------------
\* RecNE : textbook recursive Newton-Euler in world coordinates (independent of the Jacobians)
\* ------------------------------------------------------------------------------------------------
BodyNE(k, v, a, prev) ==
  LET b   == B[k]
      par == b.par
      pp  == IF par = 0 THEN Z3 ELSE kin[par].p
      wp  == IF par = 0 THEN Z3 ELSE prev[par].w
      alp == IF par = 0 THEN Z3 ELSE prev[par].al
      vop == IF par = 0 THEN Z3 ELSE prev[par].vo
      aop == IF par = 0 THEN Z3 ELSE prev[par].ao
      \* velocity / acceleration of the point of the parent body that is momentarily at x
      VP(x) == VAdd(vop, Cross(wp, VSub(x, pp)))
      AP(x) == VAdd(aop, VAdd(Cross(alp, VSub(x, pp)), Cross(wp, Cross(wp, VSub(x, pp)))))
      zw  == kin[k].zw
      p   == kin[k].p
      w   == IF b.jt = "hinge" THEN VAdd(wp, VScl(v[k], zw)) ELSE wp
      al  == IF b.jt = "hinge" THEN VAdd(alp, VAdd(VScl(a[k], zw), VScl(v[k], Cross(wp, zw)))) ELSE alp
      rA  == VSub(p, kin[k].anc)
      vo  == IF b.jt = "slide" THEN VAdd(VP(p), VScl(v[k], zw))
             ELSE IF b.jt = "hinge" THEN VAdd(VP(kin[k].anc), Cross(w, rA)) ELSE VP(p)
      ao  == IF b.jt = "slide" THEN VAdd(AP(p), VAdd(VScl(a[k], zw), VScl(2 * v[k], Cross(wp, zw))))
             ELSE IF b.jt = "hinge" THEN VAdd(AP(kin[k].anc), VAdd(Cross(al, rA), Cross(w, Cross(w, rA))))
             ELSE AP(p)
      rc  == VSub(kin[k].c, p)
      ac  == VAdd(ao, VAdd(Cross(al, rc), Cross(w, Cross(w, rc))))
      F   == VScl(b.mass, VSub(ac, Grav))                                \* net force on the body
      Iwk == Iw(k)
      Nc  == VAdd(MV(Iwk, al), Cross(w, MV(Iwk, w)))                     \* net torque about its centre of mass
  IN [w |-> w, al |-> al, vo |-> vo, ao |-> ao, vc |-> VAdd(vo, Cross(w, rc)),
      F |-> F, NO |-> VAdd(Nc, Cross(kin[k].c, F))]                      \* NO: torque about the world origin
RECURSIVE FwdAcc(_, _, _, _)
FwdAcc(v, a, k, acc) == IF k > n THEN acc ELSE FwdAcc(v, a, k + 1, Append(acc, BodyNE(k, v, a, acc)))
FwdSeq(v, a) == FwdAcc(v, a, 1, << >>)
RECURSIVE SubF(_, _)
SubF(fs, b)  == VAdd(fs[b].F, VSumN([c \in 1..n |-> IF B[c].par = b THEN SubF(fs, c) ELSE Z3], n))
RECURSIVE SubNO(_, _)
SubNO(fs, b) == VAdd(fs[b].NO, VSumN([c \in 1..n |-> IF B[c].par = b THEN SubNO(fs, c) ELSE Z3], n))
TauOf(fs) ==
  [b \in 1..n |-> IF IsS(b) THEN Dot(kin[b].zw, SubF(fs, b))
                  ELSE IF IsH(b) THEN Dot(kin[b].zw, VSub(SubNO(fs, b), Cross(kin[b].anc, SubF(fs, b))))
                  ELSE 0]
RecTau(v, a) == TauOf(FwdSeq(v, a))

\* Kane : projected Newton-Euler through the Jacobians, at the current velocity and acceleration a
KaneBody(a, b) ==
  LET c  == kin[b].c
      ac == VSumN([j \in 1..n |-> VAdd(VScl(B[j].v, JdP(b, c, vel[b].vc, j)), VScl(a[j], JP(b, c, j)))], n)
      al == VSumN([j \in 1..n |-> VAdd(VScl(B[j].v, JdR(b, j)), VScl(a[j], JR(b, j)))], n)
      Ib == Iw(b)
  IN [F |-> VScl(B[b].mass, VSub(ac, Grav)), N |-> VAdd(MV(Ib, al), Cross(vel[b].w, MV(Ib, vel[b].w)))]
KaneTau(a) ==
  LET kb == [b \in 1..n |-> KaneBody(a, b)] IN
  [i \in 1..n |-> IF ~HasJ(i) THEN 0 ELSE
     SumN([b \in 1..n |-> IF i \notin Anc(b) THEN 0
                          ELSE Dot(JPcol(i, kin[b].c), kb[b].F) + Dot(JRcol(i), kb[b].N)], n)]

\* ------------------------------------------------------------------------------------------------
\* Spatial tendon: a straight segment between two sites.  length L = |x1 - x2|, Jacobian J_t = (x1 - x2).(J1 - J2) / L.
\* Only configurations with an integer length 0 < L <= 7 carry the tendon (rational arithmetic, denominators L^2, L^4).
\* Armature m adds m J_t' J_t to M, m (L')^2 / 2 to the kinetic energy, and the bias force m J_t' (Jdot_t . v), where
\* Jdot_t . v = L'' at zero acceleration = (|dv|^2 - (L')^2) / L + (x1 - x2).(a1 - a2) / L.
\* ------------------------------------------------------------------------------------------------
WSite == Z3
SpPos(b) == IF b = 0 THEN WSite ELSE kin[b].sp
JPx(b, x, j) == IF b = 0 THEN Z3 ELSE JP(b, x, j)                   \* the world does not move
JRx(b, j)    == IF b = 0 THEN Z3 ELSE JR(b, j)
SqrtOf(x) == IF \E r \in 1..7 : r * r = x THEN CHOOSE r \in 1..7 : r * r = x ELSE 0
SpD(K) == VSub(IF glob.sp[1] = 0 THEN WSite ELSE K[glob.sp[1]].sp, IF glob.sp[2] = 0 THEN WSite ELSE K[glob.sp[2]].sp)
SpLen == IF glob.sp = NoSp THEN 0 ELSE SqrtOf(Dot(SpD(kin), SpD(kin)))
\* L * J_t[j]
SpNum(j) == Dot(SpD(kin), VSub(JPx(glob.sp[1], SpPos(glob.sp[1]), j), JPx(glob.sp[2], SpPos(glob.sp[2]), j)))

\* ------------------------------------------------------------------------------------------------
\* Mass : M by definition
\* ------------------------------------------------------------------------------------------------
MbEntry(i, j) == SumN([b \in 1..n |-> IF i \in Anc(b) /\ j \in Anc(b)
                                       THEN B[b].mass * Dot(JPcol(i, kin[b].c), JPcol(j, kin[b].c))
                                            + Dot(JRcol(i), MV(Iw(b), JRcol(j)))
                                       ELSE 0], n)
Mass ==
  /\ LET Mb == [i \in 1..n |-> [j \in 1..n |-> IF HasJ(i) /\ HasJ(j) THEN MbEntry(i, j) ELSE 0]]
         M  == [i \in 1..n |-> [j \in 1..n |-> Mb[i][j] + (IF i = j THEN B[i].arm ELSE 0)
                                                 + glob.tarm * B[i].tc * B[j].tc]]
         L  == SpLen
         sn == [j \in 1..n |-> IF L > 0 /\ HasJ(j) THEN SpNum(j) ELSE 0]
     IN mass' = [Mb |-> Mb, M |-> M,
                 spL |-> L, spn |-> sn,                                   \* spatial tendon: length (0 = absent), L * J_t
                 \* L^2 * (M + spatial tendon armature)   (equals M when the tendon is absent: L taken as 1)
                 Msp |-> [i \in 1..n |-> [j \in 1..n |-> (IF L > 0 THEN L * L ELSE 1) * M[i][j] + glob.sarm * sn[i] * sn[j]]]]
  /\ stage' = "dyn"
  /\ UNCHANGED <<B, part, glob, tree, kin, fd, vel, dyn, pas, en, ev>>

MatVecN(M, x) == [i \in 1..n |-> SumN([j \in 1..n |-> M[i][j] * x[j]], n)]
VecAddN(x, y) == [i \in 1..n |-> x[i] + y[i]]

\* twice the kinetic energy, body by body (not through M)
Kin2 == SumN([b \in 1..n |-> B[b].mass * Dot(vel[b].vc, vel[b].vc) + Dot(vel[b].w, MV(Iw(b), vel[b].w))
                              + B[b].arm * B[b].v * B[b].v], n)
        + glob.tarm * SumN([j \in 1..n |-> B[j].tc * B[j].v], n) * SumN([j \in 1..n |-> B[j].tc * B[j].v], n)

\* spatial tendon: W = L^3 * L'' at zero acceleration = L^2 |dv|^2 - (d.dv)^2 + L^2 d.(a1 - a2)
SiteVel(b)  == IF b = 0 THEN Z3 ELSE vel[b].vs
SiteAcc0(b) == IF b = 0 THEN Z3 ELSE VSumN([j \in 1..n |-> VScl(B[j].v, JdP(b, kin[b].sp, vel[b].vs, j))], n)
SpW == LET d  == SpD(kin)
           dv == VSub(SiteVel(glob.sp[1]), SiteVel(glob.sp[2]))
           da == VSub(SiteAcc0(glob.sp[1]), SiteAcc0(glob.sp[2]))
           L2 == mass.spL * mass.spL
       IN L2 * Dot(dv, dv) - Dot(d, dv) * Dot(d, dv) + L2 * Dot(d, da)

\* Dyn : bias force (acceleration zero), Newton-Euler with the chosen acceleration, both derivations, and the bias
\*       one velocity step forth / back per dof (its central difference is the exact velocity derivative)
Dyn ==
  /\ LET fs == FwdSeq(VOf, AOf) IN
     dyn' = [bias  |-> KaneTau(ZeroN),
             biasR |-> RecTau(VOf, ZeroN),
             tauK  |-> KaneTau(AOf),
             tauR  |-> TauOf(fs),
             fs    |-> fs,
             kin2  |-> Kin2,
             \* spatial tendon: L^2 * (twice the kinetic energy), and W = L^3 * (Jdot_t . v)
             kin2sp |-> (IF mass.spL > 0 THEN mass.spL * mass.spL ELSE 1) * Kin2
                        + glob.sarm * SumN([j \in 1..n |-> mass.spn[j] * B[j].v], n) * SumN([j \in 1..n |-> mass.spn[j] * B[j].v], n),
             spW   |-> IF mass.spL > 0 THEN SpW ELSE 0,
             biasP |-> [b \in 1..n |-> IF HasJ(b) THEN RecTau(Bump(VOf, b, 1), ZeroN) ELSE << >>],
             biasM |-> [b \in 1..n |-> IF HasJ(b) THEN RecTau(Bump(VOf, b, -1), ZeroN) ELSE << >>]]
  /\ stage' = IF Level >= 3 THEN "pas" ELSE "fin"
  /\ UNCHANGED <<B, part, glob, tree, kin, fd, vel, mass, pas, en, ev>>

\* ------------------------------------------------------------------------------------------------
\* Passive forces.  Documented polynomial laws (Computation chapter, "Polynomial forces"):
\*   spring   f(x) = -(a x + b x^2 + c x^3)        x = displacement from the reference / outside the tendon dead band
\*   damper   f(v) = -(a v + b v |v| + c v^3)      anti-symmetrised: odd in v
\*   potential V(x) = a x^2 / 2 + b x^3 / 3 + c x^4 / 4
\* Hinge displacements are multiples of u = pi/2, so hinge spring forces are polynomials in u; a quantity with units is
\* a u-polynomial <<c0, c1, c2, c3, c4>> = c0 + c1 u + c2 u^2 + c3 u^3 + c4 u^4 (integers over a published denominator).
\* ------------------------------------------------------------------------------------------------
PZ == <<0, 0, 0, 0, 0>>
PInt(x) == <<x, 0, 0, 0, 0>>
PAdd(a, b) == [t \in 1..5 |-> a[t] + b[t]]
PScl(k, a) == [t \in 1..5 |-> k * a[t]]
\* spring force and 12 * potential of displacement x (lattice units) with coefficients c = <<a, b, c>>
SpringP(c, x, hinge) == IF hinge THEN <<0, 0 - c[1] * x, 0 - c[2] * x * x, 0 - c[3] * x * x * x, 0>>
                        ELSE PInt(0 - (c[1] * x + c[2] * x * x + c[3] * x * x * x))
Pot12P(c, x, hinge)  == IF hinge THEN <<0, 0, 6 * c[1] * x * x, 4 * c[2] * x * x * x, 3 * c[3] * x * x * x * x>>
                        ELSE PInt(6 * c[1] * x * x + 4 * c[2] * x * x * x + 3 * c[3] * x * x * x * x)
DampLaw(c, v) == 0 - (c[1] * v + c[2] * v * IAbs(v) + c[3] * v * v * v)
\* "sign preservation" z f(z) >= 0 of the anti-symmetrised polynomial (documented condition; the user's responsibility)
SignPreserving(c) == c[1] >= 0 /\ c[3] >= 0 /\ (c[2] < 0 => c[2] * c[2] <= 4 * c[1] * c[3])

JK(i) == <<B[i].k, B[i].kp[1], B[i].kp[2]>>
JD(i) == <<B[i].damp, B[i].dp[1], B[i].dp[2]>>
TK == <<glob.tk, glob.tkp[1], glob.tkp[2]>>
TD == <<glob.tdamp, glob.tdp[1], glob.tdp[2]>>
TenLen(q)  == SumN([j \in 1..n |-> B[j].tc * q[j]], n)                 \* in units of the tendon's joint type
TenDefl(q) == LET L == TenLen(q) IN IF L > glob.trange[2] THEN L - glob.trange[2]
                                    ELSE IF L < glob.trange[1] THEN L - glob.trange[1] ELSE 0
TenVel(v)  == SumN([j \in 1..n |-> B[j].tc * v[j]], n)
TenIsHinge == \E j \in 1..n : B[j].tc # 0 /\ IsH(j)
SpringOn == ~Dis("spring")
DamperOn == ~Dis("damper")
PassiveOn == SpringOn \/ DamperOn                     \* both disabled: all passive forces are skipped (documented)
GravcompOn == PassiveOn /\ ~Dis("gravity") /\ glob.g # Z3
\* spatial tendon: length velocity = S / L with S = sum (L J_t)_j v_j.  Its spring / damper are carried only where the
\* numbers stay small (L <= 5, |S| <= 60): numerators over L^4
SpS(v) == SumN([j \in 1..n |-> mass.spn[j] * v[j]], n)
SpPasOn == mass.spL > 0 /\ mass.spL <= 5 /\ IAbs(SpS(VOf)) <= 60 /\ (glob.ssk # <<0, 0, 0>> \/ glob.ssd # <<0, 0, 0>>)
PDen == IF SpPasOn THEN mass.spL * mass.spL * mass.spL * mass.spL ELSE 1
SpDefl == IF mass.spL > glob.ssr[2] THEN mass.spL - glob.ssr[2] ELSE IF mass.spL < glob.ssr[1] THEN mass.spL - glob.ssr[1] ELSE 0
\* generalized spring force of the joint springs and the fixed tendon (u-polynomial, not scaled)
SpringJT(q, i) == IF SpringOn /\ HasJ(i)
                  THEN PAdd(SpringP(JK(i), q[i] - B[i].qref, IsH(i)), PScl(B[i].tc, SpringP(TK, TenDefl(q), TenIsHinge)))
                  ELSE PZ
\* L^4 * spatial spring force on dof i = n_i L^3 f(x)
SpringSp(i) == IF SpringOn /\ SpPasOn /\ HasJ(i)
               THEN mass.spn[i] * mass.spL * mass.spL * mass.spL * SpringP(glob.ssk, SpDefl, FALSE)[1] ELSE 0
SpringVec == [i \in 1..n |-> PAdd(PScl(PDen, SpringJT(QOf, i)), PInt(SpringSp(i)))]
\* damper forces over PDen, as a function of the velocity
DamperVec(v) ==
  [i \in 1..n |-> IF DamperOn /\ HasJ(i)
                  THEN PDen * (DampLaw(JD(i), v[i]) + B[i].tc * DampLaw(TD, TenVel(v)))
                       + (IF SpPasOn THEN LET S == SpS(v)  L == mass.spL IN
                            mass.spn[i] * (0 - (glob.ssd[1] * S * L * L + glob.ssd[2] * S * IAbs(S) * L + glob.ssd[3] * S * S * S))
                          ELSE 0)
                  ELSE 0]
GravOf(b, i)     == B[b].mass * Dot(JP(b, kin[b].c, i), glob.g)        \* generalized gravity force of body b on dof i
GravcompRaw(i)   == IF GravcompOn /\ HasJ(i) THEN 0 - SumN([b \in 1..n |-> B[b].gc * GravOf(b, i)], n) ELSE 0
Passive ==
  /\ LET sp == SpringVec
         da == DamperVec(VOf)
         gc == [i \in 1..n |-> GravcompRaw(i)]
         tot == [i \in 1..n |-> PAdd(sp[i], PInt(da[i] + PDen * gc[i]))]
     IN pas' = [pden |-> PDen, spring |-> sp, damper |-> da, gravcomp |-> gc, tot |-> tot,   \* spring, damper, tot over pden
                sppas  |-> SpPasOn, spS |-> SpS(VOf),
                \* the two leading parts (exact when there is no polynomial / spatial term: used by SmoothFwdInv)
                totA   |-> [i \in 1..n |-> tot[i][1]], totB |-> [i \in 1..n |-> tot[i][2]],
                tlen   |-> TenLen(QOf), tvel |-> TenVel(VOf)]
  /\ stage' = "en"
  /\ UNCHANGED <<B, part, glob, tree, kin, fd, vel, mass, dyn, en, ev>>

\* ------------------------------------------------------------------------------------------------
\* Energy.  12 * potential as a u-polynomial, kinetic = K2 / 2
\* ------------------------------------------------------------------------------------------------
PotGrav12(K) == (0 - 12) * SumN([b \in 1..n |-> B[b].mass * Dot(Grav, K[b].c)], n)
PotSpr12(q) == IF ~SpringOn THEN PZ ELSE
  LET RECURSIVE Acc(_)
      Acc(j) == IF j = 0 THEN Pot12P(TK, TenDefl(q), TenIsHinge)
                ELSE PAdd(Acc(j - 1), IF HasJ(j) THEN Pot12P(JK(j), q[j] - B[j].qref, IsH(j)) ELSE PZ)
  IN Acc(n)
PotSp12 == IF SpringOn /\ SpPasOn THEN Pot12P(glob.ssk, SpDefl, FALSE) ELSE PZ
\* the spatial tendon's length is irrational after a lattice move: potentials one step away are published without it
FdOK == ~(SpringOn /\ SpPasOn /\ glob.ssk # <<0, 0, 0>>)
Pot12(K, q) == PAdd(PInt(PotGrav12(K)), PotSpr12(q))
Energy ==
  /\ en' = [pot12  |-> PAdd(Pot12(kin, QOf), PotSp12), fdok |-> FdOK,
            pot12p |-> [b \in 1..n |-> IF HasJ(b) THEN Pot12(fd[b].p, Bump(QOf, b, 1)) ELSE PZ],
            pot12m |-> [b \in 1..n |-> IF HasJ(b) THEN Pot12(fd[b].m, Bump(QOf, b, -1)) ELSE PZ]]
  /\ stage' = "fin"
  /\ UNCHANGED <<B, part, glob, tree, kin, fd, vel, mass, dyn, pas, ev>>

\* ------------------------------------------------------------------------------------------------
\* Finish : publish, indexed by dof (d = 1..nv), exactly what the implementation must return.
\* Jacobians are published as sequences of COLUMNS (one 3-vector per dof).
\* ------------------------------------------------------------------------------------------------
ByDof(f) == [d \in 1..nv |-> f[Dofs[d]]]
MatByDof(M) == [d \in 1..nv |-> [e \in 1..nv |-> M[Dofs[d]][Dofs[e]]]]
JacP(b, x)  == [d \in 1..nv |-> JP(b, x, Dofs[d])]
JacR(b)     == [d \in 1..nv |-> JR(b, Dofs[d])]
JacDP(b, x, vx) == [d \in 1..nv |-> JdP(b, x, vx, Dofs[d])]
JacDR(b)    == [d \in 1..nv |-> JdR(b, Dofs[d])]
\* subtree quantities: mass and mass-weighted sums (the centre of mass is the quotient)
Sub(b) == {c \in 1..n : b \in Anc(c)}
SubMass(b) == SumN([c \in 1..n |-> IF b \in Anc(c) THEN B[c].mass ELSE 0], n)
SubMom(b)  == VSumN([c \in 1..n |-> IF b \in Anc(c) THEN VScl(B[c].mass, kin[c].c) ELSE Z3], n)
SubJac(b)  == [d \in 1..nv |-> VSumN([c \in 1..n |-> IF b \in Anc(c) THEN VScl(B[c].mass, JP(c, kin[c].c, Dofs[d])) ELSE Z3], n)]

SpL2 == IF mass.spL > 0 THEN mass.spL * mass.spL ELSE 1
\* L^4 * (bias + tendon bias),  L^4 * (M_total a + bias_total)
SpBiasNum == [i \in 1..n |-> SpL2 * SpL2 * dyn.bias[i] + glob.sarm * mass.spn[i] * dyn.spW]
SpInvNum  == LET Ma == MatVecN(mass.Msp, AOf) IN [i \in 1..n |-> SpL2 * Ma[i] + SpBiasNum[i]]
\* Constraint rows of connect / weld equalities between the sites of two bodies (0 = world, site at the origin):
\* position residual x1 - x2, its Jacobian J1 - J2 (difference of the point Jacobians), and the difference of the
\* rotation Jacobians; for every ordered pair of distinct bodies, world included.
Pairs == {pr \in (0..n) \X (0..n) : pr[1] # pr[2]}
PairSeq == LET RECURSIVE Enum(_, _)
               Enum(i, j) == IF i > n THEN << >>
                             ELSE IF j > n THEN Enum(i + 1, 0)
                             ELSE IF i = j THEN Enum(i, j + 1)
                             ELSE <<<<i, j>>>> \o Enum(i, j + 1)
           IN Enum(0, 0)
SitePosOf(K, b) == IF b = 0 THEN WSite ELSE K[b].sp
Movable(b) == b # 0 /\ \E j \in 1..n : HasJ(j) /\ j \in Anc(b)
PairRow(pr) == [b1 |-> pr[1], b2 |-> pr[2],
                mov |-> Movable(pr[1]) \/ Movable(pr[2]),          \* MuJoCo rejects an equality between two static bodies
                pos |-> VSub(SitePosOf(kin, pr[1]), SitePosOf(kin, pr[2])),
                jacp |-> [d \in 1..nv |-> VSub(JPx(pr[1], SitePosOf(kin, pr[1]), Dofs[d]), JPx(pr[2], SitePosOf(kin, pr[2]), Dofs[d]))],
                jacr |-> [d \in 1..nv |-> VSub(JRx(pr[1], Dofs[d]), JRx(pr[2], Dofs[d]))]]
EvKin == [op |-> "model", n |-> n, nv |-> nv, dofs |-> Dofs, bodies |-> B, glob |-> glob, level |-> Level,
          hinge |-> [d \in 1..nv |-> IsH(Dofs[d])],
          hasball |-> \E b \in 1..n : B[b].jt = "ball",
          \* an armature-bearing tendon couples two dofs on different branches (M then has entries off the tree pattern)
          xten |-> \/ (glob.tarm # 0 /\ \E i, j \in 1..n : B[i].tc # 0 /\ B[j].tc # 0 /\ i \notin Anc(j) /\ j \notin Anc(i))
                   \/ (Level >= 2 /\ glob.sarm # 0 /\ \E i, j \in 1..n : mass.spn[i] # 0 /\ mass.spn[j] # 0
                                                                        /\ i \notin Anc(j) /\ j \notin Anc(i)),
          kin |-> kin,
          fdp |-> ByDof([b \in 1..n |-> IF HasJ(b) THEN fd[b].p ELSE << >>]),
          fdm |-> ByDof([b \in 1..n |-> IF HasJ(b) THEN fd[b].m ELSE << >>]),
          jacp |-> [b \in 1..n |-> JacP(b, kin[b].p)], jacr |-> [b \in 1..n |-> JacR(b)],
          jacc |-> [b \in 1..n |-> JacP(b, kin[b].c)], jacs |-> [b \in 1..n |-> JacP(b, kin[b].sp)],
          submass |-> [b \in 1..n |-> SubMass(b)], submom |-> [b \in 1..n |-> SubMom(b)],
          subjac |-> [b \in 1..n |-> SubJac(b)],
          pairs |-> [k \in 1..Len(PairSeq) |-> PairRow(PairSeq[k])]]
EvDyn == [vel |-> vel,
          jdp |-> [b \in 1..n |-> JacDP(b, kin[b].p, vel[b].vo)], jdr |-> [b \in 1..n |-> JacDR(b)],
          jdc |-> [b \in 1..n |-> JacDP(b, kin[b].c, vel[b].vc)],
          M |-> MatByDof(mass.M), Mb |-> MatByDof(mass.Mb),
          qvel |-> ByDof(VOf), qacc |-> ByDof(AOf),
          Mv |-> ByDof(MatVecN(mass.M, VOf)),
          bias |-> ByDof(dyn.bias), rnea |-> ByDof(dyn.tauK),
          inv |-> ByDof(VecAddN(MatVecN(mass.M, AOf), dyn.bias)),
          kin2 |-> dyn.kin2,
          \* sleeping: policy per body (3 = never, 5 = initialised asleep, 0 = not a tree root), asleep flag per tree, and whether
          \* the sleeping tree has an off-diagonal inertia entry.  M and its factorisation identities (L'DL = M,
          \* solveM(mulM(v)) = v, qLDiagInv * D = 1) hold for ALL dofs, awake or asleep.
          slp |-> [on |-> glob.sleep,
                   pol |-> [b \in 1..n |-> IF ~glob.sleep THEN 0 ELSE LET rs == RootsOf(B) IN
                                            IF b = rs[Len(rs)] THEN 5 ELSE IF \E k \in 1..Len(rs) : rs[k] = b THEN 3 ELSE 0],
                   trees |-> [k \in 1..Len(RootsOf(B)) |-> IF glob.sleep /\ k = Len(RootsOf(B)) THEN 1 ELSE 0],
                   coupled |-> glob.sleep /\ \E i, j \in LastTree(B) : i # j /\ mass.M[i][j] # 0],
          \* spatial tendon (spL = 0: absent).  Msp, Mvsp, kin2sp over L^2;  biassp, invsp over L^4
          spL |-> mass.spL, spn |-> ByDof(mass.spn), Msp |-> MatByDof(mass.Msp),
          Mvsp |-> ByDof(MatVecN(mass.Msp, VOf)), kin2sp |-> dyn.kin2sp,
          biassp |-> ByDof(SpBiasNum), invsp |-> ByDof(SpInvNum),
          cacc |-> [b \in 1..n |-> [al |-> dyn.fs[b].al, ao |-> dyn.fs[b].ao]]]
EvPas == [pden |-> pas.pden, spring |-> ByDof(pas.spring), damper |-> ByDof(pas.damper), gravcomp |-> ByDof(pas.gravcomp),
          passive |-> ByDof(pas.tot), sppas |-> pas.sppas, spS |-> pas.spS,
          pasA |-> ByDof(pas.totA), pasB |-> ByDof(pas.totB), tlen |-> pas.tlen, tvel |-> pas.tvel,
          pot12 |-> en.pot12, fdok |-> en.fdok, pot12p |-> ByDof(en.pot12p), pot12m |-> ByDof(en.pot12m)]
Finish ==
  /\ ev' = IF Level = 1 THEN EvKin ELSE IF Level = 2 THEN EvKin @@ EvDyn ELSE EvKin @@ EvDyn @@ EvPas
  /\ stage' = "done"
  /\ UNCHANGED <<B, part, glob, tree, kin, fd, vel, mass, dyn, pas, en>>

\* the stage guard comes first so that TLC does not enumerate the choices of the other stages
\* in random mode the model grows to MaxBodies bodies before it is closed (the number of bodies is drawn by PickG's guard)
DoPickA == stage = "A" /\ \E par \in Pick(Parents), jt \in Pick(JTypes), ax \in Pick(Axes), pos \in Pick(Offsets), rot \in Pick(Rots),
                              janc \in Pick(Anchors), spos \in Pick(SitePos), srot \in Pick(SiteRots) :
                              PickA(par, jt, ax, pos, rot, janc, spos, srot)
DoPickB == stage = "B" /\ \E m \in Pick(Masses), inr \in Pick(Inertias), ipos \in Pick(IPoss), arm \in Pick(Arms), k \in Pick(Stiffs),
                              kp \in Pick(StiffPolys), qref \in Pick(Refs), damp \in Pick(Damps), dp \in Pick(DampPolys),
                              gc \in Pick(GCs), tc \in Pick(TCoefs) :
                              PickB(m, inr, ipos, arm, k, kp, qref, damp, dp, gc, tc)
DoPickC == stage = "C" /\ \E q \in Pick(Qs), v \in Pick(Vs), a \in Pick(As), qs \in Pick(QScales) : PickC(q, v, a, qs)
DoPickG == stage = "A" /\ \E g \in Pick(Gravs), dis \in Pick(DisSets), tk \in Pick(TenK), tr \in Pick(TenRanges),
                              td \in Pick(TenDamps), ta \in Pick(TenArms), tz \in Pick(TenZero), sp \in Pick(SpPairs),
                              sa \in Pick(SpArms), tkp \in Pick(TenKPolys), tdp \in Pick(TenDPolys), ssk \in Pick(SpStiffs),
                              ssr \in Pick(SpRanges), ssd \in Pick(SpDamps), sl \in Pick(Sleeps) :
                              PickG(g, dis, tk, tkp, tr, td, tdp, ta, tz, sp, sa, ssk, ssr, ssd, sl)
DoKin     == stage = "kin"  /\ Kin
DoFd      == stage = "fd"   /\ Fd
DoVel     == stage = "vel"  /\ Vel
DoMass    == stage = "mass" /\ Mass
DoDyn     == stage = "dyn"  /\ Dyn
DoPassive == stage = "pas"  /\ Passive
DoEnergy  == stage = "en"   /\ Energy
DoFinish  == stage = "fin"  /\ Finish
Next == DoPickA \/ DoPickB \/ DoPickC \/ DoPickG \/ DoKin \/ DoFd \/ DoVel \/ DoMass \/ DoDyn \/ DoPassive \/ DoEnergy \/ DoFinish
Spec == Init /\ [][Next]_vars

\* ================================================================================================
\* PROPERTIES (all evaluated on finished models)
\* ================================================================================================
Done == stage = "done"
L2 == Done /\ Level >= 2
L3 == Done /\ Level >= 3
DofB == {b \in 1..n : HasJ(b)}

TypeOK == /\ stage \in {"A", "B", "C", "kin", "fd", "vel", "mass", "dyn", "pas", "en", "fin", "done"}
          /\ \A b \in 1..n : B[b].par \in 0..(b - 1)
          /\ (Done => ev.op = "model" /\ ev.nv = Cardinality(DofB))

\* ---- C07 : frames are proper rotations; Jacobians are the derivatives of the positions ----------------
IsRotation(R) == MM(R, Tr(R)) = I3 /\ Det3(R) = 1
FramesProper == Done => \A b \in 1..n : IsRotation(kin[b].R) /\ IsRotation(kin[b].sR)
\* x(q + e_j) - x(q - e_j) = 2 J_j   for the body origin, the centre of mass and the site; same for the frames
Skew(z, R) == Tr(<<Cross(z, Col(R, 1)), Cross(z, Col(R, 2)), Cross(z, Col(R, 3))>>)       \* [z]x R
MScl(k, R) == <<VScl(k, R[1]), VScl(k, R[2]), VScl(k, R[3])>>
MSub(P, Q) == <<VSub(P[1], Q[1]), VSub(P[2], Q[2]), VSub(P[3], Q[3])>>
JacIsDerivative ==
  Done => \A j \in DofB, b \in 1..n :
            /\ VSub(fd[j].p[b].p,  fd[j].m[b].p)  = VScl(2, JP(b, kin[b].p, j))
            /\ VSub(fd[j].p[b].c,  fd[j].m[b].c)  = VScl(2, JP(b, kin[b].c, j))
            /\ VSub(fd[j].p[b].sp, fd[j].m[b].sp) = VScl(2, JP(b, kin[b].sp, j))
            /\ MSub(fd[j].p[b].R,  fd[j].m[b].R)  = MScl(2, Skew(JR(b, j), kin[b].R))
            /\ MSub(fd[j].p[b].sR, fd[j].m[b].sR) = MScl(2, Skew(JR(b, j), kin[b].sR))
\* a coordinate moves only its own subtree
MoveIsLocal == Done => \A j \in DofB, b \in 1..n : (j \notin Anc(b)) => (fd[j].p[b] = kin[b] /\ fd[j].m[b] = kin[b])
\* spatial velocities J v agree with the recursive propagation of velocities down the tree
VelIsRecursive ==
  L2 => \A b \in 1..n : /\ vel[b].w = dyn.fs[b].w /\ vel[b].vo = dyn.fs[b].vo /\ vel[b].vc = dyn.fs[b].vc
\* the subtree centre of mass Jacobian is the derivative of the subtree's mass moment
SubtreeJacIsDerivative ==
  Done => \A j \in DofB, b \in 1..n :
     VSumN([c \in 1..n |-> IF c \in Sub(b) THEN VScl(B[c].mass, VSub(fd[j].p[c].c, fd[j].m[c].c)) ELSE Z3], n)
       = VScl(2, VSumN([c \in 1..n |-> IF c \in Sub(b) THEN VScl(B[c].mass, JP(c, kin[c].c, j)) ELSE Z3], n))

\* constraint rows: the Jacobian of a connect / weld equality is the derivative of its position residual
ConstraintJacIsDerivative ==
  Done => \A pr \in Pairs, j \in DofB :
            VSub(VSub(SitePosOf(fd[j].p, pr[1]), SitePosOf(fd[j].p, pr[2])), VSub(SitePosOf(fd[j].m, pr[1]), SitePosOf(fd[j].m, pr[2])))
              = VScl(2, VSub(JPx(pr[1], SitePosOf(kin, pr[1]), j), JPx(pr[2], SitePosOf(kin, pr[2]), j)))

\* ---- C06 : inertia, bias, Newton-Euler -----------------------------------------------------------------
MSymmetric == L2 => \A i, j \in 1..n : mass.M[i][j] = mass.M[j][i]
\* zero pattern: bodies on different branches are inertially decoupled (tendon armature couples its joints)
MSparsity  == L2 => \A i, j \in 1..n : (mass.Mb[i][j] # 0) => (i \in Anc(j) \/ j \in Anc(i))
\* positive definite: x'Mx > 0 on all nonzero x in {-1,0,1}^nv, and all leading minors positive when they fit
RECURSIVE DetN(_, _)
Minor(idx, i) == [r \in 1..(Len(idx) - 1) |-> idx[IF r < i THEN r ELSE r + 1]]
\* determinant of the submatrix rows = first Len(cols) of `rows`..., Laplace along the first row
DetN(M, rc) == \* rc = <<rows, cols>> index sequences of equal length
  LET rows == rc[1]  cols == rc[2]  k == Len(rows) IN
  IF k = 0 THEN 1 ELSE
  SumN([c \in 1..k |-> (IF c % 2 = 1 THEN 1 ELSE -1) * M[rows[1]][cols[c]]
                        * DetN(M, <<Tail(rows), Minor(cols, c)>>)], k)
MaxAbsM == LET S == {IAbs(mass.M[i][j]) : i, j \in DofB} IN IF S = {} THEN 0 ELSE CHOOSE x \in S : \A y \in S : y <= x
MinorsFit == MaxAbsM <= 60
LeadMinorsPositive == \A k \in 1..nv : DetN(mass.M, <<SubSeq(Dofs, 1, k), SubSeq(Dofs, 1, k)>>) > 0
Quad(M, x) == SumN([i \in 1..n |-> x[i] * SumN([j \in 1..n |-> M[i][j] * x[j]], n)], n)
ProbeVecs == {x \in [1..n -> {-1, 0, 1}] : (\A b \in 1..n : ~HasJ(b) => x[b] = 0) /\ (\E b \in 1..n : x[b] # 0)}
MPositiveDefinite ==
  L2 => /\ \A x \in ProbeVecs : Quad(mass.M, x) > 0
        /\ (MinorsFit => LeadMinorsPositive)
\* the two derivations of Newton-Euler agree, for the bias (a = 0) and with acceleration
KaneIsRecursive == L2 => (dyn.bias = dyn.biasR /\ dyn.tauK = dyn.tauR)
\* Newton-Euler with acceleration a = (rigid-body part of M) a + bias;  inverse dynamics adds the rotor inertias
RneIsMaPlusBias == L2 => dyn.tauK = VecAddN(MatVecN(mass.Mb, AOf), dyn.bias)
\* kinetic energy computed body by body equals v'Mv / 2
KineticIsQuadratic == L2 => dyn.kin2 = Quad(mass.M, VOf)
\* at rest the bias force is minus the generalized gravity force
BiasAtRestIsGravity ==
  L2 => ((\A b \in 1..n : B[b].v = 0) =>
           \A i \in 1..n : dyn.bias[i] = (IF HasJ(i) /\ ~Dis("gravity") THEN 0 - SumN([b \in 1..n |-> GravOf(b, i)], n) ELSE 0))
\* the bias is quadratic in v: second differences along a dof are constant => central difference is the derivative;
\* here: c(v+e) + c(v-e) - 2 c(v) does not depend on v for slides (= 0) -- checked as: slide-only trees have a
\* velocity-independent bias
SlideBiasVelFree ==
  L2 => ((\A b \in 1..n : ~IsH(b)) => \A j \in DofB : dyn.biasP[j] = dyn.bias /\ dyn.biasM[j] = dyn.bias)

\* spatial tendon: along slides the squared length is quadratic, so its central difference is exact:
\*   L^2(q + e_j) - L^2(q - e_j) = 4 L (L J_t[j]) / L = 4 (x1 - x2).(J1 - J2)_j
SpatialJacIsDerivative ==
  L2 => (mass.spL > 0 => \A j \in DofB : IsS(j) =>
           Dot(SpD(fd[j].p), SpD(fd[j].p)) - Dot(SpD(fd[j].m), SpD(fd[j].m)) = 4 * mass.spn[j])
\* the total inertia (with tendon armatures) stays symmetric positive definite, and 2 E_kin = v' M v
SpatialMassOK ==
  L2 => /\ \A i, j \in 1..n : mass.Msp[i][j] = mass.Msp[j][i]
        /\ \A x \in ProbeVecs : Quad(mass.Msp, x) > 0
        /\ dyn.kin2sp = Quad(mass.Msp, VOf)

\* ---- C29 : passive forces ------------------------------------------------------------------------------
\* spring force = - gradient of the reported potential.  Gravity: exact two-point central difference (trigonometric in
\* the hinge angles).  Springs: the potential is a quartic in the lattice coordinate, for which the five-point stencil
\*   -P(q+2e) + 8 P(q+e) - 8 P(q-e) + P(q-2e) = 12 dP/dq   is exact; with P = 12 V and force F = -dV/dq (per lattice step;
\* per radian on hinges: one power of u less) this reads  stencil = -144 F.   (tendon dead band: same zone at all five points)
GravForce(i) == IF Dis("gravity") THEN 0 ELSE SumN([b \in 1..n |-> GravOf(b, i)], n)
TenZoneSame(j) == TK = <<0, 0, 0>> \/ B[j].tc = 0
                  \/ LET z(q) == IF TenLen(q) > glob.trange[2] THEN 1 ELSE IF TenLen(q) < glob.trange[1] THEN -1 ELSE 0
                     IN \A k \in {-2, -1, 1, 2} : z(Bump(QOf, j, k)) = z(QOf)
Stencil(j) == PAdd(PAdd(PScl(-1, PotSpr12(Bump(QOf, j, 2))), PScl(8, PotSpr12(Bump(QOf, j, 1)))),
                   PAdd(PScl(-8, PotSpr12(Bump(QOf, j, -1))), PotSpr12(Bump(QOf, j, -2))))
SpringIsMinusGradient ==
  L3 => \A j \in DofB :
          /\ PotGrav12(fd[j].p) - PotGrav12(fd[j].m) = (0 - 24) * GravForce(j)
          /\ TenZoneSame(j) =>
                LET st == Stencil(j)  F == SpringJT(QOf, j) IN
                IF IsH(j) THEN st[1] = 0 /\ \A t \in 1..4 : st[t + 1] = (0 - 144) * F[t]
                ELSE \A t \in 1..5 : st[t] = (0 - 144) * F[t]
\* dampers never add energy: element by element whenever the coefficients are sign preserving, and in total
DamperDissipates ==
  L3 => /\ \A i \in DofB : SignPreserving(JD(i)) => DampLaw(JD(i), B[i].v) * B[i].v <= 0
        /\ SignPreserving(TD) => DampLaw(TD, TenVel(VOf)) * TenVel(VOf) <= 0
        /\ ((\A i \in DofB : SignPreserving(JD(i))) /\ SignPreserving(TD) /\ SignPreserving(glob.ssd))
              => SumN([i \in 1..n |-> pas.damper[i] * B[i].v], n) <= 0
\* the damper force is an odd function of the velocity (anti-symmetrisation)
DamperIsOdd == L3 => DamperVec([b \in 1..n |-> 0 - B[b].v]) = [i \in 1..n |-> 0 - pas.damper[i]]
\* gravity compensation = gradient of the gravitational potential of the compensated bodies (weights gc)
GravcompCancels ==
  L3 => \A j \in DofB : GravcompOn =>
          2 * pas.gravcomp[j] = 0 - SumN([b \in 1..n |-> B[b].gc * B[b].mass * Dot(glob.g, VSub(fd[j].p[b].c, fd[j].m[b].c))], n)
\* fully compensated model: passive gravity compensation equals the gravity part of the bias force
FullGravcompBalances ==
  L3 => ((GravcompOn /\ \A b \in 1..n : B[b].gc = 1 /\ B[b].v = 0) => \A i \in 1..n : pas.gravcomp[i] = dyn.bias[i])
RestAtReferenceIsForceFree ==
  L3 => ((\A b \in 1..n : B[b].v = 0 /\ B[b].q = B[b].qref /\ B[b].gc = 0) /\ TenDefl(QOf) = 0 /\ (pas.sppas => SpDefl = 0)
           => \A i \in 1..n : pas.tot[i] = PZ)
\* ---- deliberately FALSE claims: negative controls of the model checking itself (TLC must refute them) ----
\* "the bias force does not depend on the velocity"
NegBiasVelocityFree == L2 => dyn.bias = RecTau(ZeroN, ZeroN)
\* "a one-sided lattice difference is the Jacobian" (true for slides only)
NegOneSidedDifference == Done => \A j \in DofB, b \in 1..n : VSub(fd[j].p[b].p, kin[b].p) = JP(b, kin[b].p, j)
\* "springs push away from the reference"
NegSpringSign == L3 => \A j \in DofB : \A t \in 1..5 : pas.spring[j][t] * (B[j].q - B[j].qref) >= 0
\* "the damping coefficient is the plain polynomial b + p0 v + p1 v^2" (not anti-symmetrised)
NegDamperPlainPoly == L3 => \A i \in DofB : B[i].tc = 0 =>
                         pas.damper[i] = pas.pden * (0 - B[i].v * (B[i].damp + B[i].dp[1] * B[i].v + B[i].dp[2] * B[i].v * B[i].v))

\* ---- constants of the configurations (cfg files cannot hold tuples) ----------------------------------
AllJ == {"none", "slide", "hinge"}
AllJB == {"none", "slide", "hinge", "ball"}
QS1 == {<<1, 1>>}
QS3 == {<<1, 1>>, <<2, 1>>, <<1, 2>>}
Ax3 == {1, -2, 3}
Ax2 == {1, -2}
MovJ == {"slide", "hinge"}
Ax6 == {1, 2, 3, -1, -2, -3}
One0 == {0}
One1 == {1}
V000 == {<<0, 0, 0>>}
R0 == {<<1, 0>>}
NoDis == {{}}
NoSpS == {<<0, 0>>}
P00 == {<<0, 0>>}
T000 == {<<0, 0, 0>>}
NoTz == {FALSE}
D_Ax1 == {1}
D_V02 == {0, 2}
BothTz == {FALSE, TRUE}
OnlyTz == {TRUE}
Rng0 == {<<0, 0>>}
\* geometry-rich sets (C07)
K_Off1 == {<<1, 0, 2>>}
K_Off == {<<1, 0, 2>>, <<0, -1, 0>>, <<-2, 1, 1>>, <<0, 0, 0>>}
K_Rot2 == {<<1, 0>>, <<2, 1>>}
K_Rot == {<<1, 0>>, <<2, 1>>, <<3, 3>>, <<-1, 2>>, <<1, 1>>}
K_Anc1 == {<<0, 1, 0>>}
K_Anc2 == {<<0, 0, 0>>, <<0, 1, 0>>}
K_IPos2 == {<<0, 0, 0>>, <<0, 0, 1>>}
K_Anc == {<<0, 0, 0>>, <<0, 1, 0>>, <<1, -1, 2>>}
K_Site1 == {<<1, 2, 3>>}
K_Site == {<<1, 2, 3>>, <<0, 0, -1>>}
K_SRot1 == {<<3, 1>>}
K_SRot == {<<3, 1>>, <<1, 0>>, <<-2, 3>>}
K_Mass == {1, 3}
K_Inr1 == {<<1, 2, 3>>}
K_Inr == {<<1, 2, 3>>, <<2, 2, 1>>, <<3, 4, 2>>}
K_IPos1 == {<<0, 0, 1>>}
K_IPos == {<<0, 0, 1>>, <<1, -1, 0>>, <<0, 0, 0>>}
K_Q2 == {0, 1}
K_Q == {-1, 0, 1, 2, 3}
K_V1 == {1}
K_V == {-2, -1, 0, 1, 2}
K_A == {-1, 0, 2}
K_G1 == {<<0, 0, -1>>}
K_G == {<<0, 0, -2>>, <<1, 0, -3>>, <<0, 0, 0>>}
\* dynamics-rich sets (C06)
D_Mass == {1, 2}
D_Arm == {0, 1, 3}
D_TC == {0, 1, -1, 2}
D_TArm == {0, 2}
D_Sp1 == {<<0, 0>>, <<1, 2>>}
D_Sp2 == {<<0, 0>>, <<1, 2>>, <<0, 2>>}
D_Sp3 == {<<0, 0>>, <<2, 3>>, <<1, 3>>}
D_OffMix == {<<0, 0, 2>>, <<3, 0, 0>>, <<0, -4, 0>>, <<0, 0, -3>>, <<1, 0, 2>>}
D_Sp == {<<0, 0>>, <<1, 2>>, <<2, 3>>, <<3, 4>>, <<1, 3>>, <<0, 2>>, <<0, 3>>, <<0, 4>>, <<3, 1>>}
D_SpArm == {0, 3}
D_SpArm1 == {3}
D_OffAx1 == {<<0, 0, 2>>}
D_OffAx == {<<0, 0, 2>>, <<3, 0, 0>>, <<0, -4, 0>>, <<0, 0, -3>>}
D_Site0 == {<<0, 0, 0>>, <<0, 0, 1>>}
D_TArm1 == {2}
D_TC2 == {0, 1}
D_V1 == {2}
Ax13 == {1, 3}
\* passive-force sets (C29)
P_K == {0, 2, 3}
P_Ref == {-1, 0, 1}
P_Damp == {0, 1, 2}
P_GC == {0, 1, 2}
P_Dis == {{}, {"spring"}, {"damper"}, {"gravity"}, {"spring", "damper"}, {"spring", "gravity"}}
P_TK == {0, 1, 2}
P_TRng == {<<0, 0>>, <<-1, 1>>, <<1, 2>>}
P_TDamp == {0, 1}
\* polynomial coefficients <<b, c>>: sign preserving with the linear sets above except <<-3, 0>>
P_KP1 == {<<-1, 1>>}
P_DP1 == {<<1, 1>>}
P_TKP1 == {<<1, 0>>}
P_TDP1 == {<<2, 1>>}
P_KPs == {<<0, 0>>, <<-1, 1>>, <<1, 0>>, <<0, 2>>}
P_DPs == {<<0, 0>>, <<1, 0>>, <<2, 1>>, <<-1, 1>>, <<-3, 0>>}
P_SpK == {<<0, 0, 0>>, <<2, 0, 0>>, <<2, -1, 1>>}
P_SpR == {<<0, 0>>, <<1, 2>>, <<2, 4>>}
P_SpD == {<<0, 0, 0>>, <<1, 1, 0>>, <<1, -1, 1>>, <<0, 2, 0>>}
P_K1 == {2}
P_Ref2 == {0, 1}
P_V1 == {-2}
P_V2 == {-2, 0}
P_TRng2 == {<<0, 0>>, <<1, 2>>}
=============================================================================
