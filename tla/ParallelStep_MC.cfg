SPECIFICATION PSpec
CONSTANTS
  NW = 2
  MaxTask = 2
  MaxOps = 2
  Bug = "none"
  Sizes = {1, 2}
  MaxAlloc = 2
INVARIANT ExactlyOnceAtReturn
INVARIANT NoneRunningAtReturn
INVARIANT ThreadIdsInPool
INVARIANT UnlockedAtReturn
INVARIANT Disjoint
INVARIANT BelowTop
INVARIANT ResvOnlyLocked
INVARIANT TopIsSum
INVARIANT OutComplete
