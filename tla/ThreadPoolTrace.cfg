SPECIFICATION TSpec
CONSTANTS
  NW = 3
  MaxTask = 4
  MaxOps = 12
  Bug = "none"
INVARIANT TypeOK
INVARIANT AtMostOnce
INVARIANT ExactlyOnceAtReturn
INVARIANT NoneRunningAtReturn
INVARIANT ThreadIdsInPool
INVARIANT OnlyLiveWorkersRun
INVARIANT UnlockedAtReturn
INVARIANT NoWorkersWithoutPool
INVARIANT WorkersParkedAtReturn
CONSTRAINT Track
POSTCONDITION Report
CHECK_DEADLOCK FALSE
