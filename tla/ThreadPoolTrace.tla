-------------------------- MODULE ThreadPoolTrace --------------------------
\* Trace validation (code -> spec) for ThreadPool.tla: a file of traces recorded by the controlled scheduler
\* from the real engine_thread.cc under seeded random schedules.  Each event is [t, op, obj, val]; an event
\* is explained iff some action of ThreadPool is enabled and produces exactly that event (ev' = event).
\* All invariants of ThreadPool are evaluated on every state of every trace.
EXTENDS ThreadPool, Json, IOUtils, TLCExt
Traces == JsonDeserialize(IOEnv.TRACE_FILE)
VARIABLES tid, l
tvars == <<vars, tid, l>>
TInit == /\ tid \in 1..Len(Traces) /\ TLCSet(tid, 0) /\ l = 1 /\ Init
Cur == Traces[tid][l]
TNext == /\ l <= Len(Traces[tid]) /\ l' = l + 1 /\ UNCHANGED tid
         /\ (MainStep \/ \E w \in Workers : WorkStep(w))
         /\ ev'.t = Cur.t /\ ev'.op = Cur.op /\ ev'.obj = Cur.obj /\ ev'.val = Cur.val
TSpec == TInit /\ [][TNext]_tvars
Track == IF l - 1 > TLCGet(tid) THEN TLCSet(tid, l - 1) ELSE TRUE
Report == /\ \A t \in 1..Len(Traces) : PrintT(<<"TRACE", t, TLCGet(t), Len(Traces[t])>>)
          /\ \A t \in 1..Len(Traces) : TLCGet(t) = Len(Traces[t])
=============================================================================
