------------------------------- MODULE Cache -------------------------------
\* mjCCache (src/user/user_cache.cc): the asset cache as a sequential state machine.  Every public method is
\* one critical section under mutex_, so concurrent histories are interleavings of these atomic actions in
\* lock-acquisition order (CacheTrace validates recorded concurrent histories in that order).
EXTENDS Integers, Sequences, FiniteSets, TLC
CONSTANTS Models, Ids, Stamps, Bytes, Caps, MaxOps

VARIABLES cap, size, insnum,
          asset,      \* asset[id] = NONE or [ts, bytes, acc, ins, refs, tok]   (tok identifies the stored data)
          mods,       \* mods[m] = ids the model references (models_ map; absent = {})
          nops, ev
vars == <<cap, size, insnum, asset, mods, nops, ev>>
NONE == [none |-> TRUE]
Held == {i \in Ids : asset[i] # NONE}
RECURSIVE SumOf(_, _)
SumOf(a, S) == IF S = {} THEN 0 ELSE LET x == CHOOSE y \in S : TRUE IN a[x].bytes + SumOf(a, S \ {x})
Sum(S) == SumOf(asset, S)

Init == /\ cap \in Caps /\ size = 0 /\ insnum = 0
        /\ asset = [i \in Ids |-> NONE] /\ mods = [m \in Models |-> {}]
        /\ nops = 0 /\ ev = [op |-> "init", cap |-> cap]
Tick == nops < MaxOps /\ nops' = nops + 1

\* Insert(modelname, id, resource(ts), data(tok), size)
InsertT(m, i, ts, b, tok) ==
  /\ IF asset[i] = NONE
     THEN IF size + b > cap
          THEN /\ ev' = [op |-> "insert", m |-> m, id |-> i, ts |-> ts, b |-> b, tok |-> tok, ret |-> 0, size |-> size]
               /\ UNCHANGED <<size, insnum, asset, mods>>
          ELSE /\ asset' = [asset EXCEPT ![i] = [ts |-> ts, bytes |-> b, acc |-> 0, ins |-> insnum, refs |-> {m}, tok |-> tok]]
               /\ insnum' = insnum + 1 /\ size' = size + b
               /\ mods' = [mods EXCEPT ![m] = @ \cup {i}]
               /\ ev' = [op |-> "insert", m |-> m, id |-> i, ts |-> ts, b |-> b, tok |-> tok, ret |-> 1, size |-> size + b]
     ELSE IF size - asset[i].bytes + b > cap
          THEN /\ ev' = [op |-> "insert", m |-> m, id |-> i, ts |-> ts, b |-> b, tok |-> tok, ret |-> 0, size |-> size]
               /\ UNCHANGED <<size, insnum, asset, mods>>
          ELSE /\ mods' = [mods EXCEPT ![m] = @ \cup {i}]
               /\ IF asset[i].ts = ts
                  THEN /\ asset' = [asset EXCEPT ![i].refs = @ \cup {m}] /\ UNCHANGED size
                  ELSE /\ asset' = [asset EXCEPT ![i].refs = @ \cup {m}, ![i].ts = ts, ![i].bytes = b, ![i].tok = tok]
                       /\ size' = size - asset[i].bytes + b
               /\ UNCHANGED insnum
               /\ ev' = [op |-> "insert", m |-> m, id |-> i, ts |-> ts, b |-> b, tok |-> tok, ret |-> 1, size |-> size']
  /\ UNCHANGED cap
Insert(m, i, ts, b) == Tick /\ InsertT(m, i, ts, b, nops + 1)

\* PopulateData(id, resource with current timestamp ts): hit iff present and not modified; returns the stored data
PopulateT(i, ts) ==
  /\ IF asset[i] # NONE /\ asset[i].ts = ts
     THEN /\ asset' = [asset EXCEPT ![i].acc = @ + 1]
          /\ ev' = [op |-> "populate", id |-> i, ts |-> ts, ret |-> 1, tok |-> asset[i].tok, size |-> size]
     ELSE /\ UNCHANGED asset /\ ev' = [op |-> "populate", id |-> i, ts |-> ts, ret |-> 0, tok |-> 0, size |-> size]
  /\ UNCHANGED <<cap, size, insnum, mods>>
Populate(i, ts) == Tick /\ PopulateT(i, ts)

HasT(i) ==
  /\ ev' = [op |-> "has", id |-> i, ret |-> IF asset[i] = NONE THEN "none" ELSE asset[i].ts, size |-> size]
  /\ UNCHANGED <<cap, size, insnum, asset, mods>>
Has(i) == Tick /\ HasT(i)

RemoveModelT(m) ==
  /\ LET gone == {i \in mods[m] : asset[i].refs = {m}}
         keep == mods[m] \ gone IN
     /\ asset' = [i \in Ids |-> IF i \in gone THEN NONE
                                ELSE IF i \in keep THEN [asset[i] EXCEPT !.refs = @ \ {m}] ELSE asset[i]]
     /\ size' = size - Sum(gone)
     /\ mods' = [mods EXCEPT ![m] = {}]
     /\ ev' = [op |-> "removemodel", m |-> m, size |-> size - Sum(gone)]
  /\ UNCHANGED <<cap, insnum>>
RemoveModel(m) == Tick /\ RemoveModelT(m)

ResetModelT(m) ==     \* Reset(filename): deletes every asset the model references, shared or not
  /\ asset' = [i \in Ids |-> IF i \in mods[m] THEN NONE ELSE asset[i]]
  /\ size' = size - Sum(mods[m])
  /\ mods' = [k \in Models |-> IF k = m THEN {} ELSE mods[k] \ mods[m]]
  /\ ev' = [op |-> "resetmodel", m |-> m, size |-> size - Sum(mods[m])]
  /\ UNCHANGED <<cap, insnum>>
ResetModel(m) == Tick /\ ResetModelT(m)

ResetAllT ==
  /\ asset' = [i \in Ids |-> NONE] /\ mods' = [m \in Models |-> {}]
  /\ size' = 0 /\ insnum' = 0 /\ ev' = [op |-> "resetall", size |-> 0] /\ UNCHANGED cap
ResetAll == Tick /\ ResetAllT

DeleteAssetT(i) ==
  /\ IF asset[i] = NONE THEN UNCHANGED <<asset, mods, size>> /\ ev' = [op |-> "delete", id |-> i, size |-> size]
     ELSE /\ asset' = [asset EXCEPT ![i] = NONE] /\ size' = size - asset[i].bytes
          /\ mods' = [m \in Models |-> mods[m] \ {i}]
          /\ ev' = [op |-> "delete", id |-> i, size |-> size - asset[i].bytes]
  /\ UNCHANGED <<cap, insnum>>
DeleteAsset(i) == Tick /\ DeleteAssetT(i)

\* Trim: evict in (access count, insertion number) order until size <= capacity
RECURSIVE TrimTo(_, _, _, _)
TrimTo(a, md, sz, c) ==
  LET held == {i \in Ids : a[i] # NONE} IN
  IF sz <= c \/ held = {} THEN [a |-> a, md |-> md, sz |-> sz]
  ELSE LET v == CHOOSE i \in held : \A j \in held \ {i} :
                    \/ a[i].acc < a[j].acc \/ (a[i].acc = a[j].acc /\ a[i].ins < a[j].ins)
       IN TrimTo([a EXCEPT ![v] = NONE], [m \in Models |-> md[m] \ {v}], sz - a[v].bytes, c)
SetCapacityT(c) ==
  /\ LET r == TrimTo(asset, mods, size, c) IN
     asset' = r.a /\ mods' = r.md /\ size' = r.sz /\ ev' = [op |-> "setcap", c |-> c, size |-> r.sz]
  /\ cap' = c /\ UNCHANGED insnum
SetCapacity(c) == Tick /\ SetCapacityT(c)

Next == \/ \E m \in Models, i \in Ids, ts \in Stamps, b \in Bytes : Insert(m, i, ts, b)
        \/ \E i \in Ids, ts \in Stamps : Populate(i, ts)
        \/ \E i \in Ids : Has(i) \/ DeleteAsset(i)
        \/ \E m \in Models : RemoveModel(m) \/ ResetModel(m)
        \/ ResetAll
        \/ \E c \in Caps : SetCapacity(c)
Spec == Init /\ [][Next]_vars

\* ---- the property
SizeIsSum   == size = Sum(Held)
Bounded     == size <= cap
RefsAgree   == \A m \in Models, i \in Ids : (i \in mods[m]) <=> (asset[i] # NONE /\ m \in asset[i].refs)
NoOrphans   == \A i \in Held : asset[i].refs # {}
InsUnique   == \A i, j \in Held : i # j => asset[i].ins # asset[j].ins
\* a lookup returns the data most recently stored for that (id, timestamp)
LookupFresh == [][(ev'.op = "populate" /\ ev'.ret = 1) => (asset[ev'.id].tok = ev'.tok /\ asset[ev'.id].ts = ev'.ts)]_vars
\* assets still referenced by a remaining model survive the removal of another model
SharedSurvive == [][(ev'.op = "removemodel") =>
                     \A i \in Held : (asset[i].refs \ {ev'.m} # {}) => asset'[i] # NONE]_vars
\* eviction follows (access count, insertion order): whatever setcap evicts ranks below whatever it keeps
EvictionOrder == [][(ev'.op = "setcap") =>
                     \A g \in Held, k \in Held : (asset'[g] = NONE /\ asset'[k] # NONE) =>
                        (asset[g].acc < asset[k].acc \/ (asset[g].acc = asset[k].acc /\ asset[g].ins < asset[k].ins))]_vars
View == <<cap, size, insnum, asset, mods, nops>>
=============================================================================
