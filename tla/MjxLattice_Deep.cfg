SPECIFICATION Spec
CONSTANTS
  Hs <- L_H
  Gs <- L_G
  MPs <- L_MP4
  Q0s <- L_Q2
  V0s <- L_V2
  W0s <- L_W2
  T0s <- L_T0
  Us <- L_U
  Fs <- L_F2
  Combos <- L_CombosAll
  Acts <- L_ActsAll
  MaxSteps = 1
  Variant = "doc"
  Bound = 4096
  BoundRK = 64
INVARIANT TypeOK
INVARIANT GateSound
INVARIANT TimeAdvances
INVARIANT ActInRange
INVARIANT ForceInRange
INVARIANT CtrlClamp
INVARIANT Disabled
INVARIANT ActFrozen
INVARIANT ActLaw
INVARIANT SemiImplicit
INVARIANT UpdateEq
INVARIANT ImplicitIsEulerDamp
INVARIANT RK4Taylor
INVARIANT RK4ConstAcc
INVARIANT FreeFall
INVARIANT DamperContracts
CHECK_DEADLOCK FALSE
