SPECIFICATION Spec
CONSTANTS
  Kps <- L_KpX
  Kis <- L_KiX
  Kds <- L_KdX
  IMaxs <- L_IMaxX
  SlewMaxs <- L_SlewX
  CtrlLims <- L_CL
  Hs <- L_HX
  Ms <- L_MX
  Q0s <- L_QX
  V0s <- L_VX
  I0s <- L_I0X
  P0s <- L_P0X
  T0s <- L_T0X
  Us <- L_UX
  MaxSteps = 8
  Bound = 4096
  Variant = "doc"

INVARIANT TypeOK
INVARIANT ITermBounded
INVARIANT SlewBounded
INVARIANT SlewMinimal
INVARIANT StateTracks
INVARIANT CtrlRange
INVARIANT PureP
INVARIANT PureD
INVARIANT PureI
INVARIANT IntegralSum
INVARIANT ClipOnBound
INVARIANT TimeAdvances
INVARIANT NeighbourLaws
CHECK_DEADLOCK FALSE
