SPECIFICATION Spec
CONSTANTS
  MinBodies = 1
  MaxBodies = 1
  JTypes <- AllJ
  Axes <- Ax2
  Offsets <- K_Off1
  Rots <- K_Rot2
  Anchors <- K_Anc1
  SitePos <- K_Site1
  SiteRots <- K_SRot1
  Masses <- One1
  Inertias <- K_Inr1
  IPoss <- K_IPos1
  Arms <- One1
  Stiffs <- P_K
  Refs <- One0
  Damps <- One1
  GCs <- One1
  TCoefs <- One1
  Qs <- K_Q2
  Vs <- K_V1
  As <- One1
  QScales <- QS1
  Gravs <- K_G1
  DisSets <- NoDis
  TenK <- One1
  TenRanges <- Rng0
  TenDamps <- One1
  TenArms <- One1
  TenZero <- NoTz
  SpPairs <- NoSpS
  SpArms <- One0
  Sleeps <- NoTz
  StiffPolys <- P_KP1
  DampPolys <- P_DP1
  TenKPolys <- P_TKP1
  TenDPolys <- P_TDP1
  SpStiffs <- T000
  SpRanges <- Rng0
  SpDamps <- T000
  Level = 3
  Tie = FALSE
  Rand = FALSE
INVARIANT TypeOK
INVARIANT FramesProper
INVARIANT JacIsDerivative
INVARIANT MoveIsLocal
INVARIANT VelIsRecursive
INVARIANT SubtreeJacIsDerivative
INVARIANT MSymmetric
INVARIANT MSparsity
INVARIANT MPositiveDefinite
INVARIANT KaneIsRecursive
INVARIANT RneIsMaPlusBias
INVARIANT KineticIsQuadratic
INVARIANT BiasAtRestIsGravity
INVARIANT SlideBiasVelFree
INVARIANT SpringIsMinusGradient
INVARIANT DamperDissipates
INVARIANT GravcompCancels
INVARIANT FullGravcompBalances
INVARIANT RestAtReferenceIsForceFree
INVARIANT SpatialJacIsDerivative
INVARIANT SpatialMassOK
INVARIANT ConstraintJacIsDerivative
INVARIANT DamperIsOdd
CHECK_DEADLOCK FALSE
