--------------------------- MODULE SpecLifecycle ---------------------------
\* Life cycle of mjSpec / mjModel / mjData objects through the compiler API (src/user/user_api.cc, user_model.cc):
\*   mj_compile, mj_copySpec, mj_copyModel, spec edits (mjs_* setters, mjs_add*, mjs_delete),
\*   compiler.usethread on/off, mj_recompile, plus the user writing the simulation state and mj_makeData, and the
\*   process-global ASSET CACHE (mj_getCache / mj_setCacheCapacity / mj_clearCache) that file meshes go through.
\*
\* A spec slot holds a CONTENT = the base description and the sequence of edits applied to it, a flag `thr`
\* (multithreaded asset compiler) and `last` = the model slot its internal addresses refer to (its last compile).
\* A model slot holds the content it was compiled from.  The property:
\*   Deterministic / copy-invariant : models compiled from equal contents are byte-identical, whatever the path
\*        (first or repeated compile, copy of the spec, copy of the model, threads on or off, recompile in place);
\*        `obs.cls` publishes the partition of the model slots the implementation must exhibit (mj_saveModel bytes).
\*   StatePreserved : mj_recompile keeps time and, for every state-carrying element that exists before and after
\*        (joint: qpos, qvel; actuator: all its ctrl inputs and its act; mocap body: pose), exactly the values the
\*        data held; elements created by the edits start from the model defaults.  `obs.st` publishes for every
\*        element a token: 0 = default, v > 0 = the values written by the v-th SetState.
\*   CacheStateIrrelevant : the asset cache is hidden state.  Every base has three FILE meshes (served from a VFS),
\*        two of them loading the SAME file with different inertia modes; a cache entry is keyed by the file and
\*        remembers the properties it was built with; a compile hits (same properties) or misses and replaces the
\*        entry.  model[m].how records under which cache state (enabled?, number of hits) the slot was compiled:
\*        models of equal content are in one class WHATEVER `how` is - cache disabled, cold, warm, threaded.
\* The state-carrying elements of a content are given by Elements(c) (the harness builds the same objects):
\*   base  "plain" : joints j1 (hinge) j2 (slide) j3 (free) j4 (hinge, after the free joint: qpos and dof addresses differ), actuators a1 (filter dynamics) a2, muscles u1 u2, mocap body mb
\*   base  "multi" : the same plus a0 = PID actuator with TWO control inputs, declared before a1, a2
\*   every base   : user meshes m1..m4 (vertices + faces in the spec) with scale signs +++, -++, +--, ++- (a mirrored
\*                  mesh makes the compiler rewrite its faces: compiling the SAME spec again must give the same bytes)
\*   edit  "size"      : a geom size changes (no element added)        edit "mesh" : m1 is rescaled AND mirrored
\*   edit  "addchild"  : body with joint jx under the FIRST body (all later qpos/qvel addresses shift), actuator ax
\*   edit  "delact"    : the first actuator of the base is deleted (all later ctrl/act addresses shift)
EXTENDS Integers, Sequences, FiniteSets, TLC
CONSTANTS NS, NM,      \* spec slots 1..NS, model slots 1..NM
          MaxOps,
          Bases,       \* subset of {"plain", "multi"}
          Edits,       \* subset of {"size", "mesh", "addchild", "delact"}
          MaxEdits,    \* edits per content
          Ops,         \* operations explored (names as in ev.op)
          InitThr      \* values of compiler.usethread the first spec starts with

VARIABLES spec,    \* [1..NS -> NoSpec | [c : content, thr : BOOLEAN, last : 0..NM]]
          model,   \* [1..NM -> NoModel | [c : content]]
          cache,   \* [on : BOOLEAN, ent : [Files -> properties | "none"]]   the global asset cache
          data,    \* NoData | [m : model slot, time : token, st : [element -> token]]   (one mjData)
          nset,    \* number of SetState so far (tokens are 1, 2, ...)
          nops, ev, obs
vars == <<spec, model, cache, data, nset, nops, ev, obs>>

NoSpec  == [c |-> << >>]
NoModel == [c |-> << >>, how |-> << >>]
NoData  == [m |-> 0]
Content(b, es) == <<b, es>>
BaseOf(c)  == c[1]
EditsOf(c) == c[2]
Has(c, e)  == \E i \in 1..Len(EditsOf(c)) : EditsOf(c)[i] = e

FirstAct(b) == IF b = "multi" THEN "a0" ELSE "a1"
BaseElements(b) == {"j1", "j2", "j3", "j4", "a1", "a2", "u1", "u2", "mb"} \cup (IF b = "multi" THEN {"a0"} ELSE {})
Elements(c) == ((BaseElements(BaseOf(c)) \cup (IF Has(c, "addchild") THEN {"jx", "ax"} ELSE {}))
                \ (IF Has(c, "delact") THEN {FirstAct(BaseOf(c))} ELSE {}))

\* file meshes of every base, in list order: <<file, inertia mode>>
FileMeshes == << <<"L", "exact">>, <<"L", "legacy">>, <<"O", "legacy">> >>
Files == {FileMeshes[i][1] : i \in 1..Len(FileMeshes)}
ColdCache == [on |-> TRUE, ent |-> [f \in Files |-> "none"]]
\* one compile: every file mesh looks its file up; a hit needs the same properties, a miss rebuilds and replaces the entry
RECURSIVE CacheFold(_, _)
CacheFold(ent, k) == IF k > Len(FileMeshes) THEN ent
                     ELSE LET f == FileMeshes[k][1]  p == FileMeshes[k][2]
                          IN CacheFold(IF ent[f] = p THEN ent ELSE [ent EXCEPT ![f] = p], k + 1)
RECURSIVE CacheHits(_, _)
CacheHits(ent, k) == IF k > Len(FileMeshes) THEN 0
                     ELSE LET f == FileMeshes[k][1]  p == FileMeshes[k][2]
                          IN (IF ent[f] = p THEN 1 ELSE 0) + CacheHits(IF ent[f] = p THEN ent ELSE [ent EXCEPT ![f] = p], k + 1)
AfterCompile(ch) == IF ch.on THEN [ch EXCEPT !.ent = CacheFold(ch.ent, 1)] ELSE ch
How(ch) == <<ch.on, IF ch.on THEN CacheHits(ch.ent, 1) ELSE 0>>
Live(x) == x.c # << >>
\* partition of the live model slots by content: cls[m] = smallest slot with the same content (0 = empty slot)
Classes(md) == [m \in 1..NM |-> IF ~Live(md[m]) THEN 0
                                ELSE CHOOSE k \in 1..NM : /\ Live(md[k]) /\ md[k].c = md[m].c
                                                          /\ \A j \in 1..(k - 1) : ~(Live(md[j]) /\ md[j].c = md[m].c)]
ObsOf(md, d) == [cls |-> Classes(md),
                 how |-> [m \in 1..NM |-> md[m].how],      \* cache state each slot was compiled under (for diagnostics)
                 dm  |-> d.m,
                 time |-> IF d.m = 0 THEN 0 ELSE d.time,
                 st  |-> IF d.m = 0 THEN << >> ELSE d.st]

\* every behaviour starts after  mj_makeSpec + base description (slot 1), mj_compile -> model 1, mj_makeData
Start(b, t) ==
  LET md == [m \in 1..NM |-> IF m = 1 THEN [c |-> Content(b, << >>), how |-> How(ColdCache)] ELSE NoModel]
      dt == [m |-> 1, time |-> 0, st |-> [e \in Elements(Content(b, << >>)) |-> 0]]
  IN /\ spec = [s \in 1..NS |-> IF s = 1 THEN [c |-> Content(b, << >>), thr |-> t, last |-> 1] ELSE NoSpec]
     /\ model = md /\ cache = AfterCompile(ColdCache) /\ data = dt /\ nset = 0 /\ nops = 0
     /\ ev = [op |-> "init", base |-> b, thr |-> t] /\ obs = ObsOf(md, dt)
Init == \E b \in Bases, t \in InitThr : Start(b, t)
Step == nops < MaxOps /\ nops' = nops + 1
Publish == obs' = ObsOf(model', data')

\* mj_makeSpec + the base description
NewSpec(s, b, t) ==
  /\ Step /\ ~Live(spec[s])
  /\ spec' = [spec EXCEPT ![s] = [c |-> Content(b, << >>), thr |-> t, last |-> 0]]
  /\ ev' = [op |-> "newspec", s |-> s, base |-> b, thr |-> t]
  /\ UNCHANGED <<model, cache, data, nset>> /\ Publish
\* mj_copySpec (the copy has never been compiled itself)
CopySpec(s, s2) ==
  /\ Step /\ Live(spec[s]) /\ ~Live(spec[s2])
  /\ spec' = [spec EXCEPT ![s2] = [spec[s] EXCEPT !.last = 0]]
  /\ ev' = [op |-> "copyspec", s |-> s, s2 |-> s2]
  /\ UNCHANGED <<model, cache, data, nset>> /\ Publish
\* an edit through the mjs_* API
Edit(s, e) ==
  /\ Step /\ Live(spec[s]) /\ ~Has(spec[s].c, e) /\ Len(EditsOf(spec[s].c)) < MaxEdits
  /\ spec' = [spec EXCEPT ![s].c = Content(BaseOf(@), Append(EditsOf(@), e))]
  /\ ev' = [op |-> "edit", s |-> s, e |-> e]
  /\ UNCHANGED <<model, cache, data, nset>> /\ Publish
\* compiler.usethread := ~usethread
ToggleThreads(s) ==
  /\ Step /\ Live(spec[s])
  /\ spec' = [spec EXCEPT ![s].thr = ~@]
  /\ ev' = [op |-> "thread", s |-> s, thr |-> ~spec[s].thr]
  /\ UNCHANGED <<model, cache, data, nset>> /\ Publish
\* mj_compile into a model slot that the data does not use (a fresh mjModel)
Compile(s, m) ==
  /\ Step /\ Live(spec[s]) /\ data.m # m
  /\ model' = [model EXCEPT ![m] = [c |-> spec[s].c, how |-> How(cache)]]
  /\ cache' = AfterCompile(cache)
  \* every spec whose addresses referred to the overwritten slot loses that reference
  /\ spec' = [x \in 1..NS |-> IF x = s THEN [spec[s] EXCEPT !.last = m]
                              ELSE IF Live(spec[x]) /\ spec[x].last = m THEN [spec[x] EXCEPT !.last = 0] ELSE spec[x]]
  /\ ev' = [op |-> "compile", s |-> s, m |-> m, thr |-> spec[s].thr]
  /\ UNCHANGED <<data, nset>> /\ Publish
\* mj_copyModel
CopyModel(m, m2) ==
  /\ Step /\ Live(model[m]) /\ m # m2 /\ data.m # m2
  /\ model' = [model EXCEPT ![m2] = model[m]]
  /\ spec' = [x \in 1..NS |-> IF Live(spec[x]) /\ spec[x].last = m2 THEN [spec[x] EXCEPT !.last = 0] ELSE spec[x]]
  /\ ev' = [op |-> "copymodel", m |-> m, m2 |-> m2]
  /\ UNCHANGED <<cache, data, nset>> /\ Publish
\* mj_setCacheCapacity(0) (disables and empties the cache), default capacity again, mj_clearCache
CacheOp(k) ==
  /\ Step
  /\ cache' = IF k = "off" THEN [on |-> FALSE, ent |-> [f \in Files |-> "none"]]
              ELSE IF k = "on" THEN [cache EXCEPT !.on = TRUE]
              ELSE [cache EXCEPT !.ent = [f \in Files |-> "none"]]
  /\ ev' = [op |-> "cache", k |-> k]
  /\ UNCHANGED <<spec, model, data, nset>> /\ Publish
\* mj_makeData for a model (replaces the single mjData): everything at the defaults
MakeData(m) ==
  /\ Step /\ Live(model[m])
  /\ data' = [m |-> m, time |-> 0, st |-> [e \in Elements(model[m].c) |-> 0]]
  /\ ev' = [op |-> "makedata", m |-> m]
  /\ UNCHANGED <<spec, model, cache, nset>> /\ Publish
\* the user overwrites time, qpos, qvel, act, ctrl, mocap pose with fresh values
SetState ==
  /\ Step /\ data.m # 0
  /\ nset' = nset + 1
  /\ data' = [data EXCEPT !.time = nset + 1, !.st = [e \in DOMAIN data.st |-> nset + 1]]
  /\ ev' = [op |-> "setstate", v |-> nset + 1]
  /\ UNCHANGED <<spec, model, cache>> /\ Publish
\* mj_recompile(s, m, d): m is the model of the spec's last compile and d is its data
Recompile(s) ==
  /\ Step /\ Live(spec[s]) /\ spec[s].last # 0 /\ data.m = spec[s].last
  /\ LET m == spec[s].last  c2 == spec[s].c IN
     /\ model' = [model EXCEPT ![m] = [c |-> c2, how |-> How(cache)]]
     /\ cache' = AfterCompile(cache)
     /\ data' = [data EXCEPT !.st = [e \in Elements(c2) |-> IF e \in DOMAIN data.st THEN data.st[e] ELSE 0]]
     /\ ev' = [op |-> "recompile", s |-> s, m |-> m, thr |-> spec[s].thr]
  /\ UNCHANGED <<spec, nset>> /\ Publish

On(o) == o \in Ops
DoNewSpec   == On("newspec")   /\ \E s \in 1..NS, b \in Bases, t \in BOOLEAN : NewSpec(s, b, t)
DoCopySpec  == On("copyspec")  /\ \E s, s2 \in 1..NS : CopySpec(s, s2)
DoEdit      == On("edit")      /\ \E s \in 1..NS, e \in Edits : Edit(s, e)
DoThreads   == On("thread")    /\ \E s \in 1..NS : ToggleThreads(s)
DoCompile   == On("compile")   /\ \E s \in 1..NS, m \in 1..NM : Compile(s, m)
DoCopyModel == On("copymodel") /\ \E m, m2 \in 1..NM : CopyModel(m, m2)
DoMakeData  == On("makedata")  /\ \E m \in 1..NM : MakeData(m)
DoSetState  == On("setstate")  /\ SetState
DoRecompile == On("recompile") /\ \E s \in 1..NS : Recompile(s)
DoCache     == On("cache")     /\ \E k \in {"off", "on", "clear"} : CacheOp(k)
Next == DoNewSpec \/ DoCopySpec \/ DoEdit \/ DoThreads \/ DoCompile \/ DoCopyModel \/ DoMakeData \/ DoSetState \/ DoRecompile \/ DoCache
Spec == Init /\ [][Next]_vars

\* ---- properties ---------------------------------------------------------------------------------
TypeOK == /\ \A s \in 1..NS : Live(spec[s]) => spec[s].last \in 0..NM /\ BaseOf(spec[s].c) \in Bases
          /\ data.m \in 0..NM /\ obs = ObsOf(model, data)
\* equal content <=> same class: what the byte comparison is held against
ClassesAreContents == \A m1, m2 \in 1..NM : (Live(model[m1]) /\ Live(model[m2])) =>
                          ((obs.cls[m1] = obs.cls[m2]) <=> (model[m1].c = model[m2].c))
\* a spec's addresses always refer to a model compiled from a content of the SAME base (what mj_recompile relies on)
LastIsOwn == \A s \in 1..NS : (Live(spec[s]) /\ spec[s].last # 0) =>
                 (Live(model[spec[s].last]) /\ BaseOf(model[spec[s].last].c) = BaseOf(spec[s].c))
\* the data always carries exactly the elements of its model
DataMatchesModel == data.m # 0 => (Live(model[data.m]) /\ DOMAIN data.st = Elements(model[data.m].c))
\* the cache is hidden state: models of one content form one class whatever cache state each was compiled under,
\* and cache operations touch no model, spec or data
CacheStateIrrelevant ==
  /\ \A m1, m2 \in 1..NM : (Live(model[m1]) /\ Live(model[m2]) /\ model[m1].c = model[m2].c) => obs.cls[m1] = obs.cls[m2]
  /\ cache.on \/ \A f \in Files : cache.ent[f] = "none"
CacheOpsArePure == [][ev'.op = "cache" => (model' = model /\ spec' = spec /\ data' = data /\ obs' = obs)]_vars
\* copies and thread toggles never change what a later compile produces
CopyKeepsContent == [][ev'.op = "copyspec" => spec'[ev'.s2].c = spec[ev'.s].c]_vars
ThreadsKeepContent == [][ev'.op = "thread" => spec'[ev'.s].c = spec[ev'.s].c /\ model' = model]_vars
CopyModelSameClass == [][ev'.op = "copymodel" => obs'.cls[ev'.m2] = obs'.cls[ev'.m]]_vars
\* mj_recompile preserves the simulation state of the data it is given
StatePreserved == [][ev'.op = "recompile" =>
                       /\ data'.time = data.time /\ data'.m = data.m
                       /\ \A e \in DOMAIN data'.st : IF e \in DOMAIN data.st THEN data'.st[e] = data.st[e] ELSE data'.st[e] = 0
                       /\ DOMAIN data'.st = Elements(model'[data.m].c)]_vars
\* only SetState, MakeData and Recompile touch the data
DataOnlyByDataOps == [][ev'.op \notin {"setstate", "makedata", "recompile"} => data' = data]_vars
\* ---- constants for the configurations
BothBases == {"plain", "multi"}
PlainOnly == {"plain"}
MultiOnly == {"multi"}
AllEdits  == {"size", "mesh", "addchild", "delact"}
TwoEdits  == {"addchild", "delact"}
AllOps    == {"newspec", "copyspec", "edit", "thread", "compile", "copymodel", "makedata", "setstate", "recompile", "cache"}
CacheOps  == {"thread", "compile", "copymodel", "recompile", "cache"}
NoCacheOps == {"newspec", "copyspec", "edit", "thread", "compile", "copymodel", "makedata", "setstate", "recompile"}
CacheOpsQ == {"compile", "recompile", "cache"}
RecOps    == {"edit", "setstate", "recompile"}
NoThr     == {FALSE}
ViewNoEv  == <<spec, model, cache, data, nset, nops>>
=============================================================================
