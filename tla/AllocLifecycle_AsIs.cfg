SPECIFICATION AsIsSpec
CONSTANTS
  Blocks <- MC_Blocks6
  Objs <- MC_Objs
  MaxCalls = 2
  TolerateFailLeak = FALSE
  NAllocs = 3
INVARIANT TypeOK
INVARIANT NoDoubleFree
INVARIANT NoViolation
CHECK_DEADLOCK FALSE
