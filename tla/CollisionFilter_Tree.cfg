SPECIFICATION Spec
CONSTANTS
  MaxBodies = 3
  MaxGeoms = 4
  PerBody = 1
  MaxPairs = 0
  MaxExcl = 0
  MaxOps = 1
  BodyKinds <- Tree_Kinds
  Radii <- Tree_Radii
  Xs <- Tree_Xs
  Zs <- Tree_Zs
  Masks <- Tree_Masks
  Margins <- Tree_Margins
  PairMargins <- Tree_PairMargins
  Moves <- Tree_Moves
  Toggles <- Tree_Toggles
INVARIANT TypeOK
INVARIANT ContactsAreExpected
INVARIANT BroadComplete
INVARIANT CandidatesNear
INVARIANT NoContactWhenDisabled
INVARIANT NoSelfContact
CHECK_DEADLOCK FALSE
