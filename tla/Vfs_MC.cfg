SPECIFICATION Spec
CONSTANTS
  MaxOps = 3
  Dots <- NoDots
  DotDots <- NoDD
  Seps <- BothSeps
INVARIANT TypeOK
INVARIANT PresenceIsObs
INVARIANT ReadPresentExact
PROPERTY AddThenPresent
PROPERTY AddKeepsOthers
PROPERTY RepeatKeeps
PROPERTY FreshAddStores
PROPERTY DeleteThenAbsent
PROPERTY DeleteRemovesOne
PROPERTY DeleteAbsentFails
CHECK_DEADLOCK FALSE
