--------------------------- MODULE DataLifecycle ---------------------------
\* C01 - simulation is a deterministic function of the integration state.
\*
\* NI mjData instances of one model.  Nothing numeric is modelled: every piece of an instance holds a *value id*
\*      0            the value a freshly made / reset mjData has
\*      1..NPat      user pattern k written by the caller (the replay harness fixes the numbers per model)
\*      100 + j      the result of pipeline call number j of the definition table `defs`
\* `defs` is a hash-consing table: a pipeline call is a record [k = kind of call, i = integration state it read,
\* x = the other input it read (qacc for inverse dynamics, the position/velocity stage data for mj_step2),
\* h = hidden sleep state (only when sleeping is enabled)].  Two calls get the same id iff they read the same
\* inputs: "equal id" is exactly the claim "bit-identical", and it is what the replay compares bytewise.
\*
\* Pieces of an instance
\*   ist[d][g]   integration state, by groups of mjtState bits
\*                 time | qp (qpos qvel act) | hist (history) | plug (plugin_state) | warm (qacc_warmstart)
\*                 | ctrl | app (qfrc_applied xfrc_applied) | aux (eq_active mocap_pos mocap_quat userdata)
\*   der[d][c]   provenance of derived data: pv (position/velocity stage arrays, contacts, efc rows, energy),
\*               acc (constraint forces), qacc (an INPUT of inverse dynamics, which the caller may also write),
\*               sm (smooth-dynamics and actuator-force arrays written together with qacc by forward dynamics),
\*               sx (what the acceleration-stage sensors were computed from: in inverse dynamics they also read
\*               the stored actuator forces), inv (qfrc_inverse)
\*   pvk[d]      which position stage produced pv: none | full (forward/step/step1) | inv (mj_inverse: no islands)
\*   hid[d]      sleeping enabled only: hidden sleep state (tree_asleep countdowns, latent data of sleeping trees);
\*               0 = every tree fully awake (the state of a fresh mjData).  It is not part of any state signature:
\*               mj_copyState / mj_setState leave it alone, mj_copyData copies it (doc: "Compact state" caveat).
\*               Whether a call leaves the instance fully awake depends on numbers; it is the parameter `fa` of the
\*               pipeline actions (environment choice in this module, recorded from the code in DataLifecycleTrace).
EXTENDS Integers, Sequences, FiniteSets, TLC
CONSTANTS NI,        \* number of instances
          MaxOps,
          NPat,      \* user patterns 1..NPat
          SigNames,  \* signatures offered to mj_copyState / mj_getState
          GoodSigs,  \* signatures claimed to make source and destination step identically (property GoodSig)
          SleepOn,   \* mjENBL_SLEEP
          Caveat,    \* TRUE: the sleep caveat is part of the claim (FALSE only in negative configurations)
          Phased,    \* TRUE: an operation kind is drawn first, then its arguments (balanced -simulate behaviours)
          Opts,      \* option combinations the behaviours are replayed with (chosen in Init, reported in ev)
          Scenario,  \* TRUE: after an operation that makes two instances integration-state equal (mj_copyData,
                     \*   mj_copyState / mj_setState of mjSTATE_INTEGRATION) the same pipeline call on both is forced
          Allowed    \* {} = every operation; otherwise the set of <<op, a, b, sig, g, k>> the histories are made of

Inst   == 1..NI
Groups == {"time", "qp", "hist", "plug", "warm", "ctrl", "app", "aux"}
StepGroups == {"time", "qp", "hist", "plug", "warm"}       \* what time integration writes
UserGroups == Groups \ {"hist"}                             \* what the caller writes directly
DerClasses == {"pv", "acc", "qacc", "sm", "sx", "inv"}
FieldClasses == DerClasses \ {"sx"}          \* sx has no fields of its own: it only conditions the claim on sensordata
SigOf(s) == CASE s = "INTEGRATION" -> Groups
              [] s = "FULLPHYSICS" -> {"time", "qp", "hist", "plug"}
              [] s = "PHYSICS"     -> {"qp", "hist"}
              [] s = "USER"        -> {"ctrl", "app", "aux"}
              [] s = "NOWARM"      -> Groups \ {"warm"}
              [] s = "WARM"        -> {"warm"}
              [] s = "CTRL"        -> {"ctrl"}
              [] s = "QPT"         -> {"time", "qp"}
Kinds == {"make", "reset", "copydata", "copystate", "getstate", "setstate", "setinput", "setall", "setqacc",
          "forward", "inverse", "step", "step1", "step2"}

VARIABLES ist, der, pvk, hid,
          twin,    \* pairs of instances that are byte-for-byte copies (mj_copyData, nothing done to either since)
          defs,    \* definition table of pipeline results
          buf,     \* the caller's state vector: [sig, v] (v = the integration state it was read from)
          opt,     \* option combination of this behaviour
          kind,    \* Phased: operation kind drawn for the next operation ("" = none)
          plan,    \* Scenario: the forced calls still to come, <<op, instance>> each
          nops,
          ev,      \* last operation and its arguments
          obs      \* what the implementation must show after ev: set of <<other instance, class>> equal to ev.a
vars == <<ist, der, pvk, hid, twin, defs, buf, opt, kind, plan, nops, ev, obs>>

ZeroIst == [g \in Groups |-> 0]
ZeroDer == [c \in DerClasses |-> 0]
NoBuf   == [sig |-> "", v |-> ZeroIst, from |-> 0]
CallKinds == {"forward", "inverse", "step", "step1", "step2"}

\* ---- hash-consing ---------------------------------------------------------------------------------------
DefRec(k, d, x) == [k |-> k, i |-> ist[d], x |-> x, h |-> IF SleepOn THEN hid[d] ELSE 0]
IdxIn(F, r) == IF \E j \in 1..Len(F) : F[j] = r
               THEN CHOOSE j \in 1..Len(F) : F[j] = r
               ELSE Len(F) + 1
InternIn(F, r) == IF IdxIn(F, r) > Len(F) THEN Append(F, r) ELSE F
Idx(r) == IdxIn(defs, r)
Id(r) == 99 + Idx(r)
Intern(r) == InternIn(defs, r)
NoX == <<0, 0>>                 \* the extra inputs of a call are a pair (qacc, sm) resp. (pv, 0)

\* ---- observation ----------------------------------------------------------------------------------------
\* efc_force / efc_state live in the arena: the position stage reallocates them (content undefined) and the
\* acceleration stage fills them, so they are defined only if the acceleration stage ran on this position stage
EfcValid(D, F, a) == \/ D[a].acc = D[a].pv
                     \/ (D[a].acc >= 100 /\ F[D[a].acc - 99].k = "s2" /\ F[D[a].acc - 99].x[1] = D[a].pv)
IsZero(I, D, H, a) == /\ I[a] = ZeroIst /\ D[a] = ZeroDer /\ H[a] = 0
\* (the values are passed one by one: a record of all of them would be rebuilt by TLC at every reference)
EqClasses(I, D, T, F, a, b) ==
     {g \in Groups : I[a][g] = I[b][g]}
  \cup {c \in FieldClasses : D[a][c] = D[b][c]}
  \cup (IF D[a].pv = D[b].pv /\ D[a].acc = D[b].acc /\ D[a].sx = D[b].sx
        THEN {"sens"} \cup (IF EfcValid(D, F, a) /\ EfcValid(D, F, b) THEN {"efc"} ELSE {}) ELSE {})
  \cup (IF <<a, b>> \in T THEN {"all"} ELSE {})
\* instance 0 is the pristine reference the harness keeps per model (never touched after mj_makeData)
Claims(I, D, H, T, F, a) ==
  UNION {{<<b, c>> : c \in EqClasses(I, D, T, F, a, b)} : b \in Inst \ {a}}
  \cup (IF IsZero(I, D, H, a) THEN {<<0, "all">>} ELSE {})
Untwin(a) == {p \in twin : p[1] # a /\ p[2] # a}

\* ---- initial state: NI fresh instances ------------------------------------------------------------------
Init ==
  /\ ist = [d \in Inst |-> ZeroIst] /\ der = [d \in Inst |-> ZeroDer] /\ pvk = [d \in Inst |-> "none"]
  /\ hid = [d \in Inst |-> 0] /\ twin = {} /\ defs = <<>> /\ buf = NoBuf /\ kind = "" /\ plan = <<>> /\ nops = 0
  /\ opt \in Opts
  /\ ev = [op |-> "init", a |-> 0, b |-> 0, sig |-> "", g |-> "", k |-> 0, fa |-> TRUE, opt |-> opt]
  /\ obs = {}

\* forced calls of a scenario do not count as operations of the history
Tick(k) == /\ (IF plan = <<>> THEN nops < MaxOps /\ nops' = nops + 1 ELSE nops' = nops)
           /\ (IF Phased THEN kind = k ELSE kind = "") /\ kind' = "" /\ UNCHANGED opt
\* the pair made integration-state equal by this operation (source, destination), if any
SyncPair(op, a, b, sig) ==
  IF op = "copydata" \/ (op = "copystate" /\ sig = "INTEGRATION") THEN <<b, a>>
  ELSE IF op = "setstate" /\ sig = "INTEGRATION" /\ buf.from # a /\ buf.from # 0 /\ ist[buf.from] = buf.v
       THEN <<buf.from, a>> ELSE <<0, 0>>
Ev(op, a, b, sig, g, k, fa) ==
  /\ (IF plan = <<>> THEN (IF Allowed = {} THEN TRUE ELSE <<op, a, b, sig, g, k>> \in Allowed)
                     ELSE Head(plan) = <<op, a>>)
  /\ IF plan # <<>> THEN plan' = Tail(plan)
     ELSE IF Scenario /\ SyncPair(op, a, b, sig)[1] # 0
          THEN LET p == SyncPair(op, a, b, sig) IN
               \E c \in {x \in CallKinds : x = "step2" => (pvk'[p[1]] = "full" /\ pvk'[p[2]] = "full")} :
                  plan' = (IF c = "inverse" THEN <<<<"setqacc", p[1]>>, <<"setqacc", p[2]>>>> ELSE <<>>)   \* same qacc input
                          \o <<<<c, p[1]>>, <<c, p[2]>>>>
          ELSE plan' = <<>>
  /\ twin' = IF op = "copydata"
             THEN Untwin(a) \cup {<<a, b>>, <<b, a>>} \cup {<<a, c>> : c \in {x \in Inst \ {a} : <<b, x>> \in twin}}
                            \cup {<<c, a>> : c \in {x \in Inst \ {a} : <<b, x>> \in twin}}
             ELSE Untwin(a)
  /\ ev' = [op |-> op, a |-> a, b |-> b, sig |-> sig, g |-> g, k |-> k, fa |-> fa, opt |-> opt]
  /\ obs' = Claims(ist', der', hid', twin', defs', a)

Choose == /\ Phased /\ kind = "" /\ (nops < MaxOps \/ plan # <<>>)
          /\ kind' \in (IF plan = <<>> THEN Kinds ELSE {Head(plan)[1]})
          /\ UNCHANGED <<ist, der, pvk, hid, twin, defs, buf, opt, plan, nops, ev, obs>>

\* ---- life-cycle calls -----------------------------------------------------------------------------------
\* mj_deleteData + mj_makeData
MakeData(a) ==
  /\ Tick("make")
  /\ ist' = [ist EXCEPT ![a] = ZeroIst] /\ der' = [der EXCEPT ![a] = ZeroDer]
  /\ pvk' = [pvk EXCEPT ![a] = "none"] /\ hid' = [hid EXCEPT ![a] = 0]
  /\ UNCHANGED <<defs, buf>> /\ Ev("make", a, 0, "", "", 0, TRUE)
\* mj_resetData: everything is cleared, a reset instance is indistinguishable from a fresh one
ResetData(a) ==
  /\ Tick("reset")
  /\ ist' = [ist EXCEPT ![a] = ZeroIst] /\ der' = [der EXCEPT ![a] = ZeroDer]
  /\ pvk' = [pvk EXCEPT ![a] = "none"] /\ hid' = [hid EXCEPT ![a] = 0]
  /\ UNCHANGED <<defs, buf>> /\ Ev("reset", a, 0, "", "", 0, TRUE)
\* mj_copyData(dst = a, src = b): the whole simulation state, hidden sleep state included
CopyData(a, b) ==
  /\ Tick("copydata") /\ a # b
  /\ ist' = [ist EXCEPT ![a] = ist[b]] /\ der' = [der EXCEPT ![a] = der[b]]
  /\ pvk' = [pvk EXCEPT ![a] = pvk[b]] /\ hid' = [hid EXCEPT ![a] = hid[b]]
  /\ UNCHANGED <<defs, buf>> /\ Ev("copydata", a, b, "", "", 0, TRUE)
\* mj_copyState(src = b, dst = a, sig): the components of the signature and nothing else
CopyState(a, b, s) ==
  /\ Tick("copystate") /\ a # b
  /\ ist' = [ist EXCEPT ![a] = [g \in Groups |-> IF g \in SigOf(s) THEN ist[b][g] ELSE ist[a][g]]]
  /\ UNCHANGED <<der, pvk, hid, defs, buf>> /\ Ev("copystate", a, b, s, "", 0, TRUE)
GetState(a, s) ==
  /\ Tick("getstate")
  /\ buf' = [sig |-> s, v |-> ist[a], from |-> a]
  /\ UNCHANGED <<ist, der, pvk, hid, defs>> /\ Ev("getstate", a, 0, s, "", 0, TRUE)
SetState(a) ==
  /\ Tick("setstate") /\ buf.sig # ""
  /\ ist' = [ist EXCEPT ![a] = [g \in Groups |-> IF g \in SigOf(buf.sig) THEN buf.v[g] ELSE ist[a][g]]]
  /\ UNCHANGED <<der, pvk, hid, defs, buf>> /\ Ev("setstate", a, 0, buf.sig, "", 0, TRUE)
\* the caller writes pattern k into one group of fields
SetInput(a, g, k) ==
  /\ Tick("setinput")
  /\ ist' = [ist EXCEPT ![a][g] = k]
  /\ UNCHANGED <<der, pvk, hid, defs, buf>> /\ Ev("setinput", a, 0, "", g, k, TRUE)

\* the caller writes pattern k into every group it may write
SetAll(a, k) ==
  /\ Tick("setall")
  /\ ist' = [ist EXCEPT ![a] = [g \in Groups |-> IF g \in UserGroups THEN k ELSE ist[a][g]]]
  /\ UNCHANGED <<der, pvk, hid, defs, buf>> /\ Ev("setall", a, 0, "", "", k, TRUE)

\* the caller writes pattern k into qacc (the input of inverse dynamics)
SetQacc(a, k) ==
  /\ Tick("setqacc") /\ (plan # <<>> => k = 1)
  /\ der' = [der EXCEPT ![a].qacc = k]
  /\ UNCHANGED <<ist, pvk, hid, defs, buf>> /\ Ev("setqacc", a, 0, "", "", k, TRUE)

\* ---- pipeline calls: functions of what they read ---------------------------------------------------------
Hid(a, id, fa) == IF SleepOn THEN [hid EXCEPT ![a] = IF fa THEN 0 ELSE id] ELSE hid
Forward(a, fa) ==
  /\ Tick("forward")
  /\ LET r == DefRec("fwd", a, NoX)  id == Id(r) IN
     /\ defs' = Intern(r)
     /\ der' = [der EXCEPT ![a] = [pv |-> id, acc |-> id, qacc |-> id, sm |-> id, sx |-> id, inv |-> der[a].inv]]
     /\ pvk' = [pvk EXCEPT ![a] = "full"] /\ hid' = Hid(a, id, fa)
     /\ UNCHANGED <<ist, buf>> /\ Ev("forward", a, 0, "", "", 0, fa)
\* inverse dynamics reads qacc as an input and leaves it alone; its acceleration-stage sensors also read the
\* stored actuator forces (class sm), which it does not compute
Inverse(a, fa) ==
  /\ Tick("inverse")
  /\ LET r == DefRec("inv", a, <<der[a].qacc, 0>>)  id == Id(r)
         r2 == DefRec("invs", a, <<der[a].qacc, der[a].sm>>)  id2 == 99 + IdxIn(Intern(r), r2) IN
     /\ defs' = InternIn(Intern(r), r2)
     /\ der' = [der EXCEPT ![a] = [pv |-> id, acc |-> id, qacc |-> der[a].qacc, sm |-> der[a].sm, sx |-> id2, inv |-> id]]
     /\ pvk' = [pvk EXCEPT ![a] = "inv"] /\ hid' = Hid(a, id, fa)
     /\ UNCHANGED <<ist, buf>> /\ Ev("inverse", a, 0, "", "", 0, fa)
Step(a, fa) ==
  /\ Tick("step")
  /\ LET r == DefRec("step", a, NoX)  id == Id(r) IN
     /\ defs' = Intern(r)
     /\ ist' = [ist EXCEPT ![a] = [g \in Groups |-> IF g \in StepGroups THEN id ELSE ist[a][g]]]
     /\ der' = [der EXCEPT ![a] = [pv |-> id, acc |-> id, qacc |-> id, sm |-> id, sx |-> id, inv |-> der[a].inv]]
     /\ pvk' = [pvk EXCEPT ![a] = "full"] /\ hid' = Hid(a, id, fa)
     /\ UNCHANGED buf /\ Ev("step", a, 0, "", "", 0, fa)
Step1(a, fa) ==
  /\ Tick("step1")
  /\ LET r == DefRec("s1", a, NoX)  id == Id(r) IN
     /\ defs' = Intern(r)
     /\ der' = [der EXCEPT ![a].pv = id]
     /\ pvk' = [pvk EXCEPT ![a] = "full"] /\ hid' = Hid(a, id, fa)
     /\ UNCHANGED <<ist, buf>> /\ Ev("step1", a, 0, "", "", 0, fa)
\* mj_step2 reads the position/velocity stage data left in the instance: a hidden input unless mj_step1 came first
Step2(a, fa) ==
  /\ Tick("step2") /\ pvk[a] = "full"
  /\ LET r == DefRec("s2", a, <<der[a].pv, 0>>)  id == Id(r) IN
     /\ defs' = Intern(r)
     /\ ist' = [ist EXCEPT ![a] = [g \in Groups |-> IF g \in StepGroups THEN id ELSE ist[a][g]]]
     /\ der' = [der EXCEPT ![a].acc = id, ![a].qacc = id, ![a].sm = id, ![a].sx = id]
     /\ hid' = Hid(a, id, fa)
     /\ UNCHANGED <<pvk, buf>> /\ Ev("step2", a, 0, "", "", 0, fa)

FAs == IF SleepOn THEN BOOLEAN ELSE {TRUE}
Next ==
  \/ Choose
  \/ \E a \in Inst : MakeData(a) \/ ResetData(a) \/ SetState(a)
  \/ \E a, b \in Inst : CopyData(a, b)
  \/ \E a, b \in Inst, s \in SigNames : CopyState(a, b, s)
  \/ \E a \in Inst, s \in SigNames : GetState(a, s)
  \/ \E a \in Inst, g \in UserGroups, k \in 1..NPat : SetInput(a, g, k)
  \/ \E a \in Inst, k \in 1..NPat : SetAll(a, k) \/ SetQacc(a, k)
  \/ \E a \in Inst, fa \in FAs : Forward(a, fa) \/ Inverse(a, fa) \/ Step(a, fa) \/ Step1(a, fa) \/ Step2(a, fa)
Spec == Init /\ [][Next]_vars

\* ---- properties -----------------------------------------------------------------------------------------
Ids == 0..NPat \cup {99 + j : j \in 1..Len(defs)}
TypeOK ==
  /\ \A d \in Inst : /\ \A g \in Groups : ist[d][g] \in Ids
                     /\ \A c \in DerClasses : der[d][c] \in Ids
                     /\ pvk[d] \in {"none", "full", "inv"} /\ hid[d] \in Ids
  /\ (~SleepOn => \A d \in Inst : hid[d] = 0)
  /\ nops \in 0..MaxOps /\ kind \in Kinds \cup {""}
DefsInjective == \A i, j \in 1..Len(defs) : defs[i] = defs[j] => i = j
\* the claim of the property: same integration state (and, with sleeping enabled, same hidden sleep state) =>
\* every forward / step / inverse call gives the same results.  Inverse additionally reads qacc, step2 the stage data.
SameInputs(a, b) == ist[a] = ist[b] /\ (SleepOn /\ Caveat => hid[a] = hid[b])
Determinism ==
  \A a, b \in Inst : (a < b /\ SameInputs(a, b)) =>
     /\ Id(DefRec("fwd", a, NoX)) = Id(DefRec("fwd", b, NoX))
     /\ Id(DefRec("step", a, NoX)) = Id(DefRec("step", b, NoX))
     /\ Id(DefRec("s1", a, NoX)) = Id(DefRec("s1", b, NoX))
     /\ (der[a].qacc = der[b].qacc => Id(DefRec("inv", a, <<der[a].qacc, 0>>)) = Id(DefRec("inv", b, <<der[b].qacc, 0>>)))
     /\ (der[a].pv = der[b].pv => Id(DefRec("s2", a, <<der[a].pv, 0>>)) = Id(DefRec("s2", b, <<der[b].pv, 0>>)))
\* which signatures give the destination the integration state of the source (GoodSigs = {"INTEGRATION"} holds; the
\* negative configuration shows that INTEGRATION without the warm start does not).  With sleeping enabled equal
\* integration state is not enough for Determinism unless the hidden sleep state agrees (configuration NegSleep).
GoodSig ==
  /\ (ev.op = "copystate" /\ ev.sig \in GoodSigs) => ist[ev.a] = ist[ev.b]
  /\ (ev.op = "setstate" /\ ev.sig \in GoodSigs) => \A g \in Groups : ist[ev.a][g] = buf.v[g]
  /\ (ev.op = "copydata") => ist[ev.a] = ist[ev.b] /\ der[ev.a] = der[ev.b] /\ hid[ev.a] = hid[ev.b]
FreshIsZero == (ev.op \in {"make", "reset"}) => IsZero(ist, der, hid, ev.a)
TwinSound == \A p \in twin : /\ ist[p[1]] = ist[p[2]] /\ der[p[1]] = der[p[2]] /\ hid[p[1]] = hid[p[2]] /\ pvk[p[1]] = pvk[p[2]]
                              /\ <<p[2], p[1]>> \in twin /\ p[1] # p[2]
\* forward, inverse and step1 never change the state they read; no call touches another instance
ReadOnly == [][ev'.op \in {"forward", "inverse", "step1", "getstate"} => ist' = ist]_vars
Frame == [][\A d \in Inst : d # ev'.a => (ist'[d] = ist[d] /\ der'[d] = der[d] /\ hid'[d] = hid[d] /\ pvk'[d] = pvk[d])]_vars
\* replaying the same call on equal inputs gives equal outputs (stated on the last call of each instance)
ObsSound == ev.op # "init" => obs = Claims(ist, der, hid, twin, defs, ev.a)

\* ---- constants for the configurations -------------------------------------------------------------------
O(i, s, c, j, isl, w) == [integ |-> i, solver |-> s, cone |-> c, jac |-> j, island |-> isl, warm |-> w]
MC_Opt1 == {O(0, 2, 0, 2, 1, 1)}
MC_Opt2 == {O(0, 2, 0, 2, 1, 1), O(2, 1, 1, 1, 1, 0)}
MC_OptsAll == {O(i, s, c, j, isl, w) : i \in 0..3, s \in 0..2, c \in 0..1, j \in 0..1, isl \in 0..1, w \in 0..1}
MC_OptsSleep == {O(i, s, c, j, 1, w) : i \in {0, 2, 3}, s \in {1, 2}, c \in 0..1, j \in 0..1, w \in 0..1}
MC_SigsSmall == {"INTEGRATION", "FULLPHYSICS"}
MC_SigsAll == {"INTEGRATION", "FULLPHYSICS", "PHYSICS", "USER", "NOWARM", "WARM", "CTRL", "QPT"}
MC_Good == {"INTEGRATION"}
MC_NoAllowed == {}
\* alphabet of the directed histories: instance 1 is the source (used), instance 2 the receiver (fresh, reset, used)
MC_Alpha == {<<c, 1, 0, "", "", 0>> : c \in {"step", "forward", "inverse", "step1"}}
            \cup {<<c, 2, 0, "", "", 0>> : c \in {"step", "inverse"}}
            \cup {<<"setall", 1, 0, "", "", 1>>, <<"reset", 2, 0, "", "", 0>>,
                  <<"copystate", 2, 1, "INTEGRATION", "", 0>>, <<"copydata", 2, 1, "", "", 0>>,
                  <<"getstate", 1, 0, "INTEGRATION", "", 0>>, <<"setstate", 2, 0, "INTEGRATION", "", 0>>}
MC_BadGood == {"INTEGRATION", "NOWARM"}
ViewNoEv == <<ist, der, pvk, hid, twin, defs, buf, opt, kind, plan, nops>>
=============================================================================
