SPECIFICATION FSpec
CONSTANTS
  MinBodies = 2
  MaxBodies = 4
  JTypes <- AllJ
  Axes <- Ax6
  Offsets <- K_Off
  Rots <- K_Rot
  Anchors <- K_Anc
  SitePos <- K_Site1
  SiteRots <- K_SRot
  Masses <- K_Mass
  Inertias <- K_Inr
  IPoss <- K_IPos
  Arms <- D_Arm
  Stiffs <- F_K
  Refs <- P_Ref
  Damps <- F_Damp
  GCs <- P_GC
  TCoefs <- One0
  Qs <- K_Q
  Vs <- K_V
  As <- F_A
  QScales <- QS1
  Gravs <- K_G
  DisSets <- F_Dis
  TenK <- One0
  TenRanges <- Rng0
  TenDamps <- One0
  TenArms <- One0
  TenZero <- NoTz
  SpPairs <- NoSpS
  SpArms <- One0
  Sleeps <- NoTz
  StiffPolys <- P00
  DampPolys <- P00
  TenKPolys <- P00
  TenDPolys <- P00
  SpStiffs <- T000
  SpRanges <- Rng0
  SpDamps <- T000
  Level = 3
  Tie = FALSE
  Rand = TRUE
  Modes <- F_ModesAll
  XDis <- F_XDisAll
  HDens <- F_H
  Motors <- F_Motors
  XFrcs <- F_XFs
  RowKinds <- F_None
  Taus <- F_Taus1
  SolRefs <- F_SolRef1
  Imps <- F_Imp1
  Gaps <- F_Gaps2
  Flosses <- F_Floss1
  Solvers <- F_Solvers
  Cones <- F_Cones
  Jacobians <- F_Jacs
  DiagExact <- F_DxT
INVARIANT TypeOK
INVARIANT FTypeOK
INVARIANT InverseRecoversApplied
INVARIANT InverseRecoversForce
INVARIANT SplitAddsUp
INVARIANT RowAdmissible
INVARIANT DiscreteIsContinuousWithoutImplicitTerms
INVARIANT FlagsRemoveImplicitDamping
INVARIANT ImplicitFastDropsBiasDerivativeOnly
INVARIANT KaneIsRecursive
INVARIANT MPositiveDefinite
CHECK_DEADLOCK FALSE
