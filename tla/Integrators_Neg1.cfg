SPECIFICATION Spec
CONSTANTS
  Hs <- L_H4
  Ms <- L_M1
  Ks <- L_K1
  Bs <- L_B2
  Polys <- L_P0
  Fs <- L_F1
  Q0s <- L_Q2
  V0s <- L_V2
  W0s <- L_W2
  T0s <- L_T0
  Us <- L_U2
  Integs <- L_Single
  EDamps <- L_True
  Dampers <- L_True
  Springs <- L_True
  Actuations <- L_True
  GroupOns <- L_True
  Acts <- L_Passive
  MaxSteps = 1
  MaxOff = 5
  Variant = "explicitpos"
  Bound = 1024
  BoundRK = 64

INVARIANT TypeOK
INVARIANT DerivedOK
INVARIANT TimeAdvances
INVARIANT TimeIsSteps
INVARIANT ActInRange
INVARIANT ActLaw
INVARIANT EnclosureOK
INVARIANT FilterExactLaw
INVARIANT ActFrozen
INVARIANT SemiImplicit
INVARIANT UpdateEq
INVARIANT EulerDampEq
INVARIANT ImplicitIsEulerDamp
INVARIANT RK4Taylor
INVARIANT RK4ConstAcc
INVARIANT DamperContracts
INVARIANT PolyDampLaw
CHECK_DEADLOCK FALSE
