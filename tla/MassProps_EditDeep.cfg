SPECIFICATION Spec
CONSTANTS
  MaxGeoms = 2
  HalfSizes <- H_Two
  Offsets <- O_Two
  Rots <- R_One
  Densities <- D_Two
  Kinds <- K_Box
  MeshOffs <- MO_Zero
  Tess <- T_Zero
  MeshModes <- MM_Exact
  ChildModes <- C_NoFuse
  ChildPoss <- CP_Few
  ChildRots <- R_Rz
  TotalMasses <- TM_Off
  Groups <- G_Two
  Ranges <- RG_Two
  MaxCompiles = 2
  MaxEdits = 1
  EditKinds <- E_All
  Hows <- HW_Both
  Design = "group"
  Rand = FALSE
INVARIANT TypeOK
INVARIANT GeomTensorProper
INVARIANT MeshIsBox
INVARIANT MeshInertiaIsBox
INVARIANT ParallelAxis
INVARIANT TensorProper
INVARIANT TriangleOnDirections
INVARIANT SingleGeom
INVARIANT Published
INVARIANT HistoryIndependent
INVARIANT UnselectedCountsNothing

CHECK_DEADLOCK FALSE
