SPECIFICATION Spec
CONSTANTS
  MaxSteps = 2
  MaxInj = 2
  Classes <- TwoClasses
  AutoChoices <- BothFlags
  Layouts <- AllLayouts
  Bug = "none"
VIEW NoHist
INVARIANT TypeOK
INVARIANT AutoresetFinite
INVARIANT DetectedCounted
INVARIANT CtrlCounted
INVARIANT NoSpuriousWarning
INVARIANT Contained
INVARIANT NothingLeft
PROPERTY BadStateDetected
PROPERTY BadVelDetected
PROPERTY AwakeAccDetected
PROPERTY SleeperAccDetected
PROPERTY TouchWakes
CHECK_DEADLOCK FALSE
