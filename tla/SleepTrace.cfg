SPECIFICATION TSpec
CONSTANTS
  NT = 4
  MINAWAKE = 10
  Eqs <- NoEqs
  Ground <- NoTrees
  Never <- NoTrees
  NoIslands = FALSE
  InitVals <- Init_Real
  Kinds <- AllKinds
INVARIANT TTypeOK
INVARIANT CyclesClosed
PROPERTY WakeWhole
PROPERTY CyclesStable
PROPERTY SleepsAsIsland
PROPERTY CountdownRule
PROPERTY WakeOnPerturbation
PROPERTY WakeOnTouch
CONSTRAINT Track
POSTCONDITION Report
CHECK_DEADLOCK FALSE
