SPECIFICATION Spec
CONSTANTS
  NT = 4
  MINAWAKE = 10
  MaxOps = 1
  AwakeVals <- Real_AwakeVals
  WakeVals <- Real_WakeVals
INVARIANT TypeOK
INVARIANT CyclesClosed
INVARIANT CycleRepresentative
PROPERTY WakeWhole
PROPERTY QueriesPure
CHECK_DEADLOCK FALSE
