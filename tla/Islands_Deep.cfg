SPECIFICATION Spec
CONSTANTS
  N = 5
  MaxOps = 6
INVARIANT TypeOK
INVARIANT ActiveIff
INVARIANT Forest
INVARIANT RootIsMin
INVARIANT SameRootIffConnected
INVARIANT AssignMatches
INVARIANT AssignAscending
PROPERTY RootReturnsCoded
PROPERTY QueriesKeepPartition
PROPERTY MergeJoins
VIEW ViewNoEv
CHECK_DEADLOCK FALSE
