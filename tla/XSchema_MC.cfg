SPECIFICATION Spec
CONSTANTS
  MaxNodes = 2
  MaxAttrs = 1
  Skels = {"A"}
INVARIANT CodeNeverStricter
INVARIANT DiffOnlyUnderAlias
INVARIANT BogusInvalid
INVARIANT VerdictIsVerdict
CHECK_DEADLOCK FALSE
