SPECIFICATION Spec
CONSTANTS
  W = 8
  Base = 64
  Configs <- C_96
  Sizes <- S_proto
  Aligns <- A_1_8_16
  MaxOps = 3
  MaxFrames = 2
  Threads <- T2
  CodeSites <- CodeAll
INVARIANT TypeOK
INVARIANT InArena
INVARIANT Aligned
INVARIANT Disjoint
INVARIANT RedZoneGap
INVARIANT Apart
INVARIANT Sides
INVARIANT FramesOK
INVARIANT ReservationsDisjoint
PROPERTY FreeRestores
PROPERTY MarkFreeId
PROPERTY ErrorIsClean
PROPERTY NoSpuriousNull
PROPERTY NoSpuriousErr
PROPERTY FinishAgrees
CHECK_DEADLOCK FALSE
