SPECIFICATION Spec
CONSTANTS
  NI = 3
  MaxOps = 3
  NPat = 1
  SigNames <- MC_SigsSmall
  GoodSigs <- MC_Good
  SleepOn = FALSE
  Caveat = TRUE
  Phased = FALSE
  Opts <- MC_Opt1
  Scenario = FALSE
  Allowed <- MC_NoAllowed
INVARIANT TypeOK
INVARIANT DefsInjective
INVARIANT Determinism
INVARIANT GoodSig
INVARIANT FreshIsZero
INVARIANT ObsSound
INVARIANT TwinSound
PROPERTY ReadOnly
PROPERTY Frame
CHECK_DEADLOCK FALSE
