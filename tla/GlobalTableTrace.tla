-------------------------- MODULE GlobalTableTrace --------------------------
\* Trace validation (code -> spec) for GlobalTable.tla: events recorded by the controlled scheduler from the
\* real engine_global_table.h under seeded random schedules; all invariants evaluated along every trace.
EXTENDS GlobalTable, Json, IOUtils, TLCExt
Traces == JsonDeserialize(IOEnv.TRACE_FILE)
VARIABLES tid, l
tvars == <<vars, tid, l>>
TInit == /\ tid \in 1..Len(Traces) /\ TLCSet(tid, 0) /\ l = 1 /\ Init
Cur == Traces[tid][l]
TNext == /\ l <= Len(Traces[tid]) /\ l' = l + 1 /\ UNCHANGED tid
         /\ ((\E w \in Writers : WStep(w)) \/ (\E r \in Readers : RStep(r)))
         /\ ev'.t = Cur.t /\ ev'.op = Cur.op /\ ev'.obj = Cur.obj /\ ev'.val = Cur.val
TSpec == TInit /\ [][TNext]_tvars
Track == IF l - 1 > TLCGet(tid) THEN TLCSet(tid, l - 1) ELSE TRUE
Report == /\ \A t \in 1..Len(Traces) : PrintT(<<"TRACE", t, TLCGet(t), Len(Traces[t])>>)
          /\ \A t \in 1..Len(Traces) : TLCGet(t) = Len(Traces[t])
=============================================================================
