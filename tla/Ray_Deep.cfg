SPECIFICATION Spec
CONSTANTS
  MaxBodies = 2
  MaxGeoms = 2
  MaxOps = 1
  BodyKinds <- Deep_Kinds
  Shapes <- Deep_Shapes
  Centers <- Deep_Centers
  Looks <- Deep_Looks
  GGroups <- Deep_GGroups
  VisFlags <- Deep_Vis
  Origins <- Deep_Origins
  Lens <- Deep_Lens
  Filters <- Deep_Filters
  Moves <- Deep_Moves
INVARIANT TypeOK
INVARIANT ScanIsNearest
INVARIANT MissIffNone
INVARIANT NearestSound
INVARIANT FilterMonotone
INVARIANT MultiIsSingle
CHECK_DEADLOCK FALSE
