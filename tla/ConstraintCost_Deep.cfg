SPECIFICATION Spec
CONSTANTS
  MaxBlocks = 1
  EqD <- L_D3
  EqJ <- L_EqJ
  FrT <- L_FrT
  FrD <- L_D3
  FrL <- L_FrL
  FrJ <- L_FrJ
  UnT <- L_UnT
  UnD <- L_D3
  UnJ <- L_UnJ
  ElDim <- L_Dims
  ElMu <- L_Mu
  ElK <- L_K2
  ElD <- L_D2
  ElDir <- L_Dir3
  ElA <- L_ElA
  ElT <- L_ElT
  CvA <- L_CvA
  CvT <- L_CvT
  Hs <- L_Hs
  Deep = TRUE
  Variant = "doc"
INVARIANT TypeOK
INVARIANT GradientOK
INVARIANT C1OK
INVARIANT ConvexOK
INVARIANT DualValueOK
INVARIANT AdmissibleOK
INVARIANT DualOptimalOK
INVARIANT HessianOK
INVARIANT LayoutOK
CHECK_DEADLOCK FALSE
