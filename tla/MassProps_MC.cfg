SPECIFICATION Spec
CONSTANTS
  MaxGeoms = 2
  HalfSizes <- H_Two
  Offsets <- O_Two
  Rots <- R_Two
  Densities <- D_One
  Kinds <- K_BoxShell
  MeshOffs <- MO_Zero
  Tess <- T_Zero
  MeshModes <- MM_Exact
  ChildModes <- C_All
  ChildPoss <- CP_Few
  ChildRots <- R_Rz
  TotalMasses <- TM_Off
  Groups <- G_Zero
  Ranges <- RG_All
  MaxCompiles = 1
  MaxEdits = 0
  EditKinds <- E_None
  Hows <- HW_Both
  Design = "group"
  Rand = FALSE
INVARIANT TypeOK
INVARIANT GeomTensorProper
INVARIANT MeshIsBox
INVARIANT MeshInertiaIsBox
INVARIANT ParallelAxis
INVARIANT TensorProper
INVARIANT TriangleOnDirections
INVARIANT SingleGeom
INVARIANT Published
INVARIANT HistoryIndependent
INVARIANT UnselectedCountsNothing

CHECK_DEADLOCK FALSE
