SPECIFICATION Spec
CONSTANTS
  NS = 1
  NM = 1
  MaxOps = 4
  Bases <- BothBases
  Edits <- AllEdits
  MaxEdits = 2
  InitThr <- NoThr
  Ops <- RecOps
INVARIANT TypeOK
INVARIANT ClassesAreContents
INVARIANT LastIsOwn
INVARIANT DataMatchesModel
INVARIANT CacheStateIrrelevant
PROPERTY CacheOpsArePure
PROPERTY CopyKeepsContent
PROPERTY ThreadsKeepContent
PROPERTY CopyModelSameClass
PROPERTY StatePreserved
PROPERTY DataOnlyByDataOps
CHECK_DEADLOCK FALSE
