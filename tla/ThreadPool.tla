----------------------------- MODULE ThreadPool -----------------------------
\* Atomic-operation-level model of the engine thread pool, src/engine/engine_thread.cc:
\*   ThreadPoolContext (constructor, destructor, Dispatch, Worker), mju_threadpool, mju_dispatch.
\* One action per yield point of the controlled scheduler (shim/sched/vt_sched.h): every std::atomic
\* load/store/fetch_add/wait/notify_all, every std::thread construction and join, the entry and exit of the
\* task function, and the entry of each API call.  Plain (non-atomic) writes are folded into the action of
\* the yield point that precedes them (only one thread runs between yield points).
\*
\* C++20 atomic wait: the value check and going to sleep are one atomic step with respect to notify; a
\* sleeping thread is woken only by notify_all (the standard allows spurious wake-ups, so this is the
\* strictest reading: a missing or misplaced notify deadlocks here).
EXTENDS Integers, Sequences, FiniteSets, TLC
CONSTANTS NW,        \* maximal pool size (worker ids 1..NW, main thread is 0)
          MaxTask,   \* maximal number of tasks per dispatch
          MaxOps,    \* number of API calls (mju_threadpool / mju_dispatch) in a history
          Bug        \* "none"; or a seeded design error used as a vacuity guard: "spin" (completion test off by
                     \* one), "nonotify" (dispatch forgets notify_all), "nonatomicfetch" is not expressible here
Workers == 1..NW

VARIABLES
  \* shared atomics of the current ThreadPoolContext and its plain fields
  signal, next, ndone, ntask, nthr, pool,
  \* main thread: pc, task id in hand, register (loaded signal), loop index, what follows a destroy
  mpc, mtask, mreg, mi, after, nops, pre,
  \* mjData fields touched by mju_dispatch
  locked, depth,
  \* workers
  wpc, wstatus, wtask, wnotified,
  \* bookkeeping for the properties
  ran, running, ranby, want,
  ev           \* last step: [t, op, obj, val] exactly as the scheduler logs it
vars == <<signal, next, ndone, ntask, nthr, pool, mpc, mtask, mreg, mi, after, nops, pre, locked, depth,
          wpc, wstatus, wtask, wnotified, ran, running, ranby, want, ev>>
shared  == <<signal, next, ndone, ntask, nthr, pool>>
mainv   == <<mpc, mtask, mreg, mi, after, nops, pre, locked, depth>>
workv   == <<wpc, wstatus, wtask, wnotified>>
bookv   == <<ran, running, ranby, want>>

Tasks == 0..(MaxTask - 1)
Ev(t, op, obj, val) == [t |-> t, op |-> op, obj |-> obj, val |-> val]
ApiVal(n) == n * 100 + (IF locked THEN 10 ELSE 0) + depth

Init ==
  /\ signal = 1 /\ next = 0 /\ ndone = 0 /\ ntask = 0 /\ nthr = 0 /\ pool = FALSE
  /\ mpc = "idle" /\ mtask = -1 /\ mreg = 0 /\ mi = 0 /\ after = 0 /\ nops = 0 /\ pre = {}
  /\ locked = FALSE /\ depth = 0
  /\ wpc = [w \in Workers |-> "none"] /\ wstatus = [w \in Workers |-> 1]
  /\ wtask = [w \in Workers |-> -1] /\ wnotified = [w \in Workers |-> FALSE]
  /\ ran = [t \in Tasks |-> 0] /\ running = {} /\ ranby = {} /\ want = 0
  /\ ev = Ev(0, "init", "-", 0)

\* ---------------------------------------------------------------- API entry (main thread, idle)
\* mju_threadpool(d, n)
ApiPool(n) ==
  /\ mpc = "idle" /\ nops < MaxOps /\ nops' = nops + 1
  /\ ev' = Ev(0, "api", "pool", ApiVal(n))
  /\ IF pool /\ n = nthr THEN /\ mpc' = "idle" /\ UNCHANGED <<shared, mi, after>>           \* same size: nothing
     ELSE IF pool THEN /\ mpc' = "sig0" /\ after' = n /\ UNCHANGED <<shared, mi>>            \* delete ctx first
     ELSE IF n >= 1 THEN /\ mpc' = "spawn" /\ mi' = 1 /\ nthr' = n                           \* new ThreadPoolContext(n)
                         /\ signal' = 1 /\ next' = 0 /\ ndone' = 0 /\ UNCHANGED <<ntask, pool, after>>
     ELSE /\ mpc' = "idle" /\ UNCHANGED <<shared, mi, after>>
  /\ ran' = [t \in Tasks |-> 0] /\ ranby' = {} /\ want' = 0 /\ UNCHANGED running   \* bookkeeping is per API call
  /\ UNCHANGED <<mtask, mreg, pre, locked, depth, workv>>

\* mju_dispatch(m, d, func, arg, k)
ApiDispatch(k) ==
  /\ mpc = "idle" /\ nops < MaxOps /\ nops' = nops + 1
  /\ ev' = Ev(0, "api", "dispatch", ApiVal(k))
  /\ ran' = [t \in Tasks |-> 0] /\ ranby' = {} /\ want' = k /\ UNCHANGED running
  /\ IF ~pool \/ k < 2
     THEN /\ ntask' = k /\ mi' = 0 /\ mpc' = IF k = 0 THEN "idle" ELSE "serial"             \* serial path
          /\ UNCHANGED <<signal, next, ndone, nthr, pool, locked, depth, pre>>
     ELSE /\ ntask' = k /\ mpc' = "pre" /\ pre' = {"next", "ndone"}                          \* markStack + lock
          /\ locked' = TRUE /\ depth' = depth + 1
          /\ UNCHANGED <<signal, next, ndone, nthr, pool, mi>>
  /\ UNCHANGED <<mtask, mreg, after, workv>>

\* ---------------------------------------------------------------- serial path of mju_dispatch
M_SerialStart ==
  /\ mpc = "serial" /\ mpc' = "serialend"
  /\ ran' = [ran EXCEPT ![mi] = @ + 1] /\ running' = running \cup {<<0, mi>>} /\ ranby' = ranby \cup {0}
  /\ ev' = Ev(0, "tstart", "task", mi * 16)
  /\ UNCHANGED <<shared, mtask, mreg, mi, after, nops, pre, locked, depth, workv, want>>
M_SerialEnd ==
  /\ mpc = "serialend" /\ running' = running \ {<<0, mi>>}
  /\ mi' = mi + 1 /\ mpc' = IF mi + 1 < ntask THEN "serial" ELSE "idle"
  /\ ev' = Ev(0, "tend", "task", mi * 16)
  /\ UNCHANGED <<shared, mtask, mreg, after, nops, pre, locked, depth, workv, ran, ranby, want>>

\* ---------------------------------------------------------------- ThreadPoolContext constructor
M_Spawn ==
  /\ mpc = "spawn"
  /\ wpc' = [wpc EXCEPT ![mi] = "wait"] /\ wstatus' = [wstatus EXCEPT ![mi] = 1]
  /\ wnotified' = [wnotified EXCEPT ![mi] = FALSE] /\ wtask' = [wtask EXCEPT ![mi] = -1]
  /\ ev' = Ev(0, "spawn", "-", mi)
  /\ IF mi < nthr THEN mi' = mi + 1 /\ mpc' = "spawn" /\ UNCHANGED pool
                  ELSE mi' = 0 /\ mpc' = "idle" /\ pool' = TRUE
  /\ UNCHANGED <<signal, next, ndone, ntask, nthr, mtask, mreg, after, nops, pre, locked, depth, bookv>>

\* ---------------------------------------------------------------- ~ThreadPoolContext
M_Sig0 ==
  /\ mpc = "sig0" /\ signal' = 0 /\ mpc' = "notifyd" /\ ev' = Ev(0, "store", "signal", 0)
  /\ UNCHANGED <<next, ndone, ntask, nthr, pool, mtask, mreg, mi, after, nops, pre, locked, depth, workv, bookv>>
Sleepers == {w \in Workers : wpc[w] = "sleep"}
M_NotifyD ==
  /\ mpc = "notifyd" /\ wnotified' = [w \in Workers |-> wnotified[w] \/ w \in Sleepers]
  /\ mpc' = "join" /\ mi' = 1 /\ ev' = Ev(0, "notify", "signal", Cardinality(Sleepers))
  /\ UNCHANGED <<shared, mtask, mreg, after, nops, pre, locked, depth, wpc, wstatus, wtask, bookv>>
M_Join ==
  /\ mpc = "join" /\ wpc[mi] = "halted"
  /\ wpc' = [wpc EXCEPT ![mi] = "none"] /\ ev' = Ev(0, "join", "-", mi)
  /\ IF mi < nthr THEN /\ mi' = mi + 1 /\ mpc' = "join" /\ UNCHANGED <<shared, after>>
     ELSE IF after >= 1                                    \* resize: delete, then new ThreadPoolContext(after)
          THEN /\ mpc' = "spawn" /\ mi' = 1 /\ nthr' = after /\ pool' = FALSE /\ after' = 0
               /\ signal' = 1 /\ next' = 0 /\ ndone' = 0 /\ UNCHANGED ntask
          ELSE /\ mpc' = "idle" /\ mi' = 0 /\ pool' = FALSE /\ nthr' = 0
               /\ UNCHANGED <<signal, next, ndone, ntask, after>>
  /\ UNCHANGED <<mtask, mreg, nops, pre, locked, depth, wstatus, wtask, wnotified, bookv>>

\* ---------------------------------------------------------------- ThreadPoolContext::Dispatch
\* The two counter resets may come in either order (they are independent stores that only have to precede the
\* release store of signal_): the specification allows both, TLC shows both are safe.
M_Next0 ==
  /\ mpc = "pre" /\ "next" \in pre /\ next' = 0 /\ pre' = pre \ {"next"}
  /\ mpc' = (IF pre = {"next"} THEN "sigload" ELSE "pre") /\ ev' = Ev(0, "store", "next", 0)
  /\ UNCHANGED <<signal, ndone, ntask, nthr, pool, mtask, mreg, mi, after, nops, locked, depth, workv, bookv>>
M_Ndone0 ==
  /\ mpc = "pre" /\ "ndone" \in pre /\ ndone' = 0 /\ pre' = pre \ {"ndone"}
  /\ mpc' = (IF pre = {"ndone"} THEN "sigload" ELSE "pre") /\ ev' = Ev(0, "store", "ndone", 0)
  /\ UNCHANGED <<signal, next, ntask, nthr, pool, mtask, mreg, mi, after, nops, locked, depth, workv, bookv>>
M_SigLoad ==
  /\ mpc = "sigload" /\ mreg' = signal /\ mpc' = "sigstore" /\ ev' = Ev(0, "load", "signal", signal)
  /\ UNCHANGED <<shared, mtask, mi, after, nops, pre, locked, depth, workv, bookv>>
M_SigStore ==
  /\ mpc = "sigstore" /\ signal' = -mreg /\ mpc' = "notify" /\ ev' = Ev(0, "store", "signal", -mreg)
  /\ UNCHANGED <<next, ndone, ntask, nthr, pool, mtask, mreg, mi, after, nops, pre, locked, depth, workv, bookv>>
M_Notify ==
  /\ mpc = "notify" /\ wnotified' = [w \in Workers |-> wnotified[w] \/ (w \in Sleepers /\ Bug # "nonotify")]
  /\ mpc' = "fetch" /\ ev' = Ev(0, "notify", "signal", Cardinality(Sleepers))
  /\ UNCHANGED <<shared, mtask, mreg, mi, after, nops, pre, locked, depth, wpc, wstatus, wtask, bookv>>
M_Fetch ==
  /\ mpc = "fetch" /\ next' = next + 1 /\ ev' = Ev(0, "fadd", "next", next)
  /\ IF next >= ntask THEN mpc' = "spin" /\ mtask' = -1 ELSE mpc' = "run" /\ mtask' = next
  /\ UNCHANGED <<signal, ndone, ntask, nthr, pool, mreg, mi, after, nops, pre, locked, depth, workv, bookv>>
M_RunStart ==
  /\ mpc = "run" /\ mpc' = "runend"
  /\ ran' = [ran EXCEPT ![mtask] = @ + 1] /\ running' = running \cup {<<0, mtask>>} /\ ranby' = ranby \cup {0}
  /\ ev' = Ev(0, "tstart", "task", mtask * 16)
  /\ UNCHANGED <<shared, mtask, mreg, mi, after, nops, pre, locked, depth, workv, want>>
M_RunEnd ==
  /\ mpc = "runend" /\ mpc' = "fetch" /\ running' = running \ {<<0, mtask>>}
  /\ ev' = Ev(0, "tend", "task", mtask * 16)
  /\ UNCHANGED <<shared, mtask, mreg, mi, after, nops, pre, locked, depth, workv, ran, ranby, want>>
\* busy wait: while (ndone_.load() < nthread) {} ; on exit mju_dispatch unlocks and frees the stack frame
M_Spin ==
  /\ mpc = "spin" /\ ev' = Ev(0, "load", "ndone", ndone)
  /\ IF ndone < (IF Bug = "spin" THEN nthr - 1 ELSE nthr) THEN UNCHANGED <<mpc, locked, depth>>
                     ELSE mpc' = "idle" /\ locked' = FALSE /\ depth' = depth - 1
  /\ UNCHANGED <<shared, mtask, mreg, mi, after, nops, pre, workv, bookv>>

\* ---------------------------------------------------------------- ThreadPoolContext::Worker(w)
W_Wait(w) ==    \* signal_.wait(status): check-and-sleep is atomic
  /\ wpc[w] = "wait"
  /\ IF signal # wstatus[w] THEN wpc' = [wpc EXCEPT ![w] = "load"] /\ ev' = Ev(w, "wait", "signal", 1)
                            ELSE wpc' = [wpc EXCEPT ![w] = "sleep"] /\ ev' = Ev(w, "wait", "signal", 0)
  /\ wnotified' = [wnotified EXCEPT ![w] = FALSE]
  /\ UNCHANGED <<shared, mainv, wstatus, wtask, bookv>>
W_Wake(w) ==
  /\ wpc[w] = "sleep" /\ wnotified[w]
  /\ wpc' = [wpc EXCEPT ![w] = "wait"] /\ wnotified' = [wnotified EXCEPT ![w] = FALSE]
  /\ ev' = Ev(w, "wake", "signal", 0)
  /\ UNCHANGED <<shared, mainv, wstatus, wtask, bookv>>
W_Load(w) ==
  /\ wpc[w] = "load" /\ wstatus' = [wstatus EXCEPT ![w] = signal]
  /\ wpc' = [wpc EXCEPT ![w] = IF signal = 0 THEN "halted" ELSE "fetch"]
  /\ ev' = Ev(w, "load", "signal", signal)
  /\ UNCHANGED <<shared, mainv, wtask, wnotified, bookv>>
W_Fetch(w) ==
  /\ wpc[w] = "fetch" /\ next' = next + 1 /\ ev' = Ev(w, "fadd", "next", next)
  /\ IF next >= ntask THEN wpc' = [wpc EXCEPT ![w] = "done"] /\ wtask' = [wtask EXCEPT ![w] = -1]
                      ELSE wpc' = [wpc EXCEPT ![w] = "run"] /\ wtask' = [wtask EXCEPT ![w] = next]
  /\ UNCHANGED <<signal, ndone, ntask, nthr, pool, mainv, wstatus, wnotified, bookv>>
W_RunStart(w) ==
  /\ wpc[w] = "run" /\ wpc' = [wpc EXCEPT ![w] = "runend"]
  /\ ran' = [ran EXCEPT ![wtask[w]] = @ + 1] /\ running' = running \cup {<<w, wtask[w]>>}
  /\ ranby' = ranby \cup {w} /\ ev' = Ev(w, "tstart", "task", wtask[w] * 16 + w)
  /\ UNCHANGED <<shared, mainv, wstatus, wtask, wnotified, want>>
W_RunEnd(w) ==
  /\ wpc[w] = "runend" /\ wpc' = [wpc EXCEPT ![w] = "fetch"] /\ running' = running \ {<<w, wtask[w]>>}
  /\ ev' = Ev(w, "tend", "task", wtask[w] * 16 + w)
  /\ UNCHANGED <<shared, mainv, wstatus, wtask, wnotified, ran, ranby, want>>
W_Done(w) ==
  /\ wpc[w] = "done" /\ ndone' = ndone + 1 /\ wpc' = [wpc EXCEPT ![w] = "wait"]
  /\ ev' = Ev(w, "fadd", "ndone", ndone)
  /\ UNCHANGED <<signal, next, ntask, nthr, pool, mainv, wstatus, wtask, wnotified, bookv>>

MainStep == \/ \E n \in 0..NW : ApiPool(n)
            \/ \E k \in 0..MaxTask : ApiDispatch(k)
            \/ M_SerialStart \/ M_SerialEnd \/ M_Spawn \/ M_Sig0 \/ M_NotifyD \/ M_Join
            \/ M_Next0 \/ M_Ndone0 \/ M_SigLoad \/ M_SigStore \/ M_Notify \/ M_Fetch
            \/ M_RunStart \/ M_RunEnd \/ M_Spin
WorkStep(w) == W_Wait(w) \/ W_Wake(w) \/ W_Load(w) \/ W_Fetch(w) \/ W_RunStart(w) \/ W_RunEnd(w) \/ W_Done(w)
Finished == mpc = "idle" /\ nops = MaxOps
Next == MainStep \/ (\E w \in Workers : WorkStep(w)) \/ (Finished /\ UNCHANGED vars)
\* the history always ends by destroying the pool (as the harness does): liveness is stated up to there
Spec == Init /\ [][Next]_vars /\ WF_vars(MainStep) /\ \A w \in Workers : WF_vars(WorkStep(w))

\* ---------------------------------------------------------------- properties
TypeOK == /\ signal \in {-1, 0, 1} /\ next \in 0..(MaxTask + NW + 1) /\ ndone \in 0..NW
          /\ nthr \in 0..NW /\ depth \in 0..1
AtReturn == mpc = "idle"
\* every dispatch of n tasks invokes the task function exactly once per task id, and has finished at return
AtMostOnce          == \A t \in Tasks : ran[t] <= 1
ExactlyOnceAtReturn == AtReturn => \A t \in Tasks : ran[t] = (IF t < want THEN 1 ELSE 0)
NoneRunningAtReturn == AtReturn => running = {}
\* only thread ids that belong to the pool (0 = caller) run tasks, and only live workers
ThreadIdsInPool     == ranby \subseteq 0..nthr
OnlyLiveWorkersRun  == \A r \in running : r[1] = 0 \/ (r[1] <= nthr /\ pool)
\* mjData is unlocked and its stack frame released whenever an API call returns
UnlockedAtReturn    == AtReturn => (~locked /\ depth = 0)
\* no worker is left behind by a destroy
NoWorkersWithoutPool == (AtReturn /\ ~pool) => \A w \in Workers : wpc[w] = "none"
WorkersParkedAtReturn == (AtReturn /\ pool) => \A w \in 1..nthr : wpc[w] \in {"wait", "sleep"}
\* liveness: every history of API calls runs to completion (no deadlock, no lost wake-up)
Terminates == <>Finished
=============================================================================
