SPECIFICATION Spec
CONSTANTS
  MaxNodes = 1
  MaxAttrs = 0
  Skels <- SkABC
  TagSet <- AllTags
  BadSet <- AllBad
  RootTags <- Roots
INVARIANT VerdictIsVerdict
INVARIANT SkeletonsValid
INVARIANT CodeNeverStricter
INVARIANT DiffOnlyUnderAlias
INVARIANT BogusInvalid
INVARIANT BadValueInvalid
PROPERTY MonotoneInvalid
CHECK_DEADLOCK FALSE
