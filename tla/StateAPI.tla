----------------------------- MODULE StateAPI -----------------------------
\* The state-vector API of MuJoCo (src/engine/engine_support.c: mj_stateSize, mj_getState, mj_setState,
\* mj_extractState, mj_copyState) and the reset functions (src/engine/engine_io.c: mj_resetData,
\* mj_resetDataKeyframe) as a serialization of NC state components of mjData instances.
\*
\* A component holds a *tag* (what its numbers are), not the numbers themselves:
\*      0      F  : the values a freshly made mjData has
\*      1,2,3  P  : user patterns (pairwise different vectors, chosen by the replay harness)
\*      9      U  : unknown (the simulation ran; no claim on the values)
\*      10+k   K  : the values stored in keyframe k of the model
\* A state vector is a sequence of segments <<component, tag>> in storage order; its length for model m is
\* the sum of CompSize(m, c) over its segments.  The operations are written operationally (loops over the
\* bit order with a running address, as the code does); the properties are stated declaratively.
EXTENDS Integers, Sequences, FiniteSets, TLC
CONSTANTS NC,       \* number of components modelled: mjNSTATE = 14 (4 in the exhaustive design check)
          Dims,     \* sequence of model dimension records (one per model the behaviours are replayed on)
          MaxOps,
          Mode,     \* "free": any operation, any signature;  "chain": one signature per behaviour, fixed order
          Sigs,     \* signatures explored (sets of components)
          Masks,    \* chain mode: destination signatures of mj_extractState are cursig \cap mask
          ChainSigs,\* chain mode: signatures whose behaviour continues after the get (all of Sigs in the thorough tier)
          Bug,      \* "none"; other values plant a defect in the specification itself (negative controls)
          NKey,     \* keyframes 0..NKey-1 exist in every model
          NPat      \* number of user patterns (1..3)

Slots == {1, 2}
Comps == 1..NC
\* bit order of mjtState: time qpos qvel act history warmstart ctrl qfrc_applied xfrc_applied eq_active
\*                        mocap_pos mocap_quat userdata plugin
CompSize(m, c) ==
  LET d == Dims[m] IN
  CASE c = 1 -> 1            [] c = 2 -> d.nq          [] c = 3 -> d.nv        [] c = 4 -> d.na
    [] c = 5 -> d.nhistory   [] c = 6 -> d.nv          [] c = 7 -> d.nu        [] c = 8 -> d.nv
    [] c = 9 -> 6 * d.nbody  [] c = 10 -> d.neq        [] c = 11 -> 3 * d.nmocap
    [] c = 12 -> 4 * d.nmocap [] c = 13 -> d.nuserdata [] c = 14 -> d.npluginstate
Models == 1..Len(Dims)
\* the component table (a constant: TLC evaluates it once)
Table == [m \in Models |-> [c \in 1..NC |-> CompSize(m, c)]]
KeyComps  == {1, 2, 3, 4, 7, 11, 12} \cap Comps      \* what mj_resetDataKeyframe loads
PhysComps == {1, 2, 3, 4, 5, 6, 14} \cap Comps       \* what mj_step may change (inputs are left alone)
F == 0
U == 9
Patterns == 1..NPat
KeyTag(k) == 10 + k

VARIABLES dat,     \* [Slots -> [Comps -> tag]]
          dirty,   \* [Slots -> BOOLEAN]: fields outside the state vector may differ from a fresh mjData
          buf,     \* the caller's state vector: [sig, seg, from, snap]
          xbuf,    \* destination vector of the last mj_extractState: [sig, seg]
          cursig, pc,      \* chain mode bookkeeping
          nops,
          ev       \* last operation, its arguments and everything it must return
vars == <<dat, dirty, buf, xbuf, cursig, pc, nops, ev>>

NoBuf == [sig |-> {}, seg |-> <<>>, from |-> 0, snap |-> <<>>]
NoX   == [sig |-> {}, seg |-> <<>>]

\* ---- operational definitions (the loops of engine_support.c) -----------------------------------------
RECURSIVE SizeLoop(_, _, _)
SizeLoop(m, i, sig) == IF i > NC THEN 0
                       ELSE (IF i \in sig THEN Table[m][i] ELSE 0) + SizeLoop(m, i + 1, sig)
SizeAll(sig) == [m \in Models |-> SizeLoop(m, 1, sig)]

RECURSIVE GetLoop(_, _, _)
GetLoop(i, sig, f) == IF i > NC THEN <<>>
                      ELSE IF Bug = "getorder" /\ i = 1       \* planted: component 1 is written last
                           THEN GetLoop(2, sig, f) \o (IF 1 \in sig THEN <<<<1, f[1]>>>> ELSE <<>>)
                      ELSE (IF i \in sig THEN <<<<i, f[i]>>>> ELSE <<>>) \o GetLoop(i + 1, sig, f)

\* mj_setState: walk the components in bit order, consuming the vector front to back
RECURSIVE SetLoop(_, _, _, _)
SetLoop(i, sig, seg, f) ==
  IF i > NC THEN f
  ELSE IF i \in sig THEN SetLoop(i + 1, sig, Tail(seg), [f EXCEPT ![i] = Head(seg)[2]])
       ELSE SetLoop(i + 1, sig, seg, f)

\* mj_extractState: walk the source components, copy those that are in dstsig
RECURSIVE ExtractLoop(_, _, _, _)
ExtractLoop(i, srcsig, dstsig, seg) ==
  IF i > NC THEN <<>>
  ELSE IF i \in srcsig
       THEN (IF i \in dstsig THEN <<Head(seg)>> ELSE <<>>) \o ExtractLoop(i + 1, srcsig, dstsig, Tail(seg))
       ELSE ExtractLoop(i + 1, srcsig, dstsig, seg)

RECURSIVE SegLen(_, _)
SegLen(m, seg) == IF seg = <<>> THEN 0 ELSE Table[m][Head(seg)[1]] + SegLen(m, Tail(seg))

\* ---- initial state ----------------------------------------------------------------------------------
\* ev of the initial state exports the component table, so that the harness never recomputes it
Init ==
  /\ cursig \in (IF Mode = "chain" THEN Sigs ELSE {{}})
  /\ dat = IF Mode = "chain" THEN [s \in Slots |-> [c \in Comps |-> IF s = 1 THEN 1 ELSE 3]]
                             ELSE [s \in Slots |-> [c \in Comps |-> F]]
  /\ dirty = [s \in Slots |-> FALSE]
  /\ buf = NoBuf /\ xbuf = NoX /\ pc = 0 /\ nops = 0
  /\ ev = [op |-> "init", table |-> Table]

Tick == nops < MaxOps /\ nops' = nops + 1

\* ---- actions: one per API call ----------------------------------------------------------------------
Size(sig) ==
  /\ Tick /\ ev' = [op |-> "size", sig |-> sig, n |-> SizeAll(sig)]
  /\ UNCHANGED <<dat, dirty, buf, xbuf, cursig>>

\* invalid signatures raise an error and do nothing (sig < 0, sig >= 2^mjNSTATE)
SizeBad(which) ==
  /\ Tick /\ ev' = [op |-> "sizebad", which |-> which, ret |-> "error"]
  /\ UNCHANGED <<dat, dirty, buf, xbuf, cursig>>

Get(d, sig) ==
  /\ Tick
  /\ buf' = [sig |-> sig, seg |-> GetLoop(1, sig, dat[d]), from |-> d, snap |-> dat[d]]
  /\ ev' = [op |-> "get", d |-> d, sig |-> sig, n |-> SizeAll(sig), seg |-> buf'.seg]
  /\ UNCHANGED <<dat, dirty, xbuf, cursig>>

\* the caller fabricates a vector for signature sig filled with pattern p
UserVec(sig, p) ==
  /\ Tick
  /\ buf' = [sig |-> sig, seg |-> GetLoop(1, sig, [c \in Comps |-> p]), from |-> 0, snap |-> <<>>]
  /\ ev' = [op |-> "uservec", sig |-> sig, p |-> p]
  /\ UNCHANGED <<dat, dirty, xbuf, cursig>>

Set(d) ==
  /\ Tick
  /\ dat' = [dat EXCEPT ![d] = SetLoop(1, buf.sig, buf.seg, dat[d])]
  /\ ev' = [op |-> "set", d |-> d, sig |-> buf.sig, seg |-> buf.seg]
  /\ UNCHANGED <<dirty, buf, xbuf, cursig>>

Extract(dstsig) ==
  /\ Tick /\ dstsig \subseteq buf.sig
  /\ xbuf' = [sig |-> dstsig, seg |-> ExtractLoop(1, buf.sig, dstsig, buf.seg)]
  /\ ev' = [op |-> "extract", srcsig |-> buf.sig, dstsig |-> dstsig, src |-> buf.seg,
            n |-> SizeAll(dstsig), seg |-> xbuf'.seg]
  /\ UNCHANGED <<dat, dirty, buf, cursig>>

\* dstsig not contained in srcsig: error, nothing written
ExtractBad(dstsig) ==
  /\ Tick /\ ~(dstsig \subseteq buf.sig)
  /\ ev' = [op |-> "extractbad", srcsig |-> buf.sig, dstsig |-> dstsig, src |-> buf.seg, ret |-> "error"]
  /\ UNCHANGED <<dat, dirty, buf, xbuf, cursig>>

Copy(src, dst, sig) ==
  /\ Tick /\ src # dst
  /\ dat' = [dat EXCEPT ![dst] = [c \in Comps |-> IF c \in sig \/ (Bug = "copyframe" /\ c = NC)   \* planted
                                                  THEN dat[src][c] ELSE dat[dst][c]]]
  /\ ev' = [op |-> "copy", src |-> src, dst |-> dst, sig |-> sig]
  /\ UNCHANGED <<dirty, buf, xbuf, cursig>>

\* the user writes one component of mjData directly
Fill(d, c, p) ==
  /\ Tick /\ dat' = [dat EXCEPT ![d][c] = p]
  /\ ev' = [op |-> "fill", d |-> d, c |-> c, p |-> p]
  /\ UNCHANGED <<dirty, buf, xbuf, cursig>>

\* ... or all of them
Scramble(d, p) ==
  /\ Tick /\ dat' = [dat EXCEPT ![d] = [c \in Comps |-> p]]
  /\ ev' = [op |-> "scramble", d |-> d, p |-> p]
  /\ UNCHANGED <<dirty, buf, xbuf, cursig>>

\* the simulation runs on an untouched instance: physics components and all derived fields change
Simulate(d) ==
  /\ Tick /\ \A c \in Comps : dat[d][c] = F
  /\ dat' = [dat EXCEPT ![d] = [c \in Comps |-> IF c \in PhysComps THEN U ELSE dat[d][c]]]
  /\ dirty' = [dirty EXCEPT ![d] = TRUE]
  /\ ev' = [op |-> "simulate", d |-> d]
  /\ UNCHANGED <<buf, xbuf, cursig>>

Reset(d) ==
  /\ Tick /\ dat' = [dat EXCEPT ![d] = [c \in Comps |-> F]]
  /\ dirty' = [dirty EXCEPT ![d] = FALSE]
  /\ ev' = [op |-> "reset", d |-> d]
  /\ UNCHANGED <<buf, xbuf, cursig>>

\* k outside 0..NKey-1 behaves as mj_resetData
ResetKey(d, k) ==
  /\ Tick
  /\ dat' = [dat EXCEPT ![d] = [c \in Comps |-> IF k \in 0..(NKey - 1) /\ c \in KeyComps THEN KeyTag(k) ELSE F]]
  /\ dirty' = [dirty EXCEPT ![d] = FALSE]
  /\ ev' = [op |-> "resetkey", d |-> d, k |-> k]
  /\ UNCHANGED <<buf, xbuf, cursig>>

\* ---- next-state relations ---------------------------------------------------------------------------
Free  == Mode = "free" /\ pc' = pc
Chain == Mode = "chain"
\* free mode: any operation on any signature; chain mode: one signature per behaviour in the order
\* get ; (extract leaves) ; scramble ; set ; copy
FSize       == Free /\ \E sig \in Sigs : Size(sig)
FSizeBad    == Free /\ \E w \in {"neg", "big"} : SizeBad(w)
FGet        == Free /\ \E d \in Slots, sig \in Sigs : Get(d, sig)
FUserVec    == Free /\ \E sig \in Sigs, p \in Patterns : UserVec(sig, p)
FSet        == Free /\ \E d \in Slots : Set(d)
FExtract    == Free /\ \E ds \in Sigs : Extract(ds)
FExtractBad == Free /\ \E ds \in Sigs : ExtractBad(ds)
FCopy       == Free /\ \E s \in Slots, d \in Slots, sig \in Sigs : Copy(s, d, sig)
FFill       == Free /\ \E d \in Slots, c \in Comps, p \in Patterns : Fill(d, c, p)
FSimulate   == Free /\ \E d \in Slots : Simulate(d)
FReset      == Free /\ \E d \in Slots : Reset(d)
FResetKey   == Free /\ \E d \in Slots, k \in -1..NKey : ResetKey(d, k)
CGet        == Chain /\ pc = 0 /\ Get(1, cursig) /\ pc' = 1
CExtract    == Chain /\ pc = 1 /\ cursig \in ChainSigs /\ pc' = 9 /\ \E mk \in Masks : Extract(cursig \cap mk)
CScramble   == Chain /\ pc = 1 /\ cursig \in ChainSigs /\ Scramble(1, 2) /\ pc' = 2
CSet        == Chain /\ pc = 2 /\ Set(1) /\ pc' = 3
CCopy       == Chain /\ pc = 3 /\ Copy(1, 2, cursig) /\ pc' = 4
Next == \/ FSize \/ FSizeBad \/ FGet \/ FUserVec \/ FSet \/ FExtract \/ FExtractBad \/ FCopy \/ FFill
        \/ FSimulate \/ FReset \/ FResetKey
        \/ CGet \/ CExtract \/ CScramble \/ CSet \/ CCopy
Spec == Init /\ [][Next]_vars

\* ---- the property -------------------------------------------------------------------------------------
Tags == {F, U} \cup Patterns \cup {KeyTag(k) : k \in 0..(NKey - 1)}
TypeOK == /\ dat \in [Slots -> [Comps -> Tags]]
          /\ buf.sig \subseteq Comps /\ xbuf.sig \subseteq Comps

\* declarative reading of a signature: the listing of all components in bit order, restricted to sig
InSig(sig) == [c \in Comps |-> c \in sig]
Decl(sig, f) == LET member == InSig(sig) IN
                SelectSeq([c \in Comps |-> <<c, f[c]>>], LAMBDA x : member[x[1]])

\* mj_stateSize equals the length mj_getState writes, for every model
SizeIsLength == (ev.op = "get") => \A m \in Models : ev.n[m] = SegLen(m, ev.seg)
\* mj_getState writes exactly the components of the signature, in bit order, with the data's values
GetIsDecl == (ev.op = "get") => ev.seg = Decl(ev.sig, dat[ev.d])
\* mj_setState after mj_getState restores exactly those components (whatever happened in between) ...
SetRestores == [][(ev'.op = "set" /\ buf.from # 0) =>
                    \A c \in buf.sig : dat'[ev'.d][c] = buf.snap[c]]_vars
\* ... and leaves all others, and every other instance, untouched
SetFrame == [][(ev'.op = "set") =>
                 /\ \A c \in Comps \ buf.sig : dat'[ev'.d][c] = dat[ev'.d][c]
                 /\ \A s \in Slots \ {ev'.d} : dat'[s] = dat[s]]_vars
\* mj_extractState equals mj_getState with the sub-signature
ExtractIsGet == [][(ev'.op = "extract" /\ buf.from # 0) => xbuf'.seg = Decl(ev'.dstsig, buf.snap)]_vars
ExtractLen   == (ev.op = "extract") => \A m \in Models : ev.n[m] = SegLen(m, ev.seg)
\* mj_copyState equals get followed by set
CopyIsGetSet == [][(ev'.op = "copy") =>
                     /\ dat'[ev'.dst] = SetLoop(1, ev'.sig, GetLoop(1, ev'.sig, dat[ev'.src]), dat[ev'.dst])
                     /\ dat'[ev'.src] = dat[ev'.src]]_vars
\* mj_resetData yields the state of a freshly made mjData
ResetIsFresh == [][(ev'.op = "reset") => (\A c \in Comps : dat'[ev'.d][c] = F) /\ ~dirty'[ev'.d]]_vars
\* mj_resetDataKeyframe loads exactly the keyframe's values
KeyLoads == [][(ev'.op = "resetkey") =>
                 \A c \in Comps : dat'[ev'.d][c] =
                     (IF ev'.k \in 0..(NKey - 1) /\ c \in KeyComps THEN KeyTag(ev'.k) ELSE F)]_vars
\* queries never modify any instance
QueriesPure == [][(ev'.op \in {"size", "sizebad", "get", "extract", "extractbad", "uservec"}) => dat' = dat]_vars

\* ---- constants for the configurations ----------------------------------------------------------------
AllSigs == SUBSET Comps
SigInt(S) == LET f[i \in 0..NC] == IF i = 0 THEN 0 ELSE f[i - 1] + (IF i \in S THEN 2^(i - 1) ELSE 0) IN f[NC]
MC_ChainFifth == {S \in AllSigs : SigInt(S) % 5 = 0}
MC_SigsTiny == {{}, {2, 5}, {1, 3, 6}, 1..6}
MC_SigsSmall == {{}, {1}, {2, 5}, {1, 3, 6}, {4, 5, 6}, 1..6}
MC_Dims4 == << [nq |-> 8, nv |-> 7, na |-> 2, nhistory |-> 0, nu |-> 3, nbody |-> 4, neq |-> 2, nmocap |-> 1,
                nuserdata |-> 5, npluginstate |-> 3] >>
\* the four replay models of checks/c26.py (the check verifies the compiled models have these sizes)
MC_Dims == <<
  [nq |-> 9,  nv |-> 8, na |-> 2, nhistory |-> 10, nu |-> 4, nbody |-> 5, neq |-> 3, nmocap |-> 2, nuserdata |-> 5, npluginstate |-> 6],
  [nq |-> 2,  nv |-> 2, na |-> 1, nhistory |-> 0,  nu |-> 3, nbody |-> 3, neq |-> 0, nmocap |-> 0, nuserdata |-> 0, npluginstate |-> 0],
  [nq |-> 11, nv |-> 9, na |-> 1, nhistory |-> 7,  nu |-> 2, nbody |-> 4, neq |-> 4, nmocap |-> 1, nuserdata |-> 1, npluginstate |-> 3],
  [nq |-> 0,  nv |-> 0, na |-> 0, nhistory |-> 0,  nu |-> 0, nbody |-> 2, neq |-> 0, nmocap |-> 1, nuserdata |-> 2, npluginstate |-> 0] >>
\* masks for the destination signatures of the chain (bit patterns over the 14 components)
MaskAlt  == {c \in 1..14 : c % 2 = 0}
MaskAlt2 == {c \in 1..14 : c % 2 = 1}
MaskLow  == 1..7
MaskHigh == 8..14
MaskMid  == 4..11
Mask3    == {c \in 1..14 : c % 3 = 0}
Mask3b   == {c \in 1..14 : c % 3 # 1}
MaskEnds == {1, 2, 13, 14}
MaskAll  == 1..14
MC_Masks2 == {MaskAlt, MaskLow, MaskAll}
MC_Masks8 == {MaskAlt, MaskAlt2, MaskLow, MaskHigh, MaskMid, Mask3, Mask3b, MaskEnds, MaskAll}
\* signatures of the simulated free-mode behaviours: singletons, complements of singletons, masks, extremes
MC_SigsSim == {{c} : c \in Comps} \cup {Comps \ {c} : c \in Comps} \cup {Comps \cap mk : mk \in MC_Masks8}
              \cup {{}, Comps, {1, 2, 3, 4}, {2, 3, 4, 5}, {1, 2, 3, 4, 5, 14}, {7, 8, 9, 10, 11, 12, 13}}
=============================================================================
