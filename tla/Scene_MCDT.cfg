SPECIFICATION Spec
CONSTANTS
  Models <- ModelsD
  Caps <- CapsD
  GMasks <- EdgeMasks3
  SMasks <- EdgeMasks3
  JMasks <- EdgeMasks3
  TMasks <- EdgeMasks3
  AMasks <- EdgeMasks3
  FlagSets <- AllFlags
  Statics <- OnlyTrue
  CatMasks <- FullCat
  QPos <- Q0
  Status0 <- St0
  InitMode = "all"
  Ops <- CallOps
  MaxOps = 1
  Bug = "none"
INVARIANT TypeOK
INVARIANT Bounded
INVARIANT StatusIsOverflow
INVARIANT Faithful
INVARIANT GroupLaw
INVARIANT MinLaw
INVARIANT OnlyGeoms
INVARIANT WalkDeterministic
PROPERTY NoFalseAlarm
CHECK_DEADLOCK FALSE
