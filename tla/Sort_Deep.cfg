SPECIFICATION SpecAll
CONSTANTS
  MaxLen = 8
  Keys <- K3
  Runs <- Run2
  Ops <- SortOnly
  GenLens <- NoLens
  Seeds <- NoSeeds
  SeedLens <- NoLens
INVARIANT TypeOK
INVARIANT SortCorrect
INVARIANT SortDefsAgree
INVARIANT SortInPlace
INVARIANT KeysConsistent
INVARIANT RunsInv
INVARIANT PassInv
INVARIANT NoJunk
INVARIANT NoStuck
INVARIANT EmitDone
PROPERTY InputFrozen
CHECK_DEADLOCK FALSE
