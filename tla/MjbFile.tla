------------------------------- MODULE MjbFile -------------------------------
\* Loader of MuJoCo's binary model format (src/engine/engine_io.c: mj_saveModel / mj_loadModelBuffer /
\* mj_makeModel / mj_validateReferences), property C31:
\*   a truncated or corrupted buffer "is either rejected with a warning and a NULL result or yields a model whose
\*    cross-references are all in bounds, and loading never reads outside the buffer or the model".
\*
\* File  = header (nhdr ints) ++ sizes (one 8-byte field per size) ++ structs ++ array_1 ++ ... ++ array_n
\* Model = one heap buffer holding the arrays, each sized  el * rows * cols  from the size fields, 64-aligned.
\* The format is described by the constant Schema, so the same module is checked exhaustively on a miniature
\* format (MC_Schema below) and evaluated by TLC on the real format of a compiled model (MjbFileReal: schema,
\* reference arrays and the list of cases come from a JSON file written by checks/c31.py).
\*
\* A case is a damaged image of the pristine file: truncated to `trunc` bytes (-1: not truncated), extended by
\* `ext` junk bytes, header word `hdr` changed (0: none), size fields overwritten (sz), reference entries
\* overwritten (rf), entries of range-length arrays overwritten (nf), start address / factors of extents such as
\* a height field's nrow, ncol overwritten (xf), `ty`: some enum/type field overwritten (content the specification
\* does not interpret);
\* `fit` / `exact`: the derived size fields / the file length were made consistent with the damaged sizes.
\* The loader is a sequence of phases; each phase that reads checks first that the bytes are there.
\*   (Prepare: the damaged file) -> ReadHeader -> ReadSizes -> Make -> CheckNbuffer -> SetSizes -> ReadStructs
\*         -> ReadArrays -> CheckEnd -> Validate -> Done
\* LoaderChecksMap = TRUE is the loader the property demands; FALSE is the loader as written in engine_io.c,
\* which takes nnames_map from the file after having sized the model buffer with the value it computed itself.
EXTENDS Integers, Sequences, FiniteSets, SequencesExt, TLC
CONSTANTS Schema,            \* the format (record, see MC_Schema)
          CaseIds,           \* set of case identifiers
          CaseOf(_),         \* case identifier -> case record
          LoaderChecksMap,   \* BOOLEAN
          Big,               \* sizes at or above this are treated as "cannot be allocated / too large"
          Report             \* BOOLEAN: print <<"OUT", case, result, reason, pos, file length, nnames_map, nbuffer>>

VARIABLES c,        \* case being loaded
          f_raw, f_bad, f_alloc, f_nbuf, f_vals, f_rsz, f_len,    \* the damaged file as prepared from the case (see Prepare)
          phase,
          pos,      \* read cursor (bytes consumed)
          res,      \* "" while loading, then "null" | "ok"
          why,      \* reason of the rejection / "accepted"
          warned,   \* a warning was issued
          rd,       \* bookkeeping of the last read: [at, n] (bytes n read at offset at), for ReadInBounds
          wr        \* every array read fitted the space allocated for it
file == <<f_raw, f_bad, f_alloc, f_nbuf, f_vals, f_rsz, f_len>>
vars == <<c, f_raw, f_bad, f_alloc, f_nbuf, f_vals, f_rsz, f_len, phase, pos, res, why, warned, rd, wr>>

NS == Len(Schema.sizes)
NA == Len(Schema.arrays)
Case == CaseOf(c)

\* ---- sizes and lengths ----------------------------------------------------------------------------------
\* value of size field i in the damaged file: [k |-> "val", v |-> n] | [k |-> "neg"] | [k |-> "huge"]
Patched(i) == \E j \in 1..Len(Case.sz) : Case.sz[j].i = i
FileSize(i) == IF Patched(i) THEN LET j == CHOOSE j \in 1..Len(Case.sz) : Case.sz[j].i = i IN
                                    [k |-> Case.sz[j].k, v |-> Case.sz[j].v]
               ELSE [k |-> "val", v |-> Schema.sizes[i].val]
Pristine == Schema.pvals              \* = [i \in 1..NS |-> Schema.sizes[i].val], stored in the schema
\* bytes of array a when the sizes are S (S must be a value, not an expression: it is used NA times)
ABytes(a, S) == a.el * S[a.rows] * a.cc * (IF a.cv = 0 THEN 1 ELSE S[a.cv])
\* (folds are SequencesExt!FoldLeft: iterative in TLC, the real format has several hundred arrays)
SumBytes(S) == FoldLeft(LAMBDA acc, a : acc + ABytes(a, S), 0, Schema.arrays)
\* size of the model buffer: every array starts at a multiple of 64
Nbuf(S)     == FoldLeft(LAMBDA off, a : off + ((64 - (off % 64)) % 64) + ABytes(a, S), 0, Schema.arrays)
PristineNbuf == Nbuf(Pristine)
HdrBytes    == Schema.hdr
SizesBytes  == 8 * NS
PristineArrays == SumBytes(Pristine)
PristineLen == HdrBytes + SizesBytes + Schema.structs + PristineArrays
\* (cases that leave the size fields alone take the pristine values of the derived quantities: same values, computed once)
SizesIntact == Len(Case.sz) = 0
IsArg(i) == Schema.sizes[i].cls = "arg"
\* nnames_map as mj_makeModel derives it from its arguments
MapOf(S) == Schema.mapmul * FoldLeft(LAMBDA acc, x : acc + S[x], 0, Schema.mapsrc)
ArgsBad == \E i \in 1..NS : IsArg(i) /\ (FileSize(i).k # "val" \/ FileSize(i).v < 0 \/ FileSize(i).v >= Big)
NoBody  == FileSize(Schema.inbody).k = "val" /\ FileSize(Schema.inbody).v = 0
\* derived fields that are not even small numbers
OthersWild == ~Case.fit /\ \E i \in 1..NS : Schema.sizes[i].cls \in {"map", "nbuf"} /\ FileSize(i).k # "val"

\* ---- cross-references ---------------------------------------------------------------------------------------
RefVal(r, k) == IF \E j \in 1..Len(Case.rf) : Case.rf[j].r = r /\ Case.rf[j].k = k
                THEN Case.rf[CHOOSE j \in 1..Len(Case.rf) : Case.rf[j].r = r /\ Case.rf[j].k = k].v
                ELSE Schema.refs[r].vals[k]
\* length of the range that starts at entry k (1 for plain ids); Case.nf overwrites entries of the length array
RefNum(r, k) == IF Len(Schema.refs[r].nums) = 0 THEN 1
                ELSE IF \E j \in 1..Len(Case.nf) : Case.nf[j].r = r /\ Case.nf[j].k = k
                THEN Case.nf[CHOOSE j \in 1..Len(Case.nf) : Case.nf[j].r = r /\ Case.nf[j].k = k].v
                ELSE Schema.refs[r].nums[k]
\* -1 means "none": legal where the field is optional, and for the start address of an empty range
InBounds(v, num, tgt, opt) == \/ v = -1 /\ (opt \/ num = 0)
                              \/ v >= 0 /\ num >= 0 /\ v <= tgt - num       \* (not v + num <= tgt: that sum overflows near INT_MAX)
RefsInBounds(S) == \A r \in 1..Len(Schema.refs) : \A k \in 1..Len(Schema.refs[r].vals) :
                      InBounds(RefVal(r, k), RefNum(r, k), S[Schema.refs[r].tgt], Schema.refs[r].opt)

\* ---- extents: adr + f1 * f2 * ... <= target size (height-field samples nrow * ncol, texture bytes
\* nchannel * height * width, sensor outputs adr + dim).  The values come from 32-bit fields of the file, their
\* products and sums do not fit 32 bits in general (TLC's integers, like C's int, are 32-bit): the bound is
\* therefore decided by exact integer reasoning, dividing the room that is left instead of multiplying:
\*     f1 * ... * fn <= room   <=>   some fi = 0  \/  floor(...floor(floor(room / f1) / f2).../ fn) >= 1     (fi > 0)
\* Case.xf overwrites the start address (j = 0) or factor j of extent x.
ExtVal(x, j) == IF \E q \in 1..Len(Case.xf) : Case.xf[q].x = x /\ Case.xf[q].j = j
                THEN Case.xf[CHOOSE q \in 1..Len(Case.xf) : Case.xf[q].x = x /\ Case.xf[q].j = j].v
                ELSE IF j = 0 THEN Schema.exts[x].adr ELSE Schema.exts[x].f[j]
ProductFits(fs, room) == \/ \E j \in 1..Len(fs) : fs[j] = 0
                         \/ FoldLeft(LAMBDA rem, f : rem \div f, room, fs) >= 1
\* (a target size overwritten with a value beyond 32 bits: "huge" leaves room for everything, "neg" for nothing)
ExtentOK(x, S) == LET adr == ExtVal(x, 0)
                      fs  == [j \in 1..Len(Schema.exts[x].f) |-> ExtVal(x, j)]
                      tgt == S[Schema.exts[x].tgt]
                      tk  == FileSize(Schema.exts[x].tgt).k IN
                  /\ adr >= 0 /\ \A j \in 1..Len(fs) : fs[j] >= 0
                  /\ tk # "neg"
                  /\ tk = "huge" \/ (adr <= tgt /\ ProductFits(fs, tgt - adr))
ExtentsInBounds(S) == \A x \in 1..Len(Schema.exts) : ExtentOK(x, S)

\* ---- the loader -------------------------------------------------------------------------------------------
Init == /\ c = 0 /\ f_raw = << >> /\ f_bad = FALSE /\ f_alloc = << >> /\ f_nbuf = 0 /\ f_vals = << >> /\ f_rsz = << >>
        /\ f_len = 0 /\ phase = "Pick" /\ pos = 0 /\ res = "" /\ why = "" /\ warned = FALSE
        /\ rd = [at |-> 0, n |-> 0] /\ wr = TRUE

\* one initial state; the case is chosen by the first step
Pick == /\ phase = "Pick" /\ c' \in CaseIds /\ phase' = "Prepare"
        /\ UNCHANGED <<file, pos, res, why, warned, rd, wr>>

\* The damaged file, computed once per case.  Each conjunct uses the primed values of the ones before it, so
\* TLC computes every function once (a LET definition would be re-evaluated at each of its many uses):
\*   f_raw   size fields as overwritten by the case
\*   f_alloc sizes with which mj_makeModel allocates the model buffer: arguments from the file, nnames_map derived
\*   f_nbuf  the buffer size it computes
\*   f_vals  the size fields the loader sees (Case.fit: nnames_map and nbuffer were recomputed to agree)
\*   f_rsz   sizes with which the arrays are read
\*   f_len   length of the file (Case.exact: cut or padded to exactly what f_rsz asks for)
Prepare ==
  /\ phase = "Prepare"
  /\ f_raw' = [i \in 1..NS |-> FileSize(i).v]
  /\ f_bad' = ArgsBad
  /\ f_alloc' = [f_raw' EXCEPT ![Schema.imap] = MapOf(f_raw')]
  /\ f_nbuf' = IF f_bad' THEN -1 ELSE IF SizesIntact THEN PristineNbuf ELSE Nbuf(f_alloc')
  /\ f_vals' = IF Case.fit THEN [f_raw' EXCEPT ![Schema.imap] = f_alloc'[Schema.imap], ![Schema.inbuf] = f_nbuf']
               ELSE f_raw'
  /\ f_rsz' = IF LoaderChecksMap THEN f_alloc' ELSE f_vals'
  /\ f_len' = IF Case.exact /\ ~f_bad' THEN HdrBytes + SizesBytes + Schema.structs + (IF SizesIntact THEN PristineArrays ELSE SumBytes(f_rsz'))
              ELSE IF Case.trunc >= 0 THEN Case.trunc ELSE PristineLen + Case.ext
  /\ phase' = "ReadHeader" /\ UNCHANGED <<c, pos, res, why, warned, rd, wr>>
FileLen == f_len

Reject(reason) == /\ phase' = "Done" /\ res' = "null" /\ why' = reason /\ warned' = TRUE
                  /\ UNCHANGED <<c, file, pos, rd, wr>>
Goto(ph)       == phase' = ph /\ UNCHANGED <<c, file, res, why, warned>>
Read(n)        == rd' = [at |-> pos, n |-> n] /\ pos' = pos + n

ReadHeader ==
  /\ phase = "ReadHeader"
  /\ IF FileLen < HdrBytes THEN Reject("header-incomplete")
     ELSE IF Case.hdr # 0 THEN Reject("header-mismatch")
     ELSE Goto("ReadSizes") /\ Read(HdrBytes) /\ UNCHANGED wr

ReadSizes ==
  /\ phase = "ReadSizes"
  /\ IF pos + SizesBytes > FileLen THEN Reject("sizes-truncated")
     ELSE Goto("Make") /\ Read(SizesBytes) /\ UNCHANGED wr

\* mj_makeModel: argument checks, derived nnames_map, buffer size
Make ==
  /\ phase = "Make"
  /\ IF f_bad \/ NoBody THEN Reject("sizes-invalid")
     ELSE IF OthersWild THEN Reject("nbuffer-or-derived-size-wrong")
     ELSE Goto("CheckNbuffer") /\ UNCHANGED <<pos, rd, wr>>

CheckNbuffer ==
  /\ phase = "CheckNbuffer"
  /\ IF f_nbuf # f_vals[Schema.inbuf] THEN Reject("nbuffer-wrong")
     ELSE Goto("SetSizes") /\ UNCHANGED <<pos, rd, wr>>

\* the size fields of the file become the model's; a field the buffer was sized by must agree with it
SetSizes ==
  /\ phase = "SetSizes"
  /\ IF LoaderChecksMap /\ f_vals[Schema.imap] # f_alloc[Schema.imap] THEN Reject("derived-size-wrong")
     ELSE Goto("ReadStructs") /\ UNCHANGED <<pos, rd, wr>>

ReadStructs ==
  /\ phase = "ReadStructs"
  /\ IF pos + Schema.structs > FileLen THEN Reject("structs-truncated")
     ELSE Goto("ReadArrays") /\ Read(Schema.structs) /\ UNCHANGED wr

\* index of the first array that does not fit into what is left of the file when reading starts at p (0: all fit)
FirstShort(p, S) == FoldLeft(LAMBDA st, a : IF st[2] # 0 THEN st
                                            ELSE LET b == ABytes(a, S) IN
                                                 IF b < 0 \/ st[1] + b > FileLen THEN <<st[1], st[3], st[3]>>
                                                 ELSE <<st[1] + b, 0, st[3] + 1>>,
                             <<p, 0, 1>>, Schema.arrays)[2]
\* every array read fits the room allocated for it
Fits == SizesIntact \/ \A i \in 1..NA : /\ ABytes(Schema.arrays[i], f_rsz) <= ABytes(Schema.arrays[i], f_alloc)
                          /\ ABytes(Schema.arrays[i], f_rsz) >= 0
ReadArrays ==
  /\ phase = "ReadArrays"
  /\ IF FirstShort(pos, f_rsz) # 0 THEN Reject("array-truncated")
     ELSE /\ Goto("CheckEnd") /\ Read(IF SizesIntact THEN PristineArrays ELSE SumBytes(f_rsz))
          /\ wr' = Fits

CheckEnd ==
  /\ phase = "CheckEnd"
  /\ IF pos # FileLen THEN Reject("file-too-large")
     ELSE Goto("Validate") /\ UNCHANGED <<pos, rd, wr>>

Accept == /\ phase' = "Done" /\ res' = "ok" /\ why' = "accepted" /\ UNCHANGED <<c, file, pos, warned, rd, wr>>
\* the arrays are where they were in the pristine file (so their content is what it was) ...
Unshifted == SizesIntact \/ \A i \in 1..NA : ABytes(Schema.arrays[i], f_rsz) = ABytes(Schema.arrays[i], Pristine)
\* ... and no field the specification does not interpret was overwritten
Interpretable == Unshifted /\ ~Case.ty
Validate ==
  /\ phase = "Validate"
  /\ IF Interpretable
     THEN IF ~RefsInBounds(f_rsz) THEN Reject("reference-out-of-bounds")
          ELSE IF ~ExtentsInBounds(f_rsz) THEN Reject("extent-out-of-bounds")
          ELSE Accept
     ELSE \* arrays moved or an uninterpreted field changed: the validator sees other content; either verdict
          Accept \/ Reject("validation")

Done == /\ phase = "Done" /\ Report /\ phase' = "Reported"
        /\ PrintT(<<"OUT", c, res, why, pos, FileLen, IF f_bad THEN 0 ELSE f_vals[Schema.imap],
                     IF f_bad THEN 0 ELSE f_vals[Schema.inbuf]>>)
        /\ UNCHANGED <<c, file, pos, res, why, warned, rd, wr>>

Next == Pick \/ Prepare \/ ReadHeader \/ ReadSizes \/ Make \/ CheckNbuffer \/ SetSizes \/ ReadStructs \/ ReadArrays
        \/ CheckEnd \/ Validate \/ Done
Spec == Init /\ [][Next]_vars

\* ---- the property ----------------------------------------------------------------------------------------
Phases == {"Pick", "Prepare", "ReadHeader", "ReadSizes", "Make", "CheckNbuffer", "SetSizes", "ReadStructs",
           "ReadArrays", "CheckEnd", "Validate", "Done", "Reported"}
Loading == phase \notin {"Pick", "Prepare"}
TypeOK == phase \in Phases /\ res \in {"", "null", "ok"} /\ pos >= 0
\* loading never reads outside the buffer ...
ReadInBounds  == Loading => (rd.n >= 0 /\ rd.at >= 0 /\ rd.at + rd.n <= FileLen /\ pos <= FileLen)
\* ... or writes outside the model
WriteInBounds == wr
\* a rejection is a NULL result with a warning
RejectWarns   == res = "null" => warned
\* an accepted file was consumed exactly by a model whose buffer size is the one the file states
AcceptExact   == res = "ok" => (pos = FileLen /\ ~f_bad /\ f_nbuf = f_vals[Schema.inbuf])
\* its interpretable cross-references are in bounds
AcceptSound   == (res = "ok" /\ Interpretable) => (RefsInBounds(f_rsz) /\ ExtentsInBounds(f_rsz))
\* the division rule for products agrees with plain multiplication wherever that cannot overflow
ProductRuleAgrees ==
  phase = "Validate" => \A x \in 1..Len(Schema.exts) :
    LET fs == [j \in 1..Len(Schema.exts[x].f) |-> ExtVal(x, j)] IN
      (\A j \in 1..Len(fs) : fs[j] >= 0 /\ fs[j] < 1000) =>
        \A room \in 0..12 : ProductFits(fs, room) <=> (FoldLeft(LAMBDA acc, f : acc * f, 1, fs) <= room)
\* with the size fields intact only a file of exactly the original length is accepted (every truncation and every
\* extension is rejected); the undamaged file is accepted
TruncatedRejected == (res = "ok" /\ Len(Case.sz) = 0) => FileLen = PristineLen
Undamaged(k) == k.trunc < 0 /\ k.ext = 0 /\ k.hdr = 0 /\ Len(k.sz) = 0 /\ Len(k.rf) = 0 /\ Len(k.nf) = 0 /\ Len(k.xf) = 0 /\ ~k.ty
PristineAccepted == (phase \in {"Done", "Reported"} /\ Undamaged(Case)) => res = "ok"

\* ---- miniature format for exhaustive checking ------------------------------------------------------------------
\* sizes: 1 nA (the "nbody" of the miniature), 2 nB, 3 nU (a column count), 4 nmap = 2*(nA+nB), 5 nD (mjData only), 6 nbuffer
MC_Arrays == << [el |-> 4, rows |-> 1, cc |-> 1, cv |-> 0],      \* a_ref  : nA ints, references into B
                [el |-> 8, rows |-> 2, cc |-> 3, cv |-> 0],      \* b_pos  : nB x 3 doubles
                [el |-> 4, rows |-> 1, cc |-> 1, cv |-> 0],      \* a_adr  : nA ints, start of a range in B
                [el |-> 4, rows |-> 1, cc |-> 1, cv |-> 0],      \* a_num  : nA ints, length of the range
                [el |-> 8, rows |-> 1, cc |-> 1, cv |-> 3],      \* a_user : nA x nU doubles
                [el |-> 1, rows |-> 2, cc |-> 2, cv |-> 0],      \* names  : 2*nB chars
                [el |-> 4, rows |-> 4, cc |-> 1, cv |-> 0],      \* map    : nmap ints
                [el |-> 4, rows |-> 2, cc |-> 1, cv |-> 0] >>    \* b_opt  : nB ints, optional references into A
MC_SizesNoBuf == << [name |-> "nA", val |-> 2, cls |-> "arg"], [name |-> "nB", val |-> 3, cls |-> "arg"],
                    [name |-> "nU", val |-> 1, cls |-> "arg"], [name |-> "nmap", val |-> 10, cls |-> "map"],
                    [name |-> "nD", val |-> 3, cls |-> "dat"] >>
\* nbuffer of the pristine miniature: a_ref 8 @0, b_pos 72 @64, a_adr 8 @192, a_num 8 @256, a_user 16 @320,
\* names 6 @384, map 40 @448, b_opt 12 @512 -> 524
MC_Schema == [hdr |-> 20, structs |-> 12, mapmul |-> 2, mapsrc |-> <<1, 2>>, pvals |-> <<2, 3, 1, 10, 3, 524>>, imap |-> 4, inbuf |-> 6, inbody |-> 1,
              sizes |-> MC_SizesNoBuf \o << [name |-> "nbuffer", val |-> 524, cls |-> "nbuf"] >>,
              arrays |-> MC_Arrays,
              refs |-> << [arr |-> 1, tgt |-> 2, opt |-> FALSE, vals |-> <<0, 2>>, nums |-> << >>],
                          [arr |-> 3, tgt |-> 2, opt |-> FALSE, vals |-> <<0, -1>>, nums |-> <<2, 0>>],
                          [arr |-> 8, tgt |-> 1, opt |-> TRUE, vals |-> <<-1, 1, 0>>, nums |-> << >>] >>,
              \* extents: 0 + 1 * 3 <= nB (a 1 x 3 grid in B), 1 + 2 <= nD
              exts |-> << [tgt |-> 2, adr |-> 0, f |-> <<1, 3>>], [tgt |-> 5, adr |-> 1, f |-> <<2>>] >>]
MC_Len == 20 + 48 + 12 + (8 + 72 + 8 + 8 + 16 + 6 + 40 + 12)
Dmg(t, e, h, s, r, y, f) == [trunc |-> t, ext |-> e, hdr |-> h, sz |-> s, rf |-> r, nf |-> << >>, xf |-> << >>, ty |-> y, fit |-> f,
                             exact |-> FALSE]
MC_SzMuts == {<<[i |-> i, k |-> "val", v |-> v]>> : i \in 1..6, v \in {-1, 0, 1, 2, 3, 4, 9, 10, 11, 12, 523, 524, 588}}
             \cup {<<[i |-> i, k |-> k, v |-> 0]>> : i \in 1..6, k \in {"neg", "huge"}}
MC_RfMuts == {<<[r |-> r, k |-> k, v |-> v]>> : r \in 1..3, k \in 1..2, v \in {-2, -1, 0, 1, 2, 3, 4}}
\* values whose 32-bit products / sums with their neighbours wrap: 0x40000001, 0x55555556 (* 3 = 2^32 + 2), INT_MAX,
\* 0x80000003 as a signed word
MC_Wrap   == {-2147483645, -1, 0, 1, 2, 3, 4, 1073741825, 1431655766, 2147483647}
MC_XfMuts == {<<[x |-> x, j |-> j, v |-> v]>> : x \in 1..2, j \in 0..2, v \in MC_Wrap} \ {<<[x |-> 2, j |-> 2, v |-> v]>> : v \in MC_Wrap}
MC_NfMuts == {<<[r |-> 2, k |-> k, v |-> v]>> : k \in 1..2, v \in MC_Wrap}
MC_Exts   == {0, 4, 64}
\* every truncation length, extensions
MC_LenCases == {Dmg(t, 0, 0, << >>, << >>, FALSE, FALSE) : t \in 0..MC_Len}
               \cup {Dmg(-1, e, 0, << >>, << >>, FALSE, FALSE) : e \in {0, 1, 4, 8, 40, 64}}
\* one damaged field (header word, size, reference entry, uninterpreted field), alone or with an extension
MC_OneCases == {Dmg(-1, e, 3, << >>, << >>, FALSE, FALSE) : e \in MC_Exts}
               \cup {Dmg(-1, e, 0, s, << >>, FALSE, FALSE) : e \in MC_Exts, s \in MC_SzMuts}
               \cup {Dmg(-1, e, 0, << >>, r, FALSE, FALSE) : e \in MC_Exts, r \in MC_RfMuts}
               \cup {Dmg(-1, e, 0, << >>, << >>, TRUE, FALSE) : e \in MC_Exts}
\* a size changed by one with the derived fields recomputed (or not), file length adjusted by various amounts
\* (nA + 1 moves 20 bytes of arrays and 8 of the map; nB + 1 moves 30 + 8; nU + 1 moves 16)
MC_FitCases == {Dmg(-1, e, 0, <<[i |-> i, k |-> "val", v |-> MC_SizesNoBuf[i].val + d]>>, r, FALSE, f) :
                  i \in 1..5, d \in {-1, 1}, f \in BOOLEAN, e \in {0, 8, 16, 20, 28, 30, 38},
                  r \in {<< >>, <<[r |-> 1, k |-> 1, v |-> 3]>>}}
\* truncation together with a damaged size
MC_TruncSz  == {Dmg(t, 0, 0, <<[i |-> i, k |-> "val", v |-> MC_SizesNoBuf[i].val - 1]>>, << >>, FALSE, TRUE) :
                  i \in 1..3, t \in {MC_Len - 38, MC_Len - 28, MC_Len - 20, MC_Len - 16, MC_Len - 8}}
\* sizes damaged, derived fields and file length made consistent: the loader gets to the validator
MC_Exact    == {[Dmg(-1, 0, 0, <<[i |-> i, k |-> "val", v |-> MC_SizesNoBuf[i].val + d]>>, r, y, f) EXCEPT !.exact = TRUE] :
                  i \in 1..5, d \in {-1, 1, 2}, f \in BOOLEAN, y \in BOOLEAN,
                  r \in {<< >>, <<[r |-> 1, k |-> 1, v |-> 3]>>, <<[r |-> 3, k |-> 2, v |-> 2]>>}}
\* range lengths and extents overwritten with wrapping values, alone and together with a reference entry
MC_WrapCases == {[Dmg(-1, 0, 0, << >>, r, FALSE, FALSE) EXCEPT !.xf = x] :
                   x \in MC_XfMuts, r \in {<< >>, <<[r |-> 2, k |-> 1, v |-> 1]>>}}
                \cup {[Dmg(-1, 0, 0, << >>, r, FALSE, FALSE) EXCEPT !.nf = n] :
                   n \in MC_NfMuts, r \in {<< >>, <<[r |-> 2, k |-> 1, v |-> 1]>>, <<[r |-> 2, k |-> 2, v |-> 2147483647]>>}}
MC_All == MC_LenCases \cup MC_OneCases \cup MC_FitCases \cup MC_TruncSz \cup MC_Exact \cup MC_WrapCases
MC_CaseOf(k) == k
=============================================================================
