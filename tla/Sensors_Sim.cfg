SPECIFICATION Spec
CONSTANTS
  MinBodies = 2
  MaxBodies = 3
  JTypes <- J_All
  Axes <- Ax_All
  Offsets <- V_Small
  Rots <- R_All
  Anchors <- V_Small
  Refs <- I_m11
  Masses <- I_123
  IPoss <- V_Small
  IRots <- R_All
  SitePos <- V_Small
  SiteRots <- R_All
  Zones <- Z_All
  MaxActs = 2
  Gears <- I_m22nz
  Gains <- I_12
  Biases <- Bias_All
  TenCoefs <- I_m11z
  MinSensors = 2
  MaxSensors = 4
  Kinds <- K_All
  ObjTypes <- OT_All
  RefTypes <- OT_All
  Cutoffs <- I_Cut3
  UserDims <- I_12
  Qs <- I_Q
  Vs <- I_m33
  Ctrls <- I_m22
  Times <- T_All
  DisFlags <- D_Rare
  MaxCon = 3
  ConPos <- V_Small
  ConFrc <- I_Frc
  MaxRounds = 2
  Rand = TRUE
INVARIANT TypeOK
INVARIANT LayoutPartition
INVARIANT WrittenExactly
INVARIANT CutoffRespected
INVARIANT CutoffDecidable
INVARIANT FramesProper
INVARIANT FrameRoundTrip
INVARIANT AxesAreUnit
INVARIANT SelfRelativeIsZero
INVARIANT ComIsWeightedMean
INVARIANT LocalVelNorm
INVARIANT TouchNonNegative
INVARIANT ClockIsTime
PROPERTY OnlyOwnSlices
CHECK_DEADLOCK FALSE
