SPECIFICATION Spec
CONSTANTS
  CapMax = 24
  Profiles <- ProfTrace
  MaxSteps = 1
  PairChecked = TRUE
  IslandClears = TRUE
  DualChecked = TRUE
INVARIANT TypeOK
INVARIANT Apart
INVARIANT NoDerefNull
INVARIANT Consistent
INVARIANT WarnIffTruncated
INVARIANT Balanced
INVARIANT Enough
CHECK_DEADLOCK FALSE
