SPECIFICATION Spec
CONSTANTS
  NV = 4
  SelfLoops = TRUE
  Layouts <- AllLayouts
INVARIANT TypeOK
INVARIANT StackFits
INVARIANT Result
INVARIANT Filling
INVARIANT Finished
INVARIANT NoStuck
INVARIANT EmitDone
PROPERTY Terminates
CHECK_DEADLOCK FALSE
