SPECIFICATION Spec
CONSTANTS
  MaxBodies = 4
  MaxGeoms = 6
  PerBody = 2
  MaxPairs = 2
  MaxExcl = 2
  MaxOps = 5
  BodyKinds <- Sim_Kinds
  Radii <- Sim_Radii
  Xs <- Sim_Xs
  Zs <- Sim_Zs
  Masks <- Sim_Masks
  Margins <- Sim_Margins
  PairMargins <- Sim_PairMargins
  Moves <- Sim_Moves
  Toggles <- Sim_Toggles
INVARIANT TypeOK
INVARIANT ContactsAreExpected
INVARIANT BroadComplete
INVARIANT CandidatesNear
INVARIANT NoContactWhenDisabled
INVARIANT NoSelfContact
CHECK_DEADLOCK FALSE
