SPECIFICATION Spec
CONSTANTS
  Suites <- NegSuites
  Bug = "upper"
INVARIANT Denotes
CHECK_DEADLOCK FALSE
