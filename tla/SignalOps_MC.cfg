SPECIFICATION Spec
CONSTANTS
  MaxOps = 3
  MaxObjs = 3
  MaxSeries = 2
  InPlaceDelay = FALSE
  Biases <- SM_Biases
  Gains <- SM_Gains
  Delays <- SM_Delays
  Windows <- SM_Windows
  DWindows <- SM_DWindows
  RsdCfgs <- SM_RsdCfgs
  NearCfgs <- SM_NearCfgs
  GridIds <- SM_GridIds
  Methods <- MC_Methods
  QueryTimes <- SM_Query
  Cuts <- SM_Cuts
INVARIANT TypeOK
INVARIANT Exact
INVARIANT PowerOfTwoSteps
PROPERTY NoWriteToExisting
PROPERTY Purity
PROPERTY ReturnsNew
PROPERTY OnlyNamedColumns
PROPERTY ZeroDelayIsIdentity
PROPERTY ResampleSameTimesIsIdentity
PROPERTY InterpolationBounded
PROPERTY GroupedIsColumnwise
PROPERTY NearDelaysStayApart
PROPERTY WindowExact
PROPERTY WindowErrorIffEmpty
CHECK_DEADLOCK FALSE
