----------------------------- MODULE MjxLattice -----------------------------
\* C43 - the lattice oracle for MJX (mjx/mujoco/mjx/_src/forward.py: forward, step, euler, rungekutta4, implicit,
\* fwd_actuation, _advance, _next_activation; passive.py; derivative.py; sensor.py; io.py: _put_option feature gate)
\* and, at the same time, for the C engine it has to reproduce.
\*
\* Family of systems on which every documented formula is a rational function: a slide joint along +z with body mass
\* m, joint armature, linear spring k (reference 0), linear damper b, gravity g along the axis, a constant applied
\* generalized force f and at most one actuator (affine gain/bias in length and velocity; dynamics none | integrator |
\* filter; ctrlrange, forcerange, actrange, actearly, gear, actuator group).  No constraints.
\* One step is modelled by the phases the implementations run (structure shared with Integrators.tla of C05):
\*     Gate      put_model: accept, or NotImplementedError (integrator "implicit" is outside MJX's feature set)
\*     SetCtrl   the environment writes ctrl and qfrc_applied
\*     Forward   forward dynamics at the trial state: act_dot, actuator force (ctrl clamp, gain, bias, force clamp),
\*               passive force, bias force, qacc, sensors, and D = d(actuator + passive force)/d velocity
\*     Euler | Implicit | RKStage (x3, each followed by Forward again) + RKFinish; all end in the common advance
\*     (activation with actrange clamp, velocity, position with the new velocity, time).
\* `ev` of a completed step carries the parameters, the state before, the inputs and everything both implementations
\* must produce (next state; forward quantities of the first and of the last Forward; sensors) - the replay oracle.
EXTENDS MjxRat, TLC, FiniteSets

CONSTANTS Hs, Gs,                      \* timestep, gravity along the axis (shared by all bodies of a replay model)
          MPs,                         \* set of body parameter records [m, arm, k, b]
          Q0s, V0s, W0s, T0s,          \* initial qpos, qvel, act, time
          Us, Fs,                      \* controls and applied forces the environment may write before a step
          Combos,                      \* set of <<integrator, flag-set name>>: integrators "Euler", "RK4", "implicitfast",
                                       \* "implicit"; flag-set names below (one XLA compilation per pair in the replay)
          Acts,                        \* subset of the preset names below
          MaxSteps,
          Variant,                     \* "doc"; anything else is a deliberately wrong scheme (negative control)
          Bound, BoundRK               \* a step starts only from a state whose numerators/denominators are <= Bound

R(n, d) == Rt(n, d)
\* ---- disable-flag sets (TRUE = feature ENABLED) ------------------------------------------------------------------
FlagDefault == [edamp |-> TRUE, damper |-> TRUE, spring |-> TRUE, actuation |-> TRUE, clamp |-> TRUE, groupon |-> TRUE]
FlagRec(nm) ==
  CASE nm = "default"     -> FlagDefault
    [] nm = "noeulerdamp" -> [FlagDefault EXCEPT !.edamp = FALSE]
    [] nm = "nodamper"    -> [FlagDefault EXCEPT !.damper = FALSE]
    [] nm = "nospring"    -> [FlagDefault EXCEPT !.spring = FALSE]
    [] nm = "noactuation" -> [FlagDefault EXCEPT !.actuation = FALSE]
    [] nm = "noclamp"     -> [FlagDefault EXCEPT !.clamp = FALSE]
    [] nm = "groupoff"    -> [FlagDefault EXCEPT !.groupon = FALSE]      \* the actuators' group is disabled
AllFlagSets == {"default", "noeulerdamp", "nodamper", "nospring", "noactuation", "noclamp", "groupoff"}
FlagOf == [nm \in AllFlagSets |-> FlagRec(nm)]

\* ---- actuator presets (dyn "none" = stateless actuator, "off" = the body has no actuator) --------------------------
NoAct == [name |-> "none", dyn |-> "off", g0 |-> Zero, g1 |-> Zero, g2 |-> Zero, b0 |-> Zero, b1 |-> Zero, b2 |-> Zero,
          tau |-> One, alim |-> FALSE, alo |-> Zero, ahi |-> Zero, clim |-> FALSE, clo |-> Zero, chi |-> Zero,
          flim |-> FALSE, flo |-> Zero, fhi |-> Zero, early |-> FALSE, gear |-> One]
Preset(nm) ==
  CASE nm = "none"      -> NoAct
    [] nm = "motor"     -> [NoAct EXCEPT !.name = nm, !.dyn = "none", !.g0 = One]
    [] nm = "motorcl"   -> [NoAct EXCEPT !.name = nm, !.dyn = "none", !.g0 = RI(2), !.clim = TRUE, !.clo = R(-1, 2), !.chi = One]
    [] nm = "motorfl"   -> [NoAct EXCEPT !.name = nm, !.dyn = "none", !.g0 = RI(2), !.flim = TRUE, !.flo = RI(-1), !.fhi = R(3, 2)]
    [] nm = "servo"     -> [NoAct EXCEPT !.name = nm, !.dyn = "none", !.g0 = RI(2), !.b1 = RI(-2), !.b2 = R(-1, 2)]
    [] nm = "servofl"   -> [NoAct EXCEPT !.name = nm, !.dyn = "none", !.g0 = RI(2), !.b1 = RI(-2), !.b2 = R(-1, 2),
                                         !.flim = TRUE, !.flo = R(-1, 2), !.fhi = R(1, 2)]
    [] nm = "affgain"   -> [NoAct EXCEPT !.name = nm, !.dyn = "none", !.g0 = One, !.g1 = R(1, 2), !.g2 = R(-1, 2), !.b0 = R(1, 2)]
    [] nm = "geared"    -> [NoAct EXCEPT !.name = nm, !.dyn = "none", !.g0 = One, !.b1 = RI(-1), !.b2 = R(-1, 4), !.gear = RI(2)]
    [] nm = "integ"     -> [NoAct EXCEPT !.name = nm, !.dyn = "integrator", !.g0 = RI(2), !.alim = TRUE, !.alo = RI(-1), !.ahi = One]
    [] nm = "intvel"    -> [NoAct EXCEPT !.name = nm, !.dyn = "integrator", !.g0 = One, !.g2 = R(1, 2), !.b2 = RI(-1)]
    [] nm = "filter"    -> [NoAct EXCEPT !.name = nm, !.dyn = "filter", !.g0 = One, !.tau = R(1, 2)]
    [] nm = "filterlim" -> [NoAct EXCEPT !.name = nm, !.dyn = "filter", !.g0 = RI(2), !.tau = R(1, 4),
                                         !.alim = TRUE, !.alo = R(-1, 2), !.ahi = R(1, 2), !.clim = TRUE, !.clo = RI(-1), !.chi = One]
    [] nm = "intearly"  -> [NoAct EXCEPT !.name = nm, !.dyn = "integrator", !.g0 = One, !.b1 = RI(-1), !.early = TRUE,
                                         !.alim = TRUE, !.alo = R(-1, 2), !.ahi = R(3, 4)]
AllPresets == {"none", "motor", "motorcl", "motorfl", "servo", "servofl", "affgain", "geared", "integ", "intvel",
               "filter", "filterlim", "intearly"}
PresetOf == [nm \in AllPresets |-> Preset(nm)]
AP(pp) == PresetOf[pp.act]
FL(pp) == FlagOf[pp.flags]
HasAct(a)   == a.dyn # "off"
HasState(a) == a.dyn \in {"integrator", "filter"}

\* Butcher tableau of the classical 4th-order Runge-Kutta method
RKA == << << >>, <<R(1, 2)>>, <<Zero, R(1, 2)>>, <<Zero, Zero, One>> >>
RKB == IF Variant = "rk38" THEN <<R(1, 8), R(3, 8), R(3, 8), R(1, 8)>> ELSE <<R(1, 6), R(1, 3), R(1, 3), R(1, 6)>>

VARIABLES p,      \* parameters of the system (constant along a behaviour)
          s,      \* committed state [q, v, w, t]
          x,      \* trial state at which Forward is evaluated (= s except inside RK4)
          u, f,   \* ctrl, qfrc_applied
          fw, fw1,\* result of the last Forward / of the first Forward of the step
          pc, stage, ks,
          n,
          ev
vars == <<p, s, x, u, f, fw, fw1, pc, stage, ks, n, ev>>

\* ---- derived quantities --------------------------------------------------------------------------------------------
Gear2(a)  == Sq(a.gear)
MEff(pp)  == pp.meff                                             \* mass + armature (computed once in Init)
Active(pp) == HasAct(AP(pp)) /\ FL(pp).actuation /\ FL(pp).groupon
Ctrl(pp, uu) == LET a == AP(pp) IN IF a.clim /\ FL(pp).clamp THEN Clip(uu, a.clo, a.chi) ELSE uu
\* next activation: explicit Euler on the activation, then the actrange clamp
NextAct(pp, w, wdot) == LET a == AP(pp)
                            y == Add(w, Mul(pp.h, wdot)) IN
                        IF a.alim THEN Clip(y, a.alo, a.ahi) ELSE y

\* forward dynamics at state xx with control uu and applied force ff (no constraints: qacc = M^-1 * sum of forces)
Fwd(pp, xx, uu, ff) ==
  LET a    == AP(pp)
      fl   == FL(pp)
      uc   == Ctrl(pp, uu)
      wdot == IF ~(HasState(a) /\ fl.actuation) THEN Zero
              ELSE IF a.dyn = "integrator" THEN uc ELSE Div(Sub(uc, xx.w), a.tau)
      inp  == IF a.dyn = "none" THEN uc ELSE IF a.early THEN NextAct(pp, xx.w, wdot) ELSE xx.w
      len  == Mul(a.gear, xx.q)
      vel  == Mul(a.gear, xx.v)
      gain == Add3(a.g0, Mul(a.g1, len), Mul(a.g2, vel))
      bias == Add3(a.b0, Mul(a.b1, len), Mul(a.b2, vel))
      raw  == Add(Mul(gain, inp), bias)
      af   == IF ~Active(pp) THEN Zero ELSE IF a.flim THEN Clip(raw, a.flo, a.fhi) ELSE raw
      sat  == a.flim /\ (Le(raw, a.flo) \/ Le(a.fhi, raw))        \* force clamped: no velocity derivative
      qa   == Mul(a.gear, af)
      spr  == IF fl.spring THEN Neg(Mul(pp.k, xx.q)) ELSE Zero
      dmp  == IF fl.damper THEN Neg(Mul(pp.b, xx.v)) ELSE Zero
      grav == Mul(pp.m, pp.g)                                      \* gravity force along the axis (= - qfrc_bias)
      F    == Add(Add4(spr, dmp, ff, qa), grav)
      \* the derivative takes the raw control (both implementations read ctrl without the range clamp)
      dinp == IF a.dyn = "none" THEN uu ELSE inp
      dact == IF Active(pp) /\ ~sat THEN Mul(Gear2(a), Add(a.b2, Mul(a.g2, dinp))) ELSE Zero
      dpas == IF fl.damper THEN Neg(pp.b) ELSE Zero
  IN [wdot |-> wdot, af |-> af, qa |-> qa, pas |-> Add(spr, dmp), bias |-> Neg(grav), F |-> F,
      qacc |-> Div(F, MEff(pp)), D |-> Add(dact, dpas), len |-> len, vel |-> vel]

\* advance: activations, velocity, position (with the given velocity), time
Advance(pp, st, wdot, acc, usenew, posvel) ==
  LET w2 == IF ~(HasState(AP(pp)) /\ FL(pp).actuation) THEN st.w
            ELSE NextAct(pp, st.w, IF FL(pp).groupon THEN wdot ELSE Zero)
      v2 == Add(st.v, Mul(pp.h, acc))
      pv == IF usenew THEN (IF Variant = "explicitpos" THEN st.v ELSE v2) ELSE posvel
  IN [q |-> Add(st.q, Mul(pp.h, pv)), v |-> v2, w |-> w2, t |-> Add(st.t, pp.h)]

EulerImplicitDamping(pp) == FL(pp).edamp /\ FL(pp).damper /\ ~IsZero(pp.b)
EulerDiv(pp)    == IF EulerImplicitDamping(pp) THEN Add(MEff(pp), Mul(pp.h, pp.b)) ELSE MEff(pp)
ImplicitDiv(pp, ff) == Sub(MEff(pp), Mul(pp.h, ff.D))

SmallState(st, B) == SmallR(st.q, B) /\ SmallR(st.v, B) /\ SmallR(st.w, B) /\ SmallR(st.t, B)
Supported(pp) == pp.integ # "implicit"                           \* MJX's feature gate on this family

\* ---- behaviours ------------------------------------------------------------------------------------------------------
Params00 == {[h |-> c.h, g |-> c.g, mp |-> c.mp, integ |-> c.co[1], flags |-> c.co[2], act |-> c.act] :
               c \in [h : Hs, g : Gs, mp : MPs, co : Combos, act : Acts]}
Params0 == {pp \in Params00 :
             \* flag sets that cannot matter are dropped, so that no case is enumerated twice
             /\ (pp.flags = "noeulerdamp" => pp.integ = "Euler" /\ ~IsZero(pp.mp.b))
             /\ (pp.flags = "nodamper" => ~IsZero(pp.mp.b))
             /\ (pp.flags = "nospring" => ~IsZero(pp.mp.k))
             /\ (pp.flags \in {"noactuation", "groupoff"} => HasAct(PresetOf[pp.act]))
             /\ (pp.flags = "noclamp" => PresetOf[pp.act].clim)
             /\ (pp.integ = "implicit" => pp.flags = "default")
             \* bilinear dynamics (velocity-dependent gain times activation) leaves the 32-bit rationals under RK4
             \* and so do the four nested stages on the finer timestep
             /\ (pp.integ = "RK4" => pp.act # "intvel" /\ pp.h = R(1, 4))}
Ext(pp) == [h |-> pp.h, g |-> pp.g, m |-> pp.mp.m, arm |-> pp.mp.arm, k |-> pp.mp.k, b |-> pp.mp.b, integ |-> pp.integ,
            flags |-> pp.flags, act |-> pp.act, meff |-> Add(pp.mp.m, pp.mp.arm)]
Params == {Ext(pp) : pp \in Params0}
NoFw == [wdot |-> Zero, af |-> Zero, qa |-> Zero, pas |-> Zero, bias |-> Zero, F |-> Zero, qacc |-> Zero, D |-> Zero,
         len |-> Zero, vel |-> Zero]

Init == /\ p \in Params
        /\ s \in [q : Q0s, v : V0s, w : W0s, t : T0s]
        /\ (~HasState(AP(p)) => s.w = Zero)
        /\ (AP(p).alim => Le(AP(p).alo, s.w) /\ Le(s.w, AP(p).ahi))
        /\ x = s /\ u = Zero /\ f = Zero /\ fw = NoFw /\ fw1 = NoFw /\ pc = "gate" /\ stage = 0 /\ ks = << >> /\ n = 0
        /\ ev = [op |-> "init"]

\* put_model: accept the model or refuse it with NotImplementedError
Gate ==
  /\ pc = "gate"
  /\ IF Supported(p) THEN pc' = "ctl" /\ ev' = [op |-> "accept"]
                     ELSE pc' = "rejected" /\ ev' = [op |-> "reject", p |-> p, act |-> AP(p), why |-> "NotImplementedError"]
  /\ UNCHANGED <<p, s, x, u, f, fw, fw1, stage, ks, n>>

SetCtrl(uu, ff) ==
  /\ pc = "ctl" /\ n < MaxSteps
  /\ SmallState(s, IF p.integ = "RK4" THEN BoundRK ELSE Bound)
  /\ u' = uu /\ f' = ff /\ x' = s /\ pc' = "fwd" /\ stage' = 1 /\ ks' = << >>
  /\ ev' = [op |-> "ctl"]
  /\ UNCHANGED <<p, s, fw, fw1, n>>

Forward ==
  /\ pc = "fwd"
  /\ fw' = Fwd(p, x, u, f) /\ pc' = "int"
  /\ fw1' = IF stage = 1 THEN fw' ELSE fw1
  /\ ev' = [op |-> "fwd"]
  /\ UNCHANGED <<p, s, x, u, f, stage, ks, n>>

Done(s2, acc) ==
  /\ s' = s2 /\ x' = s2 /\ pc' = "ctl" /\ n' = n + 1 /\ stage' = 0 /\ ks' = << >>
  /\ ev' = [op |-> "step", p |-> p, fl |-> FL(p), act |-> AP(p), pre |-> s, u |-> u, f |-> f, post |-> s2,
            fw1 |-> fw1, fw |-> fw, acc |-> acc, n |-> n + 1,
            \* sensors are evaluated once per step, by the first Forward: jointpos, jointvel, actuatorfrc, jointactuatorfrc
            sens |-> [jpos |-> s.q, jvel |-> s.v, afrc |-> fw1.af, jafrc |-> fw1.qa]]
  /\ UNCHANGED <<p, u, f, fw, fw1>>

Euler ==
  /\ pc = "int" /\ p.integ = "Euler"
  /\ LET acc == Div(fw.F, EulerDiv(p)) IN Done(Advance(p, s, fw.wdot, acc, TRUE, Zero), acc)

Implicit ==
  /\ pc = "int" /\ p.integ = "implicitfast"
  /\ ~IsZero(ImplicitDiv(p, fw))
  /\ LET acc == Div(fw.F, ImplicitDiv(p, fw)) IN Done(Advance(p, s, fw.wdot, acc, TRUE, Zero), acc)

RECURSIVE WSum(_, _, _, _)
WSum(kk, c, k, fld) == IF k = 0 THEN Zero ELSE Add(WSum(kk, c, k - 1, fld), Mul(c[k], kk[k][fld]))

RKStage ==
  /\ pc = "int" /\ p.integ = "RK4" /\ stage < 4
  /\ LET k2 == Append(ks, [dq |-> x.v, dv |-> fw.qacc, dw |-> fw.wdot])
         c  == RKA[stage + 1] IN
     /\ ks' = k2
     /\ x' = [q |-> Add(s.q, Mul(p.h, WSum(k2, c, stage, "dq"))),
              v |-> Add(s.v, Mul(p.h, WSum(k2, c, stage, "dv"))),
              w |-> Add(s.w, Mul(p.h, WSum(k2, c, stage, "dw"))),         \* no actrange clamp inside the stages
              t |-> s.t]
  /\ stage' = stage + 1 /\ pc' = "fwd"
  /\ ev' = [op |-> "rkstage"]
  /\ UNCHANGED <<p, s, u, f, fw, fw1, n>>

RKFinish ==
  /\ pc = "int" /\ p.integ = "RK4" /\ stage = 4
  /\ LET k2 == Append(ks, [dq |-> x.v, dv |-> fw.qacc, dw |-> fw.wdot])
         acc == WSum(k2, RKB, 4, "dv") IN
     Done(Advance(p, s, WSum(k2, RKB, 4, "dw"), acc, FALSE, WSum(k2, RKB, 4, "dq")), acc)

Env == \E uu \in (IF HasAct(AP(p)) THEN Us ELSE {Zero}), ff \in Fs : SetCtrl(uu, ff)
Next == Gate \/ Env \/ Forward \/ Euler \/ Implicit \/ RKStage \/ RKFinish
Spec == Init /\ [][Next]_vars

\* ---- properties ------------------------------------------------------------------------------------------------------
IsStep == ev.op = "step"
TypeOK == /\ pc \in {"gate", "rejected", "ctl", "fwd", "int"} /\ n \in 0..MaxSteps /\ stage \in 0..4 /\ Len(ks) \in 0..3
          /\ \A z \in {s.q, s.v, s.w, s.t, x.q, x.v, x.w} : IsRat(z)
\* the feature gate: a step is only ever taken on a supported model, an unsupported one is refused
GateSound == /\ (IsStep => Supported(ev.p))
             /\ (pc = "rejected" <=> ~Supported(p) /\ ev.op = "reject")
TimeAdvances == IsStep => ev.post.t = Add(ev.pre.t, ev.p.h)
ActInRange == AP(p).alim => Le(AP(p).alo, s.w) /\ Le(s.w, AP(p).ahi)
\* actuator force respects forcerange, the control that reaches the gain respects ctrlrange (when clamping is enabled)
ForceInRange == IsStep /\ ev.act.flim => Le(ev.act.flo, ev.fw1.af) /\ Le(ev.fw1.af, ev.act.fhi)
CtrlClamp == IsStep /\ ev.act.dyn = "none" /\ ev.act.clim /\ ev.fl.clamp /\ Active(ev.p) /\ ~ev.act.flim
               /\ IsZero(ev.act.g1) /\ IsZero(ev.act.g2) =>
               LET lo == Add(Mul(ev.act.g0, ev.act.clo), Add(ev.act.b0, Add(Mul(ev.act.b1, ev.fw1.len), Mul(ev.act.b2, ev.fw1.vel))))
                   hi == Add(Mul(ev.act.g0, ev.act.chi), Add(ev.act.b0, Add(Mul(ev.act.b1, ev.fw1.len), Mul(ev.act.b2, ev.fw1.vel))))
               IN Le(RMin(lo, hi), ev.fw1.af) /\ Le(ev.fw1.af, RMax(lo, hi))
\* nothing actuates when actuation or the group is disabled; a disabled actuation freezes the activation
Disabled == IsStep /\ HasAct(ev.act) /\ (~ev.fl.actuation \/ ~ev.fl.groupon) => IsZero(ev.fw1.af) /\ IsZero(ev.fw1.qa)
ActFrozen == IsStep /\ HasState(ev.act) /\ ~ev.fl.actuation => ev.post.w = ev.pre.w
ActLaw == IsStep /\ ev.p.integ # "RK4" =>
            ev.post.w = (IF ~(HasState(ev.act) /\ ev.fl.actuation) THEN ev.pre.w
                         ELSE IF ~ev.fl.groupon THEN NextAct(ev.p, ev.pre.w, Zero)
                         ELSE NextAct(ev.p, ev.pre.w, ev.fw.wdot))
\* semi-implicit: the position is integrated with the NEW velocity
SemiImplicit == IsStep /\ ev.p.integ # "RK4" => ev.post.q = Add(ev.pre.q, Mul(ev.p.h, ev.post.v))
\* defining equation of the single-step update:  (M - h D)(v' - v) = h F
UpdateEq == IsStep /\ ev.p.integ # "RK4" =>
              LET pp == ev.p
                  DD == IF pp.integ = "Euler" THEN (IF EulerImplicitDamping(pp) THEN Neg(pp.b) ELSE Zero) ELSE ev.fw.D
              IN Mul(Sub(MEff(pp), Mul(pp.h, DD)), Sub(ev.post.v, ev.pre.v)) = Mul(pp.h, ev.fw.F)
\* implicitfast = Euler with implicit damping whenever joint damping is the only velocity-dependent force
NoActVel(pp) == ~Active(pp) \/ (IsZero(AP(pp).b2) /\ IsZero(AP(pp).g2))
ImplicitIsEulerDamp == pc = "int" /\ p.integ = "implicitfast" /\ NoActVel(p) /\ FL(p).damper /\ ~IsZero(p.b) =>
                         ImplicitDiv(p, fw) = EulerDiv([p EXCEPT !.integ = "Euler"])
\* RK4 on a linear system x' = A x + c (no actuator) equals the 4th-order Taylor polynomial of the exact flow
RK4Taylor == IsStep /\ ev.p.integ = "RK4" /\ ~HasAct(ev.act) =>
  LET pp == ev.p
      kq == IF ev.fl.spring THEN Neg(pp.k) ELSE Zero                                   \* dF/dq
      kv == IF ev.fl.damper THEN Neg(pp.b) ELSE Zero                                   \* dF/dv
      c0 == Add(ev.f, Mul(pp.m, pp.g))
      M  == MEff(pp)
      A2(dq, dv) == Div(Add(Mul(kq, dq), Mul(kv, dv)), M)
      d1q == ev.pre.v
      d1v == Div(Add3(Mul(kq, ev.pre.q), Mul(kv, ev.pre.v), c0), M)
      d2q == d1v      d2v == A2(d1q, d1v)
      d3q == d2v      d3v == A2(d2q, d2v)
      d4q == d3v      d4v == A2(d3q, d3v)
      h  == pp.h
      T(x0, e1, e2, e3, e4) == Add(x0, Add4(Mul(h, e1), Mul(Mul(Sq(h), R(1, 2)), e2), Mul(Mul3(h, h, h), Mul(R(1, 6), e3)),
                                            Mul(Mul(Sq(h), Sq(h)), Mul(R(1, 24), e4))))
  IN ev.post.q = T(ev.pre.q, d1q, d2q, d3q, d4q) /\ ev.post.v = T(ev.pre.v, d1v, d2v, d3v, d4v)
\* RK4 integrates a constant acceleration exactly
RK4ConstAcc == IsStep /\ ev.p.integ = "RK4" /\ ~HasAct(ev.act) /\ IsZero(ev.p.k) /\ IsZero(ev.p.b) =>
                 LET a0 == Div(Add(ev.f, Mul(ev.p.m, ev.p.g)), MEff(ev.p)) h == ev.p.h IN
                 /\ ev.post.v = Add(ev.pre.v, Mul(h, a0))
                 /\ ev.post.q = Add3(ev.pre.q, Mul(h, ev.pre.v), Mul(Mul(Sq(h), R(1, 2)), a0))
\* free fall: without spring, damper, actuator and applied force every integrator gives v' = v + h g m/(m+arm)
FreeFall == IsStep /\ ~HasAct(ev.act) /\ IsZero(ev.p.k) /\ IsZero(ev.p.b) /\ IsZero(ev.f) =>
              ev.post.v = Add(ev.pre.v, Mul(ev.p.h, Div(Mul(ev.p.m, ev.p.g), MEff(ev.p))))
\* a pure damper never reverses or amplifies the velocity under the single-step integrators with implicit damping
DamperContracts == IsStep /\ ev.p.integ # "RK4" /\ ~HasAct(ev.act) /\ IsZero(ev.p.k) /\ IsZero(ev.f) /\ IsZero(ev.p.g)
                     /\ ev.fl.damper /\ ev.fl.edamp =>
                     Le(RAbs(ev.post.v), RAbs(ev.pre.v)) /\ ~Lt(Mul(ev.post.v, ev.pre.v), Zero)

ViewNoEv == <<p, s, x, u, f, fw, fw1, pc, stage, ks, n>>
\* ---- constants of the configurations (cfg files cannot hold tuples) -----------------------------------------------------
MP(m, a, k, b) == [m |-> m, arm |-> a, k |-> k, b |-> b]
L_H4 == {R(1, 4)}                 L_H == {R(1, 4), R(1, 8)}
L_G1 == {RI(-1)}                  L_G == {RI(-1), R(1, 2)}
L_MP2 == {MP(One, Zero, RI(2), One), MP(RI(2), RI(2), Zero, Zero)}
L_MP4 == {MP(One, Zero, RI(2), One), MP(RI(2), RI(2), Zero, Zero), MP(One, One, R(1, 2), RI(4)), MP(R(1, 2), Zero, Zero, RI(2))}
L_Q1 == {R(1, 2)}                 L_Q2 == {R(1, 2), RI(-1)}         L_Q == Qs(-2..2, 2)
L_V2 == {R(-1, 2), One}           L_V == Qs(-2..2, 2)
L_W2 == {Zero, R(1, 2)}           L_W == {R(-1, 2), Zero, R(1, 2)}
L_T0 == {Zero}                    L_T == {Zero, R(5, 8)}
L_U2 == {RI(-2), R(1, 2)}         L_U == {RI(-2), R(1, 2), RI(2)}    L_UX == {RI(-2), RI(-1), Zero, R(1, 2), One, RI(2)}
L_F1 == {One}                     L_F2 == {Zero, One}               L_F == {RI(-1), Zero, R(1, 2)}
L_CombosQ == {<<"Euler", "default">>, <<"Euler", "noeulerdamp">>, <<"Euler", "nodamper">>, <<"Euler", "noactuation">>,
              <<"Euler", "groupoff">>, <<"implicitfast", "default">>, <<"implicitfast", "nodamper">>,
              <<"RK4", "default">>, <<"implicit", "default">>}
L_CombosAll == ({"Euler", "RK4", "implicitfast"} \X AllFlagSets) \cup {<<"implicit", "default">>}
L_CombosNeg == {<<"Euler", "default">>, <<"RK4", "default">>}
L_ActsAll == AllPresets
L_ActsNeg == {"none", "motor"}
=============================================================================
