SPECIFICATION TSpec
CONSTANTS
  MaxEq = 0
  MaxFr = 0
  MaxLim = 0
  MaxCon = 0
  Dims <- NoDims
INVARIANT TypeOK
INVARIANT BlocksOK
INVARIANT DoneOK
CONSTRAINT Track
POSTCONDITION Report
CHECK_DEADLOCK FALSE
