SPECIFICATION Spec
CONSTANTS
  NS = 2
  NM = 2
  MaxOps = 3
  Bases <- BothBases
  Edits <- TwoEdits
  MaxEdits = 2
  InitThr <- BOOLEAN
  Ops <- NoCacheOps
INVARIANT TypeOK
INVARIANT ClassesAreContents
INVARIANT LastIsOwn
INVARIANT DataMatchesModel
INVARIANT CacheStateIrrelevant
PROPERTY CacheOpsArePure
PROPERTY CopyKeepsContent
PROPERTY ThreadsKeepContent
PROPERTY CopyModelSameClass
PROPERTY StatePreserved
PROPERTY DataOnlyByDataOps
CHECK_DEADLOCK FALSE
