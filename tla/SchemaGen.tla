------------------------------ MODULE SchemaGen ------------------------------
\* What the schema generators (doc/generate/generate_xsd.py, generate_mjcf_table.py, generate_mjcf_map.py,
\* generate_dmcontrol.py) must emit for a valid schema rooted at element `mujoco`.
\*
\* The abstract syntax, the validity rules and the valid-preserving Grow actions are those of SchemaLang.tla
\* (EXTENDS); this module adds one variable, gen = Gen(sch): for every generator the structure its output must
\* denote once parsed back --
\*    xsd   : keyword types (one per enum, kwlist_ for flags targets) and the set of complexTypes reachable from
\*            mujoco, each with its child elements (tag, type) and its attributes (name, type descriptor, use,
\*            default); `projected` types (inside <default>) drop name/class/nodefault attributes
\*    table : the MJCF[] rows in emission order with "<" / ">" markers; each row = xml name, cardinality,
\*            attribute names, presence constraints that survive in the row
\*    map   : per enum the (keyword, constant) pairs in order
\*    dm    : dm_control's element tree with attribute type / array size / keywords / required / default
\* The documented special cases are modelled: mujoco's child body is spelled worldbody (xsd, dm_control), alias
\* elements have no table rows, self-children are implied by cardinality R (table) / recursive="true" (dm), the
\* top-level default is emitted with a nested recursive copy (dm), default_* children are not projected, plugin
\* is not settable per class, the frozen dm_control surface (EXCLUDED_ELEMENTS / EXCLUDED_CHILDREN).
\* Overlay facts that are not in the schema (dm_control's repeated / on_demand / namespace / conflict flags,
\* documentation strings) are outside the projection.
EXTENDS SchemaLang

VARIABLE gen
gvars == <<sch, phase, ngrow, ev, broken, obs, aux, focus, gen>>

NREF == 2                                     \* include/mujoco/mjmodel.h: #define mjNREF 2 (checked by the harness)
DefaultPrefixed == {"default_x", "default_y"} \* the names that start with "default_"
Excluded == {"pid", "dcmotor", "replicate", "frame", "attach", "model", "sensor_contact"}
ExcludedChildren == {<<"worldbody", "plugin">>}

EIdx(s, n) == CHOOSE i \in DOMAIN s : s[i].k = "element" /\ s[i].name = n     \* names are unique in a valid schema
FacVal(fs, n) == fs[CHOOSE x \in DOMAIN fs : fs[x].f = n].s
HasF(fs, n) == \E x \in DOMAIN fs : fs[x].f = n
XmlName(s, i) == IF HasF(s[i].fac, "xml") THEN FacVal(s[i].fac, "xml") ELSE s[i].name
Kids(s, i) == SubSeqBy(s[i].mem, MemIdx(s, i, "child"))          \* child members in order
SeqMap(q, Op(_)) == [x \in DOMAIN q |-> Op(q[x])]
SeqFilter(q, P(_)) == LET RECURSIVE G(_) G(x) == IF x > Len(q) THEN << >> ELSE (IF P(q[x]) THEN <<q[x]>> ELSE << >>) \o G(x + 1)
                      IN G(1)
RECURSIVE Flatten(_)
Flatten(qq) == IF qq = << >> THEN << >> ELSE Head(qq) \o Flatten(Tail(qq))

Projected(q) == SeqFilter(q, LAMBDA a : a.name \notin {"name", "class"} /\ ~HasFac(a, "nodefault"))
RowAttrs(s, i, proj) == IF proj THEN Projected(Exp(s, i)) ELSE Exp(s, i)
HiRes(ar) == IF HiK(ar) = "sym" THEN NREF ELSE Hi(ar)             \* symbolic bounds resolve through mjmodel.h
BoundK(ar) == IF HiK(ar) = "inf" THEN "inf" ELSE "int"
ChildProj(s, i, proj, cname) == proj \/ (s[i].name = "default" /\ cname \notin DefaultPrefixed /\ cname # "default")

\* ---- XSD ---------------------------------------------------------------------------------------------
XsBase(t) == IF t = "int" THEN "xs:int" ELSE IF t = "double" THEN "xs:double" ELSE IF t = "float" THEN "xs:float"
             ELSE "xs:string"
FacNum(a, n) == IF HasFac(a, n) THEN <<"some", FacOf(a, n).v>> ELSE <<"none", 0>>
XType(a) ==
  IF a.type = "bool" THEN <<"kw", "bool">>
  ELSE IF a.type = "enum" THEN <<"kw", a.target>>
  ELSE IF a.type = "flags" THEN <<"kwlist", a.target>>
  ELSE IF a.type \in {"string", "file", "ref", "id"} THEN <<"base", "xs:string">>
  ELSE IF a.type = "chars" THEN (IF HasFac(a, "pattern") THEN <<"chars", "pattern", FacOf(a, "pattern").s, 0, 0>>
                                 ELSE <<"chars", "len", "", Lo(a.ar), Hi(a.ar)>>)
  ELSE IF IsScalar(a.ar) THEN
         (IF HasFac(a, "min") \/ HasFac(a, "max") \/ HasFac(a, "positive")
          THEN <<"restr", XsBase(a.type), FacNum(a, "min"), FacNum(a, "max"), HasFac(a, "positive")>>
          ELSE <<"base", XsBase(a.type)>>)
  ELSE <<"list", XsBase(a.type), Lo(a.ar), BoundK(a.ar), HiRes(a.ar)>>
XAttr(a) == <<a.name, XType(a), HasFac(a, "required"), DefObs(a.def)>>
XKid(s, i, proj, c) ==
  IF s[i].name = "mujoco" /\ c.name = "body" THEN <<"worldbody", "worldbody", ChildProj(s, i, proj, c.name)>>
  ELSE <<XmlName(s, EIdx(s, c.name)), c.name, ChildProj(s, i, proj, c.name)>>           \* <<tag, type element, projected>>
XKids(s, i, proj) == SeqMap(SeqFilter(Kids(s, i), LAMBDA c : ~(proj /\ c.name = "plugin")), LAMBDA c : XKid(s, i, proj, c))
RECURSIVE XReach(_, _, _)
XReach(s, TT, fuel) ==
  LET nxt == TT \cup UNION {{<<k[2], k[3]>> : k \in SeqRange(XKids(s, EIdx(s, t[1]), t[2]))} : t \in TT}
  IN IF nxt = TT \/ fuel = 0 THEN TT ELSE XReach(s, nxt, fuel - 1)
FlagsTargets(s) == UNION {{a.target : a \in {b \in SeqRange(Exp(s, i)) : b.type = "flags"}} : i \in ElemIdx(s)}
GenXsd(s) ==
  [kw    |-> SeqMap(SubSeqBy(s, EnumIdx(s)), LAMBDA d : <<d.name, SeqMap(d.items, LAMBDA it : it.key), d.name \in FlagsTargets(s)>>),
   types |-> {<<t[1], t[2], XKids(s, EIdx(s, t[1]), t[2]), SeqMap(RowAttrs(s, EIdx(s, t[1]), t[2]), XAttr)>>
                : t \in XReach(s, {<<"mujoco", FALSE>>}, Len(s) * 2)}]

\* ---- MJCF[] table --------------------------------------------------------------------------------------
KindChar(v) == IF v = "exclusive" THEN "e" ELSE IF v = "together" THEN "t" ELSE IF v = "requires" THEN "r" ELSE "o"
GroupsOf(s, i) == Reach(s, i) \cap NamesAt(s, GroupIdx(s))                    \* transitively used groups
ConsOf(s, i) == {s[i].mem[j] : j \in MemIdx(s, i, "con")}
AllCons(s, i) == ConsOf(s, i) \cup UNION {ConsOf(s, FirstIdx(s, GroupIdx(s), g)) : g \in GroupsOf(s, i)}
RowCons(s, i, names) == {<<KindChar(c.name), c.bundles>> : c \in {d \in AllCons(s, i) : ConNames(d) \subseteq names}}
TKidOK(s, i, proj, c) == c.name # s[i].name /\ ~HasF(s[EIdx(s, c.name)].fac, "alias") /\ ~(proj /\ c.name = "plugin")
TChildProj(s, i, proj, cname) == proj \/ (s[i].name = "default" /\ cname \notin DefaultPrefixed)
RECURSIVE TRows(_, _, _, _, _)
TRowsK(s, i, card, proj, fuel, names, kids) ==        \* names, kids: values (bound by the caller)
  <<<<"row", XmlName(s, i), card, names, RowCons(s, i, SeqRange(names))>>>>
     \o (IF kids = << >> \/ fuel = 0 THEN << >>
         ELSE <<<<"<">>>> \o Flatten(SeqMap(kids, LAMBDA c : TRows(s, EIdx(s, c.name), c.card, TChildProj(s, i, proj, c.name), fuel - 1)))
              \o <<<<">">>>>)
TRows(s, i, card, proj, fuel) ==
  CHOOSE r \in {TRowsK(s, i, card, proj, fuel, names, kids) :
                  names \in {SeqMap(RowAttrs(s, i, proj), LAMBDA a : a.name)},
                  kids \in {SeqFilter(Kids(s, i), LAMBDA c : TKidOK(s, i, proj, c))}} : TRUE
GenTable(s) == TRows(s, EIdx(s, "mujoco"), "!", FALSE, Len(s))

\* ---- keyword maps --------------------------------------------------------------------------------------
GenMap(s) == SeqMap(SubSeqBy(s, EnumIdx(s)), LAMBDA d : <<d.name, SeqMap(d.items, LAMBDA it : <<it.key, it.val>>)>>)

\* ---- dm_control ----------------------------------------------------------------------------------------
DType(s, a) ==
  IF a.type = "file" THEN <<"file">>
  ELSE IF a.type = "enum" THEN <<"keyword", SeqMap(s[FirstIdx(s, EnumIdx(s), a.target)].items, LAMBDA it : it.key)>>
  ELSE IF a.type = "bool" THEN <<"keyword", <<"false", "true">>>>
  ELSE IF a.type = "id" THEN <<"identifier">>
  ELSE IF a.type = "ref" THEN <<"reference", a.target>>
  ELSE IF a.type \in {"string", "chars", "flags"} THEN <<"string">>
  ELSE IF IsScalar(a.ar) THEN <<IF a.type = "int" THEN "int" ELSE "float">>
  ELSE <<"array", IF a.type = "int" THEN "int" ELSE "float", BoundK(a.ar), HiRes(a.ar)>>
DAttr(s, a) == <<a.name, DType(s, a), HasFac(a, "required"), DefObs(a.def)>>
SelfRec(s, i) == \E c \in SeqRange(Kids(s, i)) : c.name = s[i].name
\* children of node i (parent = name of the enclosing element): sequence of <<element index, tag, projected>>
DKid(s, i, proj, c) ==
  IF s[i].name = "mujoco" /\ c.name = "body" THEN <<EIdx(s, "worldbody"), "worldbody", ChildProj(s, i, proj, c.name)>>
  ELSE <<EIdx(s, c.name), XmlName(s, EIdx(s, c.name)), ChildProj(s, i, proj, c.name)>>
DKidOK(s, i, proj, top, c) ==
  IF c.name = s[i].name THEN top
  ELSE LET k == DKid(s, i, proj, c) IN
       /\ s[k[1]].name \notin Excluded /\ <<s[i].name, s[k[1]].name>> \notin ExcludedChildren
       /\ ~(proj /\ c.name = "plugin")
RECURSIVE DNode(_, _, _, _, _, _)
DNode(s, i, tag, proj, parent, fuel) ==
  LET top == s[i].name = "default" /\ parent = "mujoco" IN
  <<"node", tag, SelfRec(s, i) /\ ~top,
    SeqMap(RowAttrs(s, i, proj), LAMBDA a : DAttr(s, a)),
    IF fuel = 0 THEN << >>
    ELSE SeqMap(SeqFilter(Kids(s, i), LAMBDA c : DKidOK(s, i, proj, top, c)),
                LAMBDA c : IF c.name = s[i].name THEN DNode(s, i, tag, proj, s[i].name, fuel - 1)
                           ELSE DNode(s, DKid(s, i, proj, c)[1], DKid(s, i, proj, c)[2], DKid(s, i, proj, c)[3],
                                      s[i].name, fuel - 1))>>
GenDm(s) == DNode(s, EIdx(s, "mujoco"), "mujoco", FALSE, "", Len(s) + 2)

Gen(s) == [xsd |-> GenXsd(s), table |-> GenTable(s), map |-> GenMap(s), dm |-> GenDm(s)]

\* ------------------------------------------------------------------------------------------------
\* what the generators presuppose beyond validity (they raise otherwise; documented in their sources)
\* ------------------------------------------------------------------------------------------------
ChildNames(s, i) == {c.name : c \in SeqRange(Kids(s, i))}
RECURSIVE Desc(_, _, _)
Desc(s, N, fuel) == LET nxt == N \cup UNION {ChildNames(s, EIdx(s, n)) : n \in N} IN
                    IF nxt = N \/ fuel = 0 THEN N ELSE Desc(s, nxt, fuel - 1)
Below(s, n) == Desc(s, ChildNames(s, EIdx(s, n)) \ {n}, Len(s))      \* proper descendants, ignoring the self loop
GenOK(s) ==
  /\ "mujoco" \in NamesAt(s, ElemIdx(s))
  /\ \A i \in ElemIdx(s) : ChildNames(s, i) \subseteq NamesAt(s, ElemIdx(s)) \ {"mujoco"}
  /\ \A i \in ElemIdx(s) : s[i].name \notin Below(s, s[i].name)              \* only self recursion
  /\ ("body" \in ChildNames(s, EIdx(s, "mujoco"))) => "worldbody" \in NamesAt(s, ElemIdx(s))
  /\ NamesAt(s, ElemIdx(s)) \subseteq {"mujoco"} \cup Below(s, "mujoco")
                 \cup (IF "body" \in ChildNames(s, EIdx(s, "mujoco")) THEN {"worldbody"} \cup Below(s, "worldbody") ELSE {})
  /\ \A i \in ElemIdx(s) : \A a \in SeqRange(Exp(s, i)) :
        ~IsScalar(a.ar) => ~(HasFac(a, "min") \/ HasFac(a, "max") \/ HasFac(a, "positive"))

\* ------------------------------------------------------------------------------------------------
\* seeds rooted at mujoco
\* ------------------------------------------------------------------------------------------------
GSeed == [
  tiny |-> <<ElemD("mujoco", "", << >>, <<Attr("model", T("string", "", ArNone, DStr("m"), << >>))>>)>>,
  full |-> <<
    EnumD("e1", "mjtE", <<Item("k1", "id", "C1", "id"), Item("k2", "id", "C2", "id"), Item("2d", "str", "3", "num")>>),
    EnumD("onoff", "", <<Item("off", "id", "0", "num"), Item("on", "id", "1", "num")>>),
    GroupD("g1", TRUE, <<Attr("quat", T("double", "", ArEx(4), DVec(4), << >>)), Attr("euler", GoodT.rng03)>>),
    GroupD("g2", FALSE, <<Attr("pos", GoodT.vec3), Use("g1"), Attr("sz", GoodT.sym),
                          Con("together", <<<<"pos">>, <<"sz">>>>)>>),
    \* every attribute type also INSIDE groups: gA is reached through one `use` (plugin) and through two (zone -> gB -> gA);
    \* enum onoff has a flags attribute ONLY here (no element declares one directly)
    GroupD("gA", FALSE, <<Attr("ga_en", T("enum", "onoff", ArNone, DId("on"), << >>)),
                          Attr("ga_fl", T("flags", "onoff", ArNone, DNone, << >>)),
                          Attr("ga_ref", T("ref", "body", ArNone, DNone, << >>)), Attr("ga_id", T("id", "plug", ArNone, DNone, << >>)),
                          Attr("ga_v", GoodT.vec3), Attr("ga_u", GoodT.unb), Attr("ga_r", GoodT.rng13), Attr("ga_y", GoodT.sym),
                          Attr("ga_s", GoodT.str), Attr("ga_b", GoodT.bool), Attr("ga_c", GoodT.chars), Attr("ga_cr", GoodT.charsr),
                          Attr("ga_f", GoodT.file), Attr("ga_mm", GoodT.minmax), Attr("ga_p", GoodT.pos), Attr("ga_nd", GoodT.nodef),
                          Con("exclusive", <<<<"ga_v">>, <<"ga_u", "ga_nd">>>>)>>),
    GroupD("gB", FALSE, <<Attr("gb_i", GoodT.int), Use("gA")>>),
    ElemD("mujoco", "", << >>, <<Attr("model", T("string", "", ArNone, DStr("m"), << >>)),
                                 Child("body", "!"), Child("default", "?"), Child("zone", "*")>>),
    ElemD("body", "mjsBody", << >>, <<Attr("name", T("id", "body", ArNone, DNone, << >>)),
                                     Attr("childclass", T("ref", "default", ArNone, DNone, << >>)), Use("g2"),
                                     Child("body", "R"), Child("geom", "*"), Child("frame2", "*")>>),
    ElemD("worldbody", "", <<FId("alias", "body")>>, <<Child("geom", "*"), Child("body", "R")>>),
    ElemD("frame2", "", <<FId("alias", "body"), FId("xml", "fr")>>, <<Attr("name", T("id", "frame", ArNone, DNone, << >>))>>),
    ElemD("geom", "mjsGeom", << >>,
          <<Attr("name", T("id", "geom", ArNone, DNone, << >>)), Attr("class", T("ref", "default", ArNone, DNone, << >>)),
            Attr("type", GoodT.enum), Attr("nd", GoodT.nodef), Attr("fl", GoodT.flags), Attr("f", GoodT.file),
            Attr("cs", GoodT.chars), Attr("cr", GoodT.charsr), Attr("mm", GoodT.minmax), Attr("ps", GoodT.pos),
            Attr("on", T("enum", "onoff", ArNone, DId("on"), << >>)), Attr("b", GoodT.bool), Attr("u", GoodT.unb),
            Attr("target", T("ref", "body", ArNone, DNone, << >>)), Use("g1"),
            Con("exclusive", <<<<"type", "nd">>, <<"mm">>>>), Con("requires", <<<<"name">>, <<"mm">>>>),
            SetC("type", "C1")>>),
    ElemD("default", "", << >>, <<Attr("class", T("id", "default", ArNone, DNone, << >>)),
                                  Child("default", "R"), Child("geom", "?"), Child("default_x", "?"), Child("zone", "?")>>),
    ElemD("default_x", "", <<FId("xml", "x")>>, <<Attr("name", T("string", "", ArNone, DNone, << >>)), Attr("k", GoodT.nodef)>>),
    ElemD("zone", "mjsZ", <<FStr("xml", "area")>>, <<Attr("name", T("id", "zone", ArNone, DNone, << >>)), Attr("r", GoodT.rng13),
                                                      Attr("w", GoodT.nodef), Use("gB"), Child("plugin", "*"), Child("zone", "R")>>),
    ElemD("plugin", "", << >>, <<Attr("plugin", GoodT.strreq), Attr("inst", T("ref", "zone", ArNone, DNone, << >>)), Use("gA")>>) >>
]

\* ------------------------------------------------------------------------------------------------
\* state machine: the Grow actions of SchemaLang that keep GenOK, plus "new element under a parent"
\* ------------------------------------------------------------------------------------------------
GInit == /\ sch \in {GSeed[x] : x \in SeedIds}
         /\ phase = "grow" /\ ngrow = 0 /\ aux = NoAux /\ focus = NoFocus
         /\ broken = Broken(sch) /\ obs = ObsB(sch, broken)
         /\ ev = [op |-> "init", rule |-> "none", kind |-> "", verdict |-> Verdict(broken)]
         /\ gen = Gen(sch)

GAddElemUnder(p, n, c, fs, tid) ==
  /\ On("g_elem") /\ p \in ElemIdx(sch) /\ n \notin NamesAt(sch, ElemIdx(sch)) /\ NeedsOK(sch, GoodT[tid])
  /\ \A x \in DOMAIN fs : fs[x].f = "alias" => fs[x].s \in NamesAt(sch, ElemIdx(sch))
  /\ Grow(Append(AddMem(sch, p, Child(n, c)), ElemD(n, IF fs = << >> THEN "" ELSE "mjsZ", fs, <<Attr("za", GoodT[tid])>>)))
GAddKid(i, e, c) ==           \* a further context for an existing element: no new cycle
  /\ On("g_child") /\ i \in ElemIdx(sch) /\ e \in ElemIdx(sch)
  /\ i # e => sch[i].name \notin ({sch[e].name} \cup Below(sch, sch[e].name))
  /\ <<sch[i].name, sch[e].name>> # <<"mujoco", "body">> /\ sch[e].name # "mujoco"       \* the root is nobody's child
  /\ GAddChild(i, e, c)

GNextCore ==
  /\ phase = "grow" /\ ngrow < MaxGrow
  /\ \/ On("g_attr") /\ \E i \in DOMAIN sch, tid \in GrowT, n \in GrowNames : At(i) /\ GAddAttr(i, tid, n)
     \/ On("g_use") /\ \E i \in DOMAIN sch, g \in DOMAIN sch : GAddUse(i, g)
     \/ \E i \in DOMAIN sch, e \in DOMAIN sch, c \in {"?", "R", "*"} : GAddKid(i, e, c)
     \/ On("g_set") /\ \E i \in DOMAIN sch : GAddSet(i)
     \/ On("g_con") /\ \E i \in DOMAIN sch, v \in Verbs, sh \in {"ab", "a+b,c", "c,a,b"} : GAddCon(i, v, sh)
     \/ On("g_enum") /\ \E n \in DeclNames : GAddEnum(n)
     \/ On("g_item") /\ \E i \in DOMAIN sch, it \in NewItems : GAddItem(i, it)
     \/ On("g_group") /\ \E n \in DeclNames, var \in BOOLEAN, tid \in GrowT, an \in GrowNames : GAddGroup(n, var, tid, an)
     \/ \E p \in DOMAIN sch, n \in DeclNames, c \in {"*", "!"}, fs \in ElemFacetChoices, tid \in {"int", "vec3", "id"} :
           GAddElemUnder(p, n, c, fs, tid)
GPick == \E c \in GrowClasses, i \in 0..Len(sch) : Pick(c, i)
GNext == (GNextCore /\ GenOK(sch') /\ gen' = Gen(sch')) \/ (GPick /\ UNCHANGED gen)
GSpec == GInit /\ [][GNext]_gvars

\* ------------------------------------------------------------------------------------------------
\* properties
\* ------------------------------------------------------------------------------------------------
GenTypeOK == broken = {} /\ GenOK(sch)
GenIsGen  == gen = Gen(sch)        \* (costly: recomputes every output; thorough tier only)
\* every element and every expanded attribute appears: each element has a complexType (projected when it is
\* only reachable inside <default>) that lists exactly its (projected) expanded attributes, in order
XsdComplete ==
  \A i \in ElemIdx(sch) :
    /\ \E t \in gen.xsd.types : t[1] = sch[i].name
    /\ \A t \in gen.xsd.types : t[1] = sch[i].name =>
          SeqMap(t[4], LAMBDA x : x[1]) = SeqMap(RowAttrs(sch, i, t[2]), LAMBDA a : a.name)
\* nothing absent from the schema is emitted: every emitted type / row / node names a declared element and
\* carries only attributes of its expansion
NothingAlien ==
  /\ \A t \in gen.xsd.types : t[1] \in NamesAt(sch, ElemIdx(sch))
                              /\ SeqRange(SeqMap(t[4], LAMBDA x : x[1])) \subseteq ExpNames(sch, EIdx(sch, t[1]))
  /\ \A x \in DOMAIN gen.table : gen.table[x][1] = "row" =>
        \E i \in ElemIdx(sch) : XmlName(sch, i) = gen.table[x][2] /\ SeqRange(gen.table[x][4]) \subseteq ExpNames(sch, i)
  /\ Len(gen.map) = Cardinality(EnumIdx(sch))
\* projection only removes: a projected type's attributes are attributes of the element's expansion, without
\* name / class
ProjectionSound ==
  \A t \in gen.xsd.types : t[2] =>
     /\ \A x \in DOMAIN t[4] : t[4][x][1] \notin {"name", "class"}
     /\ SeqRange(t[4]) \subseteq SeqRange(SeqMap(Exp(sch, EIdx(sch, t[1])), XAttr))
\* closure: everything the XSD refers to is declared in it -- every keyword / keyword-list type an attribute uses
\* has its simpleType (kwlist_<enum> exists exactly for the enums some EXPANDED attribute uses as flags<>), and
\* every child element's type is an emitted complexType
GenClosed ==
  /\ \A t \in gen.xsd.types :
       /\ \A x \in DOMAIN t[4] : LET ty == t[4][x][2] IN
             /\ (ty[1] = "kw" /\ ty[2] # "bool") => \E k \in DOMAIN gen.xsd.kw : gen.xsd.kw[k][1] = ty[2]
             /\ ty[1] = "kwlist" => \E k \in DOMAIN gen.xsd.kw : gen.xsd.kw[k][1] = ty[2] /\ gen.xsd.kw[k][3]
       /\ \A x \in DOMAIN t[3] : \E u \in gen.xsd.types : u[1] = t[3][x][2] /\ u[2] = t[3][x][3]
  /\ \A x \in DOMAIN gen.table : gen.table[x][1] = "row" =>
        \A c \in gen.table[x][5] : ConNames([bundles |-> c[2]]) \subseteq SeqRange(gen.table[x][4])
\* a flags<> attribute that reaches an element only through `use` (needed by the closure check to be non-vacuous)
FlagsOnlyViaGroup(s) ==
  \E i \in ElemIdx(s) : \E a \in SeqRange(Exp(s, i)) :
     a.type = "flags" /\ \A j \in ElemIdx(s) : \A k \in MemIdx(s, j, "attr") :
                            ~(s[j].mem[k].type = "flags" /\ s[j].mem[k].target = a.target)
\* the table's markers are balanced and the first entry is the mujoco row
TableBalanced ==
  LET RECURSIVE Depth(_) Depth(x) == IF x = 0 THEN 0 ELSE Depth(x - 1) + (IF gen.table[x][1] = "<" THEN 1
                                                              ELSE IF gen.table[x][1] = ">" THEN -1 ELSE 0)
  IN /\ gen.table[1][1] = "row" /\ gen.table[1][2] = "mujoco" /\ gen.table[1][3] = "!"
     /\ Depth(Len(gen.table)) = 0 /\ \A x \in DOMAIN gen.table : Depth(x) >= 0
\* Grow only adds to the outputs
GenMonotone == [][(ev'.op = "grow" /\ sch' # sch) =>
                    /\ Len(gen'.table) >= Len(gen.table)
                    /\ {<<t[1], t[2]>> : t \in gen.xsd.types} \subseteq {<<t[1], t[2]>> : t \in gen'.xsd.types}
                    /\ Len(gen'.map) >= Len(gen.map)]_gvars

GSeedsAll  == {"tiny", "full"}
GSeedFull  == {"full"}
GNames     == {"p", "name"}
GDecl      == {"q", "plugin", "default_y"}
GFewT      == {"int", "vec3", "str", "enum", "nodef", "sym", "unb", "minmax", "flags", "charsr", "bool", "pos", "rng13", "file"}
GQuickT    == {"vec3", "enum", "nodef", "flags"}
GNameP     == {"p"}
GTinyT     == {"vec3", "nodef"}
GDeclQ     == {"q", "plugin"}
=============================================================================
