SPECIFICATION Spec
CONSTANTS
  MaxGrow = 0
  SeedIds <- AllSeeds
  GrowT <- FewT
  GrowNames <- NamesAP
  DeclNames <- DNamesQ
  Mutate = TRUE
  MutFrom = 0
  Focused = FALSE
  PumpSizes <- PumpBig
  NoisePos <- Pos8
INVARIANT TypeOK
INVARIANT GrowValid
INVARIANT MutantBroken
INVARIANT MutantSingle
INVARIANT AcceptedSound
PROPERTY GrowMonotone
PROPERTY AuxKeeps
CHECK_DEADLOCK FALSE
