SPECIFICATION Spec
CONSTANTS
  MinBodies = 1
  MaxBodies = 2
  JTypes <- AllJ
  Axes <- Ax3
  Offsets <- K_Off1
  Rots <- R0
  Anchors <- K_Anc2
  SitePos <- K_Site1
  SiteRots <- K_SRot1
  Masses <- One1
  Inertias <- K_Inr1
  IPoss <- K_IPos2
  Arms <- One0
  Stiffs <- One0
  Refs <- One0
  Damps <- One0
  GCs <- One0
  TCoefs <- One0
  Qs <- One1
  Vs <- K_V1
  As <- One0
  QScales <- QS1
  Gravs <- K_G1
  DisSets <- NoDis
  TenK <- One0
  TenRanges <- Rng0
  TenDamps <- One0
  TenArms <- One0
  TenZero <- NoTz
  SpPairs <- NoSpS
  SpArms <- One0
  Sleeps <- NoTz
  StiffPolys <- P00
  DampPolys <- P00
  TenKPolys <- P00
  TenDPolys <- P00
  SpStiffs <- T000
  SpRanges <- Rng0
  SpDamps <- T000
  Level = 2
  Tie = TRUE
  Rand = FALSE
INVARIANT TypeOK
INVARIANT FramesProper
INVARIANT JacIsDerivative
INVARIANT MoveIsLocal
INVARIANT VelIsRecursive
INVARIANT SubtreeJacIsDerivative
INVARIANT KaneIsRecursive
INVARIANT ConstraintJacIsDerivative
CHECK_DEADLOCK FALSE
