---------------------------- MODULE GlobalTable ----------------------------
\* GlobalTable<T> of src/engine/engine_global_table.h (the registry behind mjp_registerPlugin,
\* mjp_registerResourceProvider, decoders, encoders) at the granularity of mutex operations, atomic count_
\* accesses and the non-atomic field writes of CopyObject.  One action per yield point of the controlled
\* scheduler; plain reads (the scans) are folded into the step of the preceding atomic load.
EXTENDS Integers, Sequences, FiniteSets, TLC
CONSTANTS B,          \* block size (15 in the code)
          Pre,        \* objects registered before the threads start (keys "p0".., body 1)
          NWr, NRd,   \* writer threads 1..NWr, reader threads NWr+1..NWr+NRd
          Reqs,       \* Reqs[w]  = sequence of [key, body] registration requests of writer w
          Queries,    \* Queries[r] = sequence of [kind |-> "k", key] / [kind |-> "s", slot] lookups of reader r
          Bug         \* "none" | "publishfirst" (count_ published before the object is copied) | "nolock"
MaxSlots == Pre + 4
Writers == 1..NWr
Readers == (NWr + 1)..(NWr + NRd)
PreKey(i) == <<"p0","p1","p2","p3","p4","p5","p6","p7","p8","p9","p10","p11","p12","p13","p14","p15">>[i + 1]
\* case-insensitive comparison and the letter code the harness reports (first letter, lower-cased, a = 1)
Lower(k) == CASE k = "A" -> "a" [] k = "B" -> "b" [] k = "C" -> "c" [] OTHER -> k
KeyCode(k) == CASE k = "" -> 0 [] Lower(k) = "a" -> 1 [] Lower(k) = "b" -> 2 [] Lower(k) = "c" -> 3 [] OTHER -> 16

VARIABLES count, slots, nblocks, lock,
          wpc, wi, wcnt, wres, wdone,      \* writers: pc, request index, count snapshot, pending result, results
          rpc, ri, rval, rdone,            \* readers: pc, query index, pending result, results
          ev
vars == <<count, slots, nblocks, lock, wpc, wi, wcnt, wres, wdone, rpc, ri, rval, rdone, ev>>
Empty == [key |-> "", body |-> 0]
Ev(t, op, obj, val) == [t |-> t, op |-> op, obj |-> obj, val |-> val]

Init == /\ count = Pre
        /\ slots = [i \in 0..(MaxSlots - 1) |-> IF i < Pre THEN [key |-> PreKey(i), body |-> 1] ELSE Empty]
        /\ nblocks = IF Pre = 0 THEN 1 ELSE ((Pre - 1) \div B) + 1
        /\ lock = 0
        /\ wpc = [w \in Writers |-> "idle"] /\ wi = [w \in Writers |-> 1] /\ wcnt = [w \in Writers |-> 0]
        /\ wres = [w \in Writers |-> -2] /\ wdone = [w \in Writers |-> <<>>]
        /\ rpc = [r \in Readers |-> "idle"] /\ ri = [r \in Readers |-> 1] /\ rval = [r \in Readers |-> -2]
        /\ rdone = [r \in Readers |-> <<>>]
        /\ ev = Ev(0, "init", "-", 0)

Req(w) == Reqs[w][wi[w]]
Min(S) == CHOOSE x \in S : \A y \in S : x <= y
\* ------------------------------------------------------------------ writer: AppendIfUnique
W_Lock(w) ==
  /\ wpc[w] = "idle" /\ wi[w] <= Len(Reqs[w]) /\ (lock = 0 \/ Bug = "nolock")
  /\ lock' = w /\ wpc' = [wpc EXCEPT ![w] = "load"] /\ ev' = Ev(w, "lock", "mutex", 0)
  /\ UNCHANGED <<count, slots, nblocks, wi, wcnt, wres, wdone, rpc, ri, rval, rdone>>
W_Load(w) ==     \* count_.load + scan for the key + (if needed) allocation of the next block
  /\ wpc[w] = "load" /\ wcnt' = [wcnt EXCEPT ![w] = count] /\ ev' = Ev(w, "load", "count", count)
  /\ LET hits == {i \in 0..(count - 1) : Lower(slots[i].key) = Lower(Req(w).key)} IN
     IF hits # {}
     THEN /\ wres' = [wres EXCEPT ![w] = IF slots[Min(hits)].body = Req(w).body THEN Min(hits) ELSE -1]
          /\ wpc' = [wpc EXCEPT ![w] = "unlock"] /\ UNCHANGED nblocks
     ELSE /\ nblocks' = IF count = nblocks * B THEN nblocks + 1 ELSE nblocks
          /\ wpc' = [wpc EXCEPT ![w] = IF Bug = "publishfirst" THEN "store" ELSE "copykey"] /\ UNCHANGED wres
  /\ UNCHANGED <<count, slots, lock, wi, wdone, rpc, ri, rval, rdone>>
W_CopyKey(w) ==
  /\ wpc[w] = "copykey" /\ slots' = [slots EXCEPT ![wcnt[w]].key = Req(w).key]
  /\ wpc' = [wpc EXCEPT ![w] = "copybody"] /\ ev' = Ev(w, "copykey", "slot", 0)
  /\ UNCHANGED <<count, nblocks, lock, wi, wcnt, wres, wdone, rpc, ri, rval, rdone>>
W_CopyBody(w) ==
  /\ wpc[w] = "copybody" /\ slots' = [slots EXCEPT ![wcnt[w]].body = Req(w).body]
  /\ wpc' = [wpc EXCEPT ![w] = IF Bug = "publishfirst" THEN "unlock" ELSE "store"]
  /\ ev' = Ev(w, "copybody", "slot", Req(w).body)
  /\ UNCHANGED <<count, nblocks, lock, wi, wcnt, wres, wdone, rpc, ri, rval, rdone>>
W_Store(w) ==
  /\ wpc[w] = "store" /\ count' = wcnt[w] + 1 /\ wres' = [wres EXCEPT ![w] = wcnt[w]]
  /\ wpc' = [wpc EXCEPT ![w] = IF Bug = "publishfirst" THEN "copykey" ELSE "unlock"]
  /\ ev' = Ev(w, "store", "count", wcnt[w] + 1)
  /\ UNCHANGED <<slots, nblocks, lock, wi, wcnt, wdone, rpc, ri, rval, rdone>>
W_Unlock(w) ==
  /\ wpc[w] = "unlock" /\ lock' = 0 /\ wpc' = [wpc EXCEPT ![w] = "ret"] /\ ev' = Ev(w, "unlock", "mutex", 0)
  /\ UNCHANGED <<count, slots, nblocks, wi, wcnt, wres, wdone, rpc, ri, rval, rdone>>
W_Ret(w) ==
  /\ wpc[w] = "ret" /\ wdone' = [wdone EXCEPT ![w] = Append(@, wres[w])] /\ wi' = [wi EXCEPT ![w] = @ + 1]
  /\ wpc' = [wpc EXCEPT ![w] = "idle"] /\ ev' = Ev(w, "wret", "-", wres[w])
  /\ UNCHANGED <<count, slots, nblocks, lock, wcnt, wres, rpc, ri, rval, rdone>>
\* ------------------------------------------------------------------ reader: GetByKey / GetAtSlot
Qry(r) == Queries[r][ri[r]]
Pack(i) == i * 10000 + (slots[i].body % 100) * 100 + KeyCode(slots[i].key)
ByKey(k, n) ==     \* GetByKeyUnsafe: first match below n, giving up at the first uninitialised slot
  LET hits  == {i \in 0..(n - 1) : Lower(slots[i].key) = Lower(k)}
      holes == {i \in 0..(n - 1) : slots[i].key = ""}
  IN IF k = "" \/ hits = {} THEN -1
     ELSE IF holes # {} /\ Min(holes) < Min(hits) THEN -1 ELSE Pack(Min(hits))
AtSlot(s, n) ==    \* GetAtSlotUnsafe
  IF s < 0 \/ s >= n \/ s >= nblocks * B THEN -1 ELSE IF slots[s].key = "" THEN -1 ELSE Pack(s)
R_Load(r) ==
  /\ rpc[r] = "idle" /\ ri[r] <= Len(Queries[r])
  /\ rval' = [rval EXCEPT ![r] = IF Qry(r).kind = "k" THEN ByKey(Qry(r).key, count) ELSE AtSlot(Qry(r).slot, count)]
  /\ rpc' = [rpc EXCEPT ![r] = "ret"] /\ ev' = Ev(r, "load", "count", count)
  /\ UNCHANGED <<count, slots, nblocks, lock, wpc, wi, wcnt, wres, wdone, ri, rdone>>
R_Ret(r) ==
  /\ rpc[r] = "ret" /\ rdone' = [rdone EXCEPT ![r] = Append(@, rval[r])] /\ ri' = [ri EXCEPT ![r] = @ + 1]
  /\ rpc' = [rpc EXCEPT ![r] = "idle"] /\ ev' = Ev(r, "rret", "-", rval[r])
  /\ UNCHANGED <<count, slots, nblocks, lock, wpc, wi, wcnt, wres, wdone, rval>>

WStep(w) == W_Lock(w) \/ W_Load(w) \/ W_CopyKey(w) \/ W_CopyBody(w) \/ W_Store(w) \/ W_Unlock(w) \/ W_Ret(w)
RStep(r) == R_Load(r) \/ R_Ret(r)
AllDone == (\A w \in Writers : wi[w] > Len(Reqs[w]) /\ wpc[w] = "idle") /\ (\A r \in Readers : ri[r] > Len(Queries[r]))
Next == (\E w \in Writers : WStep(w)) \/ (\E r \in Readers : RStep(r)) \/ (AllDone /\ UNCHANGED vars)
Spec == Init /\ [][Next]_vars /\ (\A w \in Writers : WF_vars(WStep(w))) /\ (\A r \in Readers : WF_vars(RStep(r)))

\* ------------------------------------------------------------------ properties
Published == 0..(count - 1)
Dense          == \A i \in Published : slots[i].key # "" /\ slots[i].body # 0     \* no partially registered object
OneSlotPerKey  == \A i, j \in Published : Lower(slots[i].key) = Lower(slots[j].key) => i = j
BlocksCover    == count <= nblocks * B
MutexExclusive == Cardinality({w \in Writers : wpc[w] \in {"load", "copykey", "copybody", "store", "unlock"}}) <= 1
\* readers never see a partial object; a key lookup returns an object with that key
NoPartialSeen  == \A r \in Readers : \A k \in 1..Len(rdone[r]) :
                     LET v == rdone[r][k] q == Queries[r][k] IN
                     v # -1 => /\ (v \div 100) % 100 # 0 /\ v % 100 # 0
                               /\ (q.kind = "k" => v % 100 = KeyCode(q.key))
                               /\ (q.kind = "s" => v \div 10000 = q.slot)
\* identical re-registration returns the slot, conflicting re-registration fails, a new key gets a new slot
WriterResults  == \A w \in Writers : \A k \in 1..Len(wdone[w]) :
                     LET q == Reqs[w][k] res == wdone[w][k] IN
                     /\ res # -1 => (res \in Published /\ Lower(slots[res].key) = Lower(q.key) /\ slots[res].body = q.body)
                     /\ res = -1 => \E i \in Published : Lower(slots[i].key) = Lower(q.key) /\ slots[i].body # q.body
\* lookups by name and by slot agree
NameSlotAgree  == \A i \in Published : ByKey(slots[i].key, count) = AtSlot(i, count)
\* published slots never change
Stable         == [][\A i \in Published : slots'[i] = slots[i] /\ count' >= count]_vars
Terminates     == <>AllDone
\* ------------------------------------------------------------------ model-checking constants
R_(k, b) == [key |-> k, body |-> b]
K_(k) == [kind |-> "k", key |-> k]
S_(s) == [kind |-> "s", slot |-> s]
MC_Reqs2    == <<  <<R_("b", 1), R_("c", 1)>>,  <<R_("C", 1), R_("b", 2)>>  >>
MC_Queries1 == [r \in {3} |-> <<K_("b"), K_("c"), S_(15)>>]
MC_Reqs3    == <<  <<R_("b", 1), R_("a", 2)>>,  <<R_("C", 1), R_("B", 1)>>, <<R_("c", 1)>>  >>
MC_Queries2 == [r \in {4, 5} |-> IF r = 4 THEN <<K_("B"), S_(14), K_("c")>> ELSE <<S_(15), K_("a")>>]
=============================================================================
