SPECIFICATION SpecAll
CONSTANTS
  MaxLen = 6
  Keys <- K3
  Runs <- SmallRuns
  Ops <- AllOps
  GenLens <- NoLens
  Seeds <- NoSeeds
  SeedLens <- NoLens
INVARIANT TypeOK
INVARIANT SortCorrect
INVARIANT SortDefsAgree
INVARIANT SortInPlace
INVARIANT PartialCorrect
INVARIANT PartialRestKept
INVARIANT InsertionCorrect
INVARIANT KeysConsistent
INVARIANT RunsInv
INVARIANT PassInv
INVARIANT HeapInv
INVARIANT NoJunk
INVARIANT NoStuck
INVARIANT EmitDone
PROPERTY InputFrozen
PROPERTY Terminates
CHECK_DEADLOCK FALSE
