SPECIFICATION TSpec
CONSTANTS
  NT = 3
  MaxCons = 12
  MaxToggles = 12
  Kinds <- AllKinds
INVARIANT TypeOK
INVARIANT CodedMatches
INVARIANT IslandsAreComponents
INVARIANT RowsAndDofs
INVARIANT MapsOK
CONSTRAINT Track
POSTCONDITION Report
CHECK_DEADLOCK FALSE
