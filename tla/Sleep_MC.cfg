SPECIFICATION Spec
CONSTANTS
  NT = 3
  MINAWAKE = 1
  Eqs <- MC_Eqs2
  Ground <- Ground0
  Never <- NoTrees
  NoIslands = FALSE
  InitVals <- Init_M1
  Kinds <- KindsC
VIEW ViewRet
INVARIANT TypeOK
INVARIANT CyclesClosed
INVARIANT NoMixedCoupling
INVARIANT TouchingSleepersShareCycle
PROPERTY WakeWhole
PROPERTY CyclesStable
PROPERTY SleepsAsIsland
PROPERTY CountdownRule
PROPERTY WakeOnPerturbation
PROPERTY WakeOnTouch
PROPERTY WakeOnEquality
PROPERTY Frozen
CHECK_DEADLOCK FALSE
