SPECIFICATION Spec
CONSTANTS
  MaxOps = 3
  Opts <- MC_Opt1
  Feats <- MC_Feat1
  Stages <- MC_NoStages
  Cb = "none"
  CbGate = "asis"
  ActDis <- MC_ActOn
  EKin = "asis"
  Phased = FALSE
  KeepHist = FALSE
INVARIANT TypeOK
INVARIANT FreshAfterForward
INVARIANT FreshAfterSkip
INVARIANT FreshAfterInvSkip
INVARIANT SplitEq
INVARIANT ReadOnlyCalls
INVARIANT LazySound
CHECK_DEADLOCK FALSE
