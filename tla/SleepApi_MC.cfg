SPECIFICATION Spec
CONSTANTS
  NT = 4
  MINAWAKE = 1
  MaxOps = 3
  AwakeVals <- MC_AwakeVals
  WakeVals <- MC_WakeVals
VIEW ViewNoEv
INVARIANT TypeOK
INVARIANT CyclesClosed
INVARIANT CycleRepresentative
PROPERTY WakeWhole
PROPERTY QueriesPure
CHECK_DEADLOCK FALSE
