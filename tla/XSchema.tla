------------------------------ MODULE XSchema ------------------------------
\* Schema enforcement of the MJCF reader: mjXSchema (src/xml/xml_util.cc) — element rows with cardinality
\* ? ! * R, allowed attributes, presence constraints (exclusive / together / requires / oneof), and the alias
\* tags worldbody / frame / replicate that are admitted against the recursive "body" row (NameMatch).
\*
\* A document is a prefix-closed set of nodes [path, tag, attrs]; TLC grows documents node by node and
\* attribute by attribute and computes for each
\*     valid     : the document conforms (every element, also below alias elements, is checked), and
\*     validcode : the verdict of the coded algorithm, which recurses only into children whose tag is literally
\*                 the row name, so the subtree of an alias child is admitted without being checked
\*                 (named deviation; where valid # validcode the implementation accepts an invalid document).
EXTENDS Integers, Sequences, FiniteSets, TLC
CONSTANTS MaxNodes, MaxAttrs,
          Skels      \* which starting skeletons: subset of {"A", "B"}

\* ---- the synthetic schema (row ids 1..7); the harness builds the same table
Row == [i \in 1..8 |->
  CASE i = 1 -> [name |-> "m",        type |-> "!", attrs |-> {"model"},                 subs |-> <<2, 3, 4, 8>>,
                 cons |-> {}]
    [] i = 2 -> [name |-> "opt",      type |-> "?", attrs |-> {"a", "b", "c"},           subs |-> <<>>,
                 cons |-> {[kind |-> "e", b |-> <<{"a"}, {"b"}>>], [kind |-> "r", b |-> <<{"c"}, {"a"}>>]}]
    [] i = 3 -> [name |-> "req",      type |-> "!", attrs |-> {"x"},                     subs |-> <<>>, cons |-> {}]
    [] i = 4 -> [name |-> "body",     type |-> "R", attrs |-> {"name", "pos", "quat", "euler"}, subs |-> <<5, 6, 7>>,
                 cons |-> {[kind |-> "e", b |-> <<{"quat"}, {"euler"}>>]}]
    [] i = 5 -> [name |-> "inertial", type |-> "?", attrs |-> {"mass", "pos"},           subs |-> <<>>,
                 cons |-> {}]        \* no constraint here: a duplicated inertial violates nothing but the cardinality
    [] i = 6 -> [name |-> "geom",     type |-> "*", attrs |-> {"size", "type", "fromto"}, subs |-> <<>>,
                 cons |-> {[kind |-> "o", b |-> <<{"size"}, {"fromto"}>>], [kind |-> "t", b |-> <<{"size", "type"}>>]}]
    [] i = 7 -> [name |-> "site",     type |-> "*", attrs |-> {"pos"},                   subs |-> <<>>, cons |-> {}]
    \* bundles of several attributes (as on <connect>): one complete bundle is required, the bundles exclude each other
    [] OTHER -> [name |-> "conn",     type |-> "*", attrs |-> {"s1", "s2", "b1", "b2", "an"}, subs |-> <<>>,
                 cons |-> {[kind |-> "o", b |-> <<{"s1", "s2"}, {"b1", "an"}>>],
                           [kind |-> "e", b |-> <<{"s1", "s2"}, {"b1", "b2", "an"}>>],
                           [kind |-> "t", b |-> <<{"s1"}, {"s2"}>>]}]]
Tags  == {"m", "opt", "req", "body", "inertial", "geom", "site", "conn", "worldbody", "frame", "replicate", "bogus"}
Attrs == {"model", "a", "b", "c", "x", "name", "pos", "quat", "euler", "mass", "size", "type", "fromto", "zz",
          "s1", "s2", "b1", "b2", "an"}
Alias == {"worldbody", "frame", "replicate"}

VARIABLES doc, nattr, base, ev
vars == <<doc, nattr, base, ev>>

Node(p) == CHOOSE n \in doc : n.path = p
Kids(d, p) == {n \in d : Len(n.path) = Len(p) + 1 /\ SubSeq(n.path, 1, Len(p)) = p}

\* NameMatch(elem, level) of row r
NameMatch(r, tag, level) ==
  \/ Row[r].name = tag                      \* regular check
  \/ /\ Row[r].name = "body"               \* special handling of body, worldbody, frame, replicate
     /\ \/ (level = 1 /\ tag = "worldbody") \/ (level # 1 /\ tag = "body")
        \/ (level >= 1 /\ tag \in {"frame", "replicate"})
ConsOK(r, attrs) ==
  \A c \in Row[r].cons :
    LET nb == Len(c.b)
        anyp == {i \in 1..nb : c.b[i] \cap attrs # {}}
        allp == {i \in 1..nb : c.b[i] \subseteq attrs}
        listed == UNION {c.b[i] : i \in 1..nb}
    IN CASE c.kind = "e" -> Cardinality(anyp) <= 1
         [] c.kind = "t" -> (listed \cap attrs = {}) \/ (listed \subseteq attrs)
         [] c.kind = "r" -> (c.b[1] \subseteq attrs) => (c.b[2] \subseteq attrs)
         [] OTHER        -> allp # {}
\* first sub-row (in table order) that admits the tag, 0 if none
SubFor(r, tag, level) ==
  LET m == {k \in 1..Len(Row[r].subs) : NameMatch(Row[r].subs[k], tag, level)}
  IN IF m = {} THEN 0 ELSE Row[r].subs[CHOOSE k \in m : \A j \in m : k <= j]

RECURSIVE ValidNode(_, _, _, _, _)
\* deep = TRUE: ideal (alias children are checked like body children); FALSE: the coded algorithm
ValidNode(d, n, r, level, deep) ==
  /\ NameMatch(r, n.tag, level)
  /\ n.attrs \subseteq Row[r].attrs
  /\ ConsOK(r, n.attrs)
  /\ \A k \in Kids(d, n.path) :
       LET s == SubFor(r, k.tag, level + 1) IN
       IF s # 0 THEN ValidNode(d, k, s, level + 1, deep)
       ELSE /\ Row[r].type = "R" /\ NameMatch(r, k.tag, level + 1)
            /\ IF deep \/ k.tag = Row[r].name THEN ValidNode(d, k, r, level + 1, deep) ELSE TRUE
  /\ \A j \in 1..Len(Row[r].subs) :
       LET s == Row[r].subs[j]
           cnt == Cardinality({k \in Kids(d, n.path) : SubFor(r, k.tag, level + 1) = s})
       IN CASE Row[s].type = "!" -> cnt = 1
            [] Row[s].type = "?" -> cnt <= 1
            [] OTHER -> TRUE
Root(d) == CHOOSE n \in d : n.path = <<>>
Valid(d)     == ValidNode(d, Root(d), 1, 0, TRUE)
ValidCode(d) == ValidNode(d, Root(d), 1, 0, FALSE)
Verdict(d) == [valid |-> Valid(d), validcode |-> ValidCode(d)]

\* documents grow from a conforming skeleton: the smallest one, <m><req/><worldbody/></m>, or one with two
\* nested bodies (cardinalities must be enforced per element also when the recursive row re-enters itself)
SkelA == {[path |-> <<>>, tag |-> "m", attrs |-> {}], [path |-> <<1>>, tag |-> "req", attrs |-> {}],
          [path |-> <<2>>, tag |-> "worldbody", attrs |-> {}],
          [path |-> <<3>>, tag |-> "conn", attrs |-> {"b1", "an"}]}
SkelB == SkelA \cup {[path |-> <<2, 1>>, tag |-> "body", attrs |-> {}], [path |-> <<2, 1, 1>>, tag |-> "body", attrs |-> {}]}
Init == /\ doc \in ({SkelA : x \in Skels \cap {"A"}} \cup {SkelB : x \in Skels \cap {"B"}}) /\ nattr = 0 /\ base = Cardinality(doc)
        /\ ev = Verdict(doc)
\* append a child with the next free index under an existing node
AddNode(p, tag) ==
  /\ Cardinality(doc) < base + MaxNodes /\ Len(p) < 3
  /\ \E n \in doc : n.path = p
  /\ LET idx == Cardinality(Kids(doc, p)) + 1 IN
     doc' = doc \cup {[path |-> Append(p, idx), tag |-> tag, attrs |-> {}]}
  /\ UNCHANGED <<nattr, base>> /\ ev' = Verdict(doc')
AddAttr(p, a) ==
  /\ nattr < MaxAttrs /\ nattr' = nattr + 1
  /\ \E n \in doc : n.path = p /\ a \notin n.attrs
  /\ doc' = {IF n.path = p THEN [n EXCEPT !.attrs = @ \cup {a}] ELSE n : n \in doc}
  /\ UNCHANGED base /\ ev' = Verdict(doc')
Paths == {n.path : n \in doc}
Next == \/ \E p \in Paths, t \in Tags \ {"m"} : AddNode(p, t)
        \/ \E p \in Paths, a \in Attrs : AddAttr(p, a)
Spec == Init /\ [][Next]_vars

\* ---- properties of the specification itself
\* the coded algorithm never rejects a conforming document, and differs from the ideal only below an alias
CodeNeverStricter == ev.valid => ev.validcode
\* (the alias element itself, its attributes included, is already unchecked)
HasInnerAlias == \E n \in doc : n.tag \in {"frame", "replicate"}
DiffOnlyUnderAlias == (ev.valid # ev.validcode) => HasInnerAlias
\* growing a document by a tag or attribute unknown to every row makes it invalid
BogusInvalid == (\E n \in doc : n.tag = "bogus" \/ "zz" \in n.attrs) => ~ev.valid
VerdictIsVerdict == ev = Verdict(doc)
=============================================================================
