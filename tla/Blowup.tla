------------------------------ MODULE Blowup ------------------------------
\* Containment of numerical blow-ups in mj_step (src/engine/engine_forward.c: mj_checkPos, mj_checkVel,
\* mj_fwdActuation's control check, mj_checkAcc; engine_util_misc.c: mju_isBad; engine_core_util.c: mj_warning).
\*
\* The user writes values of a *class* into one of six arrays of mjData and then calls mj_step, which is modelled
\* phase by phase:   checkPos ; checkVel ; forward ; checkAcc ; integrate.
\* Arrays hold an abstract content:
\*      "def"  untouched since the last reset (state arrays: on the reference trajectory; inputs: zero)
\*      "fin"  finite, within the magnitude limit, otherwise arbitrary
\*      "bad"  contains NaN, +-Inf or a number beyond mjMAXVAL
\*      "unk"  unknown (a bad value was allowed to propagate because autoreset is disabled)
\* Warning counters are described *relative to the start of the step*:
\*      "same"  unchanged            "inc"  strictly larger
\*      "zero"  the data was reset during the step and the counter not raised afterwards (= 0)
\*      "pos"   the data was reset during the step and the counter raised afterwards (>= 1)
\*      "any"   no claim
\* `ref` = k >= 0 says that qpos, qvel, act and time equal those of an untouched instance stepped k times
\* ("the data is reset to the initial state instead of propagating bad values"); -1 = no such claim.
\* The whole behaviour is kept in `hist`, so every state of a dump is a self-contained replay script.
EXTENDS Integers, Sequences, FiniteSets, TLC
CONSTANTS MaxSteps, MaxInj,      \* steps per behaviour, injections before each step
          Classes,               \* value classes that may be injected
          AutoChoices,           \* values of the autoreset flag that may be chosen before a step
          Bug                    \* "none"; "noreset" / "skipvel" plant defects (negative controls)

StateSites == {"qpos", "qvel", "act"}
InputSites == {"ctrl", "qfrc", "xfrc"}
Sites == StateSites \cup InputSites
Warns == {"qpos", "qvel", "qacc", "ctrl"}          \* mjWARN_BADQPOS, BADQVEL, BADQACC, BADCTRL
BadClasses == {"huge", "nan", "inf", "ninf"}

VARIABLES val,      \* [Sites -> content]
          auto,     \* autoreset enabled
          ref,      \* see above
          rel,      \* [Warns -> relation], valid inside a step and at its end
          det,      \* set of warnings whose check fired in the current step
          hadbad,   \* some array was "bad" or "unk" when the current step began
          qacc,     \* content of the acceleration computed by forward
          phase, nsteps, ninj,
          ev, hist
vars == <<val, auto, ref, rel, det, hadbad, qacc, phase, nsteps, ninj, ev, hist>>

Same == [w \in Warns |-> "same"]
Bump(r) == CASE r = "same" -> "inc" [] r = "inc" -> "inc" [] r = "zero" -> "pos" [] r = "pos" -> "pos" [] OTHER -> "any"
AllDef == [s \in Sites |-> "def"]
Log(e) == /\ ev' = e /\ hist' = Append(hist, e)

Init == /\ val = AllDef /\ auto = TRUE /\ ref = 0 /\ rel = Same /\ det = {} /\ hadbad = FALSE /\ qacc = "fin"
        /\ phase = "idle" /\ nsteps = 0 /\ ninj = 0
        /\ ev = [op |-> "init"] /\ hist = <<>>

\* ---- the user ----------------------------------------------------------------------------------------------
Inject(s, c) ==
  /\ phase = "idle" /\ nsteps < MaxSteps /\ ninj < MaxInj /\ ninj' = ninj + 1
  /\ val[s] \in {"def", "fin"}                       \* one class per array
  /\ val' = [val EXCEPT ![s] = IF c \in BadClasses THEN "bad" ELSE "fin"]
  /\ ref' = IF s \in StateSites THEN -1 ELSE ref
  /\ Log([op |-> "inject", site |-> s, cls |-> c])
  /\ UNCHANGED <<auto, rel, det, hadbad, qacc, phase, nsteps>>

SetAuto(b) ==
  /\ phase = "idle" /\ nsteps < MaxSteps /\ ninj = 0 /\ b # auto /\ b \in AutoChoices
  /\ ev.op # "setauto"                                \* at most once before a step
  /\ auto' = b /\ Log([op |-> "setauto", on |-> b])
  /\ UNCHANGED <<val, ref, rel, det, hadbad, qacc, phase, nsteps, ninj>>

\* ---- mj_step, phase by phase ------------------------------------------------------------------------------
Begin ==
  /\ phase = "idle" /\ nsteps < MaxSteps
  /\ phase' = "pos" /\ rel' = Same /\ det' = {} /\ ninj' = 0
  /\ hadbad' = (\E s \in Sites : val[s] \in {"bad", "unk"})
  /\ Log([op |-> "begin", auto |-> auto])
  /\ UNCHANGED <<val, auto, ref, qacc, nsteps>>

\* a check fired for warning w: with autoreset the data is reset (every counter cleared) and the counter raised
Fire(w) ==
  /\ det' = det \cup {w}
  /\ IF auto /\ Bug # "noreset"
             THEN /\ val' = AllDef /\ ref' = 0
                  /\ rel' = [x \in Warns |-> IF x = w THEN "pos" ELSE "zero"]
             ELSE /\ rel' = [rel EXCEPT ![w] = Bump(@)] /\ UNCHANGED <<val, ref>>
\* the checked array is unknown: the check may or may not fire
Maybe(w) ==
  /\ UNCHANGED det
  /\ IF auto THEN /\ rel' = [x \in Warns |-> "any"] /\ ref' = -1
                  /\ val' = [s \in Sites |-> IF val[s] = "def" THEN "def" ELSE "unk"]
             ELSE /\ rel' = [rel EXCEPT ![w] = "any"] /\ UNCHANGED <<val, ref>>
Check(site, w) ==
  IF val[site] = "bad" THEN Fire(w)
  ELSE IF val[site] = "unk" THEN Maybe(w)
  ELSE UNCHANGED <<val, ref, rel, det>>

CheckPos ==
  /\ phase = "pos" /\ phase' = "vel" /\ Check("qpos", "qpos")
  /\ Log([op |-> "checkPos", rel |-> rel'])
  /\ UNCHANGED <<auto, hadbad, qacc, nsteps, ninj>>
CheckVel ==
  /\ phase = "vel" /\ phase' = "fwd"
  /\ IF Bug = "skipvel" THEN UNCHANGED <<val, ref, rel, det>> ELSE Check("qvel", "qvel")
  /\ Log([op |-> "checkVel", rel |-> rel'])
  /\ UNCHANGED <<auto, hadbad, qacc, nsteps, ninj>>

\* forward dynamics: a bad control raises its warning and all controls are treated as zero; bad applied forces or
\* activations make the acceleration bad; bad or unknown positions / velocities make it unknown
Forward ==
  /\ phase = "fwd" /\ phase' = "acc"
  /\ rel' = IF val["ctrl"] = "bad" THEN [rel EXCEPT !["ctrl"] = Bump(@)] ELSE rel
  /\ det' = IF val["ctrl"] = "bad" THEN det \cup {"ctrl"} ELSE det
  /\ qacc' = IF \E s \in {"qpos", "qvel"} : val[s] \in {"bad", "unk"} THEN "unk"
             ELSE IF val["act"] = "unk" THEN "unk"
             ELSE IF \E s \in {"qfrc", "xfrc", "act"} : val[s] = "bad" THEN "bad"
             ELSE "fin"
  /\ Log([op |-> "forward", rel |-> rel'])
  /\ UNCHANGED <<val, auto, ref, hadbad, nsteps, ninj>>

\* after a reset mj_checkAcc recomputes the forward dynamics of the reset state
CheckAcc ==
  /\ phase = "acc" /\ phase' = "int"
  /\ IF qacc = "bad" THEN Fire("qacc") /\ qacc' = (IF auto THEN "fin" ELSE "bad")
     ELSE IF qacc = "unk" THEN Maybe("qacc") /\ qacc' = "unk"
     ELSE UNCHANGED <<val, ref, rel, det, qacc>>
  /\ Log([op |-> "checkAcc", rel |-> rel'])
  /\ UNCHANGED <<auto, hadbad, nsteps, ninj>>

\* inputs that leave the reference trajectory alone: zero, or a bad control (treated as zero)
QuietInputs == val["ctrl"] \in {"def", "bad"} /\ val["qfrc"] = "def" /\ val["xfrc"] = "def"
FiniteState == \A s \in StateSites : val[s] \in {"def", "fin"}
\* autoreset on and no bad value survived the checks: whatever was unknown either fired a check (reset) or was fine
Caught == auto /\ qacc # "bad" /\ \A s \in StateSites : val[s] # "bad"
Integrate ==
  /\ phase = "int" /\ phase' = "idle" /\ nsteps' = nsteps + 1
  /\ IF qacc = "fin" /\ FiniteState
     THEN IF ref >= 0 /\ QuietInputs /\ \A s \in StateSites : val[s] = "def"
          THEN /\ ref' = ref + 1 /\ UNCHANGED val
          ELSE /\ ref' = -1 /\ val' = [s \in Sites |-> IF s \in StateSites THEN "fin" ELSE val[s]]
     ELSE \* something bad or unknown was integrated: with autoreset every bad value was caught by a check, so the
          \* state is finite whichever way the unknown checks went; without it there is no claim
          /\ ref' = -1
          /\ val' = [s \in Sites |-> IF s \in StateSites THEN (IF Caught THEN "fin" ELSE "unk") ELSE val[s]]
  /\ Log([op |-> "step", auto |-> auto, rel |-> rel, ref |-> ref',
          finite |-> \A s \in StateSites : val'[s] \in {"def", "fin"}])
  /\ UNCHANGED <<auto, rel, det, hadbad, qacc, ninj>>

Next == \/ \E s \in Sites, c \in Classes : Inject(s, c)
        \/ \E b \in BOOLEAN : SetAuto(b)
        \/ Begin \/ CheckPos \/ CheckVel \/ Forward \/ CheckAcc \/ Integrate
Spec == Init /\ [][Next]_vars

\* ---- the property -------------------------------------------------------------------------------------------
Contents == {"def", "fin", "bad", "unk"}
TypeOK == /\ val \in [Sites -> Contents] /\ rel \in [Warns -> {"same", "inc", "zero", "pos", "any"}]
          /\ ref \in -1..MaxSteps /\ qacc \in {"fin", "bad", "unk"}
StepDone == ev.op = "step"
\* with autoreset every state component is finite after mj_step, whatever was injected
AutoresetFinite == (StepDone /\ ev.auto) => ev.finite
\* a position / velocity / acceleration check that fired raised its counter
DetectedCounted == StepDone => \A w \in det \cap {"qpos", "qvel", "qacc"} : rel[w] \in {"inc", "pos"}
\* so did the control check, unless the acceleration check reset the data later in the same step (found by TLC:
\* bad ctrl together with bad act / applied force and autoreset leaves the BADCTRL counter at zero)
CtrlCounted == (StepDone /\ "ctrl" \in det /\ ~("qacc" \in det /\ ev.auto)) => rel["ctrl"] \in {"inc", "pos"}
\* bad positions / velocities at the start of a step are always detected when autoreset is on
BadStateDetected == [][(ev'.op = "checkPos" /\ val["qpos"] = "bad") => "qpos" \in det']_vars
BadVelDetected == [][(ev'.op = "checkVel" /\ val["qvel"] = "bad") => "qvel" \in det']_vars
\* no bad or unknown value anywhere at the start of the step: no counter moves
NoSpuriousWarning == (StepDone /\ ~hadbad) => rel = Same
\* with autoreset, a detected bad position / velocity / acceleration leaves the data on the reference
\* trajectory, one step after the initial state
Contained == (StepDone /\ ev.auto /\ det \cap {"qpos", "qvel", "qacc"} # {} /\ \A w \in Warns : rel[w] # "any")
                => (ev.ref = 1 /\ \A s \in Sites : val[s] = "def")
\* a reset clears the inputs too: nothing bad is left after a step with autoreset in which a check fired
NothingLeft == (StepDone /\ ev.auto /\ det \cap {"qpos", "qvel", "qacc"} # {}) => \A s \in Sites : val[s] # "bad"

\* ---- constants for the configurations -------------------------------------------------------------------------
NoHist == <<val, auto, ref, rel, det, hadbad, qacc, phase, nsteps, ninj, ev>>
AllClasses == {"ok", "huge", "nan", "inf", "ninf"}
BadOnly == BadClasses
BothFlags == BOOLEAN
OnlyOn == {TRUE}
=============================================================================
