------------------------------ MODULE Blowup ------------------------------
\* Containment of numerical blow-ups in mj_step (src/engine/engine_forward.c: mj_checkPos, mj_checkVel,
\* mj_fwdActuation's control check, mj_checkAcc; engine_util_misc.c: mju_isBad; engine_core_util.c: mj_warning),
\* including the sleep filter of the checks (engine_sleep.c: dof_awake_ind, mj_wake).
\*
\* The user writes values of a *class* into one of six arrays of mjData and then calls mj_step, which is modelled
\* phase by phase:   checkPos ; checkVel ; forward ; checkAcc ; integrate.
\* The model has one or two kinematic trees (targets of an injection):
\*      "awake"    a tree that never sleeps
\*      "sleeper"  (sleep layouts only) a tree that is asleep in the initial state; in dof order it comes
\*                 before ("first") or after ("last") the awake tree.  Layout "none" = sleeping disabled.
\* mj_checkPos looks at every position; mj_checkVel and mj_checkAcc look only at the degrees of freedom that are
\* awake when they run; forward kinematics wakes a sleeping tree whose position, velocity or applied force was
\* touched; a reset puts the sleeper back to sleep.
\* Arrays hold an abstract content, per tree:
\*      "def"  untouched since the last reset (state arrays: on the reference trajectory; inputs: zero)
\*      "fin"  finite, within the magnitude limit, otherwise arbitrary
\*      "bad"  contains NaN, +-Inf or a number beyond mjMAXVAL
\*      "unk"  unknown (a bad value was allowed to propagate)
\* Warning counters are described *relative to the start of the step*:
\*      "same"  unchanged            "inc"  strictly larger
\*      "zero"  the data was reset during the step and the counter not raised afterwards (= 0)
\*      "pos"   the data was reset during the step and the counter raised afterwards (>= 1)
\*      "any"   no claim
\* `ref` = k >= 0 says that qpos, qvel, act and time equal those of an untouched instance stepped k times
\* ("the data is reset to the initial state instead of propagating bad values"); -1 = no such claim.
\* The whole behaviour is kept in `hist`, so every state of a dump is a self-contained replay script.
EXTENDS Integers, Sequences, FiniteSets, TLC
CONSTANTS MaxSteps, MaxInj,      \* steps per behaviour, injections before each step
          Classes,               \* value classes that may be injected
          AutoChoices,           \* values of the autoreset flag that may be chosen before a step
          Layouts,               \* subset of {"none", "first", "last"}
          Bug                    \* "none"; other values plant defects (negative controls)

StateSites == {"qpos", "qvel", "act"}
InputSites == {"ctrl", "qfrc", "xfrc"}
Sites == StateSites \cup InputSites
SleepSites == {"qpos", "qvel", "qfrc", "xfrc"}     \* the models with a sleeping tree have no actuators
Targets == {"awake", "sleeper"}
Warns == {"qpos", "qvel", "qacc", "ctrl"}          \* mjWARN_BADQPOS, BADQVEL, BADQACC, BADCTRL
BadClasses == {"huge", "nan", "inf", "ninf"}

VARIABLES layout,   \* "none" | "first" | "last"
          asleep,   \* is the sleeper asleep: "yes" | "no" | "unk"
          val,      \* [Targets -> [Sites -> content]]
          auto,     \* autoreset enabled
          ref,      \* see above
          rel,      \* [Warns -> relation], valid inside a step and at its end
          det,      \* set of warnings whose check fired in the current step
          hadbad,   \* some array was "bad" or "unk" when the current step began
          qacc,     \* content of the acceleration computed by forward
          phase, nsteps, ninj,
          ev, hist
vars == <<layout, asleep, val, auto, ref, rel, det, hadbad, qacc, phase, nsteps, ninj, ev, hist>>

Same == [w \in Warns |-> "same"]
Bump(r) == CASE r = "same" -> "inc" [] r = "inc" -> "inc" [] r = "zero" -> "pos" [] r = "pos" -> "pos" [] OTHER -> "any"
AllDef == [t \in Targets |-> [s \in Sites |-> "def"]]
InitSleep == IF layout = "none" THEN "no" ELSE "yes"
Log(e) == /\ ev' = e /\ hist' = Append(hist, e)

Init == /\ layout \in Layouts
        /\ asleep = InitSleep
        /\ val = AllDef /\ auto = TRUE /\ ref = 0 /\ rel = Same /\ det = {} /\ hadbad = FALSE /\ qacc = "fin"
        /\ phase = "idle" /\ nsteps = 0 /\ ninj = 0
        /\ ev = [op |-> "init", layout |-> layout] /\ hist = <<ev>>

\* ---- the user ----------------------------------------------------------------------------------------------
Inject(t, s, c) ==
  /\ phase = "idle" /\ nsteps < MaxSteps /\ ninj < MaxInj /\ ninj' = ninj + 1
  /\ IF layout = "none" THEN t = "awake" ELSE s \in SleepSites
  /\ val[t][s] \in {"def", "fin"}                     \* one class per array and tree
  /\ val' = [val EXCEPT ![t][s] = IF c \in BadClasses THEN "bad" ELSE "fin"]
  /\ ref' = IF s \in StateSites THEN -1 ELSE ref
  /\ Log([op |-> "inject", tgt |-> t, site |-> s, cls |-> c])
  /\ UNCHANGED <<layout, asleep, auto, rel, det, hadbad, qacc, phase, nsteps>>

SetAuto(b) ==
  /\ phase = "idle" /\ nsteps < MaxSteps /\ ninj = 0 /\ b # auto /\ b \in AutoChoices
  /\ ev.op # "setauto"                                \* at most once before a step
  /\ auto' = b /\ Log([op |-> "setauto", on |-> b])
  /\ UNCHANGED <<layout, asleep, val, ref, rel, det, hadbad, qacc, phase, nsteps, ninj>>

\* ---- mj_step, phase by phase ------------------------------------------------------------------------------
Begin ==
  /\ phase = "idle" /\ nsteps < MaxSteps
  /\ phase' = "pos" /\ rel' = Same /\ det' = {} /\ ninj' = 0
  /\ hadbad' = (\E t \in Targets, s \in Sites : val[t][s] \in {"bad", "unk"})
  /\ Log([op |-> "begin", auto |-> auto, asleep |-> asleep])
  /\ UNCHANGED <<layout, asleep, val, auto, ref, qacc, nsteps>>

\* a check fired for warning w: with autoreset the data is reset (every counter cleared, the sleeper asleep again)
\* and the counter raised
Fire(w) ==
  /\ det' = det \cup {w}
  /\ IF auto /\ Bug # "noreset"
             THEN /\ val' = AllDef /\ ref' = 0 /\ asleep' = InitSleep
                  /\ rel' = [x \in Warns |-> IF x = w THEN "pos" ELSE "zero"]
             ELSE /\ rel' = [rel EXCEPT ![w] = Bump(@)] /\ UNCHANGED <<val, ref, asleep>>
\* the checked array is unknown, or its tree may be hidden by the sleep filter: the check may or may not fire
Maybe(w) ==
  /\ UNCHANGED det
  /\ IF auto THEN /\ rel' = [x \in Warns |-> "any"] /\ ref' = -1
                  /\ val' = [t \in Targets |-> [s \in Sites |-> IF val[t][s] = "def" THEN "def" ELSE "unk"]]
                  /\ asleep' = IF layout = "none" THEN "no" ELSE "unk"
             ELSE /\ rel' = [rel EXCEPT ![w] = "any"] /\ UNCHANGED <<val, ref, asleep>>
Untouched == UNCHANGED <<val, ref, rel, det, asleep>>

\* mj_checkPos is not filtered: a bad position of a sleeping tree is seen too
CheckPos ==
  /\ phase = "pos" /\ phase' = "vel"
  /\ IF \E t \in Targets : val[t]["qpos"] = "bad" THEN Fire("qpos")
     ELSE IF \E t \in Targets : val[t]["qpos"] = "unk" THEN Maybe("qpos")
     ELSE Untouched
  /\ Log([op |-> "checkPos", rel |-> rel', fired |-> "qpos" \in det'])
  /\ UNCHANGED <<layout, auto, hadbad, qacc, nsteps, ninj>>

\* the degrees of freedom mj_checkVel / mj_checkAcc look at: those of trees that are awake
\* is the index indirection dof_awake_ind[j] # j in force: a tree that is asleep precedes the awake tree
Indirect == layout = "first" /\ asleep = "yes"
Hidden == Bug = "hidden" /\ Indirect          \* planted: under the indirection the checks look at the wrong dofs
Seen(t) == ~Hidden /\ (t = "awake" \/ asleep = "no")
CheckVel ==
  /\ phase = "vel" /\ phase' = "fwd"
  /\ IF Bug = "skipvel" THEN Untouched
     ELSE IF \E t \in Targets : Seen(t) /\ val[t]["qvel"] = "bad" THEN Fire("qvel")
     ELSE IF \E t \in Targets : val[t]["qvel"] = "unk" \/ (val[t]["qvel"] = "bad" /\ ~Seen(t)) THEN Maybe("qvel")
     ELSE Untouched
  /\ Log([op |-> "checkVel", rel |-> rel', fired |-> "qvel" \in det', indirect |-> Indirect])
  /\ UNCHANGED <<layout, auto, hadbad, qacc, nsteps, ninj>>

\* forward dynamics: kinematics wakes a sleeping tree that was touched; a bad control raises its warning and all
\* controls are treated as zero; bad applied forces or activations make the acceleration bad; bad or unknown
\* positions / velocities make it unknown
Disturbed == \E s \in SleepSites : val["sleeper"][s] # "def"
Forward ==
  /\ phase = "fwd" /\ phase' = "acc"
  /\ asleep' = IF asleep = "yes" /\ Disturbed /\ Bug # "nowake" THEN "no" ELSE asleep
  /\ rel' = IF val["awake"]["ctrl"] = "bad" THEN [rel EXCEPT !["ctrl"] = Bump(@)] ELSE rel
  /\ det' = IF val["awake"]["ctrl"] = "bad" THEN det \cup {"ctrl"} ELSE det
  /\ qacc' = IF \E t \in Targets, s \in {"qpos", "qvel"} : val[t][s] \in {"bad", "unk"} THEN "unk"
             ELSE IF \E t \in Targets, s \in {"qfrc", "xfrc", "act"} : val[t][s] = "unk" THEN "unk"
             ELSE IF \E t \in Targets, s \in {"qfrc", "xfrc", "act"} : val[t][s] = "bad" THEN "bad"
             ELSE "fin"
  /\ Log([op |-> "forward", rel |-> rel', asleep |-> asleep'])
  /\ UNCHANGED <<layout, val, auto, ref, hadbad, nsteps, ninj>>

\* a bad acceleration belongs to a tree that forward has woken (or that never sleeps), so the filter of
\* mj_checkAcc never hides it; after a reset mj_checkAcc recomputes the forward dynamics of the reset state
AccSeen == ~Hidden /\ (asleep # "yes" \/ \E s \in {"qfrc", "xfrc", "act"} : val["awake"][s] = "bad")
CheckAcc ==
  /\ phase = "acc" /\ phase' = "int"
  /\ IF qacc = "bad" /\ AccSeen THEN Fire("qacc") /\ qacc' = (IF auto THEN "fin" ELSE "bad")
     ELSE IF qacc \in {"unk", "bad"} THEN Maybe("qacc") /\ qacc' = "unk"
     ELSE Untouched /\ UNCHANGED qacc
  /\ Log([op |-> "checkAcc", rel |-> rel', fired |-> "qacc" \in det', indirect |-> Indirect])
  /\ UNCHANGED <<layout, auto, hadbad, nsteps, ninj>>

\* inputs that leave the reference trajectory alone: zero, or a bad control (treated as zero)
QuietInputs == /\ val["awake"]["ctrl"] \in {"def", "bad"}
               /\ \A t \in Targets : val[t]["qfrc"] = "def" /\ val[t]["xfrc"] = "def"
FiniteState == \A t \in Targets, s \in StateSites : val[t][s] \in {"def", "fin"}
\* autoreset on and no bad value survived the checks: whatever was unknown either fired a check (reset) or was fine
Caught == auto /\ qacc # "bad" /\ \A t \in Targets, s \in StateSites : val[t][s] # "bad"
\* the state arrays the integrator writes: those of the awake tree, and of the sleeper unless it is still asleep
Moves(t, s) == s \in StateSites /\ (t = "awake" \/ (layout # "none" /\ s \in SleepSites /\ asleep # "yes"))
Integrate ==
  /\ phase = "int" /\ phase' = "idle" /\ nsteps' = nsteps + 1
  /\ IF qacc = "fin" /\ FiniteState
     THEN IF ref >= 0 /\ QuietInputs /\ \A t \in Targets, s \in StateSites : val[t][s] = "def"
          THEN /\ ref' = ref + 1 /\ UNCHANGED val
          ELSE /\ ref' = -1
               /\ val' = [t \in Targets |-> [s \in Sites |-> IF Moves(t, s) THEN "fin" ELSE val[t][s]]]
     ELSE \* something bad or unknown was integrated.  With autoreset every bad value that a check could see was
          \* caught, so the state is finite whichever way the unknown checks went -- but a value beyond the limit
          \* that was hidden from mj_checkVel by the sleep filter may still be there (it is seen one step later),
          \* so the content stays unknown.  Without autoreset there is no claim.
          /\ ref' = -1
          /\ val' = [t \in Targets |-> [s \in Sites |-> IF Moves(t, s) THEN "unk" ELSE val[t][s]]]
  /\ Log([op |-> "step", auto |-> auto, rel |-> rel, ref |-> ref', asleep |-> asleep,
          finite |-> (qacc = "fin" /\ FiniteState) \/ Caught])
  /\ UNCHANGED <<layout, asleep, auto, rel, det, hadbad, qacc, ninj>>

Next == \/ \E t \in Targets, s \in Sites, c \in Classes : Inject(t, s, c)
        \/ \E b \in BOOLEAN : SetAuto(b)
        \/ Begin \/ CheckPos \/ CheckVel \/ Forward \/ CheckAcc \/ Integrate
Spec == Init /\ [][Next]_vars

\* ---- the property -------------------------------------------------------------------------------------------
Contents == {"def", "fin", "bad", "unk"}
TypeOK == /\ val \in [Targets -> [Sites -> Contents]] /\ rel \in [Warns -> {"same", "inc", "zero", "pos", "any"}]
          /\ ref \in -1..MaxSteps /\ qacc \in {"fin", "bad", "unk"} /\ asleep \in {"yes", "no", "unk"}
          /\ (layout = "none" => asleep = "no" /\ \A s \in Sites : val["sleeper"][s] = "def")
StepDone == ev.op = "step"
\* with autoreset every state component is finite after mj_step, whatever was injected where
AutoresetFinite == (StepDone /\ ev.auto) => ev.finite
\* a position / velocity / acceleration check that fired raised its counter
DetectedCounted == StepDone => \A w \in det \cap {"qpos", "qvel", "qacc"} : rel[w] \in {"inc", "pos"}
\* so did the control check, unless the acceleration check reset the data later in the same step (found by TLC:
\* bad ctrl together with bad act / applied force and autoreset leaves the BADCTRL counter at zero)
\* (or, after an unknown value met a check under autoreset, nothing is claimed)
CtrlCounted == (StepDone /\ "ctrl" \in det /\ ~("qacc" \in det /\ ev.auto)) => rel["ctrl"] \in {"inc", "pos", "any"}
\* bad positions at the start of a step are always detected, in sleeping trees too
BadStateDetected == [][(ev'.op = "checkPos" /\ \E t \in Targets : val[t]["qpos"] = "bad") => "qpos" \in det']_vars
\* bad velocities of a tree that is awake are always detected, whatever the position of sleeping trees
BadVelDetected == [][(ev'.op = "checkVel" /\ \E t \in Targets : val[t]["qvel"] = "bad" /\ (t = "awake" \/ asleep = "no"))
                       => "qvel" \in det']_vars
\* a bad force or activation applied to the tree that never sleeps is always detected by mj_checkAcc, whether or
\* not a sleeping tree precedes it in dof order (the index indirection of the sleep filter)
AwakeAccDetected == [][(ev'.op = "checkAcc" /\ qacc = "bad" /\ \E s \in {"qfrc", "xfrc", "act"} : val["awake"][s] = "bad")
                         => "qacc" \in det']_vars
\* so is one applied to a sleeping tree, because forward wakes that tree first
SleeperAccDetected == [][(ev'.op = "checkAcc" /\ qacc = "bad") => "qacc" \in det']_vars
\* touching a sleeping tree wakes it before the acceleration check
TouchWakes == [][(ev'.op = "forward" /\ asleep = "yes" /\ Disturbed) => asleep' = "no"]_vars
\* no bad or unknown value anywhere at the start of the step: no counter moves
NoSpuriousWarning == (StepDone /\ ~hadbad) => rel = Same
\* with autoreset, a detected bad position / velocity / acceleration leaves the data on the reference
\* trajectory, one step after the initial state, with the sleeper asleep again
Contained == (StepDone /\ ev.auto /\ det \cap {"qpos", "qvel", "qacc"} # {} /\ \A w \in Warns : rel[w] # "any")
                => (ev.ref = 1 /\ val = AllDef /\ asleep = InitSleep)
\* a reset clears the inputs too: nothing bad is left after a step with autoreset in which a check fired
NothingLeft == (StepDone /\ ev.auto /\ det \cap {"qpos", "qvel", "qacc"} # {})
                  => \A t \in Targets, s \in Sites : val[t][s] # "bad"

\* ---- constants for the configurations -------------------------------------------------------------------------
NoHist == <<layout, asleep, val, auto, ref, rel, det, hadbad, qacc, phase, nsteps, ninj, ev>>
AllClasses == {"ok", "huge", "nan", "inf", "ninf"}
BadOnly == BadClasses
\* the specification only distinguishes in-range from bad: two classes decide the properties, the others matter
\* for the values the replay writes
TwoClasses == {"ok", "nan"}
ThreeClasses == {"ok", "nan", "ninf"}
FourClasses == {"ok", "huge", "nan", "ninf"}
BothFlags == BOOLEAN
OnlyOn == {TRUE}
AllLayouts == {"none", "first", "last"}
NoSleep == {"none"}
SleepLayouts == {"first", "last"}
=============================================================================
