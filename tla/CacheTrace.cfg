SPECIFICATION TSpec
CONSTANTS
  Models = {"m1", "m2", "m3"}
  Ids = {"x", "y", "z", "w"}
  Stamps = {"t1", "t2", "t3"}
  Bytes = {1, 2, 3, 4}
  Caps = {0, 1, 2, 3, 4, 5, 6, 8}
  MaxOps = 1000
INVARIANT SizeIsSum
INVARIANT Bounded
INVARIANT RefsAgree
INVARIANT NoOrphans
INVARIANT InsUnique
CONSTRAINT Track
POSTCONDITION Report
CHECK_DEADLOCK FALSE
