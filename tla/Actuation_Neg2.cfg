SPECIFICATION Spec
CONSTANTS
  NJs <- L_One
  NAs <- L_One
  Presets <- L_PQ
  JPresets <- L_JQ
  Us <- L_U
  Ws <- L_W
  Q0s <- L_Q
  V0s <- L_V
  Hs <- L_H
  Clamps <- L_True
  Actuations <- L_True
  DisSets <- L_Dis0
  Gravs <- L_G0
  Variant = "gearsquared"

INVARIANT TypeOK
INVARIANT CtrlClamped
INVARIANT ForceInRange
INVARIANT JointInRange
INVARIANT DisabledNoForce
INVARIANT ActuationOffNoJointForce
INVARIANT DisabledFrozen
INVARIANT PowerBalance
INVARIANT Undriven
INVARIANT GravCompRouted
INVARIANT ActInRange
INVARIANT JointClampMinimal
INVARIANT MuscleEnvelope
INVARIANT MuscleCurveOK
CHECK_DEADLOCK FALSE
