SPECIFICATION Spec
CONSTANTS
  Hs <- L_H4
  Gs <- L_G1
  MPs <- L_MP2
  Q0s <- L_Q1
  V0s <- L_V2
  W0s <- L_W2
  T0s <- L_T0
  Us <- L_U2
  Fs <- L_F1
  Combos <- L_CombosNeg
  Acts <- L_ActsNeg
  MaxSteps = 1
  Variant = "explicitpos"
  Bound = 4096
  BoundRK = 64
INVARIANT TypeOK
INVARIANT GateSound
INVARIANT TimeAdvances
INVARIANT ActInRange
INVARIANT ForceInRange
INVARIANT CtrlClamp
INVARIANT Disabled
INVARIANT ActFrozen
INVARIANT ActLaw
INVARIANT SemiImplicit
INVARIANT UpdateEq
INVARIANT ImplicitIsEulerDamp
INVARIANT RK4Taylor
INVARIANT RK4ConstAcc
INVARIANT FreeFall
INVARIANT DamperContracts
CHECK_DEADLOCK FALSE
