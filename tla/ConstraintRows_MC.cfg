SPECIFICATION Spec
CONSTANTS
  MaxEq = 1
  MaxFr = 1
  MaxLim = 1
  MaxCon = 2
  Dims <- MC_Dims
INVARIANT TypeOK
INVARIANT BlocksOK
INVARIANT DoneOK
PROPERTY RegionOK
