---------------------------- MODULE SchemaGenReal ----------------------------
\* Edits of the checked-in src/xml/mjcf.schema and the change each generator's output must show.
\*
\* The base schema is opaque here (ExternD); an edit is one of
\*    attr     : append attribute zq (one of the templates RT) to a real element, directly or through a new
\*               group zg that the element uses
\*    item     : append a keyword to a real enum
\*    con      : append a presence constraint over two existing attributes of a real element
\*    rename   : give a real element the facet xml=<new tag>
\* and delta is what must change, generator by generator, expressed with the same descriptors as SchemaGen.tla
\* (XAttr, DType, ...) so that the harness can apply it to the parsed output of the UNEDITED schema and demand
\* equality with the parsed output of the edited one:    parse(generate(edited)) = Apply(delta, parse(generate(base))).
\* Everything not named in delta must be unchanged (nothing extra is emitted, nothing disappears).
\* Facts about the real file used here (element names with a unique XML tag, the struct field `double pos[3]`,
\* enum names, attribute names) are re-checked by the harness against the working tree before use.
EXTENDS SchemaGen

CONSTANTS RealElems,      \* subset of DOMAIN RE
          RealTs,         \* subset of DOMAIN RT
          RealVerbs       \* constraint verbs used by the con edits
VARIABLES edit, delta
rvars == <<sch, phase, ngrow, ev, broken, obs, aux, focus, gen, edit, delta>>

\* real elements (unique XML tag): bound struct, whether the struct has `double pos[3]`, two attributes that
\* exist in every context (for constraints)
RE == [
  camera   |-> [spec |-> "mjsCamera",   pos3 |-> TRUE,  a1 |-> "fovy",     a2 |-> "ipd"],
  light    |-> [spec |-> "mjsLight",    pos3 |-> TRUE,  a1 |-> "pos",      a2 |-> "dir"],
  material |-> [spec |-> "mjsMaterial", pos3 |-> FALSE, a1 |-> "emission", a2 |-> "specular"],
  key      |-> [spec |-> "mjsKey",      pos3 |-> FALSE, a1 |-> "time",     a2 |-> "qpos"],
  touch    |-> [spec |-> "mjsSensor",   pos3 |-> FALSE, a1 |-> "cutoff",   a2 |-> "noise"],
  pair     |-> [spec |-> "mjsPair",     pos3 |-> FALSE, a1 |-> "condim",   a2 |-> "margin"]
]
Custom == FId("reading", "custom")           \* no typed binding: the read / default tables have no row for it
RT == [
  pos3   |-> T("double", "", ArEx(3), DNone, <<FId("field", "pos")>>),            \* bound to an existing field
  pos3nd |-> T("double", "", ArEx(3), DNone, <<FId("field", "pos"), F("nodefault"), FId("writing", "custom")>>),
  int    |-> T("int", "", ArNone, DNum(3), <<Custom>>),
  nodef  |-> T("int", "", ArNone, DNum(-1), <<Custom, F("nodefault")>>),
  str    |-> T("string", "", ArNone, DStr("xyz"), <<Custom>>),
  req    |-> T("string", "", ArNone, DNone, <<F("required"), Custom>>),
  vec4   |-> T("float", "", ArEx(4), DVec(4), <<Custom>>),
  rng    |-> T("double", "", ArRg(1, 7), DVec(2), <<Custom>>),
  sym    |-> T("double", "", ArSym(0), DNone, <<Custom>>),
  unb    |-> T("int", "", ArUnb, DNone, <<Custom>>),
  bool   |-> T("bool", "", ArNone, DId("true"), <<Custom>>),
  enum   |-> T("enum", "camlight", ArNone, DId("fixed"), <<Custom>>),
  flags  |-> T("flags", "camlight", ArNone, DNone, <<Custom>>),
  minmax |-> T("int", "", ArNone, DNone, <<Custom, FNum("min", 0), FNum("max", 5)>>),
  posit  |-> T("double", "", ArNone, DNum(1), <<Custom, F("positive")>>),
  chars  |-> T("chars", "", ArEx(3), DNone, <<Custom, FStr("pattern", "[xyz]{3}")>>),
  charsr |-> T("chars", "", ArRg(1, 12), DNone, <<Custom>>),
  ref    |-> T("ref", "body", ArNone, DNone, <<Custom>>),
  file   |-> T("file", "", ArNone, DNone, <<Custom>>)
]
ZQ == "zq"
Projectable(a) == a.name \notin {"name", "class"} /\ ~HasFac(a, "nodefault")
\* dm_control: enum keywords come from the (real) enum; the harness substitutes the base keyword list
DTypeR(a) == IF a.type = "enum" THEN <<"keyword-of", a.target>> ELSE DType(<< >>, a)
ReadRows(e, a) ==
  IF HasFac(a, "reading") THEN << >>
  ELSE <<<<a.name, "kDouble", Hi(a.ar), Lo(a.ar) = Hi(a.ar), HasFac(a, "required"), HasFac(a, "nodefault"),
           HasFac(a, "writing"), RE[e].spec, FacOf(a, "field").s>>>>

NoDelta == [kind |-> "none"]
AttrDelta(e, a) ==
  [kind |-> "attr", elem |-> e, name |-> a.name, inproj |-> Projectable(a),
   xsd |-> XAttr(a), dm |-> <<a.name, DTypeR(a), HasFac(a, "required"), DefObs(a.def)>>,
   read |-> ReadRows(e, a),
   kwlist |-> IF a.type = "flags" THEN {a.target} ELSE {}]          \* xsd: kwlist_<enum> must now exist
ItemDelta(en, key, val) == [kind |-> "item", enum |-> en, key |-> key, val |-> val]
ConDelta(e, v, b) == [kind |-> "con", elem |-> e, con |-> <<KindChar(v), b>>, names |-> ConNames([bundles |-> b])]
RenameDelta(e, tag) == [kind |-> "rename", elem |-> e, tag |-> tag]

RInit == /\ sch = Seed.real /\ phase = "grow" /\ ngrow = 0 /\ aux = NoAux /\ focus = NoFocus
         /\ broken = {} /\ obs = << >> /\ gen = << >>
         /\ ev = [op |-> "init", rule |-> "none", kind |-> "", verdict |-> "accept"]
         /\ edit = [k |-> "none"] /\ delta = NoDelta
Keep == UNCHANGED <<sch, phase, ngrow, ev, broken, obs, aux, focus, gen>>
EditAttr(e, tid, via) ==
  /\ edit.k = "none" /\ (tid \in {"pos3", "pos3nd"} => RE[e].pos3)
  /\ edit' = [k |-> "attr", elem |-> e, via |-> via, attr |-> Attr(ZQ, RT[tid])]
  /\ delta' = AttrDelta(e, Attr(ZQ, RT[tid])) /\ Keep
EditItem(en, key, kk, val, vk) ==
  /\ edit.k = "none"
  /\ edit' = [k |-> "item", enum |-> en, item |-> Item(key, kk, val, vk)]
  /\ delta' = ItemDelta(en, key, val) /\ Keep
EditCon(e, v, plus) ==
  /\ edit.k = "none" /\ (v = "requires" => ~plus)
  /\ LET b == IF plus THEN <<<<RE[e].a1, RE[e].a2>>, <<RE[e].a2>>>> ELSE <<<<RE[e].a1>>, <<RE[e].a2>>>> IN
     /\ edit' = [k |-> "con", elem |-> e, con |-> Con(v, b)]
     /\ delta' = ConDelta(e, v, b)
  /\ Keep
EditRename(e, tag, quoted) ==
  /\ edit.k = "none"
  /\ edit' = [k |-> "rename", elem |-> e, fac |-> IF quoted THEN FStr("xml", tag) ELSE FId("xml", tag)]
  /\ delta' = RenameDelta(e, tag) /\ Keep

RNext == \/ \E e \in RealElems, tid \in RealTs, via \in {"direct", "group"} : EditAttr(e, tid, via)
         \/ \E en \in {"camlight", "enable"} : EditItem(en, "zkey", "id", "7", "num") \/ EditItem(en, "2z", "str", "mjZ_CONST", "id")
         \/ \E e \in RealElems, v \in RealVerbs, plus \in BOOLEAN : EditCon(e, v, plus)
         \/ \E e \in RealElems, q \in BOOLEAN : EditRename(e, "ztag", q)
RSpec == RInit /\ [][RNext]_rvars

\* ---- properties of the delta definitions ---------------------------------------------------------
\* the added attribute is valid in the edited schema (no rule of SchemaLang is broken by the template itself)
EditValid == edit.k = "attr" => AttrGrammar(edit.attr) = {}
                                /\ AttrSemantic(<< >>, [enn |-> {"camlight"}, ns |-> {"body"}], edit.attr) \subseteq {}
\* an attribute dropped in <default> context is exactly a nodefault one (the name is never name/class)
ProjRule == delta.kind = "attr" => (delta.inproj <=> ~HasFac(edit.attr, "nodefault"))
\* custom-read attributes have no read row; bound ones have exactly one, at the bound struct field
ReadRule == delta.kind = "attr" => (Len(delta.read) = IF HasFac(edit.attr, "reading") THEN 0 ELSE 1)
\* a constraint delta names only the two attributes of the element's fact sheet
ConRule == delta.kind = "con" => delta.names \subseteq {RE[delta.elem].a1, RE[delta.elem].a2}
DeltaMatchesEdit == /\ delta.kind = edit.k
                    /\ delta.kind \in {"attr", "con", "rename"} => delta.elem = edit.elem

AllReal  == DOMAIN RE
FewReal  == {"camera", "key"}
AllRT    == DOMAIN RT
FewVerbs == {"exclusive", "requires"}
FewRT    == {"pos3", "nodef", "vec4", "enum", "chars", "req"}
=============================================================================
