SPECIFICATION Spec
CONSTANTS
  MaxNodes = 2
  MaxAttrs = 0
  Skels = {"B"}
INVARIANT CodeNeverStricter
INVARIANT DiffOnlyUnderAlias
INVARIANT BogusInvalid
INVARIANT VerdictIsVerdict
CHECK_DEADLOCK FALSE
