SPECIFICATION Spec
CONSTANTS
  MinBodies = 1
  MaxBodies = 1
  JTypes <- J_S
  Axes <- Ax_One
  Offsets <- V_One
  Rots <- R_One
  Anchors <- V_Zero
  Refs <- I_Zero
  Masses <- I_One
  IPoss <- V_Zero
  IRots <- R_One
  SitePos <- V_One
  SiteRots <- R_One
  Zones <- Z_One
  MaxActs = 1
  Gears <- I_One
  Gains <- I_One
  Biases <- Bias_Zero
  TenCoefs <- I_Zero
  MinSensors = 0
  MaxSensors = 3
  Kinds <- K_Layout
  ObjTypes <- OT_Site
  RefTypes <- OT_None
  Cutoffs <- I_Zero
  UserDims <- I_12
  Qs <- I_One
  Vs <- I_One
  Ctrls <- I_One
  Times <- T_One
  DisFlags <- D_Both
  MaxCon = 0
  ConPos <- V_Zero
  ConFrc <- I_One
  MaxRounds = 1
  Rand = FALSE
INVARIANT TypeOK
INVARIANT LayoutPartition
INVARIANT WrittenExactly
INVARIANT CutoffRespected
INVARIANT CutoffDecidable
INVARIANT FramesProper
INVARIANT FrameRoundTrip
INVARIANT AxesAreUnit
INVARIANT SelfRelativeIsZero
INVARIANT ComIsWeightedMean
INVARIANT LocalVelNorm
INVARIANT TouchNonNegative
INVARIANT ClockIsTime
PROPERTY OnlyOwnSlices
CHECK_DEADLOCK FALSE
