SPECIFICATION Spec
CONSTANTS
  Ops <- AllOps
  InitMode = "all"
  TInit <- MC_TInit
  MaxOps = 1
  QArgs <- QuickQ
  ETurns <- AllE
  IArgs <- AllI
  KArgs <- AllK
  CheckGroup = FALSE
  Bug = "none"
  MaxT = 100
INVARIANT Closure
INVARIANT Homomorphism
INVARIANT ZeroRelExact
INVARIANT InverseGivesId
INVARIANT DoubleCover
INVARIANT Orthonormal
INVARIANT NormKept
INVARIANT QuatInverse
INVARIANT PoseInverse
PROPERTY NegIsInverse
PROPERTY IntegrateSub
PROPERTY PoseNegTwice
CHECK_DEADLOCK FALSE
