SPECIFICATION Spec
CONSTANTS
  MaxNodes = 0
  MaxAttrs = 2
  Skels <- SkBC
  TagSet <- AllTags
  BadSet <- AllBad
  RootTags <- Roots
INVARIANT VerdictIsVerdict
INVARIANT SkeletonsValid
INVARIANT CodeNeverStricter
INVARIANT DiffOnlyUnderAlias
INVARIANT BogusInvalid
INVARIANT BadValueInvalid
PROPERTY MonotoneInvalid
CHECK_DEADLOCK FALSE
