SPECIFICATION Spec
CONSTANTS
  MaxNodes = 9
  MaxAttrs = 5
INVARIANT CodeNeverStricter
INVARIANT DiffOnlyUnderAlias
INVARIANT BogusInvalid
INVARIANT VerdictIsVerdict
CHECK_DEADLOCK FALSE
