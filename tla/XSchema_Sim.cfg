SPECIFICATION Spec
CONSTANTS
  MaxNodes = 5
  MaxAttrs = 5
  Skels = {"A", "B"}
INVARIANT CodeNeverStricter
INVARIANT DiffOnlyUnderAlias
INVARIANT BogusInvalid
INVARIANT VerdictIsVerdict
CHECK_DEADLOCK FALSE
