------------------------------ MODULE Pipeline ------------------------------
\* C04 - staged and split pipeline calls equal the monolithic call.
\*
\* One mjData instance.  Nothing numeric: user-settable inputs carry version counters, every derived quantity
\* carries its PROVENANCE = the set of <<input class, version>> pairs that went into it (directly or through the
\* derived quantities it was computed from).  A quantity is FRESH iff every pair of its provenance is the current
\* version: exactly then it must be bit-identical to what the monolithic call computes from the current state.
\*
\*   inputs   pos  (qpos, mocap, eq_active, time)      vel (qvel)      acc (ctrl, act, applied forces, warm start)
\*            qacc (the VALUE of qacc as an input of inverse dynamics: bumped whenever qacc is rewritten)
\*            actv (the VALUE of the stored actuator forces, which the sensors of the inverse pipeline read)
\*   derived  pos posf spos epos | vel svel evel stv | act smooth qacc cfrc rne sacc | inv        (see Q below)
\*   lazy     flg.epos flg.evel flg.stv flg.rne  = mjData.flg_energypos, flg_energyvel, flg_subtreevel, flg_rnepost:
\*            "the quantity has been computed since the flag was last cleared"; a set flag makes the reader reuse
\*            the stored value, whatever its provenance
\* One action per stage function (engine_forward.c / engine_inverse.c / engine_sensor.c) with its read and write
\* sets; the public calls are sequences of stages (pc) exactly as the code sequences them.  Every stage appends the
\* events an observer can see (end of a timed stage function, callbacks) to `log`; ev.events is what the
\* implementation must show for the call.
EXTENDS Integers, Sequences, FiniteSets, TLC
CONSTANTS MaxOps,
          Opts,      \* option combinations (integrator decides the integration stage)
          Feats,     \* model feature records [energy, esens, stv, rne, usens]
          Stages,    \* single stage functions the caller may invoke directly ({} = none)
          Cb,        \* control callback: "none" | "observer"
          CbGate,    \* "asis": mj_step1 calls the control callback unconditionally, mj_forwardSkip only when
                     \*         actuation is enabled;  "uniform": both gate it on actuation enabled
          ActDis,    \* set of BOOLEAN: mjDSBL_ACTUATION values explored
          EKin,      \* "ideal": the kinetic-energy sensor (position stage) always evaluates mj_energyVel
                     \* "asis" : it trusts flg_energyvel, which is only cleared later, in the velocity stage
          Phased,    \* TRUE: draw the operation kind first (balanced -simulate behaviours)
          KeepHist   \* TRUE: every state carries the completed operations so far (each dumped state is a behaviour)

Inputs == {"pos", "vel", "acc", "qacc", "actv"}
Q == {"pos", "posf", "spos", "epos", "vel", "svel", "evel", "stv", "act", "smooth", "qacc", "cfrc", "rne", "sacc", "inv"}
Garb == {<<"g", 0>>}
Kinds == {"setpos", "setvel", "setctrl", "setapp", "setqacc", "reset", "forward", "fwdskip", "inverse", "invskip",
          "step", "step1", "step2", "stage"}

VARIABLES vin, tag, ck,     \* ck = which pipeline wrote cfrc / sacc last: "F" | "I"
          flg, poskind, velok,
          pc, call, log, nxt,
          opt, feat, actdis, kind, nops, ev, obs, hist
vars == <<vin, tag, ck, flg, poskind, velok, pc, call, log, nxt, opt, feat, actdis, kind, nops, ev, obs, hist>>
Rec == hist' = IF KeepHist THEN Append(hist, [ev |-> ev', obs |-> obs']) ELSE hist

P(i) == <<i, vin[i]>>
FreshIn(t, v, q) == \A p \in t[q] : p[1] # "g" /\ p[2] = v[p[1]]
Fresh(q) == FreshIn(tag, vin, q)
StepKind(i) == CASE i = 0 -> "euler" [] i = 1 -> "rk4" [] OTHER -> "implicit"

\* ---- the public calls as stage sequences (engine_forward.c: mj_forwardSkip, mj_step, mj_step1, mj_step2;
\*      engine_inverse.c: mj_inverseSkip) --------------------------------------------------------------------
FwdSeq(s, ss) ==
     (IF s < 1 THEN <<"fwdpos">> \o (IF ss = 0 THEN <<"senspos">> ELSE <<>>) \o <<"eposF">> ELSE <<>>)
  \o (IF s < 2 THEN <<"fwdvel">> \o (IF ss = 0 THEN <<"sensvel">> ELSE <<>>) \o <<"evel">> ELSE <<>>)
  \o <<"controlF", "fwdact", "fwdacc", "fwdcon">>
  \o (IF ss = 0 THEN <<"clrrne", "sensacc">> ELSE <<>>) \o <<"endfwd">>
IntegSeq(i) ==
  CASE i = 0 -> <<"euler">>
    [] i = 1 -> <<"rkset">> \o FwdSeq(0, 1) \o <<"rkset">> \o FwdSeq(0, 1) \o <<"rkset">> \o FwdSeq(0, 1) \o <<"rkadv">>
    [] OTHER -> <<"implicit">>
StepSeq  == <<"checkpos", "checkvel">> \o FwdSeq(0, 0) \o <<"checkacc">> \o IntegSeq(opt.integ)
Step1Seq == <<"checkpos", "checkvel", "fwdpos", "senspos", "eposF", "fwdvel", "sensvel", "evel", "control1">>
Step2Seq == <<"fwdact", "fwdacc", "fwdcon", "clrrne", "sensacc", "checkacc">>
            \o (IF opt.integ \in {2, 3} THEN <<"implicit">> ELSE <<"euler">>)      \* RK4 defaults to Euler
InvSeq(s, ss) ==
     (IF s < 1 THEN <<"invpos">> \o (IF ss = 0 THEN <<"senspos">> ELSE <<>>) \o <<"eposI">> ELSE <<>>)
  \o (IF s < 2 THEN <<"fwdvel">> \o (IF ss = 0 THEN <<"sensvel">> ELSE <<>>) \o <<"evel">> ELSE <<>>)
  \o <<"invcon", "invrne">> \o (IF ss = 0 THEN <<"clrrne", "sensacc">> ELSE <<>>) \o <<"invfin">>

\* ---- stage semantics: provenance written, flags, events -----------------------------------------------------
\* energies, subtree velocities and rnePostConstraint are evaluated lazily
EposNew == {P("pos")} \cup tag["pos"]
EvelNew == {P("vel")} \cup tag["pos"]
StvNew  == {P("vel")} \cup tag["pos"] \cup tag["vel"]
\* in the inverse pipeline qacc is an input (its current value), in the forward pipeline a derived quantity
InvPipe == IF call.op = "stage" THEN ck.cfrc = "I" ELSE call.op \in {"inverse", "invskip"}
QaccRead == IF InvPipe THEN {P("qacc")} ELSE tag["qacc"]
\* inverse dynamics does not compute actuator forces: its sensors read whatever value is stored (the reference of
\* an inverse call is a full copy of the instance, so that value is the same there until it is rewritten)
ActRead == IF InvPipe THEN {P("actv")} ELSE tag["act"]
RneNew  == {P("acc")} \cup tag["pos"] \cup tag["vel"] \cup QaccRead \cup tag["cfrc"]
\* the position-stage sensors include the potential and kinetic energy sensors
SensPosEpos == IF feat.esens /\ ~flg.epos THEN EposNew ELSE tag["epos"]
SensPosEvel == IF ~feat.esens THEN tag["evel"]
               ELSE IF EKin = "asis" /\ flg.evel THEN tag["evel"] ELSE EvelNew
SensVelStv  == IF feat.stv /\ ~flg.stv THEN StvNew ELSE tag["stv"]
SensAccRne  == IF feat.rne /\ ~flg.rne THEN RneNew ELSE tag["rne"]

TagAfter(st) ==
  CASE st = "fwdpos"  -> [tag EXCEPT !["pos"] = {P("pos")}, !["posf"] = {P("pos")}]
    [] st = "invpos"  -> [tag EXCEPT !["pos"] = {P("pos")}, !["posf"] = Garb]
    [] st = "senspos" -> [tag EXCEPT !["epos"] = SensPosEpos, !["evel"] = SensPosEvel,
                                     !["spos"] = {P("pos")} \cup tag["pos"]
                                                 \cup (IF feat.esens THEN SensPosEpos \cup SensPosEvel ELSE {})]
    [] st = "eposF"   -> IF flg.epos THEN tag
                         ELSE IF feat.energy THEN [tag EXCEPT !["epos"] = EposNew]
                         ELSE [tag EXCEPT !["epos"] = {}, !["evel"] = {}]          \* energy[0] = energy[1] = 0
    [] st = "eposI"   -> IF feat.energy /\ ~flg.epos THEN [tag EXCEPT !["epos"] = EposNew] ELSE tag
    [] st = "energyPos" -> [tag EXCEPT !["epos"] = EposNew]
    [] st = "fwdvel"  -> [tag EXCEPT !["vel"] = {P("vel"), P("pos")} \cup tag["pos"]]
    [] st = "sensvel" -> [tag EXCEPT !["stv"] = SensVelStv,
                                     !["svel"] = {P("vel"), P("pos")} \cup tag["pos"] \cup tag["vel"]
                                                 \cup (IF feat.stv THEN SensVelStv ELSE {})]
    [] st = "evel"    -> IF feat.energy /\ ~flg.evel THEN [tag EXCEPT !["evel"] = EvelNew] ELSE tag
    [] st = "energyVel" -> [tag EXCEPT !["evel"] = EvelNew]
    [] st = "fwdact"  -> [tag EXCEPT !["act"] = {P("acc")} \cup tag["pos"] \cup tag["vel"]]
    [] st = "fwdacc"  -> [tag EXCEPT !["smooth"] = {P("acc")} \cup tag["pos"] \cup tag["vel"] \cup tag["act"]]
    [] st = "fwdcon"  -> LET t == {P("acc")} \cup tag["pos"] \cup tag["posf"] \cup tag["vel"] \cup tag["smooth"] IN
                         [tag EXCEPT !["qacc"] = t, !["cfrc"] = t]
    [] st = "sensacc" -> [tag EXCEPT !["rne"] = SensAccRne,
                                     !["sacc"] = {P("acc"), P("pos"), P("vel")} \cup tag["pos"] \cup tag["vel"] \cup ActRead
                                                 \cup QaccRead \cup tag["cfrc"]
                                                 \cup (IF feat.rne THEN SensAccRne ELSE {})]
    [] st = "invcon"  -> [tag EXCEPT !["cfrc"] = {P("qacc")} \cup tag["pos"] \cup tag["vel"]]
    [] st = "invrne"  -> [tag EXCEPT !["inv"] = {P("qacc")} \cup tag["pos"] \cup tag["vel"] \cup tag["cfrc"]]
    [] OTHER -> tag
FlgAfter(st) ==
  CASE st \in {"fwdpos", "invpos"} -> [flg EXCEPT !.epos = FALSE]
    [] st = "senspos" -> [flg EXCEPT !.epos = flg.epos \/ feat.esens, !.evel = flg.evel \/ feat.esens]
    [] st = "eposF"   -> [flg EXCEPT !.epos = flg.epos \/ feat.energy]
    [] st = "eposI"   -> [flg EXCEPT !.epos = flg.epos \/ feat.energy]
    [] st = "energyPos" -> [flg EXCEPT !.epos = TRUE]
    [] st = "fwdvel"  -> [flg EXCEPT !.stv = FALSE, !.evel = FALSE]
    [] st = "sensvel" -> [flg EXCEPT !.stv = flg.stv \/ feat.stv]
    [] st = "evel"    -> [flg EXCEPT !.evel = flg.evel \/ feat.energy]
    [] st = "energyVel" -> [flg EXCEPT !.evel = TRUE]
    [] st = "clrrne"  -> [flg EXCEPT !.rne = FALSE]
    [] st = "sensacc" -> [flg EXCEPT !.rne = flg.rne \/ feat.rne]
    [] OTHER -> flg
\* qacc is rewritten by the forward constraint stage: its value as an input of inverse dynamics gets a new version;
\* time integration gives every input a new version (RK4 also while it evaluates its sub-steps)
Bump(S) == [i \in Inputs |-> IF i \in S THEN vin[i] + 1 ELSE vin[i]]
VinAfter(st) ==
  CASE st = "fwdcon" -> Bump({"qacc"})
    [] st = "fwdact" -> Bump({"actv"})
    [] st \in {"euler", "implicit", "rkadv"} -> Bump({"pos", "vel", "acc"})
    [] st = "rkset" -> Bump({"pos", "vel", "acc"})
    [] OTHER -> vin
CtlCalled(st) == /\ Cb # "none"
                 /\ \/ st = "controlF" /\ ~actdis
                    \/ st = "control1" /\ (CbGate = "asis" \/ ~actdis)
EventsOf(st) ==
  CASE st \in {"fwdpos", "invpos"} -> <<"POS">>
    [] st = "fwdvel"  -> <<"PAS", "VEL">>
    [] st = "senspos" -> IF feat.usens THEN <<"S0">> ELSE <<>>
    [] st = "sensvel" -> IF feat.usens THEN <<"S1">> ELSE <<>>
    [] st = "sensacc" -> IF feat.usens THEN <<"S2">> ELSE <<>>
    [] st \in {"controlF", "control1"} -> IF CtlCalled(st) THEN <<"CTL">> ELSE <<>>
    [] st = "fwdact"  -> <<"ACT">>
    [] st \in {"fwdcon", "invcon"} -> <<"CON">>
    [] st \in {"euler", "implicit"} -> <<"ADV">>
    [] st = "endfwd"  -> <<"FWD">>
    [] st = "invfin"  -> <<"INV">>
    [] OTHER -> <<>>
\* what the integrator reads: it is the monolithic step's result iff all of it is fresh
\* (mj_advance also stores sensor values in the history buffers, so the sensors belong to what it reads)
IntegReads == tag["qacc"] \cup tag["act"] \cup tag["smooth"] \cup tag["cfrc"] \cup tag["pos"] \cup tag["vel"]
              \cup tag["spos"] \cup tag["svel"] \cup tag["sacc"] \cup {P("pos"), P("vel"), P("acc")}
NxtAfter(st) ==
  IF st \in {"euler", "implicit", "rkadv"}
  THEN [kind |-> IF st = "rkadv" THEN "rk4" ELSE st,
        fresh |-> \A p \in IntegReads : p[1] # "g" /\ p[2] = vin[p[1]]]
  ELSE nxt

\* ---- initial state -------------------------------------------------------------------------------------------
NoObs == [F |-> {}, I |-> {}, flags |-> <<FALSE, FALSE, FALSE, FALSE>>, stepeq |-> FALSE, same |-> TRUE]
Init ==
  /\ vin = [i \in Inputs |-> 0] /\ tag = [q \in Q |-> Garb] /\ ck = [cfrc |-> "F", sacc |-> "F"]
  /\ flg = [epos |-> FALSE, evel |-> FALSE, stv |-> FALSE, rne |-> FALSE]
  /\ poskind = "none" /\ velok = FALSE /\ pc = <<>> /\ log = <<>>
  /\ nxt = [kind |-> "", fresh |-> FALSE]
  /\ opt \in Opts /\ feat \in Feats /\ actdis \in ActDis /\ kind = "" /\ nops = 0
  /\ call = [op |-> "", s |-> 0, ss |-> 0, st |-> "", v0 |-> [i \in Inputs |-> 0], pre |-> FALSE]
  /\ ev = [op |-> "init", s |-> 0, ss |-> 0, st |-> "", events |-> <<>>, opt |-> opt, feat |-> feat, actdis |-> actdis]
  /\ obs = NoObs /\ hist = <<>>

Idle == pc = <<>> /\ call.op = ""
Tick(k) == /\ Idle /\ nops < MaxOps /\ nops' = nops + 1
           /\ (IF Phased THEN kind = k ELSE kind = "") /\ kind' = ""
Choose == /\ Phased /\ Idle /\ kind = "" /\ nops < MaxOps /\ kind' \in Kinds
          /\ UNCHANGED <<vin, tag, ck, flg, poskind, velok, pc, call, log, nxt, opt, feat, actdis, nops, ev, obs, hist>>

\* what the implementation must show once the call has returned
FQ == {"pos", "spos", "epos", "vel", "svel", "evel", "stv", "act", "smooth", "qacc"}
ObsOf(v, t, c, f, nx, v0, op) ==
  [F |-> {q \in FQ : FreshIn(t, v, q)} \cup {q \in {"cfrc", "sacc"} : c[q] = "F" /\ FreshIn(t, v, q)},
   I |-> {q \in {"cfrc", "sacc"} : c[q] = "I" /\ FreshIn(t, v, q)} \cup {q \in {"inv"} : FreshIn(t, v, q)},
   flags |-> <<f.epos, f.evel, f.stv, f.rne>>,
   stepeq |-> op = "step2" /\ nx.fresh /\ nx.kind = StepKind(opt.integ),
   same |-> \A i \in {"pos", "vel", "acc"} : v0[i] = v[i]]

\* ---- the caller writes inputs ---------------------------------------------------------------------------------
Atomic(op, v) ==
  /\ UNCHANGED <<tag, ck, flg, poskind, velok, pc, call, log, nxt, opt, feat, actdis>>
  /\ vin' = v
  /\ ev' = [op |-> op, s |-> 0, ss |-> 0, st |-> "", events |-> <<>>, opt |-> opt, feat |-> feat, actdis |-> actdis]
  /\ obs' = ObsOf(v, tag, ck, flg, nxt, vin, op) /\ Rec
SetPos  == Tick("setpos")  /\ Atomic("setpos", Bump({"pos"}))
SetVel  == Tick("setvel")  /\ Atomic("setvel", Bump({"vel"}))
SetCtrl == Tick("setctrl") /\ Atomic("setctrl", Bump({"acc"}))
SetApp  == Tick("setapp")  /\ Atomic("setapp", Bump({"acc"}))
SetQacc ==
  /\ Tick("setqacc")
  /\ vin' = Bump({"qacc"}) /\ tag' = [tag EXCEPT !["qacc"] = Garb]      \* no longer an output of forward dynamics
  /\ UNCHANGED <<ck, flg, poskind, velok, pc, call, log, nxt, opt, feat, actdis>>
  /\ ev' = [op |-> "setqacc", s |-> 0, ss |-> 0, st |-> "", events |-> <<>>, opt |-> opt, feat |-> feat, actdis |-> actdis]
  /\ obs' = ObsOf(vin', tag', ck, flg, nxt, vin, "setqacc") /\ Rec
Reset ==
  /\ Tick("reset")
  /\ vin' = Bump(Inputs) /\ tag' = [q \in Q |-> Garb] /\ ck' = [cfrc |-> "F", sacc |-> "F"]
  /\ flg' = [epos |-> FALSE, evel |-> FALSE, stv |-> FALSE, rne |-> FALSE]
  /\ poskind' = "none" /\ velok' = FALSE /\ nxt' = [kind |-> "", fresh |-> FALSE]
  /\ UNCHANGED <<pc, call, log, opt, feat, actdis>>
  /\ ev' = [op |-> "reset", s |-> 0, ss |-> 0, st |-> "", events |-> <<>>, opt |-> opt, feat |-> feat, actdis |-> actdis]
  /\ obs' = ObsOf(vin', tag', ck', flg', nxt', vin, "reset") /\ Rec

\* ---- the caller starts a pipeline call --------------------------------------------------------------------------
SplitPre == Fresh("pos") /\ Fresh("posf") /\ Fresh("vel") /\ Fresh("spos") /\ Fresh("svel")
Begin(k, op, s, ss, st, seq) ==
  /\ Tick(k)
  /\ pc' = seq /\ log' = <<>>
  /\ call' = [op |-> op, s |-> s, ss |-> ss, st |-> st, v0 |-> vin,
              pre |-> IF op = "step2" THEN SplitPre
                      ELSE (s >= 1 => Fresh("pos") /\ Fresh("posf")) /\ (s >= 2 => Fresh("vel"))]
  /\ UNCHANGED <<vin, tag, ck, flg, poskind, velok, nxt, opt, feat, actdis, ev, obs, hist>>
Forward    == Idle /\ Begin("forward", "forward", 0, 0, "", FwdSeq(0, 0))
FwdSkip(s, ss) == /\ s + ss > 0 /\ (s >= 1 => poskind = "fwd") /\ (s >= 2 => velok)
                  /\ Begin("fwdskip", "fwdskip", s, ss, "", FwdSeq(s, ss))
Inverse    == Idle /\ Begin("inverse", "inverse", 0, 0, "", InvSeq(0, 0))
InvSkip(s, ss) == /\ s + ss > 0 /\ (s >= 1 => poskind # "none") /\ (s >= 2 => velok)
                  /\ Begin("invskip", "invskip", s, ss, "", InvSeq(s, ss))
Step       == Idle /\ Begin("step", "step", 0, 0, "", StepSeq)
Step1      == Idle /\ Begin("step1", "step1", 0, 0, "", Step1Seq)
Step2      == poskind = "fwd" /\ velok /\ Begin("step2", "step2", 0, 0, "", Step2Seq)
\* a single stage function called directly
StageOk(st) == CASE st = "fwdpos" -> TRUE
                 [] st = "fwdcon" -> poskind = "fwd" /\ velok
                 [] st = "energyPos" -> poskind # "none" /\ feat.energy
                 [] st = "energyVel" -> poskind # "none" /\ velok /\ feat.energy
                 [] st \in {"fwdvel", "senspos"} -> poskind # "none"
                 [] OTHER -> poskind # "none" /\ velok
StageCall(st) == StageOk(st) /\ Begin("stage", "stage", 0, 0, st, <<st>>)

\* ---- one stage of the running call ------------------------------------------------------------------------------
Stage ==
  /\ pc # <<>>
  /\ LET st == Head(pc) IN
     /\ tag' = TagAfter(st) /\ flg' = FlgAfter(st) /\ vin' = VinAfter(st) /\ nxt' = NxtAfter(st)
     /\ log' = log \o EventsOf(st)
     /\ poskind' = IF st = "fwdpos" THEN "fwd" ELSE IF st = "invpos" THEN "inv" ELSE poskind
     /\ velok' = (velok \/ st = "fwdvel")
     /\ ck' = [cfrc |-> IF st = "fwdcon" THEN "F" ELSE IF st = "invcon" THEN "I" ELSE ck.cfrc,
               sacc |-> IF st = "sensacc" THEN (IF InvPipe THEN "I" ELSE "F") ELSE ck.sacc]
  /\ pc' = Tail(pc)
  /\ UNCHANGED <<call, opt, feat, actdis, kind, nops, ev, obs, hist>>
Done ==
  /\ pc = <<>> /\ call.op # ""
  /\ ev' = [op |-> call.op, s |-> call.s, ss |-> call.ss, st |-> call.st, events |-> log, opt |-> opt, feat |-> feat,
            actdis |-> actdis]
  /\ obs' = ObsOf(vin, tag, ck, flg, nxt, call.v0, call.op) /\ Rec
  /\ call' = [call EXCEPT !.op = ""]
  /\ UNCHANGED <<vin, tag, ck, flg, poskind, velok, pc, log, nxt, opt, feat, actdis, kind, nops>>

Next ==
  \/ Choose \/ Stage \/ Done
  \/ SetPos \/ SetVel \/ SetCtrl \/ SetApp \/ SetQacc \/ Reset
  \/ Forward \/ Inverse \/ Step \/ Step1 \/ Step2
  \/ \E s \in 0..2, ss \in 0..1 : FwdSkip(s, ss)
  \/ \E s \in 0..2, ss \in 0..1 : InvSkip(s, ss)
  \/ \E st \in Stages : StageCall(st)
Spec == Init /\ [][Next]_vars

\* ---- properties --------------------------------------------------------------------------------------------------
TypeOK == /\ \A i \in Inputs : vin[i] \in Nat
          /\ \A q \in Q : \A p \in tag[q] : p[1] \in Inputs \cup {"g"}
          /\ poskind \in {"none", "fwd", "inv"} /\ nops \in 0..MaxOps
Returned(op) == pc = <<>> /\ call.op = op
FwdOut == {"pos", "posf", "vel", "act", "smooth", "qacc", "cfrc"}
SensOut == {"spos", "svel", "sacc", "epos", "evel"}
\* the full forward call leaves every output fresh
FreshAfterForward == Returned("forward") => \A q \in FwdOut \cup SensOut : Fresh(q)
\* skipping stages whose inputs are unchanged since they were last computed gives the outputs of the full call
FreshAfterSkip == (Returned("fwdskip") /\ call.pre) =>
                     /\ \A q \in FwdOut : Fresh(q)
                     /\ (call.ss = 0 => Fresh("sacc"))
FreshAfterInvSkip == ((Returned("invskip") \/ Returned("inverse")) /\ call.pre /\ poskind # "none") =>
                     /\ Fresh("cfrc") /\ Fresh("inv") /\ (call.ss = 0 => Fresh("sacc"))
\* mj_step1 ; (controls and applied forces change) ; mj_step2  =  mj_step   for Euler and the implicit integrators
SplitEq == (Returned("step2") /\ opt.integ # 1 /\ call.pre) => (nxt.fresh /\ nxt.kind = StepKind(opt.integ))
\* forward, inverse, step1 and single stages never change the state they read (qacc is an output of forward)
ReadOnlyCalls == (pc = <<>> /\ call.op \in {"forward", "fwdskip", "inverse", "invskip", "step1", "stage"}) =>
                    \A i \in {"pos", "vel", "acc"} : vin[i] = call.v0[i]
\* (repeated mj_forward is idempotent: by FreshAfterForward every output is fresh after each of the calls, and the
\*  calls change no input but the value of qacc, which forward dynamics does not read)
\* lazy evaluation: a set flag never hides a stale value from a full call
LazySound == Returned("forward") =>
                /\ (flg.epos => Fresh("epos")) /\ (flg.evel => Fresh("evel"))
                /\ (flg.stv => Fresh("stv")) /\ (flg.rne => Fresh("rne"))
\* a call that raises the control callback differently from the monolithic step (gray case, DESIGN section 7 item 14)
CtlSame == (pc = <<>> /\ call.op = "step1" /\ Cb # "none") =>
              ((\E k \in 1..Len(log) : log[k] = "CTL") <=> ~actdis)

\* ---- constants for the configurations ------------------------------------------------------------------------------
O(i, s, c, j, isl, w) == [integ |-> i, solver |-> s, cone |-> c, jac |-> j, island |-> isl, warm |-> w]
MC_Opt1 == {O(0, 2, 0, 2, 1, 1)}
MC_Opt4 == {O(i, 2, 0, 2, 1, 1) : i \in 0..3}
MC_OptsAll == {O(i, s, c, j, isl, w) : i \in 0..3, s \in 0..2, c \in 0..1, j \in 0..1, isl \in 0..1, w \in 0..1}
Ft(en, es, sv, rn, us) == [energy |-> en, esens |-> es, stv |-> sv, rne |-> rn, usens |-> us]
\* the feature vectors of the model pool (checks/_pipemodels.py)
MC_Feat1 == {Ft(TRUE, TRUE, TRUE, TRUE, FALSE)}
MC_FeatsPool == {Ft(TRUE, TRUE, TRUE, TRUE, FALSE), Ft(FALSE, FALSE, FALSE, TRUE, FALSE), Ft(TRUE, FALSE, TRUE, FALSE, FALSE),
                 Ft(FALSE, FALSE, FALSE, FALSE, FALSE), Ft(TRUE, FALSE, FALSE, TRUE, FALSE)}
\* with user sensors of the velocity / acceleration stage mj_subtreeVel / mj_rnePostConstraint are always needed
MC_FeatsUser == {Ft(TRUE, TRUE, TRUE, TRUE, TRUE), Ft(FALSE, FALSE, TRUE, TRUE, TRUE), Ft(TRUE, FALSE, TRUE, TRUE, TRUE)}
MC_NoStages == {}
MC_AllStages == {"fwdpos", "fwdvel", "fwdact", "fwdacc", "fwdcon", "senspos", "sensvel", "sensacc", "energyPos", "energyVel"}
MC_ActOn == {FALSE}
MC_ActBoth == {FALSE, TRUE}
=============================================================================
