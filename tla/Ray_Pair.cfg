SPECIFICATION Spec
CONSTANTS
  MaxBodies = 1
  MaxGeoms = 2
  MaxOps = 1
  BodyKinds <- Pair_Kinds
  Shapes <- Pair_Shapes
  Centers <- Pair_Centers
  Looks <- Pair_Looks
  GGroups <- Pair_GGroups
  VisFlags <- Pair_Vis
  Origins <- Pair_Origins
  Lens <- Pair_Lens
  Filters <- Pair_Filters
  Moves <- Pair_Moves
INVARIANT TypeOK
INVARIANT ScanIsNearest
INVARIANT MissIffNone
INVARIANT NearestSound
INVARIANT FilterMonotone
INVARIANT MultiIsSingle
CHECK_DEADLOCK FALSE
