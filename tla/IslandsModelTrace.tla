------------------------- MODULE IslandsModelTrace -------------------------
\* Trace validation for C17 (code -> spec): a trace is the history of one mjModel/mjData pair,
\*   [op |-> "add", kind, trees, out] | [op |-> "toggle", x, out]
\* where out is what mj_island published after the following mj_forward.  Every event must be explained by the
\* corresponding action of IslandsModel.tla, the published scalars/arrays must be the ones of obs', and the index
\* maps (which the specification does not fix element by element) must be mutually inverse permutations grouped
\* by island.  out.rowcons[r] = index of the constraint that produced constraint row r (from the construction).
EXTENDS IslandsModel, Json, IOUtils, TLCExt
Traces == JsonDeserialize(IOEnv.TRACE_FILE)
VARIABLES tid, l
tvars == <<vars, tid, l>>
Cur == Traces[tid][l]

RowsOK(o, ob) ==
  LET ni == ob.nisland
      ne == Len(o.rowcons)
      ei == Fn0(o.efc_island)
      e2i == Fn0(o.map_efc2iefc)  i2e == Fn0(o.map_iefc2efc)
      ety == Fn0(o.efc_type)
  IN /\ Len(o.efc_island) = ne /\ Len(o.map_efc2iefc) = ne /\ Len(o.map_iefc2efc) = ne
     \* every constraint row belongs to the island of its trees
     /\ \A r \in 1..ne : ob.cons_island[o.rowcons[r]] >= 0 /\ o.efc_island[r] = ob.cons_island[o.rowcons[r]]
     /\ MutuallyInverse(e2i, i2e, ne)
     /\ Len(o.island_nefc) = ni /\ Len(o.island_iefcadr) = ni
     /\ Grouped(e2i, ei, ne, ni, Fn0(o.island_nefc), Fn0(o.island_iefcadr))
     /\ \A c \in Range0(ne) : o.iefc_type[c + 1] = ety[i2e[c]] /\ o.iefc_id[c + 1] = o.efc_id[i2e[c] + 1]
     /\ \A i \in Range0(ni) : /\ o.island_ne[i + 1] = Cardinality({r \in Range0(ne) : ei[r] = i /\ ety[r] = 0})
                              /\ o.island_nf[i + 1] = Cardinality({r \in Range0(ne) : ei[r] = i /\ ety[r] \in {1, 2}})
OutOK(o, ob) ==
  /\ o.nisland = ob.nisland /\ o.nidof = ob.nidof /\ o.ntree = NT /\ o.nv = NV
  /\ IF ob.nisland = 0 THEN o.have = 0
     ELSE /\ o.have = 1
          /\ o.tree_island = ob.tree_island /\ o.dof_island = ob.dof_island
          /\ o.island_nv = ob.island_nv /\ o.island_idofadr = ob.island_idofadr
          /\ o.island_ntree = ob.island_ntree /\ o.island_itreeadr = ob.island_itreeadr
          /\ LET d2i == Fn0(o.map_dof2idof)  i2d == Fn0(o.map_idof2dof)
                 it2t == Fn0(o.map_itree2tree)
             IN /\ Len(o.map_dof2idof) = NV /\ Len(o.map_idof2dof) = NV /\ Len(o.map_itree2tree) = NT
                /\ MutuallyInverse(d2i, i2d, NV)
                /\ Grouped(d2i, Fn0(o.dof_island), NV, ob.nisland, Fn0(o.island_nv), Fn0(o.island_idofadr))
                /\ IsPerm(it2t, NT)
                /\ Grouped(Inverse(it2t, NT), Fn0(o.tree_island), NT, ob.nisland, Fn0(o.island_ntree), Fn0(o.island_itreeadr))
                \* island_dofadr: a dof of the island (its first one in the island ordering)
                /\ \A i \in Range0(ob.nisland) : o.island_dofadr[i + 1] = i2d[o.island_idofadr[i + 1]]
          /\ RowsOK(o, ob)

TInit == /\ tid \in 1..Len(Traces) /\ TLCSet(tid, 0) /\ l = 1 /\ Init
Consume == l <= Len(Traces[tid]) /\ l' = l + 1 /\ UNCHANGED tid
TAdd == /\ Consume /\ Cur.op = "add"
        /\ Cur.kind \in Kinds /\ Cur.trees \in Shapes(Cur.kind)
        /\ Add([kind |-> Cur.kind, trees |-> Cur.trees])
        /\ OutOK(Cur.out, obs')
TToggle == /\ Consume /\ Cur.op = "toggle" /\ Toggle(Cur.x) /\ OutOK(Cur.out, obs')
TNext == TAdd \/ TToggle
TSpec == TInit /\ [][TNext]_tvars
Track == IF l - 1 > TLCGet(tid) THEN TLCSet(tid, l - 1) ELSE TRUE
Accepted == \A t \in 1..Len(Traces) : TLCGet(t) = Len(Traces[t])
Report == /\ \A t \in 1..Len(Traces) : PrintT(<<"TRACE", t, TLCGet(t), Len(Traces[t])>>)
          /\ Accepted
=============================================================================
