SPECIFICATION Spec
CONSTANTS
  Hs <- L_H
  Ms <- L_M
  Ks <- L_K2
  Bs <- L_B3
  Polys <- L_P2
  Fs <- L_F2
  Q0s <- L_Q
  V0s <- L_V
  W0s <- L_W2
  T0s <- L_T2
  Us <- L_U2
  Integs <- L_AllInt
  EDamps <- L_Bool
  Dampers <- L_Bool
  Springs <- L_Bool
  Actuations <- L_True
  GroupOns <- L_True
  Acts <- L_Passive
  MaxSteps = 1
  MaxOff = 5
  Variant = "doc"
  Bound = 1024
  BoundRK = 64
VIEW ViewNoEv
INVARIANT TypeOK
INVARIANT DerivedOK
INVARIANT TimeAdvances
INVARIANT TimeIsSteps
INVARIANT ActInRange
INVARIANT ActLaw
INVARIANT EnclosureOK
INVARIANT FilterExactLaw
INVARIANT ActFrozen
INVARIANT SemiImplicit
INVARIANT UpdateEq
INVARIANT EulerDampEq
INVARIANT ImplicitIsEulerDamp
INVARIANT RK4Taylor
INVARIANT RK4ConstAcc
INVARIANT DamperContracts
INVARIANT PolyDampLaw
CHECK_DEADLOCK FALSE
