SPECIFICATION Spec
CONSTANTS
  Hs <- L_H
  Ms <- L_M
  Ks <- L_K
  Bs <- L_B
  Fs <- L_F
  Q0s <- L_Q
  V0s <- L_V
  W0s <- L_W2
  T0s <- L_T
  Us <- L_U2
  Integs <- L_AllInt
  EDamps <- L_Bool
  Dampers <- L_Bool
  Springs <- L_Bool
  Actuations <- L_True
  GroupOns <- L_True
  Acts <- L_Passive
  MaxSteps = 2
  Variant = "doc"
  Bound = 4096
  BoundRK = 64
VIEW ViewNoEv
INVARIANT TypeOK
INVARIANT DerivedOK
INVARIANT TimeAdvances
INVARIANT TimeIsSteps
INVARIANT ActInRange
INVARIANT ActLaw
INVARIANT ActFrozen
INVARIANT SemiImplicit
INVARIANT UpdateEq
INVARIANT EulerDampEq
INVARIANT ImplicitIsEulerDamp
INVARIANT RK4Taylor
INVARIANT RK4ConstAcc
INVARIANT DamperContracts
CHECK_DEADLOCK FALSE
