--------------------------- MODULE ConstraintCost ---------------------------
\* The soft-constraint penalty s(jar) of MuJoCo's reduced primal problem (doc/computation/index.rst,
\* "Constraint model": primal, reduced and dual problems) and the constraint update built on it
\* (src/engine/engine_core_constraint.c : mj_constraintUpdate_impl), over EXACT rationals <<num, den>>.
\*
\* What the documentation fixes:
\*   (reduced)  f = - grad s(jar),  s convex and once continuously differentiable, H[s] its Hessian;
\*   (dual)     f = argmin_{lambda in Omega}  1/2 lambda' R lambda + lambda' jar ,   s(jar) = - that minimum,
\*              Omega: equality rows free, friction-loss rows |lambda| <= eta, limits / frictionless /
\*              pyramidal rows lambda >= 0, elliptic contacts lambda in K = {f1 >= 0, f1^2 >= sum f_i^2 / mu_{i-1}^2};
\*   the regularizers of one elliptic contact are coupled:  R_j mu_j^2 = R_1 mu^2  ("automatically enforced").
\* The closed forms below (zone, cost and force of every zone, cone Hessian) are the analytical solution; TLC
\* decides on the lattices that they satisfy the documented relations:
\*   GradientOK  central difference quotient of the cost = - force . direction   (exact: the pieces are quadratic)
\*   C1OK        at a zone boundary the formulas of all adjacent zones give the same cost and the same force
\*   ConvexOK    midpoint convexity of the cost against every other lattice point
\*   DualValueOK cost = - dual objective at the force;   DualOptimalOK  no admissible probe has a smaller objective
\*   AdmissibleOK  the force lies in Omega
\*   HessianOK   difference quotient of the force = - H . direction (middle zone; the force is linear on the slice),
\*               H symmetric, v'Hv >= 0 on probe vectors
\* and publishes in `ev` the flattened arrays of a whole constraint update (inputs and expected state / force /
\* cost / cone Hessian) - the oracle of the replay into the real function.
\*
\* A problem is a sequence of BLOCKS (one action each): equality rows first, then friction-loss rows, then limit /
\* contact rows in any order, exactly the layout the function assumes (ne, nf, nefc; type and id arrays; one
\* mjContact per contact block).  Elliptic blocks live on rational slices of the cone: tangential part
\* U = t * dir with an integer direction of integer length nd, normal jar_1 = a * nd; then T = |t| nd is rational.
EXTENDS Integers, Sequences, FiniteSets, TLC

CONSTANTS MaxBlocks,
          EqD, EqJ,                    \* equality rows:      D, jar
          FrT, FrD, FrL, FrJ,          \* friction-loss rows: efc type (1 dof, 2 tendon), D, floss, jar
          UnT, UnD, UnJ,               \* unilateral rows:    efc type (3 limit joint, 4 limit tendon, 5 frictionless, 6 pyramidal), D, jar
          ElDim, ElMu, ElK, ElD, ElDir, ElA, ElT,   \* elliptic: dim, mu, friction-set index, D of the normal, direction index, a, t
          Hs                           \* steps of the difference quotients

\* ------------------------------------------------------------------------------------------------
\* exact rationals: <<num, den>>, den > 0, lowest terms (so equality of values is equality of tuples)
\* ------------------------------------------------------------------------------------------------
RECURSIVE GCD(_, _)
GCD(a, b) == IF b = 0 THEN a ELSE GCD(b, a % b)
IAbs(i)   == IF i < 0 THEN 0 - i ELSE i
Rt(n, d)  == LET g == GCD(IAbs(n), IAbs(d)) IN
             IF d < 0 THEN <<(0 - n) \div g, (0 - d) \div g>> ELSE <<n \div g, d \div g>>
Int(i)    == <<i, 1>>
Zero      == <<0, 1>>
One       == <<1, 1>>
Two       == <<2, 1>>
Add(x, y) == Rt(x[1] * y[2] + y[1] * x[2], x[2] * y[2])
Sub(x, y) == Rt(x[1] * y[2] - y[1] * x[2], x[2] * y[2])
Mul(x, y) == Rt(x[1] * y[1], x[2] * y[2])
Div(x, y) == Rt(x[1] * y[2], x[2] * y[1])            \* y # 0
Neg(x)    == <<0 - x[1], x[2]>>
Sq(x)     == Mul(x, x)
Half(x)   == Rt(x[1], 2 * x[2])
RAbs(x)   == <<IAbs(x[1]), x[2]>>
Lt(x, y)  == x[1] * y[2] < y[1] * x[2]
Le(x, y)  == x[1] * y[2] <= y[1] * x[2]
Pos(x)    == x[1] > 0
Mul3(x, y, z) == Mul(x, Mul(y, z))
RECURSIVE SumTo(_, _)
SumTo(f, k) == IF k = 0 THEN Zero ELSE Add(SumTo(f, k - 1), f[k])      \* f[1] + ... + f[k]
Dot(f, g, k) == SumTo([j \in 1..k |-> Mul(f[j], g[j])], k)
Qs(S, d) == {Rt(n, d) : n \in S}

\* ------------------------------------------------------------------------------------------------
\* blocks.  A block = parameters + a point (a, t) of its slice; scalar rows use dim = 1, nd = 1, jar = a.
\*   kind "eq" | "fric" | "uni" | "ell";  ty = efc type code (mjtConstraint)
\* ------------------------------------------------------------------------------------------------
FrSet(dim, k) ==      \* friction coefficients of an elliptic contact (dim - 1 of them)
  CASE dim = 3 /\ k = 1 -> <<One, One>>
    [] dim = 3 /\ k = 2 -> <<Rt(1, 2), Two>>
    [] dim = 4 /\ k = 1 -> <<One, One, One>>
    [] dim = 4 /\ k = 2 -> <<Two, Rt(1, 2), Rt(1, 4)>>
    [] dim = 6 /\ k = 1 -> <<One, One, One, One, One>>
    [] dim = 6 /\ k = 2 -> <<One, Two, Rt(1, 2), Rt(1, 4), Rt(1, 4)>>
DirSet(dim, k) ==     \* integer tangential directions with integer Euclidean length
  CASE dim = 3 /\ k = 1 -> [v |-> <<3, 4>>, nd |-> 5]
    [] dim = 3 /\ k = 2 -> [v |-> <<0, 1>>, nd |-> 1]
    [] dim = 3 /\ k = 3 -> [v |-> <<0 - 4, 3>>, nd |-> 5]
    [] dim = 4 /\ k = 1 -> [v |-> <<1, 2, 2>>, nd |-> 3]
    [] dim = 4 /\ k = 2 -> [v |-> <<3, 0, 0 - 4>>, nd |-> 5]
    [] dim = 4 /\ k = 3 -> [v |-> <<0, 0, 1>>, nd |-> 1]
    [] dim = 6 /\ k = 1 -> [v |-> <<1, 1, 1, 1, 0>>, nd |-> 2]
    [] dim = 6 /\ k = 2 -> [v |-> <<0, 2, 0 - 1, 0, 2>>, nd |-> 3]
    [] dim = 6 /\ k = 3 -> [v |-> <<0, 0, 0, 0, 1>>, nd |-> 1]

Scalar(kind, ty, D, fl, jar) ==
  [kind |-> kind, ty |-> ty, D |-> D, fl |-> fl, dim |-> 1, mu |-> One, fr |-> << >>, dir |-> << >>, nd |-> 1,
   a |-> jar, t |-> Zero]
Ell(dim, mu, k, D, dk, a, t) ==
  [kind |-> "ell", ty |-> 7, D |-> D, fl |-> Zero, dim |-> dim, mu |-> mu, fr |-> FrSet(dim, k),
   dir |-> DirSet(dim, dk).v, nd |-> DirSet(dim, dk).nd, a |-> a, t |-> t]

\* geometry of the slice
Jar(b, a, t) == [j \in 1..b.dim |-> IF j = 1 THEN Mul(a, Int(b.nd))
                                     ELSE Div(Mul(t, Int(b.dir[j - 1])), b.fr[j - 1])]
DJarDa(b) == [j \in 1..b.dim |-> IF j = 1 THEN Int(b.nd) ELSE Zero]
DJarDt(b) == [j \in 1..b.dim |-> IF j = 1 THEN Zero ELSE Div(Int(b.dir[j - 1]), b.fr[j - 1])]
\* coupled regularizers of one elliptic contact:  D_j = D mu_j^2 / mu^2   (R_j mu_j^2 = R_1 mu^2)
Dj(b, j) == IF j = 1 THEN b.D ELSE Div(Mul(b.D, Sq(b.fr[j - 1])), Sq(b.mu))
Rj(b, j) == Div(One, Dj(b, j))
Sc(b, j) == IF j = 1 THEN b.mu ELSE b.fr[j - 1]            \* dU/djar = diag(mu, friction)
NN(b, a) == Mul3(b.mu, a, Int(b.nd))                        \* N = mu jar_1
TT(b, t) == Mul(RAbs(t), Int(b.nd))                         \* T = | friction .* jar_tangential |
UU(b, t, j) == Mul(t, Int(b.dir[j - 1]))                    \* U_j, j in 2..dim
Dm(b) == Div(b.D, Mul(Sq(b.mu), Add(One, Sq(b.mu))))        \* D / (mu^2 (1 + mu^2))

\* ---- zones: the set of zones whose closure contains the point (two or three at a boundary)
ZonesOf(b, a, t) ==
  CASE b.kind = "eq"   -> {"quad"}
    [] b.kind = "fric" -> LET br == Div(b.fl, b.D) IN            \* R floss
                          {z \in {"linneg", "quad", "linpos"} :
                             \/ z = "linneg" /\ Le(a, Neg(br))
                             \/ z = "quad" /\ Le(Neg(br), a) /\ Le(a, br)
                             \/ z = "linpos" /\ Le(br, a)}
    [] b.kind = "uni"  -> {z \in {"sat", "quad"} : (z = "sat" /\ Le(Zero, a)) \/ (z = "quad" /\ Le(a, Zero))}
    [] b.kind = "ell"  -> LET n == NN(b, a)  tt == TT(b, t) IN
                          {z \in {"top", "middle", "bottom"} :
                             \/ z = "top" /\ Le(Mul(b.mu, tt), n)                              \* N >= mu T
                             \/ z = "bottom" /\ Le(Add(Mul(b.mu, n), tt), Zero)                \* mu N + T <= 0
                             \/ z = "middle" /\ Pos(tt) /\ Le(n, Mul(b.mu, tt)) /\ Le(Zero, Add(Mul(b.mu, n), tt))}
StateCode(z) == CASE z \in {"sat", "top"} -> 0 [] z \in {"quad", "bottom"} -> 1 [] z = "linneg" -> 2
                  [] z = "linpos" -> 3 [] z = "middle" -> 4

\* ---- cost and force of a zone (closed forms)
CostZ(b, z, a, t) ==
  CASE z = "quad"   -> Half(Mul(b.D, Sq(a)))
    [] z = "linneg" -> Sub(Neg(Half(Mul(Div(One, b.D), Sq(b.fl)))), Mul(b.fl, a))
    [] z = "linpos" -> Add(Neg(Half(Mul(Div(One, b.D), Sq(b.fl)))), Mul(b.fl, a))
    [] z \in {"sat", "top"} -> Zero
    [] z = "bottom" -> LET x == Jar(b, a, t) IN Half(SumTo([j \in 1..b.dim |-> Mul(Dj(b, j), Sq(x[j]))], b.dim))
    [] z = "middle" -> Half(Mul(Dm(b), Sq(Sub(NN(b, a), Mul(b.mu, TT(b, t))))))
ForceZ(b, z, a, t) ==
  CASE z = "quad"   -> <<Neg(Mul(b.D, a))>>
    [] z = "linneg" -> <<b.fl>>
    [] z = "linpos" -> <<Neg(b.fl)>>
    [] z = "sat"    -> <<Zero>>
    [] z = "top"    -> [j \in 1..b.dim |-> Zero]
    [] z = "bottom" -> LET x == Jar(b, a, t) IN [j \in 1..b.dim |-> Neg(Mul(Dj(b, j), x[j]))]
    [] z = "middle" -> LET nmt == Sub(NN(b, a), Mul(b.mu, TT(b, t)))
                           f1  == Neg(Mul3(Dm(b), nmt, b.mu))
                       IN [j \in 1..b.dim |-> IF j = 1 THEN f1
                                              ELSE Neg(Mul(Div(f1, TT(b, t)), Mul(UU(b, t, j), b.fr[j - 1])))]
AZone(b, a, t) == CHOOSE z \in ZonesOf(b, a, t) : TRUE
Cost(b, a, t)  == CostZ(b, AZone(b, a, t), a, t)
Force(b, a, t) == ForceZ(b, AZone(b, a, t), a, t)

\* ---- cone Hessian of the middle zone (dim x dim): Dm S [1, -mu U'/T ; -mu U/T, mu N/T^3 UU' + (mu^2 - mu N/T) I] S
HCore(b, a, t, j, k) ==
  LET n == NN(b, a)  tt == TT(b, t) IN
  IF j = 1 /\ k = 1 THEN One
  ELSE IF j = 1 THEN Neg(Div(Mul(b.mu, UU(b, t, k)), tt))
  ELSE IF k = 1 THEN Neg(Div(Mul(b.mu, UU(b, t, j)), tt))
  ELSE Add(Div(Mul3(Mul(b.mu, n), UU(b, t, j), UU(b, t, k)), Mul3(tt, tt, tt)),
           IF j = k THEN Sub(Sq(b.mu), Div(Mul(b.mu, n), tt)) ELSE Zero)
HMid(b, a, t) == [j \in 1..b.dim |-> [k \in 1..b.dim |-> Mul3(Dm(b), Mul(Sc(b, j), Sc(b, k)), HCore(b, a, t, j, k))]]
MatVec(h, v, n) == [j \in 1..n |-> Dot(h[j], v, n)]

\* ---- the documented dual problem of one block
DualQ(b, a, t, lam) == LET x == Jar(b, a, t) IN
  Add(Half(SumTo([j \in 1..b.dim |-> Mul(Rj(b, j), Sq(lam[j]))], b.dim)), Dot(lam, x, b.dim))
InOmega(b, lam) ==
  CASE b.kind = "eq"   -> TRUE
    [] b.kind = "fric" -> Le(RAbs(lam[1]), b.fl)
    [] b.kind = "uni"  -> Le(Zero, lam[1])
    [] b.kind = "ell"  -> /\ Le(Zero, lam[1])
                          /\ Le(SumTo([j \in 1..(b.dim - 1) |-> Div(Sq(lam[j + 1]), Sq(b.fr[j]))], b.dim - 1), Sq(lam[1]))
ProbeScal == Qs(-8..8, 2)
ProbeN    == {Zero, Rt(1, 2), One, Two, Int(4), Int(8), Int(16)}
ProbeS    == Qs(-4..4, 2)
Probes(b) ==
  IF b.kind # "ell" THEN {<<l>> : l \in ProbeScal}
  ELSE {[j \in 1..b.dim |-> IF j = 1 THEN n ELSE Div(Mul3(s, b.fr[j - 1], Int(b.dir[j - 1])), Int(b.nd))] :
           n \in ProbeN, s \in ProbeS}                                   \* along the slice direction
       \cup {[j \in 1..b.dim |-> IF j = 1 THEN n ELSE IF j = 2 THEN Mul(s, b.fr[1]) ELSE Zero] :
           n \in ProbeN, s \in ProbeS}                                   \* along the first friction axis

\* ------------------------------------------------------------------------------------------------
\* the state machine: one block per step; ev = the whole constraint update so far
\* ------------------------------------------------------------------------------------------------
VARIABLES last,     \* the block added by the last step ([kind |-> "none"] initially)
          nb,       \* number of blocks
          ne, nf,   \* equality / friction-loss row counts
          efc,      \* flattened rows: [ty, id, D, R, fl, jar, st (allowed state codes), f (force)]
          con,      \* contacts: [dim, mu, fr (5 coefficients), H (row-major dim*dim, or << >>)]
          cost,     \* total cost
          ev
vars == <<last, nb, ne, nf, efc, con, cost, ev>>

Init == /\ last = [kind |-> "none"] /\ nb = 0 /\ ne = 0 /\ nf = 0 /\ efc = << >> /\ con = << >> /\ cost = Zero
        /\ ev = [op |-> "init"]

Rank(kind) == CASE kind = "none" -> 0 [] kind = "eq" -> 1 [] kind = "fric" -> 2 [] OTHER -> 3
IsContact(b) == b.ty \in {5, 6, 7}
Pad5(fr) == [j \in 1..5 |-> IF j <= Len(fr) THEN fr[j] ELSE One]
RowsOf(b, cid) ==
  LET zs == ZonesOf(b, b.a, b.t)
      x  == Jar(b, b.a, b.t)
      f  == Force(b, b.a, b.t)
  IN [j \in 1..b.dim |-> [ty |-> b.ty, id |-> IF IsContact(b) THEN cid ELSE 0,
                          D |-> Dj(b, j), R |-> Rj(b, j), fl |-> b.fl, jar |-> x[j],
                          st |-> {StateCode(z) : z \in zs}, f |-> f[j]]]
ContactOf(b) ==
  IF ~IsContact(b) THEN << >>
  ELSE <<[dim |-> IF b.ty = 5 THEN 1 ELSE IF b.ty = 6 THEN 3 ELSE b.dim, mu |-> b.mu, fr |-> Pad5(b.fr),
          H |-> IF b.kind = "ell" /\ "middle" \in ZonesOf(b, b.a, b.t)
                THEN LET h == HMid(b, b.a, b.t) IN
                     [i \in 1..(b.dim * b.dim) |-> h[((i - 1) \div b.dim) + 1][((i - 1) % b.dim) + 1]]
                ELSE << >>]>>

AddBlock(b) ==
  /\ nb < MaxBlocks /\ Rank(b.kind) >= Rank(last.kind)
  /\ last' = b /\ nb' = nb + 1
  /\ ne' = IF b.kind = "eq" THEN ne + 1 ELSE ne
  /\ nf' = IF b.kind = "fric" THEN nf + 1 ELSE nf
  /\ efc' = efc \o RowsOf(b, Len(con))
  /\ con' = con \o ContactOf(b)
  /\ cost' = Add(cost, Cost(b, b.a, b.t))
  /\ ev' = [op |-> "update", ne |-> ne', nf |-> nf', efc |-> efc', con |-> con', cost |-> cost']

AddEq   == \E D \in EqD, x \in EqJ : AddBlock(Scalar("eq", 0, D, Zero, x))
AddFric == \E ty \in FrT, D \in FrD, l \in FrL, x \in FrJ : AddBlock(Scalar("fric", ty, D, l, x))
AddUni  == \E ty \in UnT, D \in UnD, x \in UnJ : AddBlock(Scalar("uni", ty, D, Zero, x))
AddEll  == \E dim \in ElDim, mu \in ElMu, k \in ElK, D \in ElD, dk \in ElDir, a \in ElA, t \in ElT :
             AddBlock(Ell(dim, mu, k, D, dk, a, t))
Next == AddEq \/ AddFric \/ AddUni \/ AddEll
Spec == Init /\ [][Next]_vars

\* ------------------------------------------------------------------------------------------------
\* properties (about the block just added; every block of every problem is `last` once)
\* ------------------------------------------------------------------------------------------------
Has == last.kind # "none"
PointsOf(b) == CASE b.kind = "eq" -> EqJ \X {Zero} [] b.kind = "fric" -> FrJ \X {Zero}
                 [] b.kind = "uni" -> UnJ \X {Zero} [] b.kind = "ell" -> ElA \X ElT
SliceDirs(b) == IF b.kind = "ell" THEN {<<1, 0>>, <<0, 1>>} ELSE {<<1, 0>>}
JarDir(b, e) == IF e[1] = 1 THEN DJarDa(b) ELSE DJarDt(b)
Pa(b, e, h) == Add(b.a, Mul(Int(e[1]), h))
Pt(b, e, h) == Add(b.t, Mul(Int(e[2]), h))
Ma(b, e, h) == Sub(b.a, Mul(Int(e[1]), h))
Mt(b, e, h) == Sub(b.t, Mul(Int(e[2]), h))
InZone(b, z, e, h) == z \in ZonesOf(b, Pa(b, e, h), Pt(b, e, h)) /\ z \in ZonesOf(b, Ma(b, e, h), Mt(b, e, h))

TypeOK == /\ nb \in 0..MaxBlocks /\ ne + nf <= nb /\ ne + nf <= Len(efc)
          /\ (Has => ZonesOf(last, last.a, last.t) # {})
          /\ \A i \in 1..Len(efc) : efc[i].st # {} /\ efc[i].D[1] > 0 /\ Mul(efc[i].D, efc[i].R) = One

GradientOK ==
  Has => LET b == last  zs == ZonesOf(b, b.a, b.t) IN
         Cardinality(zs) = 1 =>
           LET z == CHOOSE y \in zs : TRUE IN
           \A e \in SliceDirs(b) :
              /\ \E h \in Hs : InZone(b, z, e, h)
              /\ \A h \in Hs : InZone(b, z, e, h) =>
                    Div(Sub(Cost(b, Pa(b, e, h), Pt(b, e, h)), Cost(b, Ma(b, e, h), Mt(b, e, h))), Mul(Two, h))
                      = Neg(Dot(ForceZ(b, z, b.a, b.t), JarDir(b, e), b.dim))

C1OK ==
  Has => LET b == last  zs == ZonesOf(b, b.a, b.t) IN
         \A z1 \in zs, z2 \in zs :
            /\ CostZ(b, z1, b.a, b.t) = CostZ(b, z2, b.a, b.t)
            /\ \A j \in 1..b.dim : ForceZ(b, z1, b.a, b.t)[j] = ForceZ(b, z2, b.a, b.t)[j]

ConvexOK ==
  Has => LET b == last  c == Cost(b, b.a, b.t) IN
         /\ Le(Zero, c)
         /\ \A q \in PointsOf(b) :
               Le(Cost(b, Half(Add(b.a, q[1])), Half(Add(b.t, q[2]))), Half(Add(c, Cost(b, q[1], q[2]))))

DualValueOK ==
  Has => LET b == last IN Cost(b, b.a, b.t) = Neg(DualQ(b, b.a, b.t, Force(b, b.a, b.t)))

AdmissibleOK == Has => InOmega(last, Force(last, last.a, last.t))

DualOptimalOK ==
  Has => LET b == last  q0 == DualQ(b, b.a, b.t, Force(b, b.a, b.t)) IN
         \A lam \in Probes(b) : InOmega(b, lam) => Le(q0, DualQ(b, b.a, b.t, lam))

HessProbes(b) == {DJarDa(b), DJarDt(b), [j \in 1..b.dim |-> One],
                  [j \in 1..b.dim |-> IF j = 1 THEN Neg(One) ELSE Int(j)]}
                 \cup {[j \in 1..b.dim |-> IF j = i THEN One ELSE Zero] : i \in 1..b.dim}
HessianOK ==
  (Has /\ last.kind = "ell") =>
    LET b == last IN
    ZonesOf(b, b.a, b.t) = {"middle"} =>
      LET H == HMid(b, b.a, b.t) IN
      /\ \A j \in 1..b.dim, k \in 1..b.dim : H[j][k] = H[k][j]
      /\ \A v \in HessProbes(b) : Le(Zero, Dot(v, MatVec(H, v, b.dim), b.dim))
      /\ \A e \in SliceDirs(b) :
           /\ \E h \in Hs : InZone(b, "middle", e, h)
           /\ \A h \in Hs : InZone(b, "middle", e, h) =>
                LET fp == ForceZ(b, "middle", Pa(b, e, h), Pt(b, e, h))
                    fm == ForceZ(b, "middle", Ma(b, e, h), Mt(b, e, h))
                    hv == MatVec(H, JarDir(b, e), b.dim)
                IN \A j \in 1..b.dim : Div(Sub(fp[j], fm[j]), Mul(Two, h)) = Neg(hv[j])

\* the total is the sum of the blocks, the rows are laid out contiguously
LayoutOK ==
  /\ \A i \in 1..Len(efc) : (i <= ne => efc[i].ty = 0) /\ ((i > ne /\ i <= ne + nf) => efc[i].ty \in {1, 2})
                            /\ (i > ne + nf => efc[i].ty \in 3..7)
  /\ \A i \in 1..Len(efc) : efc[i].ty \in {5, 6, 7} => efc[i].id \in 0..(Len(con) - 1)
  /\ Le(Zero, cost)

\* ---- deliberately wrong variants, used as negative controls of the model checking itself
BadHalfOK ==      \* "lost factor 1/2": force would be -1/2 D jar
  Has => (last.kind = "eq" =>
          Div(Sub(Cost(last, Add(last.a, One), Zero), Cost(last, Sub(last.a, One), Zero)), Two)
            = Half(Mul(last.D, last.a)))

\* ------------------------------------------------------------------------------------------------
\* lattices for the configurations (cfg files cannot hold tuples)
\* ------------------------------------------------------------------------------------------------
L_D3      == {Rt(1, 2), One, Two}
L_D2      == {One, Two}
L_D1      == {Two}
L_EqJ     == Qs(-4..4, 2)
L_FrL     == {Rt(1, 2), One, Two}
L_FrJ     == Qs(-20..20, 4)                 \* contains every breakpoint +-R floss = 1/4 .. 4
L_FrT     == {1, 2}
L_FrT1    == {1}
L_UnT     == {3, 4, 5, 6}
L_UnJ     == Qs(-4..4, 2)
L_Dims    == {3, 4, 6}
L_Mu      == {Rt(1, 2), One, Two}
L_K2      == {1, 2}
L_K1      == {2}
L_Dir2    == {1, 2}
L_Dir3    == {1, 2, 3}
L_ElA     == {Int(0 - 4), Int(0 - 2), Int(0 - 1), Rt(0 - 1, 2), Rt(0 - 1, 4), Rt(0 - 1, 8), Zero,
              Rt(1, 4), Rt(1, 2), One, Two}
L_ElT     == {Int(0 - 2), Int(0 - 1), Rt(0 - 1, 2), Zero, Rt(1, 2), One, Two}
L_Hs      == {Rt(1, 4), Rt(1, 16), Rt(1, 128)}
\* tiny lattices for the exhaustive two-block run
S_D       == {Two}
S_EqJ     == {Int(0 - 1), Rt(1, 2)}
S_FrL     == {One}
S_FrJ     == {Int(0 - 1), Rt(0 - 1, 2), Zero, Rt(1, 2), Two}
S_UnT     == {3, 6}
S_UnJ     == {Int(0 - 1), Zero, One}
S_Dims    == {3, 4, 6}
S_Mu      == {Rt(1, 2)}
S_K       == {2}
S_Dir     == {1}
S_ElA     == {Int(0 - 4), Rt(0 - 1, 2), One}
S_ElT     == {Zero, One}
=============================================================================
