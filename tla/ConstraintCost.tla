--------------------------- MODULE ConstraintCost ---------------------------
\* The soft-constraint penalty s(jar) of MuJoCo's reduced primal problem (doc/computation/index.rst,
\* "Constraint model": primal, reduced and dual problems) and the constraint update built on it
\* (src/engine/engine_core_constraint.c : mj_constraintUpdate_impl), over EXACT rationals <<num, den>>.
\*
\* What the documentation fixes:
\*   (reduced)  f = - grad s(jar),  s convex and once continuously differentiable, H[s] its Hessian;
\*   (dual)     f = argmin_{lambda in Omega}  1/2 lambda' R lambda + lambda' jar ,   s(jar) = - that minimum,
\*              Omega: equality rows free, friction-loss rows |lambda| <= eta, limits / frictionless /
\*              pyramidal rows lambda >= 0, elliptic contacts lambda in K = {f1 >= 0, f1^2 >= sum f_i^2 / mu_{i-1}^2};
\*   the regularizers of one elliptic contact are coupled:  R_j mu_j^2 = R_1 mu^2  ("automatically enforced").
\* The closed forms below (zone, cost and force of every zone, cone Hessian) are the analytical solution; TLC
\* decides on the lattices that they satisfy the documented relations:
\*   GradientOK  central difference quotient of the cost = - force . direction   (exact: the pieces are quadratic)
\*   C1OK        at a zone boundary the formulas of all adjacent zones give the same cost and the same force
\*   ConvexOK    cost >= 0, midpoint convexity against partner lattice points, non-negative second differences
\*   DualValueOK cost = - dual objective at the force;   DualOptimalOK  no admissible probe has a smaller objective
\*   AdmissibleOK  the force lies in Omega
\*   HessianOK   difference quotient of the force = - H . direction (middle zone; the force is linear on the slice),
\*               H symmetric, v'Hv >= 0 on probe vectors
\* and builds, block by block, the flattened arrays of a whole constraint update in the variables efc / con / cost
\* (inputs and expected state set / force / cost / cone Hessian) - the oracle of the replay into the real function.
\* Variant # "doc" switches on deliberately wrong formulas (negative controls: TLC must refute them).
\*
\* A problem is a sequence of BLOCKS (three short steps each: Pick, Point, Apply): equality rows first, then friction-loss rows, then limit /
\* contact rows in any order, exactly the layout the function assumes (ne, nf, nefc; type and id arrays; one
\* mjContact per contact block).  Elliptic blocks live on rational slices of the cone: tangential part
\* U = t * dir with an integer direction of integer length nd, normal jar_1 = a * nd; then T = |t| nd is rational.
EXTENDS Integers, Sequences, FiniteSets, TLC

CONSTANTS MaxBlocks,
          EqD, EqJ,                    \* equality rows:      D, jar
          FrT, FrD, FrL, FrJ,          \* friction-loss rows: efc type (1 dof, 2 tendon), D, floss, jar
          UnT, UnD, UnJ,               \* unilateral rows:    efc type (3 limit joint, 4 limit tendon, 5 frictionless, 6 pyramidal), D, jar
          ElDim, ElMu, ElK, ElD, ElDir, ElA, ElT,   \* elliptic: dim, mu, friction-set index, D of the normal, direction index, a, t
          CvA, CvT,                    \* partner points of the midpoint-convexity test on the cone slice
          Hs,                          \* steps of the difference quotients
          Deep,                        \* TRUE: all properties are evaluated; FALSE: only the cheap ones (long compositions)
          Variant                      \* "doc" = the documented model; other values are deliberately wrong (negative controls)

\* ------------------------------------------------------------------------------------------------
\* exact rationals: <<num, den>>, den > 0, lowest terms (so equality of values is equality of tuples)
\* ------------------------------------------------------------------------------------------------
RECURSIVE GCD(_, _)
GCD(a, b) == IF b = 0 THEN a ELSE GCD(b, a % b)
IAbs(i)   == IF i < 0 THEN 0 - i ELSE i
Rt(n, d)  == LET g == GCD(IAbs(n), IAbs(d)) IN
             IF d < 0 THEN <<(0 - n) \div g, (0 - d) \div g>> ELSE <<n \div g, d \div g>>
RI(i)    == <<i, 1>>
Zero      == <<0, 1>>
One       == <<1, 1>>
Two       == <<2, 1>>
Add(x, y) == LET g == GCD(x[2], y[2]) IN Rt(x[1] * (y[2] \div g) + y[1] * (x[2] \div g), (x[2] \div g) * y[2])
Sub(x, y) == LET g == GCD(x[2], y[2]) IN Rt(x[1] * (y[2] \div g) - y[1] * (x[2] \div g), (x[2] \div g) * y[2])
Mul(x, y) == LET g1 == GCD(IAbs(x[1]), y[2])  g2 == GCD(IAbs(y[1]), x[2]) IN      \* cross-reduced: no needless overflow
             <<(x[1] \div g1) * (y[1] \div g2), (x[2] \div g2) * (y[2] \div g1)>>
Div(x, y) == IF y[1] < 0 THEN Mul(x, <<0 - y[2], 0 - y[1]>>) ELSE Mul(x, <<y[2], y[1]>>)      \* y # 0
Neg(x)    == <<0 - x[1], x[2]>>
Sq(x)     == Mul(x, x)
Half(x)   == Rt(x[1], 2 * x[2])
RAbs(x)   == <<IAbs(x[1]), x[2]>>
Lt(x, y)  == x[1] * y[2] < y[1] * x[2]
Le(x, y)  == x[1] * y[2] <= y[1] * x[2]
Pos(x)    == x[1] > 0
Mul3(x, y, z) == Mul(x, Mul(y, z))
Qs(S, d) == {Rt(n, d) : n \in S}

\* ------------------------------------------------------------------------------------------------
\* blocks.  A block = parameters + a point (a, t) of its slice; scalar rows use dim = 1, nd = 1, jar = a.
\*   kind "eq" | "fric" | "uni" | "ell";  ty = efc type code (mjtConstraint)
\* ------------------------------------------------------------------------------------------------
FrSet(dim, k) ==      \* friction coefficients of an elliptic contact (dim - 1 of them)
  CASE dim = 3 /\ k = 1 -> <<One, One>>
    [] dim = 3 /\ k = 2 -> <<Rt(1, 2), Two>>
    [] dim = 4 /\ k = 1 -> <<One, One, One>>
    [] dim = 4 /\ k = 2 -> <<Two, Rt(1, 2), Rt(1, 4)>>
    [] dim = 6 /\ k = 1 -> <<One, One, One, One, One>>
    [] dim = 6 /\ k = 2 -> <<One, Two, Rt(1, 2), Rt(1, 4), Rt(1, 4)>>
DirSet(dim, k) ==     \* integer tangential directions with integer Euclidean length
  CASE dim = 3 /\ k = 1 -> [v |-> <<3, 4>>, nd |-> 5]
    [] dim = 3 /\ k = 2 -> [v |-> <<0, 1>>, nd |-> 1]
    [] dim = 3 /\ k = 3 -> [v |-> <<0 - 4, 3>>, nd |-> 5]
    [] dim = 4 /\ k = 1 -> [v |-> <<1, 2, 2>>, nd |-> 3]
    [] dim = 4 /\ k = 2 -> [v |-> <<3, 0, 0 - 4>>, nd |-> 5]
    [] dim = 4 /\ k = 3 -> [v |-> <<0, 0, 1>>, nd |-> 1]
    [] dim = 6 /\ k = 1 -> [v |-> <<1, 1, 1, 1, 0>>, nd |-> 2]
    [] dim = 6 /\ k = 2 -> [v |-> <<0, 2, 0 - 1, 0, 2>>, nd |-> 3]
    [] dim = 6 /\ k = 3 -> [v |-> <<0, 0, 0, 0, 1>>, nd |-> 1]

Scalar(kind, ty, D, fl, jar) ==
  [kind |-> kind, ty |-> ty, D |-> D, fl |-> fl, dim |-> 1, mu |-> One, fr |-> << >>, dir |-> << >>, nd |-> 1,
   a |-> jar, t |-> Zero]
Ell(dim, mu, k, D, dk, a, t) ==
  [kind |-> "ell", ty |-> 7, D |-> D, fl |-> Zero, dim |-> dim, mu |-> mu, fr |-> FrSet(dim, k),
   dir |-> DirSet(dim, dk).v, nd |-> DirSet(dim, dk).nd, a |-> a, t |-> t]

\* Every quantity is defined ENTRY-WISE (operators of an index), and sums are folds over an operator argument:
\* TLC re-evaluates an aggregate each time it is indexed, so vectors are never built to be indexed in a loop.
RECURSIVE Sum(_, _)
Sum(F(_), k) == IF k = 0 THEN Zero ELSE Add(Sum(F, k - 1), F(k))              \* F(1) + ... + F(k)

\* geometry of the slice
JarJ(b, a, t, j) == IF j = 1 THEN Mul(a, RI(b.nd)) ELSE Div(Mul(t, RI(b.dir[j - 1])), b.fr[j - 1])
DJarDaJ(b, j) == IF j = 1 THEN RI(b.nd) ELSE Zero
DJarDtJ(b, j) == IF j = 1 THEN Zero ELSE Div(RI(b.dir[j - 1]), b.fr[j - 1])
\* coupled regularizers of one elliptic contact:  D_j = D mu_j^2 / mu^2   (R_j mu_j^2 = R_1 mu^2)
Dj(b, j) == IF j = 1 THEN b.D ELSE Div(Mul(b.D, Sq(b.fr[j - 1])), Sq(b.mu))
Rj(b, j) == Div(One, Dj(b, j))
Sc(b, j) == IF j = 1 THEN b.mu ELSE b.fr[j - 1]            \* dU/djar = diag(mu, friction)
NN(b, a) == Mul3(b.mu, a, RI(b.nd))                        \* N = mu jar_1
TT(b, t) == Mul(RAbs(t), RI(b.nd))                         \* T = | friction .* jar_tangential |
UU(b, t, j) == Mul(t, RI(b.dir[j - 1]))                    \* U_j, j in 2..dim
Dm(b) == IF Variant = "midscale" THEN Div(b.D, Sq(b.mu))     \* (wrong on purpose)
         ELSE Div(b.D, Mul(Sq(b.mu), Add(One, Sq(b.mu))))   \* D / (mu^2 (1 + mu^2))
NmT(b, a, t) == Sub(NN(b, a), Mul(b.mu, TT(b, t)))          \* N - mu T

\* ---- zones: the set of zones whose closure contains the point (two or three at a boundary)
InZ(b, z, a, t) ==
  CASE z = "quad" /\ b.kind = "eq" -> TRUE
    [] z = "linneg" -> Le(Mul(a, b.D), Neg(b.fl))                                  \* jar <= -R floss
    [] z = "quad" /\ b.kind = "fric" -> Le(Neg(b.fl), Mul(a, b.D)) /\ Le(Mul(a, b.D), b.fl)
    [] z = "linpos" -> Le(b.fl, Mul(a, b.D))                                       \* jar >= R floss
    [] z = "sat" -> Le(Zero, a)
    [] z = "quad" /\ b.kind = "uni" -> Le(a, Zero)
    [] z = "top" -> Le(Mul(b.mu, TT(b, t)), NN(b, a))                              \* N >= mu T
    [] z = "bottom" -> Le(Add(Mul(b.mu, NN(b, a)), TT(b, t)), Zero)                \* mu N + T <= 0
    [] z = "middle" -> /\ Pos(TT(b, t)) /\ Le(NN(b, a), Mul(b.mu, TT(b, t)))
                       /\ Le(Zero, Add(Mul(b.mu, NN(b, a)), TT(b, t)))
ZoneNames(b) == CASE b.kind = "eq" -> {"quad"} [] b.kind = "fric" -> {"linneg", "quad", "linpos"}
                  [] b.kind = "uni" -> {"sat", "quad"} [] b.kind = "ell" -> {"top", "middle", "bottom"}
ZonesOf(b, a, t) == {z \in ZoneNames(b) : InZ(b, z, a, t)}
StateCode(z) == CASE z \in {"sat", "top"} -> 0 [] z \in {"quad", "bottom"} -> 1 [] z = "linneg" -> 2
                  [] z = "linpos" -> 3 [] z = "middle" -> 4

\* ---- cost and force of a zone (closed forms)
CostZ(b, z, a, t) ==
  CASE z = "quad"   -> IF Variant = "nohalf" THEN Mul(b.D, Sq(a)) ELSE Half(Mul(b.D, Sq(a)))
    [] z = "linneg" -> Sub(Neg(Half(Div(Sq(b.fl), b.D))), Mul(b.fl, a))          \* -1/2 R floss^2 - floss jar
    [] z = "linpos" -> Add(Neg(Half(Div(Sq(b.fl), b.D))), Mul(b.fl, a))          \* -1/2 R floss^2 + floss jar
    [] z \in {"sat", "top"} -> Zero
    [] z = "bottom" -> Half(Sum(LAMBDA j : Mul(Dj(b, j), Sq(JarJ(b, a, t, j))), b.dim))
    [] z = "middle" -> Half(Mul(Dm(b), Sq(NmT(b, a, t))))
ForceZJ(b, z, a, t, j) ==
  CASE z = "quad"   -> Neg(Mul(b.D, a))
    [] z = "linneg" -> b.fl
    [] z = "linpos" -> Neg(b.fl)
    [] z \in {"sat", "top"} -> Zero
    [] z = "bottom" -> Neg(Mul(Dj(b, j), JarJ(b, a, t, j)))
    [] z = "middle" -> IF j = 1 THEN Neg(Mul3(Dm(b), NmT(b, a, t), b.mu))
                       ELSE Div(Mul3(Mul3(Dm(b), NmT(b, a, t), b.mu), UU(b, t, j), b.fr[j - 1]), TT(b, t))
AZone(b, a, t) == CHOOSE z \in ZoneNames(b) : InZ(b, z, a, t)
Cost(b, a, t)  == CostZ(b, AZone(b, a, t), a, t)

\* ---- cone Hessian of the middle zone (dim x dim): Dm S [1, -mu U'/T ; -mu U/T, mu N/T^3 UU' + (mu^2 - mu N/T) I] S
HCore(b, a, t, j, k) ==
  IF j = 1 /\ k = 1 THEN One
  ELSE IF j = 1 THEN Neg(Div(Mul(b.mu, UU(b, t, k)), TT(b, t)))
  ELSE IF k = 1 THEN Neg(Div(Mul(b.mu, UU(b, t, j)), TT(b, t)))
  ELSE Add(Div(Mul3(Mul(b.mu, NN(b, a)), UU(b, t, j), UU(b, t, k)), Mul3(TT(b, t), TT(b, t), TT(b, t))),
           IF j = k THEN Sub(Sq(b.mu), Div(Mul(b.mu, NN(b, a)), TT(b, t))) ELSE Zero)
HE(b, a, t, j, k) == Mul3(Dm(b), Mul(Sc(b, j), Sc(b, k)), HCore(b, a, t, j, k))

\* ---- the admissible set Omega of one block (lam(j) = j-th component of a candidate force)
InOmega(b, lam(_)) ==
  CASE b.kind = "eq"   -> TRUE
    [] b.kind = "fric" -> Le(RAbs(lam(1)), b.fl)
    [] b.kind = "uni"  -> Le(Zero, lam(1))
    [] b.kind = "ell"  -> /\ Le(Zero, lam(1))
                          /\ Le(Sum(LAMBDA j : Div(Sq(lam(j + 1)), Sq(b.fr[j])), b.dim - 1), Sq(lam(1)))
ProbeScal == Qs(-8..8, 2)
ProbeN    == {Zero, Rt(1, 2), Two, RI(8), RI(32)}
ProbeS    == {RI(0 - 2), Rt(0 - 1, 2), Zero, Rt(1, 4), One, RI(4)}
\* probe forces of an elliptic block: normal n, tangential s along the slice direction (w = 1) or the first axis (w = 2)
ProbeJ(b, n, s, w, j) == IF j = 1 THEN n
                         ELSE IF w = 1 THEN Div(Mul3(s, b.fr[j - 1], RI(b.dir[j - 1])), RI(b.nd))
                         ELSE IF j = 2 THEN Mul(s, b.fr[1]) ELSE Zero

\* ------------------------------------------------------------------------------------------------
\* the state machine.  One block = three short steps (small branching per step):
\*   Pick<Kind>  chooses kind and parameters          phase "param" -> "point"
\*   Point       chooses the point (a, t)             phase "point" -> "apply"
\*   Apply       evaluates the block and appends its rows / contact to the constraint update; publishes ev
\* ------------------------------------------------------------------------------------------------
VARIABLES phase,
          pend,     \* the block being chosen ([kind |-> "none"] if none)
          last,     \* the block evaluated by the last Apply ([kind |-> "none"] initially)
          nb,       \* number of blocks
          ne, nf,   \* equality / friction-loss row counts
          \* the constraint update so far = the call the replay makes and the results the function must return:
          efc,      \* flattened rows: [ty, id, D, R, fl, jar | st (allowed state codes), f (force)]
          con,      \* contacts: [dim, mu, fr (5 coefficients) | H (row-major dim*dim; << >> if no point of the middle zone)]
          cost,     \* total cost
          ev        \* last operation
vars == <<phase, pend, last, nb, ne, nf, efc, con, cost, ev>>
None == [kind |-> "none"]

Init == /\ phase = "param" /\ pend = None /\ last = None /\ nb = 0 /\ ne = 0 /\ nf = 0
        /\ efc = << >> /\ con = << >> /\ cost = Zero /\ ev = [op |-> "init"]

Rank(kind) == CASE kind = "none" -> 0 [] kind = "eq" -> 1 [] kind = "fric" -> 2 [] OTHER -> 3
IsContact(b) == b.ty \in {5, 6, 7}
Pad5(fr) == [j \in 1..5 |-> IF j <= Len(fr) THEN fr[j] ELSE One]
RowsOf(b, cid) ==
  [j \in 1..b.dim |-> [ty |-> b.ty, id |-> IF IsContact(b) THEN cid ELSE 0,
                       D |-> Dj(b, j), R |-> Rj(b, j), fl |-> b.fl, jar |-> JarJ(b, b.a, b.t, j),
                       st |-> {StateCode(z) : z \in ZonesOf(b, b.a, b.t)},
                       f |-> ForceZJ(b, AZone(b, b.a, b.t), b.a, b.t, j)]]
ContactOf(b) ==
  IF ~IsContact(b) THEN << >>
  ELSE <<[dim |-> IF b.ty = 5 THEN 1 ELSE IF b.ty = 6 THEN 3 ELSE b.dim, mu |-> b.mu, fr |-> Pad5(b.fr),
          H |-> IF b.kind = "ell" /\ InZ(b, "middle", b.a, b.t)
                THEN [i \in 1..(b.dim * b.dim) |-> HE(b, b.a, b.t, ((i - 1) \div b.dim) + 1, ((i - 1) % b.dim) + 1)]
                ELSE << >>]>>

Pick(b) ==
  /\ phase = "param" /\ nb < MaxBlocks /\ Rank(b.kind) >= Rank(last.kind)
  /\ pend' = b /\ phase' = "point"
  /\ UNCHANGED <<last, nb, ne, nf, efc, con, cost, ev>>
PickEq   == \E D \in EqD : Pick(Scalar("eq", 0, D, Zero, Zero))
PickFric == \E ty \in FrT, D \in FrD, l \in FrL : Pick(Scalar("fric", ty, D, l, Zero))
PickUni  == \E ty \in UnT, D \in UnD : Pick(Scalar("uni", ty, D, Zero, Zero))
PickEll  == \E dim \in ElDim, mu \in ElMu, k \in ElK, D \in ElD, dk \in ElDir : Pick(Ell(dim, mu, k, D, dk, Zero, Zero))

PointsOf(b) == CASE b.kind = "eq" -> EqJ \X {Zero} [] b.kind = "fric" -> FrJ \X {Zero}
                 [] b.kind = "uni" -> UnJ \X {Zero} [] b.kind = "ell" -> ElA \X ElT
Point ==
  /\ phase = "point"
  /\ \E q \in PointsOf(pend) : pend' = [pend EXCEPT !.a = q[1], !.t = q[2]]
  /\ phase' = "apply"
  /\ UNCHANGED <<last, nb, ne, nf, efc, con, cost, ev>>

Apply ==
  /\ phase = "apply"
  /\ LET b == pend IN
     /\ last' = b /\ nb' = nb + 1
     /\ ne' = IF b.kind = "eq" THEN ne + 1 ELSE ne
     /\ nf' = IF b.kind = "fric" THEN nf + 1 ELSE nf
     /\ efc' = efc \o RowsOf(b, Len(con))
     /\ con' = con \o ContactOf(b)
     /\ cost' = Add(cost, Cost(b, b.a, b.t))
     /\ ev' = [op |-> "update", nb |-> nb', nefc |-> Len(efc'), ncon |-> Len(con')]
  /\ pend' = None /\ phase' = "param"

Next == PickEq \/ PickFric \/ PickUni \/ PickEll \/ Point \/ Apply
Spec == Init /\ [][Next]_vars

\* ------------------------------------------------------------------------------------------------
\* properties, about the block just evaluated (every block of every problem is `last` once).
\* The block's own force / jar / D / R / H are read back from the published rows (state values, not recomputed).
\* ------------------------------------------------------------------------------------------------
Has == last.kind # "none" /\ phase = "param"        \* a freshly evaluated block
Off == Len(efc) - last.dim
F(j)  == efc[Off + j].f
X(j)  == efc[Off + j].jar
RR(j) == efc[Off + j].R
HH(j, k) == con[Len(con)].H[(j - 1) * last.dim + k]
SliceDirs(b) == IF b.kind = "ell" THEN {<<1, 0>>, <<0, 1>>} ELSE {<<1, 0>>}
JarDirJ(b, e, j) == IF e[1] = 1 THEN DJarDaJ(b, j) ELSE DJarDtJ(b, j)
Pa(b, e, h) == Add(b.a, Mul(RI(e[1]), h))
Pt(b, e, h) == Add(b.t, Mul(RI(e[2]), h))
Ma(b, e, h) == Sub(b.a, Mul(RI(e[1]), h))
Mt(b, e, h) == Sub(b.t, Mul(RI(e[2]), h))
InZone(b, z, e, h) == InZ(b, z, Pa(b, e, h), Pt(b, e, h)) /\ InZ(b, z, Ma(b, e, h), Mt(b, e, h))
MyZones == ZonesOf(last, last.a, last.t)

TypeOK == /\ nb \in 0..MaxBlocks /\ ne + nf <= nb /\ ne + nf <= Len(efc)
          /\ phase \in {"param", "point", "apply"}
          /\ (Has => \A i \in 1..Len(efc) : efc[i].st # {} /\ efc[i].D[1] > 0 /\ Mul(efc[i].D, efc[i].R) = One)

\* force = - d cost / d jar: the central difference quotient of a quadratic piece is exact
\* (quantifying over a one-element set binds a computed VALUE once)
GradientOK ==
  (Has /\ Deep) =>
    LET b == last IN
    \A zs \in {MyZones} :
      Cardinality(zs) = 1 =>
        \A z \in zs, e \in SliceDirs(b) :
           /\ \E h \in Hs : InZone(b, z, e, h)
           /\ \A h \in Hs : InZone(b, z, e, h) =>
                 Div(Sub(Cost(b, Pa(b, e, h), Pt(b, e, h)), Cost(b, Ma(b, e, h), Mt(b, e, h))), Mul(Two, h))
                   = Neg(Sum(LAMBDA j : Mul(F(j), JarDirJ(b, e, j)), b.dim))

\* C1 at zone boundaries: every adjacent zone's formulas give the same cost and the same force there
C1OK ==
  Has => LET b == last IN
         \A zs \in {MyZones} :
           /\ zs # {}
           /\ \A z \in zs : /\ CostZ(b, z, b.a, b.t) = Cost(b, b.a, b.t)
                            /\ \A j \in 1..b.dim : ForceZJ(b, z, b.a, b.t, j) = F(j)

\* convexity: midpoint inequality against partner points, and non-negative second differences in four directions
Partners(b) == CASE b.kind = "eq" -> EqJ \X {Zero} [] b.kind = "fric" -> FrJ \X {Zero}
                 [] b.kind = "uni" -> UnJ \X {Zero} [] b.kind = "ell" -> CvA \X CvT
ConvDirs(b) == IF b.kind = "ell" THEN {<<1, 0>>, <<0, 1>>, <<1, 1>>, <<1, 0 - 1>>} ELSE {<<1, 0>>}
ConvexOK ==
  (Has /\ Deep) =>
    LET b == last IN
    \A c \in {Cost(b, b.a, b.t)} :
      /\ Le(Zero, c)
      /\ \A q \in Partners(b) :
            Le(Cost(b, Half(Add(b.a, q[1])), Half(Add(b.t, q[2]))), Half(Add(c, Cost(b, q[1], q[2]))))
      /\ \A e \in ConvDirs(b), h \in Hs :
            Le(Add(c, c), Add(Cost(b, Pa(b, e, h), Pt(b, e, h)), Cost(b, Ma(b, e, h), Mt(b, e, h))))

\* the documented dual problem:  s(jar) = - min_{lambda in Omega} 1/2 lambda' R lambda + lambda' jar,  f = argmin
MyQ(lam(_)) == Add(Half(Sum(LAMBDA j : Mul(RR(j), Sq(lam(j))), last.dim)), Sum(LAMBDA j : Mul(lam(j), X(j)), last.dim))
DualValueOK == Has => Cost(last, last.a, last.t) = Neg(MyQ(F))
AdmissibleOK == Has => InOmega(last, F)
DualOptimalOK ==
  (Has /\ Deep) =>
    LET b == last IN
    \A q0 \in {MyQ(F)} :
      IF b.kind # "ell"
      THEN \A l \in ProbeScal : InOmega(b, LAMBDA j : l) => Le(q0, MyQ(LAMBDA j : l))
      ELSE \A n \in ProbeN, s \in ProbeS, w \in {1, 2} :
              InOmega(b, LAMBDA j : ProbeJ(b, n, s, w, j)) => Le(q0, MyQ(LAMBDA j : ProbeJ(b, n, s, w, j)))

\* cone Hessian = - d force / d jar (the force is linear on the slice inside the middle zone), symmetric, v'Hv >= 0
\* probe vectors: unit vectors (w = i), the two slice directions (w = 7, 8), two mixed ones (w = 9, 10)
HProbeJ(b, w, j) == CASE w <= 6 -> (IF j = w THEN One ELSE Zero)
                      [] w = 7 -> DJarDaJ(b, j) [] w = 8 -> DJarDtJ(b, j)
                      [] w = 9 -> One [] w = 10 -> (IF j = 1 THEN Neg(One) ELSE RI(j))
HV(v(_), j) == Sum(LAMBDA k : Mul(HH(j, k), v(k)), last.dim)                 \* (H v)_j
HessianOK ==
  (Has /\ Deep /\ last.kind = "ell") =>
    LET b == last IN
    MyZones = {"middle"} =>
      /\ \A j \in 1..b.dim, k \in 1..b.dim : HH(j, k) = HH(k, j)
      /\ \A w \in (1..b.dim) \cup 7..10 :
            Le(Zero, Sum(LAMBDA j : Mul(HProbeJ(b, w, j), HV(LAMBDA k : HProbeJ(b, w, k), j)), b.dim))
      /\ \A e \in SliceDirs(b) :
           /\ \E h \in Hs : InZone(b, "middle", e, h)
           /\ \A h \in Hs : InZone(b, "middle", e, h) =>
                \A j \in 1..b.dim :
                   Div(Sub(ForceZJ(b, "middle", Pa(b, e, h), Pt(b, e, h), j),
                           ForceZJ(b, "middle", Ma(b, e, h), Mt(b, e, h), j)), Mul(Two, h))
                     = Neg(HV(LAMBDA k : JarDirJ(b, e, k), j))

\* the total is the sum of the blocks, the rows are laid out contiguously in the order the function assumes
LayoutOK ==
  Has =>
  /\ \A i \in 1..Len(efc) : (i <= ne => efc[i].ty = 0) /\ ((i > ne /\ i <= ne + nf) => efc[i].ty \in {1, 2})
                            /\ (i > ne + nf => efc[i].ty \in 3..7)
  /\ \A i \in 1..Len(efc) : efc[i].ty \in {5, 6, 7} => efc[i].id \in 0..(Len(con) - 1)
  /\ Le(Zero, cost)
  /\ (IsContact(last) <=> (Len(con) > 0 /\ efc[Len(efc)].id = Len(con) - 1 /\ efc[Len(efc)].ty \in {5, 6, 7}))

\* ------------------------------------------------------------------------------------------------
\* lattices for the configurations (cfg files cannot hold tuples)
\* ------------------------------------------------------------------------------------------------
L_D3      == {Rt(1, 2), One, Two}
L_D2      == {One, Two}
L_D1      == {Two}
L_EqJ     == Qs(-4..4, 2)
L_FrT     == {1, 2}
L_FrL     == {Rt(1, 2), One, Two}
L_FrJ     == Qs(-20..20, 4)                 \* contains every breakpoint +-R floss = 1/4 .. 4
L_UnT     == {3, 4, 5, 6}
L_UnJ     == Qs(-4..4, 2)
L_Dims    == {3, 4, 6}
L_Mu      == {Rt(1, 2), One, Two}
L_K2      == {1, 2}
L_K1      == {2}
L_Dir1    == {1}
L_Dir2    == {1, 2}
L_Dir3    == {1, 2, 3}
\* the slice lattice contains every boundary point  a = |t| (top)  and  a = -|t| / mu^2 (bottom)
L_ElA     == {RI(0 - 4), RI(0 - 2), RI(0 - 1), Rt(0 - 1, 2), Rt(0 - 1, 4), Rt(0 - 1, 8), Zero,
              Rt(1, 4), Rt(1, 2), One, Two}
L_ElT     == {RI(0 - 2), RI(0 - 1), Rt(0 - 1, 2), Zero, Rt(1, 2), One, Two}
L_CvA     == {RI(0 - 4), RI(0 - 1), Rt(0 - 1, 4), Zero, Rt(1, 2), Two}
L_CvT     == {RI(0 - 2), Rt(0 - 1, 2), Zero, One}
Q_ElA     == {RI(0 - 4), RI(0 - 1), Rt(0 - 1, 2), Rt(0 - 1, 8), Zero, Rt(1, 2), One}
Q_ElT     == {RI(0 - 1), Zero, Rt(1, 2), One}
Q_CvA     == {RI(0 - 2), Rt(0 - 1, 4), One}
Q_CvT     == {RI(0 - 1), Zero, Two}
L_Hs      == {Rt(1, 4), Rt(1, 16), Rt(1, 64)}
\* tiny lattices for the exhaustive two-block run
S_D       == {Two}
S_EqJ     == {RI(0 - 1), Rt(1, 2)}
S_FrT     == {1}
S_FrL     == {One}
S_FrJ     == {RI(0 - 1), Rt(0 - 1, 2), Zero, Rt(1, 2), Two}
S_UnT     == {3, 6}
S_UnJ     == {RI(0 - 1), Zero, One}
S_Dims    == {3, 4, 6}
S_Mu      == {Rt(1, 2)}
S_K       == {2}
S_Dir     == {1}
S_ElA     == {RI(0 - 4), Rt(0 - 1, 2), One}
S_ElT     == {Zero, One}
=============================================================================
