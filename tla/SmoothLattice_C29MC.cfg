SPECIFICATION Spec
CONSTANTS
  MinBodies = 1
  MaxBodies = 2
  JTypes <- AllJ
  Axes <- Ax13
  Offsets <- K_Off1
  Rots <- R0
  Anchors <- K_Anc1
  SitePos <- K_Site1
  SiteRots <- K_SRot1
  Masses <- One1
  Inertias <- K_Inr1
  IPoss <- K_IPos1
  Arms <- One0
  Stiffs <- P_K1
  Refs <- One0
  Damps <- One1
  GCs <- One1
  TCoefs <- D_TC2
  Qs <- One1
  Vs <- P_V1
  As <- One0
  QScales <- QS1
  Gravs <- K_G1
  DisSets <- NoDis
  TenK <- P_K1
  TenRanges <- Rng0
  TenDamps <- One1
  TenArms <- One0
  TenZero <- NoTz
  SpPairs <- NoSpS
  SpArms <- One0
  Sleeps <- NoTz
  StiffPolys <- P_KP1
  DampPolys <- P_DP1
  TenKPolys <- P_TKP1
  TenDPolys <- P_TDP1
  SpStiffs <- T000
  SpRanges <- Rng0
  SpDamps <- T000
  Level = 3
  Tie = FALSE
  Rand = FALSE
INVARIANT TypeOK
INVARIANT SpringIsMinusGradient
INVARIANT DamperDissipates
INVARIANT GravcompCancels
INVARIANT FullGravcompBalances
INVARIANT RestAtReferenceIsForceFree
INVARIANT KaneIsRecursive
INVARIANT JacIsDerivative
INVARIANT DamperIsOdd
INVARIANT SpatialJacIsDerivative
CHECK_DEADLOCK FALSE
