SPECIFICATION Spec
CONSTANTS
  NSeeds = 2500
  Sizes <- Sizes23
  Warms <- AllWarms
INVARIANT UniqueKKT
INVARIANT SPD
INVARIANT BeatsVertices
INVARIANT InBox
CHECK_DEADLOCK FALSE
