SPECIFICATION Spec
CONSTANTS
  MinBodies = 1
  MaxBodies = 1
  JTypes <- J_H
  Axes <- Ax_One
  Offsets <- V_One
  Rots <- R_XZ
  Anchors <- V_One
  Refs <- I_Zero
  Masses <- I_One
  IPoss <- V_Zero
  IRots <- R_One
  SitePos <- V_One
  SiteRots <- R_XZ
  Zones <- Z_All
  MaxActs = 0
  Gears <- I_One
  Gains <- I_One
  Biases <- Bias_Zero
  TenCoefs <- I_Zero
  MinSensors = 1
  MaxSensors = 1
  Kinds <- K_Touch
  ObjTypes <- OT_Site
  RefTypes <- OT_None
  Cutoffs <- I_Cut
  UserDims <- I_12
  Qs <- I_01
  Vs <- I_One
  Ctrls <- I_One
  Times <- T_One
  DisFlags <- D_Off
  MaxCon = 1
  ConPos <- V_Con
  ConFrc <- I_m12
  MaxRounds = 1
  Rand = FALSE
INVARIANT TypeOK
INVARIANT LayoutPartition
INVARIANT WrittenExactly
INVARIANT CutoffRespected
INVARIANT CutoffDecidable
INVARIANT FramesProper
INVARIANT FrameRoundTrip
INVARIANT AxesAreUnit
INVARIANT SelfRelativeIsZero
INVARIANT ComIsWeightedMean
INVARIANT LocalVelNorm
INVARIANT TouchNonNegative
INVARIANT ClockIsTime
PROPERTY OnlyOwnSlices
CHECK_DEADLOCK FALSE
