----------------------------- MODULE MjxContact -----------------------------
\* C43 (contact clause) - contact geometry on a lattice where it is rational: a sphere over a horizontal plane, and two
\* spheres whose centres lie on a vertical line (mjx/_src/collision_primitive.py: plane_sphere, sphere_sphere;
\* collision_driver.py: collision; constraint.py: the contact rows; C engine: mjc_PlaneSphere, mjc_SphereSphere,
\* mj_collision, mj_instantiateContact).
\*   plane-sphere    dist = height of the centre over the plane - radius, normal = plane normal,
\*                   pos = centre - normal * (radius + dist/2)
\*   sphere-sphere   dist = |c2 - c1| - r1 - r2, normal = (c2 - c1)/|c2 - c1| (geom1 -> geom2),
\*                   pos = c1 + normal * (r1 + dist/2)
\*   a contact is detected        iff dist < margin + gap        (doc/computation "margin and gap" of this tree)
\*   it produces a constraint row iff dist < margin              (contacts in the gap zone are listed but inactive)
\* One behaviour = one pair: Place (choose the geometry) ; Collide (distance, position, normal) ; Include (margin tests).
\* `ev` of the last phase is what both implementations must report.  Cases exactly on a threshold are kept out.
EXTENDS MjxRat, TLC, FiniteSets
CONSTANTS Kinds,        \* subset of {"plane-sphere", "sphere-sphere", "sphere-sphere-rev"}; rev: the upper sphere is geom1
                        \* (the engine orders a pair by geom id, so the replay defines the upper sphere first)
          Zs,           \* height of the (upper) sphere centre / of the plane offset
          Z0s,          \* height of the plane / of the lower sphere centre
          R1s, R2s,     \* radius of the (upper) sphere, radius of the lower sphere
          Margins, Gaps,
          Variant       \* "doc"; "midpoint" = a deliberately wrong contact position (negative control)

VARIABLES g,      \* geometry record
          pc, c,  \* phase, collision result
          ev
vars == <<g, pc, c, ev>>
R(n, d) == Rt(n, d)
NoC == [dist |-> Zero, pz |-> Zero, nz |-> Zero]

Init == /\ g \in [kind : Kinds, z : Zs, z0 : Z0s, r1 : R1s, r2 : R2s, margin : Margins, gap : Gaps]
        /\ Lt(g.z0, g.z)                                  \* the (upper) sphere centre is above the plane / the lower centre
        /\ (g.kind = "plane-sphere" => g.r2 = CHOOSE x \in R2s : TRUE)      \* unused parameter: one value only
        /\ pc = "collide" /\ c = NoC /\ ev = [op |-> "place"]

\* narrow phase: signed distance, z of the contact position, z of the normal (x, y components are 0 on this lattice)
Collide ==
  /\ pc = "collide"
  /\ LET h    == Sub(g.z, g.z0)
         dist == IF g.kind = "plane-sphere" THEN Sub(h, g.r1) ELSE Sub(h, Add(g.r1, g.r2))
         \* normal points from geom1 to geom2: plane -> sphere: +z;  lower (geom1) -> upper (geom2): +z;  rev: -z
         nz   == IF g.kind = "sphere-sphere-rev" THEN RI(-1) ELSE One
         pz   == IF Variant = "midpoint" THEN Half(Add(g.z, g.z0))
                 ELSE IF g.kind = "plane-sphere" THEN Sub(g.z, Add(g.r1, Half(dist)))
                 ELSE IF g.kind = "sphere-sphere" THEN Add(g.z0, Add(g.r2, Half(dist)))         \* geom1 = lower sphere
                 ELSE Sub(g.z, Add(g.r1, Half(dist)))                                           \* geom1 = upper sphere
     IN c' = [dist |-> dist, pz |-> pz, nz |-> nz]
  /\ pc' = "include" /\ ev' = [op |-> "collide"]
  /\ UNCHANGED g

Include ==
  /\ pc = "include"
  /\ c.dist # g.margin /\ c.dist # Add(g.margin, g.gap)          \* thresholds themselves are left open
  /\ pc' = "done"
  /\ ev' = [op |-> "contact", g |-> g, dist |-> c.dist, pz |-> c.pz, nz |-> c.nz,
            incon |-> Lt(c.dist, Add(g.margin, g.gap)), inefc |-> Lt(c.dist, g.margin),
            includemargin |-> g.margin]
  /\ UNCHANGED <<g, c>>

Next == Collide \/ Include
Spec == Init /\ [][Next]_vars

\* ---- properties ----------------------------------------------------------------------------------------------------
IsC == ev.op = "contact"
TypeOK == pc \in {"collide", "include", "done"} /\ IsRat(c.dist) /\ IsRat(c.pz)
\* the contact position lies midway between the two surfaces, on the line of centres
Lower(gg) == IF gg.kind = "plane-sphere" THEN gg.z0 ELSE Add(gg.z0, gg.r2)        \* top of the plane / of the lower sphere
Upper(gg) == Sub(gg.z, gg.r1)                                                      \* bottom of the upper sphere
Midway == IsC => ev.pz = Half(Add(Lower(ev.g), Upper(ev.g)))
\* the distance is the gap between the surfaces
DistIsGap == IsC => ev.dist = Sub(Upper(ev.g), Lower(ev.g))
\* a row in the constraint list implies a detected contact; without gap the two coincide
EfcImpliesCon == IsC => (ev.inefc => ev.incon) /\ (IsZero(ev.g.gap) => (ev.inefc <=> ev.incon))
\* penetrating pairs are always detected (margin >= 0)
PenetrationDetected == IsC /\ Lt(ev.dist, Zero) /\ Le(Zero, ev.g.margin) => ev.incon
\* swapping the two spheres flips the normal and nothing else
NormalOrient == IsC => ev.nz = (IF ev.g.kind = "sphere-sphere-rev" THEN RI(-1) ELSE One)

L_Kinds == {"plane-sphere", "sphere-sphere", "sphere-sphere-rev"}
L_Z  == Qs({2, 3, 5, 9}, 4)            L_ZX == Qs({2, 3, 4, 5, 7, 9, 12}, 4)
L_Z0 == {Zero, R(-1, 2)}               L_Z0X == {Zero, R(-1, 2), R(1, 4)}
L_R1 == {R(1, 2), One}                 L_R1X == {R(1, 4), R(1, 2), One}
L_R2 == {R(1, 4)}                      L_R2X == {R(1, 4), R(3, 4)}
L_Mg == {Zero, R(1, 2)}                L_MgX == {Zero, R(1, 8), R(1, 2)}
L_Gp == {Zero, R(1, 4)}                L_GpX == {Zero, R(1, 8), R(1, 4)}
=============================================================================
