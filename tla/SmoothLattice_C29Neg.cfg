SPECIFICATION Spec
CONSTANTS
  MinBodies = 1
  MaxBodies = 1
  JTypes <- AllJ
  Axes <- Ax13
  Offsets <- K_Off1
  Rots <- R0
  Anchors <- K_Anc1
  SitePos <- K_Site1
  SiteRots <- K_SRot1
  Masses <- One1
  Inertias <- K_Inr1
  IPoss <- K_IPos1
  Arms <- One0
  Stiffs <- P_K1
  Refs <- P_Ref2
  Damps <- One1
  GCs <- One1
  TCoefs <- D_TC2
  Qs <- K_Q2
  Vs <- P_V1
  As <- One0
  QScales <- QS1
  Gravs <- K_G1
  DisSets <- P_Dis
  TenK <- P_K1
  TenRanges <- P_TRng2
  TenDamps <- One1
  TenArms <- One0
  TenZero <- NoTz
  SpPairs <- NoSpS
  SpArms <- One0
  Sleeps <- NoTz
  StiffPolys <- P_KP1
  DampPolys <- P_DP1
  TenKPolys <- P_TKP1
  TenDPolys <- P_TDP1
  SpStiffs <- T000
  SpRanges <- Rng0
  SpDamps <- T000
  Level = 3
  Tie = FALSE
  Rand = FALSE
INVARIANT NegSpringSign
CHECK_DEADLOCK FALSE
