SPECIFICATION Spec
CONSTANTS
  MaxNodes = 1
  MaxAttrs = 1
  Skels <- SkB
  TagSet <- FewTags
  BadSet <- AllBad
  RootTags <- RootOK
INVARIANT NeverInvalid
CHECK_DEADLOCK FALSE
