SPECIFICATION Spec
CONSTANTS
  MaxOps = 10
  Opts <- MC_OptsAll
  Feats <- MC_FeatsPool
  Stages <- MC_AllStages
  Cb = "none"
  CbGate = "asis"
  ActDis <- MC_ActOn
  EKin = "ideal"
  Phased = TRUE
  KeepHist = FALSE
INVARIANT TypeOK
INVARIANT FreshAfterForward
INVARIANT FreshAfterSkip
INVARIANT FreshAfterInvSkip
INVARIANT SplitEq
INVARIANT ReadOnlyCalls
INVARIANT LazySound
CHECK_DEADLOCK FALSE
