SPECIFICATION Spec
CONSTANTS
  NW = 2
  MaxTask = 3
  MaxOps = 2
  Bug = "none"
INVARIANT TypeOK
INVARIANT AtMostOnce
INVARIANT ExactlyOnceAtReturn
INVARIANT NoneRunningAtReturn
INVARIANT ThreadIdsInPool
INVARIANT OnlyLiveWorkersRun
INVARIANT UnlockedAtReturn
INVARIANT NoWorkersWithoutPool
INVARIANT WorkersParkedAtReturn
PROPERTY Terminates
