SPECIFICATION Spec
CONSTANTS
  NC = 14
  Dims <- MC_Dims
  MaxOps = 5
  MaxSims = 3
  Mode = "chain"
  Sigs <- AllSigs
  ChainMod = 8
  ChainRem = 3
  Modes <- MC_ModesQ
  NPat = 3
  W = 1
  CW = 1
  Bug = "none"
INVARIANT TypeOK
INVARIANT SizeIsLength
INVARIANT GetIsDecl
INVARIANT ApisAgree
INVARIANT OriginOK
INVARIANT SimTabDistinct
PROPERTY XSetRestores
PROPERTY XSetPure
PROPERTY CSetRestores
PROPERTY SetThenGet
PROPERTY PutCopies
PROPERTY GetCopies
PROPERTY PutGetIdentity
PROPERTY MakeIsPutFresh
PROPERTY StepKeepsInputs
PROPERTY StepFunctional
PROPERTY QueriesPure
CHECK_DEADLOCK FALSE
