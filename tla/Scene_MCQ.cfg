SPECIFICATION Spec
CONSTANTS
  Models <- ModelsA
  Caps <- CapsAll
  GMasks <- AllGroups
  SMasks <- TwoSites
  JMasks <- NoSites
  TMasks <- NoSites
  AMasks <- NoSites
  FlagSets <- NoFlags
  Statics <- OnlyTrue
  CatMasks <- FullCat
  QPos <- Q0
  Status0 <- St0
  InitMode = "all"
  Ops <- UpdateOnly
  MaxOps = 1
  Bug = "none"
INVARIANT TypeOK
INVARIANT Bounded
INVARIANT StatusIsOverflow
INVARIANT Faithful
INVARIANT GroupLaw
INVARIANT MinLaw
INVARIANT OnlyGeoms
INVARIANT WalkDeterministic
PROPERTY NoFalseAlarm
CHECK_DEADLOCK FALSE
