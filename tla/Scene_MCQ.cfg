SPECIFICATION Spec
CONSTANTS
  Models <- ModelsA
  Caps <- CapsAll
  GMasks <- AllGroups
  SMasks <- TwoSites
  Statics <- OnlyTrue
  CatMasks <- FullCat
  QPos <- Q0
  Status0 <- St0
  InitMode = "all"
  Ops <- UpdateOnly
  MaxOps = 1
  Bug = "none"
INVARIANT TypeOK
INVARIANT Bounded
INVARIANT StatusIsOverflow
INVARIANT Faithful
INVARIANT MinLaw
INVARIANT OnlyGeoms
INVARIANT WalkDeterministic
PROPERTY NoFalseAlarm
CHECK_DEADLOCK FALSE
