SPECIFICATION Spec
CONSTANTS
  Ops <- ClosureOps
  InitMode = "id"
  TInit <- MC_TInit
  MaxOps = 1000000
  QArgs <- GenQ
  ETurns <- AllE
  IArgs <- FewI
  KArgs <- GenK
  CheckGroup = FALSE
  Bug = "order"
  MaxT = 1
VIEW ViewState
INVARIANT Homomorphism
CHECK_DEADLOCK FALSE
