SPECIFICATION Spec
CONSTANTS
  MaxOps = 3
  Opts <- MC_Opt4
  Feats <- MC_FeatsPool
  Stages <- MC_AllStages
  Cb = "none"
  CbGate = "asis"
  ActDis <- MC_ActOn
  EKin = "ideal"
  Phased = FALSE
  KeepHist = FALSE
INVARIANT TypeOK
INVARIANT FreshAfterForward
INVARIANT FreshAfterSkip
INVARIANT FreshAfterInvSkip
INVARIANT SplitEq
INVARIANT ReadOnlyCalls
INVARIANT LazySound
CHECK_DEADLOCK FALSE
