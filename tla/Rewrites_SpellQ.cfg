SPECIFICATION Spec
CONSTANTS
  MaxNodes = 1
  MaxRewrites = 2
  Rewrs <- MC_SpellRw
  BaseRots <- MC_RotsAll
  BasePos <- MC_Pos1
  FramePoses <- MC_FP1
  GeomOpts <- MC_G1
  BodyCCs <- MC_CC1
  JointOpts <- MC_J1
  ClassVals <- MC_V1
  ReplOpts <- MC_NoRepl
  Bug = "none"
INVARIANT TypeOK
INVARIANT SameMeaning
INVARIANT NothingLost
INVARIANT DropsOnlyThose
INVARIANT EditApplied
CHECK_DEADLOCK FALSE
