SPECIFICATION Spec
CONSTANTS
  Schema <- MC_Schema
  CaseIds <- MC_All
  CaseOf <- MC_CaseOf
  LoaderChecksMap = FALSE
  Big = 1000000
  Report = FALSE
INVARIANT TypeOK
INVARIANT ReadInBounds
INVARIANT WriteInBounds
INVARIANT RejectWarns
INVARIANT AcceptExact
INVARIANT AcceptSound
INVARIANT ProductRuleAgrees
INVARIANT TruncatedRejected
INVARIANT PristineAccepted
CHECK_DEADLOCK FALSE
