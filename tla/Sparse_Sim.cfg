SPECIFICATION Spec
CONSTANTS
  Suites <- ChainSuites
  Bug = "none"
INVARIANT Denotes
INVARIANT Structure
INVARIANT SparseIsDense
CHECK_DEADLOCK FALSE
