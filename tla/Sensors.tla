------------------------------- MODULE Sensors -------------------------------
\* MuJoCo sensors (src/engine/engine_sensor.c: mj_sensorPos / mj_sensorVel / mj_sensorAcc, mj_computeSensor*,
\* apply_cutoff; src/user: sensor dimension / stage / data type tables, sensor_adr) on an EXACT LATTICE.
\*
\* Model: a kinematic tree of at most MaxBodies bodies in depth-first order.  Every body carries at most one joint (slide
\* or hinge on a signed coordinate axis, integer anchor, integer reference position), an explicit inertial frame (integer
\* mass and offset, axis-aligned orientation iR), and one site / geom / camera at a common integer offset and axis-aligned orientation; the static
\* body orientations are among the 24 axis-aligned rotations and hinge angles are quarter turns, so every frame is a
\* signed permutation matrix and every position an integer vector.  Actuators (joint transmission, integer gear, fixed
\* gain, affine bias), one optional fixed tendon, and a LIST OF SENSORS complete the model.
\*
\* State: joint positions (integers; quarter turns for hinges), integer velocities, integer controls, dyadic time, the
\* sensor-disable flag, and - for touch sensors - a list of contacts (bodies, integer point, signed-axis normal, integer
\* normal force, active or excluded from the solver).
\*
\* What the specification defines (by definition, not by copying the implementation's algorithm):
\*   Layout    sensor i owns sensordata[adr_i .. adr_i + dim_i), adr_i = sum of the dimensions before it; the slices are
\*             pairwise disjoint and cover sensordata exactly (LayoutPartition)
\*   Stages    a sensor is written by the stage its type needs (position / velocity / acceleration), nothing else is
\*             written: sensordata starts as the sentinel Sent and after stage X exactly the slices of the sensors with
\*             stage <= X hold numbers (WrittenExactly); with sensors disabled nothing is ever written
\*   Values    jointpos/vel, tendonpos/vel, actuatorpos/vel/frc, jointactuatorfrc; framepos / framex,y,zaxis /
\*             framelinvel / frameangvel of an (x)body, geom, site or camera, in the world or in a reference object's
\*             frame (relative velocity includes the rotating-frame correction); velocimeter, gyro (site frame);
\*             subtreecom, subtreelinvel; clock; touch (sum of the positive normal forces of the active contacts that
\*             involve the site's body and whose normal ray, pointing away from that body, meets the site's zone); user
\*             sensors without callback (zeros)
\*   Cutoff    real data: clip to [-cutoff, cutoff]; positive data: min(cutoff, x); axis data and cutoff = 0: unchanged
\* Numbers are triples <<n, d, k>> = n/d + k * (pi/2) (k # 0 only for hinge positions and what is linear in them).
\*
\* Behaviour: build phase (AddBody*, AddAct*, SetTendon, AddSensor*, Compile) and then rounds of
\*   SetState, KinBody (one per body), AddContact* (touch models), SensPos, VelBody (one per body), SensVel, Act, SensAcc
\* - one action per stage function of the implementation (mj_fwdPosition, mj_sensorPos, mj_fwdVelocity, mj_sensorVel,
\* mj_fwdActuation.., mj_sensorAcc).  The three Sens* actions append to `obs` what sensordata must read after the stage;
\* the state after SensAcc (model B, A, ten, S, layout lay, state st, contacts con, obs) is the oracle of the replay.
\* Rand = FALSE enumerates every choice; Rand = TRUE draws each choice with RandomElement (TLC -simulate).
EXTENDS Integers, Sequences, FiniteSets, TLC

CONSTANTS MinBodies, MaxBodies,
          JTypes,      \* subset of {"none", "slide", "hinge"}
          Axes,        \* subset of {-3,-2,-1,1,2,3}
          Offsets, Rots, Anchors, Refs, Masses, IPoss,
          IRots,       \* orientation of the inertial frame in the body frame (subset of Rot24)
          SitePos, SiteRots,
          Zones,       \* touch zones <<type, h1, h2, h3>>: "sphere" radius (2 h1 + 1)/2 | "box" half sizes (2 hi + 1)/2
          MaxActs, Gears, Gains, Biases,
          TenCoefs,    \* coefficients of the fixed tendon ({0}: no tendon)
          MinSensors, MaxSensors, Kinds, ObjTypes, RefTypes, Cutoffs, UserDims,
          Qs, Vs, Ctrls, Times,
          DisFlags,    \* set of naturals; the sensor-disable flag is set when 0 is drawn (weights the random choice)
          MaxCon, ConPos, ConFrc,
          MaxRounds, Rand

\* ------------------------------------------------------------------------------------------------
\* integer vectors and 3x3 matrices
\* ------------------------------------------------------------------------------------------------
IAbs(i) == IF i < 0 THEN 0 - i ELSE i
Z3 == <<0, 0, 0>>
VAdd(a, b) == <<a[1] + b[1], a[2] + b[2], a[3] + b[3]>>
VSub(a, b) == <<a[1] - b[1], a[2] - b[2], a[3] - b[3]>>
VScl(k, a) == <<k * a[1], k * a[2], k * a[3]>>
Dot(a, b)  == a[1] * b[1] + a[2] * b[2] + a[3] * b[3]
Cross(a, b) == <<a[2] * b[3] - a[3] * b[2], a[3] * b[1] - a[1] * b[3], a[1] * b[2] - a[2] * b[1]>>
MV(R, x)   == <<Dot(R[1], x), Dot(R[2], x), Dot(R[3], x)>>
Col(R, j)  == <<R[1][j], R[2][j], R[3][j]>>
Tr(R)      == <<Col(R, 1), Col(R, 2), Col(R, 3)>>
MTV(R, x)  == <<Dot(Col(R, 1), x), Dot(Col(R, 2), x), Dot(Col(R, 3), x)>>          \* R' x
MM(A, B)   == [i \in 1..3 |-> [j \in 1..3 |-> A[i][1] * B[1][j] + A[i][2] * B[2][j] + A[i][3] * B[3][j]]]
I3 == <<<<1, 0, 0>>, <<0, 1, 0>>, <<0, 0, 1>>>>
Det3(R)    == Dot(R[1], Cross(R[2], R[3]))
AxisVecRaw(ax) == [j \in 1..3 |-> IF j = IAbs(ax) THEN (IF ax < 0 THEN -1 ELSE 1) ELSE 0]
Cosq(k) == LET r == k % 4 IN IF r = 0 THEN 1 ELSE IF r = 2 THEN -1 ELSE 0
Sinq(k) == LET r == k % 4 IN IF r = 1 THEN 1 ELSE IF r = 3 THEN -1 ELSE 0
\* rotation of x by k quarter turns about the unit vector z (Rodrigues; exact for quarter turns)
RotV(z, k, x) == VAdd(x, VAdd(VScl(Sinq(k), Cross(z, x)), VScl(1 - Cosq(k), Cross(z, Cross(z, x)))))
RotMat(z, k)  == Tr(<<RotV(z, k, <<1, 0, 0>>), RotV(z, k, <<0, 1, 0>>), RotV(z, k, <<0, 0, 1>>)>>)
SAxes   == {-3, -2, -1, 1, 2, 3}
AxisTab == [ax \in SAxes |-> AxisVecRaw(ax)]
RotTab  == [ax \in SAxes |-> [k \in 0..3 |-> RotMat(AxisVecRaw(ax), k)]]
AxisVec(ax) == AxisTab[ax]
Perms3 == {<<1, 2, 3>>, <<1, 3, 2>>, <<2, 1, 3>>, <<2, 3, 1>>, <<3, 1, 2>>, <<3, 2, 1>>}
SignedPerm(p, s) == [i \in 1..3 |-> [j \in 1..3 |-> IF p[i] = j THEN s[i] ELSE 0]]
Rot24 == {R \in {SignedPerm(p, s) : p \in Perms3, s \in {-1, 1} \X {-1, 1} \X {-1, 1}} : Det3(R) = 1}
RECURSIVE SumN(_, _)
SumN(f, k)  == IF k = 0 THEN 0 ELSE f[k] + SumN(f, k - 1)
RECURSIVE VSumN(_, _)
VSumN(f, k) == IF k = 0 THEN Z3 ELSE VAdd(f[k], VSumN(f, k - 1))

\* ------------------------------------------------------------------------------------------------
\* numbers  <<n, d, k>>  =  n/d + k u,  u = pi/2   (d > 0, gcd(n, d) = 1, d = 1 whenever k # 0)
\* ------------------------------------------------------------------------------------------------
RECURSIVE GCD(_, _)
GCD(a, b) == IF b = 0 THEN a ELSE GCD(b, a % b)
NI(i)      == <<i, 1, 0>>
NU(i, k)   == <<i, 1, k>>
NR(n, d)   == LET g == GCD(IAbs(n), d) IN IF n = 0 THEN <<0, 1, 0>> ELSE <<n \div g, d \div g, 0>>
NVec(v)    == <<NI(v[1]), NI(v[2]), NI(v[3])>>
NVecR(v, d) == <<NR(v[1], d), NR(v[2], d), NR(v[3], d)>>
\* comparison with an integer bound c, decided with 1570796/10^6 < pi/2 < 1570797/10^6 when k # 0
ULo == 1570796
UHi == 1570797
LoBound6(x) == x[1] * 1000000 + x[3] * (IF x[3] > 0 THEN ULo ELSE UHi)     \* (lower bound of x) * 10^6, d = 1
HiBound6(x) == x[1] * 1000000 + x[3] * (IF x[3] > 0 THEN UHi ELSE ULo)
\* the bound is h/2 (cutoffs are half-integers)
SureGt(x, h) == IF x[3] = 0 THEN 2 * x[1] > h * x[2] ELSE 2 * LoBound6(x) > h * 1000000
SureLe(x, h) == IF x[3] = 0 THEN 2 * x[1] <= h * x[2] ELSE 2 * HiBound6(x) <= h * 1000000
SureLt(x, h) == IF x[3] = 0 THEN 2 * x[1] < h * x[2] ELSE 2 * HiBound6(x) < h * 1000000
SureGe(x, h) == IF x[3] = 0 THEN 2 * x[1] >= h * x[2] ELSE 2 * LoBound6(x) >= h * 1000000
Sent    == <<0, 0, 0>>            \* sentinel: this entry of sensordata was never written (d = 0 is not a number)
Undec   == <<0, 0, 1>>            \* a comparison with the cutoff that the bounds of pi cannot decide (must never occur)
IsNum(x) == x[2] # 0
ClipReal(x, h) == IF SureGt(x, h) THEN NR(h, 2) ELSE IF SureLt(x, 0 - h) THEN NR(0 - h, 2)
                  ELSE IF SureLe(x, h) /\ SureGe(x, 0 - h) THEN x ELSE Undec
ClipPos(x, h)  == IF SureGt(x, h) THEN NR(h, 2) ELSE IF SureLe(x, h) THEN x ELSE Undec

\* ------------------------------------------------------------------------------------------------
VARIABLES stage,  \* "body" | "act" | "ten" | "sens" | "state" | "kin" | "con" | "spos" | "vel" | "act2" | "sacc" | "end"
          B,      \* bodies
          A,      \* actuators [jb, gear, kp, b0, b1, b2]
          ten,    \* tendon coefficient per body (<< >>: none)
          S,      \* sensors [kind, obj, ref, cut]
          lay,    \* layout [dim, adr, nsd, stg, dt] (after Compile)
          st,     \* [q, v, ctrl, time, dis]
          con,    \* contacts [b1, b2, pos, nrm, frc, on]
          kin,    \* per body frames [xpos, xmat, anc, axis, xipos, spos, smat]
          vel,    \* per body [w, vo]: angular velocity and velocity of the body origin, world frame
          act,    \* per actuator [len, vel, frc]
          sd,     \* sensordata: sequence of numbers or Sent (sentinel: never written)
          obs,    \* sensordata as it must read after mj_sensorPos, mj_sensorVel, mj_sensorAcc of the current round
          round,
          ev      \* last completed operation
vars == <<stage, B, A, ten, S, lay, st, con, kin, vel, act, sd, obs, round, ev>>

n  == Len(B)
na == Len(A)
ns == Len(S)
HasJ(b) == B[b].jt # "none"
IsH(b)  == B[b].jt = "hinge"
Jointed == {b \in 1..n : HasJ(b)}
RECURSIVE AncOf(_, _)
AncOf(bs, b) == IF b = 0 THEN {} ELSE {b} \cup AncOf(bs, bs[b].par)
Anc(b) == AncOf(B, b)
Sub(b) == {c \in 1..n : b \in Anc(c)}                  \* subtree rooted at b
Parents == IF n = 0 THEN {0} ELSE {0} \cup AncOf(B, n) \* keeps the depth-first order
Pick(X) == IF Rand THEN {RandomElement(X)} ELSE X
OneOf(X) == CHOOSE x \in X : TRUE
HasTendon == ten # << >> /\ \E b \in 1..n : ten[b] # 0

Init == /\ stage = "body" /\ B = << >> /\ A = << >> /\ ten = << >> /\ S = << >> /\ lay = << >> /\ st = << >>
        /\ con = << >> /\ kin = << >> /\ vel = << >> /\ act = << >> /\ sd = << >> /\ obs = << >> /\ round = 0 /\ ev = [op |-> "init"]

\* ------------------------------------------------------------------------------------------------
\* build phase
\* ------------------------------------------------------------------------------------------------
AddBody(par, jt, ax, pos, R, anc, ref, mass, ipos, iR, spos, sR, zone) ==
  /\ stage = "body" /\ n < MaxBodies
  /\ (~Rand /\ jt = "none") => (ax = OneOf(Axes) /\ anc = OneOf(Anchors) /\ ref = OneOf(Refs))
  /\ B' = Append(B, [par |-> par, jt |-> jt, ax |-> ax, pos |-> pos, R |-> R,
                     anc |-> IF jt = "none" THEN Z3 ELSE anc, ref |-> IF jt = "none" THEN 0 ELSE ref,
                     mass |-> mass, ipos |-> ipos, iR |-> iR, spos |-> spos, sR |-> sR, zone |-> zone])
  /\ UNCHANGED <<stage, A, ten, S, lay, st, con, kin, vel, act, sd, obs, round, ev>>
BodiesDone == /\ stage = "body" /\ n >= MinBodies
              /\ stage' = "act"
              /\ UNCHANGED <<B, A, ten, S, lay, st, con, kin, vel, act, sd, obs, round, ev>>

AddAct(jb, gear, kp, bias) ==
  /\ stage = "act" /\ na < MaxActs /\ jb \in Jointed
  /\ ~(kp = 0 - bias[2] /\ bias[3] > 0)      \* a position-like actuator (gain = -b1) reads b2 > 0 as a damping RATIO: kept out
  /\ A' = Append(A, [jb |-> jb, gear |-> gear, kp |-> kp, b0 |-> bias[1], b1 |-> bias[2], b2 |-> bias[3]])
  /\ UNCHANGED <<stage, B, ten, S, lay, st, con, kin, vel, act, sd, obs, round, ev>>
ActsDone == /\ stage = "act"
            /\ stage' = "ten"
            /\ UNCHANGED <<B, A, ten, S, lay, st, con, kin, vel, act, sd, obs, round, ev>>

\* the tendon wraps every jointed body with a coefficient (0: not wrapped)
SetTendon(cf) ==
  /\ stage = "ten"
  /\ \A b \in 1..n : ~HasJ(b) => cf[b] = 0
  /\ ten' = IF \A b \in 1..n : cf[b] = 0 THEN << >> ELSE cf
  /\ stage' = "sens"
  /\ UNCHANGED <<B, A, S, lay, st, con, kin, vel, act, sd, obs, round, ev>>

\* --- sensor tables (the documented dimension, stage and data type of each sensor type) ---
FrameKinds == {"framepos", "framexaxis", "frameyaxis", "framezaxis", "framelinvel", "frameangvel"}
Dim(s) == CASE s.kind \in {"jointpos", "jointvel", "jointactfrc", "tendonpos", "tendonvel", "actuatorpos", "actuatorvel",
                           "actuatorfrc", "clock", "touch"} -> 1
            [] s.kind = "user" -> s.obj[1]
            [] OTHER -> 3
Stg(s) == CASE s.kind \in {"jointpos", "tendonpos", "actuatorpos", "framepos", "framexaxis", "frameyaxis", "framezaxis",
                           "subtreecom", "clock"} -> 1
            [] s.kind \in {"jointvel", "tendonvel", "actuatorvel", "framelinvel", "frameangvel", "velocimeter", "gyro",
                           "subtreelinvel"} -> 2
            [] s.kind \in {"actuatorfrc", "jointactfrc", "touch"} -> 3
            [] s.kind = "user" -> s.obj[2]
DType(s) == CASE s.kind = "touch" -> "positive"
              [] s.kind \in {"framexaxis", "frameyaxis", "framezaxis"} -> "axis"
              [] OTHER -> "real"
NoObj == <<"none", 0>>
ObjChoices(kind) ==
  CASE kind \in {"jointpos", "jointvel", "jointactfrc"} -> Jointed
    [] kind \in {"actuatorpos", "actuatorvel", "actuatorfrc"} -> 1..na
    [] kind \in {"tendonpos", "tendonvel"} -> IF HasTendon THEN {1} ELSE {}
    [] kind \in FrameKinds -> ObjTypes \X (1..n)
    [] kind \in {"velocimeter", "gyro", "touch", "subtreecom", "subtreelinvel"} -> 1..n
    [] kind = "clock" -> {0}
    [] kind = "user" -> UserDims \X {1, 2, 3}
RefChoices(kind) == IF kind \in FrameKinds THEN {NoObj} \cup (RefTypes \X (1..n)) ELSE {NoObj}
\* cut = h stands for the cutoff h/2 (0: none); the compiler rejects a cutoff on axis data, so axis sensors have none
AddSensor(kind, obj, ref, cut) ==
  /\ stage = "sens" /\ ns < MaxSensors
  /\ S' = Append(S, [kind |-> kind, obj |-> obj, ref |-> ref, cut |-> cut])
  /\ UNCHANGED <<stage, B, A, ten, lay, st, con, kin, vel, act, sd, obs, round, ev>>

RECURSIVE AdrOf(_, _)
AdrOf(ss, i) == IF i = 1 THEN 0 ELSE AdrOf(ss, i - 1) + Dim(ss[i - 1])
HasTouch == \E i \in 1..ns : S[i].kind = "touch"
Compile ==
  /\ stage = "sens" /\ ns >= MinSensors
  /\ LET dims == [i \in 1..ns |-> Dim(S[i])]
         adrs == [i \in 1..ns |-> AdrOf(S, i)]
         nsd  == SumN(dims, ns) IN
     /\ lay' = [dim |-> dims, adr |-> adrs, nsd |-> nsd, stg |-> [i \in 1..ns |-> Stg(S[i])],
                dt |-> [i \in 1..ns |-> DType(S[i])]]
     /\ sd' = [k \in 1..nsd |-> Sent]
     /\ ev' = [op |-> "compile", nsd |-> nsd]
  /\ stage' = "state" /\ round' = 1
  /\ UNCHANGED <<B, A, ten, S, st, con, kin, vel, act, obs>>

\* ------------------------------------------------------------------------------------------------
\* a round: state, contacts, kinematics, position sensors, velocities, velocity sensors, actuation, acceleration sensors
\* ------------------------------------------------------------------------------------------------
SetState(q, v, c, t, dis) ==
  /\ stage = "state"
  /\ \A b \in 1..n : ~HasJ(b) => (q[b] = 0 /\ v[b] = 0)
  /\ st' = [q |-> q, v |-> v, ctrl |-> c, time |-> t, dis |-> dis]
  /\ sd' = [k \in 1..lay.nsd |-> Sent]                   \* the harness refills sensordata with the sentinel
  /\ con' = << >> /\ kin' = << >> /\ vel' = << >> /\ act' = << >> /\ obs' = << >>
  /\ stage' = "kin"
  /\ ev' = [op |-> "setstate", round |-> round]
  /\ UNCHANGED <<B, A, ten, S, lay, round>>


\* frames of body b = Len(kin) + 1 from its parent's frames (mj_kinematics, by composition)
KinBody ==
  /\ stage = "kin" /\ Len(kin) < n
  /\ LET b  == Len(kin) + 1
         bb == B[b]
         pp == IF bb.par = 0 THEN Z3 ELSE kin[bb.par].xpos
         pR == IF bb.par = 0 THEN I3 ELSE kin[bb.par].xmat
         P0 == VAdd(pp, MV(pR, bb.pos))
         R0 == MM(pR, bb.R)
         dq == st.q[b] - bb.ref
         ax == MV(R0, AxisVec(bb.ax))
         an == VAdd(P0, MV(R0, bb.anc))
         R1 == IF bb.jt = "hinge" THEN MM(R0, RotTab[bb.ax][dq % 4]) ELSE R0
         P1 == IF bb.jt = "hinge" THEN VSub(an, MV(R1, bb.anc))
               ELSE IF bb.jt = "slide" THEN VAdd(P0, VScl(dq, ax)) ELSE P0
     IN kin' = Append(kin, [xpos |-> P1, xmat |-> R1, anc |-> an,
                            axis |-> ax, xipos |-> VAdd(P1, MV(R1, bb.ipos)), ximat |-> MM(R1, bb.iR),
                            spos |-> VAdd(P1, MV(R1, bb.spos)), smat |-> MM(R1, bb.sR)])
  /\ stage' = IF Len(kin) + 1 < n THEN "kin" ELSE IF HasTouch /\ MaxCon > 0 THEN "con" ELSE "spos"
  /\ UNCHANGED <<B, A, ten, S, lay, st, con, vel, act, sd, obs, round, ev>>

\* contacts (only for models with a touch sensor): the point is given relative to the site of some body sb, so that
\* points inside, behind and beside the zones all occur; the contact joins bodies b1 # b2 (0: world)
AddContact(b1, b2, sb, delta, nrm, frc, on) ==
  /\ stage = "con" /\ Len(con) < MaxCon /\ b1 # b2
  /\ con' = Append(con, [b1 |-> b1, b2 |-> b2, pos |-> VAdd(kin[sb].spos, delta), nrm |-> nrm, frc |-> frc, on |-> on])
  /\ UNCHANGED <<stage, B, A, ten, S, lay, st, kin, vel, act, sd, obs, round, ev>>
ContactsDone == /\ stage = "con"
                /\ stage' = "spos"
                /\ UNCHANGED <<B, A, ten, S, lay, st, con, kin, vel, act, sd, obs, round, ev>>

\* pose of an object, per the documentation of the object types:
\*   "xbody"                    the regular body frame                     (xpos,  xmat)
\*   "body"                     the body's INERTIAL frame                  (xipos, ximat = xmat * inertial orientation)
\*   "geom", "site", "camera"   the element's own frame on its body        (here all three share the site's pose)
PosOf(o) == CASE o[1] = "xbody" -> kin[o[2]].xpos [] o[1] = "body" -> kin[o[2]].xipos [] OTHER -> kin[o[2]].spos
MatOf(o) == CASE o[1] = "xbody" -> kin[o[2]].xmat [] o[1] = "body" -> kin[o[2]].ximat [] OTHER -> kin[o[2]].smat
\* velocity of the point P of body b (rigid body: v_origin + w x (P - origin))
WOf(b) == vel[b].w
VAt(b, P) == VAdd(vel[b].vo, Cross(vel[b].w, VSub(P, kin[b].xpos)))
ObjV(o) == VAt(o[2], PosOf(o))
ObjW(o) == WOf(o[2])

\* --- cutoff and the write of one stage ---
Cut(s, vals) == IF s.cut = 0 \/ DType(s) = "axis" THEN vals
                ELSE IF DType(s) = "positive" THEN [j \in 1..Len(vals) |-> ClipPos(vals[j], s.cut)]
                ELSE [j \in 1..Len(vals) |-> ClipReal(vals[j], s.cut)]
\* sensordata after stage x: the slices of the stage's sensors are replaced, everything else is kept (concatenation in
\* sensor order IS the layout: adr_i = total dimension before i)
RECURSIVE Written(_, _, _)
Written(x, raw, i) == IF i > ns THEN << >>
                      ELSE (IF lay.stg[i] = x /\ ~st.dis THEN Cut(S[i], raw[i])
                            ELSE SubSeq(sd, lay.adr[i] + 1, lay.adr[i] + lay.dim[i])) \o Written(x, raw, i + 1)
Zeros(k) == [j \in 1..k |-> NI(0)]

\* --- position stage ---
TenLen == NU(SumN([b \in 1..n |-> IF HasJ(b) /\ ~IsH(b) THEN ten[b] * st.q[b] ELSE 0], n),
             SumN([b \in 1..n |-> IF IsH(b) THEN ten[b] * st.q[b] ELSE 0], n))
JPos(b) == IF IsH(b) THEN NU(0, st.q[b]) ELSE NI(st.q[b])
SubMass(b) == SumN([c \in 1..n |-> IF c \in Sub(b) THEN B[c].mass ELSE 0], n)
RawPos(s) ==
  CASE s.kind = "jointpos" -> <<JPos(s.obj)>>
    [] s.kind = "tendonpos" -> <<TenLen>>
    [] s.kind = "actuatorpos" -> LET a == A[s.obj] IN <<IF IsH(a.jb) THEN NU(0, a.gear * st.q[a.jb]) ELSE NI(a.gear * st.q[a.jb])>>
    [] s.kind = "framepos" -> IF s.ref = NoObj THEN NVec(PosOf(s.obj))
                              ELSE NVec(MTV(MatOf(s.ref), VSub(PosOf(s.obj), PosOf(s.ref))))
    [] s.kind \in {"framexaxis", "frameyaxis", "framezaxis"} ->
         LET j == IF s.kind = "framexaxis" THEN 1 ELSE IF s.kind = "frameyaxis" THEN 2 ELSE 3
             a == Col(MatOf(s.obj), j) IN
         IF s.ref = NoObj THEN NVec(a) ELSE NVec(MTV(MatOf(s.ref), a))
    [] s.kind = "subtreecom" -> NVecR(VSumN([c \in 1..n |-> IF c \in Sub(s.obj) THEN VScl(B[c].mass, kin[c].xipos) ELSE Z3], n),
                                      SubMass(s.obj))
    [] s.kind = "clock" -> <<NR(st.time[1], st.time[2])>>
    [] s.kind = "user" -> Zeros(s.obj[1])
    [] OTHER -> << >>
SensPos ==
  /\ stage = "spos"
  /\ sd' = Written(1, [i \in 1..ns |-> IF lay.stg[i] = 1 THEN RawPos(S[i]) ELSE << >>], 1)
  /\ obs' = <<sd'>>
  /\ ev' = [op |-> "sensorPos", round |-> round]
  /\ stage' = "vel"
  /\ UNCHANGED <<B, A, ten, S, lay, st, con, kin, vel, act, round>>

\* --- velocity stage: w_b = sum of hinge axes * rate, v_origin = sum of joint columns, over the body's own and its
\*     ancestors' joints (world frame) ---
JCol(j, P) == IF IsH(j) THEN Cross(kin[j].axis, VSub(P, kin[j].anc)) ELSE kin[j].axis
VelBody ==
  /\ stage = "vel" /\ Len(vel) < n
  /\ LET b == Len(vel) + 1 IN
     vel' = Append(vel, [w |-> VSumN([j \in 1..n |-> IF j \in Anc(b) /\ IsH(j) THEN VScl(st.v[j], kin[j].axis) ELSE Z3], n),
                         vo |-> VSumN([j \in 1..n |-> IF j \in Anc(b) /\ HasJ(j) THEN VScl(st.v[j], JCol(j, kin[b].xpos)) ELSE Z3], n)])
  /\ UNCHANGED <<stage, B, A, ten, S, lay, st, con, kin, act, sd, obs, round, ev>>
RawVel(s) ==
  CASE s.kind = "jointvel" -> <<NI(st.v[s.obj])>>
    [] s.kind = "tendonvel" -> <<NI(SumN([b \in 1..n |-> ten[b] * st.v[b]], n))>>
    [] s.kind = "actuatorvel" -> <<NI(A[s.obj].gear * st.v[A[s.obj].jb])>>
    [] s.kind = "framelinvel" ->
         IF s.ref = NoObj THEN NVec(ObjV(s.obj))
         ELSE NVec(MTV(MatOf(s.ref), VSub(VSub(ObjV(s.obj), ObjV(s.ref)),
                                        Cross(ObjW(s.ref), VSub(PosOf(s.obj), PosOf(s.ref))))))
    [] s.kind = "frameangvel" ->
         IF s.ref = NoObj THEN NVec(ObjW(s.obj)) ELSE NVec(MTV(MatOf(s.ref), VSub(ObjW(s.obj), ObjW(s.ref))))
    [] s.kind = "velocimeter" -> NVec(MTV(kin[s.obj].smat, VAt(s.obj, kin[s.obj].spos)))
    [] s.kind = "gyro" -> NVec(MTV(kin[s.obj].smat, WOf(s.obj)))
    [] s.kind = "subtreelinvel" -> NVecR(VSumN([c \in 1..n |-> IF c \in Sub(s.obj) THEN VScl(B[c].mass, VAt(c, kin[c].xipos)) ELSE Z3], n),
                                         SubMass(s.obj))
    [] s.kind = "user" -> Zeros(s.obj[1])
    [] OTHER -> << >>
SensVel ==
  /\ stage = "vel" /\ Len(vel) = n
  /\ sd' = Written(2, [i \in 1..ns |-> IF lay.stg[i] = 2 THEN RawVel(S[i]) ELSE << >>], 1)
  /\ obs' = Append(obs, sd')
  /\ ev' = [op |-> "sensorVel", round |-> round]
  /\ stage' = "act2"
  /\ UNCHANGED <<B, A, ten, S, lay, st, con, kin, vel, act, round>>

\* --- actuation: length = gear q, velocity = gear v, force = gain ctrl + b0 + b1 length + b2 velocity ---
Act ==
  /\ stage = "act2"
  /\ act' = [a \in 1..na |->
               LET aa == A[a]  h == IsH(aa.jb)  lq == aa.gear * st.q[aa.jb]  lv == aa.gear * st.v[aa.jb] IN
               [len |-> IF h THEN NU(0, lq) ELSE NI(lq), vel |-> NI(lv),
                frc |-> IF h THEN NU(aa.kp * st.ctrl[a] + aa.b0 + aa.b2 * lv, aa.b1 * lq)
                        ELSE NI(aa.kp * st.ctrl[a] + aa.b0 + aa.b1 * lq + aa.b2 * lv)]]
  /\ stage' = "sacc"
  /\ UNCHANGED <<B, A, ten, S, lay, st, con, kin, vel, sd, obs, round, ev>>

\* touch zone test in the site frame; points are integers and sizes half-integers, so no point lies on a boundary
RayHitsZone(b, p, d) ==
  LET z  == B[b].zone
      pl == MTV(kin[b].smat, VSub(p, kin[b].spos))
      dl == MTV(kin[b].smat, d) IN
  IF z[1] = "sphere"
  THEN LET w == VScl(-1, pl)  r2x4 == (2 * z[2] + 1) * (2 * z[2] + 1)  wd == Dot(w, dl) IN
       /\ 4 * (Dot(w, w) - wd * wd) < r2x4
       /\ (4 * Dot(w, w) < r2x4 \/ wd >= 0)
  ELSE \A i \in 1..3 : IF dl[i] = 0 THEN 2 * IAbs(pl[i]) < 2 * z[i + 1] + 1
                       ELSE 2 * dl[i] * pl[i] < 2 * z[i + 1] + 1
Touch(b) == SumN([k \in 1..Len(con) |->
                    LET c == con[k] IN
                    IF c.on /\ c.frc > 0 /\ (c.b1 = b \/ c.b2 = b)
                       /\ RayHitsZone(b, c.pos, IF c.b2 = b THEN VScl(-1, AxisVec(c.nrm)) ELSE AxisVec(c.nrm))
                    THEN c.frc ELSE 0], Len(con))
RawAcc(s) ==
  CASE s.kind = "actuatorfrc" -> <<act[s.obj].frc>>
    [] s.kind = "jointactfrc" ->
         <<NU(SumN([a \in 1..na |-> IF A[a].jb = s.obj THEN A[a].gear * act[a].frc[1] ELSE 0], na),
              SumN([a \in 1..na |-> IF A[a].jb = s.obj THEN A[a].gear * act[a].frc[3] ELSE 0], na))>>
    [] s.kind = "touch" -> <<NI(Touch(s.obj))>>
    [] s.kind = "user" -> Zeros(s.obj[1])
    [] OTHER -> << >>
SensAcc ==
  /\ stage = "sacc"
  /\ sd' = Written(3, [i \in 1..ns |-> IF lay.stg[i] = 3 THEN RawAcc(S[i]) ELSE << >>], 1)
  /\ obs' = Append(obs, sd')
  /\ ev' = [op |-> "sensorAcc", round |-> round, ncon |-> IF HasTouch THEN MaxCon ELSE 0]
  /\ stage' = IF round < MaxRounds THEN "state" ELSE "end"
  /\ round' = round + 1
  /\ UNCHANGED <<B, A, ten, S, lay, st, con, kin, vel, act>>

\* ------------------------------------------------------------------------------------------------
SeqsOver(X, k) == [1..k -> X]
Next ==
  \/ \E par \in Pick(Parents), jt \in Pick(JTypes), ax \in Pick(Axes), pos \in Pick(Offsets), R \in Pick(Rots),
        anc \in Pick(Anchors), ref \in Pick(Refs), mass \in Pick(Masses), ipos \in Pick(IPoss), iR \in Pick(IRots),
        spos \in Pick(SitePos), sR \in Pick(SiteRots), zone \in Pick(Zones) :
        AddBody(par, jt, ax, pos, R, anc, ref, mass, ipos, iR, spos, sR, zone)
  \/ BodiesDone
  \/ (stage = "act" /\ Jointed # {} /\ \E jb \in Pick(Jointed), gear \in Pick(Gears), kp \in Pick(Gains), bias \in Pick(Biases) :
        AddAct(jb, gear, kp, bias))
  \/ ActsDone
  \/ (stage = "ten" /\ \E cf \in Pick({f \in SeqsOver(TenCoefs, n) : \A b \in 1..n : ~HasJ(b) => f[b] = 0}) : SetTendon(cf))
  \/ (stage = "sens" /\ \E kind \in Pick({k \in Kinds : ObjChoices(k) # {}}) :
        \E obj \in Pick(ObjChoices(kind)), ref \in Pick(RefChoices(kind)),
           cut \in Pick(IF kind \in {"framexaxis", "frameyaxis", "framezaxis"} THEN {0} ELSE Cutoffs) :
           AddSensor(kind, obj, ref, cut))
  \/ Compile
  \/ (stage = "state" /\ \E q \in Pick({f \in SeqsOver(Qs, n) : \A b \in 1..n : ~HasJ(b) => f[b] = 0}),
                            v \in Pick({f \in SeqsOver(Vs, n) : \A b \in 1..n : ~HasJ(b) => f[b] = 0}),
                            c \in Pick(SeqsOver(Ctrls, na)), t \in Pick(Times), dis \in {x = 0 : x \in Pick(DisFlags)} : SetState(q, v, c, t, dis))
  \/ (stage = "con" /\ \E b1 \in Pick(0..n), b2 \in Pick(0..n), sb \in Pick(1..n), delta \in Pick(ConPos), nrm \in Pick(SAxes),
                          frc \in Pick(ConFrc), on \in {x > 0 : x \in Pick(0..3)} : AddContact(b1, b2, sb, delta, nrm, frc, on))
  \/ ContactsDone
  \/ KinBody \/ SensPos \/ VelBody \/ SensVel \/ Act \/ SensAcc
Spec == Init /\ [][Next]_vars

\* ------------------------------------------------------------------------------------------------
\* properties
\* ------------------------------------------------------------------------------------------------
Compiled == lay # << >>
Owner(k) == CHOOSE i \in 1..ns : lay.adr[i] < k /\ k <= lay.adr[i] + lay.dim[i]
StageNo == CASE stage = "vel" -> 1 [] stage \in {"act2", "sacc"} -> 2 [] stage \in {"state", "end"} -> 3 [] OTHER -> 0

TypeOK == /\ n <= MaxBodies /\ na <= MaxActs /\ ns <= MaxSensors
          /\ \A b \in 1..n : B[b].par < b /\ B[b].R \in Rot24 /\ B[b].sR \in Rot24 /\ B[b].iR \in Rot24
          /\ Compiled => Len(sd) = lay.nsd
          /\ \A k \in 1..Len(sd) : IsNum(sd[k]) => (sd[k][2] > 0 /\ (sd[k][3] # 0 => sd[k][2] = 1))
          /\ stage \in {"con", "kin", "spos"} => \A k \in 1..Len(sd) : sd[k] = Sent
\* the slices are pairwise disjoint and cover 1..nsd exactly: every index has exactly one owner
LayoutPartition == Compiled =>
    /\ \A k \in 1..lay.nsd : Cardinality({i \in 1..ns : lay.adr[i] < k /\ k <= lay.adr[i] + lay.dim[i]}) = 1
    /\ \A i \in 1..ns : lay.adr[i] >= 0 /\ lay.adr[i] + lay.dim[i] <= lay.nsd /\ lay.dim[i] = Dim(S[i])
    /\ \A i \in 1..ns, j \in 1..ns : i < j => lay.adr[i] + lay.dim[i] <= lay.adr[j]
\* after stage X exactly the slices of the sensors needing a stage <= X hold numbers; disabled sensors: nothing is written
WrittenExactly == (Compiled /\ st # << >>) =>
    \A k \in 1..lay.nsd : IsNum(sd[k]) <=> (~st.dis /\ lay.stg[Owner(k)] <= StageNo)
\* a write never touches a slice of another stage (action property)
OnlyOwnSlices == [][(Compiled /\ stage \notin {"sens", "state"}) =>
                     \A k \in 1..lay.nsd : sd'[k] # sd[k] => lay.stg[Owner(k)] = StageNo + 1]_vars
CutoffRespected == Compiled => \A k \in 1..lay.nsd : IsNum(sd[k]) =>
    LET s == S[Owner(k)] IN
    (s.cut > 0 /\ DType(s) # "axis") => (SureLe(sd[k], s.cut) /\ (DType(s) = "real" => SureGe(sd[k], 0 - s.cut)))
\* every comparison with a cutoff was decided by the rational bounds of pi
CutoffDecidable == \A k \in 1..Len(sd) : sd[k] # Undec
\* frames are proper rotations
FramesProper == \A b \in 1..Len(kin) : kin[b].xmat \in Rot24 /\ kin[b].smat \in Rot24 /\ kin[b].ximat \in Rot24
\* a relative frame position maps back to the world position; an object seen from itself is at the origin, at rest
Slice(i) == SubSeq(sd, lay.adr[i] + 1, lay.adr[i] + lay.dim[i])
IntVec(sl) == <<sl[1][1], sl[2][1], sl[3][1]>>
AllInt(sl) == \A j \in 1..Len(sl) : IsNum(sl[j]) /\ sl[j][2] = 1 /\ sl[j][3] = 0
FrameRoundTrip == (stage \in {"vel", "act2", "sacc"} /\ ~st.dis) => \A i \in 1..ns :
    (S[i].kind = "framepos" /\ S[i].cut = 0) =>
       LET val == IntVec(Slice(i)) IN
       IF S[i].ref = NoObj THEN val = PosOf(S[i].obj)
       ELSE VAdd(PosOf(S[i].ref), MV(MatOf(S[i].ref), val)) = PosOf(S[i].obj)
AxesAreUnit == (stage \in {"vel", "act2", "sacc"} /\ ~st.dis) => \A i \in 1..ns :
    S[i].kind \in {"framexaxis", "frameyaxis", "framezaxis"} => Dot(IntVec(Slice(i)), IntVec(Slice(i))) = 1
SelfRelativeIsZero == (stage \in {"act2", "sacc"} /\ ~st.dis) => \A i \in 1..ns :
    (S[i].kind \in {"framepos", "framelinvel", "frameangvel"} /\ S[i].ref = S[i].obj) => IntVec(Slice(i)) = Z3
\* the subtree centre of mass is the mass-weighted mean: M com = sum m x
ComIsWeightedMean == (stage \in {"vel", "act2", "sacc"} /\ ~st.dis) => \A i \in 1..ns :
    (S[i].kind = "subtreecom" /\ S[i].cut = 0) =>
       LET sl == Slice(i)  M == SubMass(S[i].obj)
           tot == VSumN([c \in 1..n |-> IF c \in Sub(S[i].obj) THEN VScl(B[c].mass, kin[c].xipos) ELSE Z3], n) IN
       \A j \in 1..3 : sl[j][1] * M = tot[j] * sl[j][2]
\* gyro / velocimeter are rotations of the world-frame velocity: the norm is preserved
LocalVelNorm == (stage \in {"act2", "sacc"} /\ ~st.dis) => \A i \in 1..ns :
    (S[i].kind = "gyro" /\ S[i].cut = 0) => Dot(IntVec(Slice(i)), IntVec(Slice(i))) = Dot(WOf(S[i].obj), WOf(S[i].obj))
TouchNonNegative == Compiled => \A k \in 1..lay.nsd : (IsNum(sd[k]) /\ S[Owner(k)].kind = "touch") => sd[k][1] >= 0
ClockIsTime == (stage \in {"vel", "act2", "sacc"} /\ ~st.dis) => \A i \in 1..ns :
    (S[i].kind = "clock" /\ S[i].cut = 0) => Slice(i)[1][1] * st.time[2] = st.time[1] * Slice(i)[1][2]

\* deliberately false claims (negative controls of the specification)
NegClockNeverClipped == (stage \in {"vel", "act2", "sacc"} /\ ~st.dis) => \A i \in 1..ns :
    S[i].kind = "clock" => Slice(i)[1][1] * st.time[2] = st.time[1] * Slice(i)[1][2]
NegAllWrittenAfterPos == stage = "vel" => \A k \in 1..lay.nsd : IsNum(sd[k])

\* ------------------------------------------------------------------------------------------------
\* constants of the configurations
\* ------------------------------------------------------------------------------------------------
Rx == <<<<1, 0, 0>>, <<0, 0, -1>>, <<0, 1, 0>>>>
Ry == <<<<0, 0, 1>>, <<0, 1, 0>>, <<-1, 0, 0>>>>
Rz == <<<<0, -1, 0>>, <<1, 0, 0>>, <<0, 0, 1>>>>
R_One == {I3}
R_Two == {I3, MM(Rx, Rz)}
R_XZ == {MM(Rx, Rz)}
R_Y == {Ry}
R_All == Rot24
J_All == {"none", "slide", "hinge"}
J_SH == {"slide", "hinge"}
J_S == {"slide"}
J_H == {"hinge"}
Ax_One == {3}
Ax_Two == {1, -2}
Ax_m2 == {-2}
Ax_All == SAxes
V_Zero == {Z3}
V_One == {<<1, -2, 0>>}
V_Two == {<<1, -2, 0>>, <<0, 1, 2>>}
V_Con == {<<0, 0, 0>>, <<0, 1, 0>>, <<0, 0, 2>>, <<2, 0, 0>>, <<-1, 2, -2>>}
V_Cube == {-2, -1, 0, 1, 2} \X {-2, -1, 0, 1, 2} \X {-2, -1, 0, 1, 2}
V_Small == {-1, 0, 1} \X {-1, 0, 1} \X {-1, 0, 1}
V_Small2 == {-2, -1, 0, 1, 2} \X {-2, 0, 1} \X {-1, 0, 3}
I_Zero == {0}
I_One == {1}
I_01 == {0, 1}
I_12 == {1, 2}
I_123 == {1, 2, 3}
I_m11 == {-1, 1}
I_m21 == {-2, 1}
I_m12 == {-1, 2}
I_Two == {2}
I_m22 == {-2, -1, 0, 1, 2}
I_m22nz == {-2, -1, 1, 2}
I_m11z == {-1, 0, 1}
I_m33 == {-3, -2, -1, 0, 1, 2, 3}
I_Frc == {-1, 1, 2, 3}
I_Q == {-3, -2, -1, 0, 1, 2, 3, 5}
I_Cut == {0, 1, 4}
I_Cut3 == {0, 1, 2, 3, 5, 8}
Z_One == {<<"box", 0, 1, 0>>}
Z_All == {<<"box", 0, 1, 0>>, <<"box", 1, 0, 2>>, <<"sphere", 1, 0, 0>>, <<"sphere", 0, 0, 0>>, <<"box", 2, 2, 0>>}
Bias_Zero == {<<0, 0, 0>>}
Bias_Few == {<<0, 0, 0>>, <<1, -1, 2>>}
Bias_All == {-1, 0, 2} \X {-1, 0, 1} \X {-2, 0, 1}
T_One == {<<3, 8>>}
T_Big == {<<5, 4>>}
T_All == {<<0, 1>>, <<3, 8>>, <<5, 4>>, <<7, 1>>}
D_Off == {1}                \* DisFlags: sensors are disabled when the drawn number is 0
D_Both == {0, 1}
D_Rare == 0..7
OT_All == {"xbody", "body", "geom", "site", "camera"}
OT_Two == {"xbody", "site"}
OT_BS == {"body", "site"}
OT_BX == {"body", "xbody"}
OT_Site == {"site"}
OT_None == {}
K_Layout == {"jointpos", "framepos", "jointvel", "gyro", "actuatorfrc", "touch", "clock", "user", "framezaxis"}
K_Pos == {"jointpos", "actuatorpos", "framepos", "framexaxis", "subtreecom", "clock"}
K_Vel == {"jointvel", "actuatorvel", "framelinvel", "frameangvel", "velocimeter", "gyro", "subtreelinvel"}
K_Acc == {"actuatorfrc", "jointactfrc", "touch"}
K_Touch == {"touch"}
K_TouchMix == {"touch", "framepos", "jointvel", "actuatorfrc"}
K_Frames == {"framepos", "framexaxis", "framelinvel", "frameangvel", "subtreecom", "gyro"}
K_FramesQ == {"framepos", "framexaxis", "framelinvel", "frameangvel", "gyro"}
K_Clock == {"clock", "jointpos"}
K_All == {"jointpos", "jointvel", "jointactfrc", "tendonpos", "tendonvel", "actuatorpos", "actuatorvel", "actuatorfrc",
          "framepos", "framexaxis", "frameyaxis", "framezaxis", "framelinvel", "frameangvel", "velocimeter", "gyro",
          "subtreecom", "subtreelinvel", "clock", "touch", "user"}
=============================================================================
