SPECIFICATION TSpec
CONSTANTS
  W = 30
  Base = 64
  Configs <- C_96
  Sizes <- S_proto
  Aligns <- A_1_8_16
  MaxOps = 100000000
  MaxFrames = 100000
  Threads <- T3
  CodeSites <- Contract
INVARIANT InArena
INVARIANT Aligned
INVARIANT Disjoint
INVARIANT Apart
INVARIANT Sides
INVARIANT FramesOK
CONSTRAINT Track
POSTCONDITION Report
CHECK_DEADLOCK FALSE
