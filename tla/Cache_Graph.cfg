SPECIFICATION Spec
CONSTANTS
  Models = {"m1", "m2"}
  Ids = {"x", "y"}
  Stamps = {"t1", "t2"}
  Bytes = {1, 3}
  Caps = {2, 4}
  MaxOps = 3
INVARIANT SizeIsSum
CHECK_DEADLOCK FALSE
