SPECIFICATION Spec
CONSTANTS
  MaxOps = 5
  Dots <- AllDots
  DotDots <- AllDD
  Seps <- BothSeps
VIEW ViewNoEv
INVARIANT TypeOK
INVARIANT PresenceIsObs
INVARIANT ReadPresentExact
PROPERTY AddThenPresent
PROPERTY AddKeepsOthers
PROPERTY RepeatKeeps
PROPERTY FreshAddStores
PROPERTY DeleteThenAbsent
PROPERTY DeleteRemovesOne
PROPERTY DeleteAbsentFails
CHECK_DEADLOCK FALSE
