SPECIFICATION Spec
CONSTANTS
  Ops <- EulerOps
  InitMode = "id"
  TInit <- MC_TInit
  MaxOps = 1
  QArgs <- AllQ
  ETurns <- QuickE
  IArgs <- AllI
  KArgs <- AllK
  CheckGroup = FALSE
  Bug = "none"
  MaxT = 100
INVARIANT Closure
INVARIANT Homomorphism
INVARIANT EulerDuality
CHECK_DEADLOCK FALSE
