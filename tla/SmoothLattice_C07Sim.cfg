SPECIFICATION Spec
CONSTANTS
  MinBodies = 3
  MaxBodies = 4
  JTypes <- AllJB
  Axes <- Ax6
  Offsets <- K_Off
  Rots <- K_Rot
  Anchors <- K_Anc
  SitePos <- K_Site
  SiteRots <- K_SRot
  Masses <- K_Mass
  Inertias <- K_Inr
  IPoss <- K_IPos
  Arms <- One0
  Stiffs <- One0
  Refs <- One0
  Damps <- One0
  GCs <- One0
  TCoefs <- One0
  Qs <- K_Q
  Vs <- K_V
  As <- K_A
  QScales <- QS3
  Gravs <- K_G
  DisSets <- NoDis
  TenK <- One0
  TenRanges <- Rng0
  TenDamps <- One0
  TenArms <- One0
  TenZero <- NoTz
  SpPairs <- NoSpS
  SpArms <- One0
  Sleeps <- NoTz
  StiffPolys <- P00
  DampPolys <- P00
  TenKPolys <- P00
  TenDPolys <- P00
  SpStiffs <- T000
  SpRanges <- Rng0
  SpDamps <- T000
  Level = 2
  Tie = FALSE
  Rand = TRUE
INVARIANT TypeOK
INVARIANT FramesProper
INVARIANT JacIsDerivative
INVARIANT MoveIsLocal
INVARIANT VelIsRecursive
INVARIANT SubtreeJacIsDerivative
INVARIANT KaneIsRecursive
INVARIANT ConstraintJacIsDerivative
CHECK_DEADLOCK FALSE
