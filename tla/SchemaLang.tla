----------------------------- MODULE SchemaLang -----------------------------
\* The MJCF schema definition language (doc/generate/mjcf_schema.py): abstract syntax, the documented
\* well-formedness rules, and the verdict parse_string must give for a text.
\*
\* A schema is a sequence of declarations (enum / group / element); the abstract syntax is deliberately a
\* little WIDER than the grammar (a cardinality is any token, an arity may be [3..2] or [1.5], a default may be
\* an unexpected token, a facet may be unknown ...) so that every documented rule -- lexical, grammatical and
\* semantic -- is a predicate over it.  Broken(s) is the set of rules schema s violates;
\*        verdict = "accept"  iff  Broken(s) = {}          (parse_string returns a Schema)
\*        verdict = "reject"  otherwise                    (SchemaError, 1 <= line <= #lines)
\* and Obs(s) is the projection of the Schema that must be returned for an accepted text (declaration names in
\* order, enum items, every element's attributes after `use` expansion with type/arity/default, children, consts).
\*
\* Behaviours:   seed --Grow*--> valid schemas --one M_<rule> action--> single-rule mutant --> Pump / Noise
\*   Grow actions carry LOCAL guards only (fresh name in the affected expansions, no new cycle, ...); the
\*   invariant GrowValid says they never leave the set of valid schemas (so guards and rules agree), and
\*   MutantSingle says every M_<rule> action breaks exactly the rule it is named after.
\*   Pump (repeat a construct n times: use chain, members, enum items, bundles, declarations, vector default)
\*   keeps the verdict; Noise (delete / duplicate / swap / truncate tokens, random token stream) has verdict
\*   "total": only totality (Schema or in-range SchemaError, no other exception) is demanded.
\* The renderer (checks/c41.py) turns sch+aux into text; every reachable state is one test of parse_string.
EXTENDS Integers, Sequences, FiniteSets, TLC

CONSTANTS MaxGrow,      \* number of Grow steps
          SeedIds,      \* subset of DOMAIN Seed
          GrowT,        \* subset of DOMAIN GoodT: templates AddAttr / AddGroup may use
          GrowNames,    \* attribute names Grow may introduce
          DeclNames,    \* declaration names Grow may introduce
          Mutate,       \* BOOLEAN: mutation actions enabled
          Focused,      \* BOOLEAN: every step is preceded by a Pick step that chooses one class of actions, so
                        \* that a simulation step has few successors (exhaustive runs use FALSE)
          MutFrom,      \* mutations and decorations need this many Grow steps first (steers simulation)
          PumpSizes,    \* set of repetition counts
          NoisePos      \* set of positions (eighths of the token stream), {} disables Noise

VARIABLES sch,      \* the abstract schema
          phase,    \* "grow" | "mutant" | "aux"
          ngrow,
          ev,       \* [op, rule, kind, verdict]: last step and the verdict parse_string must give
          broken,   \* Broken(sch)
          obs,      \* Obs(sch) when accepted
          aux,      \* pump / noise decoration applied by the renderer
          focus     \* class of actions picked for the next step (only when Focused; steers simulation)
vars == <<sch, phase, ngrow, ev, broken, obs, aux, focus>>

\* ------------------------------------------------------------------------------------------------
\* abstract syntax
\* ------------------------------------------------------------------------------------------------
AR(f, lo, hi) == [f |-> f, lo |-> lo, hi |-> hi]
ArNone     == AR("none", 1, 1)         \* no brackets: scalar
ArUnb      == AR("unb", 0, 0)          \* []
ArEx(n)    == AR("exact", n, n)        \* [n]
ArRg(l, h) == AR("range", l, h)        \* [l..h]
ArSym(l)   == AR("sym", l, 0)          \* [l..mjNREF]
ArFrac     == AR("frac", 1, 1)         \* [1.5]        (not a grammar arity)
ArStrHi    == AR("strhi", 1, 1)        \* [1.."x"]     (not a grammar arity)

DNone    == [k |-> "none", v |-> 0, s |-> ""]
DNum(n)  == [k |-> "num", v |-> n, s |-> ""]
DId(x)   == [k |-> "id", v |-> 0, s |-> x]     \* bare word
DStr(x)  == [k |-> "str", v |-> 0, s |-> x]    \* quoted
DVec(n)  == [k |-> "vec", v |-> n, s |-> ""]   \* {1, 2, ..., n}
DBad(x)  == [k |-> "bad", v |-> 0, s |-> x]    \* x in {"paren","brack","emptyvec","vecstr"}: not a default

F(n)        == [f |-> n, k |-> "flag", v |-> 0, s |-> ""]
FId(n, x)   == [f |-> n, k |-> "id", v |-> 0, s |-> x]
FStr(n, x)  == [f |-> n, k |-> "str", v |-> 0, s |-> x]
FNum(n, v)  == [f |-> n, k |-> "num", v |-> v, s |-> ""]
FBad(n)     == [f |-> n, k |-> "bad", v |-> 0, s |-> ""]   \* name = {   : value is no IDENT/STRING/NUMBER

T(ty, tg, ar, df, fc) == [type |-> ty, target |-> tg, ar |-> ar, def |-> df, fac |-> fc]
Attr(n, t) == [m |-> "attr", name |-> n, type |-> t.type, target |-> t.target, ar |-> t.ar, def |-> t.def,
               fac |-> t.fac]
Use(g)        == [m |-> "use", name |-> g]
Child(e, c)   == [m |-> "child", name |-> e, card |-> c]
SetC(f, v)    == [m |-> "set", name |-> f, val |-> v]
Con(v, bs)    == [m |-> "con", name |-> v, bundles |-> bs]
JunkM(tok)    == [m |-> "junk", name |-> tok]

Item(key, kk, val, vk) == [key |-> key, kk |-> kk, val |-> val, vk |-> vk]   \* kk,vk in {"id","str","num"}
EnumD(n, ct, items)       == [k |-> "enum", name |-> n, ctype |-> ct, items |-> items]
GroupD(n, var, mem)       == [k |-> "group", name |-> n, variant |-> var, mem |-> mem]
ElemD(n, spec, fac, mem)  == [k |-> "element", name |-> n, spec |-> spec, fac |-> fac, mem |-> mem]
JunkD(tok)                == [k |-> "junk", name |-> tok]     \* a stray token at top level
ExternD(n)                == [k |-> "extern", name |-> n]     \* the checked-in src/xml/mjcf.schema, verbatim

ScalarTypes  == {"double", "float", "int", "bool", "string", "file", "chars"}
TargetTypes  == {"enum", "flags", "id", "ref"}
Numeric      == {"double", "float", "int"}
Cards        == {"?", "!", "*", "R"}
Verbs        == {"exclusive", "together", "requires", "oneof"}
AttrFacets   == {"field", "required", "nodefault", "pattern", "reading", "writing", "min", "max", "positive"}
ElemFacets   == {"xml", "alias", "field"}
BadChars     == {"$", "@", ";", "'"}

\* ------------------------------------------------------------------------------------------------
\* navigation
\* ------------------------------------------------------------------------------------------------
EnumIdx(s)  == {i \in DOMAIN s : s[i].k = "enum"}
GroupIdx(s) == {i \in DOMAIN s : s[i].k = "group"}
ElemIdx(s)  == {i \in DOMAIN s : s[i].k = "element"}
ContIdx(s)  == GroupIdx(s) \cup ElemIdx(s)
NamesAt(s, I) == {s[i].name : i \in I}
FirstIdx(s, I, n) == CHOOSE i \in I : s[i].name = n /\ \A k \in I : s[k].name = n => i <= k
MemIdx(s, i, kind) == {j \in DOMAIN s[i].mem : s[i].mem[j].m = kind}
UseNames(s, i) == {s[i].mem[j].name : j \in MemIdx(s, i, "use")}
DirectAttrNames(s, i) == {s[i].mem[j].name : j \in MemIdx(s, i, "attr")}
RECURSIVE DirectNm(_)
DirectNm(ms) == IF ms = << >> THEN << >> ELSE (IF ms[1].m = "attr" THEN <<ms[1].name>> ELSE << >>) \o DirectNm(Tail(ms))
DirectSeq(s, i) == DirectNm(s[i].mem)                     \* names of the container's own attributes, in order
SeqRange(q) == {q[x] : x \in DOMAIN q}
Distinct(q) == \A x, y \in DOMAIN q : x # y => q[x] # q[y]

\* group names reachable from a set of group names through `use` (terminates on cycles)
RECURSIVE ReachFrom(_, _, _)
ReachFrom(s, front, seen) ==
  LET nxt == UNION {UseNames(s, FirstIdx(s, GroupIdx(s), g)) : g \in front \cap NamesAt(s, GroupIdx(s))} \ seen
  IN IF nxt = {} THEN seen ELSE ReachFrom(s, nxt, seen \cup nxt)
Reach(s, i) == ReachFrom(s, UseNames(s, i), UseNames(s, i))          \* in >= 1 step from container i
Cyclic(s)   == \E i \in GroupIdx(s) : s[i].name \in Reach(s, i)
Dangling(s) == \E i \in ContIdx(s) : ~(UseNames(s, i) \subseteq NamesAt(s, GroupIdx(s)))
UsesOK(s)   == ~Cyclic(s) /\ ~Dangling(s)

\* attributes of a member list with `use` expanded in place (declaration order); fuel bounds the depth
RECURSIVE ExpMem(_, _, _)
ExpMem(s, ms, fuel) ==
  IF ms = << >> THEN << >>
  ELSE (IF ms[1].m = "attr" THEN <<ms[1]>>
        ELSE IF ms[1].m = "use" /\ fuel > 0 /\ ms[1].name \in NamesAt(s, GroupIdx(s))
             THEN ExpMem(s, s[FirstIdx(s, GroupIdx(s), ms[1].name)].mem, fuel - 1)
             ELSE << >>) \o ExpMem(s, Tail(ms), fuel)
Exp(s, i) == ExpMem(s, s[i].mem, Len(s))
RECURSIVE ExpNm(_, _, _)
ExpNm(s, ms, fuel) ==
  IF ms = << >> THEN << >>
  ELSE (IF ms[1].m = "attr" THEN <<ms[1].name>>
        ELSE IF ms[1].m = "use" /\ fuel > 0 /\ ms[1].name \in NamesAt(s, GroupIdx(s))
             THEN ExpNm(s, s[FirstIdx(s, GroupIdx(s), ms[1].name)].mem, fuel - 1)
             ELSE << >>) \o ExpNm(s, Tail(ms), fuel)
ExpNameSeq(s, i) == ExpNm(s, s[i].mem, Len(s))
ExpNames(s, i) == SeqRange(ExpNameSeq(s, i))

Namespaces(s) == UNION {{s[i].mem[j].target : j \in {x \in DOMAIN s[i].mem :
                     s[i].mem[x].m = "attr" /\ s[i].mem[x].type = "id"}} : i \in ContIdx(s)}
Keywords(s, e) == {s[FirstIdx(s, EnumIdx(s), e)].items[x].key : x \in DOMAIN s[FirstIdx(s, EnumIdx(s), e)].items}

\* effective arity of a grammatical arity
ArGram(ar) == ar.f \in {"none", "unb", "exact", "range", "sym"}
Lo(ar)  == IF ar.f = "none" THEN 1 ELSE IF ar.f = "unb" THEN 0 ELSE ar.lo
HiK(ar) == IF ar.f = "unb" THEN "inf" ELSE IF ar.f = "sym" THEN "sym" ELSE "int"
Hi(ar)  == IF ar.f = "none" THEN 1 ELSE IF ar.f = "exact" THEN ar.lo ELSE IF ar.f = "range" THEN ar.hi ELSE 0
IsScalar(ar) == HiK(ar) = "int" /\ Lo(ar) = 1 /\ Hi(ar) = 1
DefLen(d) == IF d.k = "vec" THEN d.v ELSE 1
HasFac(a, n) == \E x \in DOMAIN a.fac : a.fac[x].f = n
FacOf(a, n)  == a.fac[CHOOSE x \in DOMAIN a.fac : a.fac[x].f = n]

\* ------------------------------------------------------------------------------------------------
\* the rules.  G_ = lexical / grammatical (module docstring grammar), S_ = semantic (validator)
\* ------------------------------------------------------------------------------------------------
FacetRules(fs, known) ==
     {"G_FacetUnknown" : x \in {y \in DOMAIN fs : fs[y].f \notin known}}
  \cup {"G_FacetDup" : x \in {y \in DOMAIN fs : \E z \in DOMAIN fs : z < y /\ fs[z].f = fs[y].f}}
  \cup {"G_FacetValTok" : x \in {y \in DOMAIN fs : fs[y].k = "bad"}}

ArityRules(a) ==
  IF a.type \notin ScalarTypes THEN {}                                 \* enum<>/flags<>/id<>/ref<> take no arity
  ELSE  (IF a.ar.f = "frac" THEN {"G_ArityNotInt"} ELSE {})
   \cup (IF a.ar.f = "strhi" THEN {"G_ArityBound"} ELSE {})
   \cup (IF a.ar.f \in {"exact", "range", "sym"} /\ a.ar.lo < 0 THEN {"G_ArityNeg"} ELSE {})
   \cup (IF a.ar.f = "range" /\ a.ar.lo >= 0 /\ a.ar.hi <= a.ar.lo THEN {"G_ArityOrder"} ELSE {})

AttrGrammar(a) ==
       (IF a.type \notin ScalarTypes \cup TargetTypes THEN {"G_UnknownType"} ELSE {})
  \cup ArityRules(a)
  \cup (IF a.def.k = "bad" THEN {"G_DefaultTok"} ELSE {})
  \cup FacetRules(a.fac, AttrFacets)

DefaultRules(s, a) ==
  LET d == a.def  n == DefLen(a.def) IN
  IF d.k = "none" THEN {}
  ELSE IF a.type = "enum" THEN
         IF a.target \notin NamesAt(s, EnumIdx(s)) THEN {}
         ELSE IF d.k \in {"id", "str"} /\ d.s \in Keywords(s, a.target) THEN {} ELSE {"S_EnumDefaultNotKw"}
  ELSE IF a.type \in {"ref", "id", "chars"} THEN {"S_DefaultForbidden"}
  ELSE IF a.type = "bool" THEN IF d.k \in {"id", "str"} /\ d.s \in {"true", "false"} THEN {} ELSE {"S_BoolDefault"}
  ELSE IF a.type \in {"string", "file"} THEN IF d.k \in {"id", "str"} THEN {} ELSE {"S_StringDefault"}
  ELSE IF a.type \in Numeric THEN
         IF d.k \in {"id", "str"} THEN {"S_NumericDefaultStr"}
         ELSE IF d.k = "vec" /\ IsScalar(a.ar) THEN {"S_VecOnScalar"}
         ELSE IF n < Lo(a.ar) THEN {"S_DefaultShort"}
         ELSE IF HiK(a.ar) = "int" /\ n > Hi(a.ar) THEN {"S_DefaultLong"}
         ELSE {}
  ELSE {}                                                              \* flags<> defaults: left open

\* facts about the whole schema, computed once per schema (c is always a bound value, never an expression)
Ctx(s) == [gn |-> NamesAt(s, GroupIdx(s)), eln |-> NamesAt(s, ElemIdx(s)), enn |-> NamesAt(s, EnumIdx(s)),
           ns |-> Namespaces(s), cyc |-> Cyclic(s), ok |-> UsesOK(s)]

AttrSemantic(s, c, a) ==
       (IF a.type \in {"enum", "flags"} /\ a.target \notin c.enn THEN {"S_EnumTarget"} ELSE {})
  \cup (IF a.type = "ref" /\ a.target \notin c.ns THEN {"S_RefNamespace"} ELSE {})
  \cup (IF a.type \in {"file", "bool"} /\ ~IsScalar(a.ar) THEN {"S_VectorFileBool"} ELSE {})
  \cup (IF a.type = "chars" /\ HiK(a.ar) # "int" THEN {"S_CharsUnbounded"} ELSE {})
  \cup (IF HasFac(a, "pattern") /\ a.type \notin {"string", "chars"} THEN {"S_PatternNonText"} ELSE {})
  \cup (IF \E n \in {"min", "max"} : HasFac(a, n) /\ a.type \notin Numeric THEN {"S_MinMaxNonNumeric"} ELSE {})
  \cup (IF a.type \in Numeric /\ \E n \in {"min", "max"} : HasFac(a, n) /\ FacOf(a, n).k # "num"
        THEN {"S_MinMaxValue"} ELSE {})
  \cup (IF a.type \in Numeric /\ HasFac(a, "min") /\ HasFac(a, "max") /\ FacOf(a, "min").k = "num"
           /\ FacOf(a, "max").k = "num" /\ FacOf(a, "min").v > FacOf(a, "max").v THEN {"S_MinGtMax"} ELSE {})
  \cup (IF HasFac(a, "positive") /\ a.type \notin Numeric THEN {"S_PositiveNonNumeric"} ELSE {})
  \cup (IF HasFac(a, "required") /\ a.def.k # "none" THEN {"S_RequiredDefault"} ELSE {})
  \cup DefaultRules(s, a)

\* semantic rules presuppose a grammatical attribute (the validator never sees the others)
AttrRules(s, c, a) == IF AttrGrammar(a) # {} THEN AttrGrammar(a) ELSE AttrSemantic(s, c, a)

ConRules(cn) ==
  IF Len(cn.bundles) < 2 THEN {"G_ConArity"}
  ELSE IF cn.name = "requires" /\ ~(Len(cn.bundles) = 2 /\ \A x \in DOMAIN cn.bundles : Len(cn.bundles[x]) = 1)
       THEN {"S_RequiresArity"} ELSE {}
ConNames(cn) == UNION {SeqRange(cn.bundles[x]) : x \in DOMAIN cn.bundles}

MemberRules(s, c, i, mm) ==
  IF mm.m = "attr" THEN AttrRules(s, c, mm)
  ELSE IF mm.m = "junk" THEN (IF mm.name \in BadChars THEN {"G_BadChar"} ELSE {"G_Stray"})
  ELSE IF mm.m = "con" THEN ConRules(mm)
  ELSE IF mm.m = "child" THEN
         (IF s[i].k = "group" THEN {"G_ChildInGroup"}
          ELSE (IF mm.card \notin Cards THEN {"G_BadCard"} ELSE {})
           \cup (IF mm.name \notin c.eln THEN {"S_ChildDangling"} ELSE {}))
  ELSE IF mm.m = "set" THEN (IF s[i].k = "group" THEN {"G_SetInGroup"} ELSE {})
  ELSE IF mm.m = "use" THEN (IF mm.name \notin c.gn THEN {"S_DanglingUse"} ELSE {})
  ELSE {}

GroupRules(s, i) ==
       (IF s[i].mem = << >> THEN {"G_EmptyGroup"} ELSE {})
  \cup (IF \E j \in MemIdx(s, i, "con") : ~(ConNames(s[i].mem[j]) \subseteq DirectAttrNames(s, i))
        THEN {"S_GroupConUnknown"} ELSE {})
  \cup (IF s[i].variant /\ MemIdx(s, i, "use") # {} THEN {"S_VariantUse"} ELSE {})
  \cup (IF s[i].variant /\ \E j \in MemIdx(s, i, "attr") : AttrGrammar(s[i].mem[j]) = {} /\ HasFac(s[i].mem[j], "required")
        THEN {"S_VariantRequired"} ELSE {})

\* q = the element's attribute names after FULL expansion: every `use` stands for the member list of its group,
\* textually, once per use-path (a group reachable along two paths is expanded twice: the path multiset);
\* d = the names of the element's own attributes.  Two own attributes of one name break S_DupAttr; a name that
\* occurs twice with at least one occurrence arriving through a `use` path breaks S_DupAttrViaUse -- in particular
\* a group shared along two distinct use-paths below the element (diamond, same group used twice, re-use one
\* level up) always does, because groups have non-empty expansions.
CountIn(q, n) == Cardinality({x \in DOMAIN q : q[x] = n})
ElemExpRules(s, i, q, d) ==
       (IF \E n \in SeqRange(d) : CountIn(d, n) >= 2 THEN {"S_DupAttr"} ELSE {})
  \cup (IF \E n \in SeqRange(q) : CountIn(q, n) >= 2 /\ CountIn(q, n) > CountIn(d, n) THEN {"S_DupAttrViaUse"} ELSE {})
  \cup (IF \E j \in MemIdx(s, i, "con") : ~(ConNames(s[i].mem[j]) \subseteq SeqRange(q)) THEN {"S_ElemConUnknown"} ELSE {})
ElemRules(s, c, i) ==
       FacetRules(s[i].fac, ElemFacets)
  \cup (IF \E x \in DOMAIN s[i].fac : s[i].fac[x].f \in {"xml", "alias"} /\ s[i].fac[x].k \in {"flag", "num"}
        THEN {"S_ElemFacetName"} ELSE {})
  \cup (IF \E x \in DOMAIN s[i].fac : s[i].fac[x].f = "alias" /\ s[i].fac[x].k \in {"id", "str"}
                                       /\ s[i].fac[x].s \notin c.eln
        THEN {"S_AliasDangling"} ELSE {})
  \cup (IF \E j, k \in MemIdx(s, i, "child") : j < k /\ s[i].mem[j].name = s[i].mem[k].name
        THEN {"S_DupChild"} ELSE {})
  \cup (IF c.ok THEN UNION {ElemExpRules(s, i, q, d) : q \in {ExpNameSeq(s, i)}, d \in {DirectSeq(s, i)}} ELSE {})

EnumRules(s, i) ==
  LET it == s[i].items IN
       (IF it = << >> THEN {"G_EmptyEnum"} ELSE {})
  \cup (IF \E x \in DOMAIN it : it[x].kk = "num" THEN {"G_EnumKeyKind"} ELSE {})
  \cup (IF \E x \in DOMAIN it : it[x].vk = "str" THEN {"G_EnumValKind"} ELSE {})
  \cup (IF \E x, y \in DOMAIN it : x < y /\ it[x].key = it[y].key THEN {"G_DupEnumKey"} ELSE {})

DeclRules(s, c, i) ==
  IF s[i].k = "junk" THEN (IF s[i].name \in BadChars THEN {"G_BadChar"}
                           ELSE IF s[i].name = "42" THEN {"G_Stray"} ELSE {"G_TopKeyword"})
  ELSE IF s[i].k = "extern" THEN {}
  ELSE (IF \E k \in DOMAIN s : k < i /\ s[k].k = s[i].k /\ s[k].name = s[i].name THEN {"G_DupDecl"} ELSE {})
   \cup (IF s[i].k = "enum" THEN EnumRules(s, i)
         ELSE UNION {MemberRules(s, c, i, s[i].mem[j]) : j \in DOMAIN s[i].mem}
              \cup (IF s[i].k = "group" THEN GroupRules(s, i) ELSE ElemRules(s, c, i)))

BrokenC(s, c) == UNION {DeclRules(s, c, i) : i \in DOMAIN s} \cup (IF c.cyc THEN {"S_UseCycle"} ELSE {})
Broken(s) == UNION {BrokenC(s, c) : c \in {Ctx(s)}}
Valid(s)  == Broken(s) = {}

Rules == {"G_BadChar", "G_Stray", "G_TopKeyword", "G_DupDecl", "G_EnumKeyKind", "G_EnumValKind", "G_DupEnumKey",
          "G_EmptyEnum", "G_EmptyGroup", "G_SetInGroup", "G_ChildInGroup", "G_ConArity", "G_BadCard",
          "G_UnknownType", "G_ArityNotInt", "G_ArityNeg", "G_ArityOrder", "G_ArityBound", "G_DefaultTok",
          "G_FacetUnknown", "G_FacetDup", "G_FacetValTok",
          "S_UseCycle", "S_DanglingUse", "S_GroupConUnknown", "S_VariantUse", "S_VariantRequired",
          "S_ElemFacetName", "S_AliasDangling", "S_ChildDangling", "S_DupChild", "S_DupAttr", "S_DupAttrViaUse", "S_ElemConUnknown",
          "S_RequiresArity", "S_EnumTarget", "S_RefNamespace", "S_VectorFileBool", "S_CharsUnbounded",
          "S_PatternNonText", "S_MinMaxNonNumeric", "S_MinMaxValue", "S_MinGtMax", "S_PositiveNonNumeric",
          "S_RequiredDefault", "S_EnumDefaultNotKw", "S_DefaultForbidden", "S_BoolDefault", "S_StringDefault",
          "S_NumericDefaultStr", "S_VecOnScalar", "S_DefaultShort", "S_DefaultLong"}

\* ------------------------------------------------------------------------------------------------
\* what an accepted text must parse to
\* ------------------------------------------------------------------------------------------------
DefObs(d) == IF d.k = "none" THEN <<"none", 0, "">> ELSE IF d.k = "num" THEN <<"num", d.v, "">>
             ELSE IF d.k = "vec" THEN <<"vec", d.v, "">> ELSE <<"txt", 0, d.s>>
FacObs(fs) == [x \in DOMAIN fs |-> <<fs[x].f, fs[x].k, fs[x].v, fs[x].s>>]
AttrObs(a) == <<a.name, a.type, a.target, Lo(a.ar), HiK(a.ar), Hi(a.ar), DefObs(a.def), FacObs(a.fac)>>
SubSeqBy(q, I) == LET RECURSIVE G(_) G(x) == IF x > Len(q) THEN << >> ELSE (IF x \in I THEN <<q[x]>> ELSE << >>) \o G(x + 1)
                  IN G(1)
DeclObs(s, i) ==
  IF s[i].k = "enum" THEN <<"enum", s[i].name, s[i].ctype,
                            [x \in DOMAIN s[i].items |-> <<s[i].items[x].key, s[i].items[x].val>>]>>
  ELSE IF s[i].k = "group" THEN <<"group", s[i].name, s[i].variant, Len(s[i].mem)>>
  ELSE <<"element", s[i].name, s[i].spec, FacObs(s[i].fac),
         CHOOSE r \in {[x \in DOMAIN q |-> AttrObs(q[x])] : q \in {Exp(s, i)}} : TRUE,
         SubSeqBy([x \in DOMAIN s[i].mem |-> IF s[i].mem[x].m = "child" THEN <<s[i].mem[x].name, s[i].mem[x].card>>
                                              ELSE << >>], MemIdx(s, i, "child")),
         SubSeqBy([x \in DOMAIN s[i].mem |-> IF s[i].mem[x].m = "set" THEN <<s[i].mem[x].name, s[i].mem[x].val>>
                                              ELSE << >>], MemIdx(s, i, "set")),
         SubSeqBy([x \in DOMAIN s[i].mem |-> IF s[i].mem[x].m = "con" THEN <<s[i].mem[x].name, s[i].mem[x].bundles>>
                                              ELSE << >>], MemIdx(s, i, "con"))>>
ObsB(s, b) == IF b # {} \/ \E i \in DOMAIN s : s[i].k = "extern" THEN << >>
              ELSE [i \in DOMAIN s |-> DeclObs(s, i)]
Obs(s) == ObsB(s, Broken(s))

\* ------------------------------------------------------------------------------------------------
\* attribute templates
\* ------------------------------------------------------------------------------------------------
GoodT == [
  int     |-> T("int", "", ArNone, DNone, << >>),
  dbl0    |-> T("double", "", ArNone, DNum(0), << >>),
  vec3    |-> T("double", "", ArEx(3), DVec(3), << >>),
  rng03   |-> T("double", "", ArRg(0, 3), DNone, << >>),
  rng13   |-> T("float", "", ArRg(1, 3), DVec(2), << >>),
  sym     |-> T("double", "", ArSym(0), DNone, << >>),
  unb     |-> T("double", "", ArUnb, DVec(4), << >>),
  str     |-> T("string", "", ArNone, DStr("xyz"), <<FStr("pattern", "[xyz]{3}")>>),
  strreq  |-> T("string", "", ArNone, DNone, <<F("required")>>),
  file    |-> T("file", "", ArNone, DNone, <<F("required")>>),
  bool    |-> T("bool", "", ArNone, DId("true"), << >>),
  chars   |-> T("chars", "", ArEx(3), DNone, <<FStr("pattern", "[xyz]{3}")>>),
  charsr  |-> T("chars", "", ArRg(1, 12), DNone, << >>),
  enum    |-> T("enum", "e1", ArNone, DId("k1"), << >>),
  flags   |-> T("flags", "e1", ArNone, DNone, <<FId("reading", "custom")>>),
  id      |-> T("id", "n1", ArNone, DNone, << >>),
  ref     |-> T("ref", "n1", ArNone, DNone, <<FId("field", "rr")>>),
  minmax  |-> T("int", "", ArNone, DNone, <<FNum("min", 0), FNum("max", 5)>>),
  pos     |-> T("float", "", ArNone, DNum(1), <<F("positive")>>),
  nodef   |-> T("int", "", ArNone, DNum(3), <<F("nodefault")>>),
  negmin  |-> T("int", "", ArNone, DNum(-1), <<FNum("min", -1)>>)
]
NeedsOK(s, t) == /\ t.type \in {"enum", "flags"} => /\ t.target \in NamesAt(s, EnumIdx(s))
                                                    /\ t.def.k # "none" => t.def.s \in Keywords(s, t.target)
                 /\ t.type = "ref" => t.target \in Namespaces(s)

\* templates that break exactly one rule when added (under a fresh name) to a container of a valid schema
BadT == {
  [rule |-> "G_UnknownType",       t |-> T("quat", "", ArNone, DNone, << >>)],
  [rule |-> "G_UnknownType",       t |-> T("Double", "", ArEx(3), DNone, << >>)],
  [rule |-> "G_ArityNotInt",       t |-> T("double", "", ArFrac, DNone, << >>)],
  [rule |-> "G_ArityNeg",          t |-> T("double", "", ArEx(-1), DNone, << >>)],
  [rule |-> "G_ArityNeg",          t |-> T("int", "", ArRg(-2, 3), DNone, << >>)],
  [rule |-> "G_ArityOrder",        t |-> T("double", "", ArRg(3, 2), DNone, << >>)],
  [rule |-> "G_ArityOrder",        t |-> T("double", "", ArRg(2, 2), DNone, << >>)],
  [rule |-> "G_ArityBound",        t |-> T("double", "", ArStrHi, DNone, << >>)],
  [rule |-> "G_DefaultTok",        t |-> T("int", "", ArNone, DBad("paren"), << >>)],
  [rule |-> "G_DefaultTok",        t |-> T("double", "", ArEx(2), DBad("vecstr"), << >>)],
  [rule |-> "G_DefaultTok",        t |-> T("double", "", ArUnb, DBad("emptyvec"), << >>)],
  [rule |-> "G_DefaultTok",        t |-> T("string", "", ArNone, DBad("brack"), << >>)],
  [rule |-> "G_FacetUnknown",      t |-> T("int", "", ArNone, DNone, <<F("frobnicate")>>)],
  [rule |-> "G_FacetUnknown",      t |-> T("int", "", ArNone, DNone, <<F("nodefault"), FId("xml", "y")>>)],
  [rule |-> "G_FacetDup",          t |-> T("int", "", ArNone, DNone, <<F("nodefault"), F("nodefault")>>)],
  [rule |-> "G_FacetDup",          t |-> T("int", "", ArNone, DNone, <<FNum("min", 0), FNum("max", 1), FNum("min", 0)>>)],
  [rule |-> "G_FacetValTok",       t |-> T("int", "", ArNone, DNone, <<FBad("field")>>)],
  [rule |-> "S_EnumTarget",        t |-> T("enum", "nosuch", ArNone, DNone, << >>)],
  [rule |-> "S_EnumTarget",        t |-> T("flags", "nosuch", ArNone, DNone, << >>)],
  [rule |-> "S_RefNamespace",      t |-> T("ref", "nosuch", ArNone, DNone, << >>)],
  [rule |-> "S_VectorFileBool",    t |-> T("bool", "", ArEx(2), DNone, << >>)],
  [rule |-> "S_VectorFileBool",    t |-> T("file", "", ArEx(3), DNone, << >>)],
  [rule |-> "S_VectorFileBool",    t |-> T("bool", "", ArUnb, DNone, << >>)],
  [rule |-> "S_VectorFileBool",    t |-> T("file", "", ArRg(0, 1), DNone, << >>)],
  [rule |-> "S_CharsUnbounded",    t |-> T("chars", "", ArUnb, DNone, << >>)],
  [rule |-> "S_CharsUnbounded",    t |-> T("chars", "", ArSym(0), DNone, << >>)],
  [rule |-> "S_PatternNonText",    t |-> T("int", "", ArNone, DNone, <<FStr("pattern", "x")>>)],
  [rule |-> "S_PatternNonText",    t |-> T("double", "", ArEx(3), DNone, <<FStr("pattern", "x")>>)],
  [rule |-> "S_PatternNonText",    t |-> T("bool", "", ArNone, DNone, <<FStr("pattern", "x")>>)],
  [rule |-> "S_MinMaxNonNumeric",  t |-> T("string", "", ArNone, DNone, <<FNum("min", 0)>>)],
  [rule |-> "S_MinMaxNonNumeric",  t |-> T("bool", "", ArNone, DNone, <<FNum("max", 1)>>)],
  [rule |-> "S_MinMaxNonNumeric",  t |-> T("id", "n9", ArNone, DNone, <<FNum("min", 1)>>)],
  [rule |-> "S_MinMaxValue",       t |-> T("int", "", ArNone, DNone, <<FStr("min", "3")>>)],
  [rule |-> "S_MinMaxValue",       t |-> T("double", "", ArNone, DNone, <<FId("max", "abc")>>)],
  [rule |-> "S_MinMaxValue",       t |-> T("int", "", ArNone, DNone, <<F("min")>>)],
  [rule |-> "S_MinGtMax",          t |-> T("int", "", ArNone, DNone, <<FNum("min", 5), FNum("max", 1)>>)],
  [rule |-> "S_MinGtMax",          t |-> T("float", "", ArNone, DNone, <<FNum("max", -2), FNum("min", -1)>>)],
  [rule |-> "S_PositiveNonNumeric", t |-> T("string", "", ArNone, DNone, <<F("positive")>>)],
  [rule |-> "S_PositiveNonNumeric", t |-> T("file", "", ArNone, DNone, <<F("positive")>>)],
  [rule |-> "S_RequiredDefault",   t |-> T("int", "", ArNone, DNum(1), <<F("required")>>)],
  [rule |-> "S_RequiredDefault",   t |-> T("string", "", ArNone, DStr("s"), <<F("nodefault"), F("required")>>)],
  [rule |-> "S_EnumDefaultNotKw",  t |-> T("enum", "e1", ArNone, DId("nokw"), << >>)],
  [rule |-> "S_EnumDefaultNotKw",  t |-> T("enum", "e1", ArNone, DNum(0), << >>)],
  [rule |-> "S_DefaultForbidden",  t |-> T("ref", "n1", ArNone, DStr("q"), << >>)],
  [rule |-> "S_DefaultForbidden",  t |-> T("id", "n1", ArNone, DId("q"), << >>)],
  [rule |-> "S_DefaultForbidden",  t |-> T("chars", "", ArEx(3), DStr("xyz"), << >>)],
  [rule |-> "S_BoolDefault",       t |-> T("bool", "", ArNone, DId("maybe"), << >>)],
  [rule |-> "S_BoolDefault",       t |-> T("bool", "", ArNone, DNum(1), << >>)],
  [rule |-> "S_StringDefault",     t |-> T("string", "", ArNone, DNum(3), << >>)],
  [rule |-> "S_StringDefault",     t |-> T("file", "", ArNone, DNum(3), << >>)],
  [rule |-> "S_NumericDefaultStr", t |-> T("int", "", ArNone, DStr("3"), << >>)],
  [rule |-> "S_NumericDefaultStr", t |-> T("double", "", ArNone, DId("abc"), << >>)],
  [rule |-> "S_NumericDefaultStr", t |-> T("double", "", ArEx(3), DStr("1 2 3"), << >>)],
  [rule |-> "S_VecOnScalar",       t |-> T("double", "", ArNone, DVec(2), << >>)],
  [rule |-> "S_VecOnScalar",       t |-> T("int", "", ArNone, DVec(1), << >>)],
  [rule |-> "S_DefaultShort",      t |-> T("double", "", ArEx(3), DVec(2), << >>)],
  [rule |-> "S_DefaultShort",      t |-> T("double", "", ArRg(2, 4), DNum(1), << >>)],
  [rule |-> "S_DefaultShort",      t |-> T("float", "", ArSym(2), DVec(1), << >>)],
  [rule |-> "S_DefaultLong",       t |-> T("double", "", ArEx(3), DVec(4), << >>)],
  [rule |-> "S_DefaultLong",       t |-> T("double", "", ArRg(0, 3), DVec(4), << >>)],
  [rule |-> "S_DefaultLong",       t |-> T("int", "", ArEx(0), DNum(1), << >>)]
}
BadOf(r) == {b \in BadT : b.rule = r}
\* context a bad template needs so that it breaks nothing but its own rule
CtxOK(s, b) == /\ b.rule = "S_EnumDefaultNotKw" => "e1" \in NamesAt(s, EnumIdx(s))
               /\ (b.t.type = "ref" /\ b.rule # "S_RefNamespace") => b.t.target \in Namespaces(s)

\* ------------------------------------------------------------------------------------------------
\* seeds
\* ------------------------------------------------------------------------------------------------
Seed == [
  empty |-> << >>,
  good  |-> <<
    EnumD("e1", "mjtE", <<Item("k1", "id", "C1", "id"), Item("k2", "id", "C2", "id"), Item("2d", "str", "3", "num")>>),
    GroupD("g1", TRUE, <<Attr("a", T("double", "", ArEx(4), DVec(4), << >>)), Attr("b", GoodT.rng03)>>),
    GroupD("g2", FALSE, <<Attr("c", GoodT.vec3), Use("g1")>>),
    ElemD("x1", "", << >>, <<Attr("n", GoodT.id)>>),
    ElemD("x2", "mjsX", <<FId("xml", "y")>>,
          <<Use("g2"), Attr("n", T("id", "n2", ArNone, DNone, << >>)), Attr("r", GoodT.ref), Attr("t", GoodT.enum),
            Attr("d", GoodT.nodef), Con("exclusive", <<<<"d", "t">>, <<"r">>>>), Con("requires", <<<<"d">>, <<"t">>>>),
            Child("x2", "R"), Child("x1", "*"), SetC("type", "C1")>>) >>,
  cons  |-> <<
    GroupD("g1", FALSE, <<Attr("a", GoodT.int), Attr("b", GoodT.int), Attr("c", GoodT.dbl0),
                          Con("together", <<<<"a">>, <<"b">>>>), Con("requires", <<<<"a">>, <<"c">>>>), Use("g3")>>),
    ElemD("x1", "", << >>, <<Use("g1"), Attr("e", GoodT.bool), Con("oneof", <<<<"a">>, <<"e", "d">>>>)>>),
    ElemD("x2", "", <<FId("alias", "x1")>>, <<Attr("f", GoodT.file), Child("x1", "?"), Use("g4")>>),
    GroupD("g3", FALSE, <<Attr("d", GoodT.str)>>),
    GroupD("g4", TRUE, <<Attr("v", GoodT.int), Attr("w", GoodT.dbl0), Con("exclusive", <<<<"v">>, <<"w">>>>)>>),
    EnumD("x1", "", <<Item("k1", "id", "0", "num")>>) >>,
  \* a `use` DAG of depth 4 below one top-level use (x1 -> mid -> top -> {left -> leaf, right}); leaf is also shared,
  \* validly, with another element
  dag   |-> <<
    GroupD("leaf", FALSE, <<Attr("r", GoodT.rng13)>>),
    GroupD("left", FALSE, <<Use("leaf"), Attr("s", GoodT.vec3)>>),
    GroupD("right", FALSE, <<Attr("m", GoodT.dbl0)>>),
    GroupD("top", FALSE, <<Use("left"), Use("right")>>),
    GroupD("mid", FALSE, <<Attr("k", GoodT.int), Use("top")>>),
    ElemD("x1", "", << >>, <<Attr("n", GoodT.id), Use("mid"), Con("exclusive", <<<<"r">>, <<"k", "m">>>>)>>),
    ElemD("x2", "", << >>, <<Use("leaf"), Attr("s", GoodT.int)>>) >>,
  real  |-> <<ExternD("mjcf.schema")>>
]

\* ------------------------------------------------------------------------------------------------
\* state machine
\* ------------------------------------------------------------------------------------------------
NoAux == [k |-> "none", what |-> "", n |-> 0]
Verdict(b) == IF b = {} THEN "accept" ELSE "reject"
IsExtern(s) == \E i \in DOMAIN s : s[i].k = "extern"

NoFocus == [c |-> "any", i |-> 0]
GrowClasses == {"g_attr", "g_use", "g_child", "g_set", "g_con", "g_enum", "g_item", "g_group", "g_elem"}
On(c) == ~Focused \/ focus.c = c
At(i) == ~Focused \/ focus.i = i

Init == /\ sch \in {Seed[x] : x \in SeedIds}
        /\ phase = "grow" /\ ngrow = 0 /\ aux = NoAux /\ focus = NoFocus
        /\ broken = Broken(sch) /\ obs = ObsB(sch, broken)
        /\ ev = [op |-> "init", rule |-> "none", kind |-> "", verdict |-> Verdict(broken)]

SetMem(s, i, ms)  == [s EXCEPT ![i].mem = ms]
AddMem(s, i, mm)  == [s EXCEPT ![i].mem = Append(@, mm)]

\* containers whose expansion contains container i's members: i itself and everything that reaches it
Above(s, i) == {i} \cup (IF s[i].k = "group" THEN {c \in ContIdx(s) : s[i].name \in Reach(s, c)} ELSE {})
FreshIn(s, i, N) == \A c \in Above(s, i) : ExpNames(s, c) \cap N = {}

Become(s2, op, rule, kind) ==
  /\ sch' = s2 /\ broken' = Broken(sch') /\ obs' = ObsB(sch', broken') /\ aux' = NoAux /\ focus' = NoFocus
  /\ ev' = [op |-> op, rule |-> rule, kind |-> kind, verdict |-> Verdict(broken')]

Grow(s2) == /\ phase = "grow" /\ ngrow < MaxGrow /\ ~IsExtern(sch)
            /\ ngrow' = ngrow + 1 /\ phase' = "grow" /\ Become(s2, "grow", "none", "")

\* ---- valid-preserving edits (local guards only) ---------------------------------------------------
GAddAttr(i, tid, n) ==
  /\ i \in ContIdx(sch) /\ NeedsOK(sch, GoodT[tid]) /\ FreshIn(sch, i, {n})
  /\ (sch[i].k = "group" /\ sch[i].variant) => ~HasFac(GoodT[tid], "required")
  /\ Grow(AddMem(sch, i, Attr(n, GoodT[tid])))
GAddUse(i, g) ==
  /\ i \in ContIdx(sch) /\ g \in GroupIdx(sch)
  /\ sch[i].k = "group" => (~sch[i].variant /\ i # g /\ sch[i].name \notin Reach(sch, g))
  /\ FreshIn(sch, i, ExpNames(sch, g))
  /\ Grow(AddMem(sch, i, Use(sch[g].name)))
GAddChild(i, e, c) ==
  /\ i \in ElemIdx(sch) /\ e \in ElemIdx(sch) /\ c \in Cards
  /\ \A j \in MemIdx(sch, i, "child") : sch[i].mem[j].name # sch[e].name
  /\ Grow(AddMem(sch, i, Child(sch[e].name, c)))
GAddSet(i) == i \in ElemIdx(sch) /\ Grow(AddMem(sch, i, SetC("type", "C1")))
\* constraint over the first attributes visible in the container (direct ones for a group)
Avail(s, i) == IF s[i].k = "group" THEN SubSeqBy([x \in DOMAIN s[i].mem |-> s[i].mem[x].name], MemIdx(s, i, "attr"))
               ELSE ExpNameSeq(s, i)
GAddCon(i, v, shape) ==
  /\ i \in ContIdx(sch)
  /\ LET av == Avail(sch, i) IN
     /\ Len(av) >= (IF shape = "ab" THEN 2 ELSE 3)
     /\ (v = "requires") => shape = "ab"
     /\ Grow(AddMem(sch, i, Con(v, IF shape = "ab" THEN <<<<av[1]>>, <<av[2]>>>>
                                   ELSE IF shape = "a+b,c" THEN <<<<av[1], av[2]>>, <<av[3]>>>>
                                   ELSE <<<<av[3]>>, <<av[1]>>, <<av[2]>>>>)))
GAddEnum(n) ==
  /\ n \notin NamesAt(sch, EnumIdx(sch))
  /\ Grow(Append(sch, EnumD(n, IF n = "e1" THEN "mjtE" ELSE "", <<Item("k1", "id", "C1", "id")>>)))
GAddItem(i, it) ==
  /\ i \in EnumIdx(sch) /\ \A x \in DOMAIN sch[i].items : sch[i].items[x].key # it.key
  /\ Grow([sch EXCEPT ![i].items = Append(@, it)])
GAddGroup(n, var, tid, an) ==
  /\ n \notin NamesAt(sch, GroupIdx(sch)) /\ NeedsOK(sch, GoodT[tid])
  /\ var => ~HasFac(GoodT[tid], "required")
  /\ Grow(Append(sch, GroupD(n, var, <<Attr(an, GoodT[tid])>>)))
GAddElem(n, fs) ==
  /\ n \notin NamesAt(sch, ElemIdx(sch))
  /\ \A x \in DOMAIN fs : fs[x].f = "alias" => fs[x].s \in NamesAt(sch, ElemIdx(sch)) \cup {n}
  /\ Grow(Append(sch, ElemD(n, IF fs = << >> THEN "" ELSE "mjsZ", fs, << >>)))

ElemFacetChoices == {<< >>, <<FId("xml", "tag")>>, <<FId("alias", "x1")>>, <<FStr("xml", "t2"), FId("field", "sub")>>}
NewItems == {Item("k2", "id", "C2", "id"), Item("2d", "str", "3", "num"), Item("k1", "str", "-1", "num")}

GrowNext ==
  /\ phase = "grow" /\ ngrow < MaxGrow /\ ~IsExtern(sch)
  /\ \/ On("g_attr") /\ \E i \in DOMAIN sch, tid \in GrowT, n \in GrowNames : At(i) /\ GAddAttr(i, tid, n)
     \/ On("g_use") /\ \E i \in DOMAIN sch, g \in DOMAIN sch : GAddUse(i, g)
     \/ On("g_child") /\ \E i \in DOMAIN sch, e \in DOMAIN sch, c \in {"?", "R"} : GAddChild(i, e, c)
     \/ On("g_set") /\ \E i \in DOMAIN sch : GAddSet(i)
     \/ On("g_con") /\ \E i \in DOMAIN sch, v \in Verbs, sh \in {"ab", "a+b,c", "c,a,b"} : GAddCon(i, v, sh)
     \/ On("g_enum") /\ \E n \in DeclNames : GAddEnum(n)
     \/ On("g_item") /\ \E i \in DOMAIN sch, it \in NewItems : GAddItem(i, it)
     \/ On("g_group") /\ \E n \in DeclNames, var \in BOOLEAN, tid \in GrowT, an \in GrowNames : GAddGroup(n, var, tid, an)
     \/ On("g_elem") /\ \E n \in DeclNames, fs \in ElemFacetChoices : GAddElem(n, fs)

\* ---- one mutation action per rule ---------------------------------------------------------------
Kind(s, i) == IF s[i].k = "group" THEN (IF s[i].variant THEN "variant"
                                        ELSE IF \E c \in GroupIdx(s) : s[i].name \in UseNames(s, c) THEN "nested"
                                        ELSE "group")
              ELSE s[i].k
Mut(s2, rule, kind) == /\ Mutate /\ phase = "grow" /\ broken = {}
                       /\ phase' = "mutant" /\ ngrow' = ngrow /\ Become(s2, "mutate", rule, kind)
Z == "zz"                                         \* a name no seed and no Grow action uses
\* a bad attribute, in an existing container or in a new element
MAttr(rule) ==
  \E b \in BadOf(rule) :
    /\ CtxOK(sch, b)
    /\ \/ \E i \in ContIdx(sch) :
            /\ (sch[i].k = "group" /\ sch[i].variant) => ~HasFac(b.t, "required")
            /\ Mut(AddMem(sch, i, Attr(Z, b.t)), rule, Kind(sch, i))
       \/ Mut(Append(sch, ElemD(Z, "", << >>, <<Attr(Z, b.t)>>)), rule, "newelement")
       \/ /\ ~HasFac(b.t, "required")
          /\ Mut(Append(sch, GroupD(Z, TRUE, <<Attr(Z, b.t)>>)), rule, "newvariant")

M_G_UnknownType       == MAttr("G_UnknownType")
M_G_ArityNotInt       == MAttr("G_ArityNotInt")
M_G_ArityNeg          == MAttr("G_ArityNeg")
M_G_ArityOrder        == MAttr("G_ArityOrder")
M_G_ArityBound        == MAttr("G_ArityBound")
M_G_DefaultTok        == MAttr("G_DefaultTok")
M_G_FacetValTok       == MAttr("G_FacetValTok")
M_S_EnumTarget        == MAttr("S_EnumTarget")
M_S_RefNamespace      == MAttr("S_RefNamespace")
M_S_VectorFileBool    == MAttr("S_VectorFileBool")
M_S_CharsUnbounded    == MAttr("S_CharsUnbounded")
M_S_PatternNonText    == MAttr("S_PatternNonText")
M_S_MinMaxNonNumeric  == MAttr("S_MinMaxNonNumeric")
M_S_MinMaxValue       == MAttr("S_MinMaxValue")
M_S_MinGtMax          == MAttr("S_MinGtMax")
M_S_PositiveNonNumeric == MAttr("S_PositiveNonNumeric")
M_S_EnumDefaultNotKw  == MAttr("S_EnumDefaultNotKw")
M_S_DefaultForbidden  == MAttr("S_DefaultForbidden")
M_S_BoolDefault       == MAttr("S_BoolDefault")
M_S_StringDefault     == MAttr("S_StringDefault")
M_S_NumericDefaultStr == MAttr("S_NumericDefaultStr")
M_S_VecOnScalar       == MAttr("S_VecOnScalar")
M_S_DefaultShort      == MAttr("S_DefaultShort")
M_S_DefaultLong       == MAttr("S_DefaultLong")

\* facets: on attributes (templates) and on elements
M_G_FacetUnknown ==
  \/ MAttr("G_FacetUnknown")
  \/ \E i \in ElemIdx(sch), f \in {F("required"), FId("reading", "custom"), FNum("min", 0)} :
        Mut([sch EXCEPT ![i].fac = Append(@, f)], "G_FacetUnknown", "elementfacet")
M_G_FacetDup ==
  \/ MAttr("G_FacetDup")
  \/ \E i \in ElemIdx(sch) : /\ sch[i].fac # << >>
                             /\ Mut([sch EXCEPT ![i].fac = Append(@, @[1])], "G_FacetDup", "elementfacet")
  \/ \E i \in ElemIdx(sch) : /\ sch[i].fac = << >>
                             /\ Mut([sch EXCEPT ![i].fac = <<FId("field", "u"), FId("field", "v")>>], "G_FacetDup", "elementfacet")
M_S_ElemFacetName ==
  \E i \in ElemIdx(sch), f \in {F("xml"), F("alias"), FNum("xml", 3), FNum("alias", 1)} :
     /\ \A x \in DOMAIN sch[i].fac : sch[i].fac[x].f # f.f
     /\ Mut([sch EXCEPT ![i].fac = Append(@, f)], "S_ElemFacetName", "elementfacet")
M_S_AliasDangling ==
  \/ \E i \in ElemIdx(sch), f \in {FId("alias", "nosuch"), FStr("alias", "g1")} :
       /\ \A x \in DOMAIN sch[i].fac : sch[i].fac[x].f # "alias"
       /\ f.s \notin NamesAt(sch, ElemIdx(sch))
       /\ Mut([sch EXCEPT ![i].fac = Append(@, f)], "S_AliasDangling", "elementfacet")
  \/ Mut(Append(sch, ElemD(Z, "", <<FId("alias", "nosuch")>>, << >>)), "S_AliasDangling", "newelement")
\* a required attribute under the facet required in a variant group
M_S_VariantRequired ==
  \/ \E i \in GroupIdx(sch) : /\ sch[i].variant
                              /\ Mut(AddMem(sch, i, Attr(Z, GoodT.strreq)), "S_VariantRequired", "variant")
  \/ \E i \in GroupIdx(sch) : \E j \in DOMAIN sch[i].mem :
       /\ sch[i].variant /\ sch[i].mem[j].m = "attr" /\ sch[i].mem[j].def.k = "none" /\ ~HasFac(sch[i].mem[j], "required")
       /\ Mut(SetMem(sch, i, [sch[i].mem EXCEPT ![j].fac = Append(@, F("required"))]), "S_VariantRequired", "variant")
  \/ Mut(Append(sch, GroupD(Z, TRUE, <<Attr(Z, GoodT.file)>>)), "S_VariantRequired", "newvariant")
M_S_RequiredDefault ==
  \/ MAttr("S_RequiredDefault")
  \/ \E i \in ContIdx(sch) : \E j \in DOMAIN sch[i].mem :
       /\ sch[i].mem[j].m = "attr" /\ sch[i].mem[j].def.k # "none" /\ ~HasFac(sch[i].mem[j], "required")
       /\ ~(sch[i].k = "group" /\ sch[i].variant)
       /\ Mut(SetMem(sch, i, [sch[i].mem EXCEPT ![j].fac = Append(@, F("required"))]), "S_RequiredDefault", Kind(sch, i))

\* lexical / top level
M_G_BadChar ==
  \E c \in BadChars :
    \/ Mut(Append(sch, JunkD(c)), "G_BadChar", "top")
    \/ Mut(<<JunkD(c)>> \o sch, "G_BadChar", "top")
    \/ \E i \in ContIdx(sch) : Mut(AddMem(sch, i, JunkM(c)), "G_BadChar", Kind(sch, i))
M_G_Stray ==
  \/ Mut(Append(sch, JunkD("42")), "G_Stray", "top")
  \/ \E i \in ContIdx(sch), tok \in {"42", "=", ")", "\"s\""} : Mut(AddMem(sch, i, JunkM(tok)), "G_Stray", Kind(sch, i))
M_G_TopKeyword ==
  \E w \in {"struct", "Element", "use"} : Mut(Append(sch, JunkD(w)), "G_TopKeyword", "top")
      \/ Mut(<<JunkD(w)>> \o sch, "G_TopKeyword", "top")
M_G_DupDecl ==
  \E i \in DOMAIN sch :
    \/ /\ sch[i].k = "enum"
       /\ Mut(Append(sch, EnumD(sch[i].name, "", <<Item("k1", "id", "C1", "id")>>)), "G_DupDecl", "enum")
    \/ /\ sch[i].k = "group"
       /\ Mut(Append(sch, GroupD(sch[i].name, FALSE, <<Attr(Z, GoodT.int)>>)), "G_DupDecl", "group")
    \/ /\ sch[i].k = "element"
       /\ Mut(Append(sch, ElemD(sch[i].name, "", << >>, << >>)), "G_DupDecl", "element")
    \/ /\ sch[i].k = "element"
       /\ Mut(<<ElemD(sch[i].name, "", << >>, << >>)>> \o sch, "G_DupDecl", "element")
\* enums
MEnumItem(rule, it) ==
  \/ \E i \in EnumIdx(sch) : Mut([sch EXCEPT ![i].items = Append(@, it)], rule, "enum")
  \/ Mut(Append(sch, EnumD(Z, "", <<it>>)), rule, "newenum")
M_G_EnumKeyKind == MEnumItem("G_EnumKeyKind", Item("7", "num", "C7", "id"))
M_G_EnumValKind == MEnumItem("G_EnumValKind", Item("k7", "id", "C7", "str"))
M_G_DupEnumKey ==
  \E i \in EnumIdx(sch), kk \in {"id", "str"} : \E x \in DOMAIN sch[i].items :
    /\ kk = "id" => sch[i].items[x].kk = "id"
    /\ Mut([sch EXCEPT ![i].items = Append(@, Item(sch[i].items[x].key, kk, "9", "num"))], "G_DupEnumKey", "enum")
M_G_EmptyEnum  == Mut(Append(sch, EnumD(Z, "", << >>)), "G_EmptyEnum", "newenum")
                  \/ Mut(<<EnumD(Z, "mjtZ", << >>)>> \o sch, "G_EmptyEnum", "newenum")
M_G_EmptyGroup == \E var \in BOOLEAN : Mut(Append(sch, GroupD(Z, var, << >>)), "G_EmptyGroup", IF var THEN "newvariant" ELSE "newgroup")
\* members in the wrong container
M_G_SetInGroup   == \/ \E i \in GroupIdx(sch) : Mut(AddMem(sch, i, SetC("type", "C1")), "G_SetInGroup", Kind(sch, i))
                    \/ Mut(Append(sch, GroupD(Z, FALSE, <<SetC("type", "C1")>>)), "G_SetInGroup", "newgroup")
M_G_ChildInGroup == \/ \E i \in GroupIdx(sch), e \in ElemIdx(sch) :
                          Mut(AddMem(sch, i, Child(sch[e].name, "*")), "G_ChildInGroup", Kind(sch, i))
                    \/ Mut(Append(sch, GroupD(Z, FALSE, <<Attr(Z, GoodT.int), Child(Z, "*")>>)), "G_ChildInGroup", "newgroup")
M_G_ConArity ==
  \E i \in ContIdx(sch), v \in Verbs, plus \in BOOLEAN :
    /\ Len(Avail(sch, i)) >= (IF plus THEN 2 ELSE 1)
    /\ Mut(AddMem(sch, i, Con(v, IF plus THEN <<<<Avail(sch, i)[1], Avail(sch, i)[2]>>>> ELSE <<<<Avail(sch, i)[1]>>>>)),
           "G_ConArity", Kind(sch, i))
M_G_BadCard ==
  \E i \in ElemIdx(sch), e \in ElemIdx(sch), c \in {"+", "x", "2", "}", "??"} :
    /\ \A j \in MemIdx(sch, i, "child") : sch[i].mem[j].name # sch[e].name
    /\ Mut(AddMem(sch, i, Child(sch[e].name, c)), "G_BadCard", "element")
\* use graph
M_S_UseCycle ==
  \E i \in GroupIdx(sch), g \in GroupIdx(sch) :
    /\ ~sch[i].variant
    /\ i = g \/ sch[i].name \in Reach(sch, g)
    /\ Mut(AddMem(sch, i, Use(sch[g].name)), "S_UseCycle", Kind(sch, i))
M_S_DanglingUse ==
  \/ \E i \in ContIdx(sch) : /\ ~(sch[i].k = "group" /\ sch[i].variant)
                             /\ Mut(AddMem(sch, i, Use("nosuch")), "S_DanglingUse", Kind(sch, i))
  \/ Mut(Append(sch, ElemD(Z, "", << >>, <<Use(Z)>>)), "S_DanglingUse", "newelement")
  \/ Mut(Append(sch, GroupD(Z, FALSE, <<Use("nosuch")>>)), "S_DanglingUse", "newgroup")
M_S_VariantUse ==
  \E i \in GroupIdx(sch), g \in GroupIdx(sch) :
    /\ sch[i].variant /\ i # g /\ sch[i].name \notin Reach(sch, g) /\ FreshIn(sch, i, ExpNames(sch, g))
    /\ Mut(AddMem(sch, i, Use(sch[g].name)), "S_VariantUse", "variant")
\* constraints
M_S_GroupConUnknown ==
  \E i \in GroupIdx(sch), v \in Verbs :
    /\ Len(Avail(sch, i)) >= 1
    /\ Mut(AddMem(sch, i, Con(v, <<<<Avail(sch, i)[1]>>, <<"nosuch">>>>)), "S_GroupConUnknown", Kind(sch, i))
M_S_ElemConUnknown ==
  \E i \in ElemIdx(sch), v \in Verbs :
    \/ /\ Len(Avail(sch, i)) >= 1
       /\ Mut(AddMem(sch, i, Con(v, <<<<Avail(sch, i)[1]>>, <<"nosuch">>>>)), "S_ElemConUnknown", "element")
    \/ Mut(AddMem(sch, i, Con(v, <<<<"nosuch">>, <<"nosuch2">>>>)), "S_ElemConUnknown", "element")
M_S_RequiresArity ==
  \E i \in ContIdx(sch), shape \in {"a,b,c", "a+b,c", "a,a+b"} :
    LET av == Avail(sch, i) IN
    /\ Len(av) >= (IF shape = "a,a+b" THEN 2 ELSE 3)
    /\ Mut(AddMem(sch, i, Con("requires", IF shape = "a,b,c" THEN <<<<av[1]>>, <<av[2]>>, <<av[3]>>>>
                                            ELSE IF shape = "a+b,c" THEN <<<<av[1], av[2]>>, <<av[3]>>>>
                                            ELSE <<<<av[1]>>, <<av[1], av[2]>>>>)),
           "S_RequiresArity", Kind(sch, i))
\* children
M_S_ChildDangling == \E i \in ElemIdx(sch), c \in {"*", "!"} : Mut(AddMem(sch, i, Child("nosuch", c)), "S_ChildDangling", "element")
M_S_DupChild ==
  \E i \in ElemIdx(sch), c \in {"*", "?"} : \E j \in DOMAIN sch[i].mem :
    /\ sch[i].mem[j].m = "child"
    /\ Mut(AddMem(sch, i, Child(sch[i].mem[j].name, c)), "S_DupChild", "element")
\* duplicate attributes: directly, through use, through nested use, by using a group twice
UsedByElem(s, i) == \E e \in ElemIdx(s) : i \in Above(s, e) \/ e \in Above(s, i)
M_S_DupAttr ==          \* two own attributes of one element with the same name
  \/ \E e \in ElemIdx(sch), x \in 1..4 :
       /\ x <= Len(DirectSeq(sch, e))
       /\ Mut(AddMem(sch, e, Attr(DirectSeq(sch, e)[x], GoodT.int)), "S_DupAttr", "element")
  \/ Mut(Append(sch, ElemD(Z, "", << >>, <<Attr(Z, GoodT.int), Attr(Z, GoodT.dbl0)>>)), "S_DupAttr", "newelement")
M_S_DupAttrViaUse ==
  \/ \E i \in ContIdx(sch), e \in ElemIdx(sch), x \in 1..6 :          \* a name already in an expansion that contains i
       /\ e \in Above(sch, i) /\ x <= Len(ExpNameSeq(sch, e))
       /\ ~(i = e /\ ExpNameSeq(sch, e)[x] \in DirectAttrNames(sch, e))
       /\ Mut(AddMem(sch, i, Attr(ExpNameSeq(sch, e)[x], GoodT.int)), "S_DupAttrViaUse", Kind(sch, i))
  \/ \E e \in ElemIdx(sch), g \in GroupIdx(sch) :                       \* the element itself uses a group twice
       /\ sch[g].name \in Reach(sch, e)
       /\ Mut(AddMem(sch, e, Use(sch[g].name)), "S_DupAttrViaUse", "element")
  \* sharing INSIDE the group graph, below one top-level use: group i (part of some element's expansion) gets
  \* `use g` although g is already part of that expansion -- g used twice by i, g re-used one level (or more) up,
  \* or a diamond (i and a sibling branch both reach g); no cycle is created
  \/ \E i \in GroupIdx(sch), g \in GroupIdx(sch), e \in ElemIdx(sch) :
       /\ ~sch[i].variant /\ i # g /\ sch[i].name \notin Reach(sch, g)
       /\ sch[i].name \in Reach(sch, e) /\ sch[g].name \in Reach(sch, e)
       /\ Mut(AddMem(sch, i, Use(sch[g].name)), "S_DupAttrViaUse",
              IF sch[g].name \in UseNames(sch, i) THEN "shared-twice"
              ELSE IF sch[g].name \in Reach(sch, i) THEN "shared-up" ELSE "shared-diamond")

MutNext ==
  /\ Mutate /\ phase = "grow" /\ broken = {} /\ (ngrow >= MutFrom \/ IsExtern(sch))
  /\ \/ On("G_BadChar") /\ M_G_BadChar
     \/ On("G_Stray") /\ M_G_Stray
     \/ On("G_TopKeyword") /\ M_G_TopKeyword
     \/ On("G_DupDecl") /\ M_G_DupDecl
     \/ On("G_EnumKeyKind") /\ M_G_EnumKeyKind
     \/ On("G_EnumValKind") /\ M_G_EnumValKind
     \/ On("G_DupEnumKey") /\ M_G_DupEnumKey
     \/ On("G_EmptyEnum") /\ M_G_EmptyEnum
     \/ On("G_EmptyGroup") /\ M_G_EmptyGroup
     \/ On("G_SetInGroup") /\ M_G_SetInGroup
     \/ On("G_ChildInGroup") /\ M_G_ChildInGroup
     \/ On("G_ConArity") /\ M_G_ConArity
     \/ On("G_BadCard") /\ M_G_BadCard
     \/ On("G_UnknownType") /\ M_G_UnknownType
     \/ On("G_ArityNotInt") /\ M_G_ArityNotInt
     \/ On("G_ArityNeg") /\ M_G_ArityNeg
     \/ On("G_ArityOrder") /\ M_G_ArityOrder
     \/ On("G_ArityBound") /\ M_G_ArityBound
     \/ On("G_DefaultTok") /\ M_G_DefaultTok
     \/ On("G_FacetUnknown") /\ M_G_FacetUnknown
     \/ On("G_FacetDup") /\ M_G_FacetDup
     \/ On("G_FacetValTok") /\ M_G_FacetValTok
     \/ On("S_UseCycle") /\ M_S_UseCycle
     \/ On("S_DanglingUse") /\ M_S_DanglingUse
     \/ On("S_GroupConUnknown") /\ M_S_GroupConUnknown
     \/ On("S_VariantUse") /\ M_S_VariantUse
     \/ On("S_VariantRequired") /\ M_S_VariantRequired
     \/ On("S_ElemFacetName") /\ M_S_ElemFacetName
     \/ On("S_AliasDangling") /\ M_S_AliasDangling
     \/ On("S_ChildDangling") /\ M_S_ChildDangling
     \/ On("S_DupChild") /\ M_S_DupChild
     \/ On("S_DupAttr") /\ M_S_DupAttr
     \/ On("S_DupAttrViaUse") /\ M_S_DupAttrViaUse
     \/ On("S_ElemConUnknown") /\ M_S_ElemConUnknown
     \/ On("S_RequiresArity") /\ M_S_RequiresArity
     \/ On("S_EnumTarget") /\ M_S_EnumTarget
     \/ On("S_RefNamespace") /\ M_S_RefNamespace
     \/ On("S_VectorFileBool") /\ M_S_VectorFileBool
     \/ On("S_CharsUnbounded") /\ M_S_CharsUnbounded
     \/ On("S_PatternNonText") /\ M_S_PatternNonText
     \/ On("S_MinMaxNonNumeric") /\ M_S_MinMaxNonNumeric
     \/ On("S_MinMaxValue") /\ M_S_MinMaxValue
     \/ On("S_MinGtMax") /\ M_S_MinGtMax
     \/ On("S_PositiveNonNumeric") /\ M_S_PositiveNonNumeric
     \/ On("S_RequiredDefault") /\ M_S_RequiredDefault
     \/ On("S_EnumDefaultNotKw") /\ M_S_EnumDefaultNotKw
     \/ On("S_DefaultForbidden") /\ M_S_DefaultForbidden
     \/ On("S_BoolDefault") /\ M_S_BoolDefault
     \/ On("S_StringDefault") /\ M_S_StringDefault
     \/ On("S_NumericDefaultStr") /\ M_S_NumericDefaultStr
     \/ On("S_VecOnScalar") /\ M_S_VecOnScalar
     \/ On("S_DefaultShort") /\ M_S_DefaultShort
     \/ On("S_DefaultLong") /\ M_S_DefaultLong

\* ---- decorations applied by the renderer ----------------------------------------------------------
\* Pump repeats a construct n times with fresh names; it never changes which rules are broken.
PumpKinds == {"usechain",      \* element zp uses pg1, pg1 uses pg2, ... pgn holds one attribute
              "usecycle",      \* the same chain, but pgn uses pg1: a use cycle of length n        (reject)
              "usedangling",   \* the same chain, but pgn uses an undeclared group                 (reject)
              "usewide",       \* element zp uses n one-attribute groups
              "members",       \* element zp with n attributes and an n-bundle constraint over them
              "enumitems",     \* enum zp with n items
              "decls",         \* n empty elements, all children of element zp
              "vecdefault"}    \* attribute double[] with an n-value default
PumpVerdict(what, b) == IF what \in {"usecycle", "usedangling"} THEN "reject" ELSE Verdict(b)
Pump(what, n) ==
  /\ phase = "grow"
  /\ phase' = "aux" /\ aux' = [k |-> "pump", what |-> what, n |-> n]
  /\ ev' = [op |-> "pump", rule |-> IF what = "usecycle" THEN "S_UseCycle" ELSE IF what = "usedangling" THEN "S_DanglingUse"
                                      ELSE "none", kind |-> what, verdict |-> PumpVerdict(what, broken)]
  /\ focus' = NoFocus /\ UNCHANGED <<sch, ngrow, broken, obs>>
NoiseKinds == {"del", "dup", "swap", "trunc", "badchar", "fuzz"}
Noise(what, p) ==
  /\ phase = "grow"
  /\ phase' = "aux" /\ aux' = [k |-> "noise", what |-> what, n |-> p]
  /\ ev' = [op |-> "noise", rule |-> "none", kind |-> what, verdict |-> "total"]
  /\ focus' = NoFocus /\ UNCHANGED <<sch, ngrow, broken, obs>>
AuxNext == /\ phase = "grow" /\ (ngrow >= MutFrom \/ IsExtern(sch))
           /\ \/ On("pump") /\ \E w \in PumpKinds, n \in PumpSizes : Pump(w, n)
              \/ On("noise") /\ \E w \in NoiseKinds, p \in NoisePos : Noise(w, p)
\* choose the class of the next step (and, for g_attr, the container)
Pick(c, i) ==
  /\ Focused /\ focus = NoFocus /\ phase = "grow"
  /\ c \in GrowClasses => (ngrow < MaxGrow /\ ~IsExtern(sch))
  /\ c \notin GrowClasses => (ngrow >= MutFrom \/ IsExtern(sch))
  /\ c \in Rules => (Mutate /\ broken = {})
  /\ (c = "g_attr") = (i # 0)
  /\ focus' = [c |-> c, i |-> i] /\ UNCHANGED <<sch, phase, ngrow, ev, broken, obs, aux>>
PickNext == \E c \in GrowClasses \cup Rules \cup {"pump", "noise"}, i \in 0..Len(sch) : Pick(c, i)

Next == GrowNext \/ MutNext \/ AuxNext \/ PickNext
Spec == Init /\ [][Next]_vars

\* ------------------------------------------------------------------------------------------------
\* properties
\* ------------------------------------------------------------------------------------------------
TypeOK == /\ phase \in {"grow", "mutant", "aux"} /\ ngrow \in 0..MaxGrow
          /\ broken \subseteq Rules /\ broken = Broken(sch)
          /\ ev.verdict \in {"accept", "reject", "total"}
          /\ ev.op \notin {"noise", "pump"} => ev.verdict = Verdict(broken)
          /\ ev.op = "pump" => ev.verdict = PumpVerdict(ev.kind, broken)
          /\ ev.op = "noise" => ev.verdict = "total"
          /\ (~Focused \/ phase # "grow") => focus = NoFocus
\* the local guards of the Grow actions are sufficient: growth never leaves the valid schemas
GrowValid == phase = "grow" => broken = {}
\* every mutation action breaks the rule it is named after, and only that rule
MutantBroken == ev.op = "mutate" => ev.rule \in broken
MutantSingle == ev.op = "mutate" => broken = {ev.rule}
\* accepted schemas: every `use` resolves, the use graph is acyclic, expansions are duplicate free and
\* every constraint and child of an element names something that exists
AcceptedSound ==
  broken = {} =>
    /\ UsesOK(sch)
    /\ \A i \in ElemIdx(sch) : \A q \in {Exp(sch, i)} : \A nm \in {[x \in DOMAIN q |-> q[x].name]} :
         /\ Distinct(nm)
         /\ \A j \in MemIdx(sch, i, "con") : ConNames(sch[i].mem[j]) \subseteq SeqRange(nm)
         /\ \A j \in MemIdx(sch, i, "child") : sch[i].mem[j].name \in NamesAt(sch, ElemIdx(sch))
         /\ \A x \in DOMAIN q : \A a \in {q[x]} :
               /\ a.type \in ScalarTypes \cup TargetTypes /\ ArGram(a.ar) /\ Lo(a.ar) >= 0
               /\ (a.type \in Numeric /\ a.def.k # "none") =>
                     (DefLen(a.def) >= Lo(a.ar) /\ (HiK(a.ar) = "int" => DefLen(a.def) <= Hi(a.ar)))
               /\ a.type = "ref" => a.target \in Namespaces(sch)
               /\ a.type \in {"enum", "flags"} => a.target \in NamesAt(sch, EnumIdx(sch))
    /\ obs = ObsB(sch, broken)
\* Grow only adds: no attribute of any element's expansion disappears
GrowMonotone == [][(ev'.op = "grow") =>
                     \A i \in ElemIdx(sch) : ExpNames(sch, i) \subseteq ExpNames(sch', i)]_vars
\* decorations never touch the schema or its verdict
AuxKeeps == [][(ev'.op \in {"pump", "noise"}) => (sch' = sch /\ broken' = broken)]_vars

\* ---- configuration constants (cfg files cannot hold sets of strings with quotes comfortably) -----
AllSeeds   == {"empty", "good", "cons", "dag", "real"}
CoreSeeds  == {"empty", "good", "cons", "dag"}
GrowSeeds  == {"empty", "good", "cons"}
AllT       == DOMAIN GoodT
FewT       == {"int", "vec3", "str", "enum", "ref", "strreq"}
NoT        == {}
NamesAP    == {"a", "p"}
NamesP     == {"p"}
NamesAPQ   == {"a", "p", "q", "n"}
DNamesQ    == {"e1", "x1", "q"}
NoNames    == {}
PumpSmall  == {3, 40}
PumpBig    == {3, 40, 1500}
NoPump     == {}
Pos8       == 0..7
Pos2       == {2, 5}
NoPos      == {}
=============================================================================
