SPECIFICATION Spec
CONSTANTS
  MaxGrow = 6
  SeedIds <- CoreSeeds
  GrowT <- AllT
  GrowNames <- NamesAPQ
  DeclNames <- DNamesQ
  Mutate = TRUE
  MutFrom = 3
  Focused = TRUE
  PumpSizes <- PumpBig
  NoisePos <- Pos8
INVARIANT TypeOK
INVARIANT GrowValid
INVARIANT MutantBroken
INVARIANT MutantSingle
INVARIANT AcceptedSound
CHECK_DEADLOCK FALSE
