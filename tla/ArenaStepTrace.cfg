SPECIFICATION TSpec
CONSTANTS
  CapMax = 24
  Profiles <- ProfTrace
  MaxSteps = 4
  PairChecked = TRUE
  IslandClears = TRUE
  DualChecked = TRUE
INVARIANT Apart
INVARIANT NoDerefNull
INVARIANT Consistent
CONSTRAINT Track
POSTCONDITION Report
CHECK_DEADLOCK FALSE
