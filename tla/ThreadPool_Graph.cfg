SPECIFICATION Spec
CONSTANTS
  NW = 2
  MaxTask = 2
  MaxOps = 2
  Bug = "none"
INVARIANT ExactlyOnceAtReturn
