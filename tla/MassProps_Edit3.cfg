SPECIFICATION Spec
CONSTANTS
  MaxGeoms = 2
  HalfSizes <- H_One
  Offsets <- O_One
  Rots <- R_One
  Densities <- D_One
  Kinds <- K_Box
  MeshOffs <- MO_Zero
  Tess <- T_Zero
  MeshModes <- MM_Exact
  ChildModes <- C_NoFuse
  ChildPoss <- CP_Few
  ChildRots <- R_Rz
  TotalMasses <- TM_Off
  Groups <- G_Two
  Ranges <- RG_Two
  MaxCompiles = 3
  MaxEdits = 2
  EditKinds <- E_GR
  Hows <- HW_Both
  Design = "group"
  Rand = FALSE
INVARIANT TypeOK
INVARIANT GeomTensorProper
INVARIANT MeshIsBox
INVARIANT MeshInertiaIsBox
INVARIANT ParallelAxis
INVARIANT TensorProper
INVARIANT TriangleOnDirections
INVARIANT SingleGeom
INVARIANT Published
INVARIANT HistoryIndependent
INVARIANT UnselectedCountsNothing

CHECK_DEADLOCK FALSE
