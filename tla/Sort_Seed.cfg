SPECIFICATION SpecSeed
CONSTANTS
  MaxLen = 0
  Keys <- K7
  Runs <- Run32
  Ops <- AllOps
  GenLens <- NoLens
  Seeds <- MC_Seeds
  SeedLens <- MC_SeedLens
INVARIANT TypeOK
INVARIANT SortCorrect
INVARIANT SortInPlace
INVARIANT PartialCorrect
INVARIANT PartialRestKept
INVARIANT InsertionCorrect
INVARIANT KeysConsistent
INVARIANT RunsInv
INVARIANT PassInv
INVARIANT HeapInv
INVARIANT NoJunk
INVARIANT NoStuck
INVARIANT EmitDone
PROPERTY InputFrozen
CHECK_DEADLOCK FALSE
