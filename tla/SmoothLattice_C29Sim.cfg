SPECIFICATION Spec
CONSTANTS
  MinBodies = 3
  MaxBodies = 4
  JTypes <- AllJ
  Axes <- Ax6
  Offsets <- D_OffMix
  Rots <- K_Rot
  Anchors <- K_Anc
  SitePos <- D_Site0
  SiteRots <- K_SRot
  Masses <- K_Mass
  Inertias <- K_Inr
  IPoss <- K_IPos
  Arms <- One0
  Stiffs <- P_K
  Refs <- P_Ref
  Damps <- P_Damp
  GCs <- P_GC
  TCoefs <- D_TC
  Qs <- K_Q
  Vs <- K_V
  As <- K_A
  QScales <- QS1
  Gravs <- K_G
  DisSets <- P_Dis
  TenK <- P_TK
  TenRanges <- P_TRng
  TenDamps <- P_TDamp
  TenArms <- D_TArm
  TenZero <- NoTz
  SpPairs <- D_Sp
  SpArms <- D_SpArm1
  Sleeps <- NoTz
  StiffPolys <- P_KPs
  DampPolys <- P_DPs
  TenKPolys <- P_KPs
  TenDPolys <- P_DPs
  SpStiffs <- P_SpK
  SpRanges <- P_SpR
  SpDamps <- P_SpD
  Level = 3
  Tie = FALSE
  Rand = TRUE
INVARIANT TypeOK
INVARIANT SpringIsMinusGradient
INVARIANT DamperDissipates
INVARIANT GravcompCancels
INVARIANT FullGravcompBalances
INVARIANT RestAtReferenceIsForceFree
INVARIANT KaneIsRecursive
INVARIANT JacIsDerivative
INVARIANT DamperIsOdd
INVARIANT SpatialJacIsDerivative
CHECK_DEADLOCK FALSE
