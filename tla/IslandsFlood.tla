---------------------------- MODULE IslandsFlood ----------------------------
\* mj_floodFill(island, nr, rownnz, rowadr, colind, stack)  (src/engine/engine_island.c): islands of a sparse
\* symmetric adjacency matrix by depth-first traversal with an explicit stack of capacity nnz.
\* One action per pop of the stack / step of the outer loop; the graph is chosen in the initial state.
\* The CSR arrays handed to the implementation are part of the specification (layout: neighbours ascending,
\* descending, or ascending with every neighbour listed twice - the header says column indices need be neither
\* unique nor sorted).
EXTENDS IslandsCore
CONSTANTS NV,         \* number of vertices
          SelfLoops,  \* BOOLEAN: allow diagonal entries
          Layouts     \* subset of {"asc", "desc", "dup"}
Verts == Range0(NV)
AllEdges == {e \in SUBSET Verts : Cardinality(e) = 2 \/ (SelfLoops /\ Cardinality(e) = 1)}

VARIABLES adj,       \* set of undirected edges ({u, v} or {u})
          layout,
          island,    \* vertex -> island id, -1 = unassigned
          nisland, i, stack, maxstack, pc, ev
vars == <<adj, layout, island, nisland, i, stack, maxstack, pc, ev>>

\* ---- CSR rendering of adj under a layout
Nbrs(v) == {u \in Verts : {u, v} \in adj}
RECURSIVE SortedSeq(_)
SortedSeq(S) == IF S = {} THEN << >> ELSE <<Min(S)>> \o SortedSeq(S \ {Min(S)})
Rev(s) == [k \in 1..Len(s) |-> s[Len(s) + 1 - k]]
Twice(s) == [k \in 1..(2 * Len(s)) |-> s[(k + 1) \div 2]]
Row(v) == LET a == SortedSeq(Nbrs(v))
          IN IF layout = "asc" THEN a ELSE IF layout = "desc" THEN Rev(a) ELSE Twice(a)
RowNnz == [v \in Verts |-> Len(Row(v))]
RowAdr == [v \in Verts |-> SumTo(RowNnz, v)]
Nnz == SumTo(RowNnz, NV)
RECURSIVE Concat(_)
Concat(v) == IF v >= NV THEN << >> ELSE Row(v) \o Concat(v + 1)
ColInd == Concat(0)

Init == /\ adj \in SUBSET AllEdges /\ layout \in Layouts
        /\ island = [v \in Verts |-> -1] /\ nisland = 0 /\ i = 0 /\ stack = << >> /\ maxstack = 0
        /\ pc = "outer" /\ ev = [op |-> "init"]

\* for (i = 0; i < nr; i++): skip assigned vertices and vertices without edges, else push i
Outer == /\ pc = "outer" /\ i < NV
         /\ IF island[i] # -1 \/ RowNnz[i] = 0
            THEN i' = i + 1 /\ UNCHANGED <<stack, maxstack, pc>>
            ELSE stack' = <<i>> /\ maxstack' = (IF maxstack < 1 THEN 1 ELSE maxstack) /\ pc' = "dfs" /\ UNCHANGED i
         /\ UNCHANGED <<adj, layout, island, nisland, ev>>
\* pop v; if unassigned: assign it and push its whole row
Pop == /\ pc = "dfs" /\ stack # << >>
       /\ LET v == stack[Len(stack)]
              rest == SubSeq(stack, 1, Len(stack) - 1)
          IN IF island[v] # -1
             THEN stack' = rest /\ UNCHANGED <<island, maxstack>>
             ELSE /\ island' = [island EXCEPT ![v] = nisland]
                  /\ stack' = rest \o Row(v)
                  /\ maxstack' = (IF Len(stack') > maxstack THEN Len(stack') ELSE maxstack)
       /\ UNCHANGED <<adj, layout, nisland, i, pc, ev>>
IslandDone == /\ pc = "dfs" /\ stack = << >>
              /\ nisland' = nisland + 1 /\ i' = i + 1 /\ pc' = "outer"
              /\ UNCHANGED <<adj, layout, island, stack, maxstack, ev>>
Return == /\ pc = "outer" /\ i = NV
          /\ pc' = "done"
          /\ ev' = [op |-> "floodfill", nr |-> NV, rownnz |-> Seq0(RowNnz, NV), rowadr |-> Seq0(RowAdr, NV),
                    colind |-> ColInd, nnz |-> Nnz, island |-> Seq0(island, NV), nisland |-> nisland]
          /\ UNCHANGED <<adj, layout, island, nisland, i, stack, maxstack>>
Next == Outer \/ Pop \/ IslandDone \/ Return
Spec == Init /\ [][Next]_vars /\ WF_vars(Next)

\* ---- properties
H == adj                                   \* every edge is a hyperedge; a self-loop makes its vertex active
TypeOK == /\ island \in [Verts -> -1..(NV - 1)] /\ pc \in {"outer", "dfs", "done"}
          /\ \A k \in 1..Len(stack) : stack[k] \in Verts
\* the stack handed to the function has nnz cells: the traversal never needs more
\* (only the first push of a traversal is not paid for by a matrix entry, and it is popped before the row is pushed)
StackFits == maxstack <= (IF Nnz = 0 THEN 0 ELSE Nnz) /\ Len(stack) <= (IF Nnz < 1 THEN 1 ELSE Nnz)
\* result: components numbered in ascending order of their smallest vertex, vertices without entries get -1
Result == pc = "done" => (island = AbsIslands(NV, H) /\ nisland = AbsNIsland(H))
\* loop invariants: the island being filled is inside the component of i; finished islands are whole components
Filling == pc = "dfs" => /\ \A v \in Verts : island[v] = nisland => v \in Comp(i, H)
                         /\ \A k \in 1..Len(stack) : stack[k] \in Comp(i, H)
Finished == \A v \in Verts : (island[v] # -1 /\ (island[v] < nisland)) =>
               \A u \in Comp(v, H) : island[u] = island[v]
NoStuck == pc # "done" => ENABLED Next
Terminates == <>(pc = "done")
EmitDone == (pc = "done") => PrintT(<<"EV", ev>>)
AllLayouts == {"asc", "desc", "dup"}
AscOnly == {"asc"}
=============================================================================
