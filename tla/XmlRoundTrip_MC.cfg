SPECIFICATION Spec
CONSTANTS
  ClassSeq <- MC_Class1
  LeafKinds <- MC_LeafG
  TopKinds <- MC_NoTops
  Attrs <- MC_AttrA
  SetVals <- MC_Val1
  MaxClasses = 1
  MaxNodes = 2
  MaxBodies = 2
  MaxFrames = 2
  MaxTops = 0
  MaxDefSets = 2
  MaxAttrSets = 1
  MaxKeys = 0
  Precs <- MC_P17
  FeatSeq <- MC_NoFeats
  MaxFeats = 0
  MinSize = 0
  Exclusive = FALSE
  MinClasses = 0
  MinNodes = 0
  CodeDevs <- CurrentDevs
INVARIANT TypeOK
INVARIANT RoundTripExact
INVARIANT RoundTripPrinted
INVARIANT RoundTripUpToOrder
INVARIANT ClassesPreserved
INVARIANT LostExplains
CHECK_DEADLOCK FALSE
