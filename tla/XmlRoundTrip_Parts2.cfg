SPECIFICATION Spec
CONSTANTS
  ClassSeq <- MC_Class1
  LeafKinds <- MC_LeafG
  TopKinds <- MC_TopsAll4
  Attrs <- MC_AttrAI
  SetVals <- MC_Val1N
  MaxClasses = 1
  MaxNodes = 0
  MaxBodies = 0
  MaxFrames = 0
  MaxTops = 2
  MaxDefSets = 1
  MaxAttrSets = 1
  MaxKeys = 4
  Precs <- MC_PBoth
  FeatSeq <- MC_Feats
  MaxFeats = 2
  MinSize = 0
  Exclusive = TRUE
  MinClasses = 0
  MinNodes = 0
  CodeDevs <- CurrentDevs
INVARIANT TypeOK
INVARIANT RoundTripExact
INVARIANT RoundTripPrinted
INVARIANT RoundTripUpToOrder
INVARIANT ClassesPreserved
INVARIANT LostExplains
CHECK_DEADLOCK FALSE
