SPECIFICATION Spec
CONSTANTS
  Kps <- L_Kp
  Kis <- L_Ki
  Kds <- L_Kd
  IMaxs <- L_IMax
  SlewMaxs <- L_Slew
  CtrlLims <- L_CL0
  Hs <- L_H
  Ms <- L_M
  Q0s <- L_Q
  V0s <- L_V
  I0s <- L_I0
  P0s <- L_P0
  T0s <- L_T0
  Us <- L_U
  MaxSteps = 3
  Bound = 4096
  Variant = "noclip"

INVARIANT TypeOK
INVARIANT ITermBounded
INVARIANT SlewBounded
INVARIANT SlewMinimal
INVARIANT StateTracks
INVARIANT CtrlRange
INVARIANT PureP
INVARIANT PureD
INVARIANT PureI
INVARIANT IntegralSum
INVARIANT ClipOnBound
INVARIANT TimeAdvances
INVARIANT NeighbourLaws
CHECK_DEADLOCK FALSE
