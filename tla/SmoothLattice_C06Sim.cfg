SPECIFICATION Spec
CONSTANTS
  MinBodies = 3
  MaxBodies = 4
  JTypes <- AllJ
  Axes <- Ax6
  Offsets <- D_OffMix
  Rots <- K_Rot
  Anchors <- K_Anc
  SitePos <- D_Site0
  SiteRots <- K_SRot
  Masses <- D_Mass
  Inertias <- K_Inr
  IPoss <- K_IPos
  Arms <- D_Arm
  Stiffs <- One0
  Refs <- One0
  Damps <- One0
  GCs <- One0
  TCoefs <- D_TC
  Qs <- K_Q
  Vs <- K_V
  As <- K_A
  Gravs <- K_G
  DisSets <- NoDis
  TenK <- One0
  TenRanges <- Rng0
  TenDamps <- One0
  TenArms <- D_TArm
  TenZero <- BothTz
  SpPairs <- D_Sp
  SpArms <- D_SpArm
  StiffPolys <- P00
  DampPolys <- P00
  TenKPolys <- P00
  TenDPolys <- P00
  SpStiffs <- T000
  SpRanges <- Rng0
  SpDamps <- T000
  Level = 2
  Tie = FALSE
  Rand = TRUE
INVARIANT TypeOK
INVARIANT FramesProper
INVARIANT MSymmetric
INVARIANT MSparsity
INVARIANT MPositiveDefinite
INVARIANT KaneIsRecursive
INVARIANT RneIsMaPlusBias
INVARIANT KineticIsQuadratic
INVARIANT BiasAtRestIsGravity
INVARIANT SlideBiasVelFree
INVARIANT VelIsRecursive
INVARIANT SpatialJacIsDerivative
INVARIANT SpatialMassOK
CHECK_DEADLOCK FALSE
