-------------------------------- MODULE Pid --------------------------------
\* C51 - the first-party PID actuator plugin (plugin/actuator/pid.cc, plugin/actuator/README.md) in closed loop.
\*
\* Model: slide joint j1 (unit mass unless stated) driven by ONE actuator that is an instance of mujoco.pid with
\* configuration kp, ki, kd, optional imax, optional slewmax, optional ctrlrange; semi-implicit Euler, no gravity.
\* Around it, in the same model, two native actuators on a second joint j2: an integrator (before the plugin in the
\* actuator / act arrays) and a filter (after it).  They follow their own laws; if the plugin wrote outside its own
\* act / act_dot / force slices the neighbours would deviate from them.
\*
\* Documented law (README):  force = kp e + ki * I + kd de/dt,  e = setpoint - length,  de/dt = - velocity for a
\* stateless setpoint; the I term is clipped to [-imax, imax] (so the integral to imax / ki); the setpoint may change
\* by at most slewmax * dt between two timesteps, the previous setpoint being kept in an activation variable (it is
\* "not set yet" while time = 0); with ki # 0 one activation variable holds the integral.
\* One mj_step = the phases  SetCtrl -> ActDot (plugin callback actuator_act_dot) -> Compute (plugin callback compute)
\* -> Integrate (mj_Euler: activations, velocity, position, time).  `ev` of Integrate is the replay oracle.
EXTENDS LawRat, TLC, FiniteSets

CONSTANTS Kps, Kis, Kds,
          IMaxs, SlewMaxs, CtrlLims,     \* sets of [on : BOOLEAN, v : rational] / [on, lo, hi]
          Hs, Ms, Q0s, V0s, I0s, P0s, T0s, \* timestep, mass, initial qpos / qvel / integral / previous setpoint / time
          Us,                            \* setpoints the environment may write
          MaxSteps, Bound,
          Variant                        \* "doc"; "noclip" / "noslew" = deliberately wrong laws (negative controls)

R(n, d) == Rt(n, d)
Off == [on |-> FALSE, v |-> Zero]
On(x) == [on |-> TRUE, v |-> x]

VARIABLES p,        \* [kp, ki, kd, imax, slew, clim, h, m]
          s,        \* [q, v, i (integral), c (previous setpoint), t, q2, v2, w0, w2]  (w0, w2: neighbours' activations)
          u,        \* setpoint written by the environment;  neighbours get the fixed controls U0, U2
          a,        \* result of ActDot: [c (effective setpoint), e, i (new integral), di, dc (act_dot entries)]
          f,        \* result of Compute: actuator force of the plugin
          pc, n, clipped,
          ev
vars == <<p, s, u, a, f, pc, n, clipped, ev>>

U0 == R(1, 2)        \* control of the neighbour integrator (gain 1 on j2)
U2 == RI(-1)         \* control of the neighbour filter (tau 1/2, gain 2 on j2)
Tau2 == R(1, 2)
HasI == ~IsZero(p.ki)
HasC == p.slew.on
IClip == p.imax.on /\ HasI            \* imax without ki has no effect

Init == /\ p = [kp |-> Zero, ki |-> Zero, kd |-> Zero, imax |-> Off, slew |-> Off, clim |-> [on |-> FALSE, lo |-> Zero, hi |-> Zero],
                h |-> One, m |-> One]
        /\ s = [q |-> Zero, v |-> Zero, i |-> Zero, c |-> Zero, t |-> Zero, q2 |-> Zero, v2 |-> Zero, w0 |-> Zero, w2 |-> Zero]
        /\ u = Zero /\ a = [c |-> Zero, e |-> Zero, i |-> Zero, di |-> Zero, dc |-> Zero] /\ f = Zero
        /\ pc = "gains" /\ n = 0 /\ clipped = FALSE /\ ev = [op |-> "init"]

PickGains == /\ pc = "gains"
             /\ \E kp \in Kps, ki \in Kis, kd \in Kds : p' = [p EXCEPT !.kp = kp, !.ki = ki, !.kd = kd]
             /\ pc' = "limits" /\ ev' = [op |-> "gains"] /\ UNCHANGED <<s, u, a, f, n, clipped>>
PickLimits == /\ pc = "limits"
              /\ \E im \in IMaxs, sl \in SlewMaxs, cl \in CtrlLims, h \in Hs, m \in Ms :
                   /\ (im.on => ~IsZero(p.ki))                 \* imax is read only together with ki
                   /\ p' = [p EXCEPT !.imax = im, !.slew = sl, !.clim = cl, !.h = h, !.m = m]
              /\ pc' = "state" /\ ev' = [op |-> "limits"] /\ UNCHANGED <<s, u, a, f, n, clipped>>
PickState == /\ pc = "state"
             /\ \E q \in Q0s, v \in V0s, i0 \in (IF HasI THEN I0s ELSE {Zero}), c0 \in (IF HasC THEN P0s ELSE {Zero}), t0 \in T0s :
                  /\ (IClip => Le(RAbs(Mul(p.ki, i0)), p.imax.v))          \* the stored integral starts inside its clamp
                  /\ s' = [s EXCEPT !.q = q, !.v = v, !.i = i0, !.c = c0, !.t = t0, !.w0 = R(1, 4), !.w2 = R(1, 2)]
             /\ pc' = "ctl" /\ ev' = [op |-> "state"] /\ UNCHANGED <<p, u, a, f, n, clipped>>

SmallS == \A z \in {s.q, s.v, s.i, s.c, s.t, s.q2, s.v2, s.w0, s.w2} : SmallR(z, Bound)
SetCtrl(uu) == /\ pc = "ctl" /\ n < MaxSteps /\ SmallS
               /\ u' = uu /\ pc' = "actdot" /\ ev' = [op |-> "ctl"] /\ UNCHANGED <<p, s, a, f, n, clipped>>
Env == \E uu \in Us : SetCtrl(uu)

\* setpoint seen by the controller: ctrl, clamped to ctrlrange, then slew-limited around the previous setpoint
Setpoint == LET c1 == IF p.clim.on THEN Clip(u, p.clim.lo, p.clim.hi) ELSE u
                d  == Mul(p.slew.v, p.h) IN
            IF HasC /\ Pos(s.t) /\ Variant # "noslew" THEN Clip(c1, Sub(s.c, d), Add(s.c, d)) ELSE c1
Integral(e) == LET i1 == Add(s.i, Mul(e, p.h))
                   b  == Div(p.imax.v, p.ki) IN
               IF IClip /\ Variant # "noclip" THEN Clip(i1, Neg(b), b) ELSE i1

ActDot == /\ pc = "actdot"
          /\ LET c == Setpoint
                 e == Sub(c, s.q)
                 i == IF HasI THEN Integral(e) ELSE Zero IN
             a' = [c |-> c, e |-> e, i |-> i,
                   di |-> IF HasI THEN Div(Sub(i, s.i), p.h) ELSE Zero,
                   dc |-> IF HasC THEN Div(Sub(c, s.c), p.h) ELSE Zero]
          /\ clipped' = (clipped \/ (HasI /\ a'.i # Add(s.i, Mul(a'.e, p.h))))
          /\ pc' = "compute" /\ ev' = [op |-> "actdot"] /\ UNCHANGED <<p, s, u, f, n>>

Compute == /\ pc = "compute"
           /\ f' = Add3(Mul(p.kp, a.e), Mul(p.kd, Neg(s.v)), Mul(p.ki, a.i))
           /\ pc' = "integrate" /\ ev' = [op |-> "compute"] /\ UNCHANGED <<p, s, u, a, n, clipped>>

Integrate ==
  /\ pc = "integrate"
  /\ LET v1  == Add(s.v, Mul(p.h, Div(f, p.m)))
         f0  == s.w0                                    \* neighbour integrator: gain 1
         f2  == Mul(RI(2), s.w2)                        \* neighbour filter: gain 2
         v21 == Add(s.v2, Mul(p.h, Add(f0, f2)))
         s1  == [q |-> Add(s.q, Mul(p.h, v1)), v |-> v1,
                 i |-> IF HasI THEN Add(s.i, Mul(p.h, a.di)) ELSE Zero,
                 c |-> IF HasC THEN Add(s.c, Mul(p.h, a.dc)) ELSE Zero,
                 t |-> Add(s.t, p.h),
                 q2 |-> Add(s.q2, Mul(p.h, v21)), v2 |-> v21,
                 w0 |-> Add(s.w0, Mul(p.h, U0)),
                 w2 |-> Add(s.w2, Mul(p.h, Div(Sub(U2, s.w2), Tau2)))] IN
     /\ s' = s1
     /\ ev' = [op |-> "step", p |-> p, pre |-> s, u |-> u, post |-> s1, force |-> f, f0 |-> f0, f2 |-> f2,
               adot |-> [di |-> a.di, dc |-> a.dc, d0 |-> U0, d2 |-> Div(Sub(U2, s.w2), Tau2)], n |-> n + 1]
  /\ pc' = "ctl" /\ n' = n + 1 /\ UNCHANGED <<p, u, a, f, clipped>>

Next == PickGains \/ PickLimits \/ PickState \/ Env \/ ActDot \/ Compute \/ Integrate
Spec == Init /\ [][Next]_vars

\* ---- properties ---------------------------------------------------------------------------------------------
Running == pc \in {"ctl", "actdot", "compute", "integrate"}
TypeOK == /\ pc \in {"gains", "limits", "state", "ctl", "actdot", "compute", "integrate"} /\ n \in 0..MaxSteps
          /\ \A z \in {s.q, s.v, s.i, s.c, s.t} : IsRat(z)
\* the I term never exceeds imax
ITermBounded == Running /\ IClip => Le(RAbs(Mul(p.ki, s.i)), p.imax.v) /\ (pc \in {"compute", "integrate"} => Le(RAbs(Mul(p.ki, a.i)), p.imax.v))
\* the setpoint moves by at most slewmax * dt per step once a previous setpoint exists
SlewBounded == pc \in {"compute", "integrate"} /\ HasC /\ Pos(s.t) => Le(RAbs(Sub(a.c, s.c)), Mul(p.slew.v, p.h))
\* and is the requested one when that is reachable
SlewMinimal == pc \in {"compute", "integrate"} /\ HasC /\ Pos(s.t) /\ ~p.clim.on /\ Le(RAbs(Sub(u, s.c)), Mul(p.slew.v, p.h)) => a.c = u
\* the activation variables hold exactly the documented quantities after the step
StateTracks == ev.op = "step" => (HasC => ev.post.c = a.c) /\ (HasI => ev.post.i = a.i)
\* with a setpoint inside ctrlrange the controller sees it
CtrlRange == pc \in {"compute", "integrate"} /\ p.clim.on /\ ~HasC => Le(p.clim.lo, a.c) /\ Le(a.c, p.clim.hi)
\* the force law, term by term (a pure P, a pure D and a pure I controller)
PureP == pc = "integrate" /\ IsZero(p.ki) /\ IsZero(p.kd) => f = Mul(p.kp, Sub(a.c, s.q))
PureD == pc = "integrate" /\ IsZero(p.ki) /\ IsZero(p.kp) => f = Neg(Mul(p.kd, s.v))
PureI == pc = "integrate" /\ IsZero(p.kp) /\ IsZero(p.kd) /\ HasI => f = Mul(p.ki, a.i) /\ (IClip => Le(RAbs(f), p.imax.v))
\* without clipping the integral is the rectangle-rule sum of the errors: one more h*e per step
IntegralSum == ev.op = "step" /\ HasI /\ ~IClip => ev.post.i = Add(ev.pre.i, Mul(p.h, Sub(a.c, ev.pre.q)))
\* anti-windup: a clipped integral sits exactly on its bound
ClipOnBound == pc \in {"compute", "integrate"} /\ IClip /\ a.i # Add(s.i, Mul(a.e, p.h)) => RAbs(Mul(p.ki, a.i)) = p.imax.v
\* time and the neighbours follow their own laws whatever the plugin does
TimeAdvances == ev.op = "step" => ev.post.t = Add(ev.pre.t, ev.p.h)
NeighbourLaws == ev.op = "step" => /\ ev.post.w0 = Add(ev.pre.w0, Mul(ev.p.h, U0))
                                   /\ ev.post.w2 = Add(ev.pre.w2, Mul(ev.p.h, Mul(RI(2), Sub(U2, ev.pre.w2))))

ViewNoEv == <<p, s, u, a, f, pc, n, clipped>>
\* ---- lattices -----------------------------------------------------------------------------------------------
L_Kp == {Zero, RI(2)}             L_KpX == {Zero, R(1, 2), RI(2), RI(4)}
L_Ki == {Zero, R(1, 2)}           L_KiX == {Zero, R(1, 2), RI(2)}
L_Kd == {Zero, One}               L_KdX == {Zero, R(1, 4), One}
L_IMax == {Off, On(R(1, 4))}      L_IMaxX == {Off, On(R(1, 4)), On(One)}
L_Slew == {Off, On(One)}          L_SlewX == {Off, On(One), On(RI(4)), On(Zero)}
NoLim == [on |-> FALSE, lo |-> Zero, hi |-> Zero]
L_CL0 == {NoLim}                  L_CL == {NoLim, [on |-> TRUE, lo |-> RI(-1), hi |-> R(3, 2)]}
L_H == {R(1, 4)}                  L_HX == {R(1, 4), R(1, 8)}
L_M == {One}                      L_MX == {One, RI(2)}
L_Q == {R(1, 2)}                  L_QX == {RI(-1), Zero, R(1, 2)}
L_V == {Zero, RI(-1)}             L_VX == {RI(-1), Zero, R(1, 2)}
L_I0 == {Zero}                    L_I0X == {Zero, R(1, 8), R(-1, 4)}
L_P0 == {Zero}                    L_P0X == {Zero, One}
L_T0 == {Zero}                    L_T0X == {Zero, One}
L_U == {RI(-2), RI(2)}            L_UX == {RI(-2), RI(-1), Zero, One, RI(2)}
=============================================================================
