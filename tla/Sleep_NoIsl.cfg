SPECIFICATION Spec
CONSTANTS
  NT = 3
  MINAWAKE = 1
  Eqs <- MC_EqsW
  Ground <- NoTrees
  Never <- NoTrees
  NoIslands = TRUE
  InitVals <- Init_M1
  Kinds <- AllKinds
VIEW ViewRet
INVARIANT TypeOK
INVARIANT CyclesClosed
INVARIANT NoMixedCoupling
INVARIANT TouchingSleepersShareCycle
PROPERTY WakeWhole
PROPERTY CyclesStable
PROPERTY SleepsAsIsland
PROPERTY CountdownRule
PROPERTY WakeOnPerturbation
PROPERTY WakeOnTouch
PROPERTY WakeOnEquality
PROPERTY Frozen
CHECK_DEADLOCK FALSE
