------------------------------ MODULE FreeBody ------------------------------
\* C05, quaternion clause: a single body on a free or ball joint (centre of mass at the joint, diagonal inertia, no
\* gravity, joint damping b, constant applied linear force) stepped with every integrator from a lattice of angular
\* and linear velocities.  The orientation itself is not rational; what the property fixes and the specification
\* states is
\*     unit      the quaternion stays unit-norm                     (the implementation must report unit = TRUE)
\*     time      time = n h
\*     translation of the free joint: it decouples from the rotation (centre of mass at the joint), so it follows
\*               the 1-dof law of Integrators.tla:  single-step integrators  v' = v + h (f - b v) / (m + h b),
\*               x' = x + h v';  RK4 = the 4th-order Taylor flow of the linear system (invariant RK4Taylor there).
\* One action = one mj_step; every reachable state carries the initial condition, so each dumped state is a
\* self-contained replay case (initial state, n steps, expected observation).
EXTENDS LawRat, TLC

CONSTANTS JTs,             \* subset of {"free", "ball"}
          Hs, Ms, Bs,      \* timestep, mass, joint damping
          Inertias,        \* set of <<i1, i2, i3>>
          Ws, Lins, Fs,    \* angular velocity / linear velocity / applied force vectors (sequences of 3 rationals)
          Integs, MaxSteps

VARIABLES p, pos, lin, n, ev
vars == <<p, pos, lin, n, ev>>
V0 == <<Zero, Zero, Zero>>

Params == {pp \in [jt : JTs, h : Hs, m : Ms, b : Bs, inertia : Inertias, integ : Integs, w : Ws, lin : Lins, f : Fs] :
             pp.jt = "ball" => pp.lin = V0 /\ pp.f = V0}
Init == /\ p \in Params
        /\ pos = V0 /\ lin = p.lin /\ n = 0
        /\ ev = [op |-> "init"]

\* one step of one translational dof
Lin1(v, f) == IF p.integ = "RK4"
              THEN LET d1 == Div(Sub(f, Mul(p.b, v)), p.m)
                       r  == Neg(Div(p.b, p.m))
                       d2 == Mul(r, d1)   d3 == Mul(r, d2)   d4 == Mul(r, d3)
                       h == p.h  h2 == Sq(p.h)
                   IN Add(v, Add4(Mul(h, d1), Mul3(h2, <<1, 2>>, d2), Mul3(Mul(h2, h), <<1, 6>>, d3),
                                  Mul3(Sq(h2), <<1, 24>>, d4)))
              ELSE Add(v, Mul(p.h, Div(Sub(f, Mul(p.b, v)), Add(p.m, Mul(p.h, p.b)))))
Pos1(x, v, v2, f) == IF p.integ = "RK4"
              THEN LET d1 == Div(Sub(f, Mul(p.b, v)), p.m)
                       r  == Neg(Div(p.b, p.m))
                       d2 == Mul(r, d1)   d3 == Mul(r, d2)
                       h == p.h  h2 == Sq(p.h)
                   IN Add(x, Add4(Mul(h, v), Mul3(h2, <<1, 2>>, d1), Mul3(Mul(h2, h), <<1, 6>>, d2),
                                  Mul3(Sq(h2), <<1, 24>>, d3)))
              ELSE Add(x, Mul(p.h, v2))

Step ==
  /\ n < MaxSteps
  /\ \A i \in 1..3 : SmallR(lin[i], 4096) /\ SmallR(pos[i], 4096)     \* keeps the 32-bit arithmetic of TLC in range
  /\ LET l2 == [i \in 1..3 |-> Lin1(lin[i], p.f[i])]
         x2 == [i \in 1..3 |-> Pos1(pos[i], lin[i], l2[i], p.f[i])] IN
     /\ lin' = l2 /\ pos' = x2 /\ n' = n + 1
     /\ ev' = [op |-> "quat", p |-> [jt |-> p.jt, h |-> p.h, m |-> p.m, b |-> p.b, integ |-> p.integ,
                                     i1 |-> p.inertia[1], i2 |-> p.inertia[2], i3 |-> p.inertia[3]],
               w |-> p.w, pos |-> V0, lin |-> p.lin, f |-> p.f, nsteps |-> n + 1,
               pos2 |-> x2, lin2 |-> l2, time |-> Mul(RI(n + 1), p.h), unit |-> TRUE, exact |-> FALSE]
  /\ UNCHANGED p
QuatStep == Step
Next == QuatStep
Spec == Init /\ [][Next]_vars

TypeOK == n \in 0..MaxSteps /\ \A i \in 1..3 : IsRat(pos[i]) /\ IsRat(lin[i])
\* without damping and force the linear momentum is conserved and the body moves uniformly
Uniform == IsZero(p.b) /\ p.f = V0 => lin = p.lin /\ \A i \in 1..3 : pos[i] = Mul(Mul(RI(n), p.h), p.lin[i])
\* damping never reverses or amplifies a velocity component when no force is applied
Contracts == p.f = V0 => \A i \in 1..3 : Le(RAbs(lin[i]), RAbs(p.lin[i])) /\ ~Lt(Mul(lin[i], p.lin[i]), Zero)
UnitAlways == ev.op = "quat" => ev.unit
ViewNoEv == <<p, pos, lin, n>>

R(a, b) == Rt(a, b)
L_JT == {"free", "ball"}
L_H == {R(1, 4), R(1, 8)}            L_H1 == {R(1, 4)}
L_M == {One, RI(2)}                  L_M1 == {RI(2)}
L_B == {Zero, R(1, 2)}
L_I == {<<One, One, One>>, <<One, RI(2), RI(3)>>}
L_W == {<<Zero, Zero, Zero>>, <<RI(3), Zero, Zero>>, <<One, RI(-2), R(1, 2)>>, <<RI(4), RI(2), RI(-6)>>}
L_WD == L_W \cup {<<Zero, RI(7), Zero>>, <<R(1, 4), R(1, 4), RI(5)>>, <<RI(-8), RI(3), RI(1)>>}
L_Lin == {V0, <<One, R(-1, 2), RI(2)>>}
L_F == {V0, <<Zero, One, R(-1, 2)>>}
L_AllInt == {"Euler", "RK4", "implicit", "implicitfast"}
=============================================================================
