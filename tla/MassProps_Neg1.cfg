SPECIFICATION Spec
CONSTANTS
  MaxGeoms = 2
  HalfSizes <- H_Two
  Offsets <- O_Two
  Rots <- R_Two
  Densities <- D_One
  Kinds <- K_Box
  MeshOffs <- MO_Zero
  Tess <- T_Zero
  MeshModes <- MM_Exact
  ChildModes <- C_None
  ChildPoss <- CP_Few
  ChildRots <- R_Rz
  TotalMasses <- TM_Off
  Rand = FALSE
INVARIANT TypeOK
INVARIANT GeomTensorProper
INVARIANT MeshIsBox
INVARIANT MeshInertiaIsBox
INVARIANT ParallelAxis
INVARIANT TensorProper
INVARIANT TriangleOnDirections
INVARIANT SingleGeom
INVARIANT Published
INVARIANT NegNoProducts
CHECK_DEADLOCK FALSE
