SPECIFICATION Spec
CONSTANTS
  JTs <- L_JT
  Hs <- L_H1
  Ms <- L_M1
  Bs <- L_B
  Inertias <- L_I
  Ws <- L_W
  Lins <- L_Lin
  Fs <- L_F
  Integs <- L_AllInt
  MaxSteps = 3
VIEW ViewNoEv
INVARIANT TypeOK
INVARIANT Uniform
INVARIANT Contracts
INVARIANT UnitAlways
CHECK_DEADLOCK FALSE
