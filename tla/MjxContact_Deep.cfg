SPECIFICATION Spec
CONSTANTS
  Kinds <- L_Kinds
  Zs <- L_ZX
  Z0s <- L_Z0X
  R1s <- L_R1X
  R2s <- L_R2X
  Margins <- L_MgX
  Gaps <- L_GpX
  Variant = "doc"
INVARIANT TypeOK
INVARIANT Midway
INVARIANT DistIsGap
INVARIANT EfcImpliesCon
INVARIANT PenetrationDetected
INVARIANT NormalOrient
CHECK_DEADLOCK FALSE
