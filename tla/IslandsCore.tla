---------------------------- MODULE IslandsCore ----------------------------
\* Constant operators shared by the specifications of constraint-island discovery
\* (src/engine/engine_island.c): the CODED union-find (mj_dsuRoot / mj_dsuMerge / mj_dsuAssign) and the coded
\* construction of the island index maps (mj_island), next to the ABSTRACT meaning the property is stated
\* with (connected components of an incidence hypergraph, numbered by smallest member; mutually inverse maps).
\* Trees, dofs, constraint rows and islands are numbered from 0 as in the C code; arrays are functions on 0..n-1.
EXTENDS Integers, Sequences, FiniteSets, TLC

Range0(m) == 0..(m - 1)
Min(S) == CHOOSE x \in S : \A y \in S : x <= y
SumTo(f, m) == LET RECURSIVE Sm(_)
                   Sm(i) == IF i >= m THEN 0 ELSE f[i] + Sm(i + 1)
               IN Sm(0)
Seq0(f, m) == [i \in 1..m |-> f[i - 1]]             \* 0-based function -> TLA+ sequence
Fn0(s) == [i \in 0..(Len(s) - 1) |-> s[i + 1]]      \* TLA+ sequence -> 0-based function

\* ---------------------------------------------------------------------------------------------
\* coded union-find.  parent[t] = -1: tree t not (yet) active
\* ---------------------------------------------------------------------------------------------
RECURSIVE RootOf(_, _)
RootOf(p, t) == IF p[t] = t THEN t ELSE RootOf(p, p[t])
\* second loop of mj_dsuRoot: every node on the path from t to the root is re-pointed to the root
RECURSIVE Compress(_, _, _)
Compress(p, t, r) == IF p[t] = t THEN p ELSE Compress([p EXCEPT ![t] = r], p[t], r)
\* mj_dsuRoot(parent, tree): requires parent[tree] >= 0
DsuRoot(p, t) == [root |-> RootOf(p, t), parent |-> Compress(p, t, RootOf(p, t))]
\* mj_dsuMerge(parent, tree1, tree2); -1 = static endpoint (both -1 is an error in the code, excluded by callers)
DsuMerge(p, a, b) ==
  LET t1 == IF a = -1 THEN b ELSE a
      t2 == IF b = -1 THEN a ELSE b
      p1 == [p EXCEPT ![t1] = IF @ = -1 THEN t1 ELSE @]
      p2 == [p1 EXCEPT ![t2] = IF @ = -1 THEN t2 ELSE @]
  IN IF p2[t1] = p2[t2] THEN p2
     ELSE LET r1 == DsuRoot(p2, t1)
              r2 == DsuRoot(r1.parent, t2)
          IN IF r1.root < r2.root THEN [r2.parent EXCEPT ![r2.root] = r1.root]
             ELSE IF r2.root < r1.root THEN [r2.parent EXCEPT ![r1.root] = r2.root]
             ELSE r2.parent
\* mj_dsuAssign(island, parent, tree_dofnum, ntree, &nidof): one ascending pass, compress-by-one
RECURSIVE AssignPass(_, _, _, _, _, _, _)
AssignPass(t, nt, p, isl, ni, nd, dofnum) ==
  IF t = nt THEN [island |-> isl, parent |-> p, nisland |-> ni, nidof |-> nd]
  ELSE IF p[t] = -1 THEN AssignPass(t + 1, nt, p, [isl EXCEPT ![t] = -1], ni, nd, dofnum)
  ELSE IF p[t] = t THEN AssignPass(t + 1, nt, p, [isl EXCEPT ![t] = ni], ni + 1, nd + dofnum[t], dofnum)
  ELSE AssignPass(t + 1, nt, [p EXCEPT ![t] = p[p[t]]], [isl EXCEPT ![t] = isl[p[p[t]]]], ni, nd + dofnum[t], dofnum)
DsuAssign(p, nt, dofnum) == AssignPass(0, nt, p, [t \in Range0(nt) |-> -2], 0, 0, dofnum)

\* ---------------------------------------------------------------------------------------------
\* abstract meaning: components of a hypergraph H (a set of non-empty sets of trees)
\* ---------------------------------------------------------------------------------------------
RECURSIVE Reach(_, _)
Reach(S, H) == LET S2 == S \cup UNION {e \in H : e \cap S # {}} IN IF S2 = S THEN S ELSE Reach(S2, H)
Comp(t, H) == Reach({t}, H)
ActiveIn(H) == UNION H
\* island id of every tree: components numbered in ascending order of their smallest tree, -1 = in no island
AbsIslands(nt, H) ==
  LET act == ActiveIn(H)
      mins == {Min(Comp(t, H)) : t \in act}
  IN [t \in Range0(nt) |-> IF t \in act THEN Cardinality({q \in mins : q < Min(Comp(t, H))}) ELSE -1]
AbsNIsland(H) == Cardinality({Min(Comp(t, H)) : t \in ActiveIn(H)})

\* ---------------------------------------------------------------------------------------------
\* coded map construction of mj_island (the counting / cumulative-sum / scatter loops), for a generic
\* "item -> island" array (items = trees, dofs or constraint rows)
\* ---------------------------------------------------------------------------------------------
CountIn(isl, m, i) == Cardinality({x \in Range0(m) : isl[x] = i})
\* island_n*: number of items per island
Counts(isl, m, ni) == [i \in Range0(ni) |-> CountIn(isl, m, i)]
\* island_*adr: cumulative sum
RECURSIVE AdrPass(_, _, _, _)
AdrPass(i, ni, cnt, adr) == IF i >= ni THEN adr ELSE AdrPass(i + 1, ni, cnt, [adr EXCEPT ![i] = adr[i - 1] + cnt[i - 1]])
Adrs(cnt, ni) == IF ni = 0 THEN << >> ELSE AdrPass(1, ni, cnt, [i \in Range0(ni) |-> 0])
\* scatter loop: item x of island i goes to adr[i] + (number of earlier items of island i); items of no island go
\* after all islands (`last` + number of earlier items of no island) when withrest, else nowhere
Item2Idx(isl, m, adr, last) ==
  [x \in Range0(m) |-> IF isl[x] >= 0 THEN adr[isl[x]] + Cardinality({y \in Range0(x) : isl[y] = isl[x]})
                       ELSE last + Cardinality({y \in Range0(x) : isl[y] < 0})]
Inverse(f, m) == [y \in Range0(m) |-> CHOOSE x \in Range0(m) : f[x] = y]

\* ---------------------------------------------------------------------------------------------
\* the property on maps: mutually inverse permutations, grouped by island
\* ---------------------------------------------------------------------------------------------
IsPerm(f, m) == DOMAIN f = Range0(m) /\ {f[x] : x \in Range0(m)} = Range0(m)
MutuallyInverse(f, g, m) == /\ IsPerm(f, m) /\ IsPerm(g, m)
                            /\ \A x \in Range0(m) : g[f[x]] = x
\* fwd maps item -> index; the indices of island i are exactly adr[i] .. adr[i] + cnt[i] - 1, islands in ascending
\* order, items of no island after all of them
Grouped(fwd, isl, m, ni, cnt, adr) ==
  /\ \A i \in Range0(ni) : cnt[i] = CountIn(isl, m, i)
  /\ (ni > 0 => adr[0] = 0) /\ \A i \in 1..(ni - 1) : adr[i] = adr[i - 1] + cnt[i - 1]
  /\ \A x \in Range0(m) : IF isl[x] >= 0 THEN fwd[x] >= adr[isl[x]] /\ fwd[x] < adr[isl[x]] + cnt[isl[x]]
                          ELSE fwd[x] >= SumTo(cnt, ni)
=============================================================================
