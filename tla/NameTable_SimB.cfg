SPECIFICATION Spec
CONSTANTS
  Types <- MC_TypesAll
  Layout = "B"
  Names <- MC_Names4
  MaxAdd = 3
  MaxOps = 69
  HMax = 1
  Load = 2
  CompileEvery = 23
  FaultFrom = 60
  RoundRobin = TRUE
  Bug = "none"
INVARIANT TypeOK
INVARIANT NoListAnswers
PROPERTY FaultsRejected
CHECK_DEADLOCK FALSE
