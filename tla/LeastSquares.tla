---------------------------- MODULE LeastSquares ----------------------------
\* Observable protocol of a bounded least-squares solve (python/mujoco/minimize.py : least_squares).
\*
\* Floating-point numbers appear only through ORDER KEYS: the harness replaces every double of one solve by
\* its dense rank among all doubles of that solve (coordinates and bounds in one key space, objective values in
\* another; -inf / +inf are keys like any other).  x <= y on doubles  <=>  key(x) <= key(y), so every
\* comparison the property makes is decided here, on keys.
\*
\* One action per observable event of a solve:
\*    Start(lo, hi, y0)  the box and the objective at the CLIPPED start point (evaluated by the harness)
\*    Eval(pts)          one call of the residual function on the columns pts (initial point, finite-difference
\*                       batch of jacobian_fd, candidate of the line search): every column inside the box
\*    IterC(c), IterY(y) one IterLog appended to the trace: candidate inside the box, objective not larger
\*                       than the previous log's
\*    RetX(x), RetY(y)   the returned point (inside the box) and its objective (<= y0)
\* A recorded solve that is NOT a behaviour of this module violates the property at the first event that has
\* no matching action (LeastSquaresTrace.tla); each event kind carries exactly one clause of the property.
EXTENDS Integers, Sequences, FiniteSets, TLC
CONSTANTS MaxN,     \* largest dimension            (stand-alone model checking only)
          MaxKey,   \* keys are 0..MaxKey           (stand-alone model checking only)
          MaxEv     \* events per behaviour         (stand-alone model checking only)

VARIABLES pc,      \* "idle" | "run" | "logged" | "retx" | "done"
          lo, hi,  \* the box (sequences of keys)
          y0,      \* objective key at the clipped start
          evald,   \* history: every point the residual was evaluated at
          ylog,    \* history: objectives of the iteration trace, in order
          ret,     \* returned point and objective
          nev
vars == <<pc, lo, hi, y0, evald, ylog, ret, nev>>

InBox(p) == /\ Len(p) = Len(lo)
            /\ \A i \in 1..Len(lo) : lo[i] <= p[i] /\ p[i] <= hi[i]
Last(s) == s[Len(s)]

Init == /\ pc = "idle" /\ lo = << >> /\ hi = << >> /\ y0 = 0 /\ evald = {} /\ ylog = << >>
        /\ ret = [x |-> << >>, y |-> 0] /\ nev = 0

Start(l, h, y) ==
  /\ pc = "idle"
  /\ Len(l) >= 1 /\ Len(l) = Len(h)
  /\ \A i \in 1..Len(l) : l[i] < h[i]          \* least_squares rejects empty or inverted boxes
  /\ pc' = "run" /\ lo' = l /\ hi' = h /\ y0' = y /\ nev' = nev + 1
  /\ UNCHANGED <<evald, ylog, ret>>

Eval(pts) ==
  /\ pc = "run"
  /\ Len(pts) >= 1
  /\ \A k \in 1..Len(pts) : InBox(pts[k])       \* CLAUSE evaluates the residual only inside the bounds
  /\ evald' = evald \cup {pts[k] : k \in 1..Len(pts)}
  /\ nev' = nev + 1
  /\ UNCHANGED <<pc, lo, hi, y0, ylog, ret>>

IterC(c) ==
  /\ pc = "run"
  /\ InBox(c)                                   \* CLAUSE every iterate of the trace is inside the bounds
  /\ pc' = "logged" /\ nev' = nev + 1
  /\ UNCHANGED <<lo, hi, y0, evald, ylog, ret>>

IterY(y) ==
  /\ pc = "logged"
  /\ (ylog # << >> => y <= Last(ylog))          \* CLAUSE the trace has non-increasing objective
  /\ ylog' = Append(ylog, y)
  /\ pc' = "run" /\ nev' = nev + 1
  /\ UNCHANGED <<lo, hi, y0, evald, ret>>

RetX(x) ==
  /\ pc = "run"
  /\ InBox(x)                                   \* CLAUSE returns a point inside the bounds
  /\ ret' = [ret EXCEPT !.x = x]
  /\ pc' = "retx" /\ nev' = nev + 1
  /\ UNCHANGED <<lo, hi, y0, evald, ylog>>

RetY(y) ==
  /\ pc = "retx"
  /\ y <= y0                                    \* CLAUSE objective no larger than at the clipped start
  /\ ret' = [ret EXCEPT !.y = y]
  /\ pc' = "done" /\ nev' = nev + 1
  /\ UNCHANGED <<lo, hi, y0, evald, ylog>>

\* ---- stand-alone model: all behaviours over a small key space ---------------------------------------
Keys == 0..MaxKey
Pts(n) == [1..n -> Keys]
More == nev < MaxEv
NStart == More /\ \E n \in 1..MaxN : \E l \in Pts(n), h \in Pts(n), y \in Keys : Start(l, h, y)
NEval1 == More /\ \E p \in Pts(Len(lo)) : Eval(<<p>>)
NEval2 == More /\ \E p \in Pts(Len(lo)), q \in Pts(Len(lo)) : Eval(<<p, q>>)
NIterC == More /\ \E c \in Pts(Len(lo)) : IterC(c)
NIterY == More /\ \E y \in Keys : IterY(y)
NRetX  == More /\ \E x \in Pts(Len(lo)) : RetX(x)
NRetY  == More /\ \E y \in Keys : RetY(y)
Next == NStart \/ NEval1 \/ NEval2 \/ NIterC \/ NIterY \/ NRetX \/ NRetY
Spec == Init /\ [][Next]_vars

\* ---- the property, stated over the histories -----------------------------------------------------------
TypeOK == pc \in {"idle", "run", "logged", "retx", "done"} /\ Len(lo) = Len(hi)
EvalsInsideBounds == \A p \in evald : InBox(p)
TraceNonIncreasing == \A i \in 1..Len(ylog), j \in 1..Len(ylog) : i < j => ylog[i] >= ylog[j]
ReturnInsideAndNoWorse == pc = "done" => (InBox(ret.x) /\ ret.y <= y0)
BoxProper == pc # "idle" => \A i \in 1..Len(lo) : lo[i] < hi[i]
=============================================================================
