----------------------------- MODULE SignalOps -----------------------------
\* Purity of the system-identification signal transforms
\*   python/mujoco/sysid/_src/signal_modifier.py : apply_bias, apply_gain, apply_delay, apply_time_window,
\*                                                 apply_delayed_ts_window, apply_resample_and_delay
\*   python/mujoco/sysid/_src/timeseries.py      : TimeSeries.resample / interpolate / get / remove_from_beginning
\*
\* The state is a HEAP of array buffers (numpy arrays) with version counters, and time-series OBJECTS that
\* reference a window of a time buffer and a window of a data buffer.  Objects may share buffers: a time
\* window is a view of its input, bias/gain/delay results share the time stamps of their input.  Every
\* transform is one action that creates ONE new object (or reports an error and creates nothing).
\* "Never modifies the series passed in" is
\*     NoWriteToExisting : no action changes (bumps the version of) a buffer referenced by an existing object
\*     Purity            : the observable contents obs[o] of every existing object are unchanged by every action
\* (sharing is allowed, writing is not - also through chains of views).
\*
\* Values live on a dyadic lattice where IEEE doubles are exact whatever the evaluation order:
\*     time  = integer / TDen seconds, all sampling steps are powers of two (invariant PowerOfTwoSteps)
\*     value = integer / Q              (invariant Exact: every division performed so far was exact)
\* so the implementation's arrays must equal the specification's arrays bit for bit.
\*
\* ev  = last operation, its arguments and what the implementation must return (new object id or error)
\* obs = contents (times, rows) of every live object: the replay compares ALL of them after every call.
EXTENDS Integers, Sequences, FiniteSets, TLC
CONSTANTS MaxOps,        \* number of operations in a behaviour
          MaxObjs,       \* number of live time series
          MaxSeries,     \* how many initial series may be created (always the first operations)
          InPlaceDelay,  \* FALSE: the law.  TRUE: apply_delay as a mutating implementation would do it
                         \*        (negative control: TLC must then refute Purity / NoWriteToExisting)
          Biases, Gains, Delays, Windows, DWindows, RsdCfgs, NearCfgs, GridIds, Methods, QueryTimes, Cuts

Q    == 4096
TDen == 4
D    == 3
Sensors == {"a", "b"}
\* columns of each sensor (deliberately interleaved: a swapped or contiguous-range index would show)
ColSeq == [a |-> <<2>>, b |-> <<1, 3>>]
ColSet(s) == {ColSeq[s][i] : i \in 1..Len(ColSeq[s])}
SensorOf(c) == IF c = 2 THEN "a" ELSE "b"
NONE == -99           \* "sensor not in the sensor_delays dictionary"

\* initial series: times (1/TDen s) and integer values (scaled by Q when created)
SeriesT == << <<0, 2, 4, 8, 12>>, <<1, 2, 4, 6>> >>
SeriesV == << << <<0, 1, -2>>, <<2, 3, 0>>, <<1, -1, 4>>, <<3, 0, 2>>, <<-2, 2, 1>> >>,
              << <<4, 0, 1>>, <<-1, 2, 2>>, <<0, 0, -3>>, <<2, 1, 5>> >> >>
\* target time grids for resampling (grid 1 = time stamps of series 2, grid 2 leaves the range on both sides)
Grids == << <<1, 2, 4, 6>>, <<-1, 1, 3, 7, 11, 15>>, <<3, 4, 5, 6, 7, 8>> >>

VARIABLES bufs,    \* heap: sequence of [ver, val]; val = sequence of ints (times) or of rows (data)
          objs,    \* sequence of [tb, tlo, db, dlo, n]: n samples starting after offsets tlo / dlo
          nops, exact, ev, obs
vars == <<bufs, objs, nops, exact, ev, obs>>

\* ---- contents ----------------------------------------------------------------------------------
TimesOf(B, o) == [i \in 1..o.n |-> B[o.tb].val[o.tlo + i]]
RowsOf(B, o)  == [i \in 1..o.n |-> B[o.db].val[o.dlo + i]]
ObsOf(B, O)   == [k \in 1..Len(O) |-> [t |-> TimesOf(B, O[k]), d |-> RowsOf(B, O[k])]]
Refs(O, b)    == \E k \in 1..Len(O) : O[k].tb = b \/ O[k].db = b

\* ---- interpolation on the lattice ------------------------------------------------------------------
\* segment k with T[k] <= t <= T[k+1] (the last one that starts at or before t, as searchsorted does)
Seg(T, t) == LET ks == {k \in 1..Len(T) - 1 : T[k] <= t} IN
             CHOOSE k \in ks : \A j \in ks : j <= k
Inside(T, t) == T[1] < t /\ t < T[Len(T)]
LinNum(T, R, t, c, k) == (R[k + 1][c] - R[k][c]) * (t - T[k])
LinVal(T, R, t, c) ==
  IF t <= T[1] THEN R[1][c]
  ELSE IF t >= T[Len(T)] THEN R[Len(T)][c]
  ELSE LET k == Seg(T, t) IN R[k][c] + LinNum(T, R, t, c, k) \div (T[k + 1] - T[k])
LinExact(T, R, t, c) ==
  IF Inside(T, t) THEN LET k == Seg(T, t) IN LinNum(T, R, t, c, k) % (T[k + 1] - T[k]) = 0 ELSE TRUE
\* zero-order hold: last sample at or before t, first sample before the start
ZohIdx(T, t) == IF t < T[1] THEN 1 ELSE LET ks == {k \in 1..Len(T) : T[k] <= t} IN
                                        CHOOSE k \in ks : \A j \in ks : j <= k
Val(m, T, R, t, c) == IF m = "linear" THEN LinVal(T, R, t, c) ELSE R[ZohIdx(T, t)][c]
ValExact(m, T, R, t, c) == IF m = "linear" THEN LinExact(T, R, t, c) ELSE TRUE
\* a whole resampled block: query times G, per-column shift sh[c]
Block(m, T, R, G, sh) == [i \in 1..Len(G) |-> [c \in 1..D |-> Val(m, T, R, G[i] + sh[c], c)]]
BlockExact(m, T, R, G, sh) == \A i \in 1..Len(G), c \in 1..D : ValExact(m, T, R, G[i] + sh[c], c)
NoShift == [c \in 1..D |-> 0]

Init == /\ bufs = << >> /\ objs = << >> /\ nops = 0 /\ exact = TRUE
        /\ ev = [op |-> "init"] /\ obs = << >>

Step    == nops < MaxOps /\ nops' = nops + 1
Room    == Len(objs) < MaxObjs
Fresh(val) == [ver |-> 0, val |-> val]
HasObj(o)  == o \in 1..Len(objs)
Interpolable(o) == objs[o].n >= 2          \* a single sample cannot be interpolated: left open, kept out

\* ---- actions ------------------------------------------------------------------------------------
\* the caller builds a series from two fresh arrays
Create(k) ==
  /\ Step /\ Room /\ Len(objs) < MaxSeries /\ ev.op \in {"init", "create"}
  /\ bufs' = bufs \o << Fresh(SeriesT[k]),
                        Fresh([i \in 1..Len(SeriesV[k]) |-> [c \in 1..D |-> Q * SeriesV[k][i][c]]]) >>
  /\ objs' = Append(objs, [tb |-> Len(bufs) + 1, tlo |-> 0, db |-> Len(bufs) + 2, dlo |-> 0, n |-> Len(SeriesT[k])])
  /\ ev' = [op |-> "create", k |-> k, map |-> ColSeq, q |-> Q, tden |-> TDen, new |-> Len(objs) + 1, err |-> FALSE]
  /\ UNCHANGED exact
  /\ obs' = ObsOf(bufs', objs')

\* result shares the time stamps of its input, data in a fresh buffer
Derived(o, rows) ==
  /\ bufs' = Append(bufs, Fresh(rows))
  /\ objs' = Append(objs, [tb |-> objs[o].tb, tlo |-> objs[o].tlo, db |-> Len(bufs) + 1, dlo |-> 0, n |-> objs[o].n])

ApplyBias(o, s, b) ==
  /\ Step /\ Room /\ HasObj(o)
  /\ LET R == RowsOf(bufs, objs[o]) IN
     Derived(o, [i \in 1..Len(R) |-> [c \in 1..D |-> IF c \in ColSet(s) THEN R[i][c] + b ELSE R[i][c]]])
  /\ ev' = [op |-> "bias", o |-> o, s |-> s, b |-> b, new |-> Len(objs) + 1, err |-> FALSE]
  /\ UNCHANGED exact
  /\ obs' = ObsOf(bufs', objs')

\* gain g = <<num, den>>
ApplyGain(o, s, g) ==
  /\ Step /\ Room /\ HasObj(o)
  /\ LET R == RowsOf(bufs, objs[o]) IN
     /\ Derived(o, [i \in 1..Len(R) |-> [c \in 1..D |-> IF c \in ColSet(s) THEN (R[i][c] * g[1]) \div g[2] ELSE R[i][c]]])
     /\ exact' = (exact /\ \A i \in 1..Len(R), c \in ColSet(s) : (R[i][c] * g[1]) % g[2] = 0)
  /\ ev' = [op |-> "gain", o |-> o, s |-> s, g |-> g, new |-> Len(objs) + 1, err |-> FALSE]
  /\ obs' = ObsOf(bufs', objs')

\* sensor s is read dl later: y'(t) = y(t - dl) on the sensor's columns, other columns copied
ApplyDelay(o, s, dl) ==
  /\ Step /\ Room /\ HasObj(o) /\ Interpolable(o)
  /\ LET ob == objs[o]
         T == TimesOf(bufs, ob)
         R == RowsOf(bufs, ob)
         newR == [i \in 1..ob.n |-> [c \in 1..D |-> IF c \in ColSet(s) THEN LinVal(T, R, T[i] - dl, c) ELSE R[i][c]]]
     IN /\ IF InPlaceDelay
           THEN \* what a mutating implementation does: the result aliases the input's data and is written
                /\ bufs' = [bufs EXCEPT ![ob.db] =
                              [ver |-> bufs[ob.db].ver + 1,
                               val |-> [j \in 1..Len(bufs[ob.db].val) |->
                                          IF j > ob.dlo /\ j <= ob.dlo + ob.n THEN newR[j - ob.dlo]
                                          ELSE bufs[ob.db].val[j]]]]
                /\ objs' = Append(objs, ob)
           ELSE Derived(o, newR)
        /\ exact' = (exact /\ \A i \in 1..ob.n, c \in ColSet(s) : LinExact(T, R, T[i] - dl, c))
  /\ ev' = [op |-> "delay", o |-> o, s |-> s, dl |-> dl, new |-> Len(objs) + 1, err |-> FALSE]
  /\ obs' = ObsOf(bufs', objs')

\* samples with mn <= t <= mx, as a VIEW of the input (no new buffer); an empty selection is an error
WindowOf(o, mn, mx, tag, args) ==
  LET ob == objs[o]
      T  == TimesOf(bufs, ob)
      lo == Cardinality({i \in 1..ob.n : T[i] < mn})
      hi == Cardinality({i \in 1..ob.n : T[i] <= mx})
  IN IF hi <= lo
     THEN /\ UNCHANGED <<bufs, objs>>
          /\ ev' = [op |-> tag, o |-> o, a |-> args, new |-> 0, err |-> TRUE]
     ELSE /\ UNCHANGED bufs
          /\ objs' = Append(objs, [tb |-> ob.tb, tlo |-> ob.tlo + lo, db |-> ob.db, dlo |-> ob.dlo + lo, n |-> hi - lo])
          /\ ev' = [op |-> tag, o |-> o, a |-> args, new |-> Len(objs) + 1, err |-> FALSE]

TimeWindow(o, w) ==
  /\ Step /\ Room /\ HasObj(o)
  /\ WindowOf(o, w[1], w[2], "window", w)
  /\ UNCHANGED exact
  /\ obs' = ObsOf(bufs', objs')

\* window o so that it fits inside od delayed by anything in [mind, maxd]; mind > maxd is an error
DelayedWindow(o, od, w) ==
  /\ Step /\ Room /\ HasObj(o) /\ HasObj(od)
  /\ IF w[1] > w[2]
     THEN /\ UNCHANGED <<bufs, objs>>
          /\ ev' = [op |-> "dwindow", o |-> o, a |-> <<od, w[1], w[2]>>, new |-> 0, err |-> TRUE]
     ELSE LET Td == TimesOf(bufs, objs[od]) IN
          WindowOf(o, Td[1] - w[1], Td[Len(Td)] - w[2], "dwindow", <<od, w[1], w[2]>>)
  /\ UNCHANGED exact
  /\ obs' = ObsOf(bufs', objs')

\* per-column delay of apply_resample_and_delay: cfg = [dd, a, b, pred]
ColDelay(cfg, c) == LET raw == IF cfg[SensorOf(c)] = NONE THEN cfg.dd ELSE cfg[SensorOf(c)]
                    IN IF cfg.pred THEN 0 - raw ELSE raw
\* resample on the caller's grid g with per-sensor delays: defined COLUMN BY COLUMN (the law);
\* the result references the caller's time array (a fresh buffer here) and fresh data
ResampleAndDelay(o, g, cfg) ==
  /\ Step /\ Room /\ HasObj(o) /\ Interpolable(o)
  /\ LET ob == objs[o]
         T == TimesOf(bufs, ob)
         R == RowsOf(bufs, ob)
         sh == [c \in 1..D |-> ColDelay(cfg, c)]
     IN /\ bufs' = bufs \o << Fresh(Grids[g]), Fresh(Block("linear", T, R, Grids[g], sh)) >>
        /\ exact' = (exact /\ BlockExact("linear", T, R, Grids[g], sh))
  /\ objs' = Append(objs, [tb |-> Len(bufs) + 1, tlo |-> 0, db |-> Len(bufs) + 2, dlo |-> 0, n |-> Len(Grids[g])])
  /\ ev' = [op |-> "rsd", o |-> o, g |-> g, cfg |-> cfg, new |-> Len(objs) + 1, err |-> FALSE]
  /\ obs' = ObsOf(bufs', objs')

\* ---- delays that are almost, but not exactly, equal ------------------------------------------------------
\* A near delay is <<base, p>>: the lattice delay `base` plus perturbation number p (0 = none).  The harness renders p
\* as a tiny float offset (one ulp, 1e-12, 1e-10, 4e-10, 1e-9, 1e-6, round-off of (x + 0.1) - 0.1).  Two delays are
\* THE SAME delay iff both components agree: only then may columns share one interpolation call.  The values leave
\* the lattice, so this is a query (nothing is kept); what the implementation must return is fixed by the law
\*    column c of the result = TimeSeries.resample of column c alone at grid + shift(cols[c])      (column by column)
\* and, for the columns whose delay is unperturbed, by the exact lattice values `base`.
NoNear == <<NONE, 0>>
NearCol(cfg, c) == LET raw == IF cfg[SensorOf(c)] = NoNear THEN cfg.dd ELSE cfg[SensorOf(c)]
                   IN [base |-> IF cfg.pred THEN 0 - raw[1] ELSE raw[1], p |-> raw[2], neg |-> cfg.pred]
ResampleAndDelayNear(o, g, cfg) ==
  /\ Step /\ HasObj(o) /\ Interpolable(o)
  /\ LET T == TimesOf(bufs, objs[o])
         R == RowsOf(bufs, objs[o])
         cols == [c \in 1..D |-> NearCol(cfg, c)]
         sh == [c \in 1..D |-> cols[c].base]
     IN /\ ev' = [op |-> "rsdn", o |-> o, g |-> g, cfg |-> cfg, grid |-> Grids[g], cols |-> cols,
                  groups |-> {{c2 \in 1..D : cols[c2] = cols[c]} : c \in 1..D},
                  base |-> Block("linear", T, R, Grids[g], sh), new |-> 0, err |-> FALSE]
        /\ exact' = (exact /\ BlockExact("linear", T, R, Grids[g], sh))
  /\ UNCHANGED <<bufs, objs>>
  /\ obs' = ObsOf(bufs', objs')

\* TimeSeries.resample(new_times, method): g = 0 passes the series' own time stamps (shared), g > 0 a grid
Resample(o, g, m) ==
  /\ Step /\ Room /\ HasObj(o) /\ Interpolable(o)
  /\ LET ob == objs[o]
         T == TimesOf(bufs, ob)
         R == RowsOf(bufs, ob)
         G == IF g = 0 THEN T ELSE Grids[g]
     IN /\ exact' = (exact /\ BlockExact(m, T, R, G, NoShift))
        /\ IF g = 0
           THEN /\ bufs' = Append(bufs, Fresh(Block(m, T, R, G, NoShift)))
                /\ objs' = Append(objs, [tb |-> ob.tb, tlo |-> ob.tlo, db |-> Len(bufs) + 1, dlo |-> 0, n |-> ob.n])
           ELSE /\ bufs' = bufs \o << Fresh(G), Fresh(Block(m, T, R, G, NoShift)) >>
                /\ objs' = Append(objs, [tb |-> Len(bufs) + 1, tlo |-> 0, db |-> Len(bufs) + 2, dlo |-> 0, n |-> Len(G)])
  /\ ev' = [op |-> "resample", o |-> o, g |-> g, m |-> m, new |-> Len(objs) + 1, err |-> FALSE]
  /\ obs' = ObsOf(bufs', objs')

\* TimeSeries.get(t, method) for a scalar t: a query, no new object
Get(o, t, m) ==
  /\ Step /\ HasObj(o) /\ Interpolable(o)
  /\ LET T == TimesOf(bufs, objs[o])
         R == RowsOf(bufs, objs[o])
     IN /\ ev' = [op |-> "get", o |-> o, t |-> t, m |-> m, ret |-> [c \in 1..D |-> Val(m, T, R, t, c)],
                  new |-> 0, err |-> FALSE]
        /\ exact' = (exact /\ \A c \in 1..D : ValExact(m, T, R, t, c))
  /\ UNCHANGED <<bufs, objs>>
  /\ obs' = ObsOf(bufs', objs')

\* TimeSeries.remove_from_beginning(cut): fresh shifted time stamps, data is a view
RemoveFromBeginning(o, cut) ==
  /\ Step /\ Room /\ HasObj(o)
  /\ LET ob == objs[o]
         T == TimesOf(bufs, ob)
         idx == Cardinality({i \in 1..ob.n : T[i] < cut})
     IN IF cut < 0 \/ cut > T[ob.n]
        THEN /\ UNCHANGED <<bufs, objs>>
             /\ ev' = [op |-> "rfb", o |-> o, cut |-> cut, new |-> 0, err |-> TRUE]
        ELSE /\ bufs' = Append(bufs, Fresh([i \in 1..ob.n - idx |-> T[idx + i] - T[idx + 1]]))
             /\ objs' = Append(objs, [tb |-> Len(bufs) + 1, tlo |-> 0, db |-> ob.db, dlo |-> ob.dlo + idx, n |-> ob.n - idx])
             /\ ev' = [op |-> "rfb", o |-> o, cut |-> cut, new |-> Len(objs) + 1, err |-> FALSE]
  /\ UNCHANGED exact
  /\ obs' = ObsOf(bufs', objs')

ObjIds == 1..MaxObjs
Next == \/ \E k \in 1..Len(SeriesT) : Create(k)
        \/ \E o \in ObjIds, s \in Sensors, b \in Biases : ApplyBias(o, s, b)
        \/ \E o \in ObjIds, s \in Sensors, g \in Gains : ApplyGain(o, s, g)
        \/ \E o \in ObjIds, s \in Sensors, dl \in Delays : ApplyDelay(o, s, dl)
        \/ \E o \in ObjIds, w \in Windows : TimeWindow(o, w)
        \/ \E o \in ObjIds, od \in ObjIds, w \in DWindows : DelayedWindow(o, od, w)
        \/ \E o \in ObjIds, g \in GridIds \ {0}, cfg \in RsdCfgs : ResampleAndDelay(o, g, cfg)
        \/ \E o \in ObjIds, g \in GridIds \ {0}, cfg \in NearCfgs : ResampleAndDelayNear(o, g, cfg)
        \/ \E o \in ObjIds, g \in GridIds, m \in Methods : Resample(o, g, m)
        \/ \E o \in ObjIds, t \in QueryTimes, m \in Methods : Get(o, t, m)
        \/ \E o \in ObjIds, cut \in Cuts : RemoveFromBeginning(o, cut)
Spec == Init /\ [][Next]_vars

\* ---- properties -----------------------------------------------------------------------------------
IsPow2(x) == x \in {1, 2, 4, 8, 16}
TypeOK == /\ Len(objs) <= MaxObjs /\ nops <= MaxOps
          /\ \A k \in 1..Len(objs) : /\ objs[k].tb \in 1..Len(bufs) /\ objs[k].db \in 1..Len(bufs)
                                     /\ objs[k].n >= 1
                                     /\ objs[k].tlo + objs[k].n <= Len(bufs[objs[k].tb].val)
                                     /\ objs[k].dlo + objs[k].n <= Len(bufs[objs[k].db].val)
          /\ obs = ObsOf(bufs, objs)
Exact == exact
PowerOfTwoSteps == \A k \in 1..Len(obs) : \A i \in 1..Len(obs[k].t) - 1 : IsPow2(obs[k].t[i + 1] - obs[k].t[i])
\* the property: transforms never write to what already exists ...
NoWriteToExisting == [][\A b \in 1..Len(bufs) : Refs(objs, b) => bufs'[b] = bufs[b]]_vars
Purity            == [][\A k \in 1..Len(objs) : obs'[k] = obs[k]]_vars
\* ... and return NEW series (or an error and nothing)
ReturnsNew == [][IF ev'.op \in {"get", "rsdn"} \/ ev'.err THEN objs' = objs /\ bufs' = bufs
                 ELSE Len(objs') = Len(objs) + 1 /\ ev'.new = Len(objs')]_vars
\* bias / gain / delay touch only the named sensor's columns and keep the time stamps
OnlyNamedColumns ==
  [][ev'.op \in {"bias", "gain", "delay"} =>
       /\ obs'[ev'.new].t = obs[ev'.o].t
       /\ \A i \in 1..Len(obs[ev'.o].d), c \in (1..D) \ ColSet(ev'.s) : obs'[ev'.new].d[i][c] = obs[ev'.o].d[i][c]]_vars
ZeroDelayIsIdentity == [][(ev'.op = "delay" /\ ev'.dl = 0) => obs'[ev'.new].d = obs[ev'.o].d]_vars
\* resampling at the original time stamps returns the original data (own array or an equal grid, both methods)
ResampleSameTimesIsIdentity ==
  [][(ev'.op = "resample" /\ obs'[ev'.new].t = obs[ev'.o].t) => obs'[ev'.new].d = obs[ev'.o].d]_vars
\* linear interpolation stays within the neighbouring samples (end samples outside the range)
Between(v, x, y) == (x <= v /\ v <= y) \/ (y <= v /\ v <= x)
WithinNeighbours(T, R, t, c, v) ==
  IF t <= T[1] THEN v = R[1][c]
  ELSE IF t >= T[Len(T)] THEN v = R[Len(T)][c]
  ELSE Between(v, R[Seg(T, t)][c], R[Seg(T, t) + 1][c])
InterpolationBounded ==
  [][/\ (ev'.op = "resample" /\ ev'.m = "linear") =>
          \A i \in 1..Len(obs'[ev'.new].t), c \in 1..D :
             WithinNeighbours(obs[ev'.o].t, obs[ev'.o].d, obs'[ev'.new].t[i], c, obs'[ev'.new].d[i][c])
     /\ (ev'.op = "get" /\ ev'.m = "linear") =>
          \A c \in 1..D : WithinNeighbours(obs[ev'.o].t, obs[ev'.o].d, ev'.t, c, ev'.ret[c])
     /\ (ev'.op = "rsd") =>
          \A i \in 1..Len(obs'[ev'.new].t), c \in 1..D :
             WithinNeighbours(obs[ev'.o].t, obs[ev'.o].d, obs'[ev'.new].t[i] + ColDelay(ev'.cfg, c), c,
                              obs'[ev'.new].d[i][c])]_vars
\* grouped per-sensor delays = column by column = plain resampling of the time-shifted grid when all delays agree
GroupedIsColumnwise ==
  [][(ev'.op = "rsd") =>
       /\ obs'[ev'.new].t = Grids[ev'.g]
       /\ \A i \in 1..Len(Grids[ev'.g]), c \in 1..D :
            obs'[ev'.new].d[i][c] = LinVal(obs[ev'.o].t, obs[ev'.o].d, Grids[ev'.g][i] + ColDelay(ev'.cfg, c), c)]_vars
\* near-equal delays: columns are grouped exactly by identity of their delay, the groups partition the columns, and
\* an unperturbed column has the lattice value of plain column-wise resampling
NearDelaysStayApart ==
  [][(ev'.op = "rsdn") =>
       /\ \A c1 \in 1..D, c2 \in 1..D :
            (\E grp \in ev'.groups : c1 \in grp /\ c2 \in grp) <=> (ev'.cols[c1] = ev'.cols[c2])
       /\ UNION ev'.groups = 1..D
       /\ \A c \in 1..D : ev'.cols[c].p = 0 =>
             \A i \in 1..Len(ev'.grid) :
                ev'.base[i][c] = LinVal(obs[ev'.o].t, obs[ev'.o].d, ev'.grid[i] + ev'.cols[c].base, c)]_vars
\* a window is exactly the samples inside [mn, mx], in order
WindowExact ==
  [][(ev'.op = "window" /\ ~ev'.err) =>
       LET T == obs[ev'.o].t
           keep == {i \in 1..Len(T) : ev'.a[1] <= T[i] /\ T[i] <= ev'.a[2]}
           first == CHOOSE i \in keep : \A j \in keep : i <= j
       IN /\ Len(obs'[ev'.new].t) = Cardinality(keep)
          /\ \A i \in 1..Cardinality(keep) : /\ obs'[ev'.new].t[i] = T[first + i - 1]
                                             /\ obs'[ev'.new].d[i] = obs[ev'.o].d[first + i - 1]]_vars
WindowErrorIffEmpty ==
  [][(ev'.op = "window") => (ev'.err <=> ~\E i \in 1..Len(obs[ev'.o].t) :
                                            ev'.a[1] <= obs[ev'.o].t[i] /\ obs[ev'.o].t[i] <= ev'.a[2])]_vars

\* ---- constants for the configurations ---------------------------------------------------------------
MC_Biases   == {Q, 0 - 3 * (Q \div 2)}
MC_Gains    == {<<2, 1>>, <<-1, 2>>}
MC_Delays   == {0, 1, -3}
MC_Windows  == {<<2, 8>>, <<3, 5>>, <<-4, 1>>, <<5, 40>>, <<9, 11>>, <<13, 20>>}
MC_DWindows == {<<-1, 1>>, <<0, 0>>, <<1, -1>>, <<-2, 0>>}
MC_RsdCfgs  == {[dd |-> 0, a |-> NONE, b |-> NONE, pred |-> TRUE],
                [dd |-> 1, a |-> NONE, b |-> 2,    pred |-> TRUE],
                [dd |-> 1, a |-> NONE, b |-> 2,    pred |-> FALSE],
                [dd |-> 0, a |-> 1,    b |-> 1,    pred |-> TRUE],
                [dd |-> 2, a |-> -1,   b |-> NONE, pred |-> FALSE],
                [dd |-> -1, a |-> 3,   b |-> 0,    pred |-> TRUE]}
MC_NearCfgs == {[dd |-> <<1, 0>>,  a |-> <<1, 3>>, b |-> NoNear,    pred |-> TRUE],
                [dd |-> <<1, 3>>,  a |-> <<1, 0>>, b |-> NoNear,    pred |-> TRUE],
                [dd |-> <<0, 0>>,  a |-> <<0, 2>>, b |-> <<0, 1>>,  pred |-> FALSE],
                [dd |-> <<2, 0>>,  a |-> <<2, 1>>, b |-> <<2, 7>>,  pred |-> FALSE],
                [dd |-> <<-3, 4>>, a |-> NoNear,   b |-> <<-3, 0>>, pred |-> TRUE],
                [dd |-> <<1, 5>>,  a |-> <<1, 0>>, b |-> <<1, 6>>,  pred |-> FALSE],
                [dd |-> <<2, 3>>,  a |-> <<2, 3>>, b |-> <<2, 4>>,  pred |-> TRUE]}
MC_GridIds  == 0..3
MC_Methods  == {"linear", "zoh"}
MC_Query    == {-2, 2, 3, 7, 13}
MC_Cuts     == {-1, 0, 3, 6, 50}
\* smaller parameter sets for the exhaustive state graph that is replayed edge by edge
SM_Biases   == {Q}
SM_Gains    == {<<-1, 2>>}
SM_Delays   == {1, -3}
SM_Windows  == {<<2, 8>>, <<9, 11>>}
SM_DWindows == {<<-1, 1>>, <<1, -1>>}
SM_RsdCfgs  == {[dd |-> 1, a |-> NONE, b |-> 2, pred |-> TRUE], [dd |-> 2, a |-> -1, b |-> NONE, pred |-> FALSE]}
SM_NearCfgs == {[dd |-> <<1, 0>>, a |-> <<1, 3>>, b |-> NoNear,   pred |-> TRUE],
                [dd |-> <<1, 3>>, a |-> <<1, 0>>, b |-> NoNear,   pred |-> TRUE],
                [dd |-> <<2, 0>>, a |-> <<2, 1>>, b |-> <<2, 7>>, pred |-> FALSE]}
SM_GridIds  == {0, 2}
SM_Query    == {3, 13}
SM_Cuts     == {3, 50}
=============================================================================
