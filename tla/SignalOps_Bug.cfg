SPECIFICATION Spec
CONSTANTS
  MaxOps = 3
  MaxObjs = 3
  MaxSeries = 1
  InPlaceDelay = TRUE
  Biases <- SM_Biases
  Gains <- SM_Gains
  Delays <- SM_Delays
  Windows <- SM_Windows
  DWindows <- SM_DWindows
  RsdCfgs <- SM_RsdCfgs
  NearCfgs <- SM_NearCfgs
  GridIds <- SM_GridIds
  Methods <- MC_Methods
  QueryTimes <- SM_Query
  Cuts <- SM_Cuts
INVARIANT TypeOK
PROPERTY Purity
PROPERTY NoWriteToExisting
CHECK_DEADLOCK FALSE
