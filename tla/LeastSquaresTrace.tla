------------------------- MODULE LeastSquaresTrace -------------------------
\* Batch validation of recorded least_squares solves against LeastSquares.tla (DESIGN appendix H).
\* TRACE_FILE = JSON array of traces; trace = array of events
\*    {"op":"start","lo":[..],"hi":[..],"y0":k}  {"op":"eval","pts":[[..],..]}  {"op":"iterc","c":[..]}
\*    {"op":"itery","y":k}  {"op":"retx","x":[..]}  {"op":"rety","y":k}
\* An event is explained by the action of LeastSquares.tla of the same name (T* below).  An event whose CLAUSE
\* fails has no such action; so that the rest of the solve can still be examined it is consumed by the twin
\* V* step, which is enabled exactly when the clause is false, moves the control state like the lawful action,
\* records <<position, clause>> for the trace and leaves the histories untouched.  A trace is a behaviour of
\* LeastSquares.tla iff no V* step was needed.  Per trace the post-condition prints
\*    <<"TRACE", tid, events explained before the first V* step (or before getting stuck), length>>
\*    <<"BAD", tid, position, clause>>      clause: 1 eval  2 iterc  3 itery  4 retx  5 rety
EXTENDS LeastSquares, Json, IOUtils, TLCExt
Traces == JsonDeserialize(IOEnv.TRACE_FILE)
NT == Len(Traces)
VARIABLES tid, l
tvars == <<pc, lo, hi, y0, evald, ylog, ret, nev, tid, l>>
TInit == /\ tid \in 1..NT /\ TLCSet(tid, 0) /\ TLCSet(NT + tid, << >>) /\ l = 1 /\ Init
Cur == Traces[tid][l]
Consume == l <= Len(Traces[tid]) /\ l' = l + 1 /\ UNCHANGED tid
TStart == Consume /\ Cur.op = "start" /\ Start(Cur.lo, Cur.hi, Cur.y0)
TEval  == Consume /\ Cur.op = "eval"  /\ Eval(Cur.pts)
TIterC == Consume /\ Cur.op = "iterc" /\ IterC(Cur.c)
TIterY == Consume /\ Cur.op = "itery" /\ IterY(Cur.y)
TRetX  == Consume /\ Cur.op = "retx"  /\ RetX(Cur.x)
TRetY  == Consume /\ Cur.op = "rety"  /\ RetY(Cur.y)
\* ---- twins: the clause is false ---------------------------------------------------------------------------
Note(code) == IF \E k \in 1..Len(TLCGet(NT + tid)) : TLCGet(NT + tid)[k] = <<l, code>> THEN TRUE
              ELSE TLCSet(NT + tid, Append(TLCGet(NT + tid), <<l, code>>))
Goto(p) == pc' = p /\ nev' = nev + 1 /\ UNCHANGED <<lo, hi, y0, evald, ylog, ret>>
VEval  == /\ Consume /\ Cur.op = "eval" /\ pc = "run" /\ Len(Cur.pts) >= 1
          /\ ~(\A k \in 1..Len(Cur.pts) : InBox(Cur.pts[k]))
          /\ Goto("run") /\ Note(1)
VIterC == /\ Consume /\ Cur.op = "iterc" /\ pc = "run" /\ ~InBox(Cur.c)
          /\ Goto("logged") /\ Note(2)
VIterY == /\ Consume /\ Cur.op = "itery" /\ pc = "logged" /\ ylog # << >> /\ Cur.y > Last(ylog)
          /\ Goto("run") /\ Note(3)
VRetX  == /\ Consume /\ Cur.op = "retx" /\ pc = "run" /\ ~InBox(Cur.x)
          /\ Goto("retx") /\ Note(4)
VRetY  == /\ Consume /\ Cur.op = "rety" /\ pc = "retx" /\ Cur.y > y0
          /\ Goto("done") /\ Note(5)
TNext == \/ TStart \/ TEval \/ TIterC \/ TIterY \/ TRetX \/ TRetY
         \/ VEval \/ VIterC \/ VIterY \/ VRetX \/ VRetY
TSpec == TInit /\ [][TNext]_tvars
Track == IF l - 1 > TLCGet(tid) /\ TLCGet(NT + tid) = << >> THEN TLCSet(tid, l - 1) ELSE TRUE
Accepted == \A t \in 1..NT : TLCGet(t) = Len(Traces[t])
Report == /\ \A t \in 1..NT : PrintT(<<"TRACE", t, TLCGet(t), Len(Traces[t])>>)
          /\ \A t \in 1..NT : \A k \in 1..Len(TLCGet(NT + t)) :
                PrintT(<<"BAD", t, TLCGet(NT + t)[k][1], TLCGet(NT + t)[k][2]>>)
          /\ \A t \in 1..NT : PrintT(<<"END", t, TLCGet(NT + t) = << >>, Len(Traces[t])>>)
          /\ Accepted
=============================================================================
