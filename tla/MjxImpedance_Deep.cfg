SPECIFICATION Spec
CONSTANTS
  Kinds <- L_Kinds
  SolImps <- L_SIX
  SolRefs <- L_SRX
  Ms <- L_M
  Hs <- L_H
  Margins <- L_MgX
  Xs <- L_XX
  Vs <- L_VX
  Variant = "doc"
INVARIANT TypeOK
INVARIANT ImpInRange
INVARIANT StartIsDmin
INVARIANT SatIsDmax
INVARIANT BranchesMeet
INVARIANT MidSplit
INVARIANT KBStandard
INVARIANT KBDirect
INVARIANT ArefLaw
INVARIANT DLaw
INVARIANT UnilateralSign
CHECK_DEADLOCK FALSE
