SPECIFICATION Spec
CONSTANTS
  MaxBlocks = 1
  EqD <- S_D
  EqJ <- S_EqJ
  FrT <- S_FrT
  FrD <- S_D
  FrL <- S_FrL
  FrJ <- S_FrJ
  UnT <- S_UnT
  UnD <- S_D
  UnJ <- S_UnJ
  ElDim <- S_Dims
  ElMu <- S_Mu
  ElK <- S_K
  ElD <- S_D
  ElDir <- S_Dir
  ElA <- S_ElA
  ElT <- S_ElT
  CvA <- S_ElA
  CvT <- S_ElT
  Hs <- L_Hs
  Deep = TRUE
  Variant = "nohalf"
INVARIANT TypeOK
INVARIANT GradientOK
INVARIANT C1OK
INVARIANT ConvexOK
INVARIANT DualValueOK
INVARIANT AdmissibleOK
INVARIANT DualOptimalOK
INVARIANT HessianOK
INVARIANT LayoutOK
CHECK_DEADLOCK FALSE
