------------------------------ MODULE Actuation ------------------------------
\* C27 - actuation laws of MuJoCo (doc/computation "Actuation model", XMLreference actuator/general; implementation
\* src/engine/engine_forward.c: mj_fwdActuation, mj_advance; engine_support.c: mj_nextActivation) over exact rationals.
\*
\* A model = NJ slide joints (one body each) and NA actuators; actuator i drives joint jnt[i] through a gear, so its
\* length is gear*q, its velocity gear*v and its moment arm is gear.  Per actuator: ctrlrange, forcerange, actrange
\* (each optional), gain fixed|affine|muscle, bias none|affine|muscle, dynamics none|integrator|filter|muscle, actearly,
\* group.  Per joint: actuatorfrcrange (optional).  Options: clampctrl and actuation flags, disabled actuator groups.
\*
\* One evaluation runs the stages of the implementation, one action each:
\*     ClampCtrl -> ActDot -> Force -> ClampForce -> Transmit -> GravComp -> ClampJoint -> Advance (activation update)
\* Gravity compensation: a body with gravcomp c in gravity g (along the slide axis) receives the force - m g c; it is a
\* passive force unless the joint has actuatorgravcomp, in which case it is ADDED TO qfrc_actuator BEFORE the joint-level
\* clamp ("the total actuation force applied on a joint, including gravity compensation, is guaranteed to not exceed
\* the specified limits").
\* and `ev` of the last stage carries the whole case with the expected actuator_force, qfrc_actuator, act_dot and next act:
\* the oracle of the replay into mj_step.
\* Laws stated as invariants: controls inside ctrlrange unless clamping is disabled; forces inside forcerange; joint
\* forces inside actuatorfrcrange; disabled groups / disabled actuation produce no force; power balance
\* sum_j qfrc_j v_j = sum_i force_i velocity_i before the joint clamp (qfrc = moment' force); activations inside actrange
\* and frozen when disabled; muscle gain/bias inside their documented envelopes.
EXTENDS LawRat, TLC, FiniteSets

CONSTANTS NJs, NAs,            \* numbers of joints / actuators to choose from
          Presets, JPresets,   \* actuator / joint-limit preset names
          Us, Ws, Q0s, V0s,    \* lattices: ctrl, act, qpos, qvel
          Hs,                  \* timestep
          Clamps, Actuations,  \* subsets of BOOLEAN: clampctrl enabled, actuation enabled
          DisSets,             \* set of sets of disabled groups (groups are 0..2)
          Gravs,               \* gravity component along the slide axis (rationals; bodies have mass 1)
          Variant              \* "doc"; anything else = deliberately wrong law (negative control)

R(n, d) == Rt(n, d)
A0 == [dyn |-> "none", gt |-> "fixed", bt |-> "none", g0 |-> One, g1 |-> Zero, g2 |-> Zero, b0 |-> Zero, b1 |-> Zero,
       b2 |-> Zero, tau |-> One, clim |-> FALSE, clo |-> Zero, chi |-> Zero, flim |-> FALSE, flo |-> Zero, fhi |-> Zero,
       alim |-> FALSE, alo |-> Zero, ahi |-> Zero, early |-> FALSE, gear |-> One, group |-> 0,
       \* muscle parameters: scaled operating range, F0, lmin, lmax, vmax, fpmax, fvmax; lengthrange of the transmission;
       \* activation / deactivation time constants
       mr0 |-> R(3, 4), mr1 |-> R(5, 4), mF |-> One, mlmin |-> R(1, 2), mlmax |-> R(3, 2), mvmax |-> RI(2),
       mfpmax |-> R(3, 2), mfvmax |-> R(5, 4), lr0 |-> Zero, lr1 |-> One, mta |-> R(1, 8), mtd |-> R(1, 4)]
Preset(nm) ==
  CASE nm = "motor"     -> [A0 EXCEPT !.g0 = RI(3)]
    [] nm = "motorcl"   -> [A0 EXCEPT !.g0 = RI(2), !.clim = TRUE, !.clo = R(-1, 2), !.chi = One, !.gear = RI(2), !.group = 1]
    [] nm = "motorfl"   -> [A0 EXCEPT !.g0 = RI(3), !.flim = TRUE, !.flo = R(-1, 2), !.fhi = One]
    [] nm = "motorfpos" -> [A0 EXCEPT !.g0 = One, !.flim = TRUE, !.flo = R(1, 2), !.fhi = RI(2), !.group = 1]
    [] nm = "neggear"   -> [A0 EXCEPT !.g0 = One, !.bt = "affine", !.b0 = R(1, 2), !.gear = R(-3, 2), !.group = 2]
    [] nm = "position"  -> [A0 EXCEPT !.g0 = RI(2), !.bt = "affine", !.b1 = RI(-2), !.b2 = R(-1, 2), !.clim = TRUE,
                                      !.clo = RI(-1), !.chi = One, !.flim = TRUE, !.flo = RI(-3), !.fhi = RI(3)]
    [] nm = "velocity"  -> [A0 EXCEPT !.g0 = R(1, 2), !.bt = "affine", !.b2 = R(-1, 2), !.gear = RI(2), !.group = 1]
    [] nm = "affine"    -> [A0 EXCEPT !.gt = "affine", !.g0 = One, !.g1 = R(1, 2), !.g2 = R(-1, 4), !.bt = "affine",
                                      !.b0 = R(-1, 2), !.b1 = One, !.flim = TRUE, !.flo = RI(-2), !.fhi = R(3, 2), !.group = 2]
    [] nm = "integ"     -> [A0 EXCEPT !.dyn = "integrator", !.g0 = RI(2), !.alim = TRUE, !.alo = RI(-1), !.ahi = One,
                                      !.clim = TRUE, !.clo = RI(-2), !.chi = One]
    [] nm = "intvel"    -> [A0 EXCEPT !.dyn = "integrator", !.g0 = One, !.bt = "affine", !.b1 = RI(-1), !.b2 = R(-1, 2),
                                      !.early = TRUE, !.alim = TRUE, !.alo = R(-1, 2), !.ahi = R(3, 4), !.group = 1]
    [] nm = "filter"    -> [A0 EXCEPT !.dyn = "filter", !.g0 = RI(2), !.tau = R(1, 2), !.flim = TRUE, !.flo = RI(-1), !.fhi = One]
    [] nm = "filterearly" -> [A0 EXCEPT !.dyn = "filter", !.gt = "affine", !.g0 = One, !.g2 = R(1, 2), !.tau = R(1, 4),
                                        !.early = TRUE, !.alim = TRUE, !.alo = R(-1, 2), !.ahi = R(1, 2), !.gear = RI(2), !.group = 2]
    [] nm = "muscle"    -> [A0 EXCEPT !.dyn = "muscle", !.gt = "muscle", !.bt = "muscle", !.clim = TRUE, !.clo = Zero, !.chi = One]
    [] nm = "musclefl"  -> [A0 EXCEPT !.dyn = "muscle", !.gt = "muscle", !.bt = "muscle", !.mF = RI(4), !.flim = TRUE,
                                      !.flo = RI(-2), !.fhi = Zero, !.gear = RI(-1), !.lr0 = RI(-1), !.lr1 = One, !.group = 1]
AllPresets == {"motor", "motorcl", "motorfl", "motorfpos", "neggear", "position", "velocity", "affine", "integ", "intvel",
               "filter", "filterearly", "muscle", "musclefl"}
PresetOf == [nm \in AllPresets |-> Preset(nm)]
\* joint presets: actuatorfrcrange, gravcomp of the joint's body, actuatorgravcomp flag
JPreset(nm) == CASE nm = "free" -> [lim |-> FALSE, lo |-> Zero, hi |-> Zero, gc |-> Zero, agc |-> FALSE]
                 [] nm = "sym"  -> [lim |-> TRUE, lo |-> RI(-1), hi |-> One, gc |-> Zero, agc |-> FALSE]
                 [] nm = "asym" -> [lim |-> TRUE, lo |-> R(-1, 2), hi |-> RI(3), gc |-> Zero, agc |-> FALSE]
                 [] nm = "pos"  -> [lim |-> TRUE, lo |-> R(1, 4), hi |-> RI(2), gc |-> Zero, agc |-> FALSE]
                 [] nm = "asymgc"  -> [lim |-> TRUE, lo |-> R(-1, 2), hi |-> RI(3), gc |-> One, agc |-> TRUE]
                 [] nm = "symgc"   -> [lim |-> TRUE, lo |-> RI(-1), hi |-> One, gc |-> R(3, 2), agc |-> TRUE]
                 [] nm = "freegc"  -> [lim |-> FALSE, lo |-> Zero, hi |-> Zero, gc |-> R(1, 2), agc |-> TRUE]
                 [] nm = "asympas" -> [lim |-> TRUE, lo |-> R(-1, 2), hi |-> RI(3), gc |-> One, agc |-> FALSE]
Stateful(a) == a.dyn # "none"

VARIABLES cfg,    \* [na, nj, acts : sequence of [pre, jnt], jl : sequence of joint preset names, h, clamp, actuation, dis]
          st,     \* [q, v : per joint;  w, u : per actuator]
          uc, wdot, frc, qf, w2,   \* stage results: clamped ctrl, act_dot, actuator_force, qfrc_actuator, next act
          pc, k,  \* stage and the index of the element being set up
          ev
vars == <<cfg, st, uc, wdot, frc, qf, w2, pc, k, ev>>

A(i)  == PresetOf[cfg.acts[i].pre]
J(i)  == cfg.acts[i].jnt
JL(j) == JPreset(cfg.jl[j])
Acts  == 1..cfg.na
Jnts  == 1..cfg.nj
Disabled(i) == A(i).group \in cfg.dis
ZeroSeq(m) == [i \in 1..m |-> Zero]

\* ---- setup: compile a model, write options, write state -----------------------------------------------------
Init == /\ cfg = [na |-> 0, nj |-> 0, acts |-> << >>, jl |-> << >>, h |-> One, clamp |-> TRUE, actuation |-> TRUE, dis |-> {},
                  grav |-> Zero]
        /\ st = [q |-> << >>, v |-> << >>, w |-> << >>, u |-> << >>]
        /\ uc = << >> /\ wdot = << >> /\ frc = << >> /\ qf = << >> /\ w2 = << >>
        /\ pc = "layout" /\ k = 0 /\ ev = [op |-> "init"]
Keep == UNCHANGED <<uc, wdot, frc, qf, w2>>

PickLayout == /\ pc = "layout"
              /\ \E nj \in NJs, na \in NAs : cfg' = [cfg EXCEPT !.nj = nj, !.na = na]
              /\ pc' = "actuator" /\ k' = 1 /\ ev' = [op |-> "layout"] /\ Keep /\ UNCHANGED st
PickActuator == /\ pc = "actuator"
                /\ \E nm \in Presets, j \in Jnts : cfg' = [cfg EXCEPT !.acts = Append(@, [pre |-> nm, jnt |-> j])]
                /\ IF k < cfg.na THEN k' = k + 1 /\ pc' = pc ELSE k' = 1 /\ pc' = "joint"
                /\ ev' = [op |-> "actuator"] /\ Keep /\ UNCHANGED st
PickJoint == /\ pc = "joint"
             /\ \E nm \in JPresets, q \in Q0s, v \in V0s :
                  /\ cfg' = [cfg EXCEPT !.jl = Append(@, nm)]
                  /\ st' = [st EXCEPT !.q = Append(@, q), !.v = Append(@, v)]
             /\ IF k < cfg.nj THEN k' = k + 1 /\ pc' = pc ELSE k' = 1 /\ pc' = "options"
             /\ ev' = [op |-> "joint"] /\ Keep
PickOptions == /\ pc = "options"
               /\ \E h \in Hs, cl \in Clamps, ac \in Actuations, ds \in DisSets, g \in Gravs :
                    cfg' = [cfg EXCEPT !.h = h, !.clamp = cl, !.actuation = ac, !.dis = ds, !.grav = g]
               /\ pc' = "input" /\ k' = 1 /\ ev' = [op |-> "options"] /\ Keep /\ UNCHANGED st
PickInput == /\ pc = "input"
             /\ \E u \in Us, w \in (IF Stateful(A(k)) THEN Ws ELSE {Zero}) :
                  /\ (A(k).alim => Le(A(k).alo, w) /\ Le(w, A(k).ahi))      \* act starts inside actrange
                  /\ st' = [st EXCEPT !.u = Append(@, u), !.w = Append(@, w)]
             /\ IF k < cfg.na THEN k' = k + 1 /\ pc' = pc ELSE k' = 0 /\ pc' = "clamp"
             /\ ev' = [op |-> "input"] /\ Keep /\ UNCHANGED cfg

\* ---- the actuation pipeline --------------------------------------------------------------------------------
ClampCtrl == /\ pc = "clamp"
             /\ uc' = [i \in Acts |-> IF cfg.clamp /\ A(i).clim THEN Clip(st.u[i], A(i).clo, A(i).chi) ELSE st.u[i]]
             /\ pc' = "actdot" /\ ev' = [op |-> "clamp"] /\ UNCHANGED <<cfg, st, wdot, frc, qf, w2, k>>

\* muscle activation dynamics (hard switching): d act/dt = (clip(ctrl,0,1) - act) / tau(ctrl, act)
MuscleDyn(a, ctrl, act) ==
  LET cc == Clip(ctrl, Zero, One)
      ac == Clip(act, Zero, One)
      sc == Add(R(1, 2), Mul(R(3, 2), ac))
      dc == Sub(cc, act)
      tau == IF Pos(dc) THEN Mul(a.mta, sc) ELSE Div(a.mtd, sc)
  IN Div(dc, tau)

ActDotOf(i) == LET a == A(i) IN
  CASE a.dyn = "none" -> Zero
    [] a.dyn = "integrator" -> uc[i]
    [] a.dyn = "filter" -> Div(Sub(uc[i], st.w[i]), a.tau)
    [] a.dyn = "muscle" -> MuscleDyn(a, uc[i], st.w[i])
ActDot == /\ pc = "actdot"
          /\ wdot' = [i \in Acts |-> IF cfg.actuation THEN ActDotOf(i) ELSE Zero]    \* disabled actuation: not computed
          /\ pc' = "force" /\ ev' = [op |-> "actdot"] /\ UNCHANGED <<cfg, st, uc, frc, qf, w2, k>>

NextAct(i, wd) == LET a == A(i)
                      y == Add(st.w[i], Mul(cfg.h, wd)) IN
                  IF a.alim THEN Clip(y, a.alo, a.ahi) ELSE y

\* muscle force-length-velocity curves (doc/modeling "Muscles", FLV.m): scaled length L, scaled velocity V
MuscleL0(a)    == Div(Sub(a.lr1, a.lr0), Sub(a.mr1, a.mr0))
MuscleL(a, len) == Add(a.mr0, Div(Sub(len, a.lr0), MuscleL0(a)))
MuscleFL(a, L) ==
  IF Lt(L, a.mlmin) \/ Lt(a.mlmax, L) THEN Zero
  ELSE LET am == Mul(R(1, 2), Add(a.mlmin, One))
           bm == Mul(R(1, 2), Add(One, a.mlmax))
           H(x) == Mul(R(1, 2), Sq(x)) IN
       IF Le(L, am) THEN H(Div(Sub(L, a.mlmin), Sub(am, a.mlmin)))
       ELSE IF Le(L, One) THEN Sub(One, H(Div(Sub(One, L), Sub(One, am))))
       ELSE IF Le(L, bm) THEN Sub(One, H(Div(Sub(L, One), Sub(bm, One))))
       ELSE H(Div(Sub(a.mlmax, L), Sub(a.mlmax, bm)))
MuscleFV(a, V) ==
  LET y == Sub(a.mfvmax, One) IN
  IF Le(V, RI(-1)) THEN Zero
  ELSE IF Le(V, Zero) THEN Sq(Add(V, One))
  ELSE IF Le(V, y) THEN Sub(a.mfvmax, Div(Sq(Sub(y, V)), y))
  ELSE a.mfvmax
MuscleFP(a, L) ==
  LET bm == Mul(R(1, 2), Add(One, a.mlmax)) IN
  IF Le(L, One) THEN Zero
  ELSE IF Le(L, bm) THEN Mul(Mul(a.mfpmax, R(1, 2)), Sq(Div(Sub(L, One), Sub(bm, One))))
  ELSE Mul(a.mfpmax, Add(R(1, 2), Div(Sub(L, bm), Sub(bm, One))))
MuscleGain(a, len, vel) == Neg(Mul3(a.mF, MuscleFL(a, MuscleL(a, len)), MuscleFV(a, Div(vel, Mul(MuscleL0(a), a.mvmax)))))
MuscleBias(a, len)      == Neg(Mul(a.mF, MuscleFP(a, MuscleL(a, len))))

ForceOf(i) ==
  LET a   == A(i)
      len == Mul(a.gear, st.q[J(i)])
      vel == Mul(a.gear, st.v[J(i)])
      inp == IF ~Stateful(a) THEN uc[i] ELSE IF a.early THEN NextAct(i, wdot[i]) ELSE st.w[i]
      gain == CASE a.gt = "fixed" -> a.g0
                [] a.gt = "affine" -> Add3(a.g0, Mul(a.g1, len), Mul(a.g2, vel))
                [] a.gt = "muscle" -> MuscleGain(a, len, vel)
      bias == CASE a.bt = "none" -> Zero
                [] a.bt = "affine" -> Add3(a.b0, Mul(a.b1, len), Mul(a.b2, vel))
                [] a.bt = "muscle" -> MuscleBias(a, len)
  IN Add(Mul(gain, inp), bias)
Force == /\ pc = "force"
         /\ frc' = [i \in Acts |-> IF cfg.actuation /\ ~Disabled(i) THEN ForceOf(i) ELSE Zero]
         /\ pc' = "fclamp" /\ ev' = [op |-> "force"] /\ UNCHANGED <<cfg, st, uc, wdot, qf, w2, k>>

ClampForce == /\ pc = "fclamp"
              /\ frc' = [i \in Acts |-> IF cfg.actuation /\ ~Disabled(i) /\ A(i).flim /\ Variant # "noforceclamp"
                                        THEN Clip(frc[i], A(i).flo, A(i).fhi) ELSE frc[i]]
              /\ pc' = "transmit" /\ ev' = [op |-> "fclamp"] /\ UNCHANGED <<cfg, st, uc, wdot, qf, w2, k>>

RECURSIVE SumOver(_, _)
SumOver(F(_), S) == IF S = {} THEN Zero ELSE LET i == CHOOSE z \in S : TRUE IN Add(F(i), SumOver(F, S \ {i}))
Transmit == /\ pc = "transmit"
            /\ qf' = [j \in Jnts |-> LET T(i) == Mul(IF Variant = "gearsquared" THEN Sq(A(i).gear) ELSE A(i).gear, frc[i])
                                     IN SumOver(T, {i \in Acts : J(i) = j})]
            /\ pc' = "gravcomp" /\ ev' = [op |-> "transmit", pre |-> qf'] /\ UNCHANGED <<cfg, st, uc, wdot, frc, w2, k>>

\* gravity compensation force on the dof of joint j (unit mass, gravity along the joint axis)
GravCompOf(j) == Neg(Mul(cfg.grav, JL(j).gc))
\* actuator-level gravity compensation: joints with actuatorgravcomp receive it through qfrc_actuator
GravComp == /\ pc = "gravcomp"
            /\ qf' = [j \in Jnts |-> IF cfg.actuation /\ JL(j).agc /\ Variant # "clampbeforegravcomp"
                                     THEN Add(qf[j], GravCompOf(j)) ELSE qf[j]]
            /\ pc' = "jclamp" /\ ev' = [op |-> "gravcomp"] /\ UNCHANGED <<cfg, st, uc, wdot, frc, w2, k>>

ClampJoint == /\ pc = "jclamp"
              /\ qf' = [j \in Jnts |-> LET c == IF cfg.actuation /\ JL(j).lim THEN Clip(qf[j], JL(j).lo, JL(j).hi) ELSE qf[j] IN
                                       IF cfg.actuation /\ JL(j).agc /\ Variant = "clampbeforegravcomp"
                                       THEN Add(c, GravCompOf(j)) ELSE c]
              /\ pc' = "advance" /\ ev' = [op |-> "jclamp", pre |-> qf] /\ UNCHANGED <<cfg, st, uc, wdot, frc, w2, k>>

Advance == /\ pc = "advance"
           /\ w2' = [i \in Acts |-> IF ~Stateful(A(i)) \/ ~cfg.actuation THEN st.w[i]
                                    ELSE NextAct(i, IF Disabled(i) THEN Zero ELSE wdot[i])]
           /\ pc' = "done"
           /\ ev' = [op |-> "step", cfg |-> cfg, acts |-> [i \in Acts |-> A(i)], jl |-> [j \in Jnts |-> JL(j)],
                     st |-> st, frc |-> frc, qf |-> qf, wdot |-> wdot, w2 |-> w2',
                     qgc |-> [j \in Jnts |-> GravCompOf(j)],                                  \* qfrc_gravcomp
                     qpas |-> [j \in Jnts |-> IF JL(j).agc THEN Zero ELSE GravCompOf(j)]]      \* qfrc_passive
           /\ UNCHANGED <<cfg, st, uc, wdot, frc, qf, k>>

Next == PickLayout \/ PickActuator \/ PickJoint \/ PickOptions \/ PickInput
        \/ ClampCtrl \/ ActDot \/ Force \/ ClampForce \/ Transmit \/ GravComp \/ ClampJoint \/ Advance
Spec == Init /\ [][Next]_vars

\* ---- properties -------------------------------------------------------------------------------------------
After(stages) == pc \in stages
InRange(x, lo, hi) == Le(lo, x) /\ Le(x, hi)
TypeOK == /\ pc \in {"layout", "actuator", "joint", "options", "input", "clamp", "actdot", "force", "fclamp", "transmit",
                     "gravcomp", "jclamp", "advance", "done"}
          /\ Len(cfg.acts) <= cfg.na /\ Len(cfg.jl) <= cfg.nj
\* controls are clamped to ctrlrange unless clamping is disabled (and otherwise untouched)
CtrlClamped == After({"actdot", "force", "fclamp", "transmit", "gravcomp", "jclamp", "advance", "done"}) =>
                 \A i \in Acts : IF cfg.clamp /\ A(i).clim
                                 THEN InRange(uc[i], A(i).clo, A(i).chi) /\ (InRange(st.u[i], A(i).clo, A(i).chi) => uc[i] = st.u[i])
                                 ELSE uc[i] = st.u[i]
\* actuator forces are inside forcerange
ForceInRange == After({"transmit", "gravcomp", "jclamp", "advance", "done"}) =>
                  \A i \in Acts : A(i).flim /\ cfg.actuation /\ ~Disabled(i) => InRange(frc[i], A(i).flo, A(i).fhi)
\* joint-level force range
JointInRange == After({"advance", "done"}) =>
                  \A j \in Jnts : JL(j).lim /\ cfg.actuation => InRange(qf[j], JL(j).lo, JL(j).hi)
\* disabled groups and disabled actuation produce no force, and freeze the activation (up to the actrange clamp)
DisabledNoForce == After({"fclamp", "transmit", "gravcomp", "jclamp", "advance", "done"}) =>
                     \A i \in Acts : (Disabled(i) \/ ~cfg.actuation) => frc[i] = Zero
ActuationOffNoJointForce == After({"jclamp", "advance", "done"}) /\ ~cfg.actuation => \A j \in Jnts : qf[j] = Zero
DisabledFrozen == pc = "done" => \A i \in Acts :
                     /\ (~cfg.actuation => w2[i] = st.w[i])
                     /\ (Disabled(i) /\ Stateful(A(i)) /\ cfg.actuation => w2[i] = NextAct(i, Zero))
\* qfrc_actuator = moment' * force, stated as the power balance it implies (before the joint clamp)
PowerBalance == pc = "gravcomp" =>
                  LET PJ(j) == Mul(qf[j], st.v[j])
                      PA(i) == Mul(frc[i], Mul(A(i).gear, st.v[J(i)])) IN
                  SumOver(PJ, Jnts) = SumOver(PA, Acts)
\* with actuatorgravcomp the joint force before the clamp is the transmitted force plus the compensation, and the
\* compensation is then not a passive force (it is never counted twice)
GravCompRouted == pc = "jclamp" /\ ev.op = "gravcomp" /\ cfg.actuation =>
                    \A j \in Jnts : (JL(j).agc /\ (\A i \in Acts : J(i) # j)) => qf[j] = GravCompOf(j)
\* a joint nobody drives gets no actuator force
Undriven == After({"gravcomp"}) => \A j \in Jnts : (\A i \in Acts : J(i) # j) => qf[j] = Zero
\* activations stay within actrange
ActInRange == pc = "done" => \A i \in Acts : A(i).alim => InRange(w2[i], A(i).alo, A(i).ahi)
\* the joint clamp changes a joint force only when it is outside the range
JointClampMinimal == pc = "advance" /\ ev.op = "jclamp" =>
                       \A j \in Jnts : (JL(j).lim /\ InRange(ev.pre[j], JL(j).lo, JL(j).hi)) \/ ~JL(j).lim => qf[j] = ev.pre[j]
\* muscles: the active gain lies in [-F0 fvmax, 0], the passive force pulls (<= 0), activation rate has the sign of the
\* excess excitation
MuscleEnvelope == pc = "fclamp" =>
                    \A i \in Acts : A(i).gt = "muscle" =>
                      LET a == A(i)
                          len == Mul(a.gear, st.q[J(i)])
                          vel == Mul(a.gear, st.v[J(i)]) IN
                      /\ InRange(MuscleGain(a, len, vel), Neg(Mul(a.mF, a.mfvmax)), Zero)
                      /\ Le(MuscleBias(a, len), Zero)
                      /\ (cfg.actuation => ~Lt(Mul(wdot[i], Sub(Clip(uc[i], Zero, One), st.w[i])), Zero))
\* the length curve is continuous at its breakpoints and peaks at the optimal length
MuscleCurveOK == \A nm \in {"muscle", "musclefl"} :
                   LET a == PresetOf[nm]
                       am == Mul(R(1, 2), Add(a.mlmin, One))
                       bm == Mul(R(1, 2), Add(One, a.mlmax)) IN
                   /\ MuscleFL(a, One) = One /\ MuscleFL(a, a.mlmin) = Zero /\ MuscleFL(a, a.mlmax) = Zero
                   /\ MuscleFL(a, am) = R(1, 2) /\ MuscleFL(a, bm) = R(1, 2)
                   /\ MuscleFV(a, Zero) = One /\ MuscleFV(a, RI(-1)) = Zero /\ MuscleFV(a, Sub(a.mfvmax, One)) = a.mfvmax
                   /\ MuscleFP(a, One) = Zero /\ MuscleFP(a, bm) = Mul(a.mfpmax, R(1, 2))

ViewNoEv == <<cfg, st, uc, wdot, frc, qf, w2, pc, k>>
\* ---- lattices for the configurations ---------------------------------------------------------------------------
L_One == {1}                 L_OneTwo == {1, 2}          L_Two == {2}            L_TwoThree == {2, 3}
L_JFree == {"free"}          L_JAll == {"free", "sym", "asym", "pos", "asymgc", "symgc", "freegc", "asympas"}
L_JQ == {"free", "asym", "asymgc"}               L_JP == {"free", "asym"}       L_JG == {"asymgc", "asympas"}
L_G0 == {Zero}               L_G1 == {RI(-2)}            L_GX == {Zero, RI(-2), RI(3)}
L_U == {RI(-2), R(-1, 2), R(1, 4), RI(2)}               L_UX == {RI(-3), RI(-2), RI(-1), R(-1, 2), Zero, R(1, 4), R(1, 2), One, RI(2)}
L_W == {R(-1, 2), R(1, 4)}   L_WX == {RI(-1), R(-1, 2), Zero, R(1, 4), R(1, 2), R(3, 4), One}
L_Q1 == {R(1, 2)}            L_V1 == {R(-1, 2)}
L_Q == {RI(-1), R(1, 2)}     L_QX == {RI(-1), R(-1, 4), Zero, R(1, 2), R(3, 4), One, RI(2)}
L_V == {R(-1, 2), One}       L_VX == {RI(-4), RI(-1), R(-1, 2), Zero, R(1, 4), One, RI(3)}
L_H == {R(1, 4)}             L_HX == {R(1, 4), R(1, 8), R(1, 2)}
L_Bool == BOOLEAN            L_True == {TRUE}
L_U7 == {RI(-3), RI(-2), R(-1, 2), Zero, R(1, 4), One, RI(2)}   L_W3 == {R(-1, 2), R(1, 4), One}   L_Dis3 == {{}, {1}, {0, 1, 2}}
L_Dis0 == {{}}               L_DisQ == {{}, {1}}         L_DisAll == {{}, {0}, {1}, {2}, {1, 2}, {0, 1, 2}}
L_PQ == {"motorcl", "motorfpos", "position", "affine", "intvel", "filterearly", "muscle"}
L_P4 == {"motorfl", "neggear", "velocity", "integ"}
=============================================================================
