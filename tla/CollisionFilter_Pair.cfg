SPECIFICATION Spec
CONSTANTS
  MaxBodies = 2
  MaxGeoms = 3
  PerBody = 1
  MaxPairs = 2
  MaxExcl = 0
  MaxOps = 0
  BodyKinds <- Pair_Kinds
  Radii <- Pair_Radii
  Xs <- Pair_Xs
  Zs <- Pair_Zs
  Masks <- Pair_Masks
  Margins <- Pair_Margins
  PairMargins <- Pair_PairMargins
  Moves <- Pair_Moves
  Toggles <- Pair_Toggles
INVARIANT TypeOK
INVARIANT ContactsAreExpected
INVARIANT BroadComplete
INVARIANT CandidatesNear
INVARIANT NoContactWhenDisabled
INVARIANT NoSelfContact
CHECK_DEADLOCK FALSE
