---------------------------- MODULE XmlRoundTrip ----------------------------
\* C32: saving a compiled model as MJCF and compiling the saved text gives the same model.
\*
\* Abstract model of what the MJCF writer (src/xml/xml_native_writer.cc) and reader
\* (src/xml/xml_native_reader.cc) do to the STRUCTURE of a model:
\*   * default classes: a tree of classes, each a full table kind x attribute -> value that was copied from its
\*     parent when the class was created (mjs_addDefault); the writer emits, per class, the entries that differ
\*     from the parent's current table; the reader rebuilds child = copy(parent) + written entries;
\*   * the body tree: bodies, frames and leaf elements (joint, geom, site, camera, light).  Every element
\*     carries the NAME of the class it was created from; an attribute is written iff it differs from that
\*     class's default; the class itself is written iff it differs from the class the reader will supply from
\*     the context (childclass of the enclosing body / frame);
\*   * frames: not part of the compiled model; written only when named or when they carry a childclass;
\*     children of a frame are emitted inside the frame element, AFTER the direct children of the body;
\*   * elements outside the tree (pair, equality, tendon, general, material ...): class written iff not "main";
\*   * keyframes: a sequence; the compiled model holds nkey of them in order;
\*   * numbers: "s1","s2" print exactly with 6 digits, "L" needs 17 digits, "N" is within 1e-12 of an integer.
\* Write produces an abstract document, Read resolves it back; the property is
\*       CompiledView(Read(Write(m))) = CompiledView(m)
\* exactly at full precision and up to the printed precision otherwise.
\*
\* The specification carries the intended ("ideal") writer and, as NAMED DEVIATIONS, what the code does instead:
\*   mainclass : the class attribute is suppressed whenever the element's class is "main", even when the
\*               context supplies another class (xml_native_writer.cc: `... && x->classname != "main"`);
\*   framectx  : the writer computes the context class from the element's immediate frame or else from the body
\*               (frame->classname.empty() ? body->classname), not from what the reader will see (omitted
\*               frames, frames without childclass nested in frames with one);
\*   order     : children that live in a frame are emitted after all direct children (and all frames at the
\*               first child body that has a frame) instead of in creation order;
\*   dropkey   : keyframes equal to the default state (unnamed, time 0) are not written, later keys move up
\*               (repaired in the repository; kept as a deviation that TLC can still attribute, see CurrentDevs);
\*   nearint   : numbers within 1e-12 of an integer are printed as that integer at any precision (isint()).
\* TLC decides that the ideal writer round-trips every model whose frames are contiguous (a model built through
\* the API may interleave members and non-members of a frame, which no single <frame> element can express), and
\* it computes, for every model, what the code is predicted to return (ev.code) and which deviations break it
\* (ev.lost).  The replay (checks/c32.py) builds each model through the mjSpec API, saves, parses, compiles and
\* compares the implementation with ev.model / ev.code.
EXTENDS Integers, Sequences, FiniteSets, TLC

CONSTANTS
  ClassSeq,     \* names of the non-main default classes, in the order they may be created, e.g. <<"c1","c2">>
  LeafKinds,    \* subset of {"joint","geom","site","camera","light"}
  TopKinds,     \* kinds outside the body tree that have default classes, e.g. {"pair","general"}
  Attrs,        \* abstract attributes; "i" is integer valued, the others real valued
  SetVals,      \* non-default values that may be set: subset of {"s1","s2","L","N"}
  MaxClasses, MaxNodes, MaxBodies, MaxFrames, MaxTops,
  MaxDefSets,   \* bound on the class-table entries that differ from the parent's
  MaxAttrSets,  \* bound on the element attributes that differ from the element's class default
  MaxKeys,
  Precs,        \* subset of {6, 17}
  FeatSeq,      \* optional model features outside the structural model (sensors, custom, assets ...)
  MaxFeats,
  MinSize,      \* Write is offered once the model has this many elements (0 in exhaustive runs; steers simulation)
  MinClasses,   \* elements are added once this many classes exist          (0 in exhaustive runs; steers simulation)
  Exclusive,    \* TRUE: only one of the sections tree / tops / keyframes / features is populated (sum, not product)
  MinNodes,     \* attributes, keyframes, features are added once this many tree nodes exist (0 in exhaustive runs)
  CodeDevs      \* the deviations attributed to the code

AllDevs == {"mainclass", "framectx", "order", "dropkey", "nearint"}
ASSUME CodeDevs \subseteq AllDevs
\* the deviations of the code as it stands: "dropkey" was repaired in the repository (fix c1e51b49a, default keys
\* are written as empty elements), the others are recorded as known findings
CurrentDevs == AllDevs \ {"dropkey"}

DefKinds == LeafKinds \cup TopKinds            \* kinds with an entry in every default class
ValKinds == LeafKinds \cup {"body"}            \* tree nodes that carry attribute values
KindRank(k) == CASE k = "joint" -> 1 [] k = "geom" -> 2 [] k = "site" -> 3 [] k = "camera" -> 4 [] k = "light" -> 5
                 [] OTHER -> 6
ValsFor(a) == IF a = "i" THEN SetVals \cap {"s1", "s2"} ELSE SetVals
AllD == [a \in Attrs |-> "d"]

VARIABLES
  defs,    \* class name -> [parent : class name or "", v : [DefKinds -> [Attrs -> value]]]
  dorder,  \* non-main classes in creation order
  nodes,   \* tree nodes in creation order: [t, up, cls, named, v]
  tops,    \* elements outside the tree: [k, cls, v]
  keys,    \* keyframes: [name, t]  (name = position of a named key, 0 for an unnamed one; t = its time)
  feats,   \* set of indices into FeatSeq
  phase,   \* "build" | "written" | "read"
  prec,    \* precision of the writer
  doc,     \* [ideal |-> document, code |-> document]
  ev       \* result of the round trip (phase "read")
vars == <<defs, dorder, nodes, tops, keys, feats, phase, prec, doc, ev>>

\* ---------------------------------------------------------------------------------------------------
\* tree helpers (ns: a node sequence; container 0 is the world body)
RECURSIVE OwnerOf(_, _)
OwnerOf(ns, c) == IF c = 0 THEN 0 ELSE IF ns[c].t = "body" THEN c ELSE OwnerOf(ns, ns[c].up)
FrameOf(ns, i) == IF ns[i].up # 0 /\ ns[ns[i].up].t = "frame" THEN ns[i].up ELSE 0
Owner(ns, i) == OwnerOf(ns, ns[i].up)
BodyCls(ns, b) == IF b = 0 THEN "main" ELSE ns[b].cls
Containers(ns) == {0} \cup {i \in 1..Len(ns) : ns[i].t \in {"body", "frame"}}
\* increasing sequence of the members of a finite set of naturals
RECURSIVE SortSet(_)
SortSet(S) == IF S = {} THEN << >> ELSE LET m == CHOOSE x \in S : \A y \in S : x <= y IN <<m>> \o SortSet(S \ {m})
RECURSIVE Concat(_)
Concat(ss) == IF ss = << >> THEN << >> ELSE Head(ss) \o Concat(Tail(ss))
ChildBodies(ns, b) == SortSet({c \in 1..Len(ns) : ns[c].t = "body" /\ Owner(ns, c) = b})
LeavesOf(ns, b, k) == SortSet({i \in 1..Len(ns) : ns[i].t = k /\ Owner(ns, i) = b})

\* ---------------------------------------------------------------------------------------------------
\* building a model (the mjSpec API)
Init ==
  /\ defs = [c \in {"main"} |-> [parent |-> "", v |-> [k \in DefKinds |-> AllD]]]
  /\ dorder = << >> /\ nodes = << >> /\ tops = << >> /\ keys = << >> /\ feats = {}
  /\ phase = "build" /\ prec = 0 /\ doc = << >> /\ ev = [op |-> "init"]

\* The model is built in stages - 1 classes, 2 elements, 3 attributes, 4 keyframes and features - so that every
\* model is reached by one canonical order of API calls (the round trip depends on the model only; an element
\* created before its class was edited is the same model as one whose attribute was set afterwards).
ParentTable(c) == IF c = "main" THEN [k \in DefKinds |-> AllD] ELSE defs[defs[c].parent].v
DefSets == Cardinality({q \in (DOMAIN defs) \X DefKinds \X Attrs : defs[q[1]].v[q[2]][q[3]] # ParentTable(q[1])[q[2]][q[3]]})
NodeDflt(n) == IF n.t \in LeafKinds THEN defs[n.cls].v[n.t] ELSE AllD
AttrSets == Cardinality({q \in (1..Len(nodes)) \X Attrs : nodes[q[1]].v[q[2]] # NodeDflt(nodes[q[1]])[q[2]]})
              + Cardinality({q \in (1..Len(tops)) \X Attrs : tops[q[1]].v[q[2]] # defs[tops[q[1]].cls].v[tops[q[1]].k][q[2]]})
ClassArgs == DOMAIN defs \cup {""}          \* "" is a NULL default pointer
Sections == (IF nodes # << >> THEN {"tree"} ELSE {}) \cup (IF tops # << >> THEN {"tops"} ELSE {})
              \cup (IF keys # << >> THEN {"keys"} ELSE {}) \cup (IF feats # {} THEN {"feats"} ELSE {})
Sect(x) == Exclusive => /\ Sections \subseteq {x}
                        /\ (x \in {"keys", "feats"} => dorder = << >> /\ DefSets = 0)  \* these sections ignore classes
Stage == IF keys # << >> \/ feats # {} THEN 4 ELSE IF AttrSets > 0 THEN 3 ELSE IF nodes # << >> \/ tops # << >> THEN 2 ELSE 1
Building(s) == /\ phase = "build" /\ UNCHANGED <<phase, prec, doc, ev>>
               /\ (s >= 2 => Len(dorder) >= MinClasses) /\ (s >= 3 => Len(nodes) >= MinNodes)

AddClass(p) ==              \* mjs_addDefault: the new class is a copy of its parent as it is now
  /\ Building(1) /\ Len(dorder) < MaxClasses /\ Len(dorder) < Len(ClassSeq) /\ p \in DOMAIN defs
  /\ LET c == ClassSeq[Len(dorder) + 1] IN
       /\ defs' = defs @@ (c :> [parent |-> p, v |-> defs[p].v])
       /\ dorder' = Append(dorder, c)
  /\ UNCHANGED <<nodes, tops, keys, feats>>

SetDef(c, k, a, x) ==       \* edit one default of a class
  /\ Building(1) /\ c \in DOMAIN defs /\ x # defs[c].v[k][a]
  /\ defs' = [defs EXCEPT ![c].v[k][a] = x]
  /\ Cardinality({q \in (DOMAIN defs) \X DefKinds \X Attrs :
                    defs'[q[1]].v[q[2]][q[3]] # (IF q[1] = "main" THEN AllD ELSE defs'[defs[q[1]].parent].v[q[2]])[q[3]]}) <= MaxDefSets
  /\ UNCHANGED <<dorder, nodes, tops, keys, feats>>

AddBody(up, c) ==           \* mjs_addBody(parent, def) [+ mjs_setFrame]
  /\ Building(2) /\ Sect("tree") /\ Len(nodes) < MaxNodes /\ up \in Containers(nodes) /\ c \in ClassArgs
  /\ Cardinality({i \in 1..Len(nodes) : nodes[i].t = "body"}) < MaxBodies
  /\ nodes' = Append(nodes, [t |-> "body", up |-> up, named |-> TRUE, v |-> AllD,
                             cls |-> IF c = "" THEN BodyCls(nodes, OwnerOf(nodes, up)) ELSE c])
  /\ UNCHANGED <<defs, dorder, tops, keys, feats>>
AddFrame(up, c, nm) ==      \* mjs_addFrame(body, parentframe) [+ mjs_setDefault]; a frame made by the API has class ""
  /\ Building(2) /\ Sect("tree") /\ Len(nodes) < MaxNodes /\ up \in Containers(nodes) /\ c \in ClassArgs
  /\ Cardinality({i \in 1..Len(nodes) : nodes[i].t = "frame"}) < MaxFrames
  /\ nodes' = Append(nodes, [t |-> "frame", up |-> up, named |-> nm, v |-> AllD, cls |-> c])
  /\ UNCHANGED <<defs, dorder, tops, keys, feats>>
AddLeaf(k, up, c) ==        \* mjs_addGeom(body, def) ... [+ mjs_setFrame]: values are copied from the class
  /\ Building(2) /\ Sect("tree") /\ Len(nodes) < MaxNodes /\ up \in Containers(nodes) /\ c \in ClassArgs
  /\ (k = "joint" => OwnerOf(nodes, up) # 0)
  /\ LET cl == IF c = "" THEN BodyCls(nodes, OwnerOf(nodes, up)) ELSE c IN
       nodes' = Append(nodes, [t |-> k, up |-> up, named |-> TRUE, v |-> defs[cl].v[k], cls |-> cl])
  /\ UNCHANGED <<defs, dorder, tops, keys, feats>>
AddTop(k, c) ==             \* mjs_addPair(spec, def) ...
  /\ Building(2) /\ Sect("tops") /\ Len(tops) < MaxTops /\ c \in ClassArgs
  /\ LET cl == IF c = "" THEN "main" ELSE c IN tops' = Append(tops, [k |-> k, cls |-> cl, v |-> defs[cl].v[k]])
  /\ UNCHANGED <<defs, dorder, nodes, keys, feats>>
SetAttr(i, a, x) ==         \* an attribute is set at most once, away from the value the element was created with
  /\ Building(3) /\ nodes[i].t \in ValKinds
  /\ nodes[i].v[a] = NodeDflt(nodes[i])[a] /\ x # nodes[i].v[a]
  /\ nodes' = [nodes EXCEPT ![i].v[a] = x]
  /\ UNCHANGED <<defs, dorder, tops, keys, feats>>
SetTop(j, a, x) ==
  /\ Building(3)
  /\ tops[j].v[a] = defs[tops[j].cls].v[tops[j].k][a] /\ x # tops[j].v[a]
  /\ tops' = [tops EXCEPT ![j].v[a] = x]
  /\ UNCHANGED <<defs, dorder, nodes, keys, feats>>
AddKey(nm, t) ==
  /\ Building(4) /\ Sect("keys") /\ Len(keys) < MaxKeys
  /\ keys' = Append(keys, [name |-> IF nm THEN Len(keys) + 1 ELSE 0, t |-> t])
  /\ UNCHANGED <<defs, dorder, nodes, tops, feats>>
AddFeat(f) ==
  /\ Building(4) /\ Sect("feats") /\ Cardinality(feats) < MaxFeats /\ \A g \in feats : g < f
  /\ feats' = feats \cup {f}
  /\ UNCHANGED <<defs, dorder, nodes, tops, keys>>

\* ---------------------------------------------------------------------------------------------------
\* numbers: the token the writer prints for a value
W(x, p, dv) == IF x = "N" /\ ("nearint" \in dv \/ p = 6) THEN "I"
               ELSE IF x = "L" /\ p = 6 THEN "Lt" ELSE x
Canon(x) == IF x \in {"L", "Lt"} THEN "L" ELSE IF x \in {"N", "I"} THEN "N" ELSE x

\* ---------------------------------------------------------------------------------------------------
\* Write
\* default classes: entries that differ from the parent's table (the built-in table for "main")
ClassDoc(c, p, dv) ==
  [name |-> c, parent |-> defs[c].parent,
   diff |-> [ka \in {q \in DefKinds \X Attrs : defs[c].v[q[1]][q[2]] # ParentTable(c)[q[1]][q[2]]}
               |-> W(defs[c].v[ka[1]][ka[2]], p, dv)]]
\* attributes of a tree node / top element: those that differ from the default of ITS class
NodeAttrs(i, p, dv) ==
  LET n == nodes[i]
      dflt == IF n.t = "body" THEN AllD ELSE defs[n.cls].v[n.t] IN
  [a \in {b \in Attrs : n.v[b] # dflt[b]} |-> W(n.v[a], p, dv)]
TopDoc(j, p, dv) ==
  LET e == tops[j] IN
  [k |-> e.k, cattr |-> IF e.cls # "main" THEN e.cls ELSE "",
   attrs |-> [a \in {b \in Attrs : e.v[b] # defs[e.cls].v[e.k][b]} |-> W(e.v[a], p, dv)]]

\* class attribute of a leaf or body: wctx is the context the writer assumes
ClassAttr(i, wctx, dv) ==
  IF nodes[i].cls # wctx /\ ("mainclass" \in dv => nodes[i].cls # "main") THEN nodes[i].cls ELSE ""
\* frames: childclass written iff the frame has a class (and, in the code, that class is not "main");
\* a frame without name and without written childclass disappears, its content is hoisted
FrameAttr(f, dv) ==
  IF nodes[f].cls # "" /\ ("mainclass" \in dv => nodes[f].cls # "main") THEN nodes[f].cls ELSE ""
FrameOmitted(f, dv) == ~nodes[f].named /\ FrameAttr(f, dv) = ""
\* the context class the writer uses for the children of body b at frame level f (rctx: what the reader will use)
WCtx(b, f, rctx, dv) ==
  IF "framectx" \in dv THEN (IF f # 0 /\ nodes[f].cls # "" THEN nodes[f].cls ELSE BodyCls(nodes, b)) ELSE rctx

LevelLeaves(b, f) == {i \in 1..Len(nodes) : nodes[i].t \in LeafKinds /\ Owner(nodes, i) = b /\ FrameOf(nodes, i) = f}
LevelFrames(b, f) == SortSet({i \in 1..Len(nodes) : nodes[i].t = "frame" /\ Owner(nodes, i) = b /\ FrameOf(nodes, i) = f})
\* leaves of one level in the order the code emits them: joints, geoms, sites, cameras, lights, each in creation order
RECURSIVE SortLeavesCode(_)
SortLeavesCode(S) ==
  IF S = {} THEN << >>
  ELSE LET m == CHOOSE x \in S : \A y \in S : KindRank(nodes[x].t) < KindRank(nodes[y].t)
                                             \/ (KindRank(nodes[x].t) = KindRank(nodes[y].t) /\ x <= y)
       IN <<m>> \o SortLeavesCode(S \ {m})

\* Emit(b, f, rctx, enc, p, dv): document entries (in document order) for the content of body b at frame level f,
\* written inside element enc (node index of the body or written frame; 0 = worldbody) where the reader's
\* context class is rctx.  Entry: [n, enc, cattr, attrs].
RECURSIVE Emit(_, _, _, _, _, _)
EmitLeaf(i, b, f, rctx, enc, p, dv) ==
  <<[n |-> i, enc |-> enc, cattr |-> ClassAttr(i, WCtx(b, f, rctx, dv), dv), attrs |-> NodeAttrs(i, p, dv)]>>
EmitBody(c, b, f, rctx, enc, p, dv) ==
  LET ca == ClassAttr(c, WCtx(b, f, rctx, dv), dv) IN
  <<[n |-> c, enc |-> enc, cattr |-> ca, attrs |-> NodeAttrs(c, p, dv)]>>
    \o Emit(c, 0, IF ca # "" THEN ca ELSE rctx, c, p, dv)
EmitFrame(fr, b, rctx, enc, p, dv) ==
  IF FrameOmitted(fr, dv) THEN Emit(b, fr, rctx, enc, p, dv)
  ELSE LET fa == FrameAttr(fr, dv) IN
       <<[n |-> fr, enc |-> enc, cattr |-> fa, attrs |-> << >>]>>
         \o Emit(b, fr, IF fa # "" THEN fa ELSE rctx, fr, p, dv)
Emit(b, f, rctx, enc, p, dv) ==
  IF "order" \in dv
  THEN \* the code: leaves of this level by kind; then the child-body loop, which emits ALL frames of the level
       \* at the first child body (of any level) that sits in a frame, or at the end
       LET B == ChildBodies(nodes, b)
           F == LevelFrames(b, f)
           framed == {x \in 1..Len(B) : FrameOf(nodes, B[x]) # 0}
           pos == IF framed = {} THEN Len(B) ELSE CHOOSE x \in framed : \A y \in framed : x <= y
           bodiesIn(lo, hi) == Concat([x \in 1..(hi - lo + 1) |->
                                  IF FrameOf(nodes, B[lo + x - 1]) = f
                                  THEN EmitBody(B[lo + x - 1], b, f, rctx, enc, p, dv) ELSE << >>])
       IN Concat([x \in 1..Cardinality(LevelLeaves(b, f)) |->
                    EmitLeaf(SortLeavesCode(LevelLeaves(b, f))[x], b, f, rctx, enc, p, dv)])
          \o bodiesIn(1, pos)
          \o Concat([x \in 1..Len(F) |-> EmitFrame(F[x], b, rctx, enc, p, dv)])
          \o bodiesIn(pos + 1, Len(B))
  ELSE \* ideal: the children of the level in creation order
       LET C == SortSet({i \in 1..Len(nodes) : Owner(nodes, i) = b /\ FrameOf(nodes, i) = f})
       IN Concat([x \in 1..Len(C) |->
                    IF nodes[C[x]].t = "body" THEN EmitBody(C[x], b, f, rctx, enc, p, dv)
                    ELSE IF nodes[C[x]].t = "frame" THEN EmitFrame(C[x], b, rctx, enc, p, dv)
                    ELSE EmitLeaf(C[x], b, f, rctx, enc, p, dv)])

KeyIsDefault(k) == k.name = 0 /\ k.t = "d"
KeysDoc(dv) == IF "dropkey" \in dv THEN SelectSeq(keys, LAMBDA k : ~KeyIsDefault(k)) ELSE keys

DocOf(p, dv) ==
  [classes |-> [x \in 1..(Len(dorder) + 1) |-> ClassDoc(IF x = 1 THEN "main" ELSE dorder[x - 1], p, dv)],
   tree    |-> Emit(0, 0, "main", 0, p, dv),
   tops    |-> [j \in 1..Len(tops) |-> TopDoc(j, p, dv)],
   nkey    |-> Len(keys),
   keys    |-> [x \in 1..Len(KeysDoc(dv)) |-> [name |-> KeysDoc(dv)[x].name, t |-> W(KeysDoc(dv)[x].t, p, dv)]],
   feats   |-> feats]

Write(p) ==
  /\ phase = "build" /\ Len(nodes) + Len(tops) + Len(keys) + Cardinality(feats) > 0
  /\ Len(nodes) + Len(tops) + Len(keys) + Cardinality(feats) >= MinSize
  /\ phase' = "written" /\ prec' = p
  /\ doc' = [ideal |-> DocOf(p, {}), code |-> DocOf(p, CodeDevs)]
  /\ UNCHANGED <<defs, dorder, nodes, tops, keys, feats, ev>>

\* ---------------------------------------------------------------------------------------------------
\* Read (works on a document only)
\* class tables: child = copy(parent as read) + written entries; classes come parents first
RECURSIVE ReadDefs(_, _)
ReadDefs(cs, x) ==
  IF x = 0 THEN << >>
  ELSE LET prev == ReadDefs(cs, x - 1)
           c == cs[x]
           base == IF c.parent = "" THEN [k \in DefKinds |-> AllD] ELSE prev[c.parent]
       IN (c.name :> [k \in DefKinds |-> [a \in Attrs |->
                         IF <<k, a>> \in DOMAIN c.diff THEN c.diff[<<k, a>>] ELSE base[k][a]]]) @@ prev

\* position in the tree part of the entry for node n (0 when n = 0)
PosOf(tr, n) == IF n = 0 THEN 0 ELSE CHOOSE x \in 1..Len(tr) : tr[x].n = n
\* the class the reader gives entry x: its class attribute, else the class of the enclosing element
RECURSIVE RCls(_, _)
RCls(tr, x) == IF x = 0 THEN "main"
               ELSE IF tr[x].cattr # "" THEN tr[x].cattr ELSE RCls(tr, PosOf(tr, tr[x].enc))
\* the model the reader builds: nodes in document order; name = index of the node in the original model
ReadTree(d) ==
  LET tr == d.tree
      rd == ReadDefs(d.classes, Len(d.classes)) IN
  [x \in 1..Len(tr) |->
     LET n == nodes[tr[x].n]
         cl == RCls(tr, x)
         dflt == IF n.t = "body" \/ n.t = "frame" THEN AllD ELSE rd[cl][n.t] IN
     [t |-> n.t, up |-> PosOf(tr, tr[x].enc), name |-> tr[x].n, cls |-> cl,
      v |-> [a \in Attrs |-> IF a \in DOMAIN tr[x].attrs THEN tr[x].attrs[a] ELSE dflt[a]]]]
ReadTops(d) ==
  LET rd == ReadDefs(d.classes, Len(d.classes)) IN
  [j \in 1..Len(d.tops) |->
     LET e == d.tops[j]
         cl == IF e.cattr # "" THEN e.cattr ELSE "main" IN
     [k |-> e.k, v |-> [a \in Attrs |-> IF a \in DOMAIN e.attrs THEN e.attrs[a] ELSE rd[cl][e.k][a]]]]
ReadKeys(d) == [x \in 1..d.nkey |-> IF x <= Len(d.keys) THEN d.keys[x] ELSE [name |-> 0, t |-> "d"]]

\* ---------------------------------------------------------------------------------------------------
\* what compilation keeps: bodies in depth-first order, the leaves of each kind body by body in creation order,
\* names, parents, values; frames and class names are not compiled
RECURSIVE DFS(_, _)
DFS(ns, b) == (IF b = 0 THEN << >> ELSE <<b>>)
                \o Concat([x \in 1..Len(ChildBodies(ns, b)) |-> DFS(ns, ChildBodies(ns, b)[x])])
NameOf(ns, i) == IF i = 0 THEN 0 ELSE ns[i].name
CompiledView(ns, tp, ks, fs) ==
  LET order == DFS(ns, 0) IN
  [bodies |-> [x \in 1..Len(order) |-> [name |-> ns[order[x]].name, parent |-> NameOf(ns, Owner(ns, order[x])),
                                        v |-> ns[order[x]].v]],
   leaves |-> [k \in LeafKinds |->
                 LET all == Concat([x \in 1..(Len(order) + 1) |-> LeavesOf(ns, IF x = 1 THEN 0 ELSE order[x - 1], k)]) IN
                 [x \in 1..Len(all) |-> [name |-> ns[all[x]].name, body |-> NameOf(ns, Owner(ns, all[x])), v |-> ns[all[x]].v]]],
   tops |-> tp, keys |-> ks, feats |-> fs]
Named(ns) == [x \in 1..Len(ns) |-> [t |-> ns[x].t, up |-> ns[x].up, name |-> x, cls |-> ns[x].cls, v |-> ns[x].v]]
ModelView == CompiledView(Named(nodes), [j \in 1..Len(tops) |-> [k |-> tops[j].k, v |-> tops[j].v]], keys, feats)
ViewOfDoc(d) == CompiledView(ReadTree(d), ReadTops(d), ReadKeys(d), d.feats)

CanonV(v) == [a \in DOMAIN v |-> Canon(v[a])]
CanonView(w) ==
  [bodies |-> [x \in DOMAIN w.bodies |-> [w.bodies[x] EXCEPT !.v = CanonV(@)]],
   leaves |-> [k \in DOMAIN w.leaves |-> [x \in DOMAIN w.leaves[k] |-> [w.leaves[k][x] EXCEPT !.v = CanonV(@)]]],
   tops |-> [j \in DOMAIN w.tops |-> [w.tops[j] EXCEPT !.v = CanonV(@)]],
   keys |-> [x \in DOMAIN w.keys |-> [w.keys[x] EXCEPT !.t = Canon(@)]], feats |-> w.feats]

\* frames are contiguous: once an element of body b is created outside frame fr after fr was created, nothing
\* more is created inside fr (a document can then list every frame as one element without reordering)
RECURSIVE InFrame(_, _)
InFrame(i, fr) == LET f == FrameOf(nodes, i) IN f # 0 /\ (f = fr \/ InFrame(f, fr))
Contiguous ==
  \A fr \in 1..Len(nodes) : nodes[fr].t = "frame" =>
    \A i, j \in (fr + 1)..Len(nodes) :
      (InFrame(i, fr) /\ ~InFrame(j, fr) /\ Owner(nodes, j) = Owner(nodes, fr) /\ j < i
         /\ (nodes[i].t = nodes[j].t \/ (nodes[i].t \in {"body"} /\ nodes[j].t \in {"body"}))) => FALSE

Read ==
  /\ phase = "written" /\ phase' = "read"
  /\ LET vi == ViewOfDoc(doc.ideal)
         vc == ViewOfDoc(doc.code) IN
     ev' = [op |-> "roundtrip", prec |-> prec, contiguous |-> Contiguous,
            model |-> ModelView, ideal |-> vi, code |-> vc,
            \* the deviations that, each alone, change what the ideal writer returns (computed when something is lost)
            lost  |-> IF vc = vi THEN {} ELSE {d \in CodeDevs : ViewOfDoc(DocOf(prec, {d})) # vi},
            \* what each of those deviations alone returns (to recognise an implementation that has only some of them)
            single |-> IF vc = vi THEN << >>
                       ELSE [d \in {e \in CodeDevs : ViewOfDoc(DocOf(prec, {e})) # vi} |-> ViewOfDoc(DocOf(prec, {d}))]]
  /\ doc' = << >>            \* the document is consumed
  /\ UNCHANGED <<defs, dorder, nodes, tops, keys, feats, prec>>

\* (the stage of the current model is computed once per state)
Next ==
  \/ /\ phase = "build"
     /\ LET st == Stage IN
        \/ /\ st <= 1
           /\ \/ \E p \in DOMAIN defs : AddClass(p)
              \/ \E c \in DOMAIN defs, k \in DefKinds, a \in Attrs : \E x \in ValsFor(a) \cup {"d"} : SetDef(c, k, a, x)
        \/ /\ st <= 2
           /\ \/ \E up \in Containers(nodes), c \in ClassArgs :
                   AddBody(up, c) \/ (\E nm \in BOOLEAN : AddFrame(up, c, nm)) \/ (\E k \in LeafKinds : AddLeaf(k, up, c))
              \/ \E k \in TopKinds, c \in ClassArgs : AddTop(k, c)
        \/ /\ st <= 3 /\ AttrSets < MaxAttrSets
           /\ \/ \E i \in 1..Len(nodes), a \in Attrs : \E x \in ValsFor(a) \cup {"d"} : SetAttr(i, a, x)
              \/ \E j \in 1..Len(tops), a \in Attrs : \E x \in ValsFor(a) \cup {"d"} : SetTop(j, a, x)
        \/ \E nm \in BOOLEAN, t \in {"d", "s1"} : AddKey(nm, t)
        \/ \E f \in 1..Len(FeatSeq) : AddFeat(f)
        \/ \E p \in Precs : Write(p)
  \/ Read
Spec == Init /\ [][Next]_vars

\* ---------------------------------------------------------------------------------------------------
\* properties
TypeOK ==
  /\ phase \in {"build", "written", "read"} /\ DefSets <= MaxDefSets /\ AttrSets <= MaxAttrSets
  /\ "main" \in DOMAIN defs /\ \A c \in DOMAIN defs : c = "main" \/ defs[c].parent \in DOMAIN defs
  /\ \A i \in 1..Len(nodes) : nodes[i].up < i /\ nodes[i].up \in Containers(nodes)
                               /\ (nodes[i].t # "frame" => nodes[i].cls \in DOMAIN defs)
\* the property: the ideal writer round-trips every model with contiguous frames, exactly at full precision ...
RoundTripExact ==
  (phase = "read" /\ ev.prec = 17 /\ ev.contiguous) => ev.ideal = ev.model
\* ... and to the printed precision otherwise
RoundTripPrinted ==
  (phase = "read" /\ ev.contiguous) => CanonView(ev.ideal) = CanonView(ev.model)
\* whatever the order of elements, nothing but the order is lost by the ideal writer
RoundTripUpToOrder ==
  phase = "read" =>
    /\ \A k \in LeafKinds :
         {CanonV(ev.ideal.leaves[k][x].v) : x \in DOMAIN ev.ideal.leaves[k]} = {CanonV(ev.model.leaves[k][x].v) : x \in DOMAIN ev.model.leaves[k]}
         /\ \A x \in DOMAIN ev.ideal.leaves[k] : \E y \in DOMAIN ev.model.leaves[k] :
              ev.model.leaves[k][y].name = ev.ideal.leaves[k][x].name /\ ev.model.leaves[k][y].body = ev.ideal.leaves[k][x].body
              /\ CanonV(ev.model.leaves[k][y].v) = CanonV(ev.ideal.leaves[k][x].v)
    /\ Len(ev.ideal.keys) = Len(ev.model.keys) /\ ev.ideal.feats = ev.model.feats
\* the class tables themselves survive an exact round trip
ClassesPreserved ==
  (phase = "written" /\ prec = 17) =>
    LET rd == ReadDefs(doc.ideal.classes, Len(doc.ideal.classes)) IN \A c \in DOMAIN defs : rd[c] = defs[c].v
\* whenever the code's prediction differs from the ideal result, a single deviation already explains it
LostExplains ==
  phase = "read" => ((ev.code = ev.ideal) <=> (ev.lost = {}))
\* NOT a property of the design: the code's writer round-trips (violated: negative control / spec-level finding)
CodeRoundTrips == (phase = "read" /\ ev.contiguous) => CanonView(ev.code) = CanonView(ev.model)
CodeRoundTripsAny == phase = "read" => CanonView(ev.code) = CanonView(ev.model)

\* ---------------------------------------------------------------------------------------------------
\* constants for the configurations
MC_Class1 == <<"c1">>
MC_Class2 == <<"c1", "c2">>
MC_NoFeats == << >>
MC_Feats == <<"pair", "exclude", "equality", "tendon", "actuator", "sensor", "custom", "asset", "mocap", "option", "size", "camlight",
              "inertial", "deform", "plugin", "dgeom", "djoint", "dsite", "dcamlight", "dpair", "dequality", "dtendon", "dtendon2",
              "dgeneral", "dmaterial", "meshlong", "hfieldlong", "settotalmass", "lengthrange", "inertiagroup", "balance">>
MC_LeafG == {"geom"}
MC_LeafGJ == {"geom", "joint"}
MC_LeafGS == {"geom", "site"}
MC_LeafAll == {"joint", "geom", "site", "camera", "light"}
MC_NoTops == {}
MC_TopsPG == {"pair", "general"}
MC_TopsAll4 == {"pair", "equality", "tendon", "general"}
MC_Leaf4 == {"joint", "geom", "site", "camera"}
MC_AttrA == {"a"}
MC_AttrAI == {"a", "i"}
MC_AttrABI == {"a", "b", "i"}
MC_Val1 == {"s1"}
MC_Val1N == {"s1", "N"}
MC_ValAll == {"s1", "s2", "L", "N"}
MC_P17 == {17}
MC_PBoth == {6, 17}
MC_NoDevs == {}
=============================================================================
