------------------------ MODULE AllocLifecycleTrace ------------------------
\* Batch validation of allocator traces recorded from the implementation (harness/alloc_drv.cc) against
\* AllocLifecycle: every recorded event must be explained by the action of the same name.  A trace that
\* cannot be continued is classified by the V_* action that matches the offending event; class and the API
\* call it is attributed to are kept in `bad`, copied to TLC registers and printed by the post-condition:
\*     <<"TRACE", tid, events explained, length>>      <<"WHY", tid, class, api>>
\* (template: DESIGN.md appendix H; needs -workers 1).
EXTENDS AllocLifecycle, Json, IOUtils, TLCExt
Traces == JsonDeserialize(IOEnv.TRACE_FILE)
NT == Len(Traces)
VARIABLES tid, l
tvars == <<live, gone, own, objs, call, leaked, born, taint, ncalls, ev, bad, tid, l>>
TInit == /\ tid \in 1..NT /\ TLCSet(tid, 0) /\ TLCSet(NT + tid, NoBad) /\ l = 1 /\ Init
Cur == Traces[tid][l]
Consume == l <= Len(Traces[tid]) /\ l' = l + 1 /\ UNCHANGED tid
Stuck   == l <= Len(Traces[tid]) /\ UNCHANGED <<tid, l>>
SeqSet(s) == {s[i] : i \in 1..Len(s)}
\* "owns":[{"o":x,"b":[..]},..]  ->  [x |-> {..}]
OwnsOf(e) == [x \in {e.owns[i].o : i \in 1..Len(e.owns)} |->
                UNION {SeqSet(e.owns[i].b) : i \in {j \in 1..Len(e.owns) : e.owns[j].o = x}}]

TCall  == Consume /\ Cur.op = "call" /\ Call(Cur.api, Cur.o, SeqSet(Cur.tg))
TAlloc == Consume /\ Cur.op = "alloc" /\ Alloc(Cur.p)
TAllocFail == Consume /\ Cur.op = "allocfail" /\ AllocFail
TFree  == Consume /\ Cur.op = "free" /\ Free(Cur.p)
TError == Consume /\ Cur.op = "error" /\ Error
TWarn  == Consume /\ Cur.op = "warn" /\ Warn
TRet   == Consume /\ Cur.op = "ret" /\ Ret(Cur.res, Cur.o, OwnsOf(Cur), SeqSet(Cur.dead))
TEnd   == Consume /\ Cur.op = "end" /\ End

\* classification of the first event that no good action explains
TViolation ==
  /\ Stuck
  /\ \/ Cur.op = "free" /\ (V_DoubleFree(Cur.p) \/ V_UnknownFree(Cur.p) \/ V_ForeignFree(Cur.p))
     \/ Cur.op \in {"alloc", "allocfail", "free", "error", "warn", "ret"} /\ V_OutsideCall
     \/ Cur.op \in {"alloc", "allocfail", "free", "error", "warn"} /\ V_AfterError
     \/ Cur.op = "alloc" /\ V_ReusedBlock(Cur.p)
     \/ Cur.op = "call" /\ V_BadCall(Cur.o, SeqSet(Cur.tg))
     \/ Cur.op = "ret" /\ LET o == Cur.o owns == OwnsOf(Cur) dead == SeqSet(Cur.dead) IN
                            \/ V_BadResult(Cur.res, o, owns, dead) \/ V_NotSurfaced(Cur.res, o, owns, dead)
                            \/ V_Orphan(Cur.res, o, owns, dead) \/ V_Left(Cur.res, o, owns, dead)
     \/ Cur.op = "end" /\ V_EndLeak

TNext == TCall \/ TAlloc \/ TAllocFail \/ TFree \/ TError \/ TWarn \/ TRet \/ TEnd \/ TViolation
TSpec == TInit /\ [][TNext]_tvars

\* registers: tid -> furthest position explained, NT + tid -> violation record
Track == /\ (IF l - 1 > TLCGet(tid) THEN TLCSet(tid, l - 1) ELSE TRUE)
         /\ (IF bad # NoBad THEN TLCSet(NT + tid, bad) ELSE TRUE)
Report == /\ \A t \in 1..NT : PrintT(<<"TRACE", t, TLCGet(t), Len(Traces[t])>>)
          /\ \A t \in 1..NT : (TLCGet(NT + t) # NoBad => PrintT(<<"WHY", t, TLCGet(NT + t).cls, TLCGet(NT + t).api>>))
TraceBlocks == 0..1000000
TraceObjs == 1..10000
=============================================================================
