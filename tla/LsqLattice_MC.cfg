SPECIFICATION Spec
CONSTANTS
  MinN = 1
  MaxN = 1
  Apis <- OnlyLS
  Families <- L_Families
  Modes <- A_Modes
  Jacs <- A_Jacs
  MaxIters <- A_MaxIters
  Boxes <- S_Boxes
  Starts <- S_Starts
  Targets <- S_Targets
  Slopes <- S_Slopes
  Scales <- S_Scales
  Shears <- NoShear
INVARIANT TypeOK
INVARIANT OptFeasible
INVARIANT OptIsBoundedMin
INVARIANT ShearOptIsTarget
INVARIANT WiderThanStep
INVARIANT FdPointFeasible
CHECK_DEADLOCK FALSE
