SPECIFICATION Spec
CONSTANTS
  MaxOps = 2
  Opts <- MC_Opt1
  Feats <- MC_FeatsPool
  Stages <- MC_AllStages
  Cb = "none"
  CbGate = "asis"
  ActDis <- MC_ActOn
  EKin = "ideal"
  Phased = FALSE
  KeepHist = TRUE
INVARIANT TypeOK
INVARIANT FreshAfterForward
INVARIANT FreshAfterSkip
INVARIANT FreshAfterInvSkip
INVARIANT SplitEq
INVARIANT ReadOnlyCalls
INVARIANT LazySound
CHECK_DEADLOCK FALSE
